import ZarrsModel.Lemmas.ShardPEIndex
/- helper lemmas for C05, part 3: the shape of the written value and what it decodes to -/
namespace Zarrs.ShardPE
open Zarrs Zarrs.Codec Zarrs.Shard

/-! ### the shape of the value after a partial encode -/

/-- `v'` holds `data` at offset `off`, the index bytes `ib` at the declared location, and agrees with `v` on every
entry satisfying `P` (the live entries that were not touched) -/
structure Frame (c : Cfg) (P : Nat × Nat → Prop) (v : Bytes) (off : Nat) (data ib v' : Bytes) : Prop where
  split : ∃ pre post, v' = pre ++ data ++ post ∧ pre.length = off
  index : indexBytes c v' = some ib
  keep : ∀ e, P e → e.1 + e.2 ≤ off ∧ slice v' e.1 (e.1 + e.2) = slice v e.1 (e.1 + e.2) ∧
      (e.1 + e.2 ≤ (indexRegion c v'.length).1 ∨ (indexRegion c v'.length).2 ≤ e.1)
  fresh : ∀ o l, off ≤ o → o + l ≤ off + data.length →
      o + l ≤ (indexRegion c v'.length).1 ∨ (indexRegion c v'.length).2 ≤ o
  endLen : c.indexAtEnd = true → v'.length = off + data.length + indexSize c

/-- the live entries no update touches -/
def Kept (idx : List (Nat × Nat)) (us : List (Nat × Option Bytes)) (e : Nat × Nat) : Prop :=
  isLive e = true ∧ ∃ j : Nat, idx[j]? = some e ∧ j ∉ us.map (·.1)

theorem decEntry_dead (v : Bytes) (e : Nat × Nat) (h : isLive e = false) : decEntry v e = .ok none := by
  rw [(not_isLive_iff e).mp h]; simp [decEntry]

theorem decEntry_live (v : Bytes) (e : Nat × Nat) (h : isLive e = true) :
    decEntry v e = if e.1 + e.2 > v.length then .error .other else .ok (some (slice v e.1 (e.1 + e.2))) := by
  unfold isLive at h
  cases hx : (e.1 == sentinel && e.2 == sentinel) with
  | true => rw [hx] at h; simp at h
  | false => simp [decEntry, hx]

theorem frame_result (c : Cfg) (idx : List (Nat × Nat)) (v : Bytes) (chunks : List (Option Bytes))
    (us : List (Nat × Option Bytes)) (off : Nat) (v' : Bytes)
    (hlen : idx.length = c.nChunks)
    (hold : idx.mapM (decEntry v) = .ok chunks)
    (hb : ∀ e ∈ idx, e.1 < 2 ^ 64 ∧ e.2 < 2 ^ 64)
    (hpw : ∀ (i j : Nat) (a b : Nat × Nat), i ≠ j → idx[i]? = some a → idx[j]? = some b →
      isLive a = true → isLive b = true → Rel a b)
    (hu : (∀ u ∈ us, u.1 < c.nChunks) ∧ (us.map (·.1)).Nodup)
    (hs : off + (dataNew us).length < sentinel)
    (hf : Frame c (Kept idx us) v off (dataNew us) (encodeIndex c (idxNew idx us off)) v') :
    currentIndex c (some v') = some (idxNew idx us off) ∧
      decode c true v' = .ok (applyUpdates chunks us) ∧ wellFormed c v' = true := by
  obtain ⟨pre, post, hv', hpre⟩ := hf.split
  obtain ⟨hlc, hold'⟩ := (mapM_ok_iff _ _ _).mp hold
  have hvl : v'.length = off + (dataNew us).length + post.length := by rw [hv', ← hpre]; simp [Nat.add_assoc]
  -- facts about the entry of the `k`-th update
  have htouch : ∀ (k j : Nat) (ch : Option Bytes) (e : Nat × Nat), us[k]? = some (j, ch) →
      (entriesFrom off (us.map (·.2)))[k]? = some e →
      decEntry v' e = .ok ch ∧ (ch = none → e = (sentinel, sentinel)) ∧
        (∀ b, ch = some b → isLive e = true ∧ off ≤ e.1 ∧ e.1 + e.2 ≤ off + (dataNew us).length) := by
    intro k j ch e hk he
    have := touched_entry (us.map (fun (u : Nat × Option Bytes) => u.2)) pre post v' hv' (by rw [hpre]; exact hs) k ch e (by simp [hk])
      (by rw [hpre]; exact he)
    rwa [hpre] at this
  have htouch_live : ∀ (k j : Nat) (ch : Option Bytes) (e : Nat × Nat), us[k]? = some (j, ch) →
      (entriesFrom off (us.map (·.2)))[k]? = some e → isLive e = true →
      off ≤ e.1 ∧ e.1 + e.2 ≤ off + (dataNew us).length := by
    intro k j ch e hk he hl
    obtain ⟨_, h2, h3⟩ := htouch k j ch e hk he
    cases ch with
    | none => rw [h2 rfl] at hl; simp [isLive] at hl
    | some b => exact (h3 b rfl).2
  have hkept : ∀ (j : Nat) (e : Nat × Nat), j ∉ us.map (·.1) → idx[j]? = some e → isLive e = true → Kept idx us e :=
    fun j e hj he hl => ⟨hl, j, he, hj⟩
  have hcases := idxNew_cases idx us off hu.2
  -- the new index decodes
  have hb2 : ∀ e ∈ idxNew idx us off, e.1 < 2 ^ 64 ∧ e.2 < 2 ^ 64 := by
    intro e he
    obtain ⟨j, hj⟩ := List.mem_iff_getElem?.mp he
    rcases hcases j e hj with ⟨_, h⟩ | ⟨k, ch, hk, h⟩
    · exact hb e (List.mem_iff_getElem?.mpr ⟨j, h⟩)
    · exact entriesFrom_bounds (us.map (fun (u : Nat × Option Bytes) => u.2)) off hs e (List.mem_iff_getElem?.mpr ⟨k, h⟩)
  have hdi : decodeIndex c true (encodeIndex c (idxNew idx us off)) = .ok (idxNew idx us off) :=
    decodeIndex_encodeIndex c true _ (by rw [idxNew_length, hlen]) hb2
  refine ⟨?_, ?_, ?_⟩
  · unfold currentIndex
    simp only [hf.index, hdi]
    rfl
  · rw [decode_def, hf.index]
    simp only
    rw [hdi]
    simp only
    rw [mapM_ok_iff]
    refine ⟨by rw [idxNew_length, applyUpdates_length, hlc], ?_⟩
    intro j e hj
    have hjl : j < idx.length := by
      have := (List.getElem?_eq_some_iff.mp hj).1
      rwa [idxNew_length] at this
    rcases hcases j e hj with ⟨hjn, h⟩ | ⟨k, ch, hk, h⟩
    · obtain ⟨b, hb1, hb2'⟩ := hold' j e h
      refine ⟨b, by rw [applyUpdates_untouched _ _ _ hjn]; exact hb1, ?_⟩
      cases hl : isLive e with
      | false => rw [decEntry_dead _ _ hl] at hb2' ⊢; exact hb2'
      | true =>
        obtain ⟨k1, k2, _⟩ := hf.keep e (hkept j e hjn h hl)
        rw [decEntry_live _ _ hl] at hb2' ⊢
        split at hb2'
        · cases hb2'
        · rw [if_neg (by omega), k2]; exact hb2'
    · exact ⟨ch, applyUpdates_touched _ _ hu.2 k j ch hk (by omega), (htouch k j ch e hk h).1⟩
  · rw [wellFormed_iff]
    refine ⟨_, _, hf.index, hdi, ?_, ?_⟩
    · intro e he hl
      obtain ⟨j, hj⟩ := List.mem_iff_getElem?.mp he
      rcases hcases j e hj with ⟨hjn, h⟩ | ⟨k, ch, hk, h⟩
      · obtain ⟨k1, _, k3⟩ := hf.keep e (hkept j e hjn h hl)
        exact ⟨by omega, k3⟩
      · obtain ⟨h1, h2⟩ := htouch_live k j ch e hk h hl
        exact ⟨by omega, hf.fresh e.1 e.2 h1 h2⟩
    · intro i j a b hij hi hj hla hlb
      rcases hcases i a hi with ⟨hin, ha⟩ | ⟨ki, chi, hki, ha⟩
      · rcases hcases j b hj with ⟨hjn, hb'⟩ | ⟨kj, chj, hkj, hb'⟩
        · exact hpw i j a b hij ha hb' hla hlb
        · have := (hf.keep a (hkept i a hin ha hla)).1
          have := (htouch_live kj j chj b hkj hb' hlb).1
          unfold Rel; omega
      · rcases hcases j b hj with ⟨hjn, hb'⟩ | ⟨kj, chj, hkj, hb'⟩
        · have := (hf.keep b (hkept j b hjn hb' hlb)).1
          have := (htouch_live ki i chi a hki ha hla).1
          unfold Rel; omega
        · have hkk : ki ≠ kj := by
            intro h; subst h; rw [hki] at hkj; cases hkj; exact hij rfl
          have hp := List.pairwise_iff_getElem.mp (entriesFrom_pairwise (us.map (fun (u : Nat × Option Bytes) => u.2)) off)
          obtain ⟨hki', rfl⟩ := List.getElem?_eq_some_iff.mp ha
          obtain ⟨hkj', rfl⟩ := List.getElem?_eq_some_iff.mp hb'
          rcases Nat.lt_or_gt_of_ne hkk with hlt | hgt
          · exact Or.inl (hp ki kj hki' hkj' hlt hla hlb)
          · exact Or.inr (Or.inl (hp kj ki hkj' hki' hgt hlb hla))


/-! ### the four shapes of the written value -/

theorem frame_end_fresh (c : Cfg) (P : Nat × Nat → Prop) (v data ib : Bytes) (hc : c.indexAtEnd = true)
    (hib : ib.length = indexSize c) (hP : ∀ e, ¬ P e) :
    Frame c P v 0 data ib (specSetPartial [] 0 (data ++ ib)) := by
  rw [specSetPartial_nil]
  refine ⟨⟨[], ib, by simp, rfl⟩, ?_, fun e he => absurd he (hP e), ?_, ?_⟩
  · unfold indexBytes
    rw [if_neg (by simp [hib]), if_pos hc, drop_app _ _ _ (by simp [hib])]
  · intro o l _ h
    left
    simp only [indexRegion, hc, if_true, List.length_append, hib]
    omega
  · intro _; simp [hib]

theorem frame_start_fresh (c : Cfg) (P : Nat × Nat → Prop) (v data ib : Bytes) (hc : c.indexAtEnd = false)
    (hib : ib.length = indexSize c) (hP : ∀ e, ¬ P e) :
    Frame c P v (indexSize c) data ib (specSetPartial (specSetPartial [] 0 ib) (indexSize c) data) := by
  rw [specSetPartial_nil, specSetPartial_of_le _ _ _ (by omega), ← hib, List.take_length,
    List.drop_eq_nil_of_le (by omega), List.append_nil]
  refine ⟨⟨ib, [], by simp, rfl⟩, ?_, fun e he => absurd he (hP e), ?_, ?_⟩
  · unfold indexBytes
    rw [if_neg (by simp [hib]), hc, ← hib, take_app _ _ _ rfl]
    simp
  · intro o l h _
    right
    simp only [indexRegion, hc, Bool.false_eq_true, if_false, ← hib]
    exact h
  · intro h; rw [hc] at h; cases h

theorem frame_end_alive (c : Cfg) (P : Nat × Nat → Prop) (v data ib : Bytes) (off : Nat) (hc : c.indexAtEnd = true)
    (hib : ib.length = indexSize c) (hv : v.length = off + indexSize c) (hP : ∀ e, P e → e.1 + e.2 ≤ off) :
    Frame c P v off data ib (specSetPartial v off (data ++ ib)) := by
  have hto : (v.take off).length = off := by rw [List.length_take]; omega
  rw [specSetPartial_of_le _ _ _ (by omega), List.drop_eq_nil_of_le (by simp [hib]; omega), List.append_nil,
    ← List.append_assoc]
  have hl : (v.take off ++ data ++ ib).length = off + data.length + indexSize c := by
    simp only [List.length_append, hto, hib]
  refine ⟨⟨v.take off, ib, rfl, hto⟩, ?_, ?_, ?_, fun _ => hl⟩
  · unfold indexBytes
    rw [if_neg (by omega), if_pos hc, drop_app _ _ _ (by simp only [List.length_append, hto, hib]; omega)]
  · intro e he
    have h1 := hP e he
    refine ⟨h1, ?_, ?_⟩
    · rw [slice_app_left _ _ _ _ (by simp [hto]; omega), slice_app_left _ _ _ _ (by omega), slice_take _ _ _ _ h1]
    · left
      simp only [indexRegion, hc, if_true, hl]
      omega
  · intro o l _ h
    left
    simp only [indexRegion, hc, if_true, hl]
    omega

theorem frame_start_alive (c : Cfg) (P : Nat × Nat → Prop) (v data ib : Bytes) (off : Nat) (hc : c.indexAtEnd = false)
    (hib : ib.length = indexSize c) (h1 : indexSize c ≤ off) (h2 : off ≤ v.length)
    (hP : ∀ e, P e → e.1 + e.2 ≤ off ∧ (e.1 + e.2 ≤ 0 ∨ indexSize c ≤ e.1)) :
    Frame c P v off data ib (specSetPartial (specSetPartial v 0 ib) off data) := by
  have hv1 : specSetPartial v 0 ib = ib ++ v.drop (indexSize c) := by
    rw [specSetPartial_of_le _ _ _ (by omega)]; simp [hib]
  rw [hv1]
  have hl1 : (ib ++ v.drop (indexSize c)).length = v.length := by simp [hib]; omega
  rw [specSetPartial_of_le _ _ _ (by omega)]
  have hto : ((ib ++ v.drop (indexSize c)).take off).length = off := by rw [List.length_take]; omega
  refine ⟨⟨_, _, rfl, hto⟩, ?_, ?_, ?_, ?_⟩
  · unfold indexBytes
    rw [if_neg (by simp only [List.length_append, hto]; omega), hc, List.append_assoc,
      List.take_append_of_le_length (i := indexSize c) (by omega),
      List.take_take, Nat.min_eq_left h1, ← hib, take_app _ _ _ rfl]
    simp
  · intro e he
    obtain ⟨k1, k2⟩ := hP e he
    refine ⟨k1, ?_, ?_⟩
    · rcases k2 with k2 | k2
      · have : e.1 + e.2 = e.1 := by omega
        rw [this, slice_self, slice_self]
      · rw [List.append_assoc, slice_app_left _ _ _ _ (by omega), slice_take _ _ _ _ k1,
          slice_app_right _ _ _ _ (by omega), slice_drop, hib]
        congr 1 <;> omega
    · simp only [indexRegion, hc, Bool.false_eq_true, if_false]
      exact k2
  · intro o l h _
    right
    simp only [indexRegion, hc, Bool.false_eq_true, if_false]
    omega
  · intro h; rw [hc] at h; cases h


/-! ### `liveEnd` of the new index -/

theorem dataOf_all_none (vals : List (Option Bytes)) (h : ¬ ∃ ch ∈ vals, Option.isSome ch = true) : dataOf vals = [] := by
  induction vals with
  | nil => rfl
  | cons ch cs ih =>
    cases ch with
    | some b => exact absurd ⟨some b, by simp, rfl⟩ h
    | none =>
      rw [dataOf_none]
      exact ih (fun ⟨ch, hm, hs⟩ => h ⟨ch, by simp [hm], hs⟩)

/-- the last stored update ends where the appended data ends -/
theorem entriesFrom_last (vals : List (Option Bytes)) : ∀ (off : Nat), (∃ ch ∈ vals, Option.isSome ch = true) →
    off + (dataOf vals).length < sentinel →
    ∃ (k : Nat) (e : Nat × Nat), (entriesFrom off vals)[k]? = some e ∧ isLive e = true ∧
      e.1 + e.2 = off + (dataOf vals).length := by
  induction vals with
  | nil => intro off h; simp at h
  | cons ch cs ih =>
    intro off h hs
    cases ch with
    | none =>
      have h' : ∃ ch ∈ cs, Option.isSome ch = true := by
        obtain ⟨ch, hm, hi⟩ := h
        rcases List.mem_cons.mp hm with rfl | hm
        · cases hi
        · exact ⟨ch, hm, hi⟩
      obtain ⟨k, e, h1, h2, h3⟩ := ih off h' hs
      exact ⟨k + 1, e, by simpa [entriesFrom] using h1, h2, h3⟩
    | some b =>
      simp only [dataOf_some, List.length_append] at hs ⊢
      by_cases h' : ∃ ch ∈ cs, Option.isSome ch = true
      · obtain ⟨k, e, h1, h2, h3⟩ := ih (off + b.length) h' (by omega)
        exact ⟨k + 1, e, by simpa [entriesFrom] using h1, h2, by omega⟩
      · rw [dataOf_all_none cs h']
        exact ⟨0, (off, b.length), by simp [entriesFrom], isLive_of_lt _ (by simp only; omega), by simp⟩

theorem liveEnd_idxNew (idx : List (Nat × Nat)) (us : List (Nat × Option Bytes)) (off : Nat)
    (hn : (us.map (·.1)).Nodup) (hr : ∀ u ∈ us, u.1 < idx.length) (hs : off + (dataNew us).length < sentinel)
    (hk : ∀ (j : Nat) (e : Nat × Nat), j ∉ us.map (·.1) → idx[j]? = some e → isLive e = true → e.1 + e.2 ≤ off)
    (hw : (∃ u ∈ us, Option.isSome u.2 = true) ∨ off = 0 ∨ off = liveEnd (idxDead idx us)) :
    liveEnd (idxNew idx us off) = off + (dataNew us).length := by
  apply liveEnd_eq
  · intro e he hl
    obtain ⟨j, hj⟩ := List.mem_iff_getElem?.mp he
    rcases idxNew_cases idx us off hn j e hj with ⟨hjn, h⟩ | ⟨k, ch, hk', h⟩
    · have := hk j e hjn h hl; omega
    · rcases entriesFrom_mem (us.map (fun (u : Nat × Option Bytes) => u.2)) off e
        (List.mem_iff_getElem?.mpr ⟨k, h⟩) with rfl | h'
      · simp [isLive] at hl
      · exact h'.2
  · by_cases hsome : ∃ u ∈ us, Option.isSome u.2 = true
    · right
      have hsome' : ∃ ch ∈ us.map (fun (u : Nat × Option Bytes) => u.2), Option.isSome ch = true := by
        obtain ⟨u, hu, hi⟩ := hsome
        exact ⟨u.2, List.mem_map.mpr ⟨u, hu, rfl⟩, hi⟩
      obtain ⟨k, e, h1, h2, h3⟩ := entriesFrom_last _ off hsome' hs
      have hkl : k < us.length := by
        have := (List.getElem?_eq_some_iff.mp h1).1
        rwa [entriesFrom_length, List.length_map] at this
      obtain ⟨e', h4, h5⟩ := idxNew_touched idx us off hn k us[k].1 us[k].2 (List.getElem?_eq_getElem hkl)
        (hr _ (List.getElem_mem hkl))
      rw [h1] at h4
      cases h4
      exact ⟨e, List.mem_iff_getElem?.mpr ⟨_, h5⟩, h2, h3⟩
    · have hd : dataNew us = [] := dataOf_all_none _ (by
        rintro ⟨ch, hm, hi⟩
        obtain ⟨u, hu, rfl⟩ := List.mem_map.mp hm
        exact hsome ⟨u, hu, hi⟩)
      rw [hd, List.length_nil, Nat.add_zero]
      rcases hw with hw | hw | hw
      · exact absurd hw hsome
      · exact Or.inl hw
      · by_cases h0 : off = 0
        · exact Or.inl h0
        · right
          obtain ⟨e, he, hl, hv⟩ := liveEnd_attained (idxDead idx us) (by omega)
          obtain ⟨j, hj⟩ := List.mem_iff_getElem?.mp he
          have hjn : j ∉ us.map (·.1) := by
            intro hjm
            rw [idxDead_touched idx us j hjm e hj] at hl
            simp [isLive] at hl
          refine ⟨e, List.mem_iff_getElem?.mpr ⟨j, ?_⟩, hl, by omega⟩
          rw [idxNew_untouched idx us off j hjn, ← idxDead_untouched idx us j hjn]
          exact hj

theorem tight_of (c : Cfg) (v' : Bytes) (idx2 : List (Nat × Nat)) (hcur : currentIndex c (some v') = some idx2)
    (h : c.indexAtEnd = true → v'.length = liveEnd idx2 + indexSize c) : tight c v' = true := by
  unfold tight
  rw [hcur]
  cases hc : c.indexAtEnd
  · rfl
  · simp [h hc]

/-! ### what an existing well-formed value provides -/

theorem readEntries_length (big : Bool) (n : Nat) (b : Bytes) : (readEntries big n b).length = n := by
  induction n generalizing b with
  | zero => rfl
  | succ n ih => simp [readEntries, ih]

theorem decodeIndex_length (c : Cfg) (validate : Bool) (ib : Bytes) (es : List (Nat × Nat))
    (h : decodeIndex c validate ib = .ok es) : es.length = c.nChunks := by
  unfold decodeIndex at h
  split at h
  · cases h
  · split at h
    · split at h
      · cases h; exact readEntries_length _ _ _
      · cases h
    · cases h; exact readEntries_length _ _ _

theorem old_facts (c : Cfg) (v : Bytes) (chunks : List (Option Bytes))
    (hdec : decode c true v = .ok chunks) (hwf : wellFormed c v = true) (hsmall : v.length < sentinel) :
    ∃ idx, currentIndex c (some v) = some idx ∧ idx.length = c.nChunks ∧ idx.mapM (decEntry v) = .ok chunks ∧
      (∀ e ∈ idx, e.1 < 2 ^ 64 ∧ e.2 < 2 ^ 64) ∧ WF c v.length idx ∧ indexSize c ≤ v.length := by
  obtain ⟨ib, idx, hib, hdi, hWF⟩ := (wellFormed_iff c v).mp hwf
  rw [decode_def, hib] at hdec
  simp only [hdi] at hdec
  refine ⟨idx, ?_, decodeIndex_length c true ib idx hdi, hdec, ?_, hWF, ?_⟩
  · unfold currentIndex
    simp only [hib, hdi]
    rfl
  · intro e he
    have := sentinel_lt
    cases hl : isLive e with
    | false => rw [(not_isLive_iff e).mp hl]; exact ⟨this, this⟩
    | true => have := (hWF.1 e he hl).1; constructor <;> omega
  · unfold indexBytes at hib
    split at hib
    · cases hib
    · omega

end Zarrs.ShardPE
