import ZarrsModel.Lemmas.FsStoreSteps
/- the operations of the filesystem store against the ordered map: writes (state) and reads of one key -/
set_option Elab.async false
namespace Zarrs.Fs
open Zarrs

theorem splitPath_inj {a b : Key} (h : splitPath a = splitPath b) : a = b := by
  rw [← join_split a, ← join_split b, h]

theorem prefixPath_spec {p : Key} {path : List Name} (h : prefixPath p = some path) :
    p = dirKey path ∧ (∀ n ∈ path, plainName n = true) := by
  unfold prefixPath at h
  split at h
  · rename_i he
    simp only [Option.some.injEq] at h
    subst h
    have : p = [] := by simpa using he
    exact ⟨by rw [this]; rfl, by simp⟩
  · split at h
    · rename_i hl
      obtain ⟨h1, h2, h3, h4⟩ := keyPath_spec h
      refine ⟨?_, h3⟩
      rw [dirKey_ne _ h2, h4]
      have hl' : p.getLast? = some '/' := by simpa using hl
      obtain ⟨q, rfl⟩ := List.getLast?_eq_some_iff.1 hl'
      simp
    · cases h

theorem content_stat_kind_fileOf (s : FsState) (hi : FsInv s) (k : Key) :
    (absFs s).get k = ((FsState.content s).stat (splitPath k)).kind.fileOf := by
  rw [absFs_get s hi, Tree.fileAt_eq_kind]

/-! ### writes -/

theorem set_abs (s : FsState) (hi : FsInv s) (k : Key) (v : Bytes) (path : List Name)
    (hk : keyPath k = some path) (hfree : statFree s path = true) :
    ∃ t', s.setImpl path v 0 true = .ok (some t') ∧ t'.Inv ∧ absFs (some t') = (absFs s).put k v ∧
      ∀ p, (t'.stat p).kind = Tree.afterSet (FsState.content s) path v p := by
  obtain ⟨hpath, hne, hpl, hjoin⟩ := keyPath_spec hk
  obtain ⟨t', h1, h2, h3⟩ := setImpl_ok s hi path hne hpl hfree v 0 true
  simp only [if_true, specSetPartial_nil_zero] at h3
  refine ⟨t', h1, h2, ?_, h3⟩
  apply KV.ext_sorted _ _ (absFs_sorted _) (Zarrs.KV.put_sorted _ (absFs_sorted _) _ _)
  intro k'
  have hfree' := (statFree_iff s path hne).1 hfree
  rw [content_stat_kind_fileOf (some t') h2 k']
  show ((t'.stat (splitPath k')).kind).fileOf = _
  rw [h3, Tree.fileOf_afterSet _ _ _ _ hfree']
  by_cases hkk : k' = k
  · subst hkk
    rw [Zarrs.KV.get_put_same, if_pos hpath.symm]
  · rw [Zarrs.KV.get_put_other _ _ _ _ hkk, absFs_get s hi, if_neg]
    intro e
    rw [hpath] at e
    exact hkk (splitPath_inj e)

theorem erase_abs (s : FsState) (hi : FsInv s) (k : Key) (path : List Name)
    (hk : keyPath k = some path) (hfree : statFree s path = true) :
    ∃ s', s.eraseKey path = .ok s' ∧ FsInv s' ∧ absFs s' = (absFs s).erase k ∧
      ∀ p, p ≠ [] → ((FsState.content s').stat p).kind =
        if path.isPrefixOf p then .noent else ((FsState.content s).stat p).kind := by
  obtain ⟨hpath, hne, hpl, hjoin⟩ := keyPath_spec hk
  obtain ⟨s', h1, h2, h3⟩ := eraseKey_ok s hi path hne hfree
  refine ⟨s', h1, h2, ?_, h3⟩
  apply KV.ext_sorted _ _ (absFs_sorted _) (Zarrs.KV.erase_sorted _ (absFs_sorted _) _)
  intro k'
  have hfree' := (statFree_iff s path hne).1 hfree
  rw [content_stat_kind_fileOf s' h2 k', h3 _ (splitPath_ne_nil k'), Zarrs.KV.get_erase]
  by_cases hpre : path.isPrefixOf (splitPath k') = true
  · rw [if_pos hpre]
    by_cases hkk : k' = k
    · rw [if_pos hkk]; rfl
    · rw [if_neg hkk, absFs_get s hi,
        Tree.fileAt_of_free_prefix _ path _ hfree' (fun e => hkk (splitPath_inj (e.trans hpath))) (Or.inr hpre)]
      rfl
  · rw [if_neg hpre, if_neg, content_stat_kind_fileOf s hi]
    intro e
    subst e
    rw [← hpath] at hpre
    simp at hpre

theorem erasePrefix_abs_free (s : FsState) (hi : FsInv s) (p : Key) (path : List Name)
    (hp : prefixPath p = some path) (hfree : dirFree s path = true) :
    ∃ s', s.erasePrefix path = .ok s' ∧ FsInv s' ∧
      absFs s' = (absFs s).filter (fun kv => !hasPrefix kv.1 p) ∧
      ∀ q, q ≠ [] → ((FsState.content s').stat q).kind =
        if path.isPrefixOf q then .noent else ((FsState.content s).stat q).kind := by
  obtain ⟨hpk, hpl⟩ := prefixPath_spec hp
  obtain ⟨s', h1, h2, h3⟩ := erasePrefix_ok s hi path hfree
  refine ⟨s', h1, h2, ?_, h3⟩
  apply KV.ext_sorted _ _ (absFs_sorted _) (Zarrs.KV.filter_sorted _ (absFs_sorted _) _)
  intro k'
  have hspec := Spec.erasePrefix_get (absFs s) p k'
  simp only [Spec.step] at hspec
  rw [hspec, content_stat_kind_fileOf s' h2 k', h3 _ (splitPath_ne_nil k'), absFs_get s hi]
  cases hf : (FsState.content s).fileAt (splitPath k') with
  | none =>
    rw [Tree.fileAt_eq_kind] at hf
    by_cases h1 : path.isPrefixOf (splitPath k') = true <;> by_cases h2 : hasPrefix k' p = true <;>
      simp only [h1, h2, if_true, if_false, hf, Bool.false_eq_true] <;> rfl
  | some b =>
    have hplain := Tree.fileAt_plain _ hi.content _ _ hf
    have hiff : hasPrefix k' p = true ↔ path.isPrefixOf (splitPath k') = true := by
      unfold hasPrefix
      rw [hpk]
      conv => lhs; rw [← join_split k']
      rw [dirKey_prefix_iff path (splitPath k') (splitPath_ne_nil k')
        (fun n hn => (plainName_spec (hpl n hn)).2) (fun n hn => (plainName_spec (hplain n hn)).2),
        List.isPrefixOf_iff_prefix]
      constructor
      · rintro ⟨rest, _, h⟩; exact ⟨rest, h.symm⟩
      · rintro ⟨rest, h⟩
        refine ⟨rest, ?_, h.symm⟩
        intro e
        subst e
        rw [List.append_nil] at h
        -- the prefix directory itself is not a file
        by_cases hpe : path = []
        · rw [hpe] at h; exact splitPath_ne_nil k' h.symm
        · rw [← h] at hf
          rcases (dirFree_iff s path hpe).1 hfree with hh | ⟨c, hh⟩ <;>
            · unfold Tree.fileAt at hf; rw [hh] at hf; cases hf
    by_cases h1 : path.isPrefixOf (splitPath k') = true
    · rw [if_pos h1, if_pos (hiff.2 h1)]; rfl
    · rw [if_neg h1, if_neg (fun h => h1 (hiff.1 h)), ← Tree.fileAt_eq_kind, hf]

/-- `erase_prefix` (repaired) refines the ordered map for EVERY modelled prefix: also one that names a key or lies
below one (then nothing is erased and no key has the prefix) -/
theorem erasePrefix_abs (s : FsState) (hi : FsInv s) (p : Key) (path : List Name)
    (hp : prefixPath p = some path) :
    ∃ s', s.erasePrefix path = .ok s' ∧ FsInv s' ∧
      absFs s' = (absFs s).filter (fun kv => !hasPrefix kv.1 p) ∧
      ∀ q, q ≠ [] → (((FsState.content s').stat q).kind = .noent ∨
        ((FsState.content s').stat q).kind = ((FsState.content s).stat q).kind) := by
  by_cases hfree : dirFree s path = true
  · obtain ⟨s', h1, h2, h3, h4⟩ := erasePrefix_abs_free s hi p path hp hfree
    refine ⟨s', h1, h2, h3, ?_⟩
    intro q hq
    rw [h4 q hq]
    split
    · exact Or.inl rfl
    · exact Or.inr rfl
  · obtain ⟨hpk, hpl⟩ := prefixPath_spec hp
    have hne : path ≠ [] := by
      intro e; subst e
      apply hfree
      cases s <;> rfl
    have hblk : (∃ b, (FsState.content s).stat path = .file b) ∨ (FsState.content s).stat path = .notdir := by
      have : ¬ ((FsState.content s).stat path = .noent ∨ ∃ c, (FsState.content s).stat path = .dir c) :=
        fun h => hfree ((dirFree_iff s path hne).2 h)
      cases hs : (FsState.content s).stat path with
      | noent => exact absurd (Or.inl hs) this
      | dir c => exact absurd (Or.inr ⟨c, hs⟩) this
      | file b => exact Or.inl ⟨b, rfl⟩
      | notdir => exact Or.inr rfl
    refine ⟨s, erasePrefix_blocked s path hne hblk, hi, ?_, fun q _ => Or.inr rfl⟩
    apply KV.ext_sorted _ _ (absFs_sorted _) (Zarrs.KV.filter_sorted _ (absFs_sorted _) _)
    intro k'
    have hspec := Spec.erasePrefix_get (absFs s) p k'
    simp only [Spec.step] at hspec
    rw [hspec]
    by_cases hpre : hasPrefix k' p = true
    · rw [if_pos hpre]
      -- a key below the prefix would make the prefix path a directory
      cases hg : (absFs s).get k' with
      | none => rfl
      | some v =>
        exfalso
        rw [absFs_get s hi] at hg
        have hplain := Tree.fileAt_plain _ hi.content _ _ hg
        unfold hasPrefix at hpre
        rw [hpk, ← join_split k'] at hpre
        obtain ⟨rest, hr, hsp⟩ := (dirKey_prefix_iff path (splitPath k') (splitPath_ne_nil k')
          (fun n hn => (plainName_spec (hpl n hn)).2) (fun n hn => (plainName_spec (hplain n hn)).2)).1 hpre
        rw [hsp] at hg
        unfold Tree.fileAt at hg
        rw [Tree.stat_append] at hg
        rcases hblk with ⟨b, hb⟩ | hb
        · rw [hb] at hg
          cases rest with
          | nil => exact hr rfl
          | cons x xs => cases hg
        · rw [hb] at hg; cases hg
    · rw [if_neg hpre]

/-! ### reads of one key -/

theorem getKey_abs (s : FsState) (hi : FsInv s) (k : Key) (path : List Name)
    (hk : keyPath k = some path) (hfree : statFree s path = true) :
    getKey s path = .ok ((absFs s).get k) := by
  obtain ⟨hpath, hne, _, _⟩ := keyPath_spec hk
  rw [absFs_get s hi, ← hpath]
  unfold getKey Tree.fileAt
  rw [stat_content s path hne]
  rcases (statFree_iff s path hne).1 hfree with h | ⟨b, h⟩ <;> rw [h]

theorem stat_abs (s : FsState) (hi : FsInv s) (k : Key) (path : List Name)
    (hk : keyPath k = some path) (hfree : statFree s path = true) :
    (s.stat path = .noent ∧ (absFs s).get k = none) ∨ ∃ b, s.stat path = .file b ∧ (absFs s).get k = some b := by
  obtain ⟨hpath, hne, _, _⟩ := keyPath_spec hk
  rw [absFs_get s hi, ← hpath, stat_content s path hne]
  unfold Tree.fileAt
  rcases (statFree_iff s path hne).1 hfree with h | ⟨b, h⟩
  · left; rw [h]; exact ⟨rfl, rfl⟩
  · right; exact ⟨b, by rw [h]; exact ⟨rfl, rfl⟩⟩

/-- each range the file read serves is the (possibly truncated) slice -/
theorem readRange_trunc (b : Bytes) (r : ByteRange) (x : Bytes) (h : readRange b r = some x) :
    x = r.extractTrunc b := by
  cases r with
  | fromStart o l =>
    cases l with
    | none =>
      simp only [readRange] at h
      split at h
      · simp only [Option.some.injEq] at h
        subst h
        simp only [ByteRange.extractTrunc, slice]
        rw [List.take_of_length_le]
        simp
      · cases h
    | some l =>
      simp only [readRange] at h
      split at h
      · rename_i hc
        simp only [Option.some.injEq] at h
        subst h
        simp only [ByteRange.extractTrunc, slice]
        rw [Nat.min_eq_left hc]
      · cases h
  | suffix l =>
    simp only [readRange] at h
    split at h
    · simp only [Option.some.injEq] at h
      subst h
      simp only [ByteRange.extractTrunc, slice]
      rw [List.take_of_length_le]
      simp
    · cases h

theorem readRange_valid (b : Bytes) (r : ByteRange) (h : r.valid b.length = true) :
    readRange b r = some (r.extract b) := by
  have ht := ByteRange.extractTrunc_of_valid b r h
  cases r with
  | fromStart o l =>
    cases l with
    | none =>
      simp only [ByteRange.valid, Option.getD_none, Nat.add_zero, decide_eq_true_eq] at h
      rw [← ht]
      simp only [readRange, ByteRange.extractTrunc, slice]
      rw [if_pos h, List.take_of_length_le]
      simp
    | some l =>
      simp only [ByteRange.valid, Option.getD_some, decide_eq_true_eq] at h
      simp only [readRange]
      rw [if_pos h]
      rfl
  | suffix l =>
    simp only [ByteRange.valid, decide_eq_true_eq] at h
    simp only [readRange]
    rw [if_pos h, ← ht]
    simp only [ByteRange.extractTrunc, slice]
    rw [List.take_of_length_le]
    simp

theorem readRanges_trunc (b : Bytes) (rs : List ByteRange) (xs : List Bytes) (h : readRanges b rs = some xs) :
    xs = rs.map (fun r => r.extractTrunc b) := by
  induction rs generalizing xs with
  | nil => simp only [readRanges, Option.some.injEq] at h; subst h; rfl
  | cons r rest ih =>
    simp only [readRanges] at h
    cases hr : readRange b r with
    | none => rw [hr] at h; cases h
    | some x =>
      rw [hr] at h
      cases hrs : readRanges b rest with
      | none => rw [hrs] at h; cases h
      | some ys =>
        rw [hrs] at h
        simp only [Option.some.injEq] at h
        subst h
        rw [List.map_cons, ← ih ys hrs, readRange_trunc b r x hr]

theorem readRanges_valid (b : Bytes) (rs : List ByteRange) (h : ∀ r ∈ rs, r.valid b.length = true) :
    readRanges b rs = some (rs.map (fun r => r.extract b)) := by
  induction rs with
  | nil => rfl
  | cons r rest ih =>
    simp only [readRanges]
    rw [readRange_valid b r (h r (List.mem_cons_self ..)), ih (fun x hx => h x (List.mem_cons_of_mem _ hx))]
    rfl

end Zarrs.Fs
