import ZarrsModel.Model.Vlen
/- helper lemmas for C03 (variable-length codecs), part 1: `ArrayBytes::Variable` — offsets view vs element view -/
set_option Elab.async false
namespace Zarrs.Vlen
open Zarrs Zarrs.Codec

/-- decidable equality of `Except` values (for the concrete examples) -/
instance exceptDecEq {ε α} [DecidableEq ε] [DecidableEq α] : DecidableEq (Except ε α)
  | .ok a, .ok b => if h : a = b then isTrue (by rw [h]) else isFalse (by intro h'; cases h'; exact h rfl)
  | .error a, .error b => if h : a = b then isTrue (by rw [h]) else isFalse (by intro h'; cases h'; exact h rfl)
  | .ok _, .error _ => isFalse (by intro h; cases h)
  | .error _, .ok _ => isFalse (by intro h; cases h)

/-! ### slices -/

theorem slice_length (b : Bytes) (a e : Nat) (h1 : a ≤ e) (h2 : e ≤ b.length) : (slice b a e).length = e - a := by
  simp only [slice, List.length_take, List.length_drop]; omega

theorem slice_self (b : Bytes) (a : Nat) : slice b a a = [] := by simp [slice]

theorem slice_zero_length (b : Bytes) : slice b 0 b.length = b := by simp [slice]

theorem slice_append_slice (b : Bytes) (a m e : Nat) (h1 : a ≤ m) (h2 : m ≤ e) :
    slice b a m ++ slice b m e = slice b a e := by
  unfold slice
  have hm : b.drop m = (b.drop a).drop (m - a) := by rw [List.drop_drop]; congr 1; omega
  have he : e - a = (m - a) + (e - m) := by omega
  rw [hm, he, List.take_add]

theorem slice_mid (p x q : Bytes) : slice (p ++ (x ++ q)) p.length (p.length + x.length) = x := by
  simp [slice]

/-! ### windows -/

theorem windows_length : ∀ (offs : List Nat), (windows offs).length = offs.length - 1
  | [] => rfl
  | [_] => rfl
  | a :: b :: rest => by
    simp only [windows, List.length_cons, windows_length (b :: rest)]; omega

theorem offsetsFrom_length (s : Nat) (xs : List Bytes) : (offsetsFrom s xs).length = xs.length + 1 := by
  induction xs generalizing s with
  | nil => rfl
  | cons x xs ih => simp [offsetsFrom, ih]

theorem windows_cons_offsetsFrom (a s : Nat) (xs : List Bytes) :
    windows (a :: offsetsFrom s xs) = (a, s) :: windows (offsetsFrom s xs) := by
  cases xs <;> rfl

theorem offsetsFrom_head (s : Nat) (xs : List Bytes) : (offsetsFrom s xs).head? = some s := by
  cases xs <;> rfl

theorem offsetsFrom_getLast (s : Nat) (xs : List Bytes) :
    (offsetsFrom s xs).getLast? = some (s + xs.flatten.length) := by
  induction xs generalizing s with
  | nil => rfl
  | cons x xs ih =>
    have : offsetsFrom (s + x.length) xs ≠ [] := by cases xs <;> simp [offsetsFrom]
    simp only [offsetsFrom, List.getLast?_cons_of_ne_nil this, ih, List.flatten_cons, List.length_append]
    congr 1; omega

/-! ### `validate_bytes_vlen` as a conjunction -/

theorem validLoop_cons_iff (len : Nat) : ∀ (os : List Nat) (last o r : Nat),
    validLoop len last (o :: os) = some r ↔
      last ≤ o ∧ o ≤ len ∧ offsetsOk len (o :: os) = true ∧ (o :: os).getLast? = some r
  | [], last, o, r => by
    simp only [validLoop, offsetsOk, windows, List.all_nil, List.getLast?_singleton, Option.some.injEq]
    by_cases h : (decide (o < last) || decide (o > len)) = true
    · simp only [h, if_true]
      simp only [Bool.or_eq_true, decide_eq_true_eq] at h
      constructor
      · intro hc; cases hc
      · intro ⟨h1, h2, _, _⟩; omega
    · simp only [h, Bool.false_eq_true, if_false, Option.some.injEq]
      simp only [Bool.or_eq_true, decide_eq_true_eq, not_or, Nat.not_lt] at h
      constructor
      · intro hr; exact ⟨h.1, h.2, trivial, hr⟩
      · intro ⟨_, _, _, hr⟩; exact hr
  | o' :: os, last, o, r => by
    have ih := validLoop_cons_iff len os o o' r
    have hl : (o :: o' :: os).getLast? = (o' :: os).getLast? := List.getLast?_cons_cons
    have hok : offsetsOk len (o :: o' :: os) = ((decide (o ≤ o') && decide (o' ≤ len)) && offsetsOk len (o' :: os)) := by
      simp [offsetsOk, windows]
    rw [hl, hok]
    by_cases h : (decide (o < last) || decide (o > len)) = true
    · simp only [validLoop, h, if_true]
      simp only [Bool.or_eq_true, decide_eq_true_eq] at h
      constructor
      · intro hc; cases hc
      · intro ⟨h1, h2, _, _⟩; omega
    · have h' := h
      simp only [Bool.or_eq_true, decide_eq_true_eq, not_or, Nat.not_lt] at h'
      have : validLoop len last (o :: o' :: os) = validLoop len o (o' :: os) := by
        rw [validLoop]; simp only [h, Bool.false_eq_true, if_false]
      rw [this, ih]
      simp only [Bool.and_eq_true, decide_eq_true_eq]
      constructor
      · intro ⟨a, b, c, d⟩; exact ⟨h'.1, h'.2, ⟨⟨a, b⟩, c⟩, d⟩
      · intro ⟨_, _, ⟨⟨a, b⟩, c⟩, d⟩; exact ⟨a, b, c, d⟩

/-- `ArrayBytes::validate` says: `n + 1` offsets, every consecutive pair ordered and inside the bytes, the last
offset equal to the number of bytes -/
theorem valid_iff (n : Nat) (v : VArr) :
    v.valid n = true ↔
      v.offsets.length = n + 1 ∧ offsetsOk v.data.length v.offsets = true ∧
      v.offsets.getLast? = some v.data.length := by
  unfold VArr.valid
  cases ho : v.offsets with
  | nil => simp
  | cons o os =>
    simp only [Bool.and_eq_true, beq_iff_eq]
    constructor
    · intro ⟨hl, hm⟩
      cases hv : validLoop v.data.length 0 (o :: os) with
      | none => rw [hv] at hm; cases hm
      | some r =>
        rw [hv] at hm
        simp only [beq_iff_eq] at hm
        have := (validLoop_cons_iff _ os 0 o r).mp hv
        exact ⟨hl, this.2.2.1, by rw [this.2.2.2, hm]⟩
    · intro ⟨hl, hok, hlast⟩
      refine ⟨hl, ?_⟩
      have hle : o ≤ v.data.length := by
        cases os with
        | nil => simp at hlast; omega
        | cons o' os' =>
          simp only [offsetsOk, windows, List.all_cons, Bool.and_eq_true, decide_eq_true_eq] at hok
          omega
      have := (validLoop_cons_iff _ os 0 o v.data.length).mpr ⟨Nat.zero_le _, hle, hok, hlast⟩
      rw [this]; simp

/-! ### element view -/

theorem elems_length (n : Nat) (v : VArr) (h : v.valid n = true) : v.elems.length = n := by
  have := ((valid_iff n v).mp h).1
  simp only [VArr.elems, List.length_map, windows_length, this]; omega

theorem elems_map_slice_offsetsFrom (xs : List Bytes) : ∀ (p : Bytes),
    (windows (offsetsFrom p.length xs)).map (fun w => slice (p ++ xs.flatten) w.1 w.2) = xs := by
  induction xs with
  | nil => intro p; rfl
  | cons x xs ih =>
    intro p
    simp only [offsetsFrom, windows_cons_offsetsFrom, List.map_cons, List.flatten_cons, slice_mid]
    congr 1
    have := ih (p ++ x)
    simp only [List.length_append, List.append_assoc] at this
    exact this

/-- the elements of the canonical value are the elements -/
theorem elems_ofElems (xs : List Bytes) : (VArr.ofElems xs).elems = xs := by
  have := elems_map_slice_offsetsFrom xs []
  simpa [VArr.elems, VArr.ofElems] using this

theorem validLoop_offsetsFrom (len : Nat) (xs : List Bytes) : ∀ (last s : Nat), last ≤ s →
    s + xs.flatten.length ≤ len → validLoop len last (offsetsFrom s xs) = some (s + xs.flatten.length) := by
  induction xs with
  | nil =>
    intro last s h1 h2
    simp only [List.flatten_nil, List.length_nil, Nat.add_zero] at h2
    have : (decide (s < last) || decide (s > len)) = false := by simp; omega
    simp [offsetsFrom, validLoop, this]
  | cons x xs ih =>
    intro last s h1 h2
    simp only [List.flatten_cons, List.length_append] at h2
    have : (decide (s < last) || decide (s > len)) = false := by simp; omega
    simp only [offsetsFrom, validLoop, this, Bool.false_eq_true, if_false]
    rw [ih s (s + x.length) (by omega) (by omega)]
    simp only [List.flatten_cons, List.length_append]
    congr 1; omega

/-- the canonical value is valid for its number of elements -/
theorem ofElems_valid (xs : List Bytes) : (VArr.ofElems xs).valid xs.length = true := by
  unfold VArr.valid VArr.ofElems
  simp only [offsetsFrom_length, beq_self_eq_true, Bool.true_and]
  rw [validLoop_offsetsFrom xs.flatten.length xs 0 0 (Nat.le_refl _) (by omega)]
  simp

theorem offsetsFrom_windows_slice (data : Bytes) : ∀ (offs : List Nat) (o : Nat),
    offsetsOk data.length (o :: offs) = true →
    offsetsFrom o ((windows (o :: offs)).map (fun w => slice data w.1 w.2)) = o :: offs
  | [], o, _ => rfl
  | o' :: os, o, h => by
    simp only [offsetsOk, windows, List.all_cons, Bool.and_eq_true, decide_eq_true_eq] at h
    have ih := offsetsFrom_windows_slice data os o' (by simpa [offsetsOk] using h.2)
    simp only [windows, List.map_cons, offsetsFrom]
    rw [slice_length data o o' h.1.1 h.1.2]
    have : o + (o' - o) = o' := by omega
    rw [this, ih]

theorem flatten_windows_slice (data : Bytes) : ∀ (offs : List Nat) (o last : Nat),
    offsetsOk data.length (o :: offs) = true → (o :: offs).getLast? = some last →
    ((windows (o :: offs)).map (fun w => slice data w.1 w.2)).flatten = slice data o last ∧ o ≤ last
  | [], o, last, _, hl => by
    simp only [List.getLast?_singleton, Option.some.injEq] at hl
    subst hl
    simp [windows, slice_self]
  | o' :: os, o, last, h, hl => by
    simp only [offsetsOk, windows, List.all_cons, Bool.and_eq_true, decide_eq_true_eq] at h
    rw [List.getLast?_cons_cons] at hl
    have ih := flatten_windows_slice data os o' last (by simpa [offsetsOk] using h.2) hl
    simp only [windows, List.map_cons, List.flatten_cons]
    rw [ih.1]
    exact ⟨slice_append_slice data o o' last h.1.1 ih.2, by omega⟩

/-- the concatenated elements are the bytes from the first offset on (bytes before it belong to no element) -/
theorem elems_flatten (n : Nat) (v : VArr) (h : v.valid n = true) :
    v.elems.flatten = v.data.drop (v.offsets.headD 0) := by
  obtain ⟨hl, hok, hlast⟩ := (valid_iff n v).mp h
  cases ho : v.offsets with
  | nil => rw [ho] at hl; simp at hl
  | cons o os =>
    rw [ho] at hok hlast
    have := (flatten_windows_slice v.data os o v.data.length hok hlast).1
    simp only [VArr.elems, ho, List.headD_cons]
    rw [this]
    simp only [slice]
    exact List.take_of_length_le (by simp)

/-- a valid value whose first offset is 0 is the canonical value of its elements: the two views carry the same
information -/
theorem ofElems_elems (n : Nat) (v : VArr) (h : v.valid n = true) (h0 : v.offsets.head? = some 0) :
    VArr.ofElems v.elems = v := by
  obtain ⟨hl, hok, hlast⟩ := (valid_iff n v).mp h
  cases ho : v.offsets with
  | nil => rw [ho] at hl; simp at hl
  | cons o os =>
    rw [ho] at h0 hok hlast
    simp only [List.head?_cons, Option.some.injEq] at h0
    subst h0
    have h1 := (flatten_windows_slice v.data os 0 v.data.length hok hlast).1
    have h2 := offsetsFrom_windows_slice v.data os 0 hok
    cases v with
    | mk data offsets =>
      simp only at ho h1 h2 ⊢
      subst ho
      simp only [VArr.ofElems, VArr.elems, h1, h2, slice_zero_length]

/-- a valid value holds the same elements as the canonical value of its elements (leading padding is dropped) -/
theorem elems_ofElems_elems (v : VArr) : (VArr.ofElems v.elems).elems = v.elems := elems_ofElems _

end Zarrs.Vlen
