import ZarrsModel.Model.MemConc
/- C18 helper lemmas, part 1: pure list facts — completeness of `perms`, and the executable checker
`linearizable` agrees with `∃ order, isLinearization` -/
namespace Zarrs.MemConc

theorem perm_of_nodup_subset_length {α} : ∀ (ops order : List α), ops.Nodup → (∀ x ∈ ops, x ∈ order) →
    order.length ≤ ops.length → order.Perm ops
  | [], order, _, _, hl => by
    have : order = [] := List.eq_nil_of_length_eq_zero (Nat.le_zero.mp hl)
    subst this; exact List.Perm.refl _
  | x :: xs, order, hnd, hsub, hl => by
    obtain ⟨a, b, rfl⟩ := List.append_of_mem (hsub x List.mem_cons_self)
    have hnd' := List.nodup_cons.mp hnd
    have ih := perm_of_nodup_subset_length xs (a ++ b) hnd'.2 (by
      intro y hy
      have hyx : y ≠ x := fun h => hnd'.1 (h ▸ hy)
      have := hsub y (List.mem_cons_of_mem _ hy)
      simp only [List.mem_append, List.mem_cons] at this ⊢
      rcases this with h | h | h
      · exact Or.inl h
      · exact absurd h hyx
      · exact Or.inr h) (by simp at hl ⊢; omega)
    exact List.perm_middle.trans (List.Perm.cons x ih)

/-- `perms` enumerates every permutation -/
theorem mem_perms_of_perm {α} : ∀ (ops order : List α), order.Perm ops → order ∈ perms ops
  | [], order, h => by simp [perms, h.eq_nil]
  | x :: xs, order, h => by
    obtain ⟨a, b, rfl⟩ := List.append_of_mem (h.symm.subset List.mem_cons_self)
    have h' : (a ++ b).Perm xs := (List.perm_middle.symm.trans h).cons_inv
    have ih := mem_perms_of_perm xs (a ++ b) h'
    simp only [perms, List.mem_flatMap, List.mem_map, List.mem_range]
    refine ⟨a ++ b, ih, a.length, by simp; omega, ?_⟩
    simp

theorem linearizable_iff_exists (a0 : Option Bytes) (ops : List Done) (final : Option Bytes) (hnd : ops.Nodup) :
    linearizable a0 ops final = true ↔ ∃ order, isLinearization a0 ops order final = true := by
  constructor
  · intro h
    simp only [linearizable, List.any_eq_true] at h
    obtain ⟨o, _, ho⟩ := h
    exact ⟨o, ho⟩
  · rintro ⟨o, ho⟩
    simp only [linearizable, List.any_eq_true]
    refine ⟨o, mem_perms_of_perm _ _ ?_, ho⟩
    simp only [isLinearization, Bool.and_eq_true, beq_iff_eq, List.all_eq_true, List.contains_iff_mem] at ho
    exact perm_of_nodup_subset_length ops o hnd (fun x hx => ho.1.1.1.2 x hx) (Nat.le_of_eq ho.1.1.1.1)

end Zarrs.MemConc
