import ZarrsModel.Lemmas.ArrayOn
import ZarrsModel.Lemmas.ChainSDecSize
set_option Elab.async false
/- helper lemmas for C01 on (nested) sharded chains: a serialisation of element lists (used only by the shadow
configuration of `Lemmas/ArrayOn.lean`), `fits` from the declared bounds, regular grids -/
namespace Zarrs.Partial
open Zarrs Zarrs.Codec

/-! ### an injective serialisation of lists of byte strings -/

def serElems (x : List Elem) : Bytes := x.length :: x.flatMap (fun e => e.length :: e)

def unserN : Nat → Bytes → Option (List Elem)
  | 0, _ => some []
  | _ + 1, [] => none
  | n + 1, l :: rest => (unserN n (rest.drop l)).map (rest.take l :: ·)

def unserElems : Bytes → Option (List Elem)
  | [] => none
  | n :: b => unserN n b

theorem unser_ser (x : List Elem) : unserElems (serElems x) = some x := by
  simp only [serElems, unserElems]
  induction x with
  | nil => rfl
  | cons e x ih =>
    simp only [List.length_cons, List.flatMap_cons, List.cons_append, unserN, List.drop_left, List.take_left, ih,
      Option.map_some]

/-! ### every encoded shard is short when the declared bounds are -/

/-- at every sharding level the inner chain declares a bound and the declared size of the shard (before the
bytes-to-bytes codecs) is below 2^64 - 1 -/
def ChainS.small : ChainS → Shape → Prop
  | .leaf _ _, _ => True
  | .shard a2a cfg ish _ inner _, sh =>
    ChainS.small inner ish ∧ ∃ m, inner.bound ish = some m ∧
      prod (zipDiv (shapesOf a2a sh) ish) * m +
        Shard.indexSize { cfg with nChunks := prod (zipDiv (shapesOf a2a sh) ish) } < Shard.sentinel

theorem fits_of_small {B : BStage → Prop} : ∀ (c : ChainS) (sh : Shape) (fill : Elem) (xs : List Elem),
    c.okWith aOk B sh fill → xs.length = prod sh → (∀ x ∈ xs, x.length = c.es) → c.small sh → c.fits sh fill xs := by
  intro c
  induction c with
  | leaf c keep => intro _ _ _ _ _ _ _; trivial
  | shard a2a cfg ish es inner b2b ih =>
    intro sh fill xs hok hxl hxe hsm
    obtain ⟨ha, ht, _, hfl, hies, hiok⟩ := hok
    obtain ⟨hsi, m, hm, hlt⟩ := hsm
    simp only [ChainS.es] at hxe
    obtain ⟨hyl, hye⟩ := aEnc_chunk es a2a sh xs ha hxl hxe
    simp only [ChainS.fits, encodeA2A_eq]
    have hpieces : ∀ p ∈ splitShard (shapesOf a2a sh) ish (aEnc a2a sh xs),
        p.length = prod ish ∧ ∀ x ∈ p, x.length = inner.es := by
      intro p hp
      obtain ⟨hpl, hpm⟩ := splitShard_piece ht _ hyl p hp
      exact ⟨hpl, by rw [hies]; exact fun x hx => hye x (hpm x hx)⟩
    refine ⟨fun p hp => ih ish fill p hiok (hpieces p hp).1 (hpieces p hp).2 hsi, ?_⟩
    have hclen : (shardChunks (inner.encode ish fill) fill (shapesOf a2a sh) ish (aEnc a2a sh xs)).length =
        prod (zipDiv (shapesOf a2a sh) ish) := by simp [shardChunks, splitShard_length]
    rw [Shard.shard_length _ _ hclen, ← Shard.dataOf_length]
    have := Shard.dataOf_length_le (shardChunks (inner.encode ish fill) fill (shapesOf a2a sh) ish (aEnc a2a sh xs)) m
      (by
        intro ch hch b hb'
        subst hb'
        simp only [shardChunks, List.mem_map] at hch
        obtain ⟨p, hp, hpe⟩ := hch
        split at hpe
        · cases hpe
        · simp only [Option.some.injEq] at hpe
          subst hpe
          exact chainS_size' inner ish fill p m hiok (hpieces p hp).1 (hpieces p hp).2 hm)
    rw [hclen] at this
    omega

/-! ### regular grids: every chunk has the chunk shape -/

theorem regular_chunkShape (sh : Shape) : ∀ (c : Idx), c.length = sh.length →
    Grid.chunkShape (Grid.new (sh.map DimCfg.fixed)) c = some sh := by
  induction sh with
  | nil => intro c hc; cases c with
    | nil => rfl
    | cons _ _ => simp at hc
  | cons d ds ih =>
    intro c hc
    cases c with
    | nil => simp at hc
    | cons c0 cs =>
      have := ih cs (by simpa using hc)
      simp only [Grid.chunkShape, Grid.new, List.map_cons, List.map_map] at this ⊢
      simp only [zipOpt]
      rw [this]
      rfl

/-- an array over the regular grid of chunk shape `sh`: every chunk has shape `sh` -/
theorem arr_regular_chunkShape {α} (cfg : ArrCfg α) (sh : Shape) (hg : cfg.grid = Grid.new (sh.map DimCfg.fixed))
    (c : Idx) (s : Shape) (h : cfg.chunkShape c = some s) : s = sh := by
  simp only [ArrCfg.chunkShape] at h
  split at h
  · rename_i hl
    rw [hg] at h hl
    simp only [Grid.new, List.length_map, beq_iff_eq] at hl
    rw [regular_chunkShape sh c hl] at h
    exact (Option.some.inj h).symm
  · cases h

end Zarrs.Partial
