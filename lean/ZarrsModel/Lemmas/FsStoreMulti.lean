import ZarrsModel.Lemmas.FsStoreList3
/- operations over several keys (`erase_values`, `set_partial_values`) and what a step may turn into a directory -/
set_option Elab.async false
namespace Zarrs.Fs
open Zarrs

def freeKind : Kind → Bool
  | .noent | .file _ => true
  | _ => false

theorem statFree_kind (s : FsState) (path : List Name) (hp : path ≠ []) :
    statFree s path = freeKind ((FsState.content s).stat path).kind := by
  unfold statFree
  rw [stat_content s path hp]
  cases (FsState.content s).stat path <;> rfl

/-- `a` is a directory prefix of `b`, on paths -/
theorem dirPrefixOf_iff {a b : Key} {pa pb : List Name} (ha : keyPath a = some pa) (hb : keyPath b = some pb) :
    dirPrefixOf a b = true ↔ (pa.isPrefixOf pb = true ∧ pa ≠ pb) := by
  obtain ⟨_, ha2, ha3, ha4⟩ := keyPath_spec ha
  obtain ⟨_, hb2, hb3, hb4⟩ := keyPath_spec hb
  unfold dirPrefixOf
  have : a ++ ['/'] = dirKey pa := by rw [dirKey_ne _ ha2, ha4]
  rw [this, ← hb4, dirKey_prefix_iff pa pb hb2 (plain_noSlash ha3) (plain_noSlash hb3), List.isPrefixOf_iff_prefix]
  constructor
  · rintro ⟨rest, hr, rfl⟩
    refine ⟨⟨rest, rfl⟩, ?_⟩
    intro e
    have := congrArg List.length e
    simp only [List.length_append] at this
    have : rest.length = 0 := by omega
    exact hr (List.length_eq_zero_iff.1 this)
  · rintro ⟨⟨rest, rfl⟩, hne⟩
    exact ⟨rest, by intro e; subst e; simp at hne, rfl⟩

/-- what a step may have turned into a directory: only proper ancestors of the keys it wrote -/
def Grow (keys : List Key) (s s' : FsState) : Prop :=
  ∀ p, p ≠ [] → ((FsState.content s').stat p).kind = .dir →
    ((FsState.content s).stat p).kind = .dir ∨
      ∃ k ∈ keys, ∃ pk, keyPath k = some pk ∧ p.isPrefixOf pk = true ∧ p ≠ pk

theorem Grow.refl (keys : List Key) (s : FsState) : Grow keys s s := fun _ _ h => Or.inl h

theorem Grow.mono {keys keys' : List Key} {s s' : FsState} (h : Grow keys s s') (hs : ∀ k ∈ keys, k ∈ keys') :
    Grow keys' s s' := by
  intro p hp hd
  rcases h p hp hd with h | ⟨k, hk, r⟩
  · exact Or.inl h
  · exact Or.inr ⟨k, hs k hk, r⟩

theorem Grow.trans {keys : List Key} {s s1 s2 : FsState} (h1 : Grow keys s s1) (h2 : Grow keys s1 s2) :
    Grow keys s s2 := by
  intro p hp hd
  rcases h2 p hp hd with h | h
  · exact h1 p hp h
  · exact Or.inr h

/-- removals create no directory -/
theorem Grow.of_removed {keys : List Key} {s s' : FsState} (path : List Name)
    (h : ∀ p, p ≠ [] → ((FsState.content s').stat p).kind =
      if path.isPrefixOf p then .noent else ((FsState.content s).stat p).kind) : Grow keys s s' := by
  intro p hp hd
  rw [h p hp] at hd
  split at hd
  · cases hd
  · exact Or.inl hd

theorem Grow.of_shrunk {keys : List Key} {s s' : FsState}
    (h : ∀ p, p ≠ [] → (((FsState.content s').stat p).kind = .noent ∨
      ((FsState.content s').stat p).kind = ((FsState.content s).stat p).kind)) : Grow keys s s' := by
  intro p hp hd
  rcases h p hp with h' | h'
  · rw [h'] at hd; cases hd
  · rw [h'] at hd; exact Or.inl hd

theorem Grow.of_set {k : Key} {path : List Name} {s : FsState} {t' : Tree} {v : Bytes} (hk : keyPath k = some path)
    (h : ∀ p, (t'.stat p).kind = Tree.afterSet (FsState.content s) path v p) : Grow [k] s (some t') := by
  intro p _ hd
  have hh := h p
  have hc : FsState.content (some t') = t' := rfl
  rw [hc] at hd
  rw [hh] at hd
  unfold Tree.afterSet at hd
  split at hd
  · cases hd
  · rename_i hne
    split at hd
    · rename_i hpre
      exact Or.inr ⟨k, by simp, path, hk, hpre, hne⟩
    · split at hd
      · cases hd
      · exact Or.inl hd

/-! ### `erase_values` -/

theorem keyOk_spec {s : FsState} {k : Key} (h : keyOk s k = true) :
    ∃ path, keyPath k = some path ∧ statFree s path = true := by
  unfold keyOk at h
  cases hk : keyPath k with
  | none => rw [hk] at h; cases h
  | some path => rw [hk] at h; exact ⟨path, rfl, h⟩

theorem keyOk_of {s : FsState} {k : Key} {path : List Name} (hk : keyPath k = some path) (h : statFree s path = true) :
    keyOk s k = true := by
  unfold keyOk; rw [hk]; exact h

theorem eraseValues_abs (s : FsState) (hi : FsInv s) (ks : List Key) (hok : ∀ k ∈ ks, keyOk s k = true) :
    ∃ s', eraseValues s ks = (s', .res .unit) ∧ FsInv s' ∧ absFs s' = ks.foldl Zarrs.KV.erase (absFs s) ∧
      Grow [] s s' := by
  induction ks generalizing s with
  | nil => exact ⟨s, rfl, hi, rfl, Grow.refl _ _⟩
  | cons k rest ih =>
    obtain ⟨path, hk, hfree⟩ := keyOk_spec (hok k (List.mem_cons_self ..))
    obtain ⟨s1, h1, h2, h3, h4⟩ := erase_abs s hi k path hk hfree
    have hok1 : ∀ k' ∈ rest, keyOk s1 k' = true := by
      intro k' hk'
      obtain ⟨p', hkp', hf'⟩ := keyOk_spec (hok k' (List.mem_cons_of_mem _ hk'))
      have hne := (keyPath_spec hkp').2.1
      apply keyOk_of hkp'
      rw [statFree_kind s1 p' hne, h4 p' hne]
      split
      · rfl
      · rw [← statFree_kind s p' hne]; exact hf'
    obtain ⟨s', e1, e2, e3, e4⟩ := ih s1 h2 hok1
    refine ⟨s', ?_, e2, ?_, (Grow.of_removed path h4).trans e4⟩
    · simp only [eraseValues, hk, h1]
      exact e1
    · rw [e3, h3]; rfl

/-! ### `set_partial_values` -/

def rmwStep (m : KV) (x : Key × List (Nat × Bytes)) : KV := m.put x.1 (rmwGroup ((m.get x.1).getD []) x.2)

theorem rmwPartial_fold (m : KV) (kovs : List (Key × Nat × Bytes)) :
    rmwPartial m kovs = (groupConsecutive kovs).foldl rmwStep m := rfl

theorem groupConsecutive_keys (kovs : List (Key × Nat × Bytes)) :
    ∀ g ∈ groupConsecutive kovs, g.1 ∈ kovs.map (·.1) := by
  induction kovs with
  | nil => simp [groupConsecutive]
  | cons x rest ih =>
    obtain ⟨k, o, v⟩ := x
    intro g hg
    cases hgr : groupConsecutive rest with
    | nil =>
      rw [groupConsecutive_cons_nil _ _ _ _ hgr] at hg
      simp only [List.mem_singleton] at hg
      subst hg
      simp
    | cons kg gs =>
      obtain ⟨k', g'⟩ := kg
      by_cases hkk : k = k'
      · subst hkk
        rw [groupConsecutive_cons_eq _ _ _ _ _ _ hgr] at hg
        rcases List.mem_cons.1 hg with rfl | hg
        · simp
        · have := ih g (by rw [hgr]; exact List.mem_cons_of_mem _ hg)
          simp only [List.map_cons, List.mem_cons]
          exact Or.inr this
      · rw [groupConsecutive_cons_ne _ _ _ _ _ _ _ hkk hgr] at hg
        rcases List.mem_cons.1 hg with rfl | hg
        · simp
        · have := ih g (by rw [hgr]; exact hg)
          simp only [List.map_cons, List.mem_cons]
          exact Or.inr this

theorem statFree_after_set (s : FsState) (path : List Name) (t' : Tree) (v : Bytes)
    (h : ∀ p, (t'.stat p).kind = Tree.afterSet (FsState.content s) path v p)
    (p2 : List Name) (hne : p2 ≠ []) (hfree : statFree s p2 = true)
    (hc1 : ¬ (p2.isPrefixOf path = true ∧ p2 ≠ path)) (hc2 : ¬ (path.isPrefixOf p2 = true ∧ path ≠ p2)) :
    statFree (some t') p2 = true := by
  rw [statFree_kind _ p2 hne]
  show freeKind (t'.stat p2).kind = true
  rw [h p2]
  unfold Tree.afterSet
  by_cases e : p2 = path
  · rw [if_pos e]; rfl
  · rw [if_neg e, if_neg (fun h => hc1 ⟨h, e⟩), if_neg (fun h => hc2 ⟨h, fun e' => e e'.symm⟩),
      ← statFree_kind s p2 hne]
    exact hfree

theorem setPartialGroups_abs (s : FsState) (hi : FsInv s) (gs : List (Key × List (Nat × Bytes)))
    (hok : ∀ g ∈ gs, keyOk s g.1 = true)
    (hcompat : ∀ a ∈ gs, ∀ b ∈ gs, dirPrefixOf a.1 b.1 = false) :
    ∃ s', setPartialGroups s gs = (s', .res .unit) ∧ FsInv s' ∧ absFs s' = gs.foldl rmwStep (absFs s) ∧
      Grow (gs.map (·.1)) s s' := by
  induction gs generalizing s with
  | nil => exact ⟨s, rfl, hi, rfl, Grow.refl _ _⟩
  | cons x rest ih =>
    obtain ⟨k, g⟩ := x
    obtain ⟨path, hk, hfree⟩ := keyOk_spec (hok (k, g) (List.mem_cons_self ..))
    have hget := getKey_abs s hi k path hk hfree
    obtain ⟨t', h1, h2, h3, h4⟩ := set_abs s hi k (rmwGroup (((absFs s).get k).getD []) g) path hk hfree
    have hok1 : ∀ g' ∈ rest, keyOk (some t') g'.1 = true := by
      intro g' hg'
      have hmem : g' ∈ (k, g) :: rest := List.mem_cons_of_mem _ hg'
      obtain ⟨p', hkp', hf'⟩ := keyOk_spec (hok g' hmem)
      apply keyOk_of hkp'
      apply statFree_after_set s path t' _ h4 p' (keyPath_spec hkp').2.1 hf'
      · intro hc
        have := (dirPrefixOf_iff hkp' hk).2 hc
        rw [hcompat g' hmem (k, g) (List.mem_cons_self ..)] at this
        cases this
      · intro hc
        have := (dirPrefixOf_iff hk hkp').2 hc
        rw [hcompat (k, g) (List.mem_cons_self ..) g' hmem] at this
        cases this
    obtain ⟨s', e1, e2, e3, e4⟩ := ih (some t') h2 hok1
      (fun a ha b hb => hcompat a (List.mem_cons_of_mem _ ha) b (List.mem_cons_of_mem _ hb))
    refine ⟨s', ?_, e2, ?_, ?_⟩
    · simp only [setPartialGroups, hk, hget, h1]
      exact e1
    · rw [e3, h3]; rfl
    · exact ((Grow.of_set hk h4).mono (by simp)).trans (e4.mono (by
        intro k' hk'; simp only [List.map_cons, List.mem_cons]; exact Or.inr hk'))

end Zarrs.Fs
