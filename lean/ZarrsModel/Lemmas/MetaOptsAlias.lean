import ZarrsModel.Model.MetaOpts
import ZarrsModel.Lemmas.MetaWf
import ZarrsModel.Lemmas.MetaV2ConvWf
/- helper lemmas for `Props/C13Opts.lean`: `ExtensionAliases` (identifier / default name / conversion) and the
   transcribed tables -/
set_option Elab.async false
namespace Zarrs.MetaOpts
open Zarrs.Json Zarrs.Meta Zarrs.MetaV2

/-! ### association lists -/

theorem tblGet_some_mem (t : List (Str × Str)) (k x : Str) (h : tblGet t k = some x) : (k, x) ∈ t := by
  unfold tblGet at h
  cases hf : t.find? (·.1 == k) with
  | none => rw [hf] at h; cases h
  | some p =>
    rw [hf] at h
    simp only [Option.map_some, Option.some.injEq] at h
    have hm := List.mem_of_find?_eq_some hf
    have hk := List.find?_some hf
    simp only [beq_iff_eq] at hk
    obtain ⟨a, b⟩ := p
    simp only at h hk
    subst h; subst hk
    exact hm

theorem tblGet_of_mem (t : List (Str × Str)) (hn : (t.map (·.1)).Nodup) (k x : Str) (h : (k, x) ∈ t) :
    tblGet t k = some x := by
  induction t with
  | nil => cases h
  | cons p rest ih =>
    obtain ⟨a, b⟩ := p
    simp only [List.map_cons, List.nodup_cons] at hn
    simp only [List.mem_cons, Prod.mk.injEq] at h
    unfold tblGet
    simp only [List.find?_cons]
    rcases h with ⟨rfl, rfl⟩ | h
    · simp
    · have hne : a ≠ k := by
        intro e
        subst e
        exact hn.1 (List.mem_map.2 ⟨(a, x), h, rfl⟩)
      have : (a == k) = false := by simpa using hne
      simp only [this]
      exact ih hn.2 h

/-- distinct keys: the association list is a function (what the `HashMap` it transcribes is) -/
theorem tbl_functional (t : List (Str × Str)) (hn : (t.map (·.1)).Nodup) (k x y : Str) (hx : (k, x) ∈ t) (hy : (k, y) ∈ t) :
    x = y := by
  have a := tblGet_of_mem t hn k x hx
  have b := tblGet_of_mem t hn k y hy
  rw [a] at b
  exact Option.some.inj b

/-! ### identifier / default name -/

/-- the conditions on a set of tables under which converting a name keeps its identifier: every identifier an alias
    (string or regex) leads to, written with its default name, is read back as that identifier; every default name
    is read back as its identifier -/
def Aliases.coherent (a : Aliases) : Bool :=
  a.aliasesStr.all (fun p => a.identifier (a.defaultName p.2) == p.2) &&
  a.aliasesRegex.all (fun r => let i := (tblGet a.aliasesStr r.2).getD r.2; a.identifier (a.defaultName i) == i) &&
  a.defaultNames.all (fun p => a.identifier p.2 == p.1)

theorem Aliases.identifier_convert (a : Aliases) (h : a.coherent = true) (n : Str) :
    a.identifier (a.convert n) = a.identifier n := by
  unfold Aliases.coherent at h
  simp only [Bool.and_eq_true, List.all_eq_true, beq_iff_eq] at h
  obtain ⟨⟨h1, h2⟩, h3⟩ := h
  unfold Aliases.convert
  cases hs : tblGet a.aliasesStr n with
  | some i =>
    have hi : a.identifier n = i := by unfold Aliases.identifier; rw [hs]
    rw [hi]
    exact h1 (n, i) (tblGet_some_mem _ _ _ hs)
  | none =>
    cases hr : a.aliasesRegex.find? (fun r => r.1 n) with
    | some r =>
      have hi : a.identifier n = (tblGet a.aliasesStr r.2).getD r.2 := by unfold Aliases.identifier; rw [hs, hr]
      rw [hi]
      exact h2 r (List.mem_of_find?_eq_some hr)
    | none =>
      have hi : a.identifier n = n := by unfold Aliases.identifier; rw [hs, hr]
      rw [hi]
      unfold Aliases.defaultName
      cases hd : tblGet a.defaultNames n with
      | some dn => exact h3 (n, dn) (tblGet_some_mem _ _ _ hd)
      | none => exact hi

/-- converting twice is converting once -/
theorem Aliases.convert_idem (a : Aliases) (h : a.coherent = true) (n : Str) : a.convert (a.convert n) = a.convert n := by
  show a.defaultName (a.identifier (a.convert n)) = a.defaultName (a.identifier n)
  rw [a.identifier_convert h n]

/-- a default name is a fixed point of the conversion -/
theorem Aliases.convert_default (a : Aliases) (h : a.coherent = true) (hn : (a.defaultNames.map (·.1)).Nodup)
    (i dn : Str) (hm : (i, dn) ∈ a.defaultNames) : a.convert dn = dn := by
  unfold Aliases.coherent at h
  simp only [Bool.and_eq_true, List.all_eq_true, beq_iff_eq] at h
  have hi : a.identifier dn = i := h.2 (i, dn) hm
  unfold Aliases.convert Aliases.defaultName
  rw [hi, tblGet_of_mem _ hn i dn hm]
  rfl

/-- what a converted name is: the default name registered for the identifier, or the identifier itself when none is -/
theorem Aliases.convert_is_default (a : Aliases) (n : Str) :
    (∃ dn, (a.identifier n, dn) ∈ a.defaultNames ∧ a.convert n = dn) ∨
    ((∀ dn, (a.identifier n, dn) ∉ a.defaultNames) ∧ a.convert n = a.identifier n) := by
  unfold Aliases.convert Aliases.defaultName
  cases hd : tblGet a.defaultNames (a.identifier n) with
  | some dn => exact Or.inl ⟨dn, tblGet_some_mem _ _ _ hd, rfl⟩
  | none =>
    refine Or.inr ⟨?_, rfl⟩
    intro dn hm
    unfold tblGet at hd
    simp only [Option.map_eq_none_iff, List.find?_eq_none] at hd
    have := hd _ hm
    simp at this

/-! ### the four default tables -/

theorem codecV3_coherent : codecV3.coherent = true := by decide +kernel
theorem codecV2_coherent : codecV2.coherent = true := by decide +kernel
theorem dtypeV3_coherent : dtypeV3.coherent = true := by decide +kernel
theorem dtypeV2_coherent : dtypeV2.coherent = true := by decide +kernel

theorem codecAliasStrV3_nodup : (codecAliasStrV3.map (·.1)).Nodup := by decide +kernel
theorem codecAliasesV2_nodup : (codecAliasesV2.map (·.1)).Nodup := by decide +kernel
theorem dtypeAliasStrV3_nodup : (dtypeAliasStrV3.map (·.1)).Nodup := by decide +kernel
theorem dtypeAliasesV2_nodup : (dtypeAliasesV2.map (·.1)).Nodup := by decide +kernel
theorem codecNamesV3_nodup : (codecNamesV3.map (·.1)).Nodup := by decide +kernel
theorem codecNamesV2_nodup : (codecNamesV2.map (·.1)).Nodup := by decide +kernel

/-! ### the model of the conversion (`MetaV2`) uses the same tables -/

theorem codecIdent_eq (id : Str) : codecIdent id = codecV2.identifier id := by
  unfold codecIdent Aliases.identifier codecV2
  cases tblGet codecAliasesV2 id <;> rfl

theorem codecName_eq (i : Str) : codecName i = codecV3.defaultName i := rfl

theorem dtypeNameV3_eq (s : Str) : dtypeNameV3 s = dtypeV3.defaultName (dtypeV2.identifier s) := by
  unfold dtypeNameV3 Aliases.identifier Aliases.defaultName dtypeV3 dtypeV2
  cases tblGet dtypeAliasesV2 s with
  | some x => rfl
  | none =>
    simp only [List.find?_cons, List.find?_nil]
    cases isVoidName s <;> rfl

/-- the V3 data type table: `binary` is `bytes`, every other name is itself -/
theorem dtypeV3_convert (n : Str) : dtypeV3.convert n = if n = ascii "binary" then ascii "bytes" else n := by
  unfold Aliases.convert Aliases.identifier Aliases.defaultName dtypeV3 dtypeAliasStrV3 tbl tblGet
  simp only [List.map_cons, List.map_nil, List.find?_cons, List.find?_nil]
  by_cases h : ascii "binary" = n
  · subst h; rfl
  · have : (ascii "binary" == n) = false := by simpa using h
    simp only [this]
    have h' : ¬ n = ascii "binary" := fun e => h e.symm
    simp [h']

/-! ### names stay well-formed -/

theorem codecAliasStrV3_ascii : ∀ p ∈ codecAliasStrV3, ∀ b ∈ p.2, b < 128 := by decide
theorem codecNamesV2_ascii : ∀ p ∈ codecNamesV2, ∀ b ∈ p.2, b < 128 := by decide
theorem dtypeAliasStrV3_ascii : ∀ p ∈ dtypeAliasStrV3, ∀ b ∈ p.2, b < 128 := by decide

theorem strOk_convert_noregex (a : Aliases) (hr : a.aliasesRegex = []) (h1 : ∀ p ∈ a.aliasesStr, ∀ b ∈ p.2, b < 128)
    (h2 : ∀ p ∈ a.defaultNames, ∀ b ∈ p.2, b < 128) (n : Str) (hn : strOk n) : strOk (a.convert n) := by
  have hi : a.identifier n = (tblGet a.aliasesStr n).getD n := by
    unfold Aliases.identifier
    rw [hr]
    cases tblGet a.aliasesStr n <;> rfl
  unfold Aliases.convert Aliases.defaultName
  rw [hi]
  exact strOk_getD_tbl _ h2 _ (strOk_getD_tbl _ h1 _ hn)

theorem strOk_codecV3_convert (n : Str) (hn : strOk n) : strOk (codecV3.convert n) :=
  strOk_convert_noregex codecV3 rfl codecAliasStrV3_ascii codecNamesV3_ascii n hn
theorem strOk_codecV2_convert (n : Str) (hn : strOk n) : strOk (codecV2.convert n) :=
  strOk_convert_noregex codecV2 rfl codecAliasesV2_ascii codecNamesV2_ascii n hn
theorem strOk_dtypeV3_convert (n : Str) (hn : strOk n) : strOk (dtypeV3.convert n) :=
  strOk_convert_noregex dtypeV3 rfl dtypeAliasStrV3_ascii (by intro p hp; cases hp) n hn

end Zarrs.MetaOpts
