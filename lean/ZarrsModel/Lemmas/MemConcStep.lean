import ZarrsModel.Model.MemConc
import ZarrsModel.Lemmas.Store
/- C18 helper lemmas, part 2: accessor view of `MemConc.State`, well-formedness invariant of the repaired
(`.fixed`) protocol, and a case characterisation of `step .fixed` instrumented with ghost linearization points -/
namespace Zarrs.MemConc

/-! ### accessors -/

def tsOf (s : State) (t : Nat) : TS := s.ts.getD t .idle
def pcOf (s : State) (t : Nat) : Nat := s.pc.getD t 0
def wl (s : State) (c : Nat) : Option Nat := s.wlock.getD c none
def cell (s : State) (c : Nat) : Bytes := s.cells.getD c []
def opAt (ps : Progs) (t k : Nat) : Option Op := (ps[t]?).bind (·[k]?)

def isRead : Op → Bool
  | .get => true
  | .getRange _ _ => true
  | _ => false

theorem getD_set {α} (l : List α) (i j : Nat) (v d : α) :
    (l.set i v).getD j d = if i = j ∧ i < l.length then v else l.getD j d := by
  simp only [List.getD_eq_getElem?_getD, List.getElem?_set]
  by_cases h1 : i = j
  · by_cases h2 : i < l.length
    · simp [h1, h1 ▸ h2]
    · have h3 : ¬ j < l.length := h1 ▸ h2
      simp [h1, h3]
  · simp [h1]

theorem getD_append_single {α} (l : List α) (j : Nat) (v d : α) :
    (l ++ [v]).getD j d = if j = l.length then v else l.getD j d := by
  simp only [List.getD_eq_getElem?_getD, List.getElem?_append]
  split
  · rename_i h; rw [if_neg (by omega)]
  · rename_i h
    split
    · rename_i h2; subst h2; simp
    · rename_i h2
      rw [List.getElem?_eq_none (by simp; omega), List.getElem?_eq_none (by omega)]

theorem curOp_eq (ps : Progs) (s : State) (hl : s.pc.length = ps.length) (t : Nat) :
    curOp ps s t = opAt ps t (pcOf s t) := by
  unfold curOp opAt pcOf
  by_cases ht : t < ps.length
  · have h1 : s.pc[t]? = some (s.pc[t]'(by omega)) := List.getElem?_eq_getElem (by omega)
    have h2 : ps[t]? = some (ps[t]) := List.getElem?_eq_getElem ht
    simp [h1, h2, List.getD_eq_getElem?_getD]
  · have h2 : ps[t]? = none := List.getElem?_eq_none (by omega)
    simp [h2]

/-! ### list-level case characterisation of `step .fixed` -/

/-- lengths of the per-thread / per-cell lists -/
structure LWF (ps : Progs) (s : State) : Prop where
  lpc : s.pc.length = ps.length
  lts : s.ts.length = ps.length
  lout : s.out.length = ps.length
  lwl : s.wlock.length = s.cells.length

/-- One step of thread `t` of the repaired protocol, by cases; `r` is the response if the operation completes. -/
inductive LStep (ps : Progs) (s : State) (t : Nat) (s' : State) (r : Option Res) : Prop
  | s1e (op : Op) (c : Nat) (hop : opAt ps t (pcOf s t) = some op) (hw : isWrite op = true)
      (hts : tsOf s t = .idle) (hcur : s.cur = some c) (hfree : wl s c = none)
      (hs : s' = { s with wlock := s.wlock.set c (some t), ts := s.ts.set t (.setHold c) }) (hr : r = none)
  | s1n (op : Op) (hop : opAt ps t (pcOf s t) = some op) (hw : isWrite op = true)
      (hts : tsOf s t = .idle) (hcur : s.cur = none)
      (hs : s' = { s with cells := s.cells ++ [[]], wlock := (s.wlock ++ [none]).set s.cells.length (some t),
                          cur := some s.cells.length, ts := s.ts.set t (.setHold s.cells.length) })
      (hr : r = none)
  | s2 (op : Op) (c : Nat) (hop : opAt ps t (pcOf s t) = some op) (hts : tsOf s t = .setHold c)
      (hs : s' = respond { s with cells := s.cells.set c (applyWrite (cell s c) op), wlock := s.wlock.set c none } t .unit)
      (hr : r = some .unit)
  | g1m (op : Op) (hop : opAt ps t (pcOf s t) = some op) (hrd : isRead op = true)
      (hts : tsOf s t = .idle) (hcur : s.cur = none)
      (hs : s' = respond s t (.bytes none)) (hr : r = some (.bytes none))
  | g1h (op : Op) (c : Nat) (hop : opAt ps t (pcOf s t) = some op) (hrd : isRead op = true)
      (hts : tsOf s t = .idle) (hcur : s.cur = some c)
      (hs : s' = { s with ts := s.ts.set t (.getHold c) }) (hr : r = none)
  | g2 (op : Op) (c : Nat) (hop : opAt ps t (pcOf s t) = some op) (hts : tsOf s t = .getHold c)
      (hfree : wl s c = none)
      (hs : s' = respond s t (readRes op (cell s c))) (hr : r = some (readRes op (cell s c)))
  | sz (hop : opAt ps t (pcOf s t) = some .size) (hts : tsOf s t = .idle)
      (hfree : ∀ c, s.cur = some c → wl s c = none)
      (hs : s' = respond s t (.size (s.cur.map (fun c => (cell s c).length))))
      (hr : r = some (.size (s.cur.map (fun c => (cell s c).length))))
  | e1 (hop : opAt ps t (pcOf s t) = some .erase) (hts : tsOf s t = .idle)
      (hs : s' = respond { s with cur := none } t .unit) (hr : r = some .unit)

theorem step_spec (ps : Progs) (s : State) (t : Nat) (hl : s.pc.length = ps.length)
    (hng : ∀ c, tsOf s t ≠ .setGot c) (hen : enabled .fixed ps s t = true) :
    ∃ r, LStep ps s t (step .fixed ps s t) r := by
  have hcop := curOp_eq ps s hl t
  unfold enabled at hen
  unfold step
  rw [hcop] at hen ⊢
  cases hop : opAt ps t (pcOf s t) with
  | none => simp [hop] at hen
  | some op =>
    simp only [hop] at hen ⊢
    have hts' : s.ts.getD t TS.idle = tsOf s t := rfl
    rw [hts'] at hen ⊢
    cases hts : tsOf s t with
    | idle =>
      simp only [hts] at hen ⊢
      cases op with
      | set v =>
        simp only [isWrite, if_true] at hen ⊢
        cases hcur : s.cur with
        | none => exact ⟨_, .s1n _ hop rfl hts hcur rfl rfl⟩
        | some c =>
          simp only [hcur, cellFree, Option.isNone_iff_eq_none] at hen
          exact ⟨_, .s1e _ c hop rfl hts hcur hen (by simp) rfl⟩
      | setPartial off v =>
        simp only [isWrite, if_true] at hen ⊢
        cases hcur : s.cur with
        | none => exact ⟨_, .s1n _ hop rfl hts hcur rfl rfl⟩
        | some c =>
          simp only [hcur, cellFree, Option.isNone_iff_eq_none] at hen
          exact ⟨_, .s1e _ c hop rfl hts hcur hen (by simp) rfl⟩
      | get =>
        simp only [isWrite] at hen ⊢
        cases hcur : s.cur with
        | none => exact ⟨_, .g1m _ hop rfl hts hcur (by simp) rfl⟩
        | some c => exact ⟨_, .g1h _ c hop rfl hts hcur (by simp [hcur]) rfl⟩
      | getRange off len =>
        simp only [isWrite] at hen ⊢
        cases hcur : s.cur with
        | none => exact ⟨_, .g1m _ hop rfl hts hcur (by simp) rfl⟩
        | some c => exact ⟨_, .g1h _ c hop rfl hts hcur (by simp [hcur]) rfl⟩
      | size =>
        simp only [isWrite] at hen ⊢
        refine ⟨_, .sz hop hts ?_ rfl rfl⟩
        intro c hc
        simpa [hc, cellFree, wl] using hen
      | erase =>
        exact ⟨_, .e1 hop hts (by simp [isWrite]) rfl⟩
    | setGot c => exact absurd hts (hng c)
    | setHold c =>
      exact ⟨_, .s2 op c hop hts rfl rfl⟩
    | getHold c =>
      simp only [hts, cellFree, Option.isNone_iff_eq_none] at hen
      exact ⟨_, .g2 op c hop hts hen rfl rfl⟩

/-! ### function-level view of the state -/

structure VState where
  ncells : Nat
  cell : Nat → Bytes
  wl : Nat → Option Nat
  cur : Option Nat
  pc : Nat → Nat
  ts : Nat → TS

def upd {α} (f : Nat → α) (a : Nat) (b : α) : Nat → α := fun x => if x = a then b else f x

@[simp] theorem upd_apply {α} (f : Nat → α) (a : Nat) (b : α) (x : Nat) : upd f a b x = if x = a then b else f x := rfl

def view (s : State) : VState := ⟨s.cells.length, cell s, wl s, s.cur, pcOf s, tsOf s⟩

/-- the value a cell will have once the pending write of its lock holder (if any) has been performed -/
def logical (ps : Progs) (v : VState) (c : Nat) : Bytes :=
  match v.wl c with
  | none => v.cell c
  | some t => match opAt ps t (v.pc t) with
    | some op => applyWrite (v.cell c) op
    | none => v.cell c

/-- a ghost linearization record: thread, operation index, operation, ghost response, linearization time -/
structure LinE where
  t : Nat
  k : Nat
  op : Op
  res : Res
  lt : Nat
deriving DecidableEq, Repr

/-- readers holding the Arc of cell `c`, linearized ("helped") by an erase that orphans `c` -/
def helpers (ps : Progs) (v : VState) (c time : Nat) : List LinE :=
  (List.range ps.length).filterMap (fun t' =>
    if v.ts t' = .getHold c then
      (opAt ps t' (v.pc t')).map (fun op => ⟨t', v.pc t', op, readRes op (logical ps v c), time⟩)
    else none)

/-- One step of thread `t` on the view, together with the ghost update of the linearization list. -/
inductive VStep (ps : Progs) (time : Nat) (v : VState) (lin : List LinE) (t : Nat) (v' : VState)
    (lin' : List LinE) (r : Option Res) : Prop
  | s1e (op : Op) (c : Nat) (hop : opAt ps t (v.pc t) = some op) (hw : isWrite op = true)
      (hts : v.ts t = .idle) (hcur : v.cur = some c) (hfree : v.wl c = none)
      (hv : v' = { v with wl := upd v.wl c (some t), ts := upd v.ts t (.setHold c) })
      (hl : lin' = lin ++ [⟨t, v.pc t, op, .unit, time⟩]) (hr : r = none)
  | s1n (op : Op) (hop : opAt ps t (v.pc t) = some op) (hw : isWrite op = true)
      (hts : v.ts t = .idle) (hcur : v.cur = none)
      (hv : v' = { v with ncells := v.ncells + 1, wl := upd v.wl v.ncells (some t),
                          cur := some v.ncells, ts := upd v.ts t (.setHold v.ncells) })
      (hl : lin' = lin ++ [⟨t, v.pc t, op, .unit, time⟩]) (hr : r = none)
  | s2 (op : Op) (c : Nat) (hop : opAt ps t (v.pc t) = some op) (hts : v.ts t = .setHold c)
      (hv : v' = { v with cell := upd v.cell c (applyWrite (v.cell c) op), wl := upd v.wl c none,
                          pc := upd v.pc t (v.pc t + 1), ts := upd v.ts t .idle })
      (hl : lin' = lin) (hr : r = some .unit)
  | g1m (op : Op) (hop : opAt ps t (v.pc t) = some op) (hrd : isRead op = true)
      (hts : v.ts t = .idle) (hcur : v.cur = none)
      (hv : v' = { v with pc := upd v.pc t (v.pc t + 1), ts := upd v.ts t .idle })
      (hl : lin' = lin ++ [⟨t, v.pc t, op, .bytes none, time⟩]) (hr : r = some (.bytes none))
  | g1h (op : Op) (c : Nat) (hop : opAt ps t (v.pc t) = some op) (hrd : isRead op = true)
      (hts : v.ts t = .idle) (hcur : v.cur = some c)
      (hv : v' = { v with ts := upd v.ts t (.getHold c) })
      (hl : lin' = lin) (hr : r = none)
  | g2 (op : Op) (c : Nat) (hop : opAt ps t (v.pc t) = some op) (hts : v.ts t = .getHold c)
      (hfree : v.wl c = none)
      (hv : v' = { v with pc := upd v.pc t (v.pc t + 1), ts := upd v.ts t .idle })
      (hl : lin' = if v.cur = some c then lin ++ [⟨t, v.pc t, op, readRes op (v.cell c), time⟩] else lin)
      (hr : r = some (readRes op (v.cell c)))
  | sz (hop : opAt ps t (v.pc t) = some .size) (hts : v.ts t = .idle)
      (hfree : ∀ c, v.cur = some c → v.wl c = none)
      (hv : v' = { v with pc := upd v.pc t (v.pc t + 1), ts := upd v.ts t .idle })
      (hl : lin' = lin ++ [⟨t, v.pc t, .size, .size (v.cur.map (fun c => (v.cell c).length)), time⟩])
      (hr : r = some (.size (v.cur.map (fun c => (v.cell c).length))))
  | e1 (hop : opAt ps t (v.pc t) = some .erase) (hts : v.ts t = .idle)
      (hv : v' = { v with cur := none, pc := upd v.pc t (v.pc t + 1), ts := upd v.ts t .idle })
      (hl : lin' = lin ++ (match v.cur with | some c => helpers ps v c time | none => []) ++
              [⟨t, v.pc t, .erase, .unit, time⟩])
      (hr : r = some .unit)

/-! ### accessor normalisation -/

theorem tsOf_mk (a b c d e f) (t : Nat) : tsOf ⟨a, b, c, d, e, f⟩ t = e.getD t .idle := rfl
theorem pcOf_mk (a b c d e f) (t : Nat) : pcOf ⟨a, b, c, d, e, f⟩ t = d.getD t 0 := rfl
theorem wl_mk (a b c d e f) (x : Nat) : wl ⟨a, b, c, d, e, f⟩ x = b.getD x none := rfl
theorem cell_mk (a b c d e f) (x : Nat) : cell ⟨a, b, c, d, e, f⟩ x = a.getD x [] := rfl
theorem ts_getD (s : State) (t : Nat) : s.ts.getD t .idle = tsOf s t := rfl
theorem pc_getD (s : State) (t : Nat) : s.pc.getD t 0 = pcOf s t := rfl
theorem wl_getD (s : State) (c : Nat) : s.wlock.getD c none = wl s c := rfl
theorem cell_getD (s : State) (c : Nat) : s.cells.getD c [] = cell s c := rfl

open Lean.Parser.Tactic in
/-- normalise accessors of an explicitly updated state back to accessors of the original state -/
macro "acc_simp" loc:(location)? : tactic =>
  `(tactic| simp only [respond, tsOf_mk, pcOf_mk, wl_mk, cell_mk, getD_set, getD_append_single,
      ts_getD, pc_getD, wl_getD, cell_getD, List.length_set, List.length_append, List.length_cons,
      List.length_nil] $[$loc]?)

theorem wl_none_of_ge (s : State) (hl : s.wlock.length = s.cells.length) (c : Nat) (h : s.cells.length ≤ c) :
    wl s c = none := by
  unfold wl; rw [List.getD_eq_getElem?_getD, List.getElem?_eq_none (by omega)]; rfl

theorem cell_nil_of_ge (s : State) (c : Nat) (h : s.cells.length ≤ c) : cell s c = [] := by
  unfold cell; rw [List.getD_eq_getElem?_getD, List.getElem?_eq_none (by omega)]; rfl

theorem tsOf_idle_of_ge (s : State) (t : Nat) (h : s.ts.length ≤ t) : tsOf s t = .idle := by
  unfold tsOf; rw [List.getD_eq_getElem?_getD, List.getElem?_eq_none (by omega)]; rfl

end Zarrs.MemConc
