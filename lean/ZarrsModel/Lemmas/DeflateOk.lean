import ZarrsModel.Lemmas.DeflateContainers
set_option Elab.async false
/-
The writer side is total on its domain: blocks satisfying `Block.ok` (encodable tokens, every used symbol has a
code) are encoded by `encodeBlock` / `encodeStream`.
-/
namespace Zarrs.DeflateSpec
open Zarrs Zarrs.Inflate

theorem codeOf_isSome (lens : List Nat) (s : Nat) (h : hasCode lens s = true) : ∃ c, codeOf lens s = some c := by
  unfold hasCode at h
  have h' : lens.getD s 0 ≠ 0 := by simpa using h
  unfold codeOf
  rw [if_neg h']
  exact ⟨_, rfl⟩

theorem encTokens_isSome (litLens distLens : List Nat) (toks : List Token) (hok : ∀ t ∈ toks, t.ok = true)
    (h1 : ∀ s ∈ litSymsOf toks, hasCode litLens s = true) (h2 : ∀ s ∈ distSymsOf toks, hasCode distLens s = true) :
    ∃ bits, encTokens litLens distLens toks = some bits := by
  induction toks with
  | nil =>
    simp only [encTokens]
    exact codeOf_isSome _ _ (h1 256 (by simp [litSymsOf]))
  | cons t ts ih =>
    obtain ⟨b, hb⟩ := ih (fun t' ht' => hok t' (List.mem_cons_of_mem _ ht'))
      (fun s hs => h1 s (by
        simp only [litSymsOf, List.map_cons, List.mem_cons] at hs ⊢
        rcases hs with hs | hs
        · exact Or.inl hs
        · exact Or.inr (Or.inr hs)))
      (fun s hs => h2 s (by
        simp only [distSymsOf, List.filterMap_cons] at hs ⊢
        cases t with
        | lit x => exact hs
        | copy len dist => exact List.mem_cons_of_mem _ hs))
    have hto := hok t (by simp)
    cases t with
    | lit x =>
      have hx : x < 256 := by simpa [Token.ok] using hto
      obtain ⟨c, hc⟩ := codeOf_isSome _ _ (h1 x (by simp [litSymsOf]))
      exact ⟨c ++ b, by simp [encTokens, encToken, hx, hc, hb]⟩
    | copy len dist =>
      have hx : 3 ≤ len ∧ len ≤ 258 ∧ 1 ≤ dist ∧ dist ≤ 32768 := by
        simp only [Token.ok, Bool.and_eq_true, decide_eq_true_eq] at hto
        omega
      obtain ⟨c1, hc1⟩ := codeOf_isSome _ _ (h1 (257 + lenSym len) (by simp [litSymsOf]))
      obtain ⟨c2, hc2⟩ := codeOf_isSome _ _ (h2 (distSym dist) (by simp [distSymsOf]))
      simp only [encTokens, encToken, if_pos hx, hc1, hc2, hb]
      exact ⟨_, rfl⟩

theorem encCl_isSome (cl : List Nat) (rle : List ClSym) (h : ∀ c ∈ rle, hasCode cl (clSymOf c) = true) :
    ∃ bits, encCl cl rle = some bits := by
  induction rle with
  | nil => exact ⟨[], rfl⟩
  | cons c r ih =>
    obtain ⟨b, hb⟩ := ih (fun c' hc' => h c' (List.mem_cons_of_mem _ hc'))
    obtain ⟨a, ha⟩ := codeOf_isSome _ _ (h c (by simp))
    cases c with
    | len l => exact ⟨a ++ b, by simp only [encCl, encClSym]; simp only [clSymOf] at ha; rw [ha, hb]⟩
    | c16 n => exact ⟨_, by simp only [encCl, encClSym]; simp only [clSymOf] at ha; rw [ha, hb]; rfl⟩
    | c17 n => exact ⟨_, by simp only [encCl, encClSym]; simp only [clSymOf] at ha; rw [ha, hb]; rfl⟩
    | c18 n => exact ⟨_, by simp only [encCl, encClSym]; simp only [clSymOf] at ha; rw [ha, hb]; rfl⟩

theorem fixedLit_hasCode : ∀ s, s < 288 → hasCode fixedLitLens s = true := by decide +kernel
theorem fixedDist_hasCode : ∀ s, s < 30 → hasCode fixedDistLens s = true := by decide

theorem encodeBlock_isSome (pos : Nat) (final : Bool) (b : Block) (hok : b.ok = true) :
    ∃ bits, encodeBlock pos final b = some bits := by
  cases b with
  | stored fill data =>
    simp only [Block.ok, Bool.and_eq_true, decide_eq_true_eq] at hok
    exact ⟨_, by simp only [encodeBlock]; rw [if_pos hok]⟩
  | fixed toks =>
    simp only [Block.ok, List.all_eq_true] at hok
    obtain ⟨t, ht⟩ := encTokens_isSome fixedLitLens fixedDistLens toks hok
      (by
        intro s hs
        apply fixedLit_hasCode
        simp only [litSymsOf, List.mem_cons, List.mem_map] at hs
        rcases hs with hs | ⟨t, ht, hs⟩
        · omega
        · have hto := hok t ht
          cases t with
          | lit x =>
            have hx : x < 256 := by simpa [Token.ok] using hto
            simp only at hs; omega
          | copy len dist =>
            simp only [Token.ok, Bool.and_eq_true, decide_eq_true_eq] at hto
            have := (lenSym_spec len (by omega) (by omega)).1
            simp only at hs; omega)
      (by
        intro s hs
        apply fixedDist_hasCode
        simp only [distSymsOf, List.mem_filterMap] at hs
        obtain ⟨t, ht, hs⟩ := hs
        have hto := hok t ht
        cases t with
        | lit x => simp at hs
        | copy len dist =>
          simp only [Token.ok, Bool.and_eq_true, decide_eq_true_eq] at hto
          have := (distSym_spec dist (by omega) (by omega)).1
          simp only [Option.some.injEq] at hs; omega)
    simp only [encodeBlock, ht]
    exact ⟨_, rfl⟩
  | dynamic h toks =>
    simp only [Block.ok, Bool.and_eq_true, List.all_eq_true] at hok
    obtain ⟨⟨⟨⟨h1, h2⟩, h3⟩, h4⟩, h5⟩ := hok
    obtain ⟨r, hr⟩ := encCl_isSome h.clLens h.rle h2
    obtain ⟨t, ht⟩ := encTokens_isSome h.litLens h.distLens toks h3 h4 h5
    simp only [encodeBlock, if_pos h1, encHeader, hr, ht]
    exact ⟨_, rfl⟩

theorem encodeBlocks_isSome (pos : Nat) (bl : List Block) (hne : bl ≠ []) (hok : ∀ b ∈ bl, b.ok = true) :
    ∃ bits, encodeBlocks pos bl = some bits := by
  induction bl generalizing pos with
  | nil => exact absurd rfl hne
  | cons b bs ih =>
    cases bs with
    | nil => exact encodeBlock_isSome pos true b (hok b (by simp))
    | cons b' bs =>
      obtain ⟨x, hx⟩ := encodeBlock_isSome pos false b (hok b (by simp))
      obtain ⟨y, hy⟩ := ih (pos + x.length) (by simp) (fun c hc => hok c (List.mem_cons_of_mem _ hc))
      exact ⟨x ++ y, by simp only [encodeBlocks, hx, hy]⟩

theorem encodeStream_isSome (bl : List Block) (fill : Bits) (hne : bl ≠ []) (hok : ∀ b ∈ bl, b.ok = true) :
    ∃ bytes, encodeStream bl fill = some bytes := by
  obtain ⟨bits, hb⟩ := encodeBlocks_isSome 0 bl hne hok
  simp only [encodeStream, hb]
  exact ⟨_, rfl⟩

end Zarrs.DeflateSpec
