import ZarrsModel.Props.C01
import ZarrsModel.Lemmas.PartialArray
set_option Elab.async false
set_option linter.unusedSectionVars false
set_option linter.unusedSimpArgs false
/-
C01 for codecs that are lossless only on WELL-FORMED chunks (`LosslessOn`), by simulation: a shadow configuration whose
codec tags the real encoding of a well-formed chunk with a leading 0 and serialises any other list behind a leading 1
is lossless outright (`ArrCfg.Lossless`), so `C01.read_after_history` applies to it; on histories whose written
elements are well-formed the real configuration and the shadow run in lock step (the shadow store is the real store
with every value tagged), and every read route gives the same answer on both.
-/
namespace Zarrs
namespace ArrCfg
variable {α : Type} [DecidableEq α]

/-- the chain decodes what it encoded, for the chunks satisfying `P` -/
def LosslessOn (P : List α → Bool) (cfg : ArrCfg α) : Prop := ∀ x, P x = true → cfg.dec (cfg.enc x) = some x

/-- the shadow configuration: same array, grid, keys; the codec tags -/
def shadow (cfg : ArrCfg α) (P : List α → Bool) (ser : List α → Bytes) (unser : Bytes → Option (List α)) : ArrCfg α :=
  { cfg with
    enc := fun x => if P x then 0 :: cfg.enc x else 1 :: ser x
    dec := fun b => match b with
      | 0 :: b' => cfg.dec b'
      | 1 :: b' => unser b'
      | _ => none }

/-- the shadow store: every value tagged -/
def tag (st : KV) : KV := st.map (fun p => (p.1, 0 :: p.2))

variable {cfg : ArrCfg α} {P : List α → Bool} {ser : List α → Bytes} {unser : Bytes → Option (List α)}

theorem shadow_lossless (hL : LosslessOn P cfg) (hser : ∀ x, unser (ser x) = some x) :
    (cfg.shadow P ser unser).Lossless := by
  intro x
  simp only [shadow]
  by_cases hp : P x = true
  · simp only [hp, if_true]; exact hL x hp
  · simp only [hp, Bool.false_eq_true, if_false]; exact hser x

@[simp] theorem shadow_grid : (cfg.shadow P ser unser).grid = cfg.grid := rfl
@[simp] theorem shadow_shape : (cfg.shadow P ser unser).shape = cfg.shape := rfl
@[simp] theorem shadow_fill : (cfg.shadow P ser unser).fill = cfg.fill := rfl
@[simp] theorem shadow_keyOf : (cfg.shadow P ser unser).keyOf = cfg.keyOf := rfl
@[simp] theorem shadow_storeEmpty : (cfg.shadow P ser unser).storeEmpty = cfg.storeEmpty := rfl
@[simp] theorem shadow_chunkShape (c : Idx) : (cfg.shadow P ser unser).chunkShape c = cfg.chunkShape c := rfl
@[simp] theorem shadow_chunkSubset (c : Idx) : (cfg.shadow P ser unser).chunkSubset c = cfg.chunkSubset c := rfl
@[simp] theorem shadow_isFill (xs : List α) : (cfg.shadow P ser unser).isFill xs = cfg.isFill xs := rfl
theorem shadow_dec_tag (b : Bytes) : (cfg.shadow P ser unser).dec (0 :: b) = cfg.dec b := rfl
theorem shadow_enc_good (x : List α) (h : P x = true) : (cfg.shadow P ser unser).enc x = 0 :: cfg.enc x := by
  simp [shadow, h]

/-! ### the tagged store -/

theorem tag_nil : tag [] = [] := rfl

theorem tag_get (st : KV) (k : Key) : (tag st).get k = (st.get k).map (0 :: ·) := by
  induction st with
  | nil => rfl
  | cons kv rest ih =>
    obtain ⟨k0, v0⟩ := kv
    simp only [tag, List.map_cons, KV.get, List.find?_cons] at ih ⊢
    by_cases h : (k0 == k) = true
    · simp [h]
    · simp only [h]
      exact ih

theorem tag_put (st : KV) (k : Key) (v : Bytes) : tag (st.put k v) = (tag st).put k (0 :: v) := by
  induction st with
  | nil => rfl
  | cons kv rest ih =>
    obtain ⟨k0, v0⟩ := kv
    simp only [tag, List.map_cons, KV.put] at ih ⊢
    by_cases h : (k == k0) = true
    · simp [h]
    · simp only [h, Bool.false_eq_true, if_false]
      by_cases h2 : keyLt k k0 = true
      · simp [h2]
      · simp only [h2, Bool.false_eq_true, if_false, List.map_cons, ih]

theorem tag_erase (st : KV) (k : Key) : tag (st.erase k) = (tag st).erase k := by
  simp only [tag, KV.erase, List.filter_map]
  rfl

theorem tag_keys (st : KV) : (tag st).keys = st.keys := by
  simp [tag, KV.keys, List.map_map, Function.comp_def]

/-! ### reads agree -/

theorem shadow_retrieveChunkIfExists (st : KV) (c : Idx) :
    (cfg.shadow P ser unser).retrieveChunkIfExists (tag st) c = cfg.retrieveChunkIfExists st c := by
  simp only [retrieveChunkIfExists, shadow_chunkShape, shadow_keyOf, tag_get]
  cases cfg.chunkShape c with
  | none => rfl
  | some s =>
    simp only
    cases st.get (cfg.keyOf c) with
    | none => rfl
    | some b => simp only [Option.map_some, shadow_dec_tag]

theorem shadow_retrieveChunk (st : KV) (c : Idx) :
    (cfg.shadow P ser unser).retrieveChunk (tag st) c = cfg.retrieveChunk st c := by
  simp only [retrieveChunk, shadow_retrieveChunkIfExists, shadow_chunkShape, shadow_fill]

theorem shadow_retrieveChunkSubset (st : KV) (c : Idx) (r : Subset) :
    (cfg.shadow P ser unser).retrieveChunkSubset (tag st) c r = cfg.retrieveChunkSubset st c r := by
  simp only [retrieveChunkSubset, shadow_retrieveChunk, shadow_chunkShape]

theorem shadow_retrieveArraySubset (st : KV) (r : Subset) :
    (cfg.shadow P ser unser).retrieveArraySubset (tag st) r = cfg.retrieveArraySubset st r := by
  simp only [retrieveArraySubset, shadow_retrieveChunk, shadow_retrieveChunkSubset, shadow_chunkSubset, shadow_grid,
    shadow_shape, shadow_fill]

theorem shadow_retrieveChunks (st : KV) (b : Subset) :
    (cfg.shadow P ser unser).retrieveChunks (tag st) b = cfg.retrieveChunks st b := by
  simp only [retrieveChunks, shadow_retrieveChunk, shadow_chunkSubset, shadow_grid, shadow_shape, shadow_fill]

theorem shadow_absRun (ops : List (WriteOp α)) : (cfg.shadow P ser unser).absRun ops = cfg.absRun ops := by
  have : (cfg.shadow P ser unser).absOp = cfg.absOp := by
    funext a op
    cases op <;> rfl
  simp only [absRun, this, shadow_fill]

/-! ### writes run in lock step on well-formed data -/

/-- what the simulation needs: `P` holds of every right-length list of good elements, the decoder returns good
elements only, the fill value is good -/
structure Good (cfg : ArrCfg α) (P : List α → Bool) (Pe : α → Bool) : Prop where
  ofElems : ∀ c s x, cfg.chunkShape c = some s → x.length = prod s → (∀ e ∈ x, Pe e = true) → P x = true
  dec : ∀ b xs, cfg.dec b = some xs → ∀ e ∈ xs, Pe e = true
  fill : Pe cfg.fill = true

variable {Pe : α → Bool}

theorem shadow_storeChunk (hG : Good cfg P Pe) (st : KV) (c : Idx) (data : List α) (hd : ∀ e ∈ data, Pe e = true) :
    (cfg.shadow P ser unser).storeChunk (tag st) c data = (cfg.storeChunk st c data).map tag := by
  simp only [storeChunk, shadow_chunkShape, shadow_storeEmpty, shadow_isFill, shadow_keyOf]
  cases hs : cfg.chunkShape c with
  | none => rfl
  | some s =>
    simp only
    by_cases hl : (data.length != prod s) = true
    · simp only [hl, ↓reduceIte, Bool.false_eq_true, if_false, if_true]; rfl
    · simp only [hl, ↓reduceIte, Bool.false_eq_true, if_false, if_true]
      have hl' : data.length = prod s := by simpa using hl
      by_cases hc : (!cfg.storeEmpty && cfg.isFill data) = true
      · simp only [hc, ↓reduceIte, Bool.false_eq_true, if_false, if_true, Option.map_some, tag_erase]
      · simp only [hc, ↓reduceIte, Bool.false_eq_true, if_false, if_true, Option.map_some, tag_put, shadow_enc_good data (hG.ofElems c s data hs hl' hd)]

theorem retrieveChunk_good (hG : Good cfg P Pe) (st : KV) (c : Idx) (old : List α)
    (h : cfg.retrieveChunk st c = some old) : ∀ e ∈ old, Pe e = true := by
  cases hs : cfg.chunkShape c with
  | none => simp [retrieveChunk, hs] at h
  | some s =>
    rw [retrieveChunk_eq st c s hs] at h
    cases hg : st.get (cfg.keyOf c) with
    | none =>
      rw [hg] at h
      simp only [Option.some.injEq] at h
      subst h
      intro e he
      rw [(List.mem_replicate.mp he).2]
      exact hG.fill
    | some b =>
      rw [hg] at h
      simp only at h
      cases hd : cfg.dec b with
      | none => rw [hd] at h; simp at h
      | some xs =>
        rw [hd] at h
        simp only at h
        by_cases hl : xs.length = prod s
        · rw [if_pos hl] at h
          simp only [Option.some.injEq] at h
          subst h
          exact hG.dec b xs hd
        · rw [if_neg hl] at h; cases h

theorem mem_updateRuns (sh : Shape) (r : Subset) (xs ys : List α) (x : α) (h : x ∈ updateRuns sh r xs ys) :
    x ∈ xs ∨ x ∈ ys := by
  unfold updateRuns at h
  generalize ((r.contiguousLinearised sh).zipIdx) = L at h
  generalize (r.contiguous sh).run = run at h
  induction L generalizing xs with
  | nil => exact Or.inl h
  | cons p rest ih =>
    rw [List.foldl_cons] at h
    rcases ih _ h with h1 | h1
    · simp only [List.mem_append] at h1
      rcases h1 with (h1 | h1) | h1
      · exact Or.inl (List.mem_of_mem_take h1)
      · exact Or.inr (List.mem_of_mem_drop (List.mem_of_mem_take h1))
      · exact Or.inl (List.mem_of_mem_drop h1)
    · exact Or.inr h1

theorem shadow_storeChunkSubset (hG : Good cfg P Pe) (st : KV) (c : Idx) (r : Subset) (data : List α)
    (hd : ∀ e ∈ data, Pe e = true) :
    (cfg.shadow P ser unser).storeChunkSubset (tag st) c r data = (cfg.storeChunkSubset st c r data).map tag := by
  simp only [storeChunkSubset, shadow_chunkShape, shadow_retrieveChunk]
  cases hs : cfg.chunkShape c with
  | none => rfl
  | some s =>
    simp only
    by_cases h1 : (!(r.rank == s.length && Subset.allLe r.endExc s)) = true
    · simp only [h1, ↓reduceIte, Bool.false_eq_true, if_false, if_true]; rfl
    · simp only [h1, ↓reduceIte, Bool.false_eq_true, if_false, if_true]
      by_cases h2 : (r.shape == s && r.start.all (· == 0)) = true
      · simp only [h2, ↓reduceIte, Bool.false_eq_true, if_false, if_true]
        exact shadow_storeChunk hG st c data hd
      · simp only [h2, ↓reduceIte, Bool.false_eq_true, if_false, if_true]
        by_cases h3 : (data.length != r.numElements) = true
        · simp only [h3, ↓reduceIte, Bool.false_eq_true, if_false, if_true]; rfl
        · simp only [h3, ↓reduceIte, Bool.false_eq_true, if_false, if_true]
          cases hold : cfg.retrieveChunk st c with
          | none => rfl
          | some old =>
            simp only
            apply shadow_storeChunk hG
            intro e he
            rcases mem_updateRuns s r old data e he with h | h
            · exact retrieveChunk_good hG st c old hold e h
            · exact hd e h

theorem foldOpt_tag {β} (f fL : KV → β → Option KV) (l : List β)
    (h : ∀ st b, b ∈ l → fL (tag st) b = (f st b).map tag) :
    ∀ st, foldOpt fL (tag st) l = (foldOpt f st l).map tag := by
  induction l with
  | nil => intro st; rfl
  | cons b bs ih =>
    intro st
    simp only [foldOpt, h st b (by simp)]
    cases f st b with
    | none => rfl
    | some st' =>
      simp only [Option.map_some]
      exact ih (fun st b hb => h st b (by simp [hb])) st'

theorem shadow_storeChunks (hG : Good cfg P Pe) (st : KV) (box : Subset) (data : List α)
    (hd : ∀ e ∈ data, Pe e = true) :
    (cfg.shadow P ser unser).storeChunks (tag st) box data = (cfg.storeChunks st box data).map tag := by
  simp only [storeChunks, shadow_grid, shadow_chunkSubset]
  cases box.numElements with
  | zero =>
    simp only
    by_cases h : data.isEmpty = true
    · simp only [h, ↓reduceIte, Bool.false_eq_true, if_false, if_true]; rfl
    · simp only [h, ↓reduceIte, Bool.false_eq_true, if_false, if_true]; rfl
  | succ n =>
    cases n with
    | zero => exact shadow_storeChunk hG st _ data hd
    | succ m =>
      simp only
      cases cfg.grid.chunksSubset box with
      | none => rfl
      | some region =>
        simp only
        by_cases h : (data.length != region.numElements) = true
        · simp only [h, ↓reduceIte, Bool.false_eq_true, if_false, if_true]; rfl
        · simp only [h, ↓reduceIte, Bool.false_eq_true, if_false, if_true]
          apply foldOpt_tag
          intro st' c _
          cases cfg.chunkSubset c with
          | none => rfl
          | some cs =>
            simp only
            exact shadow_storeChunk hG st' c _ (fun e he => hd e (Partial.mem_extract _ _ _ e he))

theorem shadow_storeArraySubset (hG : Good cfg P Pe) (st : KV) (region : Subset) (data : List α)
    (hd : ∀ e ∈ data, Pe e = true) :
    (cfg.shadow P ser unser).storeArraySubset (tag st) region data = (cfg.storeArraySubset st region data).map tag := by
  simp only [storeArraySubset, shadow_grid, shadow_shape, shadow_chunkSubset]
  by_cases h0 : (region.rank != cfg.shape.length) = true
  · simp only [h0, ↓reduceIte, Bool.false_eq_true, if_false, if_true]; rfl
  · simp only [h0, ↓reduceIte, Bool.false_eq_true, if_false, if_true]
    cases cfg.grid.chunksInArraySubset region cfg.shape with
    | none => rfl
    | some chunks =>
      simp only
      by_cases h1 : (chunks.numElements == 1) = true
      · simp only [h1, ↓reduceIte, Bool.false_eq_true, if_false, if_true]
        cases cfg.chunkSubset chunks.start with
        | none => rfl
        | some cs =>
          simp only
          by_cases h2 : (region == cs) = true
          · simp only [h2, ↓reduceIte, Bool.false_eq_true, if_false, if_true]
            exact shadow_storeChunk hG st _ data hd
          · simp only [h2, ↓reduceIte, Bool.false_eq_true, if_false, if_true]
            exact shadow_storeChunkSubset hG st _ _ data hd
      · simp only [h1, ↓reduceIte, Bool.false_eq_true, if_false, if_true]
        by_cases h3 : (data.length != region.numElements) = true
        · simp only [h3, ↓reduceIte, Bool.false_eq_true, if_false, if_true]; rfl
        · simp only [h3, ↓reduceIte, Bool.false_eq_true, if_false, if_true]
          apply foldOpt_tag
          intro st' c _
          cases cfg.chunkSubset c with
          | none => rfl
          | some cs =>
            simp only
            exact shadow_storeChunkSubset hG st' c _ _ (fun e he => hd e (Partial.mem_extract _ _ _ e he))

theorem shadow_eraseChunks (st : KV) (box : Subset) :
    (cfg.shadow P ser unser).eraseChunks (tag st) box = tag (cfg.eraseChunks st box) := by
  simp only [eraseChunks, eraseChunk, shadow_keyOf]
  generalize box.indices = L
  induction L generalizing st with
  | nil => rfl
  | cons c cs ih => simp only [List.foldl_cons, ← tag_erase, ih]

/-- the elements an operation writes -/
def opData : WriteOp α → List α
  | .storeChunk _ d => d
  | .storeChunks _ d => d
  | .storeChunkSubset _ _ d => d
  | .storeArraySubset _ d => d
  | .eraseChunk _ => []
  | .eraseChunks _ => []

theorem shadow_applyOp (hG : Good cfg P Pe) (st : KV) (op : WriteOp α) (hd : ∀ e ∈ opData op, Pe e = true) :
    (cfg.shadow P ser unser).applyOp (tag st) op = (cfg.applyOp st op).map tag := by
  cases op with
  | storeChunk c d => exact shadow_storeChunk hG st c d hd
  | storeChunks b d => exact shadow_storeChunks hG st b d hd
  | storeChunkSubset c r d => exact shadow_storeChunkSubset hG st c r d hd
  | storeArraySubset r d => exact shadow_storeArraySubset hG st r d hd
  | eraseChunk c => simp only [applyOp, eraseChunk, shadow_keyOf, Option.map_some, tag_erase]
  | eraseChunks b => simp only [applyOp, shadow_eraseChunks, Option.map_some]

theorem shadow_run (hG : Good cfg P Pe) (ops : List (WriteOp α)) (hd : ∀ op ∈ ops, ∀ e ∈ opData op, Pe e = true) :
    ∀ st, (cfg.shadow P ser unser).run (tag st) ops = (cfg.run st ops).map tag := by
  unfold run
  apply foldOpt_tag
  intro st op hop
  exact shadow_applyOp hG st op (hd op hop)

end ArrCfg
end Zarrs
