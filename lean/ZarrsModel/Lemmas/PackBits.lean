import ZarrsModel.Model.PackBits
/- helper lemmas for the packbits theorems of C03 -/
set_option Elab.async false
namespace Zarrs.PackBits

/-! ### `chunks` -/

theorem chunks_spec (k : Nat) (hk : 0 < k) : ∀ (m fuel : Nat) (b : Bytes), b.length = m * k → m < fuel →
    (chunks k fuel b).length = m ∧ (∀ x ∈ chunks k fuel b, x.length = k) ∧ (chunks k fuel b).flatten = b := by
  intro m
  induction m with
  | zero =>
    intro fuel b hb hf
    have hb' : b = [] := List.eq_nil_of_length_eq_zero (by omega)
    subst hb'
    cases fuel with
    | zero => omega
    | succ f => simp [chunks]
  | succ m ih =>
    intro fuel b hb hf
    cases fuel with
    | zero => omega
    | succ f =>
      have hlen : k ≤ b.length := by
        rw [hb, Nat.succ_mul]; omega
      have hne : b.isEmpty = false := by
        cases b with
        | nil => simp at hlen; omega
        | cons x xs => rfl
      have hk0 : (k == 0) = false := by
        simp only [beq_eq_false_iff_ne, ne_eq]; omega
      have hd : (b.drop k).length = m * k := by
        rw [List.length_drop, hb, Nat.succ_mul]; omega
      obtain ⟨h1, h2, h3⟩ := ih f (b.drop k) hd (by omega)
      have hc : chunks k (f + 1) b = b.take k :: chunks k f (b.drop k) := by
        simp only [chunks, hne, hk0, Bool.or_self, Bool.false_eq_true, if_false]
      rw [hc]
      refine ⟨by simp only [List.length_cons, h1], ?_, ?_⟩
      · intro x hx
        rcases List.mem_cons.mp hx with rfl | hx
        · rw [List.length_take]; omega
        · exact h2 x hx
      · rw [List.flatten_cons, h3, List.take_append_drop]

/-! ### little-endian words -/

theorem toLE_ofLE : ∀ (b : Bytes), (∀ x ∈ b, x < 256) → toLE b.length (ofLE b) = b := by
  intro b
  induction b with
  | nil => intro _; rfl
  | cons x xs ih =>
    intro h
    have hx : x < 256 := h x (List.mem_cons_self)
    have ih' := ih (fun y hy => h y (List.mem_cons_of_mem _ hy))
    simp only [List.length_cons, ofLE, toLE]
    have e1 : (x + 256 * ofLE xs) % 256 = x := by omega
    have e2 : (x + 256 * ofLE xs) / 256 = ofLE xs := by omega
    rw [e1, e2, ih']

/-! ### bits -/

theorem bitsOf_length (n v : Nat) : (bitsOf n v).length = n := by
  simp only [bitsOf, List.length_map, List.length_range]

theorem bitsOf_zero (v : Nat) : bitsOf 0 v = [] := rfl

theorem bitsOf_succ (n v : Nat) : bitsOf (n + 1) v = (v % 2 == 1) :: bitsOf n (v / 2) := by
  simp only [bitsOf, List.range_succ_eq_map, List.map_cons, List.map_map, Nat.pow_zero, Nat.div_one]
  congr 1
  apply List.map_congr_left
  intro i _
  simp only [Function.comp, Nat.succ_eq_add_one]
  rw [Nat.pow_succ', Nat.div_div_eq_div_mul]

theorem natOfBits_bitsOf : ∀ (n v : Nat), natOfBits (bitsOf n v) = v % 2 ^ n := by
  intro n
  induction n with
  | zero => intro v; simp only [bitsOf_zero, natOfBits, Nat.pow_zero, Nat.mod_one]
  | succ n ih =>
    intro v
    rw [bitsOf_succ, natOfBits, ih, Nat.pow_succ', Nat.mod_mul]
    have : (if (v % 2 == 1) = true then 1 else 0) = v % 2 := by
      have := Nat.mod_lt v (show 0 < 2 by decide)
      by_cases h : v % 2 = 1
      · simp only [h, beq_self_eq_true, if_true]
      · have h0 : v % 2 = 0 := by omega
        simp only [h0]; rfl
    rw [this]

theorem bitsOf_zero_val : ∀ n, bitsOf n 0 = List.replicate n false := by
  intro n
  induction n with
  | zero => rfl
  | succ n ih => rw [bitsOf_succ, List.replicate_succ]; simp only [Nat.zero_mod, Nat.zero_div, ih]; rfl

theorem bitsOf_natOfBits : ∀ (l : List Bool) (n : Nat), l.length ≤ n →
    bitsOf n (natOfBits l) = l ++ List.replicate (n - l.length) false := by
  intro l
  induction l with
  | nil => intro n _; simp only [natOfBits, bitsOf_zero_val, List.length_nil, Nat.sub_zero, List.nil_append]
  | cons b bs ih =>
    intro n hn
    cases n with
    | zero => simp at hn
    | succ n =>
      simp only [List.length_cons] at hn
      rw [bitsOf_succ, natOfBits]
      have e1 : (((if b = true then 1 else 0) + 2 * natOfBits bs) % 2 == 1) = b := by
        cases b
        · have : (0 + 2 * natOfBits bs) % 2 = 0 := by omega
          simp only [Bool.false_eq_true, if_false, this]; rfl
        · have : (1 + 2 * natOfBits bs) % 2 = 1 := by omega
          simp only [if_true, this]; rfl
      have e2 : ((if b = true then 1 else 0) + 2 * natOfBits bs) / 2 = natOfBits bs := by
        cases b
        · simp only [Bool.false_eq_true, if_false]; omega
        · simp only [if_true]; omega
      rw [e1, e2, ih n (by omega)]
      simp only [List.length_cons, Nat.add_sub_add_right, List.cons_append]

theorem flatMap_bitsOf_length (n : Nat) : ∀ (vs : List Nat), (vs.flatMap (bitsOf n)).length = vs.length * n := by
  intro vs
  induction vs with
  | nil => simp only [List.flatMap_nil, List.length_nil, Nat.zero_mul]
  | cons v vs ih =>
    rw [List.flatMap_cons, List.length_append, bitsOf_length, ih, List.length_cons, Nat.succ_mul, Nat.add_comm]

theorem takeBits_flatMap (n : Nat) : ∀ (vs : List Nat) (rest : List Bool),
    takeBits vs.length n (vs.flatMap (bitsOf n) ++ rest) = vs.map (bitsOf n) := by
  intro vs
  induction vs with
  | nil => intro rest; rfl
  | cons v vs ih =>
    intro rest
    simp only [List.length_cons, takeBits, List.flatMap_cons, List.append_assoc, List.map_cons]
    rw [List.take_left' (bitsOf_length n v), List.drop_left' (bitsOf_length n v), ih]

/-! ### `bytesOfBits` -/

theorem bytesOfBits_nil (fuel : Nat) : bytesOfBits fuel [] = [] := by
  cases fuel <;> rfl

theorem bytesOfBits_cons (fuel : Nat) (b : Bool) (bs : List Bool) :
    bytesOfBits (fuel + 1) (b :: bs) = natOfBits ((b :: bs).take 8) :: bytesOfBits fuel ((b :: bs).drop 8) := rfl

theorem bytesOfBits_length : ∀ (fuel : Nat) (bits : List Bool), bits.length ≤ 8 * fuel →
    (bytesOfBits fuel bits).length = (bits.length + 7) / 8 := by
  intro fuel
  induction fuel with
  | zero =>
    intro bits h
    have : bits = [] := List.eq_nil_of_length_eq_zero (by omega)
    subst this; rfl
  | succ fuel ih =>
    intro bits h
    cases bits with
    | nil => rw [bytesOfBits_nil]; rfl
    | cons b bs =>
      rw [bytesOfBits_cons, List.length_cons, ih _ (by rw [List.length_drop]; omega), List.length_drop]
      simp only [List.length_cons] at h ⊢
      omega

theorem allBits_cons (x : Nat) (xs : Bytes) : allBits (x :: xs) = bitsOf 8 x ++ allBits xs := by
  simp only [allBits, List.flatMap_cons]

theorem allBits_bytesOfBits : ∀ (fuel : Nat) (bits : List Bool), bits.length ≤ 8 * fuel →
    ∃ rest, allBits (bytesOfBits fuel bits) = bits ++ rest := by
  intro fuel
  induction fuel with
  | zero =>
    intro bits h
    have : bits = [] := List.eq_nil_of_length_eq_zero (by omega)
    subst this; exact ⟨[], rfl⟩
  | succ fuel ih =>
    intro bits h
    cases bits with
    | nil => rw [bytesOfBits_nil]; exact ⟨[], rfl⟩
    | cons b bs =>
      obtain ⟨rest, hrest⟩ := ih ((b :: bs).drop 8) (by rw [List.length_drop]; omega)
      rw [bytesOfBits_cons, allBits_cons, hrest,
        bitsOf_natOfBits _ 8 (by rw [List.length_take]; omega)]
      refine ⟨List.replicate (8 - ((b :: bs).take 8).length) false ++ rest, ?_⟩
      by_cases hlen : 8 ≤ (b :: bs).length
      · have : 8 - ((b :: bs).take 8).length = 0 := by rw [List.length_take]; omega
        rw [this]
        simp only [List.replicate_zero, List.append_nil, List.nil_append]
        rw [← List.append_assoc, List.take_append_drop]
      · have h1 : (b :: bs).take 8 = b :: bs := List.take_of_length_le (by omega)
        have h2 : (b :: bs).drop 8 = [] := List.drop_of_length_le (by omega)
        rw [h1, h2]
        simp only [List.nil_append, List.append_assoc]

/-! ### `place` -/

theorem place_extract (c : Cfg) (hfl : c.first ≤ c.last) (hl : c.last < c.w) (v : Nat)
    (h : inRange c v = true) : place c (v / 2 ^ c.first % 2 ^ c.n) = v := by
  have hAB : 2 ^ c.last = 2 ^ c.first * 2 ^ (c.last - c.first) := by
    rw [← Nat.pow_add]; congr 1; omega
  have hM : 2 ^ (c.last + 1) = 2 ^ c.first * (2 ^ (c.last - c.first) * 2) := by
    rw [Nat.pow_succ, hAB, Nat.mul_assoc]
  have hn : 2 ^ c.n = 2 ^ (c.last - c.first) * 2 := Nat.pow_succ ..
  have hn1 : c.n - 1 = c.last - c.first := rfl
  have hW : 2 ^ c.w = 2 ^ (c.last + 1) * 2 ^ (c.w - c.last - 1) := by
    rw [← Nat.pow_add]; congr 1; omega
  have hMpos : 0 < 2 ^ (c.last + 1) := Nat.pow_pos (by decide)
  have hKpos : 0 < 2 ^ (c.w - c.last - 1) := Nat.pow_pos (by decide)
  simp only [inRange, Bool.and_eq_true, decide_eq_true_eq, beq_iff_eq] at h
  obtain ⟨⟨h1, h2⟩, h3⟩ := h
  -- the extracted field, shifted back, is `v` below bit `last + 1`
  have hx : (v / 2 ^ c.first % 2 ^ c.n) * 2 ^ c.first = v % 2 ^ (c.last + 1) := by
    rw [hn, hM, Nat.mod_mul (x := v), h2, Nat.zero_add, Nat.mul_comm]
  -- its top bit is bit `last` of `v`
  have hs : (v / 2 ^ c.first % 2 ^ c.n) / 2 ^ (c.n - 1) % 2 = v / 2 ^ c.last % 2 := by
    rw [hn, hn1, Nat.mod_mul_right_div_self, Nat.mod_mod, Nat.div_div_eq_div_mul, ← hAB]
  have hdm := Nat.div_add_mod v (2 ^ (c.last + 1))
  unfold place
  simp only [hx, hs]
  cases hsign : c.sign with
  | false =>
    simp only [hsign, Bool.false_eq_true, if_false, decide_eq_true_eq] at h3
    simp only [Bool.false_and, Bool.false_eq_true, if_false]
    exact Nat.mod_eq_of_lt h3
  | true =>
    simp only [hsign, if_true] at h3
    simp only [Bool.true_and, beq_iff_eq]
    by_cases hbit : v / 2 ^ c.last % 2 = 1
    · simp only [hbit, if_true, beq_iff_eq] at h3 ⊢
      rw [h3] at hdm
      rw [hW]
      generalize 2 ^ (c.last + 1) = M at *
      generalize 2 ^ (c.w - c.last - 1) = K at *
      rw [Nat.mul_sub, Nat.mul_one] at hdm
      have : M ≤ M * K := Nat.le_mul_of_pos_right M hKpos
      omega
    · simp only [hbit, if_false, beq_iff_eq] at h3 ⊢
      rw [h3, Nat.mul_zero, Nat.zero_add] at hdm
      exact hdm

/-! ### assembly -/

theorem cb_pos (c : Cfg) (hw : 0 < c.w) : 0 < c.cb := by unfold Cfg.cb; omega

theorem chunks_data (c : Cfg) (hw : 0 < c.w) (data : Bytes) (hlen : data.length % c.cb = 0) :
    (chunks c.cb (data.length + 1) data).length = data.length / c.cb ∧
    (∀ x ∈ chunks c.cb (data.length + 1) data, x.length = c.cb) ∧
    (chunks c.cb (data.length + 1) data).flatten = data :=
  chunks_spec c.cb (cb_pos c hw) (data.length / c.cb) (data.length + 1) data
    (Nat.div_mul_cancel (Nat.dvd_of_mod_eq_zero hlen)).symm
    (Nat.lt_succ_of_le (Nat.div_le_self _ _))

theorem comps_length (c : Cfg) (hw : 0 < c.w) (data : Bytes) (hlen : data.length % c.cb = 0) :
    (comps c data).length = data.length / c.cb := by
  unfold comps; rw [List.length_map]; exact (chunks_data c hw data hlen).1

/-- the packed bit stream -/
def encBits (c : Cfg) (data : Bytes) : List Bool :=
  ((comps c data).map (fun v => v / 2 ^ c.first % 2 ^ c.n)).flatMap (bitsOf c.n)

/-- the packed bytes, without the padding byte -/
def encBody (c : Cfg) (data : Bytes) : Bytes := bytesOfBits ((encBits c data).length + 1) (encBits c data)

theorem encBits_length (c : Cfg) (hw : 0 < c.w) (data : Bytes) (hlen : data.length % c.cb = 0) :
    (encBits c data).length = data.length / c.cb * c.n := by
  unfold encBits; rw [flatMap_bitsOf_length, List.length_map, comps_length c hw data hlen]

theorem encBody_length (c : Cfg) (hw : 0 < c.w) (data : Bytes) (hlen : data.length % c.cb = 0) :
    (encBody c data).length = (data.length / c.cb * c.n + 7) / 8 := by
  unfold encBody
  rw [bytesOfBits_length _ _ (by omega), encBits_length c hw data hlen]

theorem encode_slow (c : Cfg) (data : Bytes) (hf : fast c = false) :
    encode c data = match c.pad with
      | .none => encBody c data
      | .firstByte => padBits (encBits c data).length :: encBody c data
      | .lastByte => encBody c data ++ [padBits (encBits c data).length] := by
  unfold encode
  simp only [hf, Bool.false_eq_true, if_false]
  rfl

theorem encode_length (c : Cfg) (hw : 0 < c.w) (data : Bytes) (hlen : data.length % c.cb = 0) :
    (encode c data).length = encodedSize c (data.length / c.cb) := by
  cases hf : fast c with
  | true =>
    unfold encode encodedSize
    simp only [hf, if_true]
    exact (Nat.div_mul_cancel (Nat.dvd_of_mod_eq_zero hlen)).symm
  | false =>
    rw [encode_slow c data hf]
    unfold encodedSize
    simp only [hf, Bool.false_eq_true, if_false]
    cases hp : c.pad with
    | none => simp only [encBody_length c hw data hlen]; rfl
    | firstByte => simp only [List.length_cons, encBody_length c hw data hlen]; rfl
    | lastByte =>
      simp only [List.length_append, List.length_cons, List.length_nil, encBody_length c hw data hlen]; rfl

theorem decode_body (c : Cfg) (hw : 0 < c.w) (hfl : c.first ≤ c.last) (hl : c.last < c.w)
    (data : Bytes) (hb : ∀ x ∈ data, x < 256) (hlen : data.length % c.cb = 0)
    (hr : ∀ v ∈ comps c data, inRange c v = true) :
    ((takeBits (data.length / c.cb) c.n (allBits (encBody c data))).map
      (fun bs => toLE c.cb (place c (natOfBits bs)))).flatten = data := by
  obtain ⟨hc1, hc2, hc3⟩ := chunks_data c hw data hlen
  obtain ⟨rest, hrest⟩ := allBits_bytesOfBits ((encBits c data).length + 1) (encBits c data) (by omega)
  unfold encBody
  rw [hrest]
  unfold encBits
  have hcount : data.length / c.cb = ((comps c data).map (fun v => v / 2 ^ c.first % 2 ^ c.n)).length := by
    rw [List.length_map, comps_length c hw data hlen]
  rw [hcount, takeBits_flatMap]
  unfold comps at hr ⊢
  simp only [List.map_map]
  have : (chunks c.cb (data.length + 1) data).map
      ((fun bs => toLE c.cb (place c (natOfBits bs))) ∘ bitsOf c.n ∘ (fun v => v / 2 ^ c.first % 2 ^ c.n) ∘ ofLE) =
      chunks c.cb (data.length + 1) data := by
    conv => rhs; rw [← List.map_id (chunks c.cb (data.length + 1) data)]
    apply List.map_congr_left
    intro ch hch
    simp only [Function.comp, id]
    have hin : inRange c (ofLE ch) = true := hr _ (List.mem_map_of_mem hch)
    have hwf : ∀ x ∈ ch, x < 256 := by
      intro x hx
      apply hb
      rw [← hc3]
      exact List.mem_flatten.mpr ⟨ch, hch, hx⟩
    rw [natOfBits_bitsOf, Nat.mod_mod, place_extract c hfl hl _ hin, ← hc2 ch hch, toLE_ofLE ch hwf]
  rw [this, hc3]

theorem decode_encode (c : Cfg) (hw : 0 < c.w) (hfl : c.first ≤ c.last) (hl : c.last < c.w)
    (data : Bytes) (hb : ∀ x ∈ data, x < 256) (hlen : data.length % c.cb = 0)
    (hr : ∀ v ∈ comps c data, inRange c v = true) :
    decode c (data.length / c.cb) (encode c data) = some data := by
  cases hf : fast c with
  | true =>
    unfold decode encode
    simp only [hf, if_true]
    rw [Nat.div_mul_cancel (Nat.dvd_of_mod_eq_zero hlen)]
    simp only [beq_self_eq_true, if_true]
  | false =>
    have hsz := encode_length c hw data hlen
    have hbody := decode_body c hw hfl hl data hb hlen hr
    have htot := encBits_length c hw data hlen
    have henc := encode_slow c data hf
    unfold decode
    simp only [hf, Bool.false_eq_true, if_false, hsz, bne_self_eq_false]
    rw [← htot]
    cases hp : c.pad with
    | none =>
      simp only [hp] at henc
      simp only [henc, Option.map_some, hbody]
    | firstByte =>
      simp only [hp] at henc
      simp only [henc, List.head?_cons, beq_self_eq_true, if_true, List.drop_succ_cons, List.drop_zero,
        Option.map_some, hbody]
    | lastByte =>
      simp only [hp] at henc
      simp only [henc, List.getLast?_concat, beq_self_eq_true, if_true, List.dropLast_concat,
        Option.map_some, hbody]

end Zarrs.PackBits
