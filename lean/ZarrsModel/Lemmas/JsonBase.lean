import ZarrsModel.Model.Json
import ZarrsModel.Lemmas.JsonStr
/- JSON parser equation lemmas and first-byte facts (used by Lemmas/Json.lean) -/
namespace Zarrs.Json

theorem parseNum_head (inp : List Nat) (x) (h : parseNum inp = some x) :
    ∃ b tl, inp = b :: tl ∧ (b = 45 ∨ isDigit b = true) := by
  match inp, h with
  | [], h => simp [parseNum, takeWhileB] at h
  | b :: tl, h =>
    refine ⟨b, tl, rfl, ?_⟩
    by_cases h45 : b = 45
    · exact Or.inl h45
    · right
      by_cases hd : isDigit b = true
      · exact hd
      · exfalso
        unfold parseNum at h
        split at h
        rename_i sign r0 heq
        split at heq
        · simp_all
        · simp at heq
          obtain ⟨rfl, rfl⟩ := heq
          simp [takeWhileB, hd] at h

theorem ascii_null : ascii "null" = [110,117,108,108] := by simp [ascii]
theorem ascii_true : ascii "true" = [116,114,117,101] := by simp [ascii]
theorem ascii_false : ascii "false" = [102,97,108,115,101] := by simp [ascii]

theorem skipWs_cons (b : Nat) (tl : List Nat) (h : isWs b = false) : skipWs (b :: tl) = b :: tl := by
  simp [skipWs, h]

theorem pv_null (f rest) : parseValue (f+1) (110 :: 117 :: 108 :: 108 :: rest) = some (.null, rest) := by
  rw [parseValue, skipWs_cons _ _ (by decide)]; rfl
theorem pv_true (f rest) : parseValue (f+1) (116 :: 114 :: 117 :: 101 :: rest) = some (.bool true, rest) := by
  rw [parseValue, skipWs_cons _ _ (by decide)]; rfl
theorem pv_false (f rest) : parseValue (f+1) (102 :: 97 :: 108 :: 115 :: 101 :: rest) = some (.bool false, rest) := by
  rw [parseValue, skipWs_cons _ _ (by decide)]; rfl
theorem pv_str (f rest) : parseValue (f+1) (34 :: rest) = (parseStr rest).map (fun (s, r) => (.str s, r)) := by
  rw [parseValue, skipWs_cons _ _ (by decide)]; rfl
theorem pv_arr' (f rest) : parseValue (f+1) (91 :: rest) =
      match skipWs rest with
      | 93 :: r => some (.arr [], r)
      | r => (parseElems f r []).map (fun (xs, r') => (.arr xs, r')) := by
  rw [parseValue, skipWs_cons _ _ (by decide)]; rfl
theorem pv_obj' (f rest) : parseValue (f+1) (123 :: rest) =
      match skipWs rest with
      | 125 :: r => some (.obj [], r)
      | r => (parseMembers f r []).map (fun (xs, r') => (.obj xs, r')) := by
  rw [parseValue, skipWs_cons _ _ (by decide)]; rfl
theorem pv_arr_nil (f rest) : parseValue (f+1) (91 :: 93 :: rest) = some (.arr [], rest) := by
  rw [pv_arr', skipWs_cons _ _ (by decide)]; rfl
theorem pv_obj_nil (f rest) : parseValue (f+1) (123 :: 125 :: rest) = some (.obj [], rest) := by
  rw [pv_obj', skipWs_cons _ _ (by decide)]; rfl
theorem pv_arr (f b rest) (h1 : isWs b = false) (h2 : b ≠ 93) : parseValue (f+1) (91 :: b :: rest) =
    (parseElems f (b :: rest) []).map (fun (xs, r') => (.arr xs, r')) := by
  rw [pv_arr', skipWs_cons _ _ h1]
  split
  · simp_all
  · rfl
theorem pv_obj (f b rest) (h1 : isWs b = false) (h2 : b ≠ 125) : parseValue (f+1) (123 :: b :: rest) =
    (parseMembers f (b :: rest) []).map (fun (xs, r') => (.obj xs, r')) := by
  rw [pv_obj', skipWs_cons _ _ h1]
  split
  · simp_all
  · rfl
theorem pv_num (f b rest) (h : b = 45 ∨ isDigit b = true) : parseValue (f+1) (b :: rest) =
    (parseNum (b :: rest)).map (fun (t, r) => (.num t, r)) := by
  have hws : isWs b = false := by
    rcases h with rfl | h
    · decide
    · simp [isDigit] at h; simp [isWs]; omega
  rw [parseValue, skipWs_cons _ _ hws]
  have hb : 45 ≤ b ∧ b ≤ 57 := by
    rcases h with rfl | h
    · omega
    · simp [isDigit] at h; omega
  split <;> first | rfl | (simp at *; omega)

theorem pe_comma (f inp acc v r) (h : parseValue f inp = some (v, 44 :: r)) :
    parseElems (f+1) inp acc = parseElems f r (acc ++ [v]) := by
  rw [parseElems, h]; simp only []; rw [skipWs_cons _ _ (by decide)]; rfl
theorem pe_close (f inp acc v r) (h : parseValue f inp = some (v, 93 :: r)) :
    parseElems (f+1) inp acc = some (acc ++ [v], r) := by
  rw [parseElems, h]; simp only []; rw [skipWs_cons _ _ (by decide)]; rfl

theorem pm_comma (f inp acc k v r4 r2) (hk : parseStr inp = some (k, 58 :: r2))
    (h : parseValue f r2 = some (v, 44 :: r4)) (hacc : acc.any (·.1 == k) = false) :
    parseMembers (f+1) (34 :: inp) acc = parseMembers f r4 (acc ++ [(k, v)]) := by
  rw [parseMembers, skipWs_cons _ _ (by decide)]
  simp only [hk]
  rw [skipWs_cons _ _ (by decide)]
  simp only [h, hacc]
  rw [skipWs_cons _ _ (by decide)]
  rfl
theorem pm_close (f inp acc k v r4 r2) (hk : parseStr inp = some (k, 58 :: r2))
    (h : parseValue f r2 = some (v, 125 :: r4)) (hacc : acc.any (·.1 == k) = false) :
    parseMembers (f+1) (34 :: inp) acc = some (acc ++ [(k, v)], r4) := by
  rw [parseMembers, skipWs_cons _ _ (by decide)]
  simp only [hk]
  rw [skipWs_cons _ _ (by decide)]
  simp only [h, hacc]
  rw [skipWs_cons _ _ (by decide)]
  rfl

/-! ### first byte of printed output -/

theorem num_head (t : List Char) (h : tokOk t) :
    ∃ b tl, t.map Char.toNat = b :: tl ∧ (b = 45 ∨ isDigit b = true) := by
  have := h [] (by simp)
  rw [List.append_nil] at this
  exact parseNum_head _ _ this

theorem print_head (j : J) (h : j.wf) :
    ∃ b tl, print j = b :: tl ∧ isWs b = false ∧ b ≠ 93 ∧ b ≠ 125 := by
  cases j with
  | null => exact ⟨110, [117,108,108], by simp [print, ascii_null], by decide, by decide, by decide⟩
  | bool b =>
    cases b
    · exact ⟨102, [97,108,115,101], by simp [print, ascii_false], by decide, by decide, by decide⟩
    · exact ⟨116, [114,117,101], by simp [print, ascii_true], by decide, by decide, by decide⟩
  | num t =>
    simp only [J.wf] at h
    obtain ⟨b, tl, e, hb⟩ := num_head t h
    refine ⟨b, tl, by simp [print, e], ?_⟩
    rcases hb with rfl | hb
    · decide
    · simp [isDigit] at hb; simp [isWs]; omega
  | str s => exact ⟨34, s.flatMap escapeByte ++ [34], by simp [print, printStr], by decide, by decide, by decide⟩
  | arr xs => exact ⟨91, printList xs ++ [93], by simp [print], by decide, by decide, by decide⟩
  | obj kvs => exact ⟨123, printKVs kvs ++ [125], by simp [print], by decide, by decide, by decide⟩

def headOk (rest : List Nat) : Prop := ∀ b, rest.head? = some b → numCont b = false

theorem headOk_44 (r) : headOk (44 :: r) := by intro b h; simp at h; subst h; decide
theorem headOk_93 (r) : headOk (93 :: r) := by intro b h; simp at h; subst h; decide
theorem headOk_125 (r) : headOk (125 :: r) := by intro b h; simp at h; subst h; decide
theorem headOk_nil : headOk [] := by intro b h; simp at h

end Zarrs.Json
