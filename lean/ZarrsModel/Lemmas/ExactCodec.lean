import ZarrsModel.Model.FillMeta
import ZarrsModel.Lemmas.NumTok
import ZarrsModel.Lemmas.Float
/-
The exact decimal expansion of a finite binary64 pattern (`a / 2^k = a * 5^k / 10^k`) as a number token,
and the proof that the correctly rounded reader `readF64` reads it back.  Core Lean only.
-/
namespace Zarrs.Float
open Zarrs.NumTok

theorem natOfDigits_eq_json : @natOfDigits = @Zarrs.Json.natOfDigits := rfl

/-- the denominator of an exact binary64 value is `2^k` with `k ≤ 1074` -/
theorem f64_value_den (m : Nat) : ∃ k, (f64.value m).2 = 2 ^ k ∧ k ≤ 1074 := by
  rw [Fmt.value_eq]
  split
  · exact ⟨0, rfl, by omega⟩
  · refine ⟨_, rfl, ?_⟩
    have h1 := (f64.sigExp_spec m).1
    have h2 : f64.bias + f64.mb = 1075 := by decide
    omega

theorem takeWhile_digits (ds rest : List Char) (hds : ∀ c ∈ ds, c.isDigit = true)
    (hrest : ∀ c, rest.head? = some c → c.isDigit = false) :
    (ds ++ rest).takeWhile Char.isDigit = ds ∧ (ds ++ rest).dropWhile Char.isDigit = rest := by
  induction ds with
  | nil =>
    cases rest with
    | nil => exact ⟨rfl, rfl⟩
    | cons c r =>
      have := hrest c rfl
      simp [this]
  | cons d ds ih =>
    have hd := hds d (by simp)
    have := ih (fun c hc => hds c (by simp [hc]))
    simp [hd, this]

/-- `readDec` after the sign has been split off -/
def readDecBody (neg : Bool) (t : List Char) : Dec :=
  let ip := t.takeWhile Char.isDigit
  let r1 := t.dropWhile Char.isDigit
  let (fr, r2) := match r1 with
    | '.' :: r => (r.takeWhile Char.isDigit, r.dropWhile Char.isDigit)
    | r => ([], r)
  let ex : Int := match r2 with
    | _ :: '-' :: r => -(natOfDigits r : Int)
    | _ :: '+' :: r => (natOfDigits r : Int)
    | _ :: r => (natOfDigits r : Int)
    | [] => 0
  { neg, digits := natOfDigits (ip ++ fr), exp10 := ex - fr.length }

theorem readDec_neg (t : List Char) : readDec ('-' :: t) = readDecBody true t := rfl

theorem readDec_pos (d : Char) (t : List Char) (h : d ≠ '-') : readDec (d :: t) = readDecBody false (d :: t) := by
  unfold readDec
  split
  · rename_i x neg t' heq
    split at heq
    · rename_i r h2
      simp only [List.cons.injEq] at h2
      exact absurd h2.1 h
    · cases heq; rfl

/-- `readDec` on `[-]D e-K` -/
theorem readDec_exp (sign : Bool) (D K : List Char) (hne : D ≠ []) (hD : ∀ c ∈ D, c.isDigit = true) :
    readDec ((if sign then ['-'] else []) ++ D ++ ['e', '-'] ++ K) =
      { neg := sign, digits := natOfDigits D, exp10 := -(natOfDigits K : Int) } := by
  have htw := takeWhile_digits D ('e' :: '-' :: K) hD (by intro c hc; simp at hc; subst hc; decide)
  have hbody : ∀ s, readDecBody s (D ++ 'e' :: '-' :: K) =
      { neg := s, digits := natOfDigits D, exp10 := -(natOfDigits K : Int) } := by
    intro s
    unfold readDecBody
    simp only [htw.1, htw.2]
    simp
  obtain ⟨d, D', rfl⟩ := List.exists_cons_of_ne_nil hne
  have hd := hD d (by simp)
  have hdm : d ≠ '-' := by intro h; subst h; revert hd; decide
  cases sign
  · have e1 : ((if false = true then ['-'] else []) ++ (d :: D') ++ ['e', '-'] ++ K)
        = d :: (D' ++ 'e' :: '-' :: K) := by simp
    rw [e1, readDec_pos _ _ hdm]
    exact hbody false
  · have e1 : ((if true = true then ['-'] else []) ++ (d :: D') ++ ['e', '-'] ++ K)
        = '-' :: ((d :: D') ++ 'e' :: '-' :: K) := by simp
    rw [e1, readDec_neg]
    exact hbody true

/-- the rational of the decimal `a * 5^k * 10^(-k)` is `a / 2^k` -/
theorem rat_exact (s : Bool) (a k : Nat) :
    0 < (Dec.rat { neg := s, digits := a * 5 ^ k, exp10 := -(k : Int) }).2 ∧
    (Dec.rat { neg := s, digits := a * 5 ^ k, exp10 := -(k : Int) }).1 * 2 ^ k =
      a * (Dec.rat { neg := s, digits := a * 5 ^ k, exp10 := -(k : Int) }).2 := by
  unfold Dec.rat
  rcases Nat.eq_zero_or_pos k with rfl | hk
  · simp
  · have h1 : ¬ (-(k : Int) ≥ 0) := by omega
    simp only [h1, if_false, Int.neg_neg, Int.toNat_natCast]
    refine ⟨Nat.pow_pos (by decide), ?_⟩
    rw [Nat.mul_assoc, ← Nat.mul_pow]

theorem log2_guard (a k : Nat) (ha : 0 < a) : 2 * k ≤ Nat.log2 (a * 5 ^ k) := by
  have h5 : 0 < 5 ^ k := Nat.pow_pos (by decide)
  have hne : a * 5 ^ k ≠ 0 := Nat.ne_of_gt (Nat.mul_pos ha h5)
  rw [Nat.le_log2 hne, Nat.pow_mul]
  calc (2 ^ 2) ^ k ≤ 5 ^ k := Nat.pow_le_pow_left (by decide) k
    _ = 1 * 5 ^ k := (Nat.one_mul _).symm
    _ ≤ a * 5 ^ k := Nat.mul_le_mul_right _ ha

end Zarrs.Float

namespace Zarrs.FillMeta
open Zarrs.Json Zarrs.Float Zarrs.NumTok

/-- digits of the exact decimal expansion of a finite binary64 pattern -/
def exactFmt' (b : Nat) : List Char :=
  let (a, d) := f64.value (f64.mag b)             -- d is a power of two, 2^k: a/2^k = a*5^k / 10^k
  let k := Nat.log2 d
  (if f64.neg b then ['-'] else []) ++ natTok (a * 5 ^ k) ++ ['e', '-'] ++ natTok k

theorem exactFmt'_eq (b : Nat) : exactFmt' b =
    (if f64.neg b then ['-'] else []) ++
      natTok ((f64.value (f64.mag b)).1 * 5 ^ Nat.log2 (f64.value (f64.mag b)).2) ++ ['e', '-'] ++
      natTok (Nat.log2 (f64.value (f64.mag b)).2) := by
  unfold exactFmt'
  rcases f64.value (f64.mag b) with ⟨a, d⟩
  rfl

theorem exactFmt'_read (b : Nat) (hb : b < 2 ^ 64) (hfin : f64.isFinite b = true) :
    readF64 (exactFmt' b) = some b := by
  have hm : f64.mag b < f64.inf := by simpa [Fmt.isFinite] using hfin
  have hsm := f64.sign_add_mag b hb
  obtain ⟨k, hk, hk1074⟩ := f64_value_den (f64.mag b)
  rw [exactFmt'_eq, hk, Nat.log2_two_pow]
  generalize hm' : f64.mag b = m at *
  generalize hav : (f64.value m).1 = a
  have hdig : ∀ n, ∀ c ∈ natTok n, c.isDigit = true := by
    intro n c hc; rw [char_isDigit_eq]; exact toDigits_dig n c hc
  unfold natTok at hdig ⊢
  rw [readF64, readDec_exp _ _ _ Nat.toDigits_ne_nil (hdig _), natOfDigits_eq_json,
    natOfDigits_toDigits, natOfDigits_toDigits]
  have hrat := rat_exact (f64.neg b) a k
  rcases Nat.eq_zero_or_pos a with ha | ha
  · -- zero
    have h0 : f64.round 0 1 = m := f64.round_of_eq (by decide) m 0 1 Nat.one_pos (by rw [hav, ha]; simp)
    rw [Fmt.round_zero] at h0
    subst ha
    simp only [Nat.zero_mul, beq_self_eq_true, if_true]
    subst h0
    exact congrArg some hsm
  · have h5 : 0 < 5 ^ k := Nat.pow_pos (by decide)
    have hne : a * 5 ^ k ≠ 0 := Nat.ne_of_gt (Nat.mul_pos ha h5)
    have hlog := log2_guard a k ha
    have g0 : (a * 5 ^ k == 0) = false := by simpa using hne
    have g1 : ¬ (-(k : Int) > 400) := by omega
    have g2 : ¬ (-(k : Int) + ((Nat.log2 (a * 5 ^ k) / 3 + 1 : Nat) : Int) < -400) := by
      generalize Nat.log2 (a * 5 ^ k) = L at *
      omega
    have hround : f64.round
        (Dec.rat { neg := f64.neg b, digits := a * 5 ^ k, exp10 := -(k : Int) }).1
        (Dec.rat { neg := f64.neg b, digits := a * 5 ^ k, exp10 := -(k : Int) }).2 = m :=
      f64.round_of_eq (by decide) m _ _ hrat.1 (by rw [hk, hav]; exact hrat.2)
    simp only [g0, g1, g2, Bool.false_eq_true, if_false]
    rw [hround]
    have g3 : ¬ (m ≥ f64.inf) := by omega
    simp only [g3, if_false]
    rw [hsm]

set_option linter.unusedVariables false in
theorem exactFmt'_tokOk (b : Nat) (hb : b < 2 ^ 64) (hfin : f64.isFinite b = true) :
    tokOk (exactFmt' b) := by
  rw [exactFmt'_eq]
  exact tokOk_exp _ _ _ (toDigits_ok _) Nat.toDigits_ne_nil (toDigits_dig _)

end Zarrs.FillMeta
