import ZarrsModel.Lemmas.VlenBasic
/- helper lemmas for C03 (variable-length codecs), part 2: the `vlen_v2` (numcodecs) layout -/
set_option Elab.async false
namespace Zarrs.Vlen
open Zarrs Zarrs.Codec

def wfBytes (b : Bytes) : Prop := ∀ x ∈ b, x < 256

instance (b : Bytes) : Decidable (wfBytes b) := by unfold wfBytes; exact inferInstance

/-! ### 32-bit little-endian words -/

theorem le32_length (n : Nat) : (le32 n).length = 4 := rfl

theorem ofLe_le32 (n : Nat) (h : n < 2 ^ 32) : ofLe (le32 n) = n := by
  simp only [ofLe, le32, List.foldr]
  omega

theorem le32_ofLe (bs : Bytes) (hl : bs.length = 4) (hw : wfBytes bs) : le32 (ofLe bs) = bs := by
  match bs, hl with
  | [a, b, c, d], _ =>
    have ha := hw a (by simp)
    have hb := hw b (by simp)
    have hc := hw c (by simp)
    have hd := hw d (by simp)
    simp only [ofLe, le32, List.foldr]
    congr 1
    · omega
    · congr 1
      · omega
      · congr 1
        · omega
        · congr 1; omega

theorem wf_take {b : Bytes} (h : wfBytes b) (k : Nat) : wfBytes (b.take k) :=
  fun x hx => h x (List.mem_of_mem_take hx)
theorem wf_drop {b : Bytes} (h : wfBytes b) (k : Nat) : wfBytes (b.drop k) :=
  fun x hx => h x (List.mem_of_mem_drop hx)

/-! ### the interleaved body -/

theorem body_cons (x : Bytes) (xs : List Bytes) : vlenV2Body (x :: xs) = le32 x.length ++ (x ++ vlenV2Body xs) := by
  simp [vlenV2Body, List.flatMap_cons]

theorem body_length (xs : List Bytes) : (vlenV2Body xs).length = (xs.map (fun x => 4 + x.length)).sum := by
  induction xs with
  | nil => rfl
  | cons x xs ih =>
    rw [body_cons]
    simp only [List.length_append, le32_length, ih, List.map_cons, List.sum_cons]
    omega

theorem four_mul_le_body (xs : List Bytes) : 4 * xs.length ≤ (vlenV2Body xs).length := by
  induction xs with
  | nil => simp
  | cons x xs ih =>
    rw [body_cons]
    simp only [List.length_append, le32_length, List.length_cons]
    omega

/-- one step of the loop on `le32 len ++ (x ++ rest)` -/
theorem loop_step (k : Nat) (x rest : Bytes) (hx : x.length < 2 ^ 32) :
    vlenV2DecLoop (k + 1) (le32 x.length ++ (x ++ rest)) =
      (match vlenV2DecLoop k rest with
       | .ok xs => .ok (x :: xs)
       | .error e => .error e) := by
  rw [vlenV2DecLoop]
  have h1 : ¬ ((le32 x.length ++ (x ++ rest)).length < 4) := by simp [le32_length]
  have h2 : (le32 x.length ++ (x ++ rest)).take 4 = le32 x.length := List.take_left' (le32_length _)
  have h3 : (le32 x.length ++ (x ++ rest)).drop 4 = x ++ rest := List.drop_left' (le32_length _)
  simp only [h1, if_false, h2, h3, ofLe_le32 _ hx]
  have h4 : ¬ ((x ++ rest).length < x.length) := by simp
  simp only [h4, if_false, List.take_left, List.drop_left]
  cases vlenV2DecLoop k rest <;> rfl

/-- the loop reads back what the encoder interleaved, whatever follows -/
theorem loop_body (xs : List Bytes) (t : Bytes) (h : ∀ x ∈ xs, x.length < 2 ^ 32) :
    vlenV2DecLoop xs.length (vlenV2Body xs ++ t) = .ok xs := by
  induction xs with
  | nil => rfl
  | cons x xs ih =>
    rw [body_cons, List.length_cons, List.append_assoc, List.append_assoc,
      loop_step _ _ _ (h x (by simp)), ih (fun y hy => h y (by simp [hy]))]

/-- every strict prefix of an interleaved body is rejected -/
theorem loop_truncated (xs : List Bytes) (h : ∀ x ∈ xs, x.length < 2 ^ 32) (k : Nat)
    (hk : k < (vlenV2Body xs).length) :
    vlenV2DecLoop xs.length ((vlenV2Body xs).take k) = .error .lengthPastEnd := by
  induction xs generalizing k with
  | nil => simp [vlenV2Body] at hk
  | cons x xs ih =>
    have hx := h x (by simp)
    rw [body_cons] at hk ⊢
    simp only [List.length_append, le32_length] at hk
    rw [List.length_cons]
    by_cases h4 : k < 4
    · -- cut inside the length field
      rw [vlenV2DecLoop]
      have : ((le32 x.length ++ (x ++ vlenV2Body xs)).take k).length < 4 := by
        rw [List.length_take]; omega
      simp only [this, if_true]
    · by_cases h5 : k < 4 + x.length
      · -- cut inside the element
        rw [vlenV2DecLoop]
        have hlen : ((le32 x.length ++ (x ++ vlenV2Body xs)).take k).length = k := by
          rw [List.length_take]; simp only [List.length_append, le32_length]; omega
        have h1 : ¬ (((le32 x.length ++ (x ++ vlenV2Body xs)).take k).length < 4) := by rw [hlen]; omega
        have h2 : ((le32 x.length ++ (x ++ vlenV2Body xs)).take k).take 4 = le32 x.length := by
          rw [List.take_take, Nat.min_eq_left (by omega)]; exact List.take_left' (le32_length _)
        have h3 : (((le32 x.length ++ (x ++ vlenV2Body xs)).take k).drop 4).length < x.length := by
          rw [List.length_drop, hlen]; omega
        simp only [h1, if_false, h2, ofLe_le32 _ hx, h3, if_true]
      · -- cut after the element: the element is read, the rest is a strict prefix of the remaining body
        have hk' : k = 4 + (x.length + (k - 4 - x.length)) := by omega
        have htake : (le32 x.length ++ (x ++ vlenV2Body xs)).take k =
            le32 x.length ++ (x ++ (vlenV2Body xs).take (k - 4 - x.length)) := by
          rw [hk', List.take_append, le32_length]
          have : (le32 x.length).take (4 + (x.length + (k - 4 - x.length))) = le32 x.length :=
            List.take_of_length_le (by rw [le32_length]; omega)
          rw [this, Nat.add_sub_cancel_left, List.take_append]
          have : x.take (x.length + (k - 4 - x.length)) = x := List.take_of_length_le (by omega)
          rw [this, Nat.add_sub_cancel_left]
        rw [htake, loop_step _ _ _ hx, ih (fun y hy => h y (by simp [hy])) _ (by omega)]

/-- the loop returns exactly `k` elements -/
theorem loop_length : ∀ (k : Nat) (rest : Bytes) (xs : List Bytes), vlenV2DecLoop k rest = .ok xs → xs.length = k
  | 0, _, xs, h => by
    simp only [vlenV2DecLoop, Except.ok.injEq] at h; subst h; rfl
  | k + 1, rest, xs, h => by
    rw [vlenV2DecLoop] at h
    by_cases h1 : rest.length < 4
    · simp only [h1, if_true] at h; cases h
    · simp only [h1, if_false] at h
      by_cases h2 : (rest.drop 4).length < ofLe (rest.take 4)
      · simp only [h2, if_true] at h; cases h
      · simp only [h2, if_false] at h
        cases hr : vlenV2DecLoop k ((rest.drop 4).drop (ofLe (rest.take 4))) with
        | error e => rw [hr] at h; cases h
        | ok ys =>
          rw [hr] at h
          simp only [Except.ok.injEq] at h
          subst h
          simp [loop_length k _ ys hr]

/-- whatever the loop accepts starts with the interleaved encoding of what it returns -/
theorem loop_canonical : ∀ (k : Nat) (rest : Bytes) (xs : List Bytes), wfBytes rest →
    vlenV2DecLoop k rest = .ok xs → ∃ t, rest = vlenV2Body xs ++ t
  | 0, rest, xs, _, h => by
    simp only [vlenV2DecLoop, Except.ok.injEq] at h; subst h; exact ⟨rest, rfl⟩
  | k + 1, rest, xs, hw, h => by
    rw [vlenV2DecLoop] at h
    by_cases h1 : rest.length < 4
    · simp only [h1, if_true] at h; cases h
    · simp only [h1, if_false] at h
      by_cases h2 : (rest.drop 4).length < ofLe (rest.take 4)
      · simp only [h2, if_true] at h; cases h
      · simp only [h2, if_false] at h
        cases hr : vlenV2DecLoop k ((rest.drop 4).drop (ofLe (rest.take 4))) with
        | error e => rw [hr] at h; cases h
        | ok ys =>
          rw [hr] at h
          simp only [Except.ok.injEq] at h
          subst h
          obtain ⟨t, ht⟩ := loop_canonical k _ ys (wf_drop (wf_drop hw 4) _) hr
          refine ⟨t, ?_⟩
          rw [body_cons]
          have hl4 : (rest.take 4).length = 4 := by rw [List.length_take]; omega
          have hlx : ((rest.drop 4).take (ofLe (rest.take 4))).length = ofLe (rest.take 4) := by
            rw [List.length_take]; omega
          rw [hlx, le32_ofLe _ hl4 (wf_take hw 4)]
          simp only [List.append_assoc]
          rw [← ht, List.take_append_drop, List.take_append_drop]

theorem encRaw_length (xs : List Bytes) : (vlenV2EncRaw xs).length = 4 + (xs.map (fun x => 4 + x.length)).sum := by
  simp [vlenV2EncRaw, le32_length, body_length]

/-- decoding an encoding followed by anything returns the canonical value of the elements -/
theorem vlenV2Dec_encRaw (xs : List Bytes) (t : Bytes) (h : v2Guard xs) :
    vlenV2Dec xs.length (vlenV2EncRaw xs ++ t) = .ok (VArr.ofElems xs) := by
  unfold vlenV2Dec vlenV2EncRaw
  have h1 : ¬ ((le32 xs.length ++ vlenV2Body xs ++ t).length < 4 * (1 + xs.length)) := by
    have := four_mul_le_body xs
    simp only [List.length_append, le32_length]; omega
  have h2 : (le32 xs.length ++ vlenV2Body xs ++ t).take 4 = le32 xs.length := by
    rw [List.append_assoc]; exact List.take_left' (le32_length _)
  have h3 : (le32 xs.length ++ vlenV2Body xs ++ t).drop 4 = vlenV2Body xs ++ t := by
    rw [List.append_assoc]; exact List.drop_left' (le32_length _)
  simp only [h1, if_false, h2, h3, ofLe_le32 _ h.1, ne_eq, not_true_eq_false, loop_body xs t h.2]

/-- every strict prefix of an encoding is rejected -/
theorem vlenV2Dec_truncated (xs : List Bytes) (h : v2Guard xs) (k : Nat) (hk : k < (vlenV2EncRaw xs).length) :
    vlenV2Dec xs.length ((vlenV2EncRaw xs).take k) = .error .tooShort ∨
    vlenV2Dec xs.length ((vlenV2EncRaw xs).take k) = .error .lengthPastEnd := by
  have hlen : ((vlenV2EncRaw xs).take k).length = k := by rw [List.length_take]; omega
  unfold vlenV2Dec
  rw [hlen]
  by_cases h1 : k < 4 * (1 + xs.length)
  · left; simp only [h1, if_true]
  · right
    simp only [h1, if_false]
    have hk4 : 4 ≤ k := by omega
    have h2 : ((vlenV2EncRaw xs).take k).take 4 = le32 xs.length := by
      rw [List.take_take, Nat.min_eq_left hk4]; exact List.take_left' (le32_length _)
    have h3 : ((vlenV2EncRaw xs).take k).drop 4 = (vlenV2Body xs).take (k - 4) := by
      unfold vlenV2EncRaw
      rw [List.take_append, le32_length, List.take_of_length_le (by rw [le32_length]; exact hk4)]
      exact List.drop_left' (le32_length _)
    have hk' : k - 4 < (vlenV2Body xs).length := by
      simp only [vlenV2EncRaw, List.length_append, le32_length] at hk; omega
    simp only [h2, h3, ofLe_le32 _ h.1, ne_eq, not_true_eq_false, if_false, loop_truncated xs h.2 _ hk']

/-- an accepted value is the encoding of what it decodes to, followed by ignored bytes -/
theorem vlenV2Dec_canonical (n : Nat) (b : Bytes) (v : VArr) (hw : wfBytes b) (h : vlenV2Dec n b = .ok v) :
    ∃ xs t, v = VArr.ofElems xs ∧ xs.length = n ∧ b = vlenV2EncRaw xs ++ t := by
  unfold vlenV2Dec at h
  by_cases h1 : b.length < 4 * (1 + n)
  · simp only [h1, if_true] at h; cases h
  · simp only [h1, if_false] at h
    by_cases h2 : ofLe (b.take 4) = n
    · simp only [h2, ne_eq, not_true_eq_false, if_false] at h
      cases hr : vlenV2DecLoop n (b.drop 4) with
      | error e => rw [hr] at h; cases h
      | ok xs =>
        rw [hr] at h
        simp only [Except.ok.injEq] at h
        obtain ⟨t, ht⟩ := loop_canonical n _ xs (wf_drop hw 4) hr
        have hn := loop_length n _ xs hr
        refine ⟨xs, t, h.symm, hn, ?_⟩
        have hl4 : (b.take 4).length = 4 := by rw [List.length_take]; omega
        unfold vlenV2EncRaw
        rw [hn, ← h2, le32_ofLe _ hl4 (wf_take hw 4), List.append_assoc, ← ht, List.take_append_drop]
    · simp only [ne_eq, h2, not_false_eq_true, if_true] at h; cases h

/-- whatever `vlen_v2` decoding returns passes `ArrayBytes::validate` (so `CodecChain::decode` never rejects it) -/
theorem vlenV2Dec_valid (n : Nat) (b : Bytes) (v : VArr) (h : vlenV2Dec n b = .ok v) :
    v.valid n = true ∧ v.offsets.head? = some 0 := by
  unfold vlenV2Dec at h
  by_cases h1 : b.length < 4 * (1 + n)
  · simp only [h1, if_true] at h; cases h
  · simp only [h1, if_false] at h
    by_cases h2 : ofLe (b.take 4) = n
    · simp only [h2, ne_eq, not_true_eq_false, if_false] at h
      cases hr : vlenV2DecLoop n (b.drop 4) with
      | error e => rw [hr] at h; cases h
      | ok xs =>
        rw [hr] at h
        simp only [Except.ok.injEq] at h
        subst h
        have hn := loop_length n _ xs hr
        subst hn
        exact ⟨ofElems_valid xs, offsetsFrom_head 0 xs⟩
    · simp only [ne_eq, h2, not_false_eq_true, if_true] at h; cases h

end Zarrs.Vlen
