import ZarrsModel.Lemmas.ShardPDGrid
import ZarrsModel.Lemmas.Partial
set_option Elab.async false
/- helper lemmas for C02 (sharding partial decoder), part 2: one inner chunk, one region, the index -/
namespace Zarrs.Partial
open Zarrs Zarrs.Codec Zarrs.Subset

/-! ### list facts -/

theorem flatten_length_const {α} (n : Nat) : ∀ (L : List (List α)), (∀ g ∈ L, g.length = n) →
    L.flatten.length = L.length * n := by
  intro L
  induction L with
  | nil => intro _; simp
  | cons g gs ih =>
    intro h
    simp only [List.flatten_cons, List.length_append, List.length_cons, Nat.add_mul, Nat.one_mul]
    rw [h g (by simp), ih (fun g' hg' => h g' (by simp [hg']))]
    omega

/-- a fold that assembles an output buffer piece by piece (generalises `ArrCfg.foldOpt_read` to any item type) -/
theorem foldOpt_readG {α β} (a : AArr α) (R : Subset) (f : List α → β → Option (List α)) (P : β → Idx → Bool)
    (L : List β)
    (hstep : ∀ c ∈ L, ∀ out : List α, out.length = R.numElements →
      ∃ out', f out c = some out' ∧ out'.length = R.numElements ∧
        ∀ j, inB j R.shape = true → out'[ravel j R.shape]? =
          if P c (addIdx j R.start) = true then some (a (addIdx j R.start)) else out[ravel j R.shape]?) :
    ∀ out : List α, out.length = R.numElements →
      ∃ out', ArrCfg.foldOpt f out L = some out' ∧ out'.length = R.numElements ∧
        ∀ j, inB j R.shape = true → out'[ravel j R.shape]? =
          if L.any (fun c => P c (addIdx j R.start)) = true then some (a (addIdx j R.start))
          else out[ravel j R.shape]? := by
  induction L with
  | nil =>
    intro out hout
    exact ⟨out, rfl, hout, fun j _ => by simp⟩
  | cons c L ih =>
    intro out hout
    obtain ⟨out1, h1, hl1, hp1⟩ := hstep c (by simp) out hout
    obtain ⟨out2, h2, hl2, hp2⟩ := ih (fun c' hc' => hstep c' (by simp [hc'])) out1 hl1
    refine ⟨out2, by simp only [ArrCfg.foldOpt, h1, h2], hl2, ?_⟩
    intro j hj
    rw [hp2 j hj, hp1 j hj, List.any_cons]
    by_cases hP : P c (addIdx j R.start) = true <;>
      by_cases hL : (L.any fun c => P c (addIdx j R.start)) = true <;> simp [hP, hL]

/-- a fold with a failing item fails -/
theorem foldOpt_none_of_mem {σ β} (f : σ → β → Option σ) (L : List β) (c : β) (hc : c ∈ L)
    (hf : ∀ s, f s c = none) : ∀ s, ArrCfg.foldOpt f s L = none := by
  induction L with
  | nil => simp at hc
  | cons b bs ih =>
    intro s
    simp only [ArrCfg.foldOpt]
    rcases List.mem_cons.mp hc with rfl | hc'
    · rw [hf s]
    · cases f s b with
      | none => rfl
      | some s' => exact ih hc' s'

theorem mapM_none_of_mem {α β} (g : α → Option β) : ∀ (l : List α) (a : α), a ∈ l → g a = none → l.mapM g = none := by
  intro l
  induction l with
  | nil => intro a ha; simp at ha
  | cons x xs ih =>
    intro a ha hg
    rw [List.mapM_cons]
    rcases List.mem_cons.mp ha with rfl | ha'
    · rw [hg]; rfl
    · cases g x with
      | none => rfl
      | some y => rw [ih a ha' hg]; rfl

/-! ### the items of the chunk iterator -/

theorem mem_chunks (r : Subset) (inner : Shape) (p : Idx × Subset) :
    p ∈ r.chunks inner ↔ p.1 ∈ (r.chunkBox inner).indices ∧ p.2 = ⟨zipMul p.1 inner, inner⟩ := by
  simp only [Subset.chunks, Iter.new_items, List.mem_map]
  constructor
  · rintro ⟨c, hc, rfl⟩; exact ⟨hc, rfl⟩
  · rintro ⟨hc, h2⟩
    exact ⟨p.1, hc, by rw [← h2]⟩

/-! ### the decoded shard as an abstract array -/

/-- the element of the shard at an index of the box of inner chunk `c` -/
theorem shardElem_of_mem {inner shard : Shape} (ht : tiles inner shard = true) (xss : List (List Elem))
    (i c : Idx) (hi : inB i shard = true) (hc : c.length = inner.length)
    (hm : mem i (zipMul c inner) inner = true) (xs : List Elem)
    (hx : xss[ravel c (zipDiv shard inner)]? = some xs) (hxl : xs.length = prod inner) :
    inB c (zipDiv shard inner) = true ∧
    xs[ravel (zipSub i (zipMul c inner)) inner]? = some (shardElem inner (zipDiv shard inner) xss i) := by
  have hcu := cell_unique inner (tiles_pos ht) i c hm hc
  obtain ⟨h1, _, h3, h4⟩ := cell_of_inB ht i hi
  subst hcu
  refine ⟨h1, ?_⟩
  have hlt : ravel (zipMod i inner) inner < xs.length := by rw [hxl]; exact ravel_lt _ _ h4
  simp only [shardElem, h3, List.getD_eq_getElem?_getD, hx, Option.getD_some]
  rw [List.getElem?_eq_getElem hlt]
  simp

/-! ### what the handles of one shard provide: every inner chunk is either missing and all fill, or stored and its
byte interval serves the chunk through the inner partial decoder -/

structure Served (fixed : Option Nat) (shard inner : Shape) (es : Nat) (fill : Elem)
    (innerPD : Shape → Elem → BHandle → AHandle) (h : BHandle) (entries : List (Nat × Nat)) (xss : List (List Elem)) : Prop where
  tiles : tiles inner shard = true
  elen : entries.length = prod (zipDiv shard inner)
  xlen : xss.length = prod (zipDiv shard inner)
  fillLen : fill.length = es
  cell : ∀ (k : Nat) e xs, entries[k]? = some e → xss[k]? = some xs →
    (Shard.isLive e = false ∧ xs = List.replicate (prod inner) fill) ∨
    (Shard.isLive e = true ∧ sizeOk fixed e.2 = true ∧ xs.length = prod inner ∧ (∀ x ∈ xs, x.length = es) ∧
      AHandleOk (innerPD inner fill (byteIntervalPD e.1 e.2 h)) inner xs)

variable {fixed : Option Nat} {shard inner : Shape} {es : Nat} {fill : Elem} {innerPD : Shape → Elem → BHandle → AHandle}
  {h : BHandle} {entries : List (Nat × Nat)} {xss : List (List Elem)}

/-- geometry of one item of the chunk iterator of an in-bounds region -/
theorem chunk_item_facts (ht : tiles inner shard = true) (r : Subset) (hr : r.wf = true)
    (hb : r.inboundsShape shard = true) (p : Idx × Subset) (hp : p ∈ r.chunks inner) :
    p.2 = ⟨zipMul p.1 inner, inner⟩ ∧ p.1.length = inner.length ∧ p.2.wf = true ∧ p.2.rank = r.rank ∧
    inB p.1 (zipDiv shard inner) = true ∧
    (r.overlap p.2).wf = true ∧ (r.overlap p.2).rank = r.rank ∧ (r.overlap p.2).isEmpty = false ∧
    (∀ i, (r.overlap p.2).contains i = (r.contains i && p.2.contains i)) ∧
    (∀ i, r.contains i = true → inB i shard = true) := by
  have hb' := hb
  simp only [Subset.inboundsShape, Subset.rank, Bool.and_eq_true, beq_iff_eq] at hb'
  have hr' := hr
  simp only [Subset.wf, beq_iff_eq] at hr'
  have hil : inner.length = shard.length := tiles_length ht
  have hcl : inner.length = r.rank := by simp only [Subset.rank]; omega
  obtain ⟨hp1, hp2⟩ := (mem_chunks r inner p).mp hp
  have hbwf := r.chunkBox_wf inner hr hcl
  rw [(r.chunkBox inner).mem_indices hbwf] at hp1
  obtain ⟨hlen, i0, hi0r, hi0c⟩ := (r.contains_chunkBox inner hr hcl (tiles_pos ht) p.1).mp hp1
  have hinb : ∀ i, r.contains i = true → inB i shard = true :=
    fun i hi => inB_of_allLe_end i _ _ shard hb'.1 hb'.2 hi
  have hpl : p.1.length = inner.length := by rw [hlen, hcl]
  have hcwf : p.2.wf = true := by
    rw [hp2]; simp only [Subset.wf, zipMul_length, beq_iff_eq]; omega
  have hcrank : p.2.rank = r.rank := by
    rw [hp2]; simp only [Subset.rank, zipMul_length] at hcl hlen ⊢; omega
  have hcu := cell_unique inner (tiles_pos ht) i0 p.1 hi0c hpl
  have hcin : inB p.1 (zipDiv shard inner) = true := by
    rw [hcu]; exact (cell_of_inB ht i0 (hinb i0 hi0r)).1
  have hov : ∀ i, (r.overlap p.2).contains i = (r.contains i && p.2.contains i) :=
    C09.overlap_mem r p.2 hr hcwf hcrank.symm
  have hovwf : (r.overlap p.2).wf = true := by
    simp only [Subset.wf, Subset.rank, beq_iff_eq] at hcwf hcrank ⊢
    simp only [Subset.overlap, Subset.endExc, zipSub_length, zipMin_length, zipMax_length, addIdx_length]
    omega
  have hovrank : (r.overlap p.2).rank = r.rank := by
    simp only [Subset.rank] at hcrank ⊢
    simp only [Subset.overlap, zipMax_length]; omega
  have hovne : (r.overlap p.2).isEmpty = false :=
    (r.overlap p.2).nonempty_of_contains i0 (by rw [hov, hi0r, hp2]; exact hi0c)
  exact ⟨hp2, hpl, hcwf, hcrank, hcin, hovwf, hovrank, hovne, hov, hinb⟩

/-- the decoded piece of one inner chunk is the overlap read from the assembled shard -/
theorem shardPart_ok (S : Served fixed shard inner es fill innerPD h entries xss) (r : Subset) (hr : r.wf = true)
    (hb : r.inboundsShape shard = true) (p : Idx × Subset) (hp : p ∈ r.chunks inner) :
    ∃ e, entries[ravel p.1 (zipDiv shard inner)]? = some e ∧
      shardPart fixed fill inner innerPD h e (r.overlap p.2) p.2 =
        some (AArr.read (shardElem inner (zipDiv shard inner) xss) (r.overlap p.2)) ∧
      (AArr.read (shardElem inner (zipDiv shard inner) xss) (r.overlap p.2)).flatten.length =
        (r.overlap p.2).numElements * es := by
  obtain ⟨hp2, hpl, hcwf, hcrank, hcin, hovwf, hovrank, hovne, hov, hinb⟩ :=
    chunk_item_facts S.tiles r hr hb p hp
  have hklt := ravel_lt p.1 _ hcin
  have hke : ravel p.1 (zipDiv shard inner) < entries.length := by rw [S.elen]; exact hklt
  have hkx : ravel p.1 (zipDiv shard inner) < xss.length := by rw [S.xlen]; exact hklt
  have hent := List.getElem?_eq_getElem hke
  have hxs := List.getElem?_eq_getElem hkx
  refine ⟨_, hent, ?_⟩
  generalize entries[ravel p.1 (zipDiv shard inner)] = e at hent
  generalize xss[ravel p.1 (zipDiv shard inner)] = xs at hxs
  have hsub1 : ∀ i, (r.overlap p.2).contains i = true → p.2.contains i = true := by
    intro i hi; rw [hov, Bool.and_eq_true] at hi; exact hi.2
  have hsub2 : ∀ i, (r.overlap p.2).contains i = true → r.contains i = true := by
    intro i hi; rw [hov, Bool.and_eq_true] at hi; exact hi.1
  -- every index of the overlap reads from `xs`
  have helem : xs.length = prod inner → ∀ i, (r.overlap p.2).contains i = true →
      xs[ravel (zipSub i p.2.start) p.2.shape]? = some (shardElem inner (zipDiv shard inner) xss i) := by
    intro hxl i hi
    have hm : mem i (zipMul p.1 inner) inner = true := by
      have := hsub1 i hi
      rw [hp2] at this; exact this
    have := (shardElem_of_mem S.tiles xss i p.1 (hinb i (hsub2 i hi)) hpl hm xs hxs hxl).2
    rw [hp2]; exact this
  rcases S.cell _ e xs hent hxs with ⟨hdead, hfill⟩ | ⟨hlive, hsz, hxl, hxe, hA⟩
  · -- missing inner chunk
    have hsent : (e.1 == Shard.sentinel && e.2 == Shard.sentinel) = true := by
      have := hdead; simp only [Shard.isLive, Bool.not_eq_false'] at this; exact this
    have hxl : xs.length = prod inner := by rw [hfill]; simp
    have hread : AArr.read (shardElem inner (zipDiv shard inner) xss) (r.overlap p.2) =
        List.replicate (r.overlap p.2).numElements fill := by
      rw [List.eq_replicate_iff]
      refine ⟨AArr.read_length _ _, ?_⟩
      intro b hbm
      simp only [AArr.read, List.mem_map] at hbm
      obtain ⟨i, hi, rfl⟩ := hbm
      rw [(r.overlap p.2).mem_indices hovwf] at hi
      have := helem hxl i hi
      rw [hfill] at this
      have hmem := List.mem_of_getElem? this
      exact (List.mem_replicate.mp hmem).2
    refine ⟨?_, ?_⟩
    · simp only [shardPart, hsent, if_true, hread]
    · rw [hread, flatten_length_const es _ (by
        intro g hg; rw [(List.mem_replicate.mp hg).2]; exact S.fillLen)]
      simp
  · -- stored inner chunk
    have hnot : (e.1 == Shard.sentinel && e.2 == Shard.sentinel) = false := by
      have := hlive; simp only [Shard.isLive, Bool.not_eq_true'] at this; exact this
    obtain ⟨hw, hin, _, _⟩ := Subset.rel_facts (r.overlap p.2) p.2 hovwf hcwf (by rw [hovrank, hcrank]) hovne hsub1
    have hcsh : p.2.shape = inner := by rw [hp2]
    rw [hcsh] at hin
    have hans := hA [(r.overlap p.2).relativeTo p.2.start] (by
      intro q hq
      simp only [List.mem_singleton] at hq
      subst hq; exact ⟨hw, hin⟩)
    have hxlen : xs.length = p.2.numElements := by rw [hxl, hp2]; rfl
    obtain ⟨hpl1, hpp⟩ := piece_spec (r.overlap p.2) p.2 hovwf hcwf (by rw [hovrank, hcrank]) hovne hsub1 xs hxlen
    rw [hcsh] at hpl1 hpp
    have hread : ((r.overlap p.2).relativeTo p.2.start).extract inner xs =
        AArr.read (shardElem inner (zipDiv shard inner) xss) (r.overlap p.2) := by
      apply list_ext_box (r.overlap p.2).shape _ _ hpl1 (AArr.read_length _ _)
      intro j hj
      have hovwf' := hovwf
      simp only [Subset.wf, beq_iff_eq] at hovwf'
      have hi : (r.overlap p.2).contains (addIdx j (r.overlap p.2).start) = true :=
        mem_addIdx j _ _ hovwf' hj
      have hz : zipSub (addIdx j (r.overlap p.2).start) (r.overlap p.2).start = j :=
        zipSub_addIdx_cancel j _ (by rw [inB_length hj, hovwf']; exact Nat.le_refl _)
      have h1 := hpp _ hi
      rw [hz] at h1
      rw [h1, AArr.read_getElem?_box _ _ j hj]
      have := helem hxl _ hi
      rw [hcsh] at this
      exact this
    refine ⟨?_, ?_⟩
    · simp only [shardPart, hnot, hsz, hans, List.map_cons, List.map_nil, hread]
      rfl
    · rw [← hread, flatten_length_const es _ (by
        intro g hg; exact hxe g (mem_extract _ _ _ g hg)), hpl1]

/-- one step of the region loop -/
theorem shardStep_ok (S : Served fixed shard inner es fill innerPD h entries xss) (r : Subset) (hr : r.wf = true)
    (hb : r.inboundsShape shard = true) (p : Idx × Subset) (hp : p ∈ r.chunks inner)
    (out : List Elem) (hout : out.length = r.numElements) :
    ∃ out', shardStep fixed es fill inner (zipDiv shard inner) entries innerPD h r out p = some out' ∧
      out'.length = r.numElements ∧
      ∀ j, inB j r.shape = true → out'[ravel j r.shape]? =
        if (r.contains (addIdx j r.start) && p.2.contains (addIdx j r.start)) = true
        then some (shardElem inner (zipDiv shard inner) xss (addIdx j r.start)) else out[ravel j r.shape]? := by
  obtain ⟨_, _, _, _, _, hovwf, hovrank, hovne, hov, _⟩ := chunk_item_facts S.tiles r hr hb p hp
  obtain ⟨e, hent, hpart, hflat⟩ := shardPart_ok S r hr hb p hp
  have hsub2 : ∀ i, (r.overlap p.2).contains i = true → r.contains i = true := by
    intro i hi; rw [hov, Bool.and_eq_true] at hi; exact hi.1
  obtain ⟨hl, hpp⟩ := updateRuns_read_step (shardElem inner (zipDiv shard inner) xss) r (r.overlap p.2)
    hr hovwf hovrank hovne hsub2 out hout
  refine ⟨_, ?_, hl, ?_⟩
  · simp only [shardStep, hent, hpart, hflat, bne_self_eq_false, Bool.false_eq_true, if_false]
  · intro j hj
    rw [hpp j hj, hov]

/-- one region: the loop over the inner chunks yields the region of the assembled shard -/
theorem shardRegion_ok (S : Served fixed shard inner es fill innerPD h entries xss) (r : Subset) (hr : r.wf = true)
    (hb : r.inboundsShape shard = true) :
    shardRegion fixed es fill inner (zipDiv shard inner) entries innerPD h r =
      some (r.extract shard (assemble shard inner xss)) := by
  have ht := S.tiles
  have hb' := hb
  simp only [Subset.inboundsShape, Subset.rank, Bool.and_eq_true, beq_iff_eq] at hb'
  have hr' := hr
  simp only [Subset.wf, beq_iff_eq] at hr'
  have hcl : inner.length = r.rank := by
    have := tiles_length ht; simp only [Subset.rank]; omega
  obtain ⟨out, hfold, hl, hp⟩ := foldOpt_readG (shardElem inner (zipDiv shard inner) xss) r
    (shardStep fixed es fill inner (zipDiv shard inner) entries innerPD h r)
    (fun p i => r.contains i && p.2.contains i) (r.chunks inner)
    (fun p hp out hout => shardStep_ok S r hr hb p hp out hout)
    (List.replicate r.numElements (List.replicate es 0)) (by simp)
  rw [assemble, extract_tabulate _ r shard hr hb]
  unfold shardRegion
  rw [hfold]
  congr 1
  apply ArrCfg.read_of_all _ r out hl
  intro j hj
  rw [hp j hj, if_pos]
  have hri : r.contains (addIdx j r.start) = true := mem_addIdx j r.start r.shape hr' hj
  have hin : inB (addIdx j r.start) shard = true := inB_of_allLe_end _ _ _ shard hb'.1 hb'.2 hri
  obtain ⟨_, hm, _, _⟩ := cell_of_inB ht _ hin
  rw [List.any_eq_true]
  refine ⟨(zipDiv (addIdx j r.start) inner, ⟨zipMul (zipDiv (addIdx j r.start) inner) inner, inner⟩), ?_, ?_⟩
  · rw [mem_chunks]
    refine ⟨?_, rfl⟩
    rw [(r.chunkBox inner).mem_indices (r.chunkBox_wf inner hr hcl)]
    apply (r.contains_chunkBox inner hr hcl (tiles_pos ht) _).mpr
    refine ⟨?_, addIdx j r.start, hri, hm⟩
    have := inB_length hin
    simp only [zipDiv_length, Subset.rank] at hcl ⊢
    omega
  · simp only [hri, Bool.true_and]
    exact hm

/-! ### the index -/

theorem decodeIndex_validate (c : Shard.Cfg) (validate : Bool) (ib : Bytes) (entries : List (Nat × Nat))
    (h : Shard.decodeIndex c true ib = .ok entries) : Shard.decodeIndex c validate ib = .ok entries := by
  cases validate with
  | true => exact h
  | false =>
    simp only [Shard.decodeIndex, crc32cDec, checksumDec, Bool.false_and, Bool.true_and] at h ⊢
    by_cases hlen : (ib.length != Shard.indexSize c) = true
    · simp [hlen] at h
    · simp only [hlen] at h ⊢
      by_cases hcrc : c.indexCrc = true
      · simp only [hcrc, if_true] at h ⊢
        by_cases hshort : ib.length < 4
        · simp [hshort] at h
        · simp only [hshort, if_false] at h ⊢
          by_cases hB : (le32 (crc32c (List.take (ib.length - 4) ib)) != List.drop (ib.length - 4) ib) = true
          · simp [hB] at h
          · simp only [hB] at h
            simpa using h
      · simp only [hcrc] at h ⊢
        exact h

/-- a serving handle answers the index range with the index bytes -/
theorem indexRange_read (cfg : Shard.Cfg) (h : BHandle) (v ib : Bytes) (hh : BHandleOk h v)
    (hib : Shard.indexBytes cfg v = some ib) : h [indexRange cfg] = some (some [ib]) := by
  unfold Shard.indexBytes at hib
  split at hib
  · cases hib
  · rename_i hlen
    have hlen : Shard.indexSize cfg ≤ v.length := by omega
    have hv : ∀ r ∈ [indexRange cfg], r.valid v.length = true := by
      intro r hr
      simp only [List.mem_singleton] at hr
      subst hr
      unfold indexRange
      split <;> simp [ByteRange.valid, hlen]
    rw [hh _ hv]
    congr 2
    simp only [List.map_cons, List.map_nil, List.cons.injEq, and_true]
    unfold indexRange
    split at hib
    · rename_i hend
      rw [if_pos hend]
      simp only [Option.some.injEq] at hib
      rw [← hib]
      simp only [ByteRange.extract, ByteRange.start, ByteRange.stop]
      exact slice_to_end v _
    · rename_i hend
      rw [if_neg hend]
      simp only [Option.some.injEq] at hib
      rw [← hib]
      simp [ByteRange.extract, ByteRange.start, ByteRange.stop, slice]

theorem cfg_eta (cfg : Shard.Cfg) (n : Nat) (hn : cfg.nChunks = n) : { cfg with nChunks := n } = cfg := by
  cases cfg; simp only at hn; subst hn; rfl

/-- the constructor decodes the index of a legal shard -/
theorem shardIndexPD_legal (cfg : Shard.Cfg) (validate : Bool) (ht : tiles inner shard = true)
    (hn : cfg.nChunks = prod (zipDiv shard inner)) (v ib : Bytes) (hh : BHandleOk h v)
    (hib : Shard.indexBytes cfg v = some ib) (hdec : Shard.decodeIndex cfg true ib = .ok entries) :
    shardIndexPD cfg validate shard inner h = some (some entries) := by
  simp only [shardIndexPD, chunksPerShard_of_tiles ht, cfg_eta cfg _ hn, indexRange_read cfg h v ib hh hib,
    decodeIndex_validate cfg validate ib entries hdec]

theorem shardIndexPD_absent (cfg : Shard.Cfg) (validate : Bool) (ht : tiles inner shard = true)
    (hh : BHandleAbsent h) : shardIndexPD cfg validate shard inner h = some none := by
  simp only [shardIndexPD, chunksPerShard_of_tiles ht, hh _]

/-- the rank test of `partial_decode` passes for in-bounds regions -/
theorem rank_check (sh : Shape) (rs : List Subset) (hrs : ∀ r ∈ rs, r.wf = true ∧ r.inboundsShape sh = true) :
    rs.any (fun r => !r.wf || r.rank != sh.length) = false := by
  rw [List.any_eq_false]
  intro r hr
  obtain ⟨h1, h2⟩ := hrs r hr
  simp only [Subset.inboundsShape, Bool.and_eq_true, beq_iff_eq] at h2
  simp [h1, h2.1]

end Zarrs.Partial
