import ZarrsModel.Model.Lossy
/- helper lemmas for the lossy-codec theorems of C03 -/
set_option Elab.async false
namespace Zarrs.Lossy

/-- the arithmetic core of `roundBits`, with the quantum `q`, its half `h` and the saturation bound `M` abstract -/
def roundQ (q h M x : Nat) : Nat := min (x + (x / q % 2) + (h - 1)) M / q * q

theorem roundBits_eq_roundQ (width keep maxbits x : Nat) (hk : keep < maxbits) :
    roundBits width keep maxbits x =
      roundQ (2 ^ (maxbits - keep)) (2 ^ (maxbits - keep - 1)) (2 ^ width - 1) x := by
  simp only [roundBits, roundQ, if_pos hk]

theorem pow_quantum (keep maxbits : Nat) (hk : keep < maxbits) :
    2 ^ (maxbits - keep) = 2 * 2 ^ (maxbits - keep - 1) := by
  obtain ⟨m, hm⟩ : ∃ m, maxbits - keep = m + 1 := ⟨maxbits - keep - 1, by omega⟩
  rw [hm, Nat.add_sub_cancel, Nat.pow_succ, Nat.mul_comm]

theorem floor_bounds (n q : Nat) (hq : 0 < q) : n / q * q ≤ n ∧ n < n / q * q + q := by
  have h1 := Nat.div_add_mod n q
  have h2 := Nat.mod_lt n hq
  rw [Nat.mul_comm] at h1
  omega

/-- anything in `[q*a, q*a + q)` floors to `q*a` -/
theorem floor_of_mem (q a t : Nat) (hq : 0 < q) (h1 : q * a ≤ t) (h2 : t < q * a + q) :
    t / q * q = q * a := by
  have ht : t = q * a + (t - q * a) := by omega
  rw [ht, Nat.mul_add_div hq, Nat.div_eq_of_lt (by omega), Nat.add_zero, Nat.mul_comm]

theorem roundQ_mod (q h M x : Nat) : roundQ q h M x % q = 0 := by
  simp only [roundQ, Nat.mul_mod_left]

theorem roundQ_le (q h M x : Nat) (hq : 0 < q) : roundQ q h M x ≤ M := by
  have := (floor_bounds (min (x + (x / q % 2) + (h - 1)) M) q hq).1
  have := Nat.min_le_right (x + (x / q % 2) + (h - 1)) M
  simp only [roundQ]
  omega

theorem roundQ_near (q h M x : Nat) (hq : q = 2 * h) (hh : 0 < h) (hs : x + h ≤ M) :
    roundQ q h M x ≤ x + h ∧ x ≤ roundQ q h M x + h := by
  simp only [roundQ]
  generalize x / q = a
  have hmin : min (x + a % 2 + (h - 1)) M = x + a % 2 + (h - 1) := Nat.min_eq_left (by omega)
  rw [hmin]
  have := floor_bounds (x + a % 2 + (h - 1)) q (by omega)
  omega

theorem roundQ_tie_even (q h M x : Nat) (hq : q = 2 * h) (hh : 0 < h) (hs : x + h ≤ M)
    (htie : x % q = h) : roundQ q h M x / q % 2 = 0 := by
  have hq0 : 0 < q := by omega
  simp only [roundQ]
  rw [Nat.mul_div_cancel _ hq0]
  have hx := Nat.div_add_mod x q
  rw [htie] at hx
  generalize x / q = a at hx ⊢
  have hmin : min (x + a % 2 + (h - 1)) M = x + a % 2 + (h - 1) := Nat.min_eq_left (by omega)
  rw [hmin]
  have hs' : x + a % 2 + (h - 1) = q * a + (q - 1 + a % 2) := by omega
  rw [hs', Nat.mul_add_div hq0]
  rcases Nat.mod_two_eq_zero_or_one a with h0 | h1
  · rw [h0, Nat.add_zero, Nat.div_eq_of_lt (by omega)]
    omega
  · have : q - 1 + 1 = q := by omega
    rw [h1, this, Nat.div_self hq0]
    omega

theorem roundQ_fixed (q h M x : Nat) (hq : q = 2 * h) (hh : 0 < h) (hx : x ≤ M) (h0 : x % q = 0) :
    roundQ q h M x = x := by
  have hq0 : 0 < q := by omega
  have hxa := Nat.div_add_mod x q
  rw [h0, Nat.add_zero] at hxa
  simp only [roundQ]
  generalize x / q = a at hxa ⊢
  rw [← hxa]
  have hm : a % 2 < 2 := Nat.mod_lt _ (by omega)
  apply floor_of_mem q a _ hq0
  · exact Nat.le_min.2 ⟨by omega, by omega⟩
  · have := Nat.min_le_left (q * a + a % 2 + (h - 1)) M
    omega

theorem roundQ_idem (q h M x : Nat) (hq : q = 2 * h) (hh : 0 < h) :
    roundQ q h M (roundQ q h M x) = roundQ q h M x :=
  roundQ_fixed q h M _ hq hh (roundQ_le q h M x (by omega)) (roundQ_mod q h M x)

end Zarrs.Lossy
