import ZarrsModel.Model.DeflateSpec
import ZarrsModel.Lemmas.InflateFixed
set_option Elab.async false
/-
Canonical Huffman codes: the table `mkHuff lens` of the reader lists, for every symbol with a non-zero length, the
code `codeNat lens s` of the specification (RFC 1951 §3.2.2); under the Kraft inequality the codes are prefix-free
and `decodeSym` inverts `codeOf`.
-/
namespace Zarrs.DeflateSpec
open Zarrs Zarrs.Inflate

/-! ### `nextCodes` is `firstCode` -/

theorem blCount_getD (lens : List Nat) (l : Nat) (h : l < 16) : (blCount lens).getD l 0 = lenCount lens l := by
  unfold blCount lenCount
  rw [List.getD_eq_getElem?_getD, List.getElem?_map, List.getElem?_range h]
  by_cases h0 : l = 0 <;> simp [h0]

theorem nextCodes_fold (lens counts : List Nat) (n : Nat) (hc : ∀ l, l < n → counts.getD l 0 = lenCount lens l) :
    (List.range n).foldl (fun (acc : List Nat × Nat) l =>
      let code := (acc.2 + counts.getD l 0) * 2
      (acc.1 ++ [code], code)) ([0], 0) = ((List.range (n + 1)).map (firstCode lens), firstCode lens n) := by
  induction n with
  | zero => simp [firstCode]
  | succ n ih =>
    rw [List.range_succ, List.foldl_append, ih (fun l hl => hc l (by omega))]
    simp only [List.foldl_cons, List.foldl_nil]
    rw [hc n (by omega)]
    rw [List.range_succ (n := n + 1), List.map_append]
    simp [firstCode]

theorem nextCodes_eq (lens : List Nat) : nextCodes (blCount lens) = (List.range 16).map (firstCode lens) := by
  unfold nextCodes
  rw [nextCodes_fold lens (blCount lens) 15 (fun l hl => blCount_getD lens l (by omega))]

theorem nextCodes_getD (lens : List Nat) (l : Nat) (h : l < 16) :
    (nextCodes (blCount lens)).getD l 0 = firstCode lens l := by
  rw [nextCodes_eq, List.getD_eq_getElem?_getD, List.getElem?_map, List.getElem?_range h]
  rfl

theorem nextCodes_length (lens : List Nat) : (nextCodes (blCount lens)).length = 16 := by
  rw [nextCodes_eq]; simp

/-! ### the table, entry by entry -/

/-- `mkHuff` as a recursion: `nc` the next code of every length, `k` the symbol of the head -/
def huffGo : List Nat → Nat → List Nat → Huff
  | _, _, [] => []
  | nc, k, l :: ls =>
    if l = 0 then huffGo nc (k + 1) ls
    else (l, nc.getD l 0, k) :: huffGo (nc.set l (nc.getD l 0 + 1)) (k + 1) ls

theorem mkHuff_fold (ls : List Nat) (k : Nat) (acc : Huff) (nc : List Nat) :
    ((ls.zipIdx k).foldl (fun (acc : Huff × List Nat) (ls : Nat × Nat) =>
      let (l, sym) := ls
      if l == 0 then acc else
        let code := acc.2.getD l 0
        (acc.1 ++ [(l, code, sym)], acc.2.set l (code + 1))) (acc, nc)).1 = acc ++ huffGo nc k ls := by
  induction ls generalizing k acc nc with
  | nil => simp [huffGo]
  | cons l ls ih =>
    rw [List.zipIdx_cons, List.foldl_cons]
    by_cases h0 : l = 0
    · subst h0
      simp only [beq_self_eq_true, if_true, huffGo]
      exact ih _ _ _
    · have hb : (l == 0) = false := by simp [h0]
      simp only [hb, Bool.false_eq_true, if_false, huffGo, h0]
      rw [ih]
      simp

theorem mkHuff_eq (lens : List Nat) : mkHuff lens = huffGo (nextCodes (blCount lens)) 0 lens := by
  unfold mkHuff
  have := mkHuff_fold lens 0 [] (nextCodes (blCount lens))
  simpa using this

theorem getD_set_eq (nc : List Nat) (l v x : Nat) (h : l < nc.length) :
    (nc.set l v).getD x 0 = if x = l then v else nc.getD x 0 := by
  rw [List.getD_eq_getElem?_getD, List.getD_eq_getElem?_getD, List.getElem?_set]
  by_cases hx : l = x
  · subst hx; simp [h]
  · have : ¬ x = l := fun e => hx e.symm
    simp [hx, this]

/-- every entry of the table is the code of a symbol -/
theorem huffGo_mem (nc : List Nat) (k : Nat) (ls : List Nat) (hl : ∀ l ∈ ls, l < nc.length) (e : Nat × Nat × Nat)
    (he : e ∈ huffGo nc k ls) :
    ∃ i, i < ls.length ∧ ls.getD i 0 ≠ 0 ∧
      e = (ls.getD i 0, nc.getD (ls.getD i 0) 0 + (ls.take i).count (ls.getD i 0), k + i) := by
  induction ls generalizing nc k with
  | nil => simp [huffGo] at he
  | cons l ls ih =>
    by_cases h0 : l = 0
    · subst h0
      simp only [huffGo, if_true] at he
      obtain ⟨i, hi, hne, hee⟩ := ih nc (k + 1) (fun x hx => hl x (List.mem_cons_of_mem _ hx)) he
      refine ⟨i + 1, by simp only [List.length_cons]; omega, ?_, ?_⟩
      · simpa using hne
      · rw [hee]
        simp only [List.getD_cons_succ, List.take_succ_cons]
        generalize ls.getD i 0 = x at hne ⊢
        have hb : (0 == x) = false := beq_eq_false_iff_ne.2 (fun e => hne e.symm)
        rw [List.count_cons, hb]
        simp only [Bool.false_eq_true, if_false, Nat.add_zero]
        congr 2
        omega
    · simp only [huffGo, h0, if_false, List.mem_cons] at he
      have hlt : l < nc.length := hl l (by simp)
      rcases he with he | he
      · refine ⟨0, by simp, by simpa using h0, ?_⟩
        rw [he]
        simp
      · obtain ⟨i, hi, hne, hee⟩ := ih (nc.set l (nc.getD l 0 + 1)) (k + 1)
          (fun x hx => by rw [List.length_set]; exact hl x (List.mem_cons_of_mem _ hx)) he
        refine ⟨i + 1, by simp only [List.length_cons]; omega, ?_, ?_⟩
        · simpa using hne
        · rw [hee, getD_set_eq _ _ _ _ hlt]
          simp only [List.getD_cons_succ, List.take_succ_cons, List.count_cons]
          generalize ls.getD i 0 = x
          by_cases hx : x = l
          · subst hx
            simp only [if_true, beq_self_eq_true]
            congr 2 <;> omega
          · have hb : (l == x) = false := beq_eq_false_iff_ne.2 (fun e => hx e.symm)
            simp only [hx, if_false, hb, Bool.false_eq_true, Nat.add_zero]
            congr 2
            omega

/-- the code of every symbol with a non-zero length is in the table -/
theorem huffGo_mem_of (nc : List Nat) (k : Nat) (ls : List Nat) (hl : ∀ l ∈ ls, l < nc.length) (i : Nat)
    (hi : i < ls.length) (hne : ls.getD i 0 ≠ 0) :
    (ls.getD i 0, nc.getD (ls.getD i 0) 0 + (ls.take i).count (ls.getD i 0), k + i) ∈ huffGo nc k ls := by
  induction ls generalizing nc k i with
  | nil => simp at hi
  | cons l ls ih =>
    cases i with
    | zero =>
      have h0 : l ≠ 0 := by simpa using hne
      simp [huffGo, h0]
    | succ i =>
      have hi' : i < ls.length := by simp only [List.length_cons] at hi; omega
      have hne' : ls.getD i 0 ≠ 0 := by simpa using hne
      have hlt : l < nc.length := hl l (by simp)
      by_cases h0 : l = 0
      · subst h0
        simp only [huffGo, if_true]
        have := ih nc (k + 1) (fun x hx => hl x (List.mem_cons_of_mem _ hx)) i hi' hne'
        simp only [List.getD_cons_succ, List.take_succ_cons]
        generalize ls.getD i 0 = x at hne' this ⊢
        have hb : (0 == x) = false := beq_eq_false_iff_ne.2 (fun e => hne' e.symm)
        rw [List.count_cons, hb]
        simp only [Bool.false_eq_true, if_false, Nat.add_zero]
        have e : k + (i + 1) = k + 1 + i := by omega
        rw [e]; exact this
      · simp only [huffGo, h0, if_false, List.mem_cons]
        right
        have := ih (nc.set l (nc.getD l 0 + 1)) (k + 1)
          (fun x hx => by rw [List.length_set]; exact hl x (List.mem_cons_of_mem _ hx)) i hi' hne'
        rw [getD_set_eq _ _ _ _ hlt] at this
        simp only [List.getD_cons_succ, List.take_succ_cons, List.count_cons]
        have e : k + (i + 1) = k + 1 + i := by omega
        rw [e]
        generalize ls.getD i 0 = x at this ⊢
        by_cases hx : x = l
        · subst hx
          simp only [if_true, beq_self_eq_true] at this ⊢
          have e2 : nc.getD x 0 + (List.count x (List.take i ls) + 1) = nc.getD x 0 + 1 + List.count x (List.take i ls) := by
            omega
          rw [e2]; exact this
        · have hb : (l == x) = false := beq_eq_false_iff_ne.2 (fun e => hx e.symm)
          simp only [hx, if_false] at this
          simp only [hb, Bool.false_eq_true, if_false, Nat.add_zero]
          exact this

theorem all_le15 (lens : List Nat) (h : validLens lens = true) : ∀ l ∈ lens, l ≤ 15 := by
  unfold validLens at h
  simp only [Bool.and_eq_true, List.all_eq_true, decide_eq_true_eq] at h
  exact h.1

theorem mkHuff_mem (lens : List Nat) (h15 : ∀ l ∈ lens, l ≤ 15) (e : Nat × Nat × Nat) (he : e ∈ mkHuff lens) :
    ∃ s, s < lens.length ∧ lens.getD s 0 ≠ 0 ∧ e = (lens.getD s 0, codeNat lens s, s) := by
  rw [mkHuff_eq] at he
  obtain ⟨i, hi, hne, hee⟩ := huffGo_mem _ 0 lens
    (fun l hl => by rw [nextCodes_length]; have := h15 l hl; omega) e he
  refine ⟨i, hi, hne, ?_⟩
  have hl15 : lens.getD i 0 < 16 := by
    have : lens.getD i 0 ∈ lens := by
      rw [List.getD_eq_getElem?_getD, List.getElem?_eq_getElem hi]; simp
    have := h15 _ this; omega
  rw [hee, nextCodes_getD _ _ hl15]
  simp [codeNat]

theorem mkHuff_mem_of (lens : List Nat) (h15 : ∀ l ∈ lens, l ≤ 15) (s : Nat) (hs : s < lens.length)
    (hne : lens.getD s 0 ≠ 0) : (lens.getD s 0, codeNat lens s, s) ∈ mkHuff lens := by
  rw [mkHuff_eq]
  have := huffGo_mem_of (nextCodes (blCount lens)) 0 lens
    (fun l hl => by rw [nextCodes_length]; have := h15 l hl; omega) s hs hne
  have hl15 : lens.getD s 0 < 16 := by
    have : lens.getD s 0 ∈ lens := by
      rw [List.getD_eq_getElem?_getD, List.getElem?_eq_getElem hs]; simp
    have := h15 _ this; omega
  rw [nextCodes_getD _ _ hl15] at this
  simpa [codeNat] using this

/-! ### the Kraft inequality bounds the codes -/

/-- one past the last code of length `l` -/
def codeEnd (lens : List Nat) (l : Nat) : Nat := firstCode lens l + lenCount lens l

theorem codeEnd_zero (lens : List Nat) : codeEnd lens 0 = 0 := by simp [codeEnd, firstCode, lenCount]

theorem firstCode_succ (lens : List Nat) (l : Nat) : firstCode lens (l + 1) = 2 * codeEnd lens l := by
  simp only [firstCode, codeEnd]; omega

theorem codeEnd_succ (lens : List Nat) (l : Nat) :
    codeEnd lens (l + 1) = 2 * codeEnd lens l + lenCount lens (l + 1) := by
  rw [codeEnd, firstCode_succ]

theorem codeEnd_mono (lens : List Nat) (l k : Nat) : codeEnd lens l * 2 ^ k ≤ codeEnd lens (l + k) := by
  induction k with
  | zero => simp
  | succ k ih =>
    rw [← Nat.add_assoc, codeEnd_succ, Nat.pow_succ, ← Nat.mul_assoc]
    omega

theorem firstCode_ge (lens : List Nat) (l k : Nat) (hk : 1 ≤ k) : codeEnd lens l * 2 ^ k ≤ firstCode lens (l + k) := by
  obtain ⟨k, rfl⟩ : ∃ j, k = j + 1 := ⟨k - 1, by omega⟩
  rw [← Nat.add_assoc, firstCode_succ, Nat.pow_succ, ← Nat.mul_assoc]
  have := codeEnd_mono lens l k
  omega

theorem lenCount_cons (a : Nat) (lens : List Nat) (l : Nat) :
    lenCount (a :: lens) l = lenCount lens l + (if a = l ∧ l ≠ 0 then 1 else 0) := by
  unfold lenCount
  by_cases h0 : l = 0
  · simp [h0]
  · simp only [h0, if_false, List.count_cons, ne_eq, not_false_eq_true, and_true]
    by_cases ha : a = l <;> simp [ha]

theorem codeEnd_cons (a : Nat) (lens : List Nat) (l : Nat) :
    codeEnd (a :: lens) l = codeEnd lens l + (if a ≠ 0 ∧ a ≤ l then 2 ^ (l - a) else 0) := by
  induction l with
  | zero =>
    rw [codeEnd_zero, codeEnd_zero]
    have : ¬ (a ≠ 0 ∧ a ≤ 0) := by omega
    rw [if_neg this]
  | succ l ih =>
    rw [codeEnd_succ, codeEnd_succ, ih, lenCount_cons]
    by_cases ha0 : a = 0
    · have h1 : ¬ (a = l + 1 ∧ l + 1 ≠ 0) := by omega
      have h2 : ¬ (a ≠ 0 ∧ a ≤ l) := by omega
      have h3 : ¬ (a ≠ 0 ∧ a ≤ l + 1) := by omega
      rw [if_neg h1, if_neg h2, if_neg h3]
      omega
    · by_cases hal : a ≤ l
      · have h1 : ¬ (a = l + 1 ∧ l + 1 ≠ 0) := by omega
        have h2 : a ≠ 0 ∧ a ≤ l := ⟨ha0, hal⟩
        have h3 : a ≠ 0 ∧ a ≤ l + 1 := ⟨ha0, by omega⟩
        have h4 : l + 1 - a = (l - a) + 1 := by omega
        rw [if_neg h1, if_pos h2, if_pos h3, h4, Nat.pow_succ]
        omega
      · by_cases hal1 : a = l + 1
        · have h1 : a = l + 1 ∧ l + 1 ≠ 0 := by omega
          have h2 : ¬ (a ≠ 0 ∧ a ≤ l) := by omega
          have h3 : a ≠ 0 ∧ a ≤ l + 1 := by omega
          have h4 : l + 1 - a = 0 := by omega
          rw [if_pos h1, if_neg h2, if_pos h3, h4, Nat.pow_zero]
          omega
        · have h1 : ¬ (a = l + 1 ∧ l + 1 ≠ 0) := by omega
          have h2 : ¬ (a ≠ 0 ∧ a ≤ l) := by omega
          have h3 : ¬ (a ≠ 0 ∧ a ≤ l + 1) := by omega
          rw [if_neg h1, if_neg h2, if_neg h3]
          omega

theorem codeEnd_nil (l : Nat) : codeEnd [] l = 0 := by
  induction l with
  | zero => exact codeEnd_zero _
  | succ l ih => rw [codeEnd_succ, ih]; simp [lenCount]

theorem kraft_eq (lens : List Nat) (h15 : ∀ l ∈ lens, l ≤ 15) : kraft lens = codeEnd lens 15 := by
  induction lens with
  | nil => rw [codeEnd_nil]; rfl
  | cons a lens ih =>
    rw [codeEnd_cons, ← ih (fun l hl => h15 l (List.mem_cons_of_mem _ hl))]
    have ha : a ≤ 15 := h15 a (by simp)
    unfold kraft
    simp only [List.map_cons, List.sum_cons]
    by_cases h0 : a = 0
    · have : ¬ (a ≠ 0 ∧ a ≤ 15) := by omega
      rw [if_pos h0, if_neg this]
      omega
    · have : a ≠ 0 ∧ a ≤ 15 := ⟨h0, ha⟩
      rw [if_neg h0, if_pos this]
      omega

/-- Kraft: the codes of length `l` fit into `l` bits -/
theorem codeEnd_le (lens : List Nat) (h : validLens lens = true) (l : Nat) (hl : l ≤ 15) : codeEnd lens l ≤ 2 ^ l := by
  have h15 := all_le15 lens h
  have hk : kraft lens ≤ 2 ^ 15 := by
    unfold validLens at h
    simp only [Bool.and_eq_true, decide_eq_true_eq] at h
    exact h.2
  rw [kraft_eq lens h15] at hk
  have hm := codeEnd_mono lens l (15 - l)
  have e : l + (15 - l) = 15 := by omega
  rw [e] at hm
  have hp : (2 : Nat) ^ 15 = 2 ^ l * 2 ^ (15 - l) := by rw [← Nat.pow_add, e]
  rw [hp] at hk
  have hpos : 0 < 2 ^ (15 - l) := Nat.two_pow_pos _
  exact Nat.le_of_mul_le_mul_right (Nat.le_trans hm hk) hpos

/-! ### the codes of one length are distinct -/

theorem count_take_succ (lens : List Nat) (i : Nat) (hi : i < lens.length) :
    (lens.take (i + 1)).count (lens.getD i 0) = (lens.take i).count (lens.getD i 0) + 1 := by
  have hx : lens.getD i 0 = lens[i] := by rw [List.getD_eq_getElem?_getD, List.getElem?_eq_getElem hi]; rfl
  rw [hx, List.take_add_one, List.getElem?_eq_getElem hi, List.count_append]
  simp

theorem count_take_mono (lens : List Nat) (x i j : Nat) (hij : i ≤ j) :
    (lens.take i).count x ≤ (lens.take j).count x := by
  obtain ⟨d, rfl⟩ : ∃ d, j = i + d := ⟨j - i, by omega⟩
  rw [List.take_add, List.count_append]
  omega

theorem count_take_lt (lens : List Nat) (i j : Nat) (hi : i < lens.length) (hij : i < j) :
    (lens.take i).count (lens.getD i 0) < (lens.take j).count (lens.getD i 0) := by
  have h1 := count_take_succ lens i hi
  have h2 := count_take_mono lens (lens.getD i 0) (i + 1) j (by omega)
  omega

theorem count_take_lt_count (lens : List Nat) (i : Nat) (hi : i < lens.length) :
    (lens.take i).count (lens.getD i 0) < lens.count (lens.getD i 0) := by
  have := count_take_lt lens i lens.length hi hi
  rwa [List.take_length] at this

theorem codeNat_lt_end (lens : List Nat) (s : Nat) (hs : s < lens.length) (hne : lens.getD s 0 ≠ 0) :
    codeNat lens s < codeEnd lens (lens.getD s 0) := by
  unfold codeNat codeEnd lenCount
  have := count_take_lt_count lens s hs
  simp only [hne, if_false]
  omega

theorem codeNat_inj (lens : List Nat) (s t : Nat) (hs : s < lens.length) (ht : t < lens.length)
    (hl : lens.getD s 0 = lens.getD t 0) (hc : codeNat lens s = codeNat lens t) : s = t := by
  unfold codeNat at hc
  rw [hl] at hc
  have hc' : (lens.take s).count (lens.getD t 0) = (lens.take t).count (lens.getD t 0) := by omega
  rcases Nat.lt_trichotomy s t with h | h | h
  · have := count_take_lt lens s t hs h
    rw [hl] at this; omega
  · exact h
  · have := count_take_lt lens t s ht h
    omega

/-! ### decoding inverts encoding -/

theorem getD_ne_zero_lt (lens : List Nat) (s : Nat) (h : lens.getD s 0 ≠ 0) : s < lens.length := by
  apply Classical.byContradiction
  intro hn
  apply h
  rw [List.getD_eq_getElem?_getD, List.getElem?_eq_none (by omega)]
  rfl

theorem getD_mem (lens : List Nat) (s : Nat) (hs : s < lens.length) : lens.getD s 0 ∈ lens := by
  rw [List.getD_eq_getElem?_getD, List.getElem?_eq_getElem hs]; simp

/-- the code of `s` is below 2^length, found in the table, and none of its proper prefixes is a code -/
theorem look_codeNat (lens : List Nat) (h : validLens lens = true) (s : Nat) (hne : lens.getD s 0 ≠ 0) :
    codeNat lens s < 2 ^ lens.getD s 0 ∧
    look (mkHuff lens) (lens.getD s 0) (codeNat lens s) = some (lens.getD s 0, codeNat lens s, s) ∧
    ∀ m, 1 ≤ m → m < lens.getD s 0 → look (mkHuff lens) (lens.getD s 0 - m) (codeNat lens s / 2 ^ m) = none := by
  have h15 := all_le15 lens h
  have hs := getD_ne_zero_lt lens s hne
  have hl15 : lens.getD s 0 ≤ 15 := h15 _ (getD_mem lens s hs)
  have hlt := codeNat_lt_end lens s hs hne
  refine ⟨Nat.lt_of_lt_of_le hlt (codeEnd_le lens h _ hl15), ?_, ?_⟩
  · have hmem := mkHuff_mem_of lens h15 s hs hne
    unfold look
    cases hf : (mkHuff lens).find? (fun e => e.1 == lens.getD s 0 && e.2.1 == codeNat lens s) with
    | none =>
      rw [List.find?_eq_none] at hf
      have := hf _ hmem
      simp at this
    | some e =>
      have hp := List.find?_some hf
      have he := List.mem_of_find?_eq_some hf
      simp only [Bool.and_eq_true, beq_iff_eq] at hp
      obtain ⟨t, ht, _, hee⟩ := mkHuff_mem lens h15 e he
      rw [hee] at hp
      simp only at hp
      have := codeNat_inj lens t s ht hs hp.1 hp.2
      rw [hee, this]
  · intro m hm1 hm2
    apply look_none
    intro e he hh
    obtain ⟨t, ht, htne, hee⟩ := mkHuff_mem lens h15 e he
    rw [hee] at hh
    simp only at hh
    have h1 := codeNat_lt_end lens t ht htne
    rw [hh.1] at h1
    have h2 := firstCode_ge lens (lens.getD s 0 - m) m hm1
    have e2 : lens.getD s 0 - m + m = lens.getD s 0 := by omega
    rw [e2] at h2
    have h3 : firstCode lens (lens.getD s 0) ≤ codeNat lens s := by unfold codeNat; omega
    have h4 : codeEnd lens (lens.getD s 0 - m) ≤ codeNat lens s / 2 ^ m := by
      rw [Nat.le_div_iff_mul_le (Nat.two_pow_pos _)]
      omega
    omega

/-- **canonical Huffman decoding inverts encoding** -/
theorem decodeSym_codeOf' (lens : List Nat) (h : validLens lens = true) (s : Nat) (code rest : Bits)
    (hc : codeOf lens s = some code) : decodeSym (mkHuff lens) (code ++ rest) = some (s, rest) := by
  unfold codeOf at hc
  by_cases hne : lens.getD s 0 = 0
  · rw [if_pos hne] at hc; cases hc
  · rw [if_neg hne, Option.some.injEq] at hc
    subst hc
    obtain ⟨h1, h2, h3⟩ := look_codeNat lens h s hne
    have h15 := all_le15 lens h
    have hs := getD_ne_zero_lt lens s hne
    have hl15 : lens.getD s 0 ≤ 15 := h15 _ (getD_mem lens s hs)
    exact decodeSym_bitsMsb (mkHuff lens) _ _ _ rest (by omega) hl15 h1 h3 h2

theorem codeOf_length_pos (lens : List Nat) (s : Nat) (code : Bits) (hc : codeOf lens s = some code) :
    1 ≤ code.length := by
  unfold codeOf at hc
  by_cases hne : lens.getD s 0 = 0
  · rw [if_pos hne] at hc; cases hc
  · rw [if_neg hne, Option.some.injEq] at hc
    subst hc
    simp only [bitsMsb, List.length_map, List.length_range]
    omega

end Zarrs.DeflateSpec
