import ZarrsModel.Model.MetaV2
import ZarrsModel.Lemmas.Meta
import ZarrsModel.Lemmas.MetaV2Fold
/- helper lemmas for C13 (V2): reading back what is written, at the JSON level -/
set_option Elab.async false
set_option linter.unusedSimpArgs false
namespace Zarrs.MetaV2
open Zarrs.Json Zarrs.Meta

/-! ### components -/

/-- a configuration as parsing leaves it: no `id` key -/
def MetaV2.shapeOk (m : MetaV2) : Prop := lookup m.config kId = none

theorem metaV2_ofJ_toJ (m : MetaV2) (h : m.shapeOk) : MetaV2.ofJ m.toJ = some m := by
  obtain ⟨id, config⟩ := m
  unfold MetaV2.shapeOk at h
  simp only at h
  simp only [MetaV2.toJ, MetaV2.ofJ, lookup_cons_eq]
  have : without ((kId, J.str id) :: config) kId = config := by
    have h1 : without ((kId, J.str id) :: config) kId = without config kId := by
      simp [without]
    rw [h1, without_of_lookup_none _ _ h]
  rw [this]

theorem metaV2_ofJ_shapeOk (j : J) (m : MetaV2) (h : MetaV2.ofJ j = some m) : m.shapeOk := by
  cases j with
  | obj o =>
    simp only [MetaV2.ofJ] at h
    split at h
    · cases h; exact lookup_without_self _ _
    · cases h
  | _ => simp [MetaV2.ofJ] at h

theorem metaV2List_toJ (l : List MetaV2) (h : ∀ m ∈ l, m.shapeOk) : metaV2List (l.map MetaV2.toJ) = some l := by
  unfold metaV2List
  exact mapM_map_some _ _ _ (fun m hm => metaV2_ofJ_toJ m (h m hm))

theorem u64Tok_inv (x : J) (t : List Char) (h : u64Tok x = some t) : x = .num t ∧ isU64Tok t = true := by
  unfold u64Tok at h
  split at h
  · split at h
    · cases h; exact ⟨rfl, ‹_›⟩
    · cases h
  · cases h

theorem nzTok_inv (x : J) (t : List Char) (h : nzTok x = some t) : x = .num t ∧ isNzU64Tok t = true := by
  unfold nzTok at h
  split at h
  · split at h
    · cases h; exact ⟨rfl, ‹_›⟩
    · cases h
  · cases h

theorem u64Tok_num (t : List Char) (h : isU64Tok t = true) : u64Tok (.num t) = some t := by simp [u64Tok, h]
theorem nzTok_num (t : List Char) (h : isNzU64Tok t = true) : nzTok (.num t) = some t := by simp [nzTok, h]

/-- a structured field that reads back: its shape is present (a field without one is written with two elements, which
    the reader rejects) and holds `u64` tokens -/
def DField.shapeOk (f : DField) : Prop := ∃ s, f.shape = some s ∧ ∀ t ∈ s, isU64Tok t = true

theorem dfield_ofJ_toJ (f : DField) (h : f.shapeOk) : DField.ofJ f.toJ = some f := by
  obtain ⟨name, dt, shape⟩ := f
  obtain ⟨s, hs, ht⟩ := h
  simp only at hs
  subst hs
  simp only [DField.toJ, List.cons_append, List.nil_append, DField.ofJ]
  rw [mapM_map_some u64Tok J.num s (fun t ht' => u64Tok_num t (ht t ht'))]
  rfl

def DType.shapeOk : DType → Prop
  | .simple _ => True
  | .structured fs => ∀ f ∈ fs, DField.shapeOk f

theorem dtype_ofJ_toJ (d : DType) (h : d.shapeOk) : DType.ofJ d.toJ = some d := by
  cases d with
  | simple s => rfl
  | structured fs =>
    simp only [DType.toJ, DType.ofJ]
    rw [mapM_map_some DField.ofJ DField.toJ fs (fun f hf => dfield_ofJ_toJ f (h f hf))]
    rfl

/-- a string fill value is not one of the three reserved names -/
def FillV2.shapeOk : FillV2 → Prop
  | .str s => s ≠ ascii "NaN" ∧ s ≠ ascii "Infinity" ∧ s ≠ ascii "-Infinity"
  | _ => True

theorem fillV2_ofJ_toJ (f : FillV2) (h : f.shapeOk) : FillV2.ofJ f.toJ = some f := by
  cases f with
  | str s =>
    obtain ⟨h1, h2, h3⟩ := h
    simp [FillV2.toJ, FillV2.ofJ, h1, h2, h3]
  | null => rfl
  | nan => rfl
  | inf => rfl
  | ninf => rfl
  | num t => rfl

theorem fillV2_ofJ_shapeOk (j : J) (f : FillV2) (h : FillV2.ofJ j = some f) : f.shapeOk := by
  cases j with
  | str s =>
    simp only [FillV2.ofJ] at h
    split at h
    · cases h; trivial
    · split at h
      · cases h; trivial
      · split at h
        · cases h; trivial
        · cases h
          refine ⟨?_, ?_, ?_⟩ <;> (intro e; simp_all)
  | null => simp only [FillV2.ofJ] at h; cases h; trivial
  | num t => simp only [FillV2.ofJ] at h; cases h; trivial
  | bool _ => simp [FillV2.ofJ] at h
  | arr _ => simp [FillV2.ofJ] at h
  | obj _ => simp [FillV2.ofJ] at h

theorem order_ofJ_toJ (o : Order) : Order.ofJ o.toJ = some o := by cases o <;> decide
theorem sep_ofJ_toJ (s : Sep) : Sep.ofJ s.toJ = some s := by cases s <;> decide

end Zarrs.MetaV2

namespace Zarrs.MetaV2
open Zarrs.Json Zarrs.Meta

/-! ### what `ArrayDocV2.ofJ (.obj o) = some d` says, field by field -/

structure ArrayDocV2Of (o : Obj) (d : ArrayDocV2) : Prop where
  zf : lookup o (ascii "zarr_format") = some (.num ['2'])
  shape : numList u64Tok (lookup o (ascii "shape")) = some d.shape
  chunks : numList nzTok (lookup o (ascii "chunks")) = some d.chunks
  dt : (lookup o (ascii "dtype")).bind DType.ofJ = some d.dtype
  comp : compOfJ (lookup o (ascii "compressor")) = some d.compressor
  fill : (lookup o (ascii "fill_value")).bind FillV2.ofJ = some d.fill
  ord : (lookup o (ascii "order")).bind Order.ofJ = some d.order
  filters : filtersOfJ (lookup o (ascii "filters")) = some d.filters
  sep : sepOfJ (lookup o (ascii "dimension_separator")) = some d.sep
  attrs : attrsOfJ (lookup o (ascii "attributes")) = some d.attrs
  extra : d.extra = dropArrayTag (extrasV2 arrayKeysV2 o)

theorem arrayDocV2_ofJ_inv (o : Obj) (d : ArrayDocV2) (h : ArrayDocV2.ofJ (.obj o) = some d) : ArrayDocV2Of o d := by
  simp only [ArrayDocV2.ofJ] at h
  split at h
  next hzf =>
    split at h
    next shape chunks dt' comp fill ord' filters sep attrs e1 e2 e3 e4 e5 e6 e7 e8 e9 =>
      simp only [Option.some.injEq] at h
      subst h
      exact ⟨hzf, e1, e2, e3, e4, e5, e6, e7, e8, e9, rfl⟩
    · cases h
  · cases h

theorem arrayDocV2_ofJ_intro (o : Obj) (d : ArrayDocV2) (h : ArrayDocV2Of o d) : ArrayDocV2.ofJ (.obj o) = some d := by
  obtain ⟨hzf, h1, h2, h3, h4, h5, h6, h7, h8, h9, hextra⟩ := h
  obtain ⟨shape, chunks, dtype, compressor, fill, order, filters, sep, attrs, extra⟩ := d
  simp only at *
  simp only [ArrayDocV2.ofJ, hzf, h1, h2, h3, h4, h5, h6, h7, h8, h9, hextra]

structure GroupDocV2Of (o : Obj) (d : GroupDocV2) : Prop where
  zf : lookup o (ascii "zarr_format") = some (.num ['2'])
  attrs : attrsOfJ (lookup o (ascii "attributes")) = some d.attrs
  extra : d.extra = extrasV2 groupKeysV2 o

theorem groupDocV2_ofJ_inv (o : Obj) (d : GroupDocV2) (h : GroupDocV2.ofJ (.obj o) = some d) : GroupDocV2Of o d := by
  simp only [GroupDocV2.ofJ] at h
  split at h
  next hzf =>
    split at h
    next attrs e =>
      simp only [Option.some.injEq] at h
      subst h
      exact ⟨hzf, e, rfl⟩
    · cases h
  · cases h

theorem groupDocV2_ofJ_intro (o : Obj) (d : GroupDocV2) (h : GroupDocV2Of o d) : GroupDocV2.ofJ (.obj o) = some d := by
  obtain ⟨hzf, h1, hextra⟩ := h
  obtain ⟨attrs, extra⟩ := d
  simp only at *
  simp only [GroupDocV2.ofJ, hzf, h1, hextra]

end Zarrs.MetaV2

namespace Zarrs.MetaV2
open Zarrs.Json Zarrs.Meta

/-! ### the printed documents -/

theorem extrasV2_eq (known : List Str) (o : Obj) : extrasV2 known o = extrasOf known o := rfl

def ArrayDocV2.knownKVs (d : ArrayDocV2) : Obj :=
  [(ascii "zarr_format", .num ['2']),
   (ascii "shape", .arr (d.shape.map .num)), (ascii "chunks", .arr (d.chunks.map .num)),
   (ascii "dtype", d.dtype.toJ), (ascii "compressor", compressorToJ d.compressor),
   (ascii "fill_value", d.fill.toJ), (ascii "order", d.order.toJ),
   (ascii "filters", filtersToJ d.filters), (ascii "dimension_separator", d.sep.toJ)] ++
  (if d.attrs.isEmpty then [] else [(ascii "attributes", .obj d.attrs)])

def tagKV : Str × J := (kNodeType, .str (ascii "array"))

def ArrayDocV2.kvs (d : ArrayDocV2) : Obj := tagKV :: (d.knownKVs ++ extraKVs d.extra)

theorem ArrayDocV2.toJ_eq (d : ArrayDocV2) : d.toJ = .obj d.kvs := by
  simp [ArrayDocV2.toJ, ArrayDocV2.kvs, ArrayDocV2.knownKVs, tagKV, extraKVs]

theorem arrayDocV2_knownKeys_sublist (d : ArrayDocV2) : (d.knownKVs.map (·.1)).Sublist arrayKeysV2 := by
  obtain ⟨shape, chunks, dtype, compressor, fill, order, filters, sep, attrs, extra⟩ := d
  cases attrs <;>
    simp only [ArrayDocV2.knownKVs, List.isEmpty_nil, List.isEmpty_cons, if_true, Bool.false_eq_true, if_false,
      List.append_nil, List.map_append, List.map_cons, List.map_nil, List.cons_append, List.nil_append] <;> decide

theorem arrayKeysV2_nodup : arrayKeysV2.Nodup := by decide
theorem groupKeysV2_nodup : groupKeysV2.Nodup := by decide

theorem extraKVs_keys' (e : List (Str × AField)) : (extraKVs e).map (·.1) = e.map (·.1) := by
  unfold extraKVs; simp [List.map_map, Function.comp_def]

/-- no entry is the `"node_type": "array"` tag -/
def noArrayTag (e : List (Str × AField)) : Prop := ∀ kv ∈ e, isArrayTag kv = false

theorem dropArrayTag_of_none (e : List (Str × AField)) (h : noArrayTag e) : dropArrayTag e = e := by
  unfold dropArrayTag
  rw [List.filter_eq_self]
  intro kv hkv
  simp [h kv hkv]

theorem noArrayTag_dropArrayTag (e : List (Str × AField)) : noArrayTag (dropArrayTag e) := by
  intro kv hkv
  unfold dropArrayTag at hkv
  have := (List.mem_filter.1 hkv).2
  simpa using this

/-- the additional fields read back from a written array document -/
theorem arrayDocV2_extras (d : ArrayDocV2) (hk : ∀ kv ∈ d.extra, kv.1 ∉ arrayKeysV2)
    (hs : sortedKeys d.extra) (ha : ∀ kv ∈ d.extra, AField.shapeOk kv.2) (ht : noArrayTag d.extra) :
    dropArrayTag (extrasV2 arrayKeysV2 d.kvs) = d.extra := by
  have hbase : extrasOf arrayKeysV2 (extraKVs d.extra) = d.extra := extrasOf_extraKVs _ _ hk hs ha
  have hfilt : (d.knownKVs ++ extraKVs d.extra).filter (fun kv => !arrayKeysV2.contains kv.1) =
      (extraKVs d.extra).filter (fun kv => !arrayKeysV2.contains kv.1) := by
    rw [List.filter_append]
    have : d.knownKVs.filter (fun kv => !arrayKeysV2.contains kv.1) = [] := by
      rw [List.filter_eq_nil_iff]
      intro kv hkv
      have := (arrayDocV2_knownKeys_sublist d).subset (List.mem_map_of_mem (f := (·.1)) hkv)
      simpa using this
    rw [this, List.nil_append]
  have hstep : extrasV2 arrayKeysV2 d.kvs =
      ((extraKVs d.extra).filter (fun kv => !arrayKeysV2.contains kv.1)).foldl
        (fun acc kv => insertExtra kv.1 (AField.ofJ kv.2) acc) (insertExtra kNodeType (AField.ofJ (.str (ascii "array"))) []) := by
    unfold extrasV2 ArrayDocV2.kvs
    have hnt : (!arrayKeysV2.contains tagKV.1) = true := by decide
    rw [List.filter_cons, if_pos hnt, List.foldl_cons, hfilt]
    rfl
  rw [hstep, foldl_insertExtra_start]
  have hb2 : ((extraKVs d.extra).filter (fun kv => !arrayKeysV2.contains kv.1)).foldl
      (fun acc kv => insertExtra kv.1 (AField.ofJ kv.2) acc) [] = d.extra := hbase
  rw [hb2]
  split
  · exact dropArrayTag_of_none _ ht
  · rename_i hnot
    unfold dropArrayTag
    apply filter_insertExtra
    · rfl
    · intro x hx; simp [ht x hx]
    · intro hm
      apply hnot
      have hfs : (extraKVs d.extra).filter (fun kv => !arrayKeysV2.contains kv.1) = extraKVs d.extra := by
        rw [List.filter_eq_self]
        intro kv hkv
        unfold extraKVs at hkv
        obtain ⟨x, hx, rfl⟩ := List.mem_map.1 hkv
        simpa using hk x hx
      rw [hfs, extraKVs_keys']
      exact hm

end Zarrs.MetaV2

namespace Zarrs.MetaV2
open Zarrs.Json Zarrs.Meta

/-- what the round trip needs of a V2 array document (besides well-formed JSON): tokens of the right kind, parts
    in the form parsing leaves them, non-empty filters, additional fields sorted, outside the named fields and not
    the `node_type` tag -/
structure ArrayDocV2.shapeOk (d : ArrayDocV2) : Prop where
  shape : ∀ t ∈ d.shape, isU64Tok t = true
  chunks : ∀ t ∈ d.chunks, isNzU64Tok t = true
  dt : d.dtype.shapeOk
  comp : ∀ m, d.compressor = some m → m.shapeOk
  fill : d.fill.shapeOk
  filters : d.filters ≠ some [] ∧ ∀ fs, d.filters = some fs → ∀ f ∈ fs, MetaV2.shapeOk f
  extraKeys : ∀ kv ∈ d.extra, kv.1 ∉ arrayKeysV2
  extraShape : ∀ kv ∈ d.extra, AField.shapeOk kv.2
  sorted : sortedKeys d.extra
  noTag : noArrayTag d.extra

theorem compOfJ_toJ (c : Option MetaV2) (h : ∀ m, c = some m → m.shapeOk) :
    compOfJ (some (compressorToJ c)) = some c := by
  cases c with
  | none => rfl
  | some m =>
    have := metaV2_ofJ_toJ m (h m rfl)
    simp only [compressorToJ, MetaV2.toJ] at this ⊢
    simp only [compOfJ, this, Option.map_some]

theorem filtersOfJ_toJ (f : Option (List MetaV2)) (h1 : f ≠ some []) (h2 : ∀ fs, f = some fs → ∀ m ∈ fs, MetaV2.shapeOk m) :
    filtersOfJ (some (filtersToJ f)) = some f := by
  cases f with
  | none => rfl
  | some fs =>
    cases fs with
    | nil => exact absurd rfl h1
    | cons x xs =>
      simp only [filtersToJ, filtersOfJ, metaV2List_toJ (x :: xs) (h2 _ rfl), Option.map_some]

theorem attrsOfJ_none_iff : attrsOfJ none = some ([] : Obj) := rfl

theorem arrayDocV2_kvs_of (d : ArrayDocV2) (h : d.shapeOk) : ArrayDocV2Of d.kvs d := by
  have hE : ∀ k ∈ arrayKeysV2, lookup (extraKVs d.extra) k = none := fun k hk =>
    lookup_extraKVs_none _ _ (fun kv hkv e => h.extraKeys kv hkv (e ▸ hk))
  have hx := arrayDocV2_extras d h.extraKeys h.sorted h.extraShape h.noTag
  obtain ⟨hsh, hch, hdt, hcomp, hfill, hfilters, -, -, -, -⟩ := h
  obtain ⟨shape, chunks, dtype, compressor, fill, order, filters, sep, attrs, extra⟩ := d
  simp only at *
  refine ⟨?_, ?_, ?_, ?_, ?_, ?_, ?_, ?_, ?_, ?_, hx.symm⟩
  · simp (disch := decide) only [ArrayDocV2.kvs, tagKV, kNodeType, ArrayDocV2.knownKVs, lookup_append, lookup_cons_eq, lookup_cons_ne, Option.some_or, List.cons_append]
  · have : lookup (ArrayDocV2.kvs ⟨shape, chunks, dtype, compressor, fill, order, filters, sep, attrs, extra⟩) (ascii "shape") =
        some (.arr (shape.map .num)) := by
      simp (disch := decide) only [ArrayDocV2.kvs, tagKV, kNodeType, ArrayDocV2.knownKVs, lookup_append, lookup_cons_eq, lookup_cons_ne, Option.some_or, List.cons_append]
    rw [this]
    exact mapM_map_some u64Tok J.num shape (fun t ht => u64Tok_num t (hsh t ht))
  · have : lookup (ArrayDocV2.kvs ⟨shape, chunks, dtype, compressor, fill, order, filters, sep, attrs, extra⟩) (ascii "chunks") =
        some (.arr (chunks.map .num)) := by
      simp (disch := decide) only [ArrayDocV2.kvs, tagKV, kNodeType, ArrayDocV2.knownKVs, lookup_append, lookup_cons_eq, lookup_cons_ne, Option.some_or, List.cons_append]
    rw [this]
    exact mapM_map_some nzTok J.num chunks (fun t ht => nzTok_num t (hch t ht))
  · have : lookup (ArrayDocV2.kvs ⟨shape, chunks, dtype, compressor, fill, order, filters, sep, attrs, extra⟩) (ascii "dtype") =
        some dtype.toJ := by
      simp (disch := decide) only [ArrayDocV2.kvs, tagKV, kNodeType, ArrayDocV2.knownKVs, lookup_append, lookup_cons_eq, lookup_cons_ne, Option.some_or, List.cons_append]
    rw [this]
    exact dtype_ofJ_toJ dtype hdt
  · have : lookup (ArrayDocV2.kvs ⟨shape, chunks, dtype, compressor, fill, order, filters, sep, attrs, extra⟩) (ascii "compressor") =
        some (compressorToJ compressor) := by
      simp (disch := decide) only [ArrayDocV2.kvs, tagKV, kNodeType, ArrayDocV2.knownKVs, lookup_append, lookup_cons_eq, lookup_cons_ne, Option.some_or, List.cons_append]
    rw [this]
    exact compOfJ_toJ compressor hcomp
  · have : lookup (ArrayDocV2.kvs ⟨shape, chunks, dtype, compressor, fill, order, filters, sep, attrs, extra⟩) (ascii "fill_value") =
        some fill.toJ := by
      simp (disch := decide) only [ArrayDocV2.kvs, tagKV, kNodeType, ArrayDocV2.knownKVs, lookup_append, lookup_cons_eq, lookup_cons_ne, Option.some_or, List.cons_append]
    rw [this]
    exact fillV2_ofJ_toJ fill hfill
  · have : lookup (ArrayDocV2.kvs ⟨shape, chunks, dtype, compressor, fill, order, filters, sep, attrs, extra⟩) (ascii "order") =
        some order.toJ := by
      simp (disch := decide) only [ArrayDocV2.kvs, tagKV, kNodeType, ArrayDocV2.knownKVs, lookup_append, lookup_cons_eq, lookup_cons_ne, Option.some_or, List.cons_append]
    rw [this]
    exact order_ofJ_toJ order
  · have : lookup (ArrayDocV2.kvs ⟨shape, chunks, dtype, compressor, fill, order, filters, sep, attrs, extra⟩) (ascii "filters") =
        some (filtersToJ filters) := by
      simp (disch := decide) only [ArrayDocV2.kvs, tagKV, kNodeType, ArrayDocV2.knownKVs, lookup_append, lookup_cons_eq, lookup_cons_ne, Option.some_or, List.cons_append]
    rw [this]
    exact filtersOfJ_toJ filters hfilters.1 hfilters.2
  · have : lookup (ArrayDocV2.kvs ⟨shape, chunks, dtype, compressor, fill, order, filters, sep, attrs, extra⟩) (ascii "dimension_separator") =
        some sep.toJ := by
      simp (disch := decide) only [ArrayDocV2.kvs, tagKV, kNodeType, ArrayDocV2.knownKVs, lookup_append, lookup_cons_eq, lookup_cons_ne, Option.some_or, List.cons_append]
    rw [this]
    exact sep_ofJ_toJ sep
  · have := hE (ascii "attributes") (by decide)
    cases attrs <;>
    simp (disch := decide) [ArrayDocV2.kvs, tagKV, kNodeType, ArrayDocV2.knownKVs, lookup_append, lookup_cons_eq, lookup_cons_ne, lookup_nil, this, attrsOfJ]

/-- the round trip at the JSON level -/
theorem arrayDocV2_ofJ_toJ (d : ArrayDocV2) (h : d.shapeOk) : ArrayDocV2.ofJ d.toJ = some d := by
  rw [ArrayDocV2.toJ_eq]
  exact arrayDocV2_ofJ_intro _ _ (arrayDocV2_kvs_of d h)

/-! ### groups -/

def GroupDocV2.knownKVs (d : GroupDocV2) : Obj :=
  [(ascii "zarr_format", .num ['2'])] ++ (if d.attrs.isEmpty then [] else [(ascii "attributes", .obj d.attrs)])

def GroupDocV2.kvs (d : GroupDocV2) : Obj := d.knownKVs ++ extraKVs d.extra

theorem GroupDocV2.toJ_eq (d : GroupDocV2) : d.toJ = .obj d.kvs := rfl

theorem groupDocV2_knownKeys_sublist (d : GroupDocV2) : (d.knownKVs.map (·.1)).Sublist groupKeysV2 := by
  obtain ⟨attrs, extra⟩ := d
  cases attrs <;>
    simp only [GroupDocV2.knownKVs, List.isEmpty_nil, List.isEmpty_cons, if_true, Bool.false_eq_true, if_false,
      List.append_nil, List.map_cons, List.map_nil, List.cons_append, List.nil_append] <;> decide

structure GroupDocV2.shapeOk (d : GroupDocV2) : Prop where
  extraKeys : ∀ kv ∈ d.extra, kv.1 ∉ groupKeysV2
  extraShape : ∀ kv ∈ d.extra, AField.shapeOk kv.2
  sorted : sortedKeys d.extra

theorem groupDocV2_extras (d : GroupDocV2) (h : d.shapeOk) : extrasV2 groupKeysV2 d.kvs = d.extra := by
  rw [extrasV2_eq]
  unfold GroupDocV2.kvs
  rw [extrasOf_append_known, extrasOf_extraKVs _ _ h.extraKeys h.sorted h.extraShape]
  intro kv hkv
  exact (groupDocV2_knownKeys_sublist d).subset (List.mem_map_of_mem hkv)

theorem groupDocV2_kvs_of (d : GroupDocV2) (h : d.shapeOk) : GroupDocV2Of d.kvs d := by
  have hE : ∀ k ∈ groupKeysV2, lookup (extraKVs d.extra) k = none := fun k hk =>
    lookup_extraKVs_none _ _ (fun kv hkv e => h.extraKeys kv hkv (e ▸ hk))
  have hx := groupDocV2_extras d h
  obtain ⟨attrs, extra⟩ := d
  refine ⟨?_, ?_, hx.symm⟩
  · simp (disch := decide) only [GroupDocV2.kvs, GroupDocV2.knownKVs, lookup_append, lookup_cons_eq, lookup_cons_ne, Option.some_or, List.cons_append]
  · have := hE (ascii "attributes") (by decide)
    cases attrs <;>
    simp (disch := decide) [GroupDocV2.kvs, GroupDocV2.knownKVs, lookup_append, lookup_cons_eq, lookup_cons_ne, lookup_nil, this, attrsOfJ]

theorem groupDocV2_ofJ_toJ (d : GroupDocV2) (h : d.shapeOk) : GroupDocV2.ofJ d.toJ = some d := by
  rw [GroupDocV2.toJ_eq]
  exact groupDocV2_ofJ_intro _ _ (groupDocV2_kvs_of d h)

end Zarrs.MetaV2
