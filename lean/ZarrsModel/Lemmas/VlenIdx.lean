import ZarrsModel.Lemmas.VlenV2
import ZarrsModel.Lemmas.CodecBasic
/- helper lemmas for C03 (variable-length codecs), part 3: the `vlen` layout (index + data through codec chains) -/
set_option Elab.async false
namespace Zarrs.Vlen
open Zarrs Zarrs.Codec

/-- what an offset must stay below to be representable in the index: 2^32 (`uint32`; the encoder returns an error
beyond) or 2^64 (`uint64`; `usize`) -/
def Cfg.maxOff (c : Cfg) : Nat := if c.idx64 then 2 ^ 64 else 2 ^ 32

theorem w_pos (c : Cfg) : 0 < c.w := by unfold Cfg.w; split <;> omega

theorem le64_length (n : Nat) : (le64 n).length = 8 := by simp [le64]

theorem le64_eq (n : Nat) : le64 n = [n % 256, n / 256 % 256, n / 65536 % 256, n / 16777216 % 256,
    n / 4294967296 % 256, n / 1099511627776 % 256, n / 281474976710656 % 256, n / 72057594037927936 % 256] := by
  have : List.range 8 = [0, 1, 2, 3, 4, 5, 6, 7] := by decide
  simp [le64, this]

theorem ofLe_le64 (n : Nat) (h : n < 2 ^ 64) : ofLe (le64 n) = n := by
  rw [le64_eq]
  simp only [ofLe, List.foldr]
  omega

theorem leW_length (c : Cfg) (n : Nat) : (c.leW n).length = c.w := by
  unfold Cfg.leW Cfg.w; split <;> simp [le64_length, le32_length]

theorem ofLe_leW (c : Cfg) (n : Nat) (h : n < c.maxOff) : ofLe (c.leW n) = n := by
  unfold Cfg.maxOff at h
  unfold Cfg.leW
  split
  · rename_i h64; simp only [h64, if_true] at h; exact ofLe_le64 n h
  · rename_i h64; simp only [h64] at h; exact ofLe_le32 n h

theorem rawIndex_eq (c : Cfg) (offs : List Nat) : rawIndex c offs = (offs.map c.leW).flatten := by
  rw [rawIndex, List.flatMap_def]

theorem rawIndex_length (c : Cfg) (offs : List Nat) : (rawIndex c offs).length = offs.length * c.w := by
  rw [rawIndex_eq, flatten_length_of_all c.w _ (by
    intro g hg; obtain ⟨o, _, rfl⟩ := List.mem_map.mp hg; exact leW_length c o), List.length_map]

theorem readOffsets_rawIndex (c : Cfg) (offs : List Nat) (h : ∀ o ∈ offs, o < c.maxOff) :
    readOffsets c (rawIndex c offs) = offs := by
  unfold readOffsets groups
  have hall : ∀ g ∈ offs.map c.leW, g.length = c.w := by
    intro g hg; obtain ⟨o, _, rfl⟩ := List.mem_map.mp hg; exact leW_length c o
  rw [rawIndex_eq, chunksOf_of_flatten c.w (w_pos c) _ _ hall (by omega), List.map_map]
  have : ∀ o ∈ offs, (ofLe ∘ c.leW) o = id o := fun o ho => ofLe_leW c o (h o ho)
  rw [List.map_congr_left this, List.map_id]

theorem readOffsets_length (c : Cfg) (big : Bool) (raw : Bytes) (m : Nat) (h : raw.length = m * c.w) :
    (readOffsets c (bytesDec big c.w raw)).length = m := by
  have hmod : raw.length % c.w = 0 := by rw [h]; exact Nat.mul_mod_left m c.w
  have hlen : (bytesDec big c.w raw).length = raw.length := (bytes_dec_enc' big c.w raw (Or.inr hmod)).2
  unfold readOffsets groups
  rw [List.length_map]
  have hmod' : (bytesDec big c.w raw).length % c.w = 0 := by rw [hlen]; exact hmod
  have hall := chunksOf_all_length c.w (w_pos c) ((bytesDec big c.w raw).length + 1) _ hmod'
  have hfl := chunksOf_flatten c.w (w_pos c) ((bytesDec big c.w raw).length + 1) (bytesDec big c.w raw) (by omega)
  have := flatten_length_of_all c.w _ hall
  rw [hfl] at this
  have h' : m * c.w = (chunksOf c.w ((bytesDec big c.w raw).length + 1) (bytesDec big c.w raw)).length * c.w := by
    rw [← h, ← hlen]; exact this
  exact (Nat.eq_of_mul_eq_mul_right (w_pos c) h').symm

theorem vlenPack_some (c : Cfg) (offs : List Nat) (data b : Bytes) (h : vlenPack c offs data = some b) :
    ∃ idx d, chainEnc c.idxChain (bytesEnc c.idxBig c.w (rawIndex c offs)) = some idx ∧
      (if data.length = 0 then some [] else chainEnc c.dataChain data) = some d ∧
      b = le64 idx.length ++ idx ++ d := by
  unfold vlenPack at h
  cases hi : chainEnc c.idxChain (bytesEnc c.idxBig c.w (rawIndex c offs)) with
  | none => rw [hi] at h; cases h
  | some idx =>
    rw [hi] at h
    simp only at h
    cases hd : (if data.length = 0 then some [] else chainEnc c.dataChain data) with
    | none => rw [hd] at h; cases h
    | some d =>
      rw [hd] at h
      simp only [Option.some.injEq] at h
      exact ⟨idx, d, rfl, rfl, h.symm⟩

/-- decoding a packed value reads the index back and continues on the encoded data -/
theorem vlenDec_packed (c : Cfg) (hl : ∀ x ∈ c.idxChain, x.Lawful) (n : Nat) (offs : List Nat) (idx d : Bytes)
    (hn : offs.length = n + 1) (ho : ∀ o ∈ offs, o < c.maxOff)
    (hi : chainEnc c.idxChain (bytesEnc c.idxBig c.w (rawIndex c offs)) = some idx) (hidx : idx.length < 2 ^ 64) :
    vlenDec c n (le64 idx.length ++ idx ++ d) = vlenDecTail c offs d := by
  have hmod : (rawIndex c offs).length % c.w = 0 := by rw [rawIndex_length]; exact Nat.mul_mod_left _ _
  have hbe := bytes_dec_enc' c.idxBig c.w (rawIndex c offs) (Or.inr hmod)
  unfold vlenDec
  have h1 : ¬ ((le64 idx.length ++ idx ++ d).length < 8) := by simp [le64_length]
  have h2 : (le64 idx.length ++ idx ++ d).take 8 = le64 idx.length := by
    rw [List.append_assoc]; exact List.take_left' (le64_length _)
  have h3 : ¬ ((le64 idx.length ++ idx ++ d).length < 8 + idx.length) := by
    simp only [List.length_append, le64_length]; omega
  have h4 : slice (le64 idx.length ++ idx ++ d) 8 (8 + idx.length) = idx := by
    unfold slice
    rw [List.append_assoc, List.drop_left' (le64_length _), Nat.add_sub_cancel_left, List.take_left]
  have h5 : (le64 idx.length ++ idx ++ d).drop (8 + idx.length) = d := by
    exact List.drop_left' (by simp [le64_length])
  have h6 : (bytesEnc c.idxBig c.w (rawIndex c offs)).length = (n + 1) * c.w := by
    rw [hbe.2, rawIndex_length, hn]
  simp only [h1, if_false, h2, ofLe_le64 _ hidx, h3, h4, chain_dec_enc' _ hl _ _ hi, h6, ne_eq, not_true_eq_false,
    h5, hbe.1, readOffsets_rawIndex c offs ho]

/-- what the tail accepts: the offsets it was given, validated against the data it decoded -/
theorem vlenDecTail_ok (c : Cfg) (offs : List Nat) (rest : Bytes) (v : VArr)
    (h : vlenDecTail c offs rest = .ok v) :
    v.offsets = offs ∧ offsetsOk v.data.length offs = true ∧ offs.getLast? = some v.data.length ∧
      ((v.data = [] ∧ offs.getLast? = some 0) ∨ chainDec c.dataChain rest = some v.data) := by
  unfold vlenDecTail at h
  cases hlast : offs.getLast? with
  | none => rw [hlast] at h; cases h
  | some expected =>
    rw [hlast] at h
    simp only at h
    by_cases h0 : expected = 0
    · simp only [h0, if_true] at h
      by_cases hok : offsetsOk ([] : Bytes).length offs = true
      · simp only [hok, if_true, Except.ok.injEq] at h
        subst h
        exact ⟨rfl, hok, by simp [h0], Or.inl ⟨rfl, by rw [h0]⟩⟩
      · simp only [hok, Bool.false_eq_true, if_false] at h; cases h
    · simp only [h0, if_false] at h
      cases hd : chainDec c.dataChain rest with
      | none => rw [hd] at h; cases h
      | some d =>
        rw [hd] at h
        simp only at h
        by_cases hlen : d.length = expected
        · simp only [hlen, ne_eq, not_true_eq_false, if_false] at h
          by_cases hok : offsetsOk d.length offs = true
          · rw [hlen] at hok
            simp only [hok, if_true, Except.ok.injEq] at h
            subst h
            exact ⟨rfl, by rw [hlen]; exact hok, by rw [hlen], Or.inr rfl⟩
          · rw [hlen] at hok
            simp only [hok, Bool.false_eq_true, if_false] at h; cases h
        · simp only [ne_eq, hlen, not_false_eq_true, if_true] at h; cases h

/-- the tail on a valid value's own offsets and encoded data returns the value -/
theorem vlenDecTail_valid (c : Cfg) (hl : ∀ x ∈ c.dataChain, x.Lawful) (n : Nat) (v : VArr) (d : Bytes)
    (hv : v.valid n = true)
    (hd : (if v.data.length = 0 then some [] else chainEnc c.dataChain v.data) = some d) :
    vlenDecTail c v.offsets d = .ok v := by
  obtain ⟨_, hok, hlast⟩ := (valid_iff n v).mp hv
  unfold vlenDecTail
  rw [hlast]
  simp only
  by_cases h0 : v.data.length = 0
  · have hnil : v.data = [] := List.eq_nil_of_length_eq_zero h0
    rw [h0] at hok
    simp only [h0, if_true, List.length_nil, hok]
    cases v with
    | mk data offsets => simp only at hnil; subst hnil; rfl
  · simp only [h0, if_false] at hd ⊢
    rw [chain_dec_enc' _ hl _ _ hd]
    simp only [ne_eq, not_true_eq_false, if_false, hok, if_true]

theorem validLoop_le (len : Nat) : ∀ (os : List Nat) (last r : Nat), validLoop len last os = some r →
    ∀ o ∈ os, o ≤ len
  | [], _, _, _ => by simp
  | o :: os, last, r, h => by
    rw [validLoop] at h
    by_cases hb : (decide (o < last) || decide (o > len)) = true
    · simp only [hb, if_true] at h; cases h
    · simp only [hb, Bool.false_eq_true, if_false] at h
      simp only [Bool.or_eq_true, decide_eq_true_eq, not_or, Nat.not_lt] at hb
      intro o' ho'
      rcases List.mem_cons.mp ho' with rfl | ho'
      · exact hb.2
      · exact validLoop_le len os o r h o' ho'

/-- every offset of a valid value is inside the bytes -/
theorem valid_offsets_le (n : Nat) (v : VArr) (h : v.valid n = true) : ∀ o ∈ v.offsets, o ≤ v.data.length := by
  unfold VArr.valid at h
  simp only [Bool.and_eq_true] at h
  cases hv : validLoop v.data.length 0 v.offsets with
  | none => rw [hv] at h; cases h.2
  | some r => exact validLoop_le _ _ _ _ hv

end Zarrs.Vlen
