import ZarrsModel.Model.MetaOpts
import ZarrsModel.Lemmas.MetaOptsAlias
import ZarrsModel.Lemmas.MetaOptsChain
import ZarrsModel.Lemmas.MetaWf
import ZarrsModel.Lemmas.MetaV2
import ZarrsModel.Lemmas.MetaV2Wf
import ZarrsModel.Lemmas.MetaV2Conv
/- helper lemmas for `Props/C13Opts.lean`: the `_zarrs` attribute (`mapInsert`), and what `metadataOpt` keeps of a
   document (well-formedness, acceptance, the V2 -> V3 interpretation) -/
set_option Elab.async false
namespace Zarrs.MetaOpts
open Zarrs.Json Zarrs.Meta Zarrs.MetaV2

/-! ### `mapInsert` -/

def setKey (k : Str) (v : J) (kv : Str × J) : Str × J := if kv.1 == k then (kv.1, v) else kv

theorem mapInsert_eq (o : Obj) (k : Str) (v : J) :
    mapInsert o k v = if (lookup o k).isSome then o.map (setKey k v) else o ++ [(k, v)] := rfl

theorem setKey_fst (k : Str) (v : J) (kv : Str × J) : (setKey k v kv).1 = kv.1 := by
  unfold setKey; split <;> rfl

theorem map_setKey_keys (o : Obj) (k : Str) (v : J) : (o.map (setKey k v)).map (·.1) = o.map (·.1) := by
  rw [List.map_map]
  apply List.map_congr_left
  intro kv _
  exact setKey_fst k v kv

theorem lookup_map_setKey (o : Obj) (k : Str) (v : J) : lookup (o.map (setKey k v)) k = (lookup o k).map (fun _ => v) := by
  induction o with
  | nil => rfl
  | cons kv r ih =>
    obtain ⟨a, b⟩ := kv
    rw [List.map_cons]
    by_cases h : (a == k) = true
    · have : setKey k v (a, b) = (a, v) := by simp [setKey, h]
      rw [this, lookup_cons, lookup_cons, h]; rfl
    · have h' : (a == k) = false := by simpa using h
      have : setKey k v (a, b) = (a, b) := by simp [setKey, h']
      rw [this, lookup_cons_ne _ _ _ _ h', lookup_cons_ne _ _ _ _ h', ih]

theorem without_map_setKey (o : Obj) (k : Str) (v : J) : without (o.map (setKey k v)) k = without o k := by
  induction o with
  | nil => rfl
  | cons kv r ih =>
    obtain ⟨a, b⟩ := kv
    unfold without at ih ⊢
    rw [List.map_cons, List.filter_cons, List.filter_cons, ih, setKey_fst]
    by_cases h : (a == k) = true
    · have hne : (a != k) = false := by simp only [bne, h, Bool.not_true]
      simp [hne]
    · have h' : (a == k) = false := by simpa using h
      have : setKey k v (a, b) = (a, b) := by simp [setKey, h']
      rw [this]

/-- the inserted key holds the value -/
theorem lookup_mapInsert (o : Obj) (k : Str) (v : J) : lookup (mapInsert o k v) k = some v := by
  rw [mapInsert_eq]
  cases h : lookup o k with
  | some x => simp only [Option.isSome_some, if_true, lookup_map_setKey, h, Option.map_some]
  | none =>
    simp only [Option.isSome_none, Bool.false_eq_true, if_false, lookup_append, h]
    rw [lookup_cons_eq]; rfl

/-- every other key is untouched, in order -/
theorem without_mapInsert (o : Obj) (k : Str) (v : J) : without (mapInsert o k v) k = without o k := by
  rw [mapInsert_eq]
  cases h : lookup o k with
  | some x => simp only [Option.isSome_some, if_true, without_map_setKey]
  | none =>
    simp only [Option.isSome_none, Bool.false_eq_true, if_false]
    unfold without
    rw [List.filter_append]
    simp

theorem mapInsert_absent (o : Obj) (k : Str) (v : J) (h : lookup o k = none) : mapInsert o k v = o ++ [(k, v)] := by
  rw [mapInsert_eq, h]; rfl

theorem mem_mapInsert_val (o : Obj) (k : Str) (v : J) : ∀ kv ∈ mapInsert o k v, (kv.1 == k) = true → kv.2 = v := by
  intro kv hkv hk
  rw [mapInsert_eq] at hkv
  cases h : lookup o k with
  | some x =>
    simp only [h, Option.isSome_some, if_true, List.mem_map] at hkv
    obtain ⟨kv0, _, rfl⟩ := hkv
    rw [setKey_fst] at hk
    simp [setKey, hk]
  | none =>
    simp only [h, Option.isSome_none, Bool.false_eq_true, if_false, List.mem_append, List.mem_cons, List.not_mem_nil,
      or_false] at hkv
    rcases hkv with hm | rfl
    · have := (lookup_eq_none_iff o k).1 h
      have hk' : kv.1 = k := by simpa using hk
      exact absurd (List.mem_map.2 ⟨kv, hm, hk'⟩) this
    · rfl

/-- inserting the same entry again changes nothing -/
theorem mapInsert_idem (o : Obj) (k : Str) (v : J) : mapInsert (mapInsert o k v) k v = mapInsert o k v := by
  rw [mapInsert_eq (mapInsert o k v), lookup_mapInsert]
  simp only [Option.isSome_some, if_true]
  have : ∀ kv ∈ mapInsert o k v, setKey k v kv = kv := by
    intro kv hkv
    unfold setKey
    split
    · rename_i hk
      have := mem_mapInsert_val o k v kv hkv hk
      obtain ⟨a, b⟩ := kv
      simp only at this
      rw [this]
    · rfl
  rw [List.map_congr_left this, List.map_id']

theorem mapInsert_wf (o : Obj) (k : Str) (v : J) (ho : wfKVs o ∧ keysDistinct o) (hk : strOk k) (hv : v.wf) :
    wfKVs (mapInsert o k v) ∧ keysDistinct (mapInsert o k v) := by
  obtain ⟨h1, h2⟩ := ho
  rw [mapInsert_eq]
  cases h : lookup o k with
  | some x =>
    simp only [Option.isSome_some, if_true]
    refine ⟨?_, ?_⟩
    · rw [wfKVs_iff]
      intro kv hkv
      rw [List.mem_map] at hkv
      obtain ⟨kv0, hkv0, rfl⟩ := hkv
      have := (wfKVs_iff o).1 h1 kv0 hkv0
      unfold setKey
      split
      · exact ⟨this.1, hv⟩
      · exact this
    · unfold keysDistinct
      rw [map_setKey_keys]
      exact h2
  | none =>
    simp only [Option.isSome_none, Bool.false_eq_true, if_false]
    refine ⟨?_, ?_⟩
    · rw [wfKVs_iff]
      intro kv hkv
      simp only [List.mem_append, List.mem_cons, List.not_mem_nil, or_false] at hkv
      rcases hkv with hm | rfl
      · exact (wfKVs_iff o).1 h1 kv hm
      · exact ⟨hk, hv⟩
    · unfold keysDistinct at h2 ⊢
      rw [List.map_append, List.nodup_append]
      refine ⟨h2, by simp, ?_⟩
      intro a ha b hb
      simp only [List.map_cons, List.map_nil, List.mem_cons, List.not_mem_nil, or_false] at hb
      subst hb
      intro e
      subst e
      exact (lookup_eq_none_iff o a).1 h ha

theorem strOk_kZarrs : strOk kZarrs := strOk_ascii _ (by decide)

theorem zarrsValue_wf : zarrsValue.wf := by
  unfold zarrsValue
  rw [obj_wf_iff]
  refine ⟨?_, by unfold keysDistinct; decide⟩
  rw [wfKVs_iff]
  intro kv hkv
  simp only [List.mem_cons, List.not_mem_nil, or_false] at hkv
  rcases hkv with rfl | rfl | rfl
  · exact ⟨strOk_ascii _ (by decide), (str_wf_iff _).2 (strOk_ascii _ (by decide))⟩
  · exact ⟨strOk_ascii _ (by decide), (str_wf_iff _).2 (strOk_ascii _ (by decide))⟩
  · exact ⟨strOk_ascii _ (by decide), (str_wf_iff _).2 (strOk_ascii _ (by decide))⟩

theorem withZarrs_wf (o : Opts) (a : Obj) (h : wfKVs a ∧ keysDistinct a) :
    wfKVs (withZarrs o a) ∧ keysDistinct (withZarrs o a) := by
  unfold withZarrs
  split
  · exact mapInsert_wf a _ _ h strOk_kZarrs zarrsValue_wf
  · exact h

theorem withZarrs_idem (o : Opts) (a : Obj) : withZarrs o (withZarrs o a) = withZarrs o a := by
  unfold withZarrs
  split
  · exact mapInsert_idem _ _ _
  · rfl

theorem without_withZarrs (o : Opts) (a : Obj) : without (withZarrs o a) kZarrs = without a kZarrs := by
  unfold withZarrs
  split
  · exact without_mapInsert _ _ _
  · rfl

/-! ### data types -/

theorem builtin_not_binary : ∀ n ∈ builtinDataTypes, n ≠ ascii "binary" := by decide

/-- an accepted data type is never rewritten: `binary`, the only aliased name, is not accepted -/
theorem dataTypeOk_rename (m : MetaV3) (h : dataTypeOk m = true) : renameV3 dtypeV3 m = m := by
  have hn : m.name ≠ ascii "binary" := by
    unfold dataTypeOk at h
    simp only [Bool.and_eq_true, Bool.or_eq_true, List.contains_iff_mem] at h
    rcases h.2 with hb | hr
    · exact builtin_not_binary _ hb
    · intro e
      rw [e] at hr
      revert hr
      decide
  unfold renameV3
  rw [dtypeV3_convert, if_neg hn]

/-! ### V3 documents -/

theorem renameV3_good (a : Aliases) (hs : ∀ n, strOk n → strOk (a.convert n)) (m : MetaV3) (h : MetaV3.good m) :
    MetaV3.good (renameV3 a m) := ⟨hs _ h.1, h.2⟩

theorem aliasV3_good (d : ArrayDoc) (h : d.good) : (aliasV3 d).good := by
  refine ⟨h.shape, renameV3_good _ strOk_dtypeV3_convert _ h.dt, h.cg, h.ck, h.fill, ?_, h.attrs, h.st, h.dn, h.extra, h.sorted⟩
  intro c hc
  simp only [aliasV3, List.mem_map] at hc
  obtain ⟨c0, hc0, rfl⟩ := hc
  exact renameV3_good _ strOk_codecV3_convert _ (h.codecs c0 hc0)

theorem aliasV3_openOk (d : ArrayDoc) (r : Nat) : openOk (aliasV3 d) r = openOk d r := rfl

theorem toMeta_good (n : Named) (hn : strOk n.name) (hc : wfKVs n.codec.config ∧ keysDistinct n.codec.config) :
    MetaV3.good n.toMeta := by
  refine ⟨hn, ?_⟩
  intro c hcfg
  cases hcfg
  exact hc

/-- the names of a chain are names the codec list gave -/
theorem chain_names_ok (plug : Plug) (ms : List MetaV3) (ch : Chain) (h : chainOf plug ms = some ch)
    (hms : ∀ m ∈ ms, MetaV3.good m) : ∀ n ∈ ch.all, strOk n.name := by
  intro n hn
  obtain ⟨m, hm, hname, _⟩ := mem_createdOf plug ms n (chainOf_mem plug ms ch h n hn)
  rw [hname]
  exact (hms m hm).1

theorem metadatas_good (o : Opts) (ch : Chain) (hn : ∀ n ∈ ch.all, strOk n.name)
    (hc : ∀ n ∈ ch.all, wfKVs n.codec.config ∧ keysDistinct n.codec.config) : ∀ c ∈ ch.metadatas o, MetaV3.good c := by
  intro c hc'
  simp only [Chain.metadatas, List.mem_map, List.mem_filter] at hc'
  obtain ⟨n, ⟨hm, _⟩, rfl⟩ := hc'
  exact toMeta_good n (hn n hm) (hc n hm)

/-! ### V2 documents -/

theorem codecIdent_convert (id : Str) : codecIdent (codecV2.convert id) = codecIdent id := by
  rw [codecIdent_eq, codecIdent_eq]
  exact codecV2.identifier_convert codecV2_coherent id

theorem filterToV3_rename (f : MetaV2) : filterToV3 (renameV2 codecV2 f) = filterToV3 f := by
  unfold filterToV3 renameV2
  simp only [codecIdent_convert]

theorem compressorA2B_rename (c : MetaV2) : compressorA2B (renameV2 codecV2 c) = compressorA2B c := by
  unfold compressorA2B renameV2
  simp only [codecIdent_convert]

theorem compressorB2B_rename (dt : Str) (c : MetaV2) : compressorB2B dt (renameV2 codecV2 c) = compressorB2B dt c := by
  unfold compressorB2B renameV2
  simp only [codecIdent_convert]

theorem codecsHead_rename (order : Order) (rank : Nat) (endian : Option Endian) (filters : Option (List MetaV2))
    (compressor : Option MetaV2) :
    codecsHead order rank endian (filters.map (·.map (renameV2 codecV2))) (compressor.map (renameV2 codecV2)) =
    codecsHead order rank endian filters compressor := by
  unfold codecsHead
  have h1 : ((filters.map (·.map (renameV2 codecV2))).getD []).map filterToV3 = (filters.getD []).map filterToV3 := by
    cases filters with
    | none => rfl
    | some fs =>
      simp only [Option.map_some, Option.getD_some, List.map_map]
      apply List.map_congr_left
      intro f _
      exact filterToV3_rename f
  have h2 : (compressor.map (renameV2 codecV2)).bind compressorA2B = compressor.bind compressorA2B := by
    cases compressor with
    | none => rfl
    | some c => simp only [Option.map_some, Option.bind_some, compressorA2B_rename]
  simp only [h1, h2]

theorem codecsV2ToV3_rename (order : Order) (rank : Nat) (dt : Str) (endian : Option Endian) (filters : Option (List MetaV2))
    (compressor : Option MetaV2) :
    codecsV2ToV3 order rank dt endian (filters.map (·.map (renameV2 codecV2))) (compressor.map (renameV2 codecV2)) =
    codecsV2ToV3 order rank dt endian filters compressor := by
  cases compressor with
  | none =>
    have := codecsHead_rename order rank endian filters none
    simp only [Option.map_none] at this
    simp only [codecsV2ToV3, Option.map_none, this]
  | some c =>
    have := codecsHead_rename order rank endian filters (some c)
    simp only [Option.map_some] at this
    simp only [codecsV2ToV3, Option.map_some, this, compressorB2B_rename]

/-- **the V2 -> V3 interpretation does not see the alias conversion of a V2 document** -/
theorem v2ToV3_aliasV2 (d : ArrayDocV2) : v2ToV3 (aliasV2 d) = v2ToV3 d := by
  unfold v2ToV3 aliasV2
  simp only [codecsV2ToV3_rename]

/-- the attributes are carried through the conversion and nothing depends on them -/
theorem v2ToV3_attrs (d : ArrayDocV2) (a : Obj) :
    v2ToV3 { d with attrs := a } = (v2ToV3 d).map (fun v => { v with attrs := a }) := by
  unfold v2ToV3
  simp only
  cases d.dtype with
  | structured fs => rfl
  | simple s =>
    simp only
    cases endianOf s with
    | none => rfl
    | some e =>
      simp only
      cases fillConv (dtypeNameV3 s) d.fill with
      | none => rfl
      | some f =>
        simp only
        split
        · rfl
        · cases codecsV2ToV3 d.order d.shape.length (dtypeNameV3 s) e d.filters d.compressor <;> rfl

theorem renameV2_shapeOk (m : MetaV2) (h : m.shapeOk) : (renameV2 codecV2 m).shapeOk := h
theorem renameV2_wfp (m : MetaV2) (h : m.wfp) : (renameV2 codecV2 m).wfp := ⟨strOk_codecV2_convert _ h.1, h.2⟩

theorem aliasV2_shapeOk (d : ArrayDocV2) (h : d.shapeOk) : (aliasV2 d).shapeOk := by
  refine ⟨h.shape, h.chunks, h.dt, ?_, h.fill, ⟨?_, ?_⟩, h.extraKeys, h.extraShape, h.sorted, h.noTag⟩
  · intro m hm
    simp only [aliasV2] at hm
    cases hc : d.compressor with
    | none => rw [hc] at hm; cases hm
    | some c =>
      rw [hc] at hm
      simp only [Option.map_some, Option.some.injEq] at hm
      subst hm
      exact renameV2_shapeOk c (h.comp c hc)
  · intro e
    simp only [aliasV2] at e
    cases hf : d.filters with
    | none => rw [hf] at e; cases e
    | some fs =>
      rw [hf] at e
      simp only [Option.map_some, Option.some.injEq, List.map_eq_nil_iff] at e
      subst e
      exact h.filters.1 hf
  · intro fs hfs f hf
    simp only [aliasV2] at hfs
    cases hfl : d.filters with
    | none => rw [hfl] at hfs; cases hfs
    | some fs0 =>
      rw [hfl] at hfs
      simp only [Option.map_some, Option.some.injEq] at hfs
      subst hfs
      rw [List.mem_map] at hf
      obtain ⟨f0, hf0, rfl⟩ := hf
      exact renameV2_shapeOk f0 (h.filters.2 fs0 hfl f0 hf0)

theorem aliasV2_wfParts (d : ArrayDocV2) (h : d.wfParts) : (aliasV2 d).wfParts := by
  refine ⟨h.shape, h.chunks, h.dt, ?_, h.fill, ?_, h.attrs, h.extra⟩
  · intro m hm
    simp only [aliasV2] at hm
    cases hc : d.compressor with
    | none => rw [hc] at hm; cases hm
    | some c =>
      rw [hc] at hm
      simp only [Option.map_some, Option.some.injEq] at hm
      subst hm
      exact renameV2_wfp c (h.comp c hc)
  · intro fs hfs f hf
    simp only [aliasV2] at hfs
    cases hfl : d.filters with
    | none => rw [hfl] at hfs; cases hfs
    | some fs0 =>
      rw [hfl] at hfs
      simp only [Option.map_some, Option.some.injEq] at hfs
      subst hfs
      rw [List.mem_map] at hf
      obtain ⟨f0, hf0, rfl⟩ := hf
      exact renameV2_wfp f0 (h.filters fs0 hfl f0 hf0)

theorem aliasV2_idem (d : ArrayDocV2) : aliasV2 (aliasV2 d) = aliasV2 d := by
  have hr : ∀ m, renameV2 codecV2 (renameV2 codecV2 m) = renameV2 codecV2 m := by
    intro m
    simp only [renameV2, codecV2.convert_idem codecV2_coherent]
  have hf : (d.filters.map (·.map (renameV2 codecV2))).map (·.map (renameV2 codecV2)) =
      d.filters.map (·.map (renameV2 codecV2)) := by
    cases d.filters with
    | none => rfl
    | some fs =>
      simp only [Option.map_some, List.map_map, Option.some.injEq]
      apply List.map_congr_left
      intro f _
      exact hr f
  have hc : (d.compressor.map (renameV2 codecV2)).map (renameV2 codecV2) = d.compressor.map (renameV2 codecV2) := by
    cases d.compressor with
    | none => rfl
    | some c => simp only [Option.map_some, hr]
  unfold aliasV2
  simp only [hf, hc]

theorem aliasV3_idem (d : ArrayDoc) : aliasV3 (aliasV3 d) = aliasV3 d := by
  have hc : (d.codecs.map (renameV3 codecV3)).map (renameV3 codecV3) = d.codecs.map (renameV3 codecV3) := by
    rw [List.map_map]
    apply List.map_congr_left
    intro c _
    simp only [Function.comp, renameV3, codecV3.convert_idem codecV3_coherent]
  have hd : renameV3 dtypeV3 (renameV3 dtypeV3 d.dataType) = renameV3 dtypeV3 d.dataType := by
    simp only [renameV3, dtypeV3.convert_idem dtypeV3_coherent]
  unfold aliasV3
  simp only [hc, hd]

end Zarrs.MetaOpts
