import ZarrsModel.Lemmas.ChainSPEMain
set_option Elab.async false
/- helper lemmas for C05 on chains, part 13: one `partial_encode` call on an unsharded chain -/
namespace Zarrs.Partial
open Zarrs Zarrs.Codec Zarrs.Subset Zarrs.Shard Zarrs.ShardPE

theorem leafChain_step (c : Chain) (keep : List Bool) (sh : Shape) (fill : Elem)
    (hok : (ChainS.leaf c keep).okWith aOk BOk2 sh fill) (hnc : (ChainS.leaf c keep).topNoCache)
    (hfl : fill.length = c.es)
    (v : Option Bytes) (xs : List Elem) (hxl : xs.length = prod sh) (hxe : ∀ x ∈ xs, x.length = c.es)
    (hH : (ChainS.leaf c keep).Holds sh fill v xs) (ws : List RWrite) (hws : ∀ w ∈ ws, writeOk c.es sh w) :
    ∃ v', (ChainS.leaf c keep).partialEncode sh fill v ws = some v' ∧
      (ChainS.leaf c keep).Holds sh fill v' (applyRegionWrites sh xs ws) ∧
      (v' = none ↔ (applyRegionWrites sh xs ws).all (· == fill) = true) := by
  obtain ⟨hes, hu, hdiv, ha, hB, _⟩ := hok
  obtain ⟨hnca, hncb⟩ := hnc
  have hb : ∀ st ∈ c.b2b, BOk st := fun st hst => ⟨(hB st hst).1, (hB st hst).2, hncb st hst⟩
  have hnewl := applyRegionWrites_length sh c.es ws xs hxl hws
  obtain ⟨v', h1, h2, h3⟩ := aPE_spec c.es fill hfl
    (fun rest esh => Chain.partialDecoder { c with a2a := rest, b2b := c.b2b } esh fill (storeHandle v))
    (fun esh ws => leafPE c c.b2b esh fill v ws)
    (fun _ v' ys => match v' with
      | none => True
      | some b => b = encB c.b2b (bytesEnc c.big c.unit ys.flatten))
    c.a2a sh xs ws hnca ha hxl hxe hws
    (by
      intro pre rest st hsplit
      have ha' : aOk (pre ++ [st]) sh ∧ aOk rest (shapesOf (pre ++ [st]) sh) := by
        rw [← aOk_append, List.append_assoc]; simpa [hsplit] using ha
      obtain ⟨hl1, he1⟩ := aEnc_chunk c.es (pre ++ [st]) sh xs ha'.1 hxl hxe
      cases v with
      | none =>
        have hx : xs = List.replicate (prod sh) fill := hH
        rw [hx, aEnc_fill fill (pre ++ [st]) sh ha'.1]
        exact chain_absent_handle { c with a2a := rest, b2b := c.b2b } _ fill ha'.2 _ storeHandle_none_absent
      | some b =>
        have hbv : b = c.encode sh xs := hH
        apply chain_ok_handle { c with a2a := rest, b2b := c.b2b } _ fill _ hes hu hdiv hl1 he1 ha'.2
          (fun st hst => (hB st hst).2)
        rw [hbv, encode_eq, encode_eq]
        simp only
        rw [hsplit, show pre ++ st :: rest = (pre ++ [st]) ++ rest by simp, aEnc_append]
        exact storeHandle_some_ok _)
    (by
      intro ws' hws'
      obtain ⟨hyl, hye⟩ := aEnc_chunk c.es c.a2a sh xs ha hxl hxe
      have := leafPE_spec c c.b2b hb hes hdiv (shapesOf c.a2a sh) fill v (aEnc c.a2a sh xs) hyl hye (by
        cases v with
        | none =>
          have hx : xs = List.replicate (prod sh) fill := hH
          simp only
          rw [hx, aEnc_fill fill c.a2a sh ha]
        | some b =>
          have hbv : b = c.encode sh xs := hH
          simp only
          rw [hbv, encode_eq]
          rfl) ws' hws'
      by_cases hall : (applyRegionWrites (shapesOf c.a2a sh) (aEnc c.a2a sh xs) ws').all (· == fill) = true
      · rw [if_pos hall] at this
        exact ⟨none, this, trivial, by simp [hall]⟩
      · rw [if_neg hall] at this
        exact ⟨_, this, rfl, by simp [hall]⟩)
  refine ⟨v', ?_, ?_, h3⟩
  · simp only [ChainS.partialEncode, ChainS.partialEncodeWith, filter_noCache_a c.a2a hnca, filter_noCache_b c.b2b hncb]
    exact h1
  · cases v' with
    | none =>
      exact all_fill_replicate fill _ _ hnewl (h3.mp rfl)
    | some b =>
      show b = c.encode sh (applyRegionWrites sh xs ws)
      rw [encode_eq]
      exact h2

end Zarrs.Partial
