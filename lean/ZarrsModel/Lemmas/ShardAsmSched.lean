import ZarrsModel.Lemmas.ShardAsmFinal
set_option Elab.async false
/- schedules of the assembly machine: ranges at every reachable state, progress (fair schedules are complete),
sequential schedules of the racy machine -/
namespace Zarrs.ShardAsm
open Zarrs Zarrs.Codec

/-- the possible (chunk, pc) combinations under the invariant -/
theorem pc_cases (p : Params) (s : State) (inv : Inv p s) (i : Nat) (hi : i < p.chunks.length) :
    (p.chunks[i]? = some none ∧ s.pc[i]? = some .elided) ∨
    ∃ b, p.chunks[i]? = some (some b) ∧ (s.pc[i]? = some .start ∨ ∃ off, (i, off, b.length) ∈ s.log ∧
      (s.pc[i]? = some (.reserved off) ∨ s.pc[i]? = some (.indexed off) ∨ s.pc[i]? = some (.done off))) := by
  have hip : i < s.pc.length := by rw [inv.pcLen]; exact hi
  have h := inv.pcs i hi
  unfold PcOk at h
  rw [List.getElem?_eq_getElem hi, List.getElem?_eq_getElem hip] at h
  rw [List.getElem?_eq_getElem hi, List.getElem?_eq_getElem hip]
  generalize p.chunks[i] = c at h ⊢
  generalize s.pc[i] = x at h ⊢
  cases c with
  | none => cases x <;> first | exact h.elim | exact Or.inl ⟨rfl, rfl⟩
  | some b =>
    right
    cases x with
    | start => exact ⟨b, rfl, Or.inl rfl⟩
    | reserved off => exact ⟨b, rfl, Or.inr ⟨off, h.2, Or.inl rfl⟩⟩
    | indexed off => exact ⟨b, rfl, Or.inr ⟨off, h.2, Or.inr (Or.inl rfl)⟩⟩
    | done off => exact ⟨b, rfl, Or.inr ⟨off, h.2.1, Or.inr (Or.inr rfl)⟩⟩
    | _ => exact h.elim

/-- a range owned according to the program counters is a logged reservation -/
theorem rangeOf_log (p : Params) (s : State) (inv : Inv p s) (i a e : Nat) (h : rangeOf p s i = some (a, e)) :
    ∃ b, p.chunks[i]? = some (some b) ∧ (i, a, b.length) ∈ s.log ∧ e = a + b.length := by
  unfold rangeOf at h
  split at h
  · rename_i b off hc hp
    have hi := lt_of_getElem?_some hc
    simp only [Option.some.injEq, Prod.mk.injEq] at h
    obtain ⟨rfl, rfl⟩ := h
    exact ⟨b, hc, (pcOk_reserved_elim hc hp (inv.pcs i hi)).2, rfl⟩
  · rename_i b off hc hp
    have hi := lt_of_getElem?_some hc
    simp only [Option.some.injEq, Prod.mk.injEq] at h
    obtain ⟨rfl, rfl⟩ := h
    exact ⟨b, hc, (pcOk_indexed_elim hc hp (inv.pcs i hi)).2, rfl⟩
  · rename_i b off hc hp
    have hi := lt_of_getElem?_some hc
    simp only [Option.some.injEq, Prod.mk.injEq] at h
    obtain ⟨rfl, rfl⟩ := h
    exact ⟨b, hc, (pcOk_done_elim hc hp (inv.pcs i hi)).2.1, rfl⟩
  · cases h

/-- … and every logged reservation is owned by its task -/
theorem log_rangeOf (p : Params) (s : State) (inv : Inv p s) (e : Nat × Nat × Nat) (he : e ∈ s.log) :
    rangeOf p s e.1 = some (e.2.1, e.2.1 + e.2.2) := by
  obtain ⟨b, hb, hbl⟩ := inv.logLen e he
  have hi := lt_of_getElem?_some hb
  rcases pc_cases p s inv e.1 hi with ⟨hn, _⟩ | ⟨b', hc, hpc⟩
  · rw [hb] at hn; cases hn
  · rw [hb] at hc
    simp only [Option.some.injEq] at hc
    subst hc
    rcases hpc with hst | ⟨off, hlog, hpc⟩
    · exact absurd rfl ((pcOk_start_elim hb hst (inv.pcs e.1 hi)).2 e he)
    · have hee := inv.logIds e he _ hlog rfl
      have ho : e.2.1 = off := by rw [hee]
      unfold rangeOf
      rcases hpc with h | h | h <;> rw [hb, h] <;> simp only [ho, hbl]

/-! ### progress -/

def rank : Option Pc → Nat
  | some .start => 0
  | some (.loaded _) => 0
  | some (.reserved _) => 1
  | some (.indexed _) => 2
  | _ => 3

theorem step_pc_other (racy : Bool) (p : Params) (s : State) (i j : Nat) (h : i ≠ j) : (step racy p s i).pc[j]? = s.pc[j]? := by
  unfold step
  split
  · split
    · exact getElem?_set_ne' _ _ _ _ h
    · split <;> exact getElem?_set_ne' _ _ _ _ h
  · split <;> exact getElem?_set_ne' _ _ _ _ h
  · exact getElem?_set_ne' _ _ _ _ h
  · split <;> exact getElem?_set_ne' _ _ _ _ h
  · rfl

/-- a step of task `i` advances `i` (atomic machine) -/
theorem step_rank_self (p : Params) (s : State) (inv : Inv p s) (i : Nat) (hi : i < p.chunks.length) :
    min 3 (rank s.pc[i]? + 1) ≤ rank (step false p s i).pc[i]? := by
  have hip : i < s.pc.length := by rw [inv.pcLen]; exact hi
  rcases pc_cases p s inv i hi with ⟨hc, hp⟩ | ⟨b, hc, hp | ⟨off, _, hp | hp | hp⟩⟩
  · simp only [step, hc, hp]; simp [rank]
  · simp only [step, hc, hp, Bool.false_eq_true, if_false]
    split <;> simp [getElem?_set_self' _ _ _ hip, rank]
  · simp only [step, hc, hp]
    simp [getElem?_set_self' _ _ _ hip, rank]
  · simp only [step, hc, hp]
    split <;> simp [getElem?_set_self' _ _ _ hip, rank]
  · simp only [step, hc, hp]; simp [rank]

theorem run_rank (p : Params) (hfit : p.fits = true) (sched : List Nat) : ∀ (s : State), Inv p s → ∀ j, j < p.chunks.length →
    min 3 (rank s.pc[j]? + sched.count j) ≤ rank (run false p s sched).pc[j]? := by
  induction sched with
  | nil => intro s _ j _; simp only [run, List.count_nil, Nat.add_zero]; omega
  | cons i rest ih =>
    intro s inv j hj
    have inv' := inv_step p hfit s i inv
    have := ih _ inv' j hj
    simp only [run]
    by_cases hij : i = j
    · subst hij
      have h1 := step_rank_self p s inv i hj
      simp only [List.count_cons_self]
      omega
    · rw [step_pc_other false p s i j hij] at this
      rw [List.count_cons_of_ne hij]
      exact this

/-- a fair schedule: every task is scheduled at least three times (reserve, index entry, copy) -/
def fair (p : Params) (sched : List Nat) : Bool := (List.range p.chunks.length).all (fun i => decide (3 ≤ sched.count i))

/-- **fair schedules of the atomic machine are complete** (no task fails, none is left unfinished) -/
theorem fair_complete (p : Params) (hfit : p.fits = true) (sched : List Nat) (hfair : fair p sched = true) :
    complete (run false p (init p) sched) = true := by
  have inv := inv_run p hfit sched _ (inv_init p)
  unfold complete
  rw [List.all_eq_true]
  intro x hx
  obtain ⟨j, hj, rfl⟩ := List.getElem_of_mem hx
  have hj' : j < p.chunks.length := by rw [← inv.pcLen]; exact hj
  have h3 : 3 ≤ sched.count j := by
    simp only [fair, List.all_eq_true, List.mem_range, decide_eq_true_eq] at hfair
    exact hfair j hj'
  have hr := run_rank p hfit sched _ (inv_init p) j hj'
  rcases pc_cases p _ inv j hj' with ⟨_, hp⟩ | ⟨b, _, hp | ⟨off, _, hp | hp | hp⟩⟩
  · rw [List.getElem?_eq_getElem hj] at hp
    simp only [Option.some.injEq] at hp; rw [hp]; rfl
  · rw [hp] at hr; simp only [rank] at hr; omega
  · rw [hp] at hr; simp only [rank] at hr; omega
  · rw [hp] at hr; simp only [rank] at hr; omega
  · rw [List.getElem?_eq_getElem hj] at hp
    simp only [Option.some.injEq] at hp; rw [hp]; rfl


/-! ### sequential schedules of the racy machine -/

/-- no step ever puts a task back to `start` -/
theorem step_not_start (racy : Bool) (p : Params) (s : State) (i j : Nat) (h : (step racy p s i).pc[j]? = some .start) :
    s.pc[j]? = some .start := by
  by_cases hij : i = j
  · subst hij
    have key : ∀ (x : Pc), x ≠ .start → (s.pc.set i x)[i]? = some .start → s.pc[i]? = some .start := by
      intro x hx hs
      rw [List.getElem?_set] at hs
      simp only [if_true] at hs
      split at hs
      · simp only [Option.some.injEq] at hs; exact absurd hs hx
      · cases hs
    unfold step at h
    split at h
    · split at h
      · exact key _ (by intro h; cases h) h
      · split at h <;> exact key _ (by intro h; cases h) h
    · split at h <;> exact key _ (by intro h; cases h) h
    · exact key _ (by intro h; cases h) h
    · split at h <;> exact key _ (by intro h; cases h) h
    · exact h
  · rw [step_pc_other racy p s i j hij] at h; exact h

/-- away from `start` (and `loaded`, which the atomic machine never enters) the two machines step alike -/
theorem step_racy_eq (p : Params) (s : State) (inv : Inv p s) (i : Nat) (h : s.pc[i]? ≠ some .start) :
    step true p s i = step false p s i := by
  by_cases hi : i < p.chunks.length
  · rcases pc_cases p s inv i hi with ⟨hc, hp⟩ | ⟨b, hc, hp | ⟨off, _, hp | hp | hp⟩⟩
    · simp only [step, hc, hp]
    · exact absurd hp h
    · simp only [step, hc, hp]
    · simp only [step, hc, hp]
    · simp only [step, hc, hp]
  · have hc : p.chunks[i]? = none := List.getElem?_eq_none (by omega)
    simp only [step, hc]

theorem run_racy_eq (p : Params) (hfit : p.fits = true) (sched : List Nat) : ∀ (s : State), Inv p s →
    (∀ j ∈ sched, s.pc[j]? ≠ some .start) → run true p s sched = run false p s sched := by
  induction sched with
  | nil => intro s _ _; rfl
  | cons i rest ih =>
    intro s inv h
    simp only [run]
    rw [step_racy_eq p s inv i (h i List.mem_cons_self)]
    apply ih _ (inv_step p hfit s i inv)
    intro j hj hs
    exact h j (List.mem_cons_of_mem _ hj) (step_not_start false p s i j hs)

/-- `load` immediately followed by `store` is `fetch_add` -/
theorem racy_two_eq_atomic (p : Params) (hfit : p.fits = true) (s : State) (inv : Inv p s) (i : Nat)
    (hp : s.pc[i]? = some .start) : run true p s [i, i] = step false p s i := by
  have hip := lt_of_getElem?_some hp
  have hi : i < p.chunks.length := by rw [← inv.pcLen]; exact hip
  rcases pc_cases p s inv i hi with ⟨_, hp'⟩ | ⟨b, hc, _⟩
  · rw [hp] at hp'; cases hp'
  · have hroom := inv_room p s hfit inv i b hc hp
    have hck : (p.checks && decide (s.offset + b.length > p.cap)) = false := by
      simp only [Bool.and_eq_false_iff, decide_eq_false_iff_not]; right; omega
    have h1 : step true p s i = { s with pc := s.pc.set i (.loaded s.offset) } := by
      simp only [step, hc, hp, if_true]
    have h2 : ({ s with pc := s.pc.set i (.loaded s.offset) } : State).pc[i]? = some (.loaded s.offset) :=
      getElem?_set_self' _ _ _ hip
    simp only [run]
    rw [h1]
    simp only [step, hc, hp, h2, hck, Bool.false_eq_true, if_false, List.set_set]

theorem step_final_noop (racy : Bool) (p : Params) (s : State) (i : Nat) (h : rank s.pc[i]? = 3) : step racy p s i = s := by
  unfold step
  split <;> first | rfl | (rename_i h1 h2; rw [h2] at h; simp [rank] at h)

/-- one task run to its end: four consecutive steps of the racy machine are three of the atomic one -/
theorem racy_task_eq (p : Params) (hfit : p.fits = true) (s : State) (inv : Inv p s) (i : Nat) :
    run true p s [i, i, i, i] = run false p s [i, i, i] := by
  by_cases hp : s.pc[i]? = some .start
  · have h2 := racy_two_eq_atomic p hfit s inv i hp
    have : run true p s [i, i, i, i] = run true p (run true p s [i, i]) [i, i] := rfl
    rw [this, h2]
    have inv' := inv_step p hfit s i inv
    rw [run_racy_eq p hfit [i, i] _ inv']
    · rfl
    · intro j hj hs
      simp only [List.mem_cons, List.not_mem_nil, or_false, or_self] at hj
      subst hj
      have hip := lt_of_getElem?_some hp
      have hi : j < p.chunks.length := by rw [← inv.pcLen]; exact hip
      have := step_rank_self p s inv j hi
      rw [hs, hp] at this; simp [rank] at this
  · rw [run_racy_eq p hfit [i, i, i, i] s inv (by
      intro j hj
      simp only [List.mem_cons, List.not_mem_nil, or_false, or_self] at hj
      subst hj; exact hp)]
    have : run false p s [i, i, i, i] = step false p (run false p s [i, i, i]) i := rfl
    rw [this]
    by_cases hi : i < p.chunks.length
    · apply step_final_noop
      have hr := run_rank p hfit [i, i, i] s inv i hi
      have h3 : List.count i [i, i, i] = 3 := by simp
      rw [h3] at hr
      have hle : rank (run false p s [i, i, i]).pc[i]? ≤ 3 := by
        generalize (run false p s [i, i, i]).pc[i]? = o
        cases o with
        | none => simp [rank]
        | some x => cases x <;> simp [rank]
      omega
    · have hc : p.chunks[i]? = none := List.getElem?_eq_none (by omega)
      simp only [step, hc]

/-- **a sequential schedule of the racy machine (one task at a time) ends in the state of the atomic machine
under the corresponding sequential schedule** -/
theorem racy_seq_eq (p : Params) (hfit : p.fits = true) (order : List Nat) : ∀ (s : State), Inv p s →
    run true p s (seqSched 4 order) = run false p s (seqSched 3 order) := by
  induction order with
  | nil => intro s _; rfl
  | cons i rest ih =>
    intro s inv
    have h4 : seqSched 4 (i :: rest) = [i, i, i, i] ++ seqSched 4 rest := rfl
    have h3 : seqSched 3 (i :: rest) = [i, i, i] ++ seqSched 3 rest := rfl
    rw [h4, h3, run_append, run_append, racy_task_eq p hfit s inv i]
    exact ih _ (inv_run p hfit [i, i, i] s inv)

theorem seq_fair (p : Params) (order : List Nat) (h : ∀ i, i < p.chunks.length → i ∈ order) : fair p (seqSched 3 order) = true := by
  simp only [fair, List.all_eq_true, List.mem_range, decide_eq_true_eq]
  intro i hi
  have hm := h i hi
  clear h
  induction order with
  | nil => cases hm
  | cons j rest ih =>
    have h3 : seqSched 3 (j :: rest) = [j, j, j] ++ seqSched 3 rest := rfl
    rw [h3, List.count_append]
    by_cases hji : j = i
    · subst hji; simp
    · simp only [List.mem_cons] at hm
      rcases hm with rfl | hm
      · exact absurd rfl hji
      · have := ih hm; omega

end Zarrs.ShardAsm
