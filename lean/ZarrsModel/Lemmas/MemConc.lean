import ZarrsModel.Model.MemConc
import ZarrsModel.Model.FsConc
import ZarrsModel.Lemmas.MemConcPerms
import ZarrsModel.Lemmas.MemConcStep
import ZarrsModel.Lemmas.MemConcWF
import ZarrsModel.Lemmas.MemConcAssemble
/- helper lemmas for C18 (split over `Lemmas/MemConc*.lean` and `Lemmas/FsConc*.lean`) -/
