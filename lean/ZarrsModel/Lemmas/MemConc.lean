import ZarrsModel.Model.MemConc
import ZarrsModel.Model.FsConc
import ZarrsModel.Lemmas.MemConcPerms
import ZarrsModel.Lemmas.MemConcStep
import ZarrsModel.Lemmas.MemConcWF
import ZarrsModel.Lemmas.MemConcAssemble
import ZarrsModel.Lemmas.MemConcInv
import ZarrsModel.Lemmas.MemConcGhost
import ZarrsModel.Lemmas.MemConcHist
import ZarrsModel.Lemmas.MemConcLin
import ZarrsModel.Lemmas.MemConcFinish
import ZarrsModel.Lemmas.FsConc
/- helper lemmas for C18, split over `Lemmas/MemConc*.lean` (MemoryStore protocol) and `Lemmas/FsConc*.lean`
(FilesystemStore protocol):
  MemConcPerms     completeness of `perms`; the executable checker agrees with `∃ order, isLinearization`
  MemConcStep      accessors, case characterisation of `step .fixed`, function-level view and ghost-instrumented step
  MemConcWF        well-formedness invariant (lock exclusivity etc.), list-level step refines view-level step
  MemConcAssemble  from a ghost linearization list to `isLinearization`
  MemConcInv       generic step facts, logical value of a cell, helped readers
  MemConcGhost     ghost invariant and its preservation
  MemConcHist      responses equal ghost responses; linearization times lie in the operation intervals
  MemConcLin       induction over the schedule; linearizability; reads observe written values
  MemConcFinish    the repaired protocol can always finish
  FsConcInv/FsConc linearizability of the filesystem protocol -/
