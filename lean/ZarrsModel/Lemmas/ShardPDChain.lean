import ZarrsModel.Lemmas.ShardPD
import ZarrsModel.Lemmas.CodecShard
set_option Elab.async false
/- helper lemmas for C02 (sharding partial decoder), part 3: chains with (nested) sharding codecs -/
namespace Zarrs.Partial
open Zarrs Zarrs.Codec Zarrs.Subset

/-! ### cutting a shard into inner chunks and putting it together again -/

/-- the box of inner chunk `c` lies inside the shard -/
theorem cellBox_inbounds {inner shard : Shape} (ht : tiles inner shard = true) (c : Idx)
    (hc : inB c (zipDiv shard inner) = true) :
    (Subset.mk (zipMul c inner) inner).wf = true ∧ (Subset.mk (zipMul c inner) inner).inboundsShape shard = true := by
  have hl : inner.length = shard.length := tiles_length ht
  have hcl := inB_length hc
  simp only [zipDiv_length] at hcl
  refine ⟨by simp only [Subset.wf, zipMul_length, beq_iff_eq]; omega, ?_⟩
  simp only [Subset.inboundsShape, Subset.rank, Subset.endExc, zipMul_length, Bool.and_eq_true, beq_iff_eq]
  refine ⟨by omega, ?_⟩
  clear hl hcl
  induction inner generalizing shard c with
  | nil => cases shard <;> simp_all [tiles, zipMul, addIdx, allLe] <;> cases c <;> simp [zipMul, addIdx, allLe]
  | cons k ks ih =>
    cases shard with
    | nil => simp [tiles] at ht
    | cons s ss =>
      cases c with
      | nil => simp [zipDiv, inB] at hc
      | cons c0 ct =>
        simp only [tiles, Bool.and_eq_true, decide_eq_true_eq, beq_iff_eq] at ht
        simp only [zipDiv, inB, Bool.and_eq_true, decide_eq_true_eq] at hc
        simp only [zipMul, addIdx, allLe, Bool.and_eq_true, decide_eq_true_eq]
        refine ⟨?_, ih ht.2 ct hc.2⟩
        have hsd : s = k * (s / k) := by
          have := Nat.div_add_mod s k
          rw [ht.1.2] at this; omega
        have h1 : c0 + 1 ≤ s / k := hc.1
        have h2 : (c0 + 1) * k ≤ (s / k) * k := Nat.mul_le_mul_right k h1
        rw [Nat.add_mul, Nat.one_mul, Nat.mul_comm (s / k) k, ← hsd] at h2
        exact h2

theorem splitShard_length (shard inner : Shape) (ys : List Elem) :
    (splitShard shard inner ys).length = prod (zipDiv shard inner) := by
  simp [splitShard, boxIndices_length]

theorem splitShard_getElem? (shard inner : Shape) (ys : List Elem) (c : Idx) (hc : inB c (zipDiv shard inner) = true) :
    (splitShard shard inner ys)[ravel c (zipDiv shard inner)]? =
      some ((Subset.mk (zipMul c inner) inner).extract shard ys) := by
  simp only [splitShard, List.getElem?_map, boxIndices_getElem?_ravel c _ hc, Option.map_some]

/-- every piece is a chunk of the inner shape whose elements are elements of the shard -/
theorem splitShard_piece {inner shard : Shape} (ht : tiles inner shard = true) (ys : List Elem)
    (hy : ys.length = prod shard) (p : List Elem) (hp : p ∈ splitShard shard inner ys) :
    p.length = prod inner ∧ ∀ x ∈ p, x ∈ ys := by
  simp only [splitShard, List.mem_map] at hp
  obtain ⟨c, hc, rfl⟩ := hp
  rw [mem_boxIndices] at hc
  obtain ⟨hw, hb⟩ := cellBox_inbounds ht c hc
  exact ⟨(extract_spec' _ shard ys hw hb hy).1, fun x hx => mem_extract _ _ _ x hx⟩

/-- gathering the pieces gives the shard back -/
theorem assemble_split {inner shard : Shape} (ht : tiles inner shard = true) (ys : List Elem)
    (hy : ys.length = prod shard) : assemble shard inner (splitShard shard inner ys) = ys := by
  apply list_ext_box shard _ _ (by simp [assemble, boxIndices_length]) hy
  intro j hj
  simp only [assemble, List.getElem?_map, boxIndices_getElem?_ravel j shard hj, Option.map_some]
  obtain ⟨hc, hm, _, _⟩ := cell_of_inB ht j hj
  obtain ⟨hw, hb⟩ := cellBox_inbounds ht _ hc
  obtain ⟨hl, hp⟩ := extract_spec' (Subset.mk (zipMul (zipDiv j inner) inner) inner) shard ys hw hb hy
  have hcl : (zipDiv j inner).length = inner.length := by
    have := inB_length hj; have := tiles_length ht
    simp only [zipDiv_length]; omega
  obtain ⟨_, he⟩ := shardElem_of_mem ht (splitShard shard inner ys) j (zipDiv j inner) hj hcl hm _
    (splitShard_getElem? shard inner ys _ hc) hl
  rw [← he]
  obtain ⟨h1, h2⟩ := mem_zipSub j (zipMul (zipDiv j inner) inner) inner hm
  have := hp (zipSub j (zipMul (zipDiv j inner) inner)) h1
  simp only [h2] at this
  exact this

theorem all_fill_replicate (fill : Elem) (xs : List Elem) (n : Nat) (hl : xs.length = n)
    (h : xs.all (· == fill) = true) : xs = List.replicate n fill := by
  rw [List.eq_replicate_iff]
  refine ⟨hl, ?_⟩
  intro b hb
  have := List.all_eq_true.mp h b hb
  simpa using this

/-! ### chains -/

theorem stackA2A_eq (a2a : List AStage) (sh : Shape) (inner : AHandle) : stackA2A a2a sh inner = aPD a2a sh inner := by
  have h1 : a2a.foldl (fun (acc : List Shape) st => acc ++ [st.encShape (acc.getLastD sh)]) [sh] =
      aShapes a2a sh := shapes_fold sh a2a [] sh
  unfold stackA2A
  simp only [h1]
  exact zip_foldr a2a sh _

theorem encodeA2A_eq (a2a : List AStage) (sh : Shape) (xs : List Elem) :
    encodeA2A a2a sh xs = (aEnc a2a sh xs, shapesOf a2a sh) := by
  unfold encodeA2A
  exact enc_fold a2a sh xs

/-- a lawful bytes-to-bytes stage: its partial decoder on a handle serving the encoding serves the value -/
def BLaw (st : BStage) : Prop := ∀ (b : Bytes) (g : BHandle), BHandleOk g (st.enc b) → BHandleOk (st.pd g) b

/-- `chain_ok` on any serving handle (not only the storage handle) -/
theorem chain_ok_handle (c : Chain) (sh : Shape) (fill : Elem) (xs : List Elem)
    (hes : 0 < c.es) (hu : 0 < c.unit) (hdiv : c.es % c.unit = 0)
    (hxl : xs.length = prod sh) (hxe : ∀ x ∈ xs, x.length = c.es) (ha : aOk c.a2a sh)
    (hb : ∀ st ∈ c.b2b, BLaw st) (g : BHandle) (hg : BHandleOk g (c.encode sh xs)) :
    AHandleOk (c.partialDecoder sh fill g) sh xs := by
  rw [partialDecoder_eq]
  rw [encode_eq] at hg
  obtain ⟨hl, he⟩ := aEnc_chunk c.es c.a2a sh xs ha hxl hxe
  apply aChain_ok c.a2a sh xs _ ha hxl
  apply bytesPD_ok' c.big c.es c.unit _ fill _ _ hes hu hdiv hl he
  exact bChain_ok c.b2b hb _ g hg

theorem chain_absent_handle (c : Chain) (sh : Shape) (fill : Elem) (ha : aOk c.a2a sh) (g : BHandle)
    (hg : BHandleAbsent g) :
    AHandleOk (c.partialDecoder sh fill g) sh (List.replicate (prod sh) fill) := by
  rw [partialDecoder_eq]
  apply aChain_ok c.a2a sh _ _ ha (by simp)
  rw [aEnc_fill fill c.a2a sh ha]
  apply bytesPD_absent'
  exact bChain_absent c.b2b _ hg

/-! ### the declared fixed size is the size of every encoding -/

/-- the stages flagged as size-keeping do keep the size -/
def keepOk : List BStage → List Bool → Prop
  | [], _ => True
  | st :: rest, ks =>
    (match st with
     | .decodeAll e _ => ks.headD false = true → ∀ b : Bytes, (e b).length = b.length
     | _ => True) ∧ keepOk rest ks.tail

theorem bFixed_none (stages : List BStage) : ∀ keep, bFixed stages keep none = none := by
  induction stages with
  | nil => intro _; rfl
  | cons st rest ih =>
    intro keep
    have : st.fixedSize (keep.headD false) none = none := by
      cases st <;> simp [BStage.fixedSize]
    simp only [bFixed, this, ih]

theorem bFixed_length (stages : List BStage) : ∀ (keep : List Bool) (b : Bytes) (s n : Nat),
    keepOk stages keep → bFixed stages keep (some s) = some n → b.length = s →
    (stages.foldl (fun b st => st.enc b) b).length = n := by
  induction stages with
  | nil =>
    intro keep b s n _ hf hb
    simp only [bFixed, Option.some.injEq] at hf
    simpa [hf] using hb
  | cons st rest ih =>
    intro keep b s n hk hf hb
    simp only [bFixed] at hf
    rw [List.foldl_cons]
    cases st with
    | stripSuffix m sum =>
      simp only [BStage.fixedSize, Option.map_some] at hf
      exact ih keep.tail _ (s + 4) n hk.2 hf (by simp [BStage.enc, checksumEnc_length, hb])
    | cache =>
      simp only [BStage.fixedSize] at hf
      exact ih keep.tail _ s n hk.2 hf hb
    | decodeAll e d =>
      simp only [BStage.fixedSize] at hf
      by_cases hkeep : keep.headD false = true
      · rw [if_pos hkeep] at hf
        exact ih keep.tail _ s n hk.2 hf (by simp only [BStage.enc]; rw [hk.1 hkeep b, hb])
      · rw [if_neg hkeep, bFixed_none] at hf
        cases hf

theorem chain_encode_length (c : Chain) (keep : List Bool) (sh : Shape) (xs : List Elem) (n : Nat)
    (_hu : 0 < c.unit) (hdiv : c.es % c.unit = 0) (hxl : xs.length = prod sh) (hxe : ∀ x ∈ xs, x.length = c.es)
    (ha : aOk c.a2a sh) (hk : keepOk c.b2b keep) (hf : c.fixedSize keep sh = some n) :
    (c.encode sh xs).length = n := by
  rw [encode_eq]
  obtain ⟨hl, he⟩ := aEnc_chunk c.es c.a2a sh xs ha hxl hxe
  have hfl : (aEnc c.a2a sh xs).flatten.length = prod (shapesOf c.a2a sh) * c.es := by
    rw [flatten_length_const c.es _ he, hl]
  apply bFixed_length c.b2b keep _ _ n hk hf
  rw [bytesEnc_length c.big c.unit _ (by rw [hfl]; exact mul_mod_of_mod _ _ _ hdiv), hfl]

/-- element size of a chain -/
def ChainS.es : ChainS → Nat
  | .leaf c _ => c.es
  | .shard _ _ _ es _ _ => es

/-- well-formedness of a (nested) chain for chunks of shape `sh`, relative to the predicates `A` (array-to-array
stages on a decoded shape) and `B` (bytes-to-bytes stages): every sharding level tiles the shape it sees, the element
size is the same at every level and the fill value has that size -/
def ChainS.okWith (A : List AStage → Shape → Prop) (B : BStage → Prop) : ChainS → Shape → Elem → Prop
  | .leaf c keep, sh, _ =>
    0 < c.es ∧ 0 < c.unit ∧ c.es % c.unit = 0 ∧ A c.a2a sh ∧ (∀ st ∈ c.b2b, B st) ∧ keepOk c.b2b keep
  | .shard a2a _ ish es inner b2b, sh, fill =>
    A a2a sh ∧ tiles ish (shapesOf a2a sh) = true ∧ (∀ st ∈ b2b, B st) ∧ fill.length = es ∧ inner.es = es ∧
    ChainS.okWith A B inner ish fill

theorem ChainS.okWith_mono {A A' : List AStage → Shape → Prop} {B B' : BStage → Prop}
    (hA : ∀ l sh, A l sh → A' l sh) (hB : ∀ st, B st → B' st) :
    ∀ (c : ChainS) (sh : Shape) (fill : Elem), c.okWith A B sh fill → c.okWith A' B' sh fill := by
  intro c
  induction c with
  | leaf c keep =>
    intro sh fill h
    exact ⟨h.1, h.2.1, h.2.2.1, hA _ _ h.2.2.2.1, fun st hst => hB st (h.2.2.2.2.1 st hst), h.2.2.2.2.2⟩
  | shard a2a cfg ish es inner b2b ih =>
    intro sh fill h
    exact ⟨hA _ _ h.1, h.2.1, fun st hst => hB st (h.2.2.1 st hst), h.2.2.2.1, h.2.2.2.2.1,
      ih ish fill h.2.2.2.2.2⟩

/-- every encoded shard (at every nesting level) is shorter than 2^64 - 1 bytes, so that offsets and sizes fit the
index and differ from the sentinel -/
def ChainS.fits : ChainS → Shape → Elem → List Elem → Prop
  | .leaf _ _, _, _, _ => True
  | .shard a2a cfg ish _ inner _, sh, fill, xs =>
    (∀ p ∈ splitShard (encodeA2A a2a sh xs).2 ish (encodeA2A a2a sh xs).1, ChainS.fits inner ish fill p) ∧
    (Shard.encode { cfg with nChunks := prod (zipDiv (encodeA2A a2a sh xs).2 ish) }
      (shardChunks (inner.encode ish fill) fill (encodeA2A a2a sh xs).2 ish (encodeA2A a2a sh xs).1)).length
        < Shard.sentinel

theorem shardIndexPD_cfg (cfg : Shard.Cfg) (n : Nat) (validate : Bool) (shard inner : Shape) (h : BHandle) :
    shardIndexPD { cfg with nChunks := n } validate shard inner h = shardIndexPD cfg validate shard inner h := by
  cases cfg; rfl

theorem shardPD_cfg (cfg : Shard.Cfg) (n : Nat) (validate : Bool) (shard inner : Shape) (es : Nat) (fill : Elem)
    (fixed : Option Nat) (innerPD : Shape → Elem → BHandle → AHandle) (h : BHandle) :
    shardPD { cfg with nChunks := n } validate shard inner es fill fixed innerPD h =
      shardPD cfg validate shard inner es fill fixed innerPD h := by
  unfold shardPD
  rw [shardIndexPD_cfg]

/-- **every encoding of a chain that declares a fixed size has that size** -/
theorem chainS_encode_length (c : ChainS) (sh : Shape) (fill : Elem) (xs : List Elem) (n : Nat)
    (hok : c.okWith aOk BLaw sh fill) (hxl : xs.length = prod sh) (hxe : ∀ x ∈ xs, x.length = c.es)
    (hf : c.fixedSize sh = some n) : (c.encode sh fill xs).length = n := by
  cases c with
  | leaf c keep =>
    exact chain_encode_length c keep sh xs n hok.2.1 hok.2.2.1 hxl hxe hok.2.2.2.1 hok.2.2.2.2.2 hf
  | shard a2a cfg ish es inner b2b => cases hf

end Zarrs.Partial
