import ZarrsModel.Model.Interleave
import ZarrsModel.Lemmas.Array
set_option linter.unusedSectionVars false
/- helper lemmas for C16 (array level): array operations read and write only the keys of the chunks they name -/
namespace Zarrs
open Subset

theorem zipOpt_length {α β γ} (f : α → β → Option γ) :
    ∀ (as : List α) (bs : List β) (l : List γ), zipOpt f as bs = some l → l.length = min as.length bs.length
  | [], bs, l, h => by rw [zipOpt_nil_left] at h; cases h; simp
  | _ :: _, [], l, h => by rw [zipOpt_nil_right] at h; cases h; simp
  | a :: as, b :: bs, l, h => by
    obtain ⟨c, cs, _, h2, rfl⟩ := zipOpt_cons_some.1 h
    have := zipOpt_length f as bs cs h2
    simp only [List.length_cons, this]
    omega

/-- the box of chunks meeting a well-formed region of the array's rank is well-formed -/
theorem chunksInArraySubset_wf (g : Grid) (r : Subset) (arr : Shape) (chunks : Subset) (hr : r.wf = true)
    (hra : r.rank = arr.length) (h : g.chunksInArraySubset r arr = some chunks) : chunks.wf = true := by
  simp only [Subset.wf, beq_iff_eq] at hr
  simp only [Subset.rank] at hra
  unfold Grid.chunksInArraySubset at h
  cases he : r.endInc with
  | none =>
    rw [he] at h
    simp only [Option.some.injEq] at h
    subst h
    simp [Subset.wf, Subset.newEmpty]
  | some e =>
    rw [he] at h
    have hel : e.length = r.start.length := by
      unfold Subset.endInc at he
      split at he
      · cases he
      · simp only [Option.some.injEq] at he
        subst he
        simp only [List.length_map, addIdx_length]
        omega
    simp only at h
    cases hcs : g.chunkIndices r.start with
    | none => rw [hcs] at h; simp at h
    | some cs =>
      rw [hcs] at h
      have hcsl := zipOpt_length _ _ _ _ hcs
      cases hce : g.chunkIndices e with
      | some ce =>
        rw [hce] at h
        simp only [Option.some.injEq] at h
        subst h
        have hcel := zipOpt_length _ _ _ _ hce
        simp only [Subset.wf, List.length_map, zipSub_length, beq_iff_eq]
        omega
      | none =>
        rw [hce] at h
        simp only at h
        cases hgs : g.gridShape arr with
        | none => rw [hgs] at h; simp at h
        | some ce =>
          rw [hgs] at h
          simp only [Option.some.injEq] at h
          subst h
          have hcel := zipOpt_length _ _ _ _ hgs
          simp only [Subset.wf, List.length_map, zipSub_length, beq_iff_eq]
          omega

/-- a well-formed one-element box lists its start -/
theorem Subset.start_mem_indices (b : Subset) (hb : b.wf = true) (h1 : b.numElements = 1) :
    b.start ∈ b.indices := by
  rw [Subset.mem_indices b hb]
  have hw := hb
  simp only [Subset.wf, beq_iff_eq] at hw
  exact mem_start b.start b.shape hw (ones_nonempty _ (prod_eq_one _ h1))

namespace ArrCfg
variable {α : Type} [DecidableEq α]
variable {cfg : ArrCfg α}

theorem foldOpt_congr {σ β} (f g : σ → β → Option σ) (l : List β) (h : ∀ s, ∀ b ∈ l, f s b = g s b) (s : σ) :
    foldOpt f s l = foldOpt g s l := by
  induction l generalizing s with
  | nil => rfl
  | cons b bs ih =>
    simp only [foldOpt]
    rw [h s b List.mem_cons_self]
    cases g s b with
    | none => rfl
    | some s' => exact ih (fun s b hb => h s b (List.mem_cons_of_mem _ hb)) s'

theorem foldOpt_preserves {σ β} (f : σ → β → Option σ) (P : σ → σ → Prop) (hrefl : ∀ s, P s s)
    (htrans : ∀ a b c, P a b → P b c → P a c) (l : List β)
    (h : ∀ s s', ∀ b ∈ l, f s b = some s' → P s s') (s s' : σ) (hf : foldOpt f s l = some s') : P s s' := by
  induction l generalizing s with
  | nil => simp only [foldOpt, Option.some.injEq] at hf; subst hf; exact hrefl s
  | cons b bs ih =>
    simp only [foldOpt] at hf
    cases hb : f s b with
    | none => rw [hb] at hf; cases hf
    | some s1 =>
      rw [hb] at hf
      exact htrans _ _ _ (h s s1 b List.mem_cons_self hb)
        (ih (fun s s' b hb => h s s' b (List.mem_cons_of_mem _ hb)) s1 hf)

/-- whole-chunk writes touch exactly their chunk's key -/
theorem storeChunk_frame (st st' : KV) (c : Idx) (d : List α) (h : cfg.storeChunk st c d = some st')
    (k : Key) (hk : k ≠ cfg.keyOf c) : st'.get k = st.get k := by
  unfold storeChunk at h
  split at h
  · cases h
  · split at h
    · cases h
    · split at h
      · simp only [Option.some.injEq] at h
        subst h
        rw [KV.get_erase, if_neg hk]
      · simp only [Option.some.injEq] at h
        subst h
        exact KV.get_put_other st _ k _ hk

theorem storeChunkSubset_frame (st st' : KV) (c : Idx) (r : Subset) (d : List α)
    (h : cfg.storeChunkSubset st c r d = some st') (k : Key) (hk : k ≠ cfg.keyOf c) :
    st'.get k = st.get k := by
  unfold storeChunkSubset at h
  split at h
  · cases h
  · split at h
    · cases h
    · split at h
      · exact storeChunk_frame st st' c d h k hk
      · split at h
        · cases h
        · split at h
          · cases h
          · exact storeChunk_frame st st' c _ h k hk

theorem retrieveChunkSubset_congr (st st' : KV) (c : Idx) (r : Subset)
    (h : st'.get (cfg.keyOf c) = st.get (cfg.keyOf c)) :
    cfg.retrieveChunkSubset st' c r = cfg.retrieveChunkSubset st c r := by
  simp only [retrieveChunkSubset, retrieveChunk_congr st st' c h]

/-- writes touch only the chunks meeting the region -/
theorem storeArraySubset_frame (st st' : KV) (region : Subset) (d : List α) (hw : region.wf = true)
    (h : cfg.storeArraySubset st region d = some st') (chunks : Subset)
    (hc : cfg.grid.chunksInArraySubset region cfg.shape = some chunks)
    (k : Key) (hk : k ∉ chunks.indices.map cfg.keyOf) : st'.get k = st.get k := by
  unfold storeArraySubset at h
  split at h
  · cases h
  · rename_i hrank
    simp only [bne_iff_ne, ne_eq, Decidable.not_not] at hrank
    rw [hc] at h
    simp only at h
    have hcw := chunksInArraySubset_wf _ _ _ _ hw hrank hc
    split at h
    · rename_i h1
      simp only [beq_iff_eq] at h1
      have hks : k ≠ cfg.keyOf chunks.start := fun e =>
        hk (by rw [e]; exact List.mem_map_of_mem (Subset.start_mem_indices chunks hcw h1))
      split at h
      · cases h
      · split at h
        · exact storeChunk_frame st st' _ d h k hks
        · exact storeChunkSubset_frame st st' _ _ d h k hks
    · split at h
      · cases h
      · refine foldOpt_preserves _ (fun s s' : KV => s'.get k = s.get k) (fun _ => rfl)
          (fun a b c h1 h2 => h2.trans h1) chunks.indices ?_ st st' h
        intro s s' c hcm hf
        have hkc : k ≠ cfg.keyOf c := fun e => hk (by rw [e]; exact List.mem_map_of_mem hcm)
        split at hf
        · cases hf
        · exact storeChunkSubset_frame s s' c _ _ hf k hkc

/-- reads depend only on the chunks meeting the region -/
theorem retrieveArraySubset_local (st1 st2 : KV) (region : Subset) (hw : region.wf = true)
    (h : ∀ chunks, cfg.grid.chunksInArraySubset region cfg.shape = some chunks →
      ∀ k ∈ chunks.indices.map cfg.keyOf, st1.get k = st2.get k) :
    cfg.retrieveArraySubset st1 region = cfg.retrieveArraySubset st2 region := by
  unfold retrieveArraySubset
  split
  · rfl
  · rename_i hrank
    simp only [bne_iff_ne, ne_eq, Decidable.not_not] at hrank
    cases hc : cfg.grid.chunksInArraySubset region cfg.shape with
    | none => rfl
    | some chunks =>
      simp only
      have hcw := chunksInArraySubset_wf _ _ _ _ hw hrank hc
      have hag := h chunks hc
      split
      · rfl
      · rename_i h1
        have hs : st1.get (cfg.keyOf chunks.start) = st2.get (cfg.keyOf chunks.start) :=
          hag _ (List.mem_map_of_mem (Subset.start_mem_indices chunks hcw h1))
        split
        · rfl
        · split
          · exact retrieveChunk_congr st2 st1 _ hs
          · exact retrieveChunkSubset_congr st2 st1 _ _ hs
      · apply foldOpt_congr
        intro out c hcm
        have hs : st1.get (cfg.keyOf c) = st2.get (cfg.keyOf c) := hag _ (List.mem_map_of_mem hcm)
        split
        · rfl
        · rw [retrieveChunkSubset_congr st2 st1 c _ hs]

/-- chunk-disjoint boxes have disjoint key lists (keys injective) -/
theorem disjoint_boxes_disjoint_keys (hK : cfg.KeysInjective) (c1 c2 : Subset)
    (hd : ∀ i, ¬ (c1.contains i = true ∧ c2.contains i = true)) (hw1 : c1.wf = true) (hw2 : c2.wf = true) :
    disjointKeys (c1.indices.map cfg.keyOf) (c2.indices.map cfg.keyOf) = true := by
  simp only [disjointKeys, List.all_eq_true, Bool.not_eq_true', List.contains_eq_mem, decide_eq_false_iff_not]
  intro k hk1 hk2
  obtain ⟨i, hi, rfl⟩ := List.mem_map.1 hk1
  obtain ⟨j, hj, hij⟩ := List.mem_map.1 hk2
  have := hK _ _ hij
  subst this
  exact hd j ⟨(Subset.mem_indices c1 hw1 j).1 hi, (Subset.mem_indices c2 hw2 j).1 hj⟩

end ArrCfg
end Zarrs
