import ZarrsModel.Model.Iter
/- helper lemmas for layer A (C09, C10, C17) -/
namespace Zarrs

/-! ### prod -/
@[simp] theorem prod_nil : prod [] = 1 := rfl
@[simp] theorem prod_cons (x : Nat) (xs : List Nat) : prod (x :: xs) = x * prod xs := rfl

theorem prod_append (a b : List Nat) : prod (a ++ b) = prod a * prod b := by
  induction a with
  | nil => simp
  | cons x xs ih => simp [ih, Nat.mul_assoc]

theorem prod_reverse (a : List Nat) : prod a.reverse = prod a := by
  induction a with
  | nil => rfl
  | cons x xs ih => simp [prod_append, ih, Nat.mul_comm]

theorem prod_pos_iff (sh : List Nat) : 0 < prod sh ↔ ∀ d ∈ sh, 0 < d := by
  induction sh with
  | nil => simp
  | cons x xs ih =>
    simp only [prod_cons, List.mem_cons, forall_eq_or_imp, ← ih]
    simp only [Nat.pos_iff_ne_zero, ne_eq, Nat.mul_eq_zero, not_or]

theorem prod_eq_zero_iff (sh : List Nat) : prod sh = 0 ↔ sh.any (· == 0) = true := by
  induction sh with
  | nil => simp
  | cons x xs ih => simp [Nat.mul_eq_zero, ih]

/-! ### unravel -/
theorem unravelRev_append (n : Nat) (ds : List Nat) (d : Nat) :
    unravelRev n (ds ++ [d]) = unravelRev n ds ++ [(n / prod ds) % d] := by
  induction ds generalizing n with
  | nil => simp [unravelRev]
  | cons x xs ih => simp [unravelRev, ih, Nat.div_div_eq_div_mul]

theorem unravelRev_mod (n : Nat) (ds : List Nat) : unravelRev (n % prod ds) ds = unravelRev n ds := by
  induction ds generalizing n with
  | nil => simp [unravelRev]
  | cons x xs ih =>
    simp only [unravelRev, prod_cons, Nat.mod_mul_right_mod, Nat.mod_mul_right_div_self]
    rw [ih]

theorem unravel_cons (n s : Nat) (ss : Shape) :
    unravel n (s :: ss) = ((n / prod ss) % s) :: unravel n ss := by
  simp [unravel, unravelRev_append, prod_reverse]

theorem unravel_mod (n : Nat) (ss : Shape) : unravel (n % prod ss) ss = unravel n ss := by
  unfold unravel
  have := unravelRev_mod n ss.reverse
  rw [prod_reverse] at this
  rw [this]

theorem unravel_eq_L (n : Nat) (sh : Shape) : unravel n sh = unravelL n sh := by
  induction sh generalizing n with
  | nil => rfl
  | cons s ss ih => rw [unravel_cons, unravelL, ← ih, unravel_mod]

theorem ravel_lt (i : Idx) (sh : Shape) (h : inB i sh = true) : ravel i sh < prod sh := by
  induction i generalizing sh with
  | nil => cases sh <;> simp_all [inB, ravel]
  | cons a as ih =>
    cases sh with
    | nil => simp [inB] at h
    | cons s ss =>
      simp only [inB, Bool.and_eq_true, decide_eq_true_eq] at h
      have h1 := ih ss h.2
      simp only [ravel, prod_cons]
      have : (a + 1) * prod ss ≤ s * prod ss := Nat.mul_le_mul_right _ h.1
      rw [Nat.add_mul] at this
      omega

theorem unravelL_ravel (i : Idx) (sh : Shape) (h : inB i sh = true) : unravelL (ravel i sh) sh = i := by
  induction i generalizing sh with
  | nil => cases sh <;> simp_all [inB, unravelL]
  | cons a as ih =>
    cases sh with
    | nil => simp [inB] at h
    | cons s ss =>
      simp only [inB, Bool.and_eq_true, decide_eq_true_eq] at h
      have h1 := ravel_lt as ss h.2
      have hp : 0 < prod ss := by omega
      simp only [ravel, unravelL]
      rw [Nat.mul_comm a, Nat.mul_add_div hp, Nat.mul_add_mod, Nat.div_eq_of_lt h1, Nat.mod_eq_of_lt h1,
        Nat.add_zero, Nat.mod_eq_of_lt h.1, ih ss h.2]

theorem ravel_unravelL (n : Nat) (sh : Shape) (h : n < prod sh) : ravel (unravelL n sh) sh = n := by
  induction sh generalizing n with
  | nil => simp at h; simp [unravelL, ravel, h]
  | cons s ss ih =>
    simp only [prod_cons] at h
    have hp : 0 < prod ss := by
      rcases Nat.eq_zero_or_pos (prod ss) with h0 | h0
      · simp [h0] at h
      · exact h0
    have hlt : n / prod ss < s := by
      rw [Nat.div_lt_iff_lt_mul hp]; exact h
    simp only [unravelL, ravel]
    rw [ih _ (Nat.mod_lt _ hp), Nat.mod_eq_of_lt hlt]
    exact Nat.div_add_mod' n (prod ss)

theorem unravelL_inB (n : Nat) (sh : Shape) (h : n < prod sh) : inB (unravelL n sh) sh = true := by
  induction sh generalizing n with
  | nil => rfl
  | cons s ss ih =>
    simp only [prod_cons] at h
    have hp : 0 < prod ss := by
      rcases Nat.eq_zero_or_pos (prod ss) with h0 | h0
      · simp [h0] at h
      · exact h0
    have hlt : n / prod ss < s := by
      rw [Nat.div_lt_iff_lt_mul hp]; exact h
    simp [unravelL, inB, ih _ (Nat.mod_lt _ hp), Nat.mod_eq_of_lt hlt, hlt]

theorem ravel_lexLt_lt (a b : Idx) (sh : Shape) (ha : inB a sh = true) (hb : inB b sh = true)
    (hlt : lexLt a b = true) : ravel a sh < ravel b sh := by
  induction a generalizing b sh with
  | nil => simp [lexLt] at hlt
  | cons x xs ih =>
    cases b with
    | nil => simp [lexLt] at hlt
    | cons y ys =>
      cases sh with
      | nil => simp [inB] at ha
      | cons s ss =>
        simp only [inB, Bool.and_eq_true, decide_eq_true_eq] at ha hb
        simp only [lexLt, Bool.or_eq_true, Bool.and_eq_true, decide_eq_true_eq, beq_iff_eq] at hlt
        simp only [ravel]
        rcases hlt with h | ⟨h, h'⟩
        · have h1 := ravel_lt xs ss ha.2
          have : (x + 1) * prod ss ≤ y * prod ss := Nat.mul_le_mul_right _ h
          rw [Nat.add_mul] at this
          omega
        · subst h
          have := ih ys ss ha.2 hb.2 h'
          omega

/-! ### range splitting -/
theorem range_mul_map {α} (n p : Nat) (f : Nat → α) :
    (List.range (n * p)).map f =
      (List.range n).flatMap (fun a => (List.range p).map (fun b => f (a * p + b))) := by
  induction n with
  | zero => simp
  | succ n ih =>
    rw [List.range_succ, List.flatMap_append, ← ih, Nat.succ_mul, List.range_eq_range' (n := n * p + p),
      ← List.range'_append, List.map_append, ← List.range_eq_range']
    simp [List.range'_eq_map_range]

theorem flatMap_congr' {α β} {l : List α} {f g : α → List β} (h : ∀ a ∈ l, f a = g a) :
    l.flatMap f = l.flatMap g := by
  induction l with
  | nil => rfl
  | cons x xs ih =>
    simp only [List.flatMap_cons]
    rw [h x (by simp), ih (fun a ha => h a (by simp [ha]))]

/-! ### boxIndices -/
@[simp] theorem addIdx_length (a b : Idx) : (addIdx a b).length = min a.length b.length := by
  induction a generalizing b with
  | nil => simp [addIdx]
  | cons x xs ih => cases b <;> simp [addIdx, ih]

theorem inB_length {i : Idx} {sh : Shape} (h : inB i sh = true) : i.length = sh.length := by
  induction i generalizing sh with
  | nil => cases sh <;> simp_all [inB]
  | cons x xs ih =>
    cases sh with
    | nil => simp [inB] at h
    | cons s ss => simp only [inB, Bool.and_eq_true] at h; simp [ih h.2]

theorem mem_boxIndices (i : Idx) (sh : Shape) : i ∈ boxIndices sh ↔ inB i sh = true := by
  induction sh generalizing i with
  | nil => cases i <;> simp [boxIndices, inB]
  | cons n ns ih =>
    cases i with
    | nil => simp [boxIndices, inB]
    | cons x xs => simp [boxIndices, inB, ih]

theorem boxIndices_length (sh : Shape) : (boxIndices sh).length = prod sh := by
  induction sh with
  | nil => rfl
  | cons n ns ih =>
    simp only [boxIndices, List.length_flatMap, List.length_map, ih, prod_cons]
    induction n with
    | zero => simp
    | succ n ihn => simp [List.range_succ, ihn, Nat.succ_mul]

theorem boxIndices_pairwise (sh : Shape) : (boxIndices sh).Pairwise (fun a b => lexLt a b = true) := by
  induction sh with
  | nil => simp [boxIndices]
  | cons n ns ih =>
    simp only [boxIndices, List.pairwise_flatMap, List.pairwise_map]
    refine ⟨fun a _ => ih.imp (fun h => by simp [lexLt, h]), ?_⟩
    refine List.pairwise_lt_range.imp ?_
    intro a b hab x hx y hy
    simp only [List.mem_map] at hx hy
    obtain ⟨x', _, rfl⟩ := hx
    obtain ⟨y', _, rfl⟩ := hy
    simp [lexLt, hab]

/-- the iterator's enumeration (positions `0..prod sh` unravelled) is the specification enumeration -/
theorem range_map_unravelL (sh : Shape) :
    (List.range (prod sh)).map (fun k => unravelL k sh) = boxIndices sh := by
  induction sh with
  | nil => rfl
  | cons n ns ih =>
    rw [prod_cons, range_mul_map, boxIndices]
    apply flatMap_congr'
    intro a ha
    rw [← ih, List.map_map]
    apply List.map_congr_left
    intro b hb
    simp only [List.mem_range] at ha hb
    have hp : 0 < prod ns := by omega
    simp only [unravelL, Function.comp]
    rw [Nat.mul_comm a, Nat.mul_add_div hp, Nat.mul_add_mod, Nat.div_eq_of_lt hb, Nat.mod_eq_of_lt hb,
      Nat.add_zero, Nat.mod_eq_of_lt ha]

theorem range_map_unravel (sh : Shape) :
    (List.range (prod sh)).map (fun k => unravel k sh) = boxIndices sh := by
  simp only [unravel_eq_L]; exact range_map_unravelL sh

/-! ### Iter -/
namespace Iter

theorem items_length (it : Iter) : it.items.length = it.len := by
  simp [items, len]

theorem items_of_not_lt (it : Iter) (h : ¬ it.lo < it.hi) : it.items = [] := by
  have : it.hi - it.lo = 0 := by omega
  simp [items, this]

theorem items_front (it : Iter) (h : it.lo < it.hi) :
    it.items = it.item it.lo :: ({ it with lo := it.lo + 1 } : Iter).items := by
  have : it.hi - it.lo = (it.hi - (it.lo + 1)) + 1 := by omega
  simp only [items]
  rw [this, List.range'_succ]
  rfl

theorem items_back (it : Iter) (h : it.lo < it.hi) :
    it.items = ({ it with hi := it.hi - 1 } : Iter).items ++ [it.item (it.hi - 1)] := by
  have h1 : it.hi - it.lo = (it.hi - 1 - it.lo) + 1 := by omega
  have h2 : it.lo + (it.hi - 1 - it.lo) = it.hi - 1 := by omega
  simp only [items]
  rw [h1, ← List.range'_append (m := it.hi - 1 - it.lo) (n := 1), List.map_append]
  simp [h2, item]

theorem run_true_some (it : Iter) (ds : List Bool) (h : it.lo < it.hi) :
    it.run (true :: ds) =
      (it.item it.lo :: (({ it with lo := it.lo + 1 } : Iter).run ds).1,
       (({ it with lo := it.lo + 1 } : Iter).run ds).2.1,
       (({ it with lo := it.lo + 1 } : Iter).run ds).2.2) := by
  simp [run, next, h]

theorem run_false_some (it : Iter) (ds : List Bool) (h : it.lo < it.hi) :
    it.run (false :: ds) =
      ((({ it with hi := it.hi - 1 } : Iter).run ds).1,
       it.item (it.hi - 1) :: (({ it with hi := it.hi - 1 } : Iter).run ds).2.1,
       (({ it with hi := it.hi - 1 } : Iter).run ds).2.2) := by
  simp [run, nextBack, h]

theorem run_none (it : Iter) (d : Bool) (ds : List Bool) (h : ¬ it.lo < it.hi) :
    it.run (d :: ds) = it.run ds := by
  cases d <;> simp [run, next, nextBack, h]

theorem run_spec (it : Iter) (dirs : List Bool) :
    (it.run dirs).1 ++ (it.run dirs).2.2.items ++ (it.run dirs).2.1.reverse = it.items ∧
    (it.run dirs).2.2.len + (it.run dirs).1.length + (it.run dirs).2.1.length = it.len := by
  induction dirs generalizing it with
  | nil => simp [run]
  | cons d ds ih =>
    by_cases h : it.lo < it.hi
    · cases d with
      | true =>
        rw [run_true_some it ds h, items_front it h]
        have := ih { it with lo := it.lo + 1 }
        refine ⟨by simp [← this.1], ?_⟩
        have h2 := this.2
        simp only [len, List.length_cons] at h2 ⊢
        omega
      | false =>
        rw [run_false_some it ds h, items_back it h]
        have := ih { it with hi := it.hi - 1 }
        refine ⟨by simp [← this.1], ?_⟩
        have h2 := this.2
        simp only [len, List.length_cons] at h2 ⊢
        omega
    · rw [run_none it d ds h]; exact ih it

theorem items_split (it : Iter) (k : Nat) (h : k ≤ it.len) :
    (it.splitAt k).1.items ++ (it.splitAt k).2.items = it.items := by
  simp only [len] at h
  have h1 : it.lo + k - it.lo = k := by omega
  have h2 : it.hi - it.lo = k + (it.hi - (it.lo + k)) := by omega
  simp only [splitAt, items, h1]
  rw [h2, ← List.range'_append, List.map_append]
  simp
  rfl

end Iter

theorem SplitTree.leaves_items (t : SplitTree) (it : Iter) (h : t.fits it.len = true) :
    (t.leaves it).flatMap Iter.items = it.items := by
  induction t generalizing it with
  | leaf => simp [SplitTree.leaves]
  | node k l r ihl ihr =>
    simp only [SplitTree.fits, Bool.and_eq_true, decide_eq_true_eq] at h
    obtain ⟨⟨hk, hl⟩, hr⟩ := h
    simp only [SplitTree.leaves, List.flatMap_append]
    rw [ihl, ihr, Iter.items_split it k hk]
    · simp only [Iter.len] at hk hr ⊢
      have : it.hi - (it.lo + k) = it.hi - it.lo - k := by omega
      simpa [Iter.splitAt, this] using hr
    · simp only [Iter.len] at hk hl ⊢
      have : it.lo + k - it.lo = k := by omega
      simpa [Iter.splitAt, this] using hl
open Subset

/-! ### lengths of the zip helpers -/
@[simp] theorem zipMin_length (a b : List Nat) : (zipMin a b).length = min a.length b.length := by
  induction a generalizing b with
  | nil => simp [zipMin]
  | cons x xs ih => cases b <;> simp [zipMin, ih]
@[simp] theorem zipMax_length (a b : List Nat) : (zipMax a b).length = min a.length b.length := by
  induction a generalizing b with
  | nil => simp [zipMax]
  | cons x xs ih => cases b <;> simp [zipMax, ih]
@[simp] theorem zipSub_length (a b : List Nat) : (zipSub a b).length = min a.length b.length := by
  induction a generalizing b with
  | nil => simp [zipSub]
  | cons x xs ih => cases b <;> simp [zipSub, ih]
@[simp] theorem zipDiv_length (a b : List Nat) : (zipDiv a b).length = min a.length b.length := by
  induction a generalizing b with
  | nil => simp [zipDiv]
  | cons x xs ih => cases b <;> simp [zipDiv, ih]
@[simp] theorem zipMul_length (a b : List Nat) : (zipMul a b).length = min a.length b.length := by
  induction a generalizing b with
  | nil => simp [zipMul]
  | cons x xs ih => cases b <;> simp [zipMul, ih]

/-! ### membership -/
theorem mem_length {i o n : List Nat} (h : mem i o n = true) : i.length = o.length ∧ o.length = n.length := by
  induction i generalizing o n with
  | nil => cases o <;> cases n <;> simp_all [mem]
  | cons x xs ih =>
    cases o with
    | nil => simp [mem] at h
    | cons y ys =>
      cases n with
      | nil => simp [mem] at h
      | cons z zs =>
        simp only [mem, Bool.and_eq_true] at h
        have := ih h.2
        simp [this.1, this.2]

theorem mem_addIdx (j st sh : List Nat) (hl : st.length = sh.length) (h : inB j sh = true) :
    mem (addIdx j st) st sh = true := by
  induction j generalizing st sh with
  | nil => cases sh <;> cases st <;> simp_all [inB, addIdx, mem]
  | cons x xs ih =>
    cases sh with
    | nil => simp [inB] at h
    | cons s ss =>
      cases st with
      | nil => simp at hl
      | cons o os =>
        simp only [inB, Bool.and_eq_true, decide_eq_true_eq] at h
        simp only [List.length_cons, Nat.add_right_cancel_iff] at hl
        simp only [addIdx, mem, Bool.and_eq_true, decide_eq_true_eq]
        exact ⟨⟨by omega, by omega⟩, ih os ss hl h.2⟩

theorem mem_zipSub (i st sh : List Nat) (h : mem i st sh = true) :
    inB (zipSub i st) sh = true ∧ addIdx (zipSub i st) st = i := by
  induction i generalizing st sh with
  | nil => cases st <;> cases sh <;> simp_all [mem, zipSub, inB, addIdx]
  | cons x xs ih =>
    cases st with
    | nil => simp [mem] at h
    | cons o os =>
      cases sh with
      | nil => simp [mem] at h
      | cons s ss =>
        simp only [mem, Bool.and_eq_true, decide_eq_true_eq] at h
        have := ih os ss h.2
        simp only [zipSub, inB, addIdx, this.1, this.2, Bool.and_true, decide_eq_true_eq]
        refine ⟨by omega, ?_⟩
        congr 1; omega

theorem lexLt_addIdx (a b st : List Nat) (hl : a.length ≤ st.length) (h : lexLt a b = true) :
    lexLt (addIdx a st) (addIdx b st) = true := by
  induction a generalizing b st with
  | nil => simp [lexLt] at h
  | cons x xs ih =>
    cases b with
    | nil => simp [lexLt] at h
    | cons y ys =>
      cases st with
      | nil => simp at hl
      | cons o os =>
        simp only [lexLt, Bool.or_eq_true, Bool.and_eq_true, decide_eq_true_eq, beq_iff_eq] at h
        simp only [addIdx, lexLt, Bool.or_eq_true, Bool.and_eq_true, decide_eq_true_eq, beq_iff_eq]
        rcases h with h | ⟨h, h'⟩
        · left; omega
        · right; exact ⟨by omega, ih ys os (by simpa using hl) h'⟩

theorem mem_map_addIdx (i st sh : List Nat) (hl : st.length = sh.length) :
    i ∈ (boxIndices sh).map (fun j => addIdx j st) ↔ mem i st sh = true := by
  simp only [List.mem_map, mem_boxIndices]
  constructor
  · rintro ⟨j, hj, rfl⟩; exact mem_addIdx j st sh hl hj
  · intro h; exact ⟨zipSub i st, (mem_zipSub i st sh h).1, (mem_zipSub i st sh h).2⟩

theorem Subset.indices_pairwise (s : Subset) (h : s.wf = true) :
    s.indices.Pairwise (fun a b => lexLt a b = true) := by
  simp only [wf, beq_iff_eq] at h
  simp only [Subset.indices, List.pairwise_map]
  refine (boxIndices_pairwise s.shape).imp_of_mem ?_
  intro a b ha _ hab
  rw [mem_boxIndices] at ha
  exact lexLt_addIdx a b s.start (by rw [inB_length ha, h]; exact Nat.le_refl _) hab

theorem Subset.mem_indices (s : Subset) (h : s.wf = true) (i : Idx) :
    i ∈ s.indices ↔ s.contains i = true := by
  simp only [wf, beq_iff_eq] at h
  exact mem_map_addIdx i s.start s.shape h

theorem Subset.indices_length (s : Subset) : s.indices.length = s.numElements := by
  simp [Subset.indices, boxIndices_length, numElements]

/-- no well-formedness needed: both sides truncate identically -/
theorem Iter.new_items (s : Subset) : (Iter.new s).items = s.indices := by
  simp only [Iter.items, Iter.new, Nat.sub_zero, numElements, ← List.range_eq_range', Subset.indices]
  rw [← range_map_unravel, List.map_map]
  rfl

end Zarrs
