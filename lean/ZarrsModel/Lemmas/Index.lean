import ZarrsModel.Model.Iter
/- helper lemmas for layer A (C09, C10, C17) -/
namespace Zarrs

/-! ### prod -/
@[simp] theorem prod_nil : prod [] = 1 := rfl
@[simp] theorem prod_cons (x : Nat) (xs : List Nat) : prod (x :: xs) = x * prod xs := rfl

theorem prod_append (a b : List Nat) : prod (a ++ b) = prod a * prod b := by
  induction a with
  | nil => simp
  | cons x xs ih => simp [ih, Nat.mul_assoc]

theorem prod_reverse (a : List Nat) : prod a.reverse = prod a := by
  induction a with
  | nil => rfl
  | cons x xs ih => simp [prod_append, ih, Nat.mul_comm]

theorem prod_pos_iff (sh : List Nat) : 0 < prod sh ↔ ∀ d ∈ sh, 0 < d := by
  induction sh with
  | nil => simp
  | cons x xs ih =>
    simp only [prod_cons, List.mem_cons, forall_eq_or_imp, ← ih]
    simp only [Nat.pos_iff_ne_zero, ne_eq, Nat.mul_eq_zero, not_or]

theorem prod_eq_zero_iff (sh : List Nat) : prod sh = 0 ↔ sh.any (· == 0) = true := by
  induction sh with
  | nil => simp
  | cons x xs ih => simp [Nat.mul_eq_zero, ih]

/-! ### unravel -/
theorem unravelRev_append (n : Nat) (ds : List Nat) (d : Nat) :
    unravelRev n (ds ++ [d]) = unravelRev n ds ++ [(n / prod ds) % d] := by
  induction ds generalizing n with
  | nil => simp [unravelRev]
  | cons x xs ih => simp [unravelRev, ih, Nat.div_div_eq_div_mul]

theorem unravelRev_mod (n : Nat) (ds : List Nat) : unravelRev (n % prod ds) ds = unravelRev n ds := by
  induction ds generalizing n with
  | nil => simp [unravelRev]
  | cons x xs ih =>
    simp only [unravelRev, prod_cons, Nat.mod_mul_right_mod, Nat.mod_mul_right_div_self]
    rw [ih]

theorem unravel_cons (n s : Nat) (ss : Shape) :
    unravel n (s :: ss) = ((n / prod ss) % s) :: unravel n ss := by
  simp [unravel, unravelRev_append, prod_reverse]

theorem unravel_mod (n : Nat) (ss : Shape) : unravel (n % prod ss) ss = unravel n ss := by
  unfold unravel
  have := unravelRev_mod n ss.reverse
  rw [prod_reverse] at this
  rw [this]

theorem unravel_eq_L (n : Nat) (sh : Shape) : unravel n sh = unravelL n sh := by
  induction sh generalizing n with
  | nil => rfl
  | cons s ss ih => rw [unravel_cons, unravelL, ← ih, unravel_mod]

theorem ravel_lt (i : Idx) (sh : Shape) (h : inB i sh = true) : ravel i sh < prod sh := by
  induction i generalizing sh with
  | nil => cases sh <;> simp_all [inB, ravel]
  | cons a as ih =>
    cases sh with
    | nil => simp [inB] at h
    | cons s ss =>
      simp only [inB, Bool.and_eq_true, decide_eq_true_eq] at h
      have h1 := ih ss h.2
      simp only [ravel, prod_cons]
      have : (a + 1) * prod ss ≤ s * prod ss := Nat.mul_le_mul_right _ h.1
      rw [Nat.add_mul] at this
      omega

theorem unravelL_ravel (i : Idx) (sh : Shape) (h : inB i sh = true) : unravelL (ravel i sh) sh = i := by
  induction i generalizing sh with
  | nil => cases sh <;> simp_all [inB, unravelL]
  | cons a as ih =>
    cases sh with
    | nil => simp [inB] at h
    | cons s ss =>
      simp only [inB, Bool.and_eq_true, decide_eq_true_eq] at h
      have h1 := ravel_lt as ss h.2
      have hp : 0 < prod ss := by omega
      simp only [ravel, unravelL]
      rw [Nat.mul_comm a, Nat.mul_add_div hp, Nat.mul_add_mod, Nat.div_eq_of_lt h1, Nat.mod_eq_of_lt h1,
        Nat.add_zero, Nat.mod_eq_of_lt h.1, ih ss h.2]

theorem ravel_unravelL (n : Nat) (sh : Shape) (h : n < prod sh) : ravel (unravelL n sh) sh = n := by
  induction sh generalizing n with
  | nil => simp at h; simp [unravelL, ravel, h]
  | cons s ss ih =>
    simp only [prod_cons] at h
    have hp : 0 < prod ss := by
      rcases Nat.eq_zero_or_pos (prod ss) with h0 | h0
      · simp [h0] at h
      · exact h0
    have hlt : n / prod ss < s := by
      rw [Nat.div_lt_iff_lt_mul hp]; exact h
    simp only [unravelL, ravel]
    rw [ih _ (Nat.mod_lt _ hp), Nat.mod_eq_of_lt hlt]
    exact Nat.div_add_mod' n (prod ss)

theorem unravelL_inB (n : Nat) (sh : Shape) (h : n < prod sh) : inB (unravelL n sh) sh = true := by
  induction sh generalizing n with
  | nil => rfl
  | cons s ss ih =>
    simp only [prod_cons] at h
    have hp : 0 < prod ss := by
      rcases Nat.eq_zero_or_pos (prod ss) with h0 | h0
      · simp [h0] at h
      · exact h0
    have hlt : n / prod ss < s := by
      rw [Nat.div_lt_iff_lt_mul hp]; exact h
    simp [unravelL, inB, ih _ (Nat.mod_lt _ hp), Nat.mod_eq_of_lt hlt, hlt]

theorem ravel_lexLt_lt (a b : Idx) (sh : Shape) (ha : inB a sh = true) (hb : inB b sh = true)
    (hlt : lexLt a b = true) : ravel a sh < ravel b sh := by
  induction a generalizing b sh with
  | nil => simp [lexLt] at hlt
  | cons x xs ih =>
    cases b with
    | nil => simp [lexLt] at hlt
    | cons y ys =>
      cases sh with
      | nil => simp [inB] at ha
      | cons s ss =>
        simp only [inB, Bool.and_eq_true, decide_eq_true_eq] at ha hb
        simp only [lexLt, Bool.or_eq_true, Bool.and_eq_true, decide_eq_true_eq, beq_iff_eq] at hlt
        simp only [ravel]
        rcases hlt with h | ⟨h, h'⟩
        · have h1 := ravel_lt xs ss ha.2
          have : (x + 1) * prod ss ≤ y * prod ss := Nat.mul_le_mul_right _ h
          rw [Nat.add_mul] at this
          omega
        · subst h
          have := ih ys ss ha.2 hb.2 h'
          omega

/-! ### range splitting -/
theorem range_mul_map {α} (n p : Nat) (f : Nat → α) :
    (List.range (n * p)).map f =
      (List.range n).flatMap (fun a => (List.range p).map (fun b => f (a * p + b))) := by
  induction n with
  | zero => simp
  | succ n ih =>
    rw [List.range_succ, List.flatMap_append, ← ih, Nat.succ_mul, List.range_eq_range' (n := n * p + p),
      ← List.range'_append, List.map_append, ← List.range_eq_range']
    simp [List.range'_eq_map_range]

theorem flatMap_congr' {α β} {l : List α} {f g : α → List β} (h : ∀ a ∈ l, f a = g a) :
    l.flatMap f = l.flatMap g := by
  induction l with
  | nil => rfl
  | cons x xs ih =>
    simp only [List.flatMap_cons]
    rw [h x (by simp), ih (fun a ha => h a (by simp [ha]))]

/-! ### boxIndices -/
@[simp] theorem addIdx_length (a b : Idx) : (addIdx a b).length = min a.length b.length := by
  induction a generalizing b with
  | nil => simp [addIdx]
  | cons x xs ih => cases b <;> simp [addIdx, ih]

theorem inB_length {i : Idx} {sh : Shape} (h : inB i sh = true) : i.length = sh.length := by
  induction i generalizing sh with
  | nil => cases sh <;> simp_all [inB]
  | cons x xs ih =>
    cases sh with
    | nil => simp [inB] at h
    | cons s ss => simp only [inB, Bool.and_eq_true] at h; simp [ih h.2]

theorem mem_boxIndices (i : Idx) (sh : Shape) : i ∈ boxIndices sh ↔ inB i sh = true := by
  induction sh generalizing i with
  | nil => cases i <;> simp [boxIndices, inB]
  | cons n ns ih =>
    cases i with
    | nil => simp [boxIndices, inB]
    | cons x xs => simp [boxIndices, inB, ih]

theorem boxIndices_length (sh : Shape) : (boxIndices sh).length = prod sh := by
  induction sh with
  | nil => rfl
  | cons n ns ih =>
    simp only [boxIndices, List.length_flatMap, List.length_map, ih, prod_cons]
    induction n with
    | zero => simp
    | succ n ihn => simp [List.range_succ, ihn, Nat.succ_mul]

theorem boxIndices_pairwise (sh : Shape) : (boxIndices sh).Pairwise (fun a b => lexLt a b = true) := by
  induction sh with
  | nil => simp [boxIndices]
  | cons n ns ih =>
    simp only [boxIndices, List.pairwise_flatMap, List.pairwise_map]
    refine ⟨fun a _ => ih.imp (fun h => by simp [lexLt, h]), ?_⟩
    refine List.pairwise_lt_range.imp ?_
    intro a b hab x hx y hy
    simp only [List.mem_map] at hx hy
    obtain ⟨x', _, rfl⟩ := hx
    obtain ⟨y', _, rfl⟩ := hy
    simp [lexLt, hab]

/-- the iterator's enumeration (positions `0..prod sh` unravelled) is the specification enumeration -/
theorem range_map_unravelL (sh : Shape) :
    (List.range (prod sh)).map (fun k => unravelL k sh) = boxIndices sh := by
  induction sh with
  | nil => rfl
  | cons n ns ih =>
    rw [prod_cons, range_mul_map, boxIndices]
    apply flatMap_congr'
    intro a ha
    rw [← ih, List.map_map]
    apply List.map_congr_left
    intro b hb
    simp only [List.mem_range] at ha hb
    have hp : 0 < prod ns := by omega
    simp only [unravelL, Function.comp]
    rw [Nat.mul_comm a, Nat.mul_add_div hp, Nat.mul_add_mod, Nat.div_eq_of_lt hb, Nat.mod_eq_of_lt hb,
      Nat.add_zero, Nat.mod_eq_of_lt ha]

theorem range_map_unravel (sh : Shape) :
    (List.range (prod sh)).map (fun k => unravel k sh) = boxIndices sh := by
  simp only [unravel_eq_L]; exact range_map_unravelL sh

/-! ### Iter -/
namespace Iter

theorem items_length (it : Iter) : it.items.length = it.len := by
  simp [items, len]

theorem items_of_not_lt (it : Iter) (h : ¬ it.lo < it.hi) : it.items = [] := by
  have : it.hi - it.lo = 0 := by omega
  simp [items, this]

theorem items_front (it : Iter) (h : it.lo < it.hi) :
    it.items = it.item it.lo :: ({ it with lo := it.lo + 1 } : Iter).items := by
  have : it.hi - it.lo = (it.hi - (it.lo + 1)) + 1 := by omega
  simp only [items]
  rw [this, List.range'_succ]
  rfl

theorem items_back (it : Iter) (h : it.lo < it.hi) :
    it.items = ({ it with hi := it.hi - 1 } : Iter).items ++ [it.item (it.hi - 1)] := by
  have h1 : it.hi - it.lo = (it.hi - 1 - it.lo) + 1 := by omega
  have h2 : it.lo + (it.hi - 1 - it.lo) = it.hi - 1 := by omega
  simp only [items]
  rw [h1, ← List.range'_append (m := it.hi - 1 - it.lo) (n := 1), List.map_append]
  simp [h2, item]

theorem run_true_some (it : Iter) (ds : List Bool) (h : it.lo < it.hi) :
    it.run (true :: ds) =
      (it.item it.lo :: (({ it with lo := it.lo + 1 } : Iter).run ds).1,
       (({ it with lo := it.lo + 1 } : Iter).run ds).2.1,
       (({ it with lo := it.lo + 1 } : Iter).run ds).2.2) := by
  simp [run, next, h]

theorem run_false_some (it : Iter) (ds : List Bool) (h : it.lo < it.hi) :
    it.run (false :: ds) =
      ((({ it with hi := it.hi - 1 } : Iter).run ds).1,
       it.item (it.hi - 1) :: (({ it with hi := it.hi - 1 } : Iter).run ds).2.1,
       (({ it with hi := it.hi - 1 } : Iter).run ds).2.2) := by
  simp [run, nextBack, h]

theorem run_none (it : Iter) (d : Bool) (ds : List Bool) (h : ¬ it.lo < it.hi) :
    it.run (d :: ds) = it.run ds := by
  cases d <;> simp [run, next, nextBack, h]

theorem run_spec (it : Iter) (dirs : List Bool) :
    (it.run dirs).1 ++ (it.run dirs).2.2.items ++ (it.run dirs).2.1.reverse = it.items ∧
    (it.run dirs).2.2.len + (it.run dirs).1.length + (it.run dirs).2.1.length = it.len := by
  induction dirs generalizing it with
  | nil => simp [run]
  | cons d ds ih =>
    by_cases h : it.lo < it.hi
    · cases d with
      | true =>
        rw [run_true_some it ds h, items_front it h]
        have := ih { it with lo := it.lo + 1 }
        refine ⟨by simp [← this.1], ?_⟩
        have h2 := this.2
        simp only [len, List.length_cons] at h2 ⊢
        omega
      | false =>
        rw [run_false_some it ds h, items_back it h]
        have := ih { it with hi := it.hi - 1 }
        refine ⟨by simp [← this.1], ?_⟩
        have h2 := this.2
        simp only [len, List.length_cons] at h2 ⊢
        omega
    · rw [run_none it d ds h]; exact ih it

theorem items_split (it : Iter) (k : Nat) (h : k ≤ it.len) :
    (it.splitAt k).1.items ++ (it.splitAt k).2.items = it.items := by
  simp only [len] at h
  have h1 : it.lo + k - it.lo = k := by omega
  have h2 : it.hi - it.lo = k + (it.hi - (it.lo + k)) := by omega
  simp only [splitAt, items, h1]
  rw [h2, ← List.range'_append, List.map_append]
  simp
  rfl

end Iter

theorem SplitTree.leaves_items (t : SplitTree) (it : Iter) (h : t.fits it.len = true) :
    (t.leaves it).flatMap Iter.items = it.items := by
  induction t generalizing it with
  | leaf => simp [SplitTree.leaves]
  | node k l r ihl ihr =>
    simp only [SplitTree.fits, Bool.and_eq_true, decide_eq_true_eq] at h
    obtain ⟨⟨hk, hl⟩, hr⟩ := h
    simp only [SplitTree.leaves, List.flatMap_append]
    rw [ihl, ihr, Iter.items_split it k hk]
    · simp only [Iter.len] at hk hr ⊢
      have : it.hi - (it.lo + k) = it.hi - it.lo - k := by omega
      simpa [Iter.splitAt, this] using hr
    · simp only [Iter.len] at hk hl ⊢
      have : it.lo + k - it.lo = k := by omega
      simpa [Iter.splitAt, this] using hl
open Subset

/-! ### lengths of the zip helpers -/
@[simp] theorem zipMin_length (a b : List Nat) : (zipMin a b).length = min a.length b.length := by
  induction a generalizing b with
  | nil => simp [zipMin]
  | cons x xs ih => cases b <;> simp [zipMin, ih]
@[simp] theorem zipMax_length (a b : List Nat) : (zipMax a b).length = min a.length b.length := by
  induction a generalizing b with
  | nil => simp [zipMax]
  | cons x xs ih => cases b <;> simp [zipMax, ih]
@[simp] theorem zipSub_length (a b : List Nat) : (zipSub a b).length = min a.length b.length := by
  induction a generalizing b with
  | nil => simp [zipSub]
  | cons x xs ih => cases b <;> simp [zipSub, ih]
@[simp] theorem zipDiv_length (a b : List Nat) : (zipDiv a b).length = min a.length b.length := by
  induction a generalizing b with
  | nil => simp [zipDiv]
  | cons x xs ih => cases b <;> simp [zipDiv, ih]
@[simp] theorem zipMul_length (a b : List Nat) : (zipMul a b).length = min a.length b.length := by
  induction a generalizing b with
  | nil => simp [zipMul]
  | cons x xs ih => cases b <;> simp [zipMul, ih]

/-! ### membership -/
theorem mem_length {i o n : List Nat} (h : mem i o n = true) : i.length = o.length ∧ o.length = n.length := by
  induction i generalizing o n with
  | nil => cases o <;> cases n <;> simp_all [mem]
  | cons x xs ih =>
    cases o with
    | nil => simp [mem] at h
    | cons y ys =>
      cases n with
      | nil => simp [mem] at h
      | cons z zs =>
        simp only [mem, Bool.and_eq_true] at h
        have := ih h.2
        simp [this.1, this.2]

theorem mem_addIdx (j st sh : List Nat) (hl : st.length = sh.length) (h : inB j sh = true) :
    mem (addIdx j st) st sh = true := by
  induction j generalizing st sh with
  | nil => cases sh <;> cases st <;> simp_all [inB, addIdx, mem]
  | cons x xs ih =>
    cases sh with
    | nil => simp [inB] at h
    | cons s ss =>
      cases st with
      | nil => simp at hl
      | cons o os =>
        simp only [inB, Bool.and_eq_true, decide_eq_true_eq] at h
        simp only [List.length_cons, Nat.add_right_cancel_iff] at hl
        simp only [addIdx, mem, Bool.and_eq_true, decide_eq_true_eq]
        exact ⟨⟨by omega, by omega⟩, ih os ss hl h.2⟩

theorem mem_zipSub (i st sh : List Nat) (h : mem i st sh = true) :
    inB (zipSub i st) sh = true ∧ addIdx (zipSub i st) st = i := by
  induction i generalizing st sh with
  | nil => cases st <;> cases sh <;> simp_all [mem, zipSub, inB, addIdx]
  | cons x xs ih =>
    cases st with
    | nil => simp [mem] at h
    | cons o os =>
      cases sh with
      | nil => simp [mem] at h
      | cons s ss =>
        simp only [mem, Bool.and_eq_true, decide_eq_true_eq] at h
        have := ih os ss h.2
        simp only [zipSub, inB, addIdx, this.1, this.2, Bool.and_true, decide_eq_true_eq]
        refine ⟨by omega, ?_⟩
        congr 1; omega

theorem lexLt_addIdx (a b st : List Nat) (hl : a.length ≤ st.length) (h : lexLt a b = true) :
    lexLt (addIdx a st) (addIdx b st) = true := by
  induction a generalizing b st with
  | nil => simp [lexLt] at h
  | cons x xs ih =>
    cases b with
    | nil => simp [lexLt] at h
    | cons y ys =>
      cases st with
      | nil => simp at hl
      | cons o os =>
        simp only [lexLt, Bool.or_eq_true, Bool.and_eq_true, decide_eq_true_eq, beq_iff_eq] at h
        simp only [addIdx, lexLt, Bool.or_eq_true, Bool.and_eq_true, decide_eq_true_eq, beq_iff_eq]
        rcases h with h | ⟨h, h'⟩
        · left; omega
        · right; exact ⟨by omega, ih ys os (by simpa using hl) h'⟩

theorem mem_map_addIdx (i st sh : List Nat) (hl : st.length = sh.length) :
    i ∈ (boxIndices sh).map (fun j => addIdx j st) ↔ mem i st sh = true := by
  simp only [List.mem_map, mem_boxIndices]
  constructor
  · rintro ⟨j, hj, rfl⟩; exact mem_addIdx j st sh hl hj
  · intro h; exact ⟨zipSub i st, (mem_zipSub i st sh h).1, (mem_zipSub i st sh h).2⟩

theorem Subset.indices_pairwise (s : Subset) (h : s.wf = true) :
    s.indices.Pairwise (fun a b => lexLt a b = true) := by
  simp only [wf, beq_iff_eq] at h
  simp only [Subset.indices, List.pairwise_map]
  refine (boxIndices_pairwise s.shape).imp_of_mem ?_
  intro a b ha _ hab
  rw [mem_boxIndices] at ha
  exact lexLt_addIdx a b s.start (by rw [inB_length ha, h]; exact Nat.le_refl _) hab

theorem Subset.mem_indices (s : Subset) (h : s.wf = true) (i : Idx) :
    i ∈ s.indices ↔ s.contains i = true := by
  simp only [wf, beq_iff_eq] at h
  exact mem_map_addIdx i s.start s.shape h

theorem Subset.indices_length (s : Subset) : s.indices.length = s.numElements := by
  simp [Subset.indices, boxIndices_length, numElements]

/-- no well-formedness needed: both sides truncate identically -/
theorem Iter.new_items (s : Subset) : (Iter.new s).items = s.indices := by
  simp only [Iter.items, Iter.new, Nat.sub_zero, numElements, ← List.range_eq_range', Subset.indices]
  rw [← range_map_unravel, List.map_map]
  rfl
open Subset

/-! ### subset algebra -/
theorem overlap_dim (x oa na ob nb : Nat) :
    (decide (max oa ob ≤ x) && decide (x < max oa ob + (min (oa + na) (ob + nb) - max oa ob))) =
      ((decide (oa ≤ x) && decide (x < oa + na)) && (decide (ob ≤ x) && decide (x < ob + nb))) := by
  rw [Bool.eq_iff_iff]; simp only [Bool.and_eq_true, decide_eq_true_eq]; omega

theorem mem_overlap (i oa na ob nb : List Nat) (ha : oa.length = na.length) (hb : ob.length = nb.length)
    (hr : oa.length = ob.length) :
    mem i (zipMax oa ob) (zipSub (zipMin (addIdx oa na) (addIdx ob nb)) (zipMax oa ob)) =
      (mem i oa na && mem i ob nb) := by
  induction i generalizing oa na ob nb with
  | nil =>
    cases oa <;> cases na <;> (try (simp at ha; done)) <;> cases ob <;> (try (simp at hr; done)) <;>
      cases nb <;> (try (simp at hb; done)) <;> simp [mem, zipMax, zipMin, zipSub, addIdx]
  | cons x xs ih =>
    cases oa <;> cases na <;> (try (simp at ha; done)) <;> cases ob <;> (try (simp at hr; done)) <;>
      cases nb <;> (try (simp at hb; done))
    · simp [mem, zipMax, zipMin, zipSub, addIdx]
    · rename_i o1 os1 n1 ns1 o2 os2 n2 ns2
      simp only [List.length_cons, Nat.add_right_cancel_iff] at ha hb hr
      simp only [mem, zipMax, zipMin, zipSub, addIdx]
      rw [ih os1 ns1 os2 ns2 ha hb hr]
      rw [overlap_dim]
      cases mem xs os1 ns1 <;> cases mem xs os2 ns2 <;> simp

theorem zipUnderflow_any (x y : List Nat) (h : zipUnderflow x y = true) :
    (zipSub x y).any (· == 0) = true := by
  induction x generalizing y with
  | nil => simp [zipUnderflow] at h
  | cons a as ih =>
    cases y with
    | nil => simp [zipUnderflow] at h
    | cons b bs =>
      simp only [zipUnderflow, Bool.or_eq_true, decide_eq_true_eq] at h
      simp only [zipSub, List.any_cons, Bool.or_eq_true, beq_iff_eq]
      rcases h with h | h
      · left; omega
      · right; exact ih bs h

theorem bound_dim (x o n e : Nat) :
    (decide (min o e ≤ x) && decide (x < min o e + (min (o + n) e - min o e))) =
      ((decide (o ≤ x) && decide (x < o + n)) && decide (x < e)) := by
  rw [Bool.eq_iff_iff]; simp only [Bool.and_eq_true, decide_eq_true_eq]; omega

theorem mem_bound (i o n e : List Nat) (h : o.length = n.length) (he : e.length = o.length) :
    mem i (zipMin o e) (zipSub (zipMin (addIdx o n) e) (zipMin o e)) = (mem i o n && inB i e) := by
  induction i generalizing o n e with
  | nil =>
    cases o <;> cases n <;> (try (simp at h; done)) <;> cases e <;> (try (simp at he; done)) <;>
      simp [mem, zipMin, zipSub, addIdx, inB]
  | cons x xs ih =>
    cases o <;> cases n <;> (try (simp at h; done)) <;> cases e <;> (try (simp at he; done))
    · simp [mem, zipMin, zipSub, addIdx]
    · rename_i o1 os n1 ns e1 es
      simp only [List.length_cons, Nat.add_right_cancel_iff] at h he
      simp only [mem, zipMin, zipSub, addIdx, inB]
      rw [ih os ns es h he, bound_dim]
      cases mem xs os ns <;> cases inB xs es <;> simp

theorem mem_relativeTo (i st sh o : List Nat) (h : st.length = sh.length) (ho : o.length = st.length)
    (hu : zipUnderflow st o = false) (hi : i.length ≤ st.length) :
    mem i (zipSub st o) sh = mem (addIdx i o) st sh := by
  induction i generalizing st sh o with
  | nil =>
    cases st <;> cases sh <;> (try (simp at h; done)) <;> cases o <;> (try (simp at ho; done)) <;>
      simp [mem, zipSub, addIdx]
  | cons x xs ih =>
    cases st <;> cases sh <;> (try (simp at h; done)) <;> cases o <;> (try (simp at ho; done))
    · simp at hi
    · rename_i s1 ss n1 ns o1 os
      simp only [List.length_cons, Nat.add_right_cancel_iff, Nat.add_le_add_iff_right] at h ho hi
      simp only [zipUnderflow, Bool.or_eq_false_iff, decide_eq_false_iff_not] at hu
      simp only [mem, zipSub, addIdx]
      rw [ih ss ns os h ho hu.2 hi]
      congr 1
      rw [Bool.eq_iff_iff]; simp only [Bool.and_eq_true, decide_eq_true_eq]; omega

theorem mem_of_allLe (i so sn oo on : List Nat) (hs : so.length = sn.length) (ho : oo.length = on.length)
    (hr : so.length = oo.length) (h1 : allLe oo so = true)
    (h2 : allLe (addIdx so sn) (addIdx oo on) = true) (hm : mem i so sn = true) : mem i oo on = true := by
  induction i generalizing so sn oo on with
  | nil =>
    cases so <;> cases sn <;> (try (simp at hs; done)) <;> cases oo <;> (try (simp at hr; done)) <;>
      cases on <;> (try (simp at ho; done)) <;> simp_all [mem]
  | cons x xs ih =>
    cases so <;> cases sn <;> (try (simp at hs; done)) <;> cases oo <;> (try (simp at hr; done)) <;>
      cases on <;> (try (simp at ho; done))
    · simp [mem] at hm
    · rename_i s1 ss n1 ns o1 os m1 ms
      simp only [List.length_cons, Nat.add_right_cancel_iff] at hs ho hr
      simp only [allLe, addIdx, Bool.and_eq_true, decide_eq_true_eq] at h1 h2
      simp only [mem, Bool.and_eq_true, decide_eq_true_eq] at hm ⊢
      exact ⟨⟨by omega, by omega⟩, ih ss ns os ms hs ho hr h1.2 h2.2 hm.2⟩

theorem mem_of_any_zero (i st sh : List Nat) (h : sh.any (· == 0) = true) : mem i st sh = false := by
  induction i generalizing st sh with
  | nil => cases st <;> cases sh <;> simp_all [mem]
  | cons x xs ih =>
    cases st with
    | nil => simp [mem]
    | cons o os =>
      cases sh with
      | nil => simp [mem]
      | cons n ns =>
        simp only [List.any_cons, Bool.or_eq_true, beq_iff_eq] at h
        simp only [mem, Bool.and_eq_false_iff, decide_eq_false_iff_not]
        rcases h with h | h
        · left; omega
        · right; exact ih os ns h

theorem mem_start (st sh : List Nat) (h : st.length = sh.length) (hne : sh.any (· == 0) = false) :
    mem st st sh = true := by
  induction st generalizing sh with
  | nil => cases sh <;> simp_all [mem]
  | cons o os ih =>
    cases sh with
    | nil => simp at h
    | cons n ns =>
      simp only [List.any_cons, Bool.or_eq_false_iff, beq_eq_false_iff_ne] at hne
      simp only [List.length_cons, Nat.add_right_cancel_iff] at h
      simp only [mem, Bool.and_eq_true, decide_eq_true_eq]
      exact ⟨⟨by omega, by omega⟩, ih ns h hne.2⟩

theorem mem_last (st sh : List Nat) (h : st.length = sh.length) (hne : sh.any (· == 0) = false) :
    mem ((addIdx st sh).map (· - 1)) st sh = true := by
  induction st generalizing sh with
  | nil => cases sh <;> simp_all [mem, addIdx]
  | cons o os ih =>
    cases sh with
    | nil => simp at h
    | cons n ns =>
      simp only [List.any_cons, Bool.or_eq_false_iff, beq_eq_false_iff_ne] at hne
      simp only [List.length_cons, Nat.add_right_cancel_iff] at h
      simp only [addIdx, List.map_cons, mem, Bool.and_eq_true, decide_eq_true_eq]
      exact ⟨⟨by omega, by omega⟩, ih ns h hne.2⟩

theorem allLe_of_mem (i o n : List Nat) (h : mem i o n = true) : allLe o i = true := by
  induction i generalizing o n with
  | nil => cases o <;> simp [allLe]
  | cons x xs ih =>
    cases o with
    | nil => simp [allLe]
    | cons o os =>
      cases n with
      | nil => simp [mem] at h
      | cons n ns =>
        simp only [mem, Bool.and_eq_true, decide_eq_true_eq] at h
        simp only [allLe, Bool.and_eq_true, decide_eq_true_eq]
        exact ⟨h.1.1, ih os ns h.2⟩

theorem allLe_end_of_mem_last (so sn oo on : List Nat) (hne : sn.any (· == 0) = false)
    (h : mem ((addIdx so sn).map (· - 1)) oo on = true) :
    allLe (addIdx so sn) (addIdx oo on) = true := by
  induction so generalizing sn oo on with
  | nil => simp [addIdx, allLe]
  | cons s ss ih =>
    cases sn with
    | nil => simp [addIdx, allLe]
    | cons n ns =>
      cases oo with
      | nil => simp [addIdx, allLe]
      | cons o os =>
        cases on with
        | nil => simp [addIdx, allLe]
        | cons m ms =>
          simp only [List.any_cons, Bool.or_eq_false_iff, beq_eq_false_iff_ne] at hne
          simp only [addIdx, List.map_cons, mem, Bool.and_eq_true, decide_eq_true_eq] at h
          simp only [addIdx, allLe, Bool.and_eq_true, decide_eq_true_eq]
          exact ⟨by omega, ih ns os ms hne.2 h.2⟩

theorem inB_of_allLe_end (i st sh arr : List Nat) (hl : st.length = arr.length)
    (h : allLe (addIdx st sh) arr = true) (hm : mem i st sh = true) : inB i arr = true := by
  induction i generalizing st sh arr with
  | nil =>
    cases st <;> cases sh <;> (try (simp [mem] at hm; done)) <;> cases arr <;> (try (simp at hl; done))
    rfl
  | cons x xs ih =>
    cases st <;> cases sh <;> (try (simp [mem] at hm; done)) <;> cases arr <;> (try (simp at hl; done))
    rename_i o os n ns a as
    simp only [List.length_cons, Nat.add_right_cancel_iff] at hl
    simp only [addIdx, allLe, Bool.and_eq_true, decide_eq_true_eq] at h
    simp only [mem, Bool.and_eq_true, decide_eq_true_eq] at hm
    simp only [inB, Bool.and_eq_true, decide_eq_true_eq]
    exact ⟨by omega, ih os ns as hl h.2 hm.2⟩

theorem allLe_end_of_inB_last (st sh arr : List Nat) (hne : sh.any (· == 0) = false)
    (h : inB ((addIdx st sh).map (· - 1)) arr = true) : allLe (addIdx st sh) arr = true := by
  induction st generalizing sh arr with
  | nil => simp [addIdx, allLe]
  | cons o os ih =>
    cases sh with
    | nil => simp [addIdx, allLe]
    | cons n ns =>
      cases arr with
      | nil => simp [addIdx, allLe]
      | cons a as =>
        simp only [List.any_cons, Bool.or_eq_false_iff, beq_eq_false_iff_ne] at hne
        simp only [addIdx, List.map_cons, inB, Bool.and_eq_true, decide_eq_true_eq] at h
        simp only [addIdx, allLe, Bool.and_eq_true, decide_eq_true_eq]
        exact ⟨by omega, ih ns as hne.2 h.2⟩
open Subset

/-! ### contiguous runs -/
/-- linear indices (in `arr`) of the box `sh` translated by `st` -/
def linIdx (st sh arr : List Nat) : List Nat :=
  ((boxIndices sh).map (fun i => addIdx i st)).map (fun i => ravel i arr)

theorem linIdx_cons (o : Nat) (os : List Nat) (n : Nat) (ns : List Nat) (a : Nat) (as : List Nat) :
    linIdx (o :: os) (n :: ns) (a :: as) =
      (List.range n).flatMap (fun k => (linIdx os ns as).map (fun r => (k + o) * prod as + r)) := by
  simp only [linIdx, boxIndices, List.map_flatMap, List.map_map]
  rfl

theorem flatMap_range'_map_add (l : List Nat) (c ce : Nat) :
    (l.map (fun r => c + r)).flatMap (fun r => List.range' r ce) =
      (l.flatMap (fun r => List.range' r ce)).map (fun r => c + r) := by
  simp only [List.flatMap_map, List.map_flatMap]
  apply flatMap_congr'
  intro r _
  rw [List.range'_eq_map_range, List.range'_eq_map_range, List.map_map]
  apply List.map_congr_left
  intro x _
  simp [Nat.add_assoc]

theorem contigAux_length (st sh arr : List Nat) (h1 : st.length = sh.length) (h2 : st.length = arr.length) :
    (contigAux st sh arr).2.2.length = st.length := by
  induction st generalizing sh arr with
  | nil => cases sh <;> cases arr <;> simp [contigAux]
  | cons o os ih =>
    cases sh with
    | nil => simp at h1
    | cons n ns =>
      cases arr with
      | nil => simp at h2
      | cons a as =>
        simp only [List.length_cons, Nat.add_right_cancel_iff] at h1 h2
        have := ih ns as h1 h2
        simp only [contigAux]
        split <;> simp [this]

/-- the invariant of the right-to-left fold -/
theorem contigAux_spec (st sh arr : List Nat) (h1 : st.length = sh.length) (h2 : st.length = arr.length) :
    (linIdx st (contigAux st sh arr).2.2 arr).flatMap (fun r => List.range' r (contigAux st sh arr).2.1)
        = linIdx st sh arr ∧
    ((contigAux st sh arr).1 = true →
      linIdx st (contigAux st sh arr).2.2 arr = [0] ∧ (contigAux st sh arr).2.1 = prod arr) := by
  induction st generalizing sh arr with
  | nil =>
    cases sh <;> cases arr <;> (try (simp at h1; done)) <;> (try (simp at h2; done))
    simp [contigAux, linIdx, boxIndices, addIdx, ravel]
  | cons o os ih =>
    cases sh with
    | nil => simp at h1
    | cons n ns =>
      cases arr with
      | nil => simp at h2
      | cons a as =>
        simp only [List.length_cons, Nat.add_right_cancel_iff] at h1 h2
        obtain ⟨ih1, ih2⟩ := ih ns as h1 h2
        simp only [contigAux]
        cases hc : (contigAux os ns as).1 with
        | false =>
          simp only [Bool.false_eq_true, if_false, false_implies, and_true]
          rw [linIdx_cons, linIdx_cons, List.flatMap_assoc]
          apply flatMap_congr'
          intro k _
          rw [flatMap_range'_map_add, ih1]
        | true =>
          obtain ⟨e1, e2⟩ := ih2 hc
          simp only [if_true]
          have hL : linIdx (o :: os) (1 :: (contigAux os ns as).2.2) (a :: as) = [o * prod as] := by
            rw [linIdx_cons, e1]; simp
          rw [e1, e2] at ih1
          refine ⟨?_, ?_⟩
          · rw [hL, linIdx_cons, ← ih1, e2]
            simp only [List.flatMap_cons, List.flatMap_nil, List.append_nil]
            rw [List.range'_eq_map_range, Nat.mul_comm (prod as) n, range_mul_map]
            apply flatMap_congr'
            intro k _
            rw [List.range'_eq_map_range, List.map_map]
            apply List.map_congr_left
            intro x _
            simp [Nat.add_mul, Nat.add_comm, Nat.add_left_comm]
          · intro hh
            simp only [Bool.and_eq_true, beq_iff_eq] at hh
            rw [hL, e2, hh.1, hh.2]
            simp [Nat.mul_comm]

theorem Subset.contiguous_starts (s : Subset) (arr : Shape) :
    (s.contiguous arr).starts = ⟨s.start, (contigAux s.start s.shape arr).2.2⟩ := rfl

theorem Subset.contiguous_run (s : Subset) (arr : Shape) :
    (s.contiguous arr).run = (contigAux s.start s.shape arr).2.1 := rfl

theorem Subset.linearised_eq_linIdx (s : Subset) (arr : Shape) :
    s.linearised arr = linIdx s.start s.shape arr := by
  simp only [Subset.linearised, Iter.new_items, Subset.indices, linIdx]

theorem Subset.contiguousLinearised_eq_linIdx (s : Subset) (arr : Shape) :
    s.contiguousLinearised arr = linIdx s.start (contigAux s.start s.shape arr).2.2 arr := by
  simp only [Subset.contiguousLinearised, Subset.contiguousIndices, Iter.new_items, Subset.indices, linIdx,
    Subset.contiguous_starts]

theorem Subset.contiguous_tiles (s : Subset) (arr : Shape) (h : s.start.length = s.shape.length)
    (hr : s.start.length = arr.length) :
    (s.contiguousLinearised arr).flatMap (fun r => List.range' r (s.contiguous arr).run) =
      s.linearised arr := by
  rw [s.contiguousLinearised_eq_linIdx, s.linearised_eq_linIdx, s.contiguous_run]
  exact (contigAux_spec s.start s.shape arr h hr).1

/-- `range' (r*es) (run*es)` is the concatenation of the `es`-byte cells of `range' r run` -/
theorem range'_mul_cells (r run es : Nat) :
    List.range' (r * es) (run * es) = (List.range' r run).flatMap (fun k => List.range' (k * es) es) := by
  induction run generalizing r with
  | zero => simp
  | succ n ih =>
    have e : (n + 1) * es = es + n * es := by rw [Nat.succ_mul, Nat.add_comm]
    rw [List.range'_succ, List.flatMap_cons, ← ih, e, ← List.range'_append]
    simp [Nat.add_mul]

theorem take_drop_map_some {α} (xs : List α) (i r : Nat) (h : ∀ k ∈ List.range' i r, k < xs.length) :
    ((xs.drop i).take r).map some = (List.range' i r).map (fun k => xs[k]?) := by
  induction r generalizing i with
  | zero => simp
  | succ n ih =>
    have hi : i < xs.length := h i (by simp [List.mem_range'_1])
    rw [List.range'_succ, List.map_cons, ← ih (i + 1) (fun k hk => h k (by
      simp only [List.mem_range'_1] at hk ⊢; omega))]
    rw [List.drop_eq_getElem_cons hi, List.take_succ_cons, List.map_cons, List.getElem?_eq_getElem hi]
open Subset

/-! ### chunks -/
theorem chunk_dim (st sh cs c : Nat) (hcs : 0 < cs) (hsh : 0 < sh) :
    (st / cs ≤ c ∧ c < st / cs + ((st + sh - 1) / cs - st / cs + 1)) ↔
      ∃ i, (st ≤ i ∧ i < st + sh) ∧ (c * cs ≤ i ∧ i < c * cs + cs) := by
  constructor
  · rintro ⟨h1, h2⟩
    have hmono : st / cs ≤ (st + sh - 1) / cs := Nat.div_le_div_right (by omega)
    have h3 : c ≤ (st + sh - 1) / cs := by omega
    have h4 : c * cs ≤ st + sh - 1 := (Nat.le_div_iff_mul_le hcs).1 h3
    have h5 : st < (c + 1) * cs := by
      have : st / cs < c + 1 := by omega
      exact (Nat.div_lt_iff_lt_mul hcs).1 this
    rw [Nat.add_mul] at h5
    refine ⟨max st (c * cs), ?_⟩
    omega
  · rintro ⟨i, ⟨h1, h2⟩, h3, h4⟩
    have hc : i / cs = c := by
      apply Nat.div_eq_of_lt_le
      · exact h3
      · rw [Nat.add_mul]; omega
    have hmono : st / cs ≤ (st + sh - 1) / cs := Nat.div_le_div_right (by omega)
    have ha : st / cs ≤ i / cs := Nat.div_le_div_right h1
    have hb : i / cs ≤ (st + sh - 1) / cs := Nat.div_le_div_right (by omega)
    omega

theorem mem_chunkBox (c st sh cs : List Nat) (h1 : st.length = sh.length) (h2 : cs.length = st.length)
    (hpos : ∀ k ∈ cs, 0 < k) (hne : sh.any (· == 0) = false) :
    mem c (zipDiv st cs) ((zipSub (zipDiv ((addIdx st sh).map (· - 1)) cs) (zipDiv st cs)).map (· + 1)) = true ↔
      (c.length = st.length ∧ ∃ i, mem i st sh = true ∧ mem i (zipMul c cs) cs = true) := by
  induction c generalizing st sh cs with
  | nil =>
    cases st <;> cases sh <;> (try (simp at h1; done)) <;> cases cs <;> (try (simp at h2; done))
    · simp only [zipDiv, addIdx, List.map_nil, zipSub, mem, List.length_nil, zipMul, true_and, true_iff]
      exact ⟨[], rfl, rfl⟩
    · simp [mem, zipDiv]
  | cons c0 ct ih =>
    cases st <;> cases sh <;> (try (simp at h1; done)) <;> cases cs <;> (try (simp at h2; done))
    · simp [mem, zipDiv]
    · rename_i o os n ns k ks
      simp only [List.length_cons, Nat.add_right_cancel_iff] at h1 h2
      simp only [List.any_cons, Bool.or_eq_false_iff, beq_eq_false_iff_ne] at hne
      have hk : 0 < k := hpos k (by simp)
      have hn : 0 < n := by omega
      have ih' := ih os ns ks h1 h2 (fun k hk => hpos k (by simp [hk])) hne.2
      simp only [zipDiv, addIdx, List.map_cons, zipSub, mem, Bool.and_eq_true, decide_eq_true_eq,
        List.length_cons, Nat.add_right_cancel_iff, zipMul]
      rw [ih', chunk_dim o n k c0 hk hn]
      constructor
      · rintro ⟨⟨i0, hi0, hi0'⟩, hl, it, hit, hit'⟩
        refine ⟨hl, i0 :: it, ?_, ?_⟩
        · simp only [mem, Bool.and_eq_true, decide_eq_true_eq]; exact ⟨hi0, hit⟩
        · simp only [mem, Bool.and_eq_true, decide_eq_true_eq]; exact ⟨hi0', hit'⟩
      · rintro ⟨hl, i, hi, hi'⟩
        cases i with
        | nil => simp [mem] at hi
        | cons i0 it =>
          simp only [mem, Bool.and_eq_true, decide_eq_true_eq] at hi hi'
          exact ⟨⟨i0, hi.1, hi'.1⟩, hl, it, hi.2, hi'.2⟩

theorem prod_replicate_zero (d : Nat) (h : 0 < d) : prod (List.replicate d 0) = 0 := by
  cases d with
  | zero => omega
  | succ d => simp [List.replicate_succ]

theorem Subset.chunks_fst (s : Subset) (cs : Shape) :
    (s.chunks cs).map (·.1) = (s.chunkBox cs).indices := by
  simp only [Subset.chunks, Iter.new_items, List.map_map]
  exact List.map_id _

theorem Subset.chunkBox_nonempty (s : Subset) (cs : Shape) (h : s.isEmpty = false) :
    s.chunkBox cs = ⟨zipDiv s.start cs,
      (zipSub (zipDiv ((addIdx s.start s.shape).map (· - 1)) cs) (zipDiv s.start cs)).map (· + 1)⟩ := by
  simp [Subset.chunkBox, Subset.endInc, h]

theorem Subset.chunkBox_empty (s : Subset) (cs : Shape) (h : s.isEmpty = true) :
    s.chunkBox cs = Subset.newEmpty s.rank := by
  simp [Subset.chunkBox, Subset.endInc, h]

theorem Subset.chunkBox_wf (s : Subset) (cs : Shape) (h : s.wf = true) (hc : cs.length = s.rank) :
    (s.chunkBox cs).wf = true := by
  simp only [wf, rank, beq_iff_eq] at h hc
  cases he : s.isEmpty with
  | true => rw [s.chunkBox_empty cs he]; simp [newEmpty, wf]
  | false =>
    rw [s.chunkBox_nonempty cs he]
    simp only [wf, beq_iff_eq, zipDiv_length, List.length_map, zipSub_length, addIdx_length]
    omega

theorem Subset.contains_chunkBox (s : Subset) (cs : Shape) (h : s.wf = true) (hc : cs.length = s.rank)
    (hpos : ∀ k ∈ cs, 0 < k) (c : Idx) :
    (s.chunkBox cs).contains c = true ↔
      (c.length = s.rank ∧ ∃ i, s.contains i = true ∧ (Subset.mk (zipMul c cs) cs).contains i = true) := by
  simp only [wf, beq_iff_eq] at h
  simp only [rank] at hc
  cases he : s.isEmpty with
  | true =>
    rw [s.chunkBox_empty cs he]
    simp only [isEmpty] at he
    have hd : 0 < s.rank := by
      simp only [rank, h]
      cases hs : s.shape with
      | nil => simp [hs] at he
      | cons _ _ => simp
    have h0 : (List.replicate s.rank 0).any (· == 0) = true := by
      cases hr : s.rank with
      | zero => omega
      | succ d => simp [List.replicate_succ]
    simp only [contains, newEmpty, mem_of_any_zero _ _ _ h0, mem_of_any_zero _ _ _ he]
    simp
  | false =>
    rw [s.chunkBox_nonempty cs he]
    exact mem_chunkBox c s.start s.shape cs h hc hpos he

end Zarrs
