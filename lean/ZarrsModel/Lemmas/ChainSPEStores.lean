import ZarrsModel.Lemmas.ChainSPEStep
import ZarrsModel.Lemmas.ChainSPERun
import ZarrsModel.Lemmas.ChainSPEA2A
import ZarrsModel.Lemmas.ShardPDMain
set_option Elab.async false
/- helper lemmas for C05 on chains, part 11: the invariant of stored values (`ChainS.Stores`) — it holds of what the
full encoder writes, the full decoder and the partial decoder read the chunk from such a value -/
namespace Zarrs.Partial
open Zarrs Zarrs.Codec Zarrs.Subset Zarrs.Shard Zarrs.ShardPE

/-- **`v` is a well-formed stored value of the chain holding the chunk `xs`**: a non-sharded value is exactly the
encoding; a sharded value is the bytes-to-bytes encoding of a shard that decodes (`Shard.decode`) to stored inner chunks,
is well formed (`Shard.wellFormed`: index at its declared location, live entries inside the value, outside the index,
disjoint) and tight (an index at the end directly follows the live data), whose missing inner chunks are exactly the
all-fill pieces of the (array-to-array encoded) chunk and whose stored inner chunks are such values for their pieces -/
def ChainS.Stores : ChainS → Shape → Elem → Bytes → List Elem → Prop
  | .leaf c _, sh, _, v, xs => v = c.encode sh xs
  | .shard a2a cfg ish _ inner b2b, sh, fill, v, xs =>
    ∃ v0 chunks, v = encB b2b v0 ∧
      St { cfg with nChunks := prod (zipDiv (shapesOf a2a sh) ish) } (some v0) chunks ∧
      chunks.length = (splitShard (shapesOf a2a sh) ish (aEnc a2a sh xs)).length ∧
      ∀ i (h1 : i < chunks.length) (h2 : i < (splitShard (shapesOf a2a sh) ish (aEnc a2a sh xs)).length),
        match chunks[i] with
        | none => (splitShard (shapesOf a2a sh) ish (aEnc a2a sh xs))[i] = List.replicate (prod ish) fill
        | some b => (splitShard (shapesOf a2a sh) ish (aEnc a2a sh xs))[i] ≠ List.replicate (prod ish) fill ∧
            ChainS.Stores inner ish fill b (splitShard (shapesOf a2a sh) ish (aEnc a2a sh xs))[i]

/-! ### the full encoder's shard is tight -/

theorem liveEnd_entriesFrom (chunks : List (Option Bytes)) (off : Nat)
    (hs : off + (dataOf chunks).length < sentinel) :
    liveEnd (entriesFrom off chunks) = if (∃ ch ∈ chunks, Option.isSome ch = true) then off + (dataOf chunks).length
      else 0 := by
  by_cases hsome : ∃ ch ∈ chunks, Option.isSome ch = true
  · rw [if_pos hsome]
    apply liveEnd_eq
    · intro e he hl
      rcases entriesFrom_mem chunks off e he with rfl | h
      · simp [isLive] at hl
      · exact h.2
    · right
      obtain ⟨k, e, h1, h2, h3⟩ := entriesFrom_last chunks off hsome hs
      exact ⟨e, List.mem_of_getElem? h1, h2, h3⟩
  · rw [if_neg hsome]
    apply liveEnd_eq
    · intro e he hl
      exfalso
      -- every entry is the sentinel
      have : ∀ (cs : List (Option Bytes)) (o : Nat), (¬ ∃ ch ∈ cs, Option.isSome ch = true) →
          ∀ e ∈ entriesFrom o cs, e = (sentinel, sentinel) := by
        intro cs
        induction cs with
        | nil => intro o _ e he; simp [entriesFrom] at he
        | cons c cs ih =>
          intro o hn e he
          cases c with
          | some b => exact absurd ⟨some b, by simp, rfl⟩ hn
          | none =>
            simp only [entriesFrom, List.mem_cons] at he
            rcases he with rfl | he
            · rfl
            · exact ih o (fun ⟨ch, hm, hs⟩ => hn ⟨ch, by simp [hm], hs⟩) e he
      rw [this chunks off hsome e he] at hl
      simp [isLive] at hl
    · exact Or.inl rfl

theorem encode_tight (c : Cfg) (chunks : List (Option Bytes)) (hn : chunks.length = c.nChunks)
    (hsmall : (dataOf chunks).length + indexSize c < sentinel) : tight c (encode c chunks) = true := by
  obtain ⟨pre, post, hv, hb, hpp, hib, _⟩ := encode_split c chunks hn
  have hel : (entriesFrom (base c) chunks).length = c.nChunks := by rw [entriesFrom_length, hn]
  have hs : pre.length + (dataOf chunks).length < sentinel := by omega
  have hcur : currentIndex c (some (encode c chunks)) = some (entriesFrom (base c) chunks) := by
    unfold currentIndex
    simp only [hib, decodeIndex_encodeIndex c true _ hel (entriesFrom_bounds chunks _ (by rw [← hb]; exact hs))]
    rfl
  unfold tight
  rw [hcur]
  cases hc : c.indexAtEnd with
  | false => rfl
  | true =>
    simp only [Bool.not_true, Bool.false_or, beq_iff_eq]
    have hb0 : base c = 0 := by simp [base, hc]
    rw [hb0] at hb
    rw [hb0, liveEnd_entriesFrom chunks 0 (by omega), shard_length c chunks hn, ← dataOf_length]
    by_cases hsome : ∃ ch ∈ chunks, Option.isSome ch = true
    · rw [if_pos hsome]; omega
    · rw [if_neg hsome, dataOf_all_none chunks hsome]; simp

/-! ### the full decoder reads the chunk -/

/-- `ShardingCodec::decode` on any value `Shard.decode` accepts, whose stored chunks decode to `xss` -/
theorem shardDecode_of_decode (cfg : Cfg) (shard inner : Shape) (es : Nat) (fill : Elem)
    (innerDec : Bytes → Option (List Elem)) (v : Bytes) (chunks : List (Option Bytes)) (xss : List (List Elem))
    (ht : tiles inner shard = true) (hes : 0 < es) (hfill : fill.length = es)
    (hdec : Shard.decode { cfg with nChunks := prod (zipDiv shard inner) } true v = .ok chunks)
    (hcd : ChunksDecode es fill inner innerDec chunks xss) (hn : chunks.length = prod (zipDiv shard inner)) :
    shardDecode cfg shard inner es fill innerDec v = some (assemble shard inner xss) := by
  have hdec' := hdec
  rw [decode_def] at hdec'
  unfold shardDecode
  simp only [chunksPerShard_of_tiles ht]
  cases hib : indexBytes { cfg with nChunks := prod (zipDiv shard inner) } v with
  | none => rw [hib] at hdec'; cases hdec'
  | some ib =>
    rw [hib] at hdec'
    simp only at hdec' ⊢
    cases hdi : decodeIndex { cfg with nChunks := prod (zipDiv shard inner) } true ib with
    | error e => rw [hdi] at hdec'; cases hdec'
    | ok entries =>
      simp only
      by_cases hz : prod shard = 0
      · rw [if_pos (by simp [hz]), assemble_of_prod_zero shard inner xss hz, hz]
        rfl
      · rw [if_neg (by
          simp only [beq_iff_eq]
          intro h0
          rcases Nat.mul_eq_zero.mp h0 with h | h <;> omega)]
        simp only [hdec, mapM_shardChunkDec hfill hcd, Option.map_some]
        congr 1
        apply assembleScatter_eq ht xss _ hcd.piece_length _ (by simp)
        rw [← hcd.1, hn]

theorem stores_decode : ∀ (c : ChainS) (sh : Shape) (fill : Elem) (v : Bytes) (xs : List Elem),
    c.okWith aOk BDec sh fill → xs.length = prod sh → (∀ x ∈ xs, x.length = c.es) → c.Stores sh fill v xs →
    c.decode sh fill v = some xs := by
  intro c
  induction c with
  | leaf c keep =>
    intro sh fill v xs hok hxl hxe hst
    have hv : v = c.encode sh xs := hst
    subst hv
    exact chain_dec_enc c sh xs hok.1 hok.2.2.1 hxl hxe hok.2.2.2.1 hok.2.2.2.2.1
  | shard a2a cfg ish es inner b2b ih =>
    intro sh fill v xs hok hxl hxe hst
    have hes : 0 < es := ChainS.es_pos aOk BDec _ sh fill hok
    obtain ⟨ha, ht, hB, hfl, hies, hiok⟩ := hok
    simp only [ChainS.es] at hxe
    obtain ⟨hyl, hye⟩ := aEnc_chunk es a2a sh xs ha hxl hxe
    obtain ⟨v0, chunks, hv, hSt, hcl, hch⟩ := hst
    obtain ⟨hdec, _, _⟩ : decode _ true v0 = .ok chunks ∧ wellFormed _ v0 = true ∧ tight _ v0 = true := hSt
    subst hv
    have hcd : ChunksDecode es fill ish (inner.decode ish fill) chunks
        (splitShard (shapesOf a2a sh) ish (aEnc a2a sh xs)) := by
      refine ⟨hcl, ?_⟩
      intro i h1 h2
      have := hch i h1 h2
      obtain ⟨hpl, hpm⟩ := splitShard_piece ht _ hyl _ (List.getElem_mem h2)
      split
      · rename_i heq; rw [heq] at this; exact this
      · rename_i b heq
        rw [heq] at this
        exact ⟨ih ish fill b _ hiok hpl (by rw [hies]; exact fun x hx => hye x (hpm x hx)) this.2, hpl,
          fun x hx => hye x (hpm x hx)⟩
    simp only [ChainS.decode]
    have : decodeB2B b2b (encB b2b v0) = some v0 := decodeB2B_enc b2b hB v0
    rw [this]
    simp only [Option.bind_some]
    rw [shardDecode_of_decode cfg _ ish es fill _ v0 chunks _ ht hes hfl hdec hcd
      (by rw [hcl, splitShard_length]), assemble_split ht _ hyl]
    simp only [Option.bind_some]
    rw [decodeA2A_enc a2a es sh xs ha hxl hxe]
    exact validated_some _ _ _ hxl hxe

/-! ### the full encoder writes such a value -/

theorem stores_encode : ∀ (c : ChainS) (sh : Shape) (fill : Elem) (xs : List Elem),
    c.okWith aOk BDec sh fill → xs.length = prod sh → (∀ x ∈ xs, x.length = c.es) → c.fits sh fill xs →
    c.Stores sh fill (c.encode sh fill xs) xs := by
  intro c
  induction c with
  | leaf c keep => intro sh fill xs _ _ _ _; rfl
  | shard a2a cfg ish es inner b2b ih =>
    intro sh fill xs hok hxl hxe hfits
    obtain ⟨ha, ht, hB, hfl, hies, hiok⟩ := hok
    simp only [ChainS.es] at hxe
    obtain ⟨hyl, hye⟩ := aEnc_chunk es a2a sh xs ha hxl hxe
    simp only [ChainS.fits, encodeA2A_eq] at hfits
    obtain ⟨hfp, hsmall⟩ := hfits
    have hclen : (shardChunks (inner.encode ish fill) fill (shapesOf a2a sh) ish (aEnc a2a sh xs)).length =
        prod (zipDiv (shapesOf a2a sh) ish) := by simp [shardChunks, splitShard_length]
    have hsm : (dataOf (shardChunks (inner.encode ish fill) fill (shapesOf a2a sh) ish (aEnc a2a sh xs))).length +
        indexSize { cfg with nChunks := prod (zipDiv (shapesOf a2a sh) ish) } < sentinel := by
      rw [Shard.dataOf_length, ← Shard.shard_length _ _ hclen]; exact hsmall
    refine ⟨Shard.encode { cfg with nChunks := prod (zipDiv (shapesOf a2a sh) ish) }
        (shardChunks (inner.encode ish fill) fill (shapesOf a2a sh) ish (aEnc a2a sh xs)),
      shardChunks (inner.encode ish fill) fill (shapesOf a2a sh) ish (aEnc a2a sh xs), ?_, ?_, ?_, ?_⟩
    · simp only [ChainS.encode, encodeA2A_eq, encB]
    · exact ⟨shard_decode _ true _ hclen hsm, shard_wellFormed _ _ hclen hsm, encode_tight _ _ hclen hsm⟩
    · rw [hclen, splitShard_length]
    · intro i h1 h2
      have hpm : (splitShard (shapesOf a2a sh) ish (aEnc a2a sh xs))[i] ∈ splitShard (shapesOf a2a sh) ish (aEnc a2a sh xs) :=
        List.getElem_mem h2
      obtain ⟨hpl, hpe⟩ := splitShard_piece ht _ hyl _ hpm
      simp only [shardChunks, List.getElem_map]
      split
      · rename_i heq
        split at heq
        · rename_i hall
          exact all_fill_replicate fill _ _ hpl hall
        · cases heq
      · rename_i b heq
        split at heq
        · cases heq
        · rename_i hall
          simp only [Option.some.injEq] at heq
          subst heq
          refine ⟨fun h => hall (by rw [h]; exact replicate_all_fill fill _), ?_⟩
          exact ih ish fill _ hiok hpl (by rw [hies]; exact fun x hx => hye x (hpe x hx)) (hfp _ hpm)

/-! ### the partial decoder serves the chunk -/

/-- `shardPD_ok'` from what `Shard.decode` accepts (no disjointness of the entries is needed to read) -/
theorem shardPD_ok_lite (cfg : Shard.Cfg) (validate : Bool) (shard inner : Shape) (es : Nat) (fill : Elem)
    (fixed : Option Nat) (innerPD : Shape → Elem → BHandle → AHandle) (encodes : List Elem → Bytes → Prop)
    (h : BHandle) (v : Bytes) (chunks : List (Option Bytes)) (xss : List (List Elem))
    (ht : tiles inner shard = true) (hn : cfg.nChunks = prod (zipDiv shard inner)) (hfill : fill.length = es)
    (hh : BHandleOk h v) (hdec : Shard.decode cfg true v = .ok chunks) (hxl : xss.length = cfg.nChunks)
    (hx : ∀ i (h1 : i < chunks.length) (h2 : i < xss.length),
      match chunks[i] with
      | some b => encodes xss[i] b ∧ (xss[i].length = prod inner ∧ ∀ x ∈ xss[i], x.length = es)
      | none => xss[i] = List.replicate (prod inner) fill)
    (hinner : ∀ g b xs, encodes xs b → BHandleOk g b → AHandleOk (innerPD inner fill g) inner xs)
    (hfixed : ∀ n, fixed = some n → ∀ xs b, encodes xs b → b.length = n) :
    AHandleOk (shardPD cfg validate shard inner es fill fixed innerPD h) shard (assemble shard inner xss) := by
  have hdec' := hdec
  rw [decode_def] at hdec'
  cases hib : indexBytes cfg v with
  | none => rw [hib] at hdec'; cases hdec'
  | some ib =>
    rw [hib] at hdec'
    simp only at hdec'
    cases hdi : decodeIndex cfg true ib with
    | error e => rw [hdi] at hdec'; cases hdec'
    | ok entries =>
      rw [hdi] at hdec'
      simp only at hdec'
      have hel := decodeIndex_length cfg true ib entries hdi
      obtain ⟨hlc, hpt⟩ := (mapM_ok_iff _ _ _).mp hdec'
      have S : Served fixed shard inner es fill innerPD h entries xss := by
        refine ⟨ht, by rw [hel, hn], by rw [hxl, hn], hfill, ?_⟩
        intro k e xs hke hkx
        obtain ⟨hk, hke'⟩ := List.getElem?_eq_some_iff.mp hke
        obtain ⟨hk2, hkx'⟩ := List.getElem?_eq_some_iff.mp hkx
        have hkc : k < chunks.length := by omega
        obtain ⟨ch, hch, hde⟩ := hpt k e hke
        have h2 := hx k hkc hk2
        rw [hkx'] at h2
        rw [List.getElem?_eq_getElem hkc] at hch
        cases hch
        cases hl : isLive e with
        | false =>
          rw [decEntry_dead v e hl] at hde
          cases hc : chunks[k] with
          | none => rw [hc] at h2; exact Or.inl ⟨rfl, h2⟩
          | some b => rw [hc] at hde; cases hde
        | true =>
          rw [decEntry_live v e hl] at hde
          split at hde
          · cases hde
          · rename_i hle
            cases hc : chunks[k] with
            | none => rw [hc] at hde; cases hde
            | some b =>
              rw [hc] at hde h2
              simp only [Except.ok.injEq, Option.some.injEq] at hde
              have hsz : e.2 = b.length := by
                rw [← hde, slice_length_le v e.1 (e.1 + e.2) (by omega)]; omega
              have hso : sizeOk fixed e.2 = true := by
                cases hfx : fixed with
                | none => rfl
                | some n => simp only [sizeOk, beq_iff_eq]; rw [hsz]; exact hfixed n hfx xs b h2.1
              refine Or.inr ⟨rfl, hso, h2.2.1, h2.2.2, ?_⟩
              apply hinner _ b xs h2.1
              rw [← hde]
              exact byteIntervalPD_ok h v e.1 e.2 hh (by omega)
      intro rs hrs
      unfold shardPD
      rw [shardIndexPD_legal cfg validate ht hn v ib hh hib hdi]
      simp only [rank_check shard rs hrs, Bool.false_eq_true, if_false, chunksPerShard_of_tiles ht]
      apply mapM_some_of_forall
      intro r hr
      exact shardRegion_ok S r (hrs r hr).1 (hrs r hr).2

/-- on any handle serving a stored value of the chain, the chain's partial decoder serves the chunk -/
theorem stores_pd : ∀ (c : ChainS) (sh : Shape) (fill : Elem) (v : Bytes) (xs : List Elem),
    c.okWith aOk BLaw sh fill → xs.length = prod sh → (∀ x ∈ xs, x.length = c.es) → c.Stores sh fill v xs →
    ∀ g : BHandle, BHandleOk g v → AHandleOk (c.partialDecoder sh fill g) sh xs := by
  intro c
  induction c with
  | leaf c keep =>
    intro sh fill v xs hok hxl hxe hst g hg
    have hv : v = c.encode sh xs := hst
    subst hv
    exact chain_ok_handle c sh fill xs hok.1 hok.2.1 hok.2.2.1 hxl hxe hok.2.2.2.1 hok.2.2.2.2.1 g hg
  | shard a2a cfg ish es inner b2b ih =>
    intro sh fill v xs hok hxl hxe hst g hg
    obtain ⟨ha, ht, hB, hfl, hies, hiok⟩ := hok
    simp only [ChainS.es] at hxe
    obtain ⟨hyl, hye⟩ := aEnc_chunk es a2a sh xs ha hxl hxe
    obtain ⟨v0, chunks, hv, hSt, hcl, hch⟩ := hst
    obtain ⟨hdec, _, _⟩ : decode _ true v0 = .ok chunks ∧ wellFormed _ v0 = true ∧ tight _ v0 = true := hSt
    subst hv
    simp only [ChainS.partialDecoder, stackA2A_eq]
    apply aChain_ok a2a sh xs _ ha hxl
    have hhb := bChain_ok b2b hB _ g hg
    rw [← assemble_split ht _ hyl, ← shardPD_cfg cfg (prod (zipDiv (shapesOf a2a sh) ish))]
    apply shardPD_ok_lite _ true _ ish es fill (inner.fixedSize ish) _
      (fun xs b => inner.Stores ish fill b xs ∧ xs.length = prod ish ∧ ∀ x ∈ xs, x.length = es)
      _ v0 chunks (splitShard _ ish _) ht rfl hfl hhb hdec (splitShard_length _ _ _)
    · intro i h1 h2
      have := hch i h1 h2
      obtain ⟨hpl, hpm⟩ := splitShard_piece ht _ hyl _ (List.getElem_mem h2)
      have hpe : ∀ x ∈ (splitShard (shapesOf a2a sh) ish (aEnc a2a sh xs))[i], x.length = es :=
        fun x hx => hye x (hpm x hx)
      split
      · rename_i b heq
        rw [heq] at this
        exact ⟨⟨this.2, hpl, hpe⟩, hpl, hpe⟩
      · rename_i heq
        rw [heq] at this
        exact this
    · intro g' b xs' ⟨hs, hl, he⟩ hg'
      exact ih ish fill b xs' hiok hl (by rw [hies]; exact he) hs g' hg'
    · intro n hn xs' b ⟨hs, hl, he⟩
      cases inner with
      | leaf ci ki =>
        have hb : b = ci.encode ish xs' := hs
        subst hb
        exact chainS_encode_length (.leaf ci ki) ish fill xs' n hiok hl (by rw [hies]; exact he) hn
      | shard _ _ _ _ _ _ => cases hn

end Zarrs.Partial
