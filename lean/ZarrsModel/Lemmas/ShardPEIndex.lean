import ZarrsModel.Lemmas.ShardPEBasic
/- helper lemmas for C05, part 2: the folds of `partialEncodePinned`, the new index position by position -/
namespace Zarrs.ShardPE
open Zarrs Zarrs.Codec Zarrs.Shard

/-! ### the two folds of `partialEncodePinned` -/

def step1 (ix : List (Nat × Nat)) (u : Nat × Option Bytes) : List (Nat × Nat) := setEntry ix u.1 (sentinel, sentinel)

def step2 (acc : List (Nat × Nat) × Bytes × Nat) (u : Nat × Option Bytes) : List (Nat × Nat) × Bytes × Nat :=
  match u.2 with
  | some b => (setEntry acc.1 u.1 (acc.2.2, b.length), acc.2.1 ++ b, acc.2.2 + b.length)
  | none => (setEntry acc.1 u.1 (sentinel, sentinel), acc.2.1, acc.2.2)

/-- the invalidated index -/
def idxDead (idx : List (Nat × Nat)) (us : List (Nat × Option Bytes)) : List (Nat × Nat) :=
  setAll idx (us.map (fun u => (u.1, (sentinel, sentinel))))

/-- the new index -/
def idxNew (idx : List (Nat × Nat)) (us : List (Nat × Option Bytes)) (off : Nat) : List (Nat × Nat) :=
  setAll (idxDead idx us) ((us.map (·.1)).zip (entriesFrom off (us.map (·.2))))

def dataNew (us : List (Nat × Option Bytes)) : Bytes := dataOf (us.map (·.2))

theorem fold_step1 (us : List (Nat × Option Bytes)) (ix : List (Nat × Nat)) :
    us.foldl step1 ix = idxDead ix us := by
  induction us generalizing ix with
  | nil => rfl
  | cons u us ih => rw [List.foldl_cons, ih]; rfl

theorem fold_step2 (us : List (Nat × Option Bytes)) (ix : List (Nat × Nat)) (d : Bytes) (off : Nat) :
    us.foldl step2 (ix, d, off) =
      (setAll ix ((us.map (·.1)).zip (entriesFrom off (us.map (·.2)))), d ++ dataOf (us.map (·.2)),
        off + (dataOf (us.map (·.2))).length) := by
  induction us generalizing ix d off with
  | nil => simp [entriesFrom]
  | cons u us ih =>
    obtain ⟨i, ch⟩ := u
    cases ch with
    | none =>
      rw [List.foldl_cons]
      simp only [step2, ih, List.map_cons, entriesFrom, List.zip_cons_cons, setAll_cons, dataOf_none, setEntry]
    | some b =>
      rw [List.foldl_cons]
      simp only [step2, ih, List.map_cons, entriesFrom, List.zip_cons_cons, setAll_cons, dataOf_some, setEntry,
        List.append_assoc, List.length_append, Nat.add_assoc]

theorem foldl_congr_step2 (f : List (Nat × Nat) × Bytes × Nat → Nat × Option Bytes → List (Nat × Nat) × Bytes × Nat)
    (us : List (Nat × Option Bytes)) (init : List (Nat × Nat) × Bytes × Nat)
    (hf : ∀ acc u, f acc u = step2 acc u) : us.foldl f init = us.foldl step2 init := by
  rw [show f = step2 from funext fun a => funext fun u => hf a u]

theorem partialEncode_eq (c : Cfg) (v : Option Bytes) (us : List (Nat × Option Bytes)) (idx : List (Nat × Nat))
    (h : currentIndex c v = some idx) :
    partialEncodePinned c v us =
      (let dead := (idxDead idx us).all (fun e => !isLive e)
       let v1 := if dead then none else v
       let maxData := if dead then 0 else liveEnd idx
       let off := if c.indexAtEnd then maxData else max maxData (indexSize c)
       if (idxNew idx us off).all (fun e => !isLive e) then some none
       else if c.indexAtEnd then some (writeAt v1 off (dataNew us ++ encodeIndex c (idxNew idx us off)))
       else some (writeAt (writeAt v1 0 (encodeIndex c (idxNew idx us off))) off (dataNew us))) := by
  unfold partialEncodePinned
  rw [h]
  simp only
  rw [show (fun (ix : List (Nat × Nat)) (u : Nat × Option Bytes) => setEntry ix u.1 (sentinel, sentinel)) = step1 from rfl,
    fold_step1]
  cases hd : (idxDead idx us).all (fun e => !isLive e)
  all_goals
    simp only [Bool.false_eq_true, if_false, if_true]
    rw [foldl_congr_step2 _ _ _ (fun acc u => by cases hu : u.2 <;> simp [step2, hu]), fold_step2]
    simp only [List.nil_append]
    rfl


/-! ### the new index, position by position -/

theorem keys_dead (us : List (Nat × Option Bytes)) :
    (us.map (fun u => (u.1, ((sentinel, sentinel) : Nat × Nat)))).map (·.1) = us.map (·.1) := by
  rw [List.map_map]; rfl

theorem keys_new (us : List (Nat × Option Bytes)) (off : Nat) :
    ((us.map (·.1)).zip (entriesFrom off (us.map (·.2)))).map (·.1) = us.map (·.1) :=
  List.map_fst_zip (by rw [entriesFrom_length]; simp)

theorem idxDead_length (idx : List (Nat × Nat)) (us : List (Nat × Option Bytes)) :
    (idxDead idx us).length = idx.length := setAll_length _ _

theorem idxNew_length (idx : List (Nat × Nat)) (us : List (Nat × Option Bytes)) (off : Nat) :
    (idxNew idx us off).length = idx.length := by
  unfold idxNew; rw [setAll_length, idxDead_length]

theorem idxDead_untouched (idx : List (Nat × Nat)) (us : List (Nat × Option Bytes)) (j : Nat)
    (h : j ∉ us.map (·.1)) : (idxDead idx us)[j]? = idx[j]? :=
  setAll_not_mem _ _ _ (by rw [keys_dead]; exact h)

theorem idxDead_touched (idx : List (Nat × Nat)) (us : List (Nat × Option Bytes)) (j : Nat)
    (h : j ∈ us.map (·.1)) (e : Nat × Nat) (he : (idxDead idx us)[j]? = some e) : e = (sentinel, sentinel) := by
  unfold idxDead at he
  induction us generalizing idx with
  | nil => simp at h
  | cons u us ih =>
    rw [List.map_cons, setAll_cons] at he
    by_cases hj : j ∈ us.map (·.1)
    · exact ih _ hj he
    · have hju : j = u.1 := by simpa [hj] using h
      rw [setAll_not_mem _ _ _ (by rw [keys_dead]; exact hj), List.getElem?_set] at he
      simp only [hju, if_true] at he
      split at he
      · exact (Option.some.inj he).symm
      · cases he

theorem idxNew_untouched (idx : List (Nat × Nat)) (us : List (Nat × Option Bytes)) (off j : Nat)
    (h : j ∉ us.map (·.1)) : (idxNew idx us off)[j]? = idx[j]? := by
  unfold idxNew
  rw [setAll_not_mem _ _ _ (by rw [keys_new]; exact h), idxDead_untouched _ _ _ h]

theorem idxNew_touched (idx : List (Nat × Nat)) (us : List (Nat × Option Bytes)) (off : Nat)
    (hn : (us.map (·.1)).Nodup) (k i : Nat) (ch : Option Bytes) (hk : us[k]? = some (i, ch)) (hi : i < idx.length) :
    ∃ e, (entriesFrom off (us.map (·.2)))[k]? = some e ∧ (idxNew idx us off)[i]? = some e := by
  have hkl : k < us.length := (List.getElem?_eq_some_iff.mp hk).1
  have hke : k < (entriesFrom off (us.map (·.2))).length := by rw [entriesFrom_length]; simpa using hkl
  refine ⟨_, List.getElem?_eq_getElem hke, ?_⟩
  unfold idxNew
  apply setAll_mem _ _ (by rw [keys_new]; exact hn)
  · rw [List.mem_iff_getElem?]
    exact ⟨k, List.getElem?_zip_eq_some.mpr ⟨by simp [hk], List.getElem?_eq_getElem hke⟩⟩
  · rw [idxDead_length]; exact hi

theorem mem_keys_iff (us : List (Nat × Option Bytes)) (j : Nat) :
    j ∈ us.map (·.1) ↔ ∃ (k : Nat) (ch : Option Bytes), us[k]? = some (j, ch) := by
  rw [List.mem_map]
  constructor
  · rintro ⟨⟨i, ch⟩, hm, rfl⟩
    obtain ⟨k, hk⟩ := List.mem_iff_getElem?.mp hm
    exact ⟨k, ch, hk⟩
  · rintro ⟨k, ch, hk⟩
    exact ⟨(j, ch), List.mem_iff_getElem?.mpr ⟨k, hk⟩, rfl⟩

/-- every entry of the new index is an untouched old entry or the entry of an update -/
theorem idxNew_cases (idx : List (Nat × Nat)) (us : List (Nat × Option Bytes)) (off : Nat)
    (hn : (us.map (·.1)).Nodup) (j : Nat) (e : Nat × Nat) (he : (idxNew idx us off)[j]? = some e) :
    (j ∉ us.map (·.1) ∧ idx[j]? = some e) ∨
      ∃ (k : Nat) (ch : Option Bytes), us[k]? = some (j, ch) ∧ (entriesFrom off (us.map (·.2)))[k]? = some e := by
  by_cases hj : j ∈ us.map (·.1)
  · right
    obtain ⟨k, ch, hk⟩ := (mem_keys_iff us j).mp hj
    have hjl : j < idx.length := by
      have := (List.getElem?_eq_some_iff.mp he).1
      rwa [idxNew_length] at this
    obtain ⟨e', h1, h2⟩ := idxNew_touched idx us off hn k j ch hk hjl
    rw [he] at h2
    cases h2
    exact ⟨k, ch, hk, h1⟩
  · left
    exact ⟨hj, by rw [← idxNew_untouched idx us off j hj]; exact he⟩

theorem applyUpdates_eq (chunks : List (Option Bytes)) (us : List (Nat × Option Bytes)) :
    applyUpdates chunks us = setAll chunks us := rfl

theorem applyUpdates_length (chunks : List (Option Bytes)) (us : List (Nat × Option Bytes)) :
    (applyUpdates chunks us).length = chunks.length := setAll_length _ _

theorem applyUpdates_untouched (chunks : List (Option Bytes)) (us : List (Nat × Option Bytes)) (j : Nat)
    (h : j ∉ us.map (·.1)) : (applyUpdates chunks us)[j]? = chunks[j]? := setAll_not_mem _ _ _ h

theorem applyUpdates_touched (chunks : List (Option Bytes)) (us : List (Nat × Option Bytes))
    (hn : (us.map (·.1)).Nodup) (k i : Nat) (ch : Option Bytes) (hk : us[k]? = some (i, ch)) (hi : i < chunks.length) :
    (applyUpdates chunks us)[i]? = some ch :=
  setAll_mem _ _ hn i ch (List.mem_iff_getElem?.mpr ⟨k, hk⟩) hi

/-- the entry written for the `k`-th update decodes to the update's contents -/
theorem touched_entry (vals : List (Option Bytes)) (pre post v' : Bytes) (hv' : v' = pre ++ dataOf vals ++ post)
    (hs : pre.length + (dataOf vals).length < sentinel) (k : Nat) (ch : Option Bytes) (e : Nat × Nat)
    (hch : vals[k]? = some ch) (he : (entriesFrom pre.length vals)[k]? = some e) :
    decEntry v' e = .ok ch ∧ (ch = none → e = (sentinel, sentinel)) ∧
      (∀ b, ch = some b → isLive e = true ∧ pre.length ≤ e.1 ∧ e.1 + e.2 ≤ pre.length + (dataOf vals).length) := by
  have hsp := entriesFrom_spec vals pre post v' hv' k
  cases ch with
  | none =>
    have := hsp.1 hch
    rw [he] at this
    cases this
    exact ⟨by simp [decEntry], fun _ => rfl, fun b hb => by cases hb⟩
  | some b =>
    obtain ⟨o, h1, h2, h3, h4⟩ := hsp.2 b hch
    rw [he] at h1
    cases h1
    have hne : (o == sentinel) = false := by simp; omega
    have hvl : v'.length = pre.length + (dataOf vals).length + post.length := by rw [hv']; simp [Nat.add_assoc]
    have hle : ¬ (o + b.length > v'.length) := by omega
    refine ⟨?_, fun h => (by cases h), fun b' hb' => ?_⟩
    · simp only [decEntry, hne, Bool.false_and, Bool.false_eq_true, if_false, hle, h4]
    · cases hb'
      exact ⟨isLive_of_lt _ (by simp only; omega), h2, h3⟩

end Zarrs.ShardPE
