import ZarrsModel.Model.Array
import ZarrsModel.Props.C01
import ZarrsModel.Lemmas.Fault
set_option linter.unusedSectionVars false
/- helper lemmas for C07: order-independence of a fold of single-key steps over chunks with distinct keys, and
congruence of the abstract array and of the in-bounds predicate in the fields an array is identified by -/
namespace Zarrs
namespace ArrCfg
variable {α : Type} [DecidableEq α]

section fold
variable (keyOf : Idx → Key) (W : Idx → Option Bytes → Option (Option Bytes))

/-- two successful folds of single-key steps over lists with the same members (distinct keys in each), from the
same sorted store, end in the same store -/
theorem foldOpt_kvStep_some_eq (l1 l2 : List Idx) (hnd1 : (l1.map keyOf).Nodup) (hnd2 : (l2.map keyOf).Nodup)
    (hmem : ∀ c, c ∈ l1 ↔ c ∈ l2) (s s1 s2 : KV) (hs : s.sorted)
    (h1 : foldOpt (kvStep keyOf W) s l1 = some s1) (h2 : foldOpt (kvStep keyOf W) s l2 = some s2) : s1 = s2 := by
  obtain ⟨hA, hAframe, hAs⟩ := foldOpt_kvStep_some keyOf W l1 hnd1 s s1 h1
  obtain ⟨hB, hBframe, hBs⟩ := foldOpt_kvStep_some keyOf W l2 hnd2 s s2 h2
  apply KV.ext_of_sorted s1 s2 (hAs hs) (hBs hs)
  intro k
  by_cases hk : k ∈ l1.map keyOf
  · obtain ⟨c, hc, rfl⟩ := List.mem_map.1 hk
    have e1 := hA c hc
    rw [hB c ((hmem c).1 hc)] at e1
    exact (Option.some.inj e1).symm
  · have hk2 : k ∉ l2.map keyOf := by
      intro hm
      obtain ⟨c, hc, rfl⟩ := List.mem_map.1 hm
      exact hk (List.mem_map_of_mem ((hmem c).2 hc))
    rw [hAframe k hk, hBframe k hk2]

/-- success of such a fold depends only on the members of the list -/
theorem foldOpt_kvStep_isSome_of (l1 l2 : List Idx) (hnd1 : (l1.map keyOf).Nodup) (hnd2 : (l2.map keyOf).Nodup)
    (hsub : ∀ c, c ∈ l2 → c ∈ l1) (s s1 : KV)
    (h1 : foldOpt (kvStep keyOf W) s l1 = some s1) : ∃ s2, foldOpt (kvStep keyOf W) s l2 = some s2 := by
  obtain ⟨hA, _, _⟩ := foldOpt_kvStep_some keyOf W l1 hnd1 s s1 h1
  exact foldOpt_kvStep_of keyOf W l2 hnd2 s (fun c => s1.get (keyOf c)) (fun c hc => hA c (hsub c hc))

/-- **order-independence**: over a sorted store, a fold of single-key steps over chunks with distinct keys gives
the same result (success or failure, and the same store) for every permutation of the chunks -/
theorem foldOpt_kvStep_perm (l1 l2 : List Idx) (hperm : l1.Perm l2) (hnd2 : (l2.map keyOf).Nodup) (s : KV)
    (hs : s.sorted) : foldOpt (kvStep keyOf W) s l1 = foldOpt (kvStep keyOf W) s l2 := by
  have hnd1 : (l1.map keyOf).Nodup := (hperm.map keyOf).nodup_iff.2 hnd2
  have hmem : ∀ c, c ∈ l1 ↔ c ∈ l2 := fun c => hperm.mem_iff
  cases h1 : foldOpt (kvStep keyOf W) s l1 with
  | some s1 =>
    obtain ⟨s2, h2⟩ := foldOpt_kvStep_isSome_of keyOf W l1 l2 hnd1 hnd2 (fun c hc => (hmem c).2 hc) s s1 h1
    rw [h2, foldOpt_kvStep_some_eq keyOf W l1 l2 hnd1 hnd2 hmem s s1 s2 hs h1 h2]
  | none =>
    cases h2 : foldOpt (kvStep keyOf W) s l2 with
    | none => rfl
    | some s2 =>
      obtain ⟨s1, h1'⟩ := foldOpt_kvStep_isSome_of keyOf W l2 l1 hnd2 hnd1 (fun c hc => (hmem c).1 hc) s s2 h2
      rw [h1] at h1'
      cases h1'

end fold

/-! ### what an array is identified by: shape, grid, fill -/

theorem chunkSubset_congr {c1 c2 : ArrCfg α} (hg : c1.grid = c2.grid) : c1.chunkSubset = c2.chunkSubset := by
  funext c
  simp only [chunkSubset, hg]

theorem chunkShape_congr {c1 c2 : ArrCfg α} (hg : c1.grid = c2.grid) : c1.chunkShape = c2.chunkShape := by
  funext c
  simp only [chunkShape, hg]

theorem absOp_congr {c1 c2 : ArrCfg α} (hg : c1.grid = c2.grid) (hf : c1.fill = c2.fill) (a : AArr α)
    (op : WriteOp α) : c1.absOp a op = c2.absOp a op := by
  cases op <;> simp only [absOp, chunkSubset_congr hg, hg, hf]

theorem absRun_congr {c1 c2 : ArrCfg α} (hg : c1.grid = c2.grid) (hf : c1.fill = c2.fill)
    (ops : List (WriteOp α)) : c1.absRun ops = c2.absRun ops := by
  have : c1.absOp = c2.absOp := by
    funext a op
    exact absOp_congr hg hf a op
  simp only [absRun, this, hf]

end ArrCfg

namespace C01
variable {α : Type} [DecidableEq α]

theorem opInBounds_congr {c1 c2 : ArrCfg α} (G : Shape) (hsh : c1.shape = c2.shape) (hg : c1.grid = c2.grid)
    (op : WriteOp α) (h : opInBounds c1 G op) : opInBounds c2 G op := by
  cases op <;> simp only [opInBounds, ArrCfg.chunkShape_congr hg, hg, hsh] at h ⊢ <;> exact h

end C01
end Zarrs
