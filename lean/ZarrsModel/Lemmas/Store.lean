import ZarrsModel.Model.Store
/- helper lemmas for C08 -/
namespace Zarrs

/-! ### key order -/

theorem keyLt_irrefl (a : Key) : keyLt a a = false := by
  induction a with
  | nil => rfl
  | cons c cs ih => simp [keyLt, ih]

theorem keyLt_trans : ∀ (a b c : Key), keyLt a b = true → keyLt b c = true → keyLt a c = true
  | [], [], _, h, _ => by simp [keyLt] at h
  | [], _ :: _, [], _, h => by simp [keyLt] at h
  | [], _ :: _, _ :: _, _, _ => by simp [keyLt]
  | _ :: _, [], _, h, _ => by simp [keyLt] at h
  | _ :: _, _ :: _, [], _, h => by simp [keyLt] at h
  | x :: xs, y :: ys, z :: zs, h1, h2 => by
    simp only [keyLt, Bool.or_eq_true, decide_eq_true_eq, Bool.and_eq_true, beq_iff_eq] at h1 h2 ⊢
    rcases h1 with h1 | ⟨rfl, h1⟩
    · rcases h2 with h2 | ⟨rfl, h2⟩
      · left; omega
      · left; exact h1
    · rcases h2 with h2 | ⟨rfl, h2⟩
      · left; exact h2
      · right; exact ⟨rfl, keyLt_trans xs ys zs h1 h2⟩

theorem keyLt_total : ∀ (a b : Key), a ≠ b → keyLt a b = false → keyLt b a = true
  | [], [], h, _ => absurd rfl h
  | [], _ :: _, _, h => by simp [keyLt] at h
  | _ :: _, [], _, _ => by simp [keyLt]
  | x :: xs, y :: ys, hne, h => by
    simp only [keyLt, Bool.or_eq_false_iff, decide_eq_false_iff_not, Bool.and_eq_false_iff,
      Bool.or_eq_true, decide_eq_true_eq, Bool.and_eq_true, beq_iff_eq] at h ⊢
    obtain ⟨h1, h2⟩ := h
    by_cases hxy : x = y
    · subst hxy
      right
      refine ⟨rfl, ?_⟩
      have h2' : keyLt xs ys = false := by simpa using h2
      exact keyLt_total xs ys (by intro h; exact hne (by rw [h])) h2'
    · left
      have : x.toNat ≠ y.toNat := fun h => hxy (Char.toNat_inj.mp h)
      omega

theorem keyLt_ne {a b : Key} (h : keyLt a b = true) : a ≠ b := by
  intro hab; subst hab; rw [keyLt_irrefl] at h; cases h

namespace KV

theorem get_nil (k : Key) : get [] k = none := rfl

theorem get_cons (k0 : Key) (v0 : Bytes) (rest : KV) (k : Key) :
    get ((k0, v0) :: rest) k = if k0 = k then some v0 else get rest k := by
  unfold get
  by_cases h : k0 = k <;> simp [h]

theorem put_cons_eq (k : Key) (v0 v : Bytes) (rest : KV) : put ((k, v0) :: rest) k v = (k, v) :: rest := by
  simp [put]
theorem put_cons_lt (k k0 : Key) (v0 v : Bytes) (rest : KV) (h1 : k ≠ k0) (h2 : keyLt k k0 = true) :
    put ((k0, v0) :: rest) k v = (k, v) :: (k0, v0) :: rest := by
  simp [put, h1, h2]
theorem put_cons_gt (k k0 : Key) (v0 v : Bytes) (rest : KV) (h1 : k ≠ k0) (h2 : ¬ keyLt k k0 = true) :
    put ((k0, v0) :: rest) k v = (k0, v0) :: put rest k v := by
  simp [put, h1, h2]

theorem get_put_same (m : KV) (k : Key) (v : Bytes) : (m.put k v).get k = some v := by
  induction m with
  | nil => simp [put, get_cons]
  | cons kv rest ih =>
    obtain ⟨k0, v0⟩ := kv
    unfold put
    by_cases h1 : k = k0
    · simp [h1, get_cons]
    · by_cases h2 : keyLt k k0 = true
      · simp [h1, h2, get_cons]
      · have : ¬ k0 = k := fun h => h1 h.symm
        simp [h1, h2, get_cons, this, ih]

theorem get_put_other (m : KV) (k k' : Key) (v : Bytes) (h : k' ≠ k) : (m.put k v).get k' = m.get k' := by
  have hk : ¬ k = k' := fun e => h e.symm
  induction m with
  | nil => simp [put, get_cons, hk, get_nil]
  | cons kv rest ih =>
    obtain ⟨k0, v0⟩ := kv
    unfold put
    by_cases h1 : k = k0
    · subst h1; simp [get_cons, hk]
    · by_cases h2 : keyLt k k0 = true
      · simp [h1, h2, get_cons, hk]
      · simp [h1, h2, get_cons, ih]

theorem put_put (m : KV) (k : Key) (a b : Bytes) : (m.put k a).put k b = m.put k b := by
  induction m with
  | nil => simp [put]
  | cons kv rest ih =>
    obtain ⟨k0, v0⟩ := kv
    by_cases h1 : k = k0
    · simp [put, h1]
    · by_cases h2 : keyLt k k0 = true
      · simp [put, h1, h2]
      · simp [put, h1, h2, ih]

theorem get_erase (m : KV) (k k' : Key) : (m.erase k).get k' = if k' = k then none else m.get k' := by
  induction m with
  | nil => simp [erase, get]
  | cons kv rest ih =>
    obtain ⟨k0, v0⟩ := kv
    have e : erase ((k0, v0) :: rest) k = if k0 = k then erase rest k else (k0, v0) :: erase rest k := by
      by_cases h : k0 = k <;> simp [erase, h]
    rw [e]
    by_cases h : k0 = k
    · subst h
      simp only [if_true, ih, get_cons]
      by_cases h' : k' = k0
      · simp [h']
      · have : ¬ k0 = k' := fun e => h' e.symm
        simp [h', this]
    · simp only [h, if_false, get_cons, ih]
      by_cases h' : k0 = k'
      · subst h'; simp [h]
      · simp [h']

theorem keys_cons (kv : Key × Bytes) (rest : KV) : keys (kv :: rest) = kv.1 :: keys rest := rfl

theorem keys_put (m : KV) (k : Key) (v : Bytes) (k' : Key) :
    k' ∈ (m.put k v).keys ↔ (k' = k ∨ k' ∈ m.keys) := by
  induction m with
  | nil => simp [put, keys]
  | cons kv rest ih =>
    obtain ⟨k0, v0⟩ := kv
    by_cases h1 : k = k0
    · subst h1; rw [put_cons_eq]; simp [keys]
    · by_cases h2 : keyLt k k0 = true
      · rw [put_cons_lt _ _ _ _ _ h1 h2]; simp [keys]
      · rw [put_cons_gt _ _ _ _ _ h1 h2, keys_cons, keys_cons, List.mem_cons, List.mem_cons, ih]
        constructor
        · rintro (h | h | h) <;> simp [h]
        · rintro (h | h | h) <;> simp [h]

theorem mem_keys_iff_get (m : KV) (k : Key) : k ∈ m.keys ↔ m.get k ≠ none := by
  induction m with
  | nil => simp [keys, get]
  | cons kv rest ih =>
    obtain ⟨k0, v0⟩ := kv
    rw [get_cons, keys_cons, List.mem_cons, ih]
    by_cases h : k0 = k
    · simp [h]
    · have : ¬ k = k0 := fun e => h e.symm
      simp [h, this]

theorem sorted_cons (kv : Key × Bytes) (rest : KV) :
    sorted (kv :: rest) ↔ (∀ k' ∈ keys rest, keyLt kv.1 k' = true) ∧ sorted rest := by
  unfold sorted; rw [keys_cons, List.pairwise_cons]

theorem sorted_nil : sorted ([] : KV) := by unfold sorted; simp [keys]

theorem put_sorted (m : KV) (hs : m.sorted) (k : Key) (v : Bytes) : (m.put k v).sorted := by
  induction m with
  | nil => simp [put, sorted, keys]
  | cons kv rest ih =>
    obtain ⟨k0, v0⟩ := kv
    rw [sorted_cons] at hs
    obtain ⟨h0, hr⟩ := hs
    by_cases h1 : k = k0
    · subst h1
      rw [put_cons_eq, sorted_cons]; exact ⟨h0, hr⟩
    · by_cases h2 : keyLt k k0 = true
      · rw [put_cons_lt _ _ _ _ _ h1 h2, sorted_cons]
        refine ⟨?_, (sorted_cons _ _).2 ⟨h0, hr⟩⟩
        intro k' hk'
        rw [keys_cons, List.mem_cons] at hk'
        rcases hk' with rfl | hk'
        · exact h2
        · exact keyLt_trans _ _ _ h2 (h0 k' hk')
      · rw [put_cons_gt _ _ _ _ _ h1 h2, sorted_cons]
        refine ⟨?_, ih hr⟩
        intro k' hk'
        rw [keys_put] at hk'
        rcases hk' with rfl | hk'
        · exact keyLt_total _ _ h1 (by simpa using h2)
        · exact h0 k' hk'

theorem erase_sorted (m : KV) (hs : m.sorted) (k : Key) : (m.erase k).sorted := by
  unfold sorted keys erase at *
  rw [List.pairwise_map] at *
  exact hs.filter _

theorem filter_sorted (m : KV) (hs : m.sorted) (f : Key × Bytes → Bool) : sorted (m.filter f) := by
  unfold sorted keys at *
  rw [List.pairwise_map] at *
  exact hs.filter _

end KV

/-! ### bytes: zero-extension, overwrite, partial writes -/

theorem zeroExtend_length (b : Bytes) (n : Nat) : (zeroExtend b n).length = max b.length n := by
  simp [zeroExtend]; omega

theorem zeroExtend_of_le (b : Bytes) (n : Nat) (h : n ≤ b.length) : zeroExtend b n = b := by
  simp [zeroExtend, Nat.sub_eq_zero_of_le h]

theorem zeroExtend_getElem? (b : Bytes) (n i : Nat) :
    (zeroExtend b n)[i]? = if i < max b.length n then some (b.getD i 0) else none := by
  unfold zeroExtend
  rw [List.getElem?_append, List.getElem?_replicate, List.getD_eq_getElem?_getD]
  by_cases h : i < b.length
  · have : i < max b.length n := by omega
    simp [h, this]
  · have h' : b[i]? = none := by simp; omega
    by_cases h2 : i < max b.length n
    · have : i - b.length < n - b.length := by omega
      simp [h, h2, this]
    · have : ¬ i - b.length < n - b.length := by omega
      simp [h, h2, this]

theorem zeroExtend_split (b : Bytes) (n e : Nat) (h : n ≤ e) :
    zeroExtend b e = zeroExtend b n ++ List.replicate (e - max b.length n) 0 := by
  unfold zeroExtend
  rw [List.append_assoc, List.replicate_append_replicate]
  congr 2
  omega

theorem overwrite_length (b : Bytes) (off : Nat) (v : Bytes) (h : off + v.length ≤ b.length) :
    (overwrite b off v).length = b.length := by
  simp [overwrite]; omega

theorem overwrite_append (b z : Bytes) (off : Nat) (v : Bytes) (h : off + v.length ≤ b.length) :
    overwrite (b ++ z) off v = overwrite b off v ++ z := by
  unfold overwrite
  rw [List.take_append, List.drop_append]
  have h1 : off - b.length = 0 := by omega
  have h2 : off + v.length - b.length = 0 := by omega
  simp [h1, h2]

theorem specSetPartial_length (old v : Bytes) (off : Nat) :
    (specSetPartial old off v).length = max old.length (off + v.length) := by
  unfold specSetPartial
  rw [overwrite_length, zeroExtend_length]
  rw [zeroExtend_length]; omega

/-- extending up-front to any sufficiently large end and overwriting = writing lazily and extending after -/
theorem overwrite_zeroExtend (old v : Bytes) (off e : Nat) (h : off + v.length ≤ e) :
    overwrite (zeroExtend old e) off v = zeroExtend (specSetPartial old off v) e := by
  rw [zeroExtend_split old (off + v.length) e h, overwrite_append]
  · conv => rhs; unfold zeroExtend
    rw [specSetPartial_length]
    rfl
  · rw [zeroExtend_length]; omega

def endMax (g : List (Nat × Bytes)) (a : Nat) : Nat := g.foldl (fun acc (ov : Nat × Bytes) => max acc (ov.1 + ov.2.length)) a

theorem le_endMax (g : List (Nat × Bytes)) (a : Nat) : a ≤ endMax g a := by
  induction g generalizing a with
  | nil => exact Nat.le_refl _
  | cons ov g ih =>
    show a ≤ endMax g (max a (ov.1 + ov.2.length))
    exact Nat.le_trans (Nat.le_max_left _ _) (ih _)

theorem mem_le_endMax (g : List (Nat × Bytes)) (a : Nat) (ov : Nat × Bytes) (h : ov ∈ g) :
    ov.1 + ov.2.length ≤ endMax g a := by
  induction g generalizing a with
  | nil => cases h
  | cons ov' g ih =>
    show _ ≤ endMax g (max a (ov'.1 + ov'.2.length))
    rcases List.mem_cons.1 h with rfl | h
    · exact Nat.le_trans (Nat.le_max_right _ _) (le_endMax g _)
    · exact ih _ h

def specFold (old : Bytes) (g : List (Nat × Bytes)) : Bytes :=
  g.foldl (fun b (ov : Nat × Bytes) => specSetPartial b ov.1 ov.2) old

theorem specFold_length (old : Bytes) (g : List (Nat × Bytes)) :
    (specFold old g).length = endMax g old.length := by
  induction g generalizing old with
  | nil => rfl
  | cons ov g ih =>
    show (specFold (specSetPartial old ov.1 ov.2) g).length = endMax g (max old.length (ov.1 + ov.2.length))
    rw [ih, specSetPartial_length]

theorem endMax_mono (g : List (Nat × Bytes)) (a b : Nat) (h : a ≤ b) : endMax g a ≤ endMax g b := by
  induction g generalizing a b with
  | nil => exact h
  | cons ov g ih =>
    show endMax g (max a _) ≤ endMax g (max b _)
    apply ih; omega

theorem foldl_overwrite_zeroExtend (old : Bytes) (g : List (Nat × Bytes)) (e : Nat)
    (h : ∀ ov ∈ g, ov.1 + ov.2.length ≤ e) :
    g.foldl (fun b (ov : Nat × Bytes) => overwrite b ov.1 ov.2) (zeroExtend old e) = zeroExtend (specFold old g) e := by
  induction g generalizing old with
  | nil => rfl
  | cons ov g ih =>
    rw [List.foldl_cons, overwrite_zeroExtend _ _ _ _ (h ov (List.mem_cons_self ..))]
    rw [ih _ (fun ov' h' => h ov' (List.mem_cons_of_mem _ h'))]
    rfl

theorem rmwGroup_eq (old : Bytes) (g : List (Nat × Bytes)) : rmwGroup old g = specFold old g := by
  have h := foldl_overwrite_zeroExtend old g (endMax g 0) (fun ov h => mem_le_endMax g 0 ov h)
  have e : rmwGroup old g =
      g.foldl (fun b (ov : Nat × Bytes) => overwrite b ov.1 ov.2) (zeroExtend old (endMax g 0)) := rfl
  rw [e, h, zeroExtend_of_le]
  rw [specFold_length]
  exact endMax_mono g 0 _ (Nat.zero_le _)

theorem setImpl_full (old v : Bytes) : setImpl old v 0 true = v := by
  unfold setImpl
  cases old with
  | nil => simp
  | cons x xs =>
    simp only [List.isEmpty_cons, Bool.and_false, Bool.false_eq_true, if_false, Nat.zero_add, if_true]
    unfold overwrite
    split
    · rename_i h
      simp only [List.take_zero, List.nil_append]
      rw [List.drop_of_length_le (by rw [zeroExtend_length]; omega)]
      simp
    · rename_i h
      simp only [List.take_zero, List.nil_append]
      rw [List.drop_of_length_le (by rw [List.length_take]; omega)]
      simp

theorem setImpl_noTrunc (old v : Bytes) (off : Nat) : setImpl old v off false = specSetPartial old off v := by
  unfold setImpl specSetPartial
  split
  · rename_i h
    simp at h
    obtain ⟨rfl, rfl⟩ := h
    simp [overwrite, zeroExtend]
  · simp only [Bool.false_eq_true, if_false]
    split
    · rfl
    · rw [zeroExtend_of_le]; omega

theorem overwrite_getElem? (b : Bytes) (off : Nat) (v : Bytes) (h : off + v.length ≤ b.length) (i : Nat) :
    (overwrite b off v)[i]? = if off ≤ i ∧ i < off + v.length then v[i - off]? else b[i]? := by
  unfold overwrite
  rw [List.append_assoc, List.getElem?_append]
  have ht : (b.take off).length = off := by simp; omega
  rw [ht]
  by_cases h1 : i < off
  · have : ¬ (off ≤ i ∧ i < off + v.length) := by omega
    simp [h1, this]
  · rw [if_neg h1, List.getElem?_append]
    by_cases h2 : i < off + v.length
    · have : i - off < v.length := by omega
      have h3 : off ≤ i ∧ i < off + v.length := by omega
      simp [this, h3]
    · have : ¬ i - off < v.length := by omega
      have h3 : ¬ (off ≤ i ∧ i < off + v.length) := by omega
      simp only [this, h3, if_false, List.getElem?_drop]
      congr 1; omega

theorem slice_overwrite (b : Bytes) (off : Nat) (v : Bytes) (h : off + v.length ≤ b.length) :
    slice (overwrite b off v) off (off + v.length) = v := by
  unfold slice overwrite
  have ht : (b.take off).length = off := by simp; omega
  rw [List.append_assoc, List.drop_append, ht]
  have : List.drop off (List.take off b) = [] := by simp
  rw [this]
  simp

theorem specSetPartial_spec (old v : Bytes) (off : Nat) :
    (specSetPartial old off v).length = max old.length (off + v.length) ∧
    slice (specSetPartial old off v) off (off + v.length) = v ∧
    ∀ i, i < max old.length (off + v.length) → ¬ (off ≤ i ∧ i < off + v.length) →
      (specSetPartial old off v)[i]? = some (old.getD i 0) := by
  have hl : off + v.length ≤ (zeroExtend old (off + v.length)).length := by
    rw [zeroExtend_length]; omega
  refine ⟨specSetPartial_length _ _ _, slice_overwrite _ _ _ hl, ?_⟩
  intro i hi hw
  unfold specSetPartial
  rw [overwrite_getElem? _ _ _ hl, if_neg hw, zeroExtend_getElem?, if_pos hi]



/-! ### ranged reads -/

theorem ByteRange.valid_bounds (r : ByteRange) (n : Nat) (h : r.valid n = true) :
    r.start n ≤ r.stop n ∧ r.stop n ≤ n ∧ r.stop n - r.start n = r.length n := by
  cases r with
  | fromStart o l =>
    cases l with
    | none => simp [valid, start, stop, length] at *; omega
    | some l => simp [valid, start, stop, length] at *; omega
  | suffix l => simp [valid, start, stop, length] at *; omega

theorem slice_length (b : Bytes) (a e : Nat) (h : e ≤ b.length) : (slice b a e).length = e - a := by
  simp [slice]; omega

theorem Mem.getPartial_go_eq (b : Bytes) (rs : List ByteRange) :
    Mem.getPartial.go b rs = extractByteRanges b rs := by
  induction rs with
  | nil => simp [Mem.getPartial.go, extractByteRanges]
  | cons r rs ih =>
    unfold Mem.getPartial.go
    rw [ih]
    unfold extractByteRanges
    by_cases h : r.valid b.length = true
    · by_cases h2 : (rs.all (·.valid b.length)) = true
      · simp [h, h2]
      · simp [h, h2]
    · simp [h]

theorem Mem.getPartial_eq (b : Bytes) (rs : List ByteRange) :
    Mem.getPartial b rs = extractByteRanges b rs := Mem.getPartial_go_eq b rs

theorem ByteRange.extractTrunc_of_valid (b : Bytes) (r : ByteRange) (h : r.valid b.length = true) :
    r.extractTrunc b = r.extract b := by
  cases r with
  | fromStart o l =>
    cases l with
    | none => rfl
    | some l =>
      simp only [ByteRange.valid, Option.getD_some, decide_eq_true_eq] at h
      simp only [ByteRange.extractTrunc, ByteRange.extract, ByteRange.start, ByteRange.stop]
      rw [Nat.min_eq_left h]
  | suffix l => rfl

/-! ### store steps -/

theorem foldl_erase_sorted (ks : List Key) (m : KV) (hs : m.sorted) : (ks.foldl KV.erase m).sorted := by
  induction ks generalizing m with
  | nil => exact hs
  | cons k ks ih => exact ih _ (KV.erase_sorted m hs k)

theorem foldl_setPartial_sorted (kovs : List (Key × Nat × Bytes)) (m : KV) (hs : m.sorted) :
    (kovs.foldl (fun m (x : Key × Nat × Bytes) => m.put x.1 (specSetPartial ((m.get x.1).getD []) x.2.1 x.2.2)) m).sorted := by
  induction kovs generalizing m with
  | nil => exact hs
  | cons x xs ih => exact ih _ (KV.put_sorted m hs _ _)

theorem Spec.step_sorted (m : KV) (hs : m.sorted) (op : StoreOp) : (Spec.step m op).1.sorted := by
  cases op with
  | set k v => exact KV.put_sorted m hs k v
  | setPartial kovs => exact foldl_setPartial_sorted kovs m hs
  | erase k => exact KV.erase_sorted m hs k
  | eraseValues ks => exact foldl_erase_sorted ks m hs
  | erasePrefix p => exact KV.filter_sorted m hs _
  | _ => exact hs

theorem KV.get_filter_key (m : KV) (f : Key → Bool) (k : Key) :
    KV.get (m.filter (fun kv => f kv.1)) k = if f k then m.get k else none := by
  induction m with
  | nil => simp [KV.get]
  | cons kv rest ih =>
    obtain ⟨k0, v0⟩ := kv
    by_cases h : f k0 = true
    · rw [List.filter_cons_of_pos (by simpa using h), KV.get_cons, KV.get_cons, ih]
      by_cases h' : k0 = k
      · subst h'; simp [h]
      · simp [h']
    · rw [List.filter_cons_of_neg (by simpa using h), KV.get_cons, ih]
      by_cases h' : k0 = k
      · subst h'; simp [h]
      · simp [h']

theorem Spec.erasePrefix_get (m : KV) (p k : Key) :
    ((Spec.step m (.erasePrefix p)).1).get k = if hasPrefix k p then none else m.get k := by
  have h := KV.get_filter_key m (fun k => !hasPrefix k p) k
  have e : (Spec.step m (.erasePrefix p)).1 = m.filter (fun kv => (fun k => !hasPrefix k p) kv.1) := rfl
  rw [e, h]
  cases hasPrefix k p <;> simp

theorem KV.sorted_keys_filter (m : KV) (hs : m.sorted) (f : Key → Bool) :
    (m.keys.filter f).Pairwise (fun a b => keyLt a b = true) := List.Pairwise.filter _ hs



/-! ### MemoryStore vs specification -/

theorem foldl_erasePrefix (p : Key) (ks : List Key) (m : KV) :
    ks.foldl (fun m k => if hasPrefix k p then m.erase k else m) m =
      m.filter (fun kv => !(hasPrefix kv.1 p && ks.contains kv.1)) := by
  induction ks generalizing m with
  | nil => exact (List.filter_eq_self.2 (fun _ _ => by simp)).symm
  | cons k ks ih =>
    rw [List.foldl_cons, ih]
    by_cases h : hasPrefix k p = true
    · rw [if_pos h]
      unfold KV.erase
      rw [List.filter_filter]
      apply List.filter_congr
      intro kv _
      by_cases hk : kv.1 = k
      · simp [hk, h]
      · simp [hk]
    · rw [if_neg h]
      apply List.filter_congr
      intro kv _
      by_cases hk : kv.1 = k
      · simp [hk, h]
      · simp [hk]

theorem erasePrefix_refines (m : KV) (p : Key) :
    m.keys.foldl (fun m k => if hasPrefix k p then m.erase k else m) m = m.filter (fun kv => !hasPrefix kv.1 p) := by
  rw [foldl_erasePrefix]
  apply List.filter_congr
  intro kv hkv
  have : m.keys.contains kv.1 = true := by
    simp only [List.contains_iff_mem, KV.keys]
    exact List.mem_map_of_mem hkv
  simp only [this, Bool.and_true]

theorem KV.get_of_mem_sorted (m : KV) (hs : m.sorted) (kv : Key × Bytes) (h : kv ∈ m) : m.get kv.1 = some kv.2 := by
  induction m with
  | nil => cases h
  | cons kv0 rest ih =>
    obtain ⟨k0, v0⟩ := kv0
    rw [KV.sorted_cons] at hs
    rw [KV.get_cons]
    rcases List.mem_cons.1 h with rfl | h
    · simp
    · have hlt := hs.1 kv.1 (List.mem_map_of_mem h)
      have : ¬ k0 = kv.1 := keyLt_ne hlt
      rw [if_neg this]
      exact ih hs.2 h

theorem sizePrefix_aux (m : KV) (p : Key) (l : KV) (hl : ∀ kv ∈ l, m.get kv.1 = some kv.2) (acc : Nat) :
    (l.keys.filter (hasPrefix · p)).foldl (fun acc k => acc + ((m.get k).map List.length).getD 0) acc =
      acc + ((l.filter (fun kv => hasPrefix kv.1 p)).map (·.2.length)).sum := by
  induction l generalizing acc with
  | nil => simp [KV.keys]
  | cons kv rest ih =>
    have ih' := fun acc => ih (fun kv h => hl kv (List.mem_cons_of_mem _ h)) acc
    rw [KV.keys_cons]
    by_cases h : hasPrefix kv.1 p = true
    · simp only [List.filter_cons, h, if_true, List.foldl_cons, ih', hl kv (List.mem_cons_self ..)]
      simp [Nat.add_assoc]
    · simp only [List.filter_cons, h, Bool.false_eq_true, if_false, ih']

theorem sizePrefix_refines (m : KV) (hs : m.sorted) (p : Key) :
    (m.keys.filter (hasPrefix · p)).foldl (fun acc k => acc + ((m.get k).map List.length).getD 0) 0 =
      ((m.filter (fun kv => hasPrefix kv.1 p)).map (·.2.length)).sum := by
  rw [sizePrefix_aux m p m (fun kv h => KV.get_of_mem_sorted m hs kv h) 0, Nat.zero_add]

theorem Mem.step_eq_spec (m : KV) (op : StoreOp) (hs : m.sorted) (hop : ∀ p, op ≠ .listDir p) :
    Mem.step m op = Spec.step m op := by
  cases op with
  | set k v => simp only [Mem.step, Spec.step, setImpl_full]
  | setPartial kovs =>
    simp only [Mem.step, Spec.step, setImpl_noTrunc]
  | erasePrefix p => simp only [Mem.step, Spec.step, erasePrefix_refines]
  | getPartial k rs => simp only [Mem.step, Spec.step, Mem.getPartial_eq]
  | sizePrefix p => simp only [Mem.step, Spec.step, sizePrefix_refines m hs]
  | listDir p => exact absurd rfl (hop p)
  | _ => rfl

/-! ### generic read-modify-write partial write -/

def specKov (m : KV) (x : Key × Nat × Bytes) : KV :=
  m.put x.1 (specSetPartial ((m.get x.1).getD []) x.2.1 x.2.2)

def specGroup (m : KV) (x : Key × List (Nat × Bytes)) : KV :=
  m.put x.1 (specFold ((m.get x.1).getD []) x.2)

theorem specGroup_cons (m : KV) (k : Key) (o : Nat) (v : Bytes) (g : List (Nat × Bytes)) :
    specGroup m (k, (o, v) :: g) = specGroup (specKov m (k, o, v)) (k, g) := by
  unfold specGroup specKov
  simp only
  rw [KV.get_put_same, KV.put_put]
  rfl

theorem groupConsecutive_cons_nil (k : Key) (o : Nat) (v : Bytes) (rest : List (Key × Nat × Bytes))
    (h : groupConsecutive rest = []) : groupConsecutive ((k, o, v) :: rest) = [(k, [(o, v)])] := by
  rw [groupConsecutive, h]

theorem groupConsecutive_cons_eq (k : Key) (o : Nat) (v : Bytes) (rest : List (Key × Nat × Bytes))
    (g : List (Nat × Bytes)) (gs : List (Key × List (Nat × Bytes)))
    (h : groupConsecutive rest = (k, g) :: gs) : groupConsecutive ((k, o, v) :: rest) = (k, (o, v) :: g) :: gs := by
  rw [groupConsecutive, h]; simp

theorem groupConsecutive_cons_ne (k k' : Key) (o : Nat) (v : Bytes) (rest : List (Key × Nat × Bytes))
    (g : List (Nat × Bytes)) (gs : List (Key × List (Nat × Bytes))) (hk : k ≠ k')
    (h : groupConsecutive rest = (k', g) :: gs) :
    groupConsecutive ((k, o, v) :: rest) = (k, [(o, v)]) :: (k', g) :: gs := by
  rw [groupConsecutive, h]; simp [hk]

theorem foldl_specKov_eq_groups (kovs : List (Key × Nat × Bytes)) (m : KV) :
    kovs.foldl specKov m = (groupConsecutive kovs).foldl specGroup m := by
  induction kovs generalizing m with
  | nil => rfl
  | cons x rest ih =>
    obtain ⟨k, o, v⟩ := x
    rw [List.foldl_cons, ih]
    cases hg : groupConsecutive rest with
    | nil =>
      rw [groupConsecutive_cons_nil _ _ _ _ hg]
      rfl
    | cons kg gs =>
      obtain ⟨k', g⟩ := kg
      by_cases hk : k = k'
      · subst hk
        rw [groupConsecutive_cons_eq _ _ _ _ _ _ hg, List.foldl_cons, List.foldl_cons, specGroup_cons]
      · rw [groupConsecutive_cons_ne _ _ _ _ _ _ _ hk hg]
        rfl

theorem rmwPartial_eq (m : KV) (kovs : List (Key × Nat × Bytes)) :
    rmwPartial m kovs = (groupConsecutive kovs).foldl specGroup m := by
  unfold rmwPartial
  congr 1
  funext m x
  obtain ⟨k, g⟩ := x
  simp only [rmwGroup_eq]
  rfl

theorem rmwPartial_eq_spec (m : KV) (kovs : List (Key × Nat × Bytes)) :
    rmwPartial m kovs = (Spec.step m (.setPartial kovs)).1 := by
  rw [rmwPartial_eq, ← foldl_specKov_eq_groups]
  rfl



/-! ### path components -/

theorem firstComponent_cons (c : Char) (rest : Key) :
    firstComponent (c :: rest) =
      if c = '/' then ([], true) else (c :: (firstComponent rest).1, (firstComponent rest).2) := by
  split
  · subst_vars; rfl
  · rw [firstComponent]
    intro h; contradiction

theorem firstComponent_noSlash (s : Key) : '/' ∉ (firstComponent s).1 := by
  induction s with
  | nil => simp [firstComponent]
  | cons c rest ih =>
    rw [firstComponent_cons]
    split
    · simp
    · rename_i h
      simp only [List.mem_cons, not_or]
      exact ⟨fun e => h e.symm, ih⟩

theorem firstComponent_more (s : Key) (h : (firstComponent s).2 = true) :
    ∃ t, s = (firstComponent s).1 ++ '/' :: t := by
  induction s with
  | nil => simp [firstComponent] at h
  | cons c rest ih =>
    rw [firstComponent_cons] at h ⊢
    split
    · rename_i hc; subst hc; exact ⟨rest, rfl⟩
    · rename_i hc
      rw [if_neg hc] at h
      obtain ⟨t, ht⟩ := ih h
      exact ⟨t, by simp only [List.cons_append]; rw [← ht]⟩

theorem firstComponent_nomore (s : Key) (h : (firstComponent s).2 = false) : '/' ∉ s := by
  induction s with
  | nil => simp
  | cons c rest ih =>
    rw [firstComponent_cons] at h
    split at h
    · cases h
    · rename_i hc
      simp only [List.mem_cons, not_or]
      exact ⟨fun e => hc e.symm, ih h⟩

theorem firstComponent_append (c t : Key) (hc : '/' ∉ c) : firstComponent (c ++ '/' :: t) = (c, true) := by
  induction c with
  | nil => rfl
  | cons x xs ih =>
    simp only [List.mem_cons, not_or] at hc
    rw [List.cons_append, firstComponent_cons, if_neg (fun e => hc.1 e.symm), ih hc.2]

theorem firstComponent_ne_nil (s : Key) (h1 : s ≠ []) (h2 : s.head? ≠ some '/') : (firstComponent s).1 ≠ [] := by
  cases s with
  | nil => exact absurd rfl h1
  | cons c rest =>
    rw [firstComponent_cons]
    have : c ≠ '/' := by intro e; subst e; exact h2 rfl
    rw [if_neg this]
    simp

/-! ### parent -/

theorem parentOf_eq (k : Key) : parentOf k = (k.reverse.dropWhile (· != '/')).reverse := by
  unfold parentOf
  split
  · rename_i h; rw [h]; rfl
  · rfl

theorem parentOf_prefix (k : Key) : parentOf k <+: k := by
  rw [parentOf_eq]
  have := List.dropWhile_suffix (l := k.reverse) (· != '/')
  rw [← List.reverse_prefix] at this
  simpa using this

theorem dropWhile_all {α} (f : α → Bool) (l : List α) (h : ∀ x ∈ l, f x = true) : l.dropWhile f = [] := by
  induction l with
  | nil => rfl
  | cons x xs ih =>
    rw [List.dropWhile_cons, if_pos (h x (List.mem_cons_self ..))]
    exact ih (fun y hy => h y (List.mem_cons_of_mem _ hy))

/-- a prefix shape: empty or ending in '/' -/
def dirShaped (p : Key) : Prop := p = [] ∨ ∃ p', p = p' ++ ['/']

theorem parentOf_append_noSlash (p s : Key) (hp : dirShaped p) (hs : '/' ∉ s) : parentOf (p ++ s) = p := by
  rw [parentOf_eq, List.reverse_append, List.dropWhile_append]
  have h1 : s.reverse.dropWhile (· != '/') = [] := by
    apply dropWhile_all
    intro x hx
    have : x ≠ '/' := by intro e; subst e; exact hs (List.mem_reverse.1 hx)
    simpa using this
  rw [h1]
  simp only [List.isEmpty_nil, if_true]
  rcases hp with rfl | ⟨p', rfl⟩
  · rfl
  · simp

theorem length_dropWhile_append_ge {α} (f : α → Bool) (xs : List α) (y : α) (ys : List α) (hy : f y = false) :
    ys.length + 1 ≤ ((xs ++ y :: ys).dropWhile f).length := by
  induction xs with
  | nil => simp [hy]
  | cons x xs ih =>
    rw [List.cons_append, List.dropWhile_cons]
    split
    · exact ih
    · simp; omega

theorem parentOf_append_slash (p c t : Key) : p.length < (parentOf (p ++ c ++ '/' :: t)).length := by
  rw [parentOf_eq, List.length_reverse, List.reverse_append, List.reverse_cons, List.append_assoc]
  have := length_dropWhile_append_ge (· != '/') t.reverse '/' (p ++ c).reverse (by simp)
  simp only [List.singleton_append]
  simp only [List.length_reverse, List.length_append] at this ⊢
  omega

theorem parentOf_append_slash_ne (p c t : Key) : parentOf (p ++ c ++ '/' :: t) ≠ p := by
  intro h
  have := parentOf_append_slash p c t
  rw [h] at this
  omega

/-! ### valid keys -/

theorem any_zip_cons (f : Char × Char → Bool) (x : Char) (r : Key)
    (h : (List.zip r (r.drop 1)).any f = true) : (List.zip (x :: r) r).any f = true := by
  cases r with
  | nil => simp at h
  | cons y r' =>
    simp only [List.drop_succ_cons, List.drop_zero] at h
    simp only [List.zip_cons_cons, List.any_cons, h, Bool.or_true]

theorem doubleSlash_any (a t : Key) :
    (List.zip (a ++ '/' :: '/' :: t) ((a ++ '/' :: '/' :: t).drop 1)).any (fun p => p.1 == '/' && p.2 == '/') = true := by
  induction a with
  | nil => simp
  | cons x a ih =>
    simp only [List.cons_append, List.drop_succ_cons, List.drop_zero]
    exact any_zip_cons _ _ _ ih

theorem validPrefixB_dirShaped (p : Key) (hp : validPrefixB p = true) : dirShaped p := by
  unfold validPrefixB at hp
  simp only [Bool.or_eq_true, Bool.and_eq_true, beq_iff_eq] at hp
  rcases hp with h | ⟨h, _⟩
  · left; simpa using h
  · right; exact List.getLast?_eq_some_iff.1 h

/-- the remainder of a valid key below a directory prefix is a non-empty path not starting with '/' -/
theorem validKey_rest (p s : Key) (hp : dirShaped p) (hk : validKeyB (p ++ s) = true) :
    s ≠ [] ∧ s.head? ≠ some '/' := by
  unfold validKeyB at hk
  simp only [Bool.and_eq_true, Bool.not_eq_true', bne_iff_ne, ne_eq] at hk
  obtain ⟨⟨⟨h1, h2⟩, h3⟩, h4⟩ := hk
  rcases hp with rfl | ⟨p', rfl⟩
  · refine ⟨?_, by simpa using h2⟩
    intro e; subst e; simp at h1
  · constructor
    · intro e; subst e
      simp at h3
    · intro e
      cases s with
      | nil => simp at e
      | cons c t =>
        simp at e; subst e
        have := doubleSlash_any p' t
        simp only [List.append_assoc, List.singleton_append] at h4
        rw [this] at h4
        cases h4



/-! ### sorted insertion -/

theorem insertSorted_cons_eq (k : Key) (l : List Key) : insertSorted k (k :: l) = k :: l := by
  simp [insertSorted]
theorem insertSorted_cons_lt (k y : Key) (l : List Key) (h1 : k ≠ y) (h2 : keyLt k y = true) :
    insertSorted k (y :: l) = k :: y :: l := by
  simp [insertSorted, h1, h2]
theorem insertSorted_cons_gt (k y : Key) (l : List Key) (h1 : k ≠ y) (h2 : ¬ keyLt k y = true) :
    insertSorted k (y :: l) = y :: insertSorted k l := by
  simp [insertSorted, h1, h2]

theorem mem_insertSorted (k x : Key) (l : List Key) : x ∈ insertSorted k l ↔ x = k ∨ x ∈ l := by
  induction l with
  | nil => simp [insertSorted]
  | cons y ys ih =>
    by_cases h1 : k = y
    · subst h1; rw [insertSorted_cons_eq]; simp
    · by_cases h2 : keyLt k y = true
      · rw [insertSorted_cons_lt _ _ _ h1 h2]; simp
      · rw [insertSorted_cons_gt _ _ _ h1 h2, List.mem_cons, List.mem_cons, ih]
        constructor
        · rintro (h | h | h)
          · exact Or.inr (Or.inl h)
          · exact Or.inl h
          · exact Or.inr (Or.inr h)
        · rintro (h | h | h)
          · exact Or.inr (Or.inl h)
          · exact Or.inl h
          · exact Or.inr (Or.inr h)

theorem insertSorted_sorted (k : Key) (l : List Key) (hs : l.Pairwise (fun a b => keyLt a b = true)) :
    (insertSorted k l).Pairwise (fun a b => keyLt a b = true) := by
  induction l with
  | nil => simp [insertSorted]
  | cons y ys ih =>
    rw [List.pairwise_cons] at hs
    by_cases h1 : k = y
    · subst h1; rw [insertSorted_cons_eq]; exact List.pairwise_cons.2 hs
    · by_cases h2 : keyLt k y = true
      · rw [insertSorted_cons_lt _ _ _ h1 h2]
        refine List.pairwise_cons.2 ⟨?_, List.pairwise_cons.2 hs⟩
        intro z hz
        rcases List.mem_cons.1 hz with rfl | hz
        · exact h2
        · exact keyLt_trans _ _ _ h2 (hs.1 z hz)
      · rw [insertSorted_cons_gt _ _ _ h1 h2]
        refine List.pairwise_cons.2 ⟨?_, ih hs.2⟩
        intro z hz
        rcases (mem_insertSorted _ _ _).1 hz with rfl | hz
        · exact keyLt_total _ _ h1 (by simpa using h2)
        · exact hs.1 z hz

theorem mem_foldl_insertSorted {α} (f : α → Key) (l : List α) (acc : List Key) (q : Key) :
    q ∈ l.foldl (fun a k => insertSorted (f k) a) acc ↔ q ∈ acc ∨ ∃ k ∈ l, q = f k := by
  induction l generalizing acc with
  | nil => simp
  | cons x xs ih =>
    rw [List.foldl_cons, ih, mem_insertSorted]
    constructor
    · rintro ((h | h) | ⟨k, hk, h⟩)
      · exact Or.inr ⟨x, List.mem_cons_self .., h⟩
      · exact Or.inl h
      · exact Or.inr ⟨k, List.mem_cons_of_mem _ hk, h⟩
    · rintro (h | ⟨k, hk, h⟩)
      · exact Or.inl (Or.inr h)
      · rcases List.mem_cons.1 hk with rfl | hk
        · exact Or.inl (Or.inl h)
        · exact Or.inr ⟨k, hk, h⟩

theorem foldl_insertSorted_sorted {α} (f : α → Key) (l : List α) (acc : List Key)
    (hs : acc.Pairwise (fun a b => keyLt a b = true)) :
    (l.foldl (fun a k => insertSorted (f k) a) acc).Pairwise (fun a b => keyLt a b = true) := by
  induction l generalizing acc with
  | nil => exact hs
  | cons x xs ih => exact ih _ (insertSorted_sorted _ _ hs)

/-! ### directory listing -/

/-- the child prefix of `k` directly below `p` -/
def childPrefix (p k : Key) : Key := p ++ (firstComponent (k.drop p.length)).1 ++ ['/']

def stripSlash : Key → Key
  | '/' :: r => r
  | s => s

theorem stripSlash_of_head (s : Key) (h : s.head? ≠ some '/') : stripSlash s = s := by
  cases s with
  | nil => rfl
  | cons c t =>
    have hc : c ≠ '/' := by intro e; subst e; exact h rfl
    clear h
    unfold stripSlash
    split
    · rename_i heq; injection heq with h1 h2; exact absurd h1 hc
    · rfl

def memDirStep (p : Key) (acc : List Key × List Key) (k : Key) : List Key × List Key :=
  if hasPrefix k p then
    let strip := k.drop p.length
    let strip := stripSlash strip
    let (c0, more) := firstComponent strip
    if more then (acc.1, insertSorted (p ++ c0 ++ ['/']) acc.2)
    else if parentOf k == p then (acc.1 ++ [k], acc.2) else acc
  else acc

def specDirStep (p : Key) (acc : List Key × List Key) (k : Key) : List Key × List Key :=
  if hasPrefix k p then
    if parentOf k == p then (acc.1 ++ [k], acc.2) else (acc.1, insertSorted (childPrefix p k) acc.2)
  else acc

theorem Mem.listDir_eq_foldl (m : KV) (p : Key) : Mem.listDir m p = m.keys.foldl (memDirStep p) ([], []) := rfl

theorem hasPrefix_iff (k p : Key) : hasPrefix k p = true ↔ ∃ s, k = p ++ s := by
  unfold hasPrefix
  rw [List.isPrefixOf_iff_prefix]
  constructor
  · rintro ⟨s, hs⟩; exact ⟨s, hs.symm⟩
  · rintro ⟨s, hs⟩; exact ⟨s, hs.symm⟩

/-- below a directory prefix, a valid key either is a direct child (no further '/') or lies under a child prefix -/
theorem dir_cases (p s : Key) (hp : dirShaped p) :
    ((firstComponent s).2 = false ∧ parentOf (p ++ s) = p) ∨
    ((firstComponent s).2 = true ∧ parentOf (p ++ s) ≠ p) := by
  cases h : (firstComponent s).2 with
  | false => exact Or.inl ⟨rfl, parentOf_append_noSlash p s hp (firstComponent_nomore s h)⟩
  | true =>
    refine Or.inr ⟨rfl, ?_⟩
    obtain ⟨t, ht⟩ := firstComponent_more s h
    rw [ht, ← List.append_assoc]
    exact parentOf_append_slash_ne _ _ _

theorem memDirStep_eq (p : Key) (hp : dirShaped p) (acc : List Key × List Key) (k : Key) (hk : validKeyB k = true) :
    memDirStep p acc k = specDirStep p acc k := by
  unfold memDirStep specDirStep
  by_cases hpre : hasPrefix k p = true
  · rw [if_pos hpre, if_pos hpre]
    obtain ⟨s, rfl⟩ := (hasPrefix_iff k p).1 hpre
    obtain ⟨hs1, hs2⟩ := validKey_rest p s hp hk
    unfold childPrefix
    rw [List.drop_left]
    simp only [stripSlash_of_head s hs2]
    rcases dir_cases p s hp with ⟨h1, h2⟩ | ⟨h1, h2⟩
    · simp [h1, h2]
    · have : (parentOf (p ++ s) == p) = false := by simpa using h2
      simp [h1, this]
  · rw [if_neg hpre, if_neg hpre]

theorem foldl_specDirStep (p : Key) (l : List Key) (acc : List Key × List Key) :
    l.foldl (specDirStep p) acc =
      (acc.1 ++ (l.filter (hasPrefix · p)).filter (fun k => parentOf k == p),
       ((l.filter (hasPrefix · p)).filter (fun k => parentOf k != p)).foldl
         (fun a k => insertSorted (childPrefix p k) a) acc.2) := by
  induction l generalizing acc with
  | nil => simp
  | cons k ks ih =>
    rw [List.foldl_cons, ih]
    unfold specDirStep
    by_cases h1 : hasPrefix k p = true
    · by_cases h2 : parentOf k = p
      · simp [h1, h2]
      · simp [h1, h2]
    · simp [h1]

theorem foldl_memDirStep (p : Key) (hp : dirShaped p) (l : List Key) (hl : ∀ k ∈ l, validKeyB k = true)
    (acc : List Key × List Key) : l.foldl (memDirStep p) acc = l.foldl (specDirStep p) acc := by
  induction l generalizing acc with
  | nil => rfl
  | cons k ks ih =>
    rw [List.foldl_cons, List.foldl_cons, memDirStep_eq p hp acc k (hl k (List.mem_cons_self ..))]
    exact ih (fun k' h => hl k' (List.mem_cons_of_mem _ h)) _

theorem Spec.listDir_eq (m : KV) (p : Key) :
    Spec.listDir m p =
      ((m.keys.filter (hasPrefix · p)).filter (fun k => parentOf k == p),
       ((m.keys.filter (hasPrefix · p)).filter (fun k => parentOf k != p)).foldl
         (fun a k => insertSorted (childPrefix p k) a) []) := rfl

theorem Mem.listDir_eq_spec (m : KV) (p : Key) (hp : dirShaped p) (hv : ∀ k ∈ m.keys, validKeyB k = true) :
    Mem.listDir m p = Spec.listDir m p := by
  rw [Mem.listDir_eq_foldl, foldl_memDirStep p hp _ hv, foldl_specDirStep, Spec.listDir_eq]
  rfl

theorem Spec.listDir_keys (m : KV) (p k : Key) :
    k ∈ (Spec.listDir m p).1 ↔ (k ∈ m.keys ∧ parentOf k = p) := by
  rw [Spec.listDir_eq]
  simp only [List.mem_filter, beq_iff_eq]
  constructor
  · rintro ⟨⟨h1, _⟩, h2⟩; exact ⟨h1, h2⟩
  · rintro ⟨h1, h2⟩
    refine ⟨⟨h1, ?_⟩, h2⟩
    unfold hasPrefix
    rw [List.isPrefixOf_iff_prefix, ← h2]
    exact parentOf_prefix k

theorem Spec.listDir_prefixes (m : KV) (p : Key) (hp : dirShaped p) (hv : ∀ k ∈ m.keys, validKeyB k = true) (q : Key) :
    q ∈ (Spec.listDir m p).2 ↔
      ∃ k ∈ m.keys, ∃ c : Key, c ≠ [] ∧ '/' ∉ c ∧ q = p ++ c ++ ['/'] ∧ q.isPrefixOf k = true := by
  rw [Spec.listDir_eq]
  simp only [mem_foldl_insertSorted, List.not_mem_nil, false_or, List.mem_filter, bne_iff_ne, ne_eq]
  constructor
  · rintro ⟨k, ⟨⟨hk, hpre⟩, hpar⟩, rfl⟩
    obtain ⟨s, rfl⟩ := (hasPrefix_iff k p).1 hpre
    obtain ⟨hs1, hs2⟩ := validKey_rest p s hp (hv _ hk)
    refine ⟨_, hk, (firstComponent s).1, firstComponent_ne_nil s hs1 hs2, firstComponent_noSlash s, ?_, ?_⟩
    · unfold childPrefix; rw [List.drop_left]
    · unfold childPrefix; rw [List.drop_left]
      rcases dir_cases p s hp with ⟨_, h2⟩ | ⟨h1, _⟩
      · exact absurd h2 hpar
      · obtain ⟨t, ht⟩ := firstComponent_more s h1
        rw [List.isPrefixOf_iff_prefix]
        refine ⟨t, ?_⟩
        conv => rhs; rw [ht]
        simp
  · rintro ⟨k, hk, c, hc1, hc2, rfl, hpre⟩
    rw [List.isPrefixOf_iff_prefix] at hpre
    obtain ⟨t, rfl⟩ := hpre
    refine ⟨_, ⟨⟨hk, ?_⟩, ?_⟩, ?_⟩
    · rw [hasPrefix_iff]; exact ⟨c ++ '/' :: t, by simp⟩
    · have := parentOf_append_slash_ne p c t
      simpa using this
    · unfold childPrefix
      have : List.drop p.length (p ++ c ++ ['/'] ++ t) = c ++ '/' :: t := by
        rw [List.append_assoc, List.append_assoc, List.drop_left]; simp
      rw [this, firstComponent_append c t hc2]

theorem Spec.listDir_prefixes_sorted (m : KV) (p : Key) :
    (Spec.listDir m p).2.Pairwise (fun a b => keyLt a b = true) := by
  rw [Spec.listDir_eq]
  exact foldl_insertSorted_sorted _ _ _ List.Pairwise.nil


end Zarrs
