import ZarrsModel.Lemmas.PackBitsPDMain
/- helper lemmas for the packbits partial decoder (C02), part 4: on the fast path the generic bit packing is the
identity (= the little-endian `bytes` encoding); components of concatenated elements; chains on data inside the bit
range -/
set_option Elab.async false
namespace Zarrs.PackBitsPD
open Zarrs Zarrs.Codec Zarrs.Partial Zarrs.PackBits

/-! ### whole little-endian components, bit by bit -/

theorem bitsOf_mod (n v : Nat) : bitsOf n (v % 2 ^ n) = bitsOf n v := by
  have h := bitsOf_natOfBits (bitsOf n v) n (by rw [bitsOf_length]; exact Nat.le_refl _)
  rw [natOfBits_bitsOf, bitsOf_length, Nat.sub_self] at h
  simpa using h

theorem bitsOf_add : ∀ (a b v : Nat), bitsOf (a + b) v = bitsOf a v ++ bitsOf b (v / 2 ^ a) := by
  intro a
  induction a with
  | zero => intro b v; simp [bitsOf_zero]
  | succ a ih =>
    intro b v
    have e : a + 1 + b = (a + b) + 1 := by omega
    rw [e, bitsOf_succ, bitsOf_succ, ih, Nat.div_div_eq_div_mul, Nat.pow_succ, Nat.mul_comm 2]
    rfl

theorem bitsOf_ofLE : ∀ (ch : Bytes), (∀ x ∈ ch, x < 256) → bitsOf (8 * ch.length) (ofLE ch) = allBits ch := by
  intro ch
  induction ch with
  | nil => intro _; rfl
  | cons x xs ih =>
    intro h
    have hx : x < 256 := h x (by simp)
    have e : 8 * (x :: xs).length = 8 + 8 * xs.length := by simp only [List.length_cons]; omega
    rw [e, bitsOf_add, ofLE, allBits_cons]
    have h1 : (x + 256 * ofLE xs) / 2 ^ 8 = ofLE xs := by
      show (x + 256 * ofLE xs) / 256 = ofLE xs
      omega
    have h2 : bitsOf 8 (x + 256 * ofLE xs) = bitsOf 8 x := by
      rw [← bitsOf_mod 8 (x + 256 * ofLE xs)]
      have : (x + 256 * ofLE xs) % 2 ^ 8 = x := by
        show (x + 256 * ofLE xs) % 256 = x
        omega
      rw [this]
    rw [h1, h2, ih (fun y hy => h y (by simp [hy]))]

theorem bytesOfBits_allBits : ∀ (b : Bytes) (fuel : Nat), (∀ x ∈ b, x < 256) → b.length ≤ fuel →
    bytesOfBits fuel (allBits b) = b := by
  intro b
  induction b with
  | nil => intro fuel _ _; exact bytesOfBits_nil fuel
  | cons x xs ih =>
    intro fuel h hf
    cases fuel with
    | zero => simp at hf
    | succ f =>
      have hx : x < 256 := h x (by simp)
      rw [allBits_cons]
      have hne : ∃ b bs, bitsOf 8 x ++ allBits xs = b :: bs := by
        rw [show (8 : Nat) = 7 + 1 from rfl, bitsOf_succ]
        exact ⟨_, _, rfl⟩
      obtain ⟨b, bs, hbs⟩ := hne
      rw [hbs, bytesOfBits_cons, ← hbs, List.take_left' (bitsOf_length 8 x), List.drop_left' (bitsOf_length 8 x),
        natOfBits_bitsOf, ih f (fun y hy => h y (by simp [hy])) (by simpa using hf)]
      have : x % 2 ^ 8 = x := Nat.mod_eq_of_lt hx
      rw [this]

theorem flatMap_allBits : ∀ (L : List Bytes), L.flatMap allBits = allBits L.flatten
  | [] => rfl
  | g :: L => by
    rw [List.flatMap_cons, flatMap_allBits L, List.flatten_cons]
    simp only [allBits, List.flatMap_append]

/-- on the fast path the bit packing of whole components reproduces the decoded bytes -/
theorem encBody_fast (c : Cfg) (hw : 0 < c.w) (data : Bytes) (hb : ∀ x ∈ data, x < 256)
    (hlen : data.length % c.cb = 0) (hf : fast c = true) : encBody c data = data := by
  unfold fast at hf
  simp only [Bool.and_eq_true, beq_iff_eq] at hf
  obtain ⟨⟨h8, h0⟩, hlast⟩ := hf
  have hn : c.n = 8 * c.cb := by unfold Cfg.n Cfg.cb; omega
  obtain ⟨_, hc2, hc3⟩ := chunks_data c hw data hlen
  have hbits : encBits c data = allBits data := by
    unfold encBits comps
    rw [List.map_map, List.flatMap_def, List.map_map, ← List.flatMap_def]
    have : (chunks c.cb (data.length + 1) data).flatMap
        (bitsOf c.n ∘ (fun v => v / 2 ^ c.first % 2 ^ c.n) ∘ ofLE) =
        (chunks c.cb (data.length + 1) data).flatMap allBits := by
      rw [List.flatMap_def, List.flatMap_def]
      congr 1
      apply List.map_congr_left
      intro ch hch
      have hwf : ∀ x ∈ ch, x < 256 := by
        intro x hx
        apply hb
        rw [← hc3]
        exact List.mem_flatten.mpr ⟨ch, hch, hx⟩
      simp only [Function.comp, h0, Nat.pow_zero, Nat.div_one]
      rw [bitsOf_mod, hn, ← hc2 ch hch, bitsOf_ofLE ch hwf]
    rw [this, flatMap_allBits, hc3]
  unfold encBody
  rw [hbits]
  exact bytesOfBits_allBits data _ hb (by rw [allBits_length]; omega)

/-! ### components of concatenated elements -/

theorem chunks_of_flatten (k : Nat) (hk : 0 < k) : ∀ (gs : List Bytes) (fuel : Nat), (∀ g ∈ gs, g.length = k) →
    gs.length < fuel → chunks k fuel gs.flatten = gs
  | [], fuel, _, h => by
    cases fuel with
    | zero => simp at h
    | succ f => simp [chunks]
  | g :: gs, fuel, hall, h => by
    cases fuel with
    | zero => simp at h
    | succ f =>
      have hg : g.length = k := hall g (by simp)
      have hne : (g ++ gs.flatten).isEmpty = false := by
        cases g with
        | nil => simp at hg; omega
        | cons x xs => rfl
      have hk0 : (k == 0) = false := by simp; omega
      rw [List.flatten_cons, chunks]
      simp only [hne, hk0, Bool.or_self, Bool.false_eq_true, if_false]
      rw [List.take_left' hg, List.drop_left' hg,
        chunks_of_flatten k hk gs f (fun g' hg' => hall g' (by simp [hg'])) (by simpa using h)]

theorem comps_flatten (c : Cfg) (hw : 0 < c.w) (ys : List Bytes) (h : ∀ y ∈ ys, y.length % c.cb = 0) :
    comps c ys.flatten = ys.flatMap (comps c) := by
  have hk := cb_pos c hw
  let L := ys.flatMap (fun y => chunks c.cb (y.length + 1) y)
  have hLf : L.flatten = ys.flatten := by
    show (ys.flatMap (fun y => chunks c.cb (y.length + 1) y)).flatten = ys.flatten
    rw [← flatten_map_flatten]
    congr 1
    conv => rhs; rw [← List.map_id ys]
    apply List.map_congr_left
    intro y hy
    exact (chunks_data c hw y (h y hy)).2.2
  have hLl : ∀ g ∈ L, g.length = c.cb := by
    intro g hg
    obtain ⟨y, hy, hgy⟩ := List.mem_flatMap.mp hg
    exact (chunks_data c hw y (h y hy)).2.1 g hgy
  have hlen : L.length < ys.flatten.length + 1 := by
    have := flatten_length_of_all c.cb L hLl
    rw [hLf] at this
    rw [this]
    have : L.length ≤ L.length * c.cb := Nat.le_mul_of_pos_right _ hk
    omega
  unfold comps
  rw [← hLf, chunks_of_flatten c.cb hk L _ hLl (by rw [hLf]; exact hlen)]
  show (ys.flatMap (fun y => chunks c.cb (y.length + 1) y)).map ofLE = _
  rw [List.map_flatMap]

/-! ### chains on data inside the bit range -/

theorem aEnc_mem (stages : List AStage) : ∀ (sh : Shape) (xs : List Elem), aOk stages sh → xs.length = prod sh →
    ∀ y ∈ aEnc stages sh xs, y ∈ xs := by
  induction stages with
  | nil => intro sh xs _ _ y hy; exact hy
  | cons st rest ih =>
    intro sh xs ha hx y hy
    exact aStage_mem st sh xs ha.1 hx y
      (ih (st.encShape sh) (st.enc sh xs) ha.2 (aStage_length st sh xs ha.1 hx) y hy)

theorem chainP_ok_inrange (c : ChainP) (sh : Shape) (fill : Elem) (xs : List Elem)
    (hw : 0 < c.cfg.w) (hfl : c.cfg.first ≤ c.cfg.last) (hl : c.cfg.last < c.cfg.w) (hnc : 0 < c.nc)
    (hxl : xs.length = prod sh) (hxe : ∀ x ∈ xs, x.length = c.nc * c.cfg.cb)
    (hwf : ∀ x ∈ xs, ∀ b ∈ x, b < 256)
    (hr : ∀ x ∈ xs, ∀ v ∈ comps c.cfg x, inRange c.cfg v = true)
    (ha : aOk c.a2a sh)
    (hb : ∀ st ∈ c.b2b, ∀ (b : Bytes) (g : BHandle), BHandleOk g (st.enc b) → BHandleOk (st.pd g) b) :
    AHandleOk (c.partialDecoder sh fill (storeHandle (some (c.encode sh xs)))) sh xs := by
  apply chainP_ok c sh fill xs xs hw hfl hl hnc hxl hxe ha _ hb
  have hmem := aEnc_mem c.a2a sh xs ha hxl
  obtain ⟨hel, hee⟩ := aEnc_chunk (c.nc * c.cfg.cb) c.a2a sh xs ha hxl hxe
  have hcb := cb_pos c.cfg hw
  have hflen : (aEnc c.a2a sh xs).flatten.length = prod (shapesOf c.a2a sh) * c.nc * c.cfg.cb := by
    rw [flatten_length_of_all _ _ hee, hel, Nat.mul_assoc]
  have hmodE : ∀ y ∈ aEnc c.a2a sh xs, y.length % c.cfg.cb = 0 := by
    intro y hy; rw [hee y hy]; exact Nat.mul_mod_left _ _
  have hdiv : (aEnc c.a2a sh xs).flatten.length / c.cfg.cb = prod (shapesOf c.a2a sh) * c.nc := by
    rw [hflen]; exact Nat.mul_div_cancel _ hcb
  rw [← hdiv]
  apply decode_encode c.cfg hw hfl hl
  · intro b hb'
    obtain ⟨y, hy, hby⟩ := List.mem_flatten.mp hb'
    exact hwf y (hmem y hy) b hby
  · rw [hflen]; exact Nat.mul_mod_left _ _
  · intro v hv
    rw [comps_flatten c.cfg hw _ hmodE] at hv
    obtain ⟨y, hy, hvy⟩ := List.mem_flatMap.mp hv
    exact hr y (hmem y hy) v hvy

end Zarrs.PackBitsPD
