import ZarrsModel.Model.Conform
import ZarrsModel.Lemmas.CodecShard
/- helper lemmas for C12: legal shard layouts decode; the specification-level writer's placement is legal -/
namespace Zarrs.Conform
open Zarrs Zarrs.Codec

/-! ### a legal shard decodes -/

theorem mapM_ok_of_pointwise {α β ε : Type} (f : α → Except ε β) : ∀ (xs : List α) (ys : List β),
    xs.length = ys.length → (∀ i (h1 : i < xs.length) (h2 : i < ys.length), f xs[i] = .ok ys[i]) →
    xs.mapM f = .ok ys := by
  intro xs
  induction xs with
  | nil =>
    intro ys hl _
    cases ys with
    | nil => rfl
    | cons y ys => simp at hl
  | cons x xs ih =>
    intro ys hl h
    cases ys with
    | nil => simp at hl
    | cons y ys =>
      have h0 := h 0 (by simp) (by simp)
      simp only [List.getElem_cons_zero] at h0
      have ht := ih ys (by simpa using hl) (fun i h1 h2 => by
        have := h (i + 1) (by simp; omega) (by simp; omega)
        simpa using this)
      rw [List.mapM_cons, h0, ht]; rfl

/-- a legal shard decodes to its chunks -/
theorem legal_shard_decodes' (c : Shard.Cfg) (v : Bytes) (chunks : List (Option Bytes))
    (h : Shard.Legal c v chunks) : Shard.decode c true v = .ok chunks := by
  obtain ⟨hn, ib, entries, hib, hdec, hlen, hpt, _⟩ := h
  rw [Shard.decode_def, hib]
  simp only
  rw [hdec]
  simp only
  apply mapM_ok_of_pointwise
  · rw [hlen, hn]
  · intro i h1 h2
    have := hpt i h1 h2
    split at this
    · rename_i heq
      rw [heq]
      simp only [Shard.isLive, Bool.not_eq_false'] at this
      simp only [Shard.decEntry, this, if_true]
    · rename_i b heq
      obtain ⟨hl, _, hle, hsl, _⟩ := this
      rw [heq]
      simp only [Shard.isLive, Bool.not_eq_true'] at hl
      have hle' : ¬ (entries[i].1 + entries[i].2 > v.length) := by omega
      simp only [Shard.decEntry, hl, Bool.false_eq_true, if_false, hle', hsl]

/-! ### the writer's placement -/

/-- one placement step of `placeInner` -/
def placeStep (pad base : Nat) (chunks : List (Option Bytes)) (acc : Bytes × List (Nat × Nat × Nat)) (i : Nat) :
    Bytes × List (Nat × Nat × Nat) :=
  match chunks.getD i none with
  | none => acc
  | some b => (acc.1 ++ List.replicate pad 0xAA ++ b, acc.2 ++ [(i, base + acc.1.length + pad, b.length)])

/-- the data and placements produced from a data prefix of length `len`, as a forward recursion -/
def placeFrom (pad base : Nat) (chunks : List (Option Bytes)) : Nat → List Nat → Bytes × List (Nat × Nat × Nat)
  | _, [] => ([], [])
  | len, i :: is =>
    match chunks.getD i none with
    | none => placeFrom pad base chunks len is
    | some b =>
      (List.replicate pad 0xAA ++ b ++ (placeFrom pad base chunks (len + pad + b.length) is).1,
        (i, base + len + pad, b.length) :: (placeFrom pad base chunks (len + pad + b.length) is).2)

theorem placeFrom_cons_none {pad base : Nat} {chunks : List (Option Bytes)} {len i : Nat} {is : List Nat}
    (h : chunks.getD i none = none) :
    placeFrom pad base chunks len (i :: is) = placeFrom pad base chunks len is := by
  rw [placeFrom]; simp only [h]

theorem placeFrom_cons_some {pad base : Nat} {chunks : List (Option Bytes)} {len i : Nat} {is : List Nat} {b : Bytes}
    (h : chunks.getD i none = some b) :
    placeFrom pad base chunks len (i :: is) =
      (List.replicate pad 0xAA ++ b ++ (placeFrom pad base chunks (len + pad + b.length) is).1,
        (i, base + len + pad, b.length) :: (placeFrom pad base chunks (len + pad + b.length) is).2) := by
  rw [placeFrom]; simp only [h]

theorem place_foldl (pad base : Nat) (chunks : List (Option Bytes)) (idxs : List Nat) :
    ∀ (d : Bytes) (pl : List (Nat × Nat × Nat)),
    idxs.foldl (placeStep pad base chunks) (d, pl) =
      (d ++ (placeFrom pad base chunks d.length idxs).1, pl ++ (placeFrom pad base chunks d.length idxs).2) := by
  induction idxs with
  | nil => intro d pl; simp [placeFrom]
  | cons i is ih =>
    intro d pl
    rw [List.foldl_cons]
    cases h : chunks.getD i none with
    | none =>
      rw [placeFrom_cons_none h]
      simp only [placeStep, h]
      exact ih d pl
    | some b =>
      rw [placeFrom_cons_some h]
      simp only [placeStep, h]
      rw [ih]
      simp only [List.length_append, List.length_replicate, List.append_assoc, List.cons_append, List.nil_append,
        Nat.add_assoc]

/-- every placement names a stored chunk, and the data holds that chunk's bytes at the placement's offset -/
theorem placeFrom_mem (pad base : Nat) (chunks : List (Option Bytes)) (idxs : List Nat) :
    ∀ (len : Nat), ∀ p ∈ (placeFrom pad base chunks len idxs).2, ∃ b pre post,
      chunks.getD p.1 none = some b ∧ p.2.2 = b.length ∧
      (placeFrom pad base chunks len idxs).1 = pre ++ b ++ post ∧ p.2.1 = base + len + pre.length ∧ p.1 ∈ idxs := by
  induction idxs with
  | nil => intro len p hp; simp [placeFrom] at hp
  | cons i is ih =>
    intro len p hp
    cases h : chunks.getD i none with
    | none =>
      rw [placeFrom_cons_none h] at hp ⊢
      obtain ⟨b, pre, post, h1, h2, h3, h4, h5⟩ := ih len p hp
      exact ⟨b, pre, post, h1, h2, h3, h4, List.mem_cons_of_mem _ h5⟩
    | some b =>
      rw [placeFrom_cons_some h] at hp ⊢
      simp only [List.mem_cons] at hp
      rcases hp with rfl | hp
      · exact ⟨b, List.replicate pad 0xAA, _, h, rfl, rfl, by simp, by simp⟩
      · obtain ⟨b', pre, post, h1, h2, h3, h4, h5⟩ := ih _ p hp
        refine ⟨b', List.replicate pad 0xAA ++ b ++ pre, post, h1, h2, ?_, ?_, List.mem_cons_of_mem _ h5⟩
        · simp only [h3, List.append_assoc]
        · simp only [h4, List.length_append, List.length_replicate]; omega

theorem placeFrom_ge (pad base : Nat) (chunks : List (Option Bytes)) (idxs : List Nat) (len : Nat) :
    ∀ p ∈ (placeFrom pad base chunks len idxs).2, base + len ≤ p.2.1 := by
  intro p hp
  obtain ⟨b, pre, post, _, _, _, h4, _⟩ := placeFrom_mem pad base chunks idxs len p hp
  omega

theorem placeFrom_le (pad base : Nat) (chunks : List (Option Bytes)) (idxs : List Nat) (len : Nat) :
    ∀ p ∈ (placeFrom pad base chunks len idxs).2,
      p.2.1 + p.2.2 ≤ base + len + (placeFrom pad base chunks len idxs).1.length := by
  intro p hp
  obtain ⟨b, pre, post, _, h2, h3, h4, _⟩ := placeFrom_mem pad base chunks idxs len p hp
  rw [h3]; simp only [List.length_append]; omega

/-- placements of different chunks do not overlap -/
theorem placeFrom_disj (pad base : Nat) (chunks : List (Option Bytes)) (idxs : List Nat) :
    ∀ (len : Nat), ∀ p ∈ (placeFrom pad base chunks len idxs).2, ∀ q ∈ (placeFrom pad base chunks len idxs).2,
      p.1 ≠ q.1 → p.2.1 + p.2.2 ≤ q.2.1 ∨ q.2.1 + q.2.2 ≤ p.2.1 := by
  induction idxs with
  | nil => intro len p hp; simp [placeFrom] at hp
  | cons i is ih =>
    intro len p hp q hq hne
    cases h : chunks.getD i none with
    | none =>
      rw [placeFrom_cons_none h] at hp hq
      exact ih len p hp q hq hne
    | some b =>
      rw [placeFrom_cons_some h] at hp hq
      simp only [List.mem_cons] at hp hq
      rcases hp with rfl | hp <;> rcases hq with rfl | hq
      · exact absurd rfl hne
      · have := placeFrom_ge pad base chunks is _ q hq
        left; simp only; omega
      · have := placeFrom_ge pad base chunks is _ p hp
        right; simp only; omega
      · exact ih _ p hp q hq hne

/-- every stored chunk among the indices is placed -/
theorem placeFrom_cover (pad base : Nat) (chunks : List (Option Bytes)) (idxs : List Nat) :
    ∀ (len : Nat), ∀ i ∈ idxs, ∀ b, chunks.getD i none = some b →
      ∃ p ∈ (placeFrom pad base chunks len idxs).2, p.1 = i := by
  induction idxs with
  | nil => intro len i hi; simp at hi
  | cons j is ih =>
    intro len i hi b hb
    cases h : chunks.getD j none with
    | none =>
      rw [placeFrom_cons_none h]
      simp only [List.mem_cons] at hi
      rcases hi with rfl | hi
      · rw [hb] at h; cases h
      · exact ih len i hi b hb
    | some b' =>
      rw [placeFrom_cons_some h]
      simp only [List.mem_cons] at hi
      rcases hi with rfl | hi
      · exact ⟨_, List.mem_cons_self, rfl⟩
      · obtain ⟨p, hp, hpi⟩ := ih _ i hi b hb
        exact ⟨p, List.mem_cons_of_mem _ hp, hpi⟩

theorem placeFrom_length (pad base : Nat) (chunks : List (Option Bytes)) (idxs : List Nat) :
    ∀ (len : Nat), (placeFrom pad base chunks len idxs).1.length =
      ((idxs.filterMap (fun i => chunks.getD i none)).map (fun b => b.length + pad)).sum := by
  induction idxs with
  | nil => intro len; simp [placeFrom]
  | cons i is ih =>
    intro len
    cases h : chunks.getD i none with
    | none => rw [placeFrom_cons_none h]; simp only [List.filterMap_cons, h]; exact ih len
    | some b =>
      rw [placeFrom_cons_some h]
      simp only [List.filterMap_cons, h, List.length_append, List.length_replicate, List.map_cons, List.sum_cons, ih]
      omega

/-- the index entry of chunk `i` -/
def entryOf (placed : List (Nat × Nat × Nat)) (i : Nat) : Nat × Nat :=
  match placed.find? (·.1 == i) with
  | some p => (p.2.1, p.2.2)
  | none => (Shard.sentinel, Shard.sentinel)

def placeIdxs (l : Layout) (n : Nat) : List Nat := if l.reverseInner then (List.range n).reverse else List.range n

theorem placeInner_eq (l : Layout) (base : Nat) (chunks : List (Option Bytes)) :
    placeInner l base chunks = ((placeFrom l.pad base chunks 0 (placeIdxs l chunks.length)).1,
      (List.range chunks.length).map (entryOf (placeFrom l.pad base chunks 0 (placeIdxs l chunks.length)).2)) := by
  have := place_foldl l.pad base chunks (placeIdxs l chunks.length) [] []
  simp only [List.nil_append, List.length_nil] at this
  have h2 : placeInner l base chunks =
      (((placeIdxs l chunks.length).foldl (placeStep l.pad base chunks) ([], [])).1,
        (List.range chunks.length).map
          (entryOf ((placeIdxs l chunks.length).foldl (placeStep l.pad base chunks) ([], [])).2)) := rfl
  rw [h2, this]

theorem range_map_getD (chunks : List (Option Bytes)) :
    (List.range chunks.length).map (fun i => chunks.getD i none) = chunks := by
  apply List.ext_getElem
  · simp
  · intro i h1 h2
    simp only [List.length_map, List.length_range] at h1
    simp [List.getD_eq_getElem?_getD, List.getElem?_eq_getElem h1]

theorem range_filterMap_getD (chunks : List (Option Bytes)) :
    (List.range chunks.length).filterMap (fun i => chunks.getD i none) = chunks.filterMap id := by
  conv => rhs; rw [← range_map_getD chunks, List.filterMap_map]
  rfl

theorem placeInner_entries_length (l : Layout) (base : Nat) (chunks : List (Option Bytes)) :
    (placeInner l base chunks).2.length = chunks.length := by
  rw [placeInner_eq]; simp

/-- length of the placed data: used by the caller to discharge `hsmall` from a bound on the whole body -/
theorem placeInner_data_length (l : Layout) (base : Nat) (chunks : List (Option Bytes)) :
    (placeInner l base chunks).1.length = ((chunks.filterMap id).map (fun b => b.length + l.pad)).sum := by
  rw [placeInner_eq]
  simp only [placeFrom_length]
  unfold placeIdxs
  cases l.reverseInner
  · simp only [Bool.false_eq_true, if_false, range_filterMap_getD]
  · simp only [if_true, List.filterMap_reverse, List.map_reverse, List.sum_reverse, range_filterMap_getD]

theorem entryOf_cases (placed : List (Nat × Nat × Nat)) (i : Nat) :
    (entryOf placed i = (Shard.sentinel, Shard.sentinel) ∧ ∀ p ∈ placed, p.1 ≠ i) ∨
      ∃ p ∈ placed, p.1 = i ∧ entryOf placed i = (p.2.1, p.2.2) := by
  unfold entryOf
  cases h : placed.find? (·.1 == i) with
  | none =>
    left
    refine ⟨rfl, ?_⟩
    intro p hp
    have := List.find?_eq_none.mp h p hp
    simpa using this
  | some p =>
    right
    exact ⟨p, List.mem_of_find?_eq_some h, by simpa using List.find?_some h, rfl⟩

/-- how the shard value splits into index and data -/
theorem place_split (c : Shard.Cfg) (data idx : Bytes) (hlen : idx.length = Shard.indexSize c) :
    ∃ pre post, (if c.indexAtEnd then data ++ idx else idx ++ data) = pre ++ data ++ post ∧
      pre.length = Shard.base c ∧ pre.length + post.length = Shard.indexSize c ∧
      Shard.indexBytes c (if c.indexAtEnd then data ++ idx else idx ++ data) = some idx ∧
      (∀ off len, pre.length ≤ off → off + len ≤ pre.length + data.length →
        off + len ≤ (Shard.indexRegion c (if c.indexAtEnd then data ++ idx else idx ++ data).length).1 ∨
          (Shard.indexRegion c (if c.indexAtEnd then data ++ idx else idx ++ data).length).2 ≤ off) := by
  unfold Shard.indexBytes Shard.indexRegion Shard.base
  cases c.indexAtEnd
  · refine ⟨idx, [], by simp, by simp [hlen], by simp [hlen], ?_, ?_⟩
    · have : ¬ ((idx ++ data).length < Shard.indexSize c) := by simp [hlen]
      simp only [this, if_false, Bool.false_eq_true]
      rw [Shard.take_app _ _ _ hlen]
    · intro off len h1 _
      right; simp only [Bool.false_eq_true, if_false]; omega
  · refine ⟨[], idx, by simp, by simp, by simp [hlen], ?_, ?_⟩
    · have : ¬ ((data ++ idx).length < Shard.indexSize c) := by simp [hlen]
      simp only [this, if_false, if_true]
      rw [Shard.drop_app _ _ _ (by simp [hlen])]
    · intro off len _ h2
      left; simp only [if_true, List.length_append, hlen, Nat.add_sub_cancel]
      simpa using h2

/-- any placement that names each stored chunk once, at disjoint offsets inside the data, gives a legal shard -/
theorem legal_of_placed (c : Shard.Cfg) (chunks : List (Option Bytes)) (hn : chunks.length = c.nChunks)
    (data : Bytes) (placed : List (Nat × Nat × Nat))
    (hmem : ∀ p ∈ placed, ∃ b pre post, chunks.getD p.1 none = some b ∧ p.2.2 = b.length ∧
      data = pre ++ b ++ post ∧ p.2.1 = Shard.base c + pre.length)
    (hdisj : ∀ p ∈ placed, ∀ q ∈ placed, p.1 ≠ q.1 → p.2.1 + p.2.2 ≤ q.2.1 ∨ q.2.1 + q.2.2 ≤ p.2.1)
    (hcov : ∀ i, i < chunks.length → ∀ b, chunks.getD i none = some b → ∃ p ∈ placed, p.1 = i)
    (hsmall : data.length + Shard.indexSize c < Shard.sentinel) :
    Shard.Legal c (if c.indexAtEnd then data ++ Shard.encodeIndex c ((List.range chunks.length).map (entryOf placed))
      else Shard.encodeIndex c ((List.range chunks.length).map (entryOf placed)) ++ data) chunks := by
  have hel : ((List.range chunks.length).map (entryOf placed)).length = c.nChunks := by simp [hn]
  have hbase : Shard.base c ≤ Shard.indexSize c := by unfold Shard.base; split <;> omega
  have hend : ∀ p ∈ placed, p.2.1 + p.2.2 ≤ Shard.base c + data.length := by
    intro p hp
    obtain ⟨b, pre, post, _, h2, h3, h4⟩ := hmem p hp
    rw [h3]; simp only [List.length_append]; omega
  have hsl := Shard.sentinel_lt
  have hlt : ∀ e ∈ (List.range chunks.length).map (entryOf placed), e.1 < 2 ^ 64 ∧ e.2 < 2 ^ 64 := by
    intro e he
    obtain ⟨i, _, rfl⟩ := List.mem_map.mp he
    rcases entryOf_cases placed i with ⟨h, _⟩ | ⟨p, hp, _, h⟩
    · rw [h]; exact ⟨hsl, hsl⟩
    · rw [h]
      have := hend p hp
      constructor <;> simp only <;> omega
  have hdec := Shard.decodeIndex_encodeIndex c true _ hel hlt
  have hlen := Shard.encodeIndex_length c _ hel
  obtain ⟨pre0, post0, hv, hb, hpp, hib, hreg⟩ := place_split c data _ hlen
  refine ⟨hn, _, _, hib, hdec, hel, ?_, ?_⟩
  · intro i h hc
    rw [List.getElem_map, List.getElem_range]
    split
    · rename_i heq
      have hg : chunks.getD i none = none := by
        simp [List.getD_eq_getElem?_getD, List.getElem?_eq_getElem hc, heq]
      rcases entryOf_cases placed i with ⟨h, _⟩ | ⟨p, hp, hpi, _⟩
      · rw [h]; simp [Shard.isLive]
      · obtain ⟨b, _, _, h1, _⟩ := hmem p hp
        rw [hpi, hg] at h1; cases h1
    · rename_i b heq
      have hg : chunks.getD i none = some b := by
        simp [List.getD_eq_getElem?_getD, List.getElem?_eq_getElem hc, heq]
      rcases entryOf_cases placed i with ⟨_, hno⟩ | ⟨p, hp, hpi, he⟩
      · obtain ⟨p, hp, hpi⟩ := hcov i hc b hg
        exact absurd hpi (hno p hp)
      · obtain ⟨b', pre, post, h1, h2, h3, h4⟩ := hmem p hp
        rw [hpi, hg, Option.some.injEq] at h1
        subst h1
        have hpe := hend p hp
        rw [he]
        have hvl : (if c.indexAtEnd then data ++ Shard.encodeIndex c ((List.range chunks.length).map (entryOf placed))
            else Shard.encodeIndex c ((List.range chunks.length).map (entryOf placed)) ++ data).length =
            pre0.length + data.length + post0.length := by
          rw [hv]; simp [Nat.add_assoc]
        refine ⟨Shard.isLive_of_lt _ (by simp only; omega), h2, by simp only; omega, ?_,
          hreg p.2.1 p.2.2 (by omega) (by omega)⟩
        rw [hv, h3, h2, h4, ← hb]
        have : pre0 ++ (pre ++ b ++ post) ++ post0 = (pre0 ++ pre) ++ b ++ (post ++ post0) := by
          simp only [List.append_assoc]
        rw [this, ← List.length_append]
        exact Shard.slice_mid _ _ _
  · intro i j hi hj hij hli hlj
    simp only [List.getElem_map, List.getElem_range] at hli hlj ⊢
    rcases entryOf_cases placed i with ⟨h, _⟩ | ⟨p, hp, hpi, hep⟩
    · rw [h] at hli; simp [Shard.isLive] at hli
    rcases entryOf_cases placed j with ⟨h, _⟩ | ⟨q, hq, hqj, heq⟩
    · rw [h] at hlj; simp [Shard.isLive] at hlj
    rw [hep, heq]
    exact hdisj p hp q hq (by rw [hpi, hqj]; exact hij)

/-- the writer's placement is legal for every order/padding choice -/
theorem placeInner_legal' (l : Layout) (c : Shard.Cfg) (chunks : List (Option Bytes)) (hn : chunks.length = c.nChunks)
    (hsmall : ((chunks.filterMap id).map (fun b => b.length + l.pad)).sum + Shard.indexSize c < Shard.sentinel) :
    let base := if c.indexAtEnd then 0 else Shard.indexSize c
    let (data, entries) := placeInner l base chunks
    Shard.Legal c (if c.indexAtEnd then data ++ Shard.encodeIndex c entries else Shard.encodeIndex c entries ++ data) chunks := by
  intro base
  have hdl := placeInner_data_length l base chunks
  rw [placeInner_eq] at hdl ⊢
  simp only at hdl ⊢
  have hidx : ∀ i, i < chunks.length → i ∈ placeIdxs l chunks.length := by
    intro i hi
    unfold placeIdxs
    split <;> simp [hi]
  apply legal_of_placed c chunks hn
  · intro p hp
    obtain ⟨b, pre, post, h1, h2, h3, h4, _⟩ := placeFrom_mem l.pad base chunks _ 0 p hp
    exact ⟨b, pre, post, h1, h2, h3, by rw [h4]; rfl⟩
  · exact placeFrom_disj l.pad base chunks _ 0
  · intro i hi b hb
    exact placeFrom_cover l.pad base chunks _ 0 i (hidx i hi) b hb
  · rw [hdl]; exact hsmall

end Zarrs.Conform
