import ZarrsModel.Model.MetaV2
import ZarrsModel.Lemmas.Meta
/- helper lemmas for `Props/C13V2Conv.lean`: unfolding `MetaV2.v2ToV3` -/
set_option Elab.async false
namespace Zarrs.MetaV2
open Zarrs.Json Zarrs.Meta

/-- inversion of a successful `v2ToV3` -/
theorem v2ToV3_inv (d : ArrayDocV2) (v3 : ArrayDoc) (h : v2ToV3 d = .ok v3) :
    ∃ s endian fill cs, d.dtype = .simple s ∧ endianOf s = some endian ∧
      fillConv (dtypeNameV3 s) d.fill = some fill ∧ (d.order == .F && d.shape.isEmpty) = false ∧
      codecsV2ToV3 d.order d.shape.length (dtypeNameV3 s) endian d.filters d.compressor = .ok cs ∧
      v3 = { shape := d.shape, dataType := ⟨dtypeNameV3 s, none, true⟩, chunkGrid := regularMeta d.chunks,
             cke := v2KeyMeta d.sep, fill := fill, codecs := cs, attrs := d.attrs, st := [], dimNames := none,
             extra := d.extra } := by
  unfold v2ToV3 at h
  split at h
  · cases h
  · rename_i s hs
    split at h
    · cases h
    · rename_i endian he
      simp only at h
      split at h
      · cases h
      · rename_i fill hf
        split at h
        · cases h
        · rename_i hof
          split at h
          · cases h
          · rename_i cs hc
            refine ⟨s, endian, fill, cs, hs, he, hf, ?_, hc, ?_⟩
            · simpa using hof
            · cases h; rfl

/-- the converse: the five facts give the document -/
theorem v2ToV3_intro (d : ArrayDocV2) (s : Str) (endian : Option Endian) (fill : J) (cs : List MetaV3)
    (hs : d.dtype = .simple s) (he : endianOf s = some endian) (hf : fillConv (dtypeNameV3 s) d.fill = some fill)
    (ho : (d.order == .F && d.shape.isEmpty) = false)
    (hc : codecsV2ToV3 d.order d.shape.length (dtypeNameV3 s) endian d.filters d.compressor = .ok cs) :
    v2ToV3 d = .ok
      { shape := d.shape, dataType := ⟨dtypeNameV3 s, none, true⟩, chunkGrid := regularMeta d.chunks,
        cke := v2KeyMeta d.sep, fill := fill, codecs := cs, attrs := d.attrs, st := [], dimNames := none,
        extra := d.extra } := by
  unfold v2ToV3
  simp only [hs, he, hf, ho, hc]
  simp

/-- inversion of a successful `codecsV2ToV3` -/
theorem codecsV2ToV3_inv (order : Order) (rank : Nat) (dtName : Str) (endian : Option Endian)
    (filters : Option (List MetaV2)) (compressor : Option MetaV2) (cs : List MetaV3)
    (h : codecsV2ToV3 order rank dtName endian filters compressor = .ok cs) :
    ∃ b2b : List MetaV3, cs = codecsHead order rank endian filters compressor ++ b2b ∧
      (match (generalizing := false) compressor with
       | none => b2b = []
       | some c => ∃ o, compressorB2B dtName c = .ok o ∧ b2b = o.toList) := by
  cases compressor with
  | none =>
    simp only [codecsV2ToV3] at h
    cases h; exact ⟨[], by simp, rfl⟩
  | some c =>
    simp only [codecsV2ToV3] at h
    split at h
    · cases h
    · rename_i b hb
      cases h
      exact ⟨b.toList, rfl, b, hb, rfl⟩

/-- the order only decides the transpose in front -/
theorem codecsHead_F (rank : Nat) (endian : Option Endian) (filters : Option (List MetaV2)) (compressor : Option MetaV2) :
    codecsHead .F rank endian filters compressor = transposeMeta rank :: codecsHead .C rank endian filters compressor := by
  simp [codecsHead]

theorem codecsV2ToV3_F (rank : Nat) (dtName : Str) (endian : Option Endian)
    (filters : Option (List MetaV2)) (compressor : Option MetaV2) (cs : List MetaV3)
    (h : codecsV2ToV3 .F rank dtName endian filters compressor = .ok cs) :
    ∃ cs', codecsV2ToV3 .C rank dtName endian filters compressor = .ok cs' ∧ cs = transposeMeta rank :: cs' := by
  cases compressor with
  | none =>
    simp only [codecsV2ToV3] at h ⊢
    cases h; exact ⟨_, rfl, by rw [codecsHead_F]⟩
  | some c =>
    simp only [codecsV2ToV3] at h ⊢
    split at h
    · cases h
    · rename_i b hb
      cases h
      exact ⟨_, rfl, by rw [codecsHead_F]; rfl⟩

theorem range_reverse_getElem? (n i : Nat) (h : i < n) : (List.range n).reverse[i]? = some (n - 1 - i) := by
  rw [List.getElem?_reverse (by simpa using h)]
  simp only [List.length_range]
  rw [List.getElem?_range (by omega)]

/-- `codecsHead` written over the document's lists -/
theorem codecsHead_eq (order : Order) (rank : Nat) (endian : Option Endian) (filters : Option (List MetaV2))
    (compressor : Option MetaV2) :
    codecsHead order rank endian filters compressor =
      (if order = .F then [transposeMeta rank] else []) ++ (filters.getD []).map (fun f => (filterToV3 f).1) ++
        (compressor.bind compressorA2B).toList ++
        (if ((filters.getD []).any (fun f => (filterToV3 f).2) || (compressor.bind compressorA2B).isSome) then []
         else [bytesMeta (endian.getD .little)]) := by
  cases order <;> simp [codecsHead, List.map_map, List.any_map, Function.comp_def]

/-- the endianness written by the `bytes` codec, from the prefix -/
theorem endianOf_getD (s : Str) (e : Option Endian) (h : endianOf s = some e) :
    e.getD .little = (match (generalizing := false) s with | 62 :: _ => Endian.big | _ => Endian.little) := by
  unfold endianOf at h
  split at h
  · cases h; rfl
  · cases h; rfl
  · cases h; rfl
  · cases h

/-- codec chain of a converted document -/
theorem v2ToV3_codecs (d : ArrayDocV2) (v3 : ArrayDoc) (h : v2ToV3 d = .ok v3) :
    ∃ s endian b2b, d.dtype = .simple s ∧ endianOf s = some endian ∧
      v3.codecs = codecsHead d.order d.shape.length endian d.filters d.compressor ++ b2b ∧
      (match d.compressor with
       | none => b2b = []
       | some c => ∃ o, compressorB2B (dtypeNameV3 s) c = .ok o ∧ b2b = o.toList) := by
  obtain ⟨s, endian, fill, cs, hs, he, _, _, hc, rfl⟩ := v2ToV3_inv d v3 h
  obtain ⟨b2b, h1, h2⟩ := codecsV2ToV3_inv _ _ _ _ _ _ _ hc
  exact ⟨s, endian, b2b, hs, he, h1, h2⟩

theorem b2b_length_le (dt : Str) (compressor : Option MetaV2) (b2b : List MetaV3)
    (h : match compressor with
       | none => b2b = []
       | some c => ∃ o, compressorB2B dt c = .ok o ∧ b2b = o.toList) : b2b.length ≤ 1 := by
  cases compressor with
  | none => simp only at h; subst h; simp
  | some c =>
    simp only at h
    obtain ⟨o, _, rfl⟩ := h
    cases o <;> simp

theorem regularRank_regularMeta (chunks : List (List Char)) : regularRank (regularMeta chunks) = some chunks.length := by
  simp [regularRank, regularMeta, lookup_cons_eq]

end Zarrs.MetaV2
