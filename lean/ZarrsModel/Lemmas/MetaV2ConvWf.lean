import ZarrsModel.Model.MetaV2
import ZarrsModel.Lemmas.MetaV2Conv
import ZarrsModel.Lemmas.MetaV2Wf
import ZarrsModel.Lemmas.MetaWf
/- helper lemmas for C13 (V2): the V3 document produced by `v2ToV3` from a well-formed V2 document is a well-formed
   V3 document (`Meta.ArrayDoc.good`), so the V3 round-trip theorems apply to it -/
set_option Elab.async false
namespace Zarrs.MetaV2
open Zarrs.Json Zarrs.Meta

/-! ### names -/

theorem tblGet_mem (t : List (Str × Str)) (k x : Str) (h : tblGet t k = some x) : ∃ p ∈ t, p.2 = x := by
  unfold tblGet at h
  cases hf : t.find? (·.1 == k) with
  | none => rw [hf] at h; cases h
  | some p =>
    rw [hf] at h
    simp only [Option.map_some, Option.some.injEq] at h
    exact ⟨p, List.mem_of_find?_eq_some hf, h⟩

theorem dtypeAliasesV2_ascii : ∀ p ∈ dtypeAliasesV2, ∀ b ∈ p.2, b < 128 := by decide
theorem codecAliasesV2_ascii : ∀ p ∈ codecAliasesV2, ∀ b ∈ p.2, b < 128 := by decide
theorem codecNamesV3_ascii : ∀ p ∈ codecNamesV3, ∀ b ∈ p.2, b < 128 := by decide
theorem bloscCnames_ascii : ∀ s ∈ bloscCnames, ∀ b ∈ s, b < 128 := by decide

theorem strOk_nil : strOk [] := strOk_ascii _ (by simp)

theorem strOk_dtypeNameV3 (s : Str) (h : strOk s) : strOk (dtypeNameV3 s) := by
  unfold dtypeNameV3
  split
  · rename_i x hx
    obtain ⟨p, hp, rfl⟩ := tblGet_mem _ _ _ hx
    exact strOk_ascii _ (dtypeAliasesV2_ascii p hp)
  · split
    · exact strOk_ascii _ (by decide)
    · exact h

theorem strOk_getD_tbl (t : List (Str × Str)) (ht : ∀ p ∈ t, ∀ b ∈ p.2, b < 128) (k : Str) (h : strOk k) :
    strOk ((tblGet t k).getD k) := by
  cases hg : tblGet t k with
  | none => exact h
  | some x =>
    obtain ⟨p, hp, rfl⟩ := tblGet_mem _ _ _ hg
    exact strOk_ascii _ (ht p hp)

theorem strOk_codecName (id : Str) (h : strOk id) : strOk (codecName (codecIdent id)) :=
  strOk_getD_tbl _ codecNamesV3_ascii _ (strOk_getD_tbl _ codecAliasesV2_ascii _ h)

/-! ### fixed metadata -/

theorem natNum_wf (n : Nat) : (natNum n).wf := (num_wf_iff _).2 (NumTok.tokOk_natTok n)

theorem good_single (n k : Str) (v : J) (hn : strOk n) (hk : strOk k) (hv : v.wf) :
    MetaV3.good ⟨n, some [(k, v)], true⟩ := by
  refine ⟨hn, ?_⟩
  intro c hc
  cases hc
  refine ⟨?_, by simp [keysDistinct]⟩
  simp only [wfKVs]
  exact ⟨hk, hv, trivial⟩

theorem good_config (n : Str) (c : Obj) (hn : strOk n) (hc : wfKVs c ∧ keysDistinct c) :
    MetaV3.good ⟨n, some c, true⟩ := by
  refine ⟨hn, ?_⟩
  intro c' hc'
  cases hc'
  exact hc

theorem regularMeta_good (chunks : List (List Char)) (h : ∀ t ∈ chunks, tokOk t) : MetaV3.good (regularMeta chunks) :=
  good_single _ _ _ (strOk_ascii _ (by decide)) (strOk_ascii _ (by decide)) (numArr_wf _ h)

theorem v2KeyMeta_good (s : Sep) : MetaV3.good (v2KeyMeta s) :=
  good_single _ _ _ (strOk_ascii _ (by decide)) (strOk_ascii _ (by decide)) (sep_toJ_wf s)

theorem transposeMeta_good (n : Nat) : MetaV3.good (transposeMeta n) := by
  refine good_single _ _ _ (strOk_ascii _ (by decide)) (strOk_ascii _ (by decide)) ?_
  rw [arr_wf_iff]
  intro x hx
  obtain ⟨k, _, rfl⟩ := List.mem_map.1 hx
  exact natNum_wf k

theorem bytesMeta_good (e : Endian) : MetaV3.good (bytesMeta e) := by
  refine good_single _ _ _ (strOk_ascii _ (by decide)) (strOk_ascii _ (by decide)) ?_
  cases e <;> exact (str_wf_iff _).2 (strOk_ascii _ (by decide))

/-! ### fill value -/

theorem fillV2ToV3_eq (f : FillV2) (v : J) (h : fillV2ToV3 f = some v) : v = f.toJ := by
  cases f <;> simp only [fillV2ToV3, Option.some.injEq, reduceCtorEq] at h <;> subst h <;> rfl

theorem fillConv_wf (n : Str) (f : FillV2) (hf : f.toJ.wf) (v : J) (h : fillConv n f = some v) : v.wf := by
  unfold fillConv at h
  split at h
  · cases h
  · rename_i v0 hv0
    have hv0w : v0.wf := by
      split at hv0
      · rename_i v1 h1
        cases hv0
        rw [fillV2ToV3_eq _ _ h1]; exact hf
      · split at hv0
        · cases hv0; exact (str_wf_iff _).2 strOk_nil
        · cases hv0
    split at h
    · split at h
      · cases h; simp only [J.wf]
      · cases h; simp only [J.wf]
      · cases h
      · cases h; exact hv0w
    · split at h
      · split at h
        · cases h; exact (str_wf_iff _).2 strOk_nil
        · cases h; exact hv0w
      · cases h; exact hv0w

/-! ### codecs -/

theorem filterToV3_good (f : MetaV2) (h : f.wfp) : MetaV3.good (filterToV3 f).1 := by
  unfold filterToV3
  simp only
  split
  · exact good_config _ _ (strOk_codecName _ h.1) ⟨by simp only [wfKVs], by simp [keysDistinct]⟩
  · exact good_config _ _ (strOk_codecName _ h.1) h.2

theorem compressorA2B_good (c : MetaV2) (h : c.wfp) (m : MetaV3) (hm : compressorA2B c = some m) : MetaV3.good m := by
  unfold compressorA2B at hm
  simp only at hm
  split at hm
  · cases hm
    exact good_config _ _ (strOk_codecName _ h.1) h.2
  · cases hm

theorem bloscOfObj_cname (c : Obj) (b : BloscNum) (h : bloscOfObj c = some b) : b.cname ∈ bloscCnames := by
  unfold bloscOfObj at h
  split at h
  · cases h
  · split at h
    · split at h
      · split at h
        · rename_i hc
          cases h
          simp only [Bool.and_eq_true, List.contains_iff_mem] at hc
          exact hc.1.1
        · cases h
      · cases h
    · cases h

theorem ascii_shuffleNames : ∀ s ∈ [ascii "noshuffle", ascii "shuffle", ascii "bitshuffle"], ∀ b ∈ s, b < 128 := by decide

theorem bloscShuffle_mem (sh : Int) (size : Option (Option Nat)) :
    (bloscShuffle sh size).1 ∈ [ascii "noshuffle", ascii "shuffle", ascii "bitshuffle"] := by
  unfold bloscShuffle
  split
  · simp
  · split
    · simp
    · simp
    · split
      · simp
      · split
        · simp
        · split <;> simp

theorem bloscShuffle_ascii (sh : Int) (size : Option (Option Nat)) : ∀ b ∈ (bloscShuffle sh size).1, b < 128 :=
  ascii_shuffleNames _ (bloscShuffle_mem sh size)

theorem bloscV1Obj_ok (b : BloscNum) (sh : Str × Option Nat) (h1 : strOk b.cname) (h2 : strOk sh.1) :
    wfKVs (bloscV1Obj b sh) ∧ keysDistinct (bloscV1Obj b sh) := by
  obtain ⟨s, o⟩ := sh
  cases o with
  | none =>
    have e : (bloscV1Obj b (s, none)).map (·.1) = [ascii "cname", ascii "clevel", ascii "shuffle", ascii "blocksize"] := rfl
    refine ⟨?_, by unfold keysDistinct; rw [e]; decide⟩
    simp only [bloscV1Obj, List.cons_append, List.nil_append, wfKVs]
    exact ⟨strOk_ascii _ (by decide), (str_wf_iff _).2 h1, strOk_ascii _ (by decide), natNum_wf _,
      strOk_ascii _ (by decide), (str_wf_iff _).2 h2, strOk_ascii _ (by decide), natNum_wf _, trivial⟩
  | some n =>
    have e : (bloscV1Obj b (s, some n)).map (·.1) =
        [ascii "cname", ascii "clevel", ascii "shuffle", ascii "typesize", ascii "blocksize"] := rfl
    refine ⟨?_, by unfold keysDistinct; rw [e]; decide⟩
    simp only [bloscV1Obj, List.cons_append, List.nil_append, wfKVs]
    exact ⟨strOk_ascii _ (by decide), (str_wf_iff _).2 h1, strOk_ascii _ (by decide), natNum_wf _,
      strOk_ascii _ (by decide), (str_wf_iff _).2 h2, strOk_ascii _ (by decide), natNum_wf _,
      strOk_ascii _ (by decide), natNum_wf _, trivial⟩

theorem zstdObj_ok (lvl : Int) (chk : Bool) :
    wfKVs [(ascii "level", .num (FillMeta.intTok lvl)), (ascii "checksum", .bool chk)] ∧
    keysDistinct [(ascii "level", .num (FillMeta.intTok lvl)), (ascii "checksum", .bool chk)] := by
  refine ⟨?_, by unfold keysDistinct; simp only [List.map_cons, List.map_nil]; decide⟩
  simp only [wfKVs, J.wf, and_true]
  exact ⟨strOk_ascii _ (by decide), NumTok.tokOk_intTok lvl, strOk_ascii _ (by decide)⟩

theorem compressorB2B_good (dt : Str) (c : MetaV2) (h : c.wfp) (m : MetaV3)
    (hm : compressorB2B dt c = .ok (some m)) : MetaV3.good m := by
  have hn := strOk_codecName _ h.1
  unfold compressorB2B at hm
  simp only at hm
  split at hm
  · cases hm
  · split at hm
    · split at hm
      · cases hm
      · rename_i b hb
        have hcn : strOk b.cname := strOk_ascii _ (bloscCnames_ascii _ (bloscOfObj_cname _ _ hb))
        split at hm
        · cases hm
          exact good_config _ _ hn (bloscV1Obj_ok b _ hcn (strOk_ascii _ (bloscShuffle_ascii _ _)))
        · split at hm
          · cases hm
          · cases hm
            exact good_config _ _ hn (bloscV1Obj_ok b _ hcn (strOk_ascii _ (bloscShuffle_ascii _ _)))
    · split at hm
      · split at hm
        · cases hm
        · cases hm
          exact good_config _ _ hn (zstdObj_ok _ _)
      · cases hm
        exact good_config _ _ hn h.2

theorem codecsHead_good (order : Order) (rank : Nat) (endian : Option Endian) (filters : Option (List MetaV2))
    (compressor : Option MetaV2) (hf : ∀ fs, filters = some fs → ∀ f ∈ fs, MetaV2.wfp f)
    (hcomp : ∀ m, compressor = some m → m.wfp) :
    ∀ c ∈ codecsHead order rank endian filters compressor, MetaV3.good c := by
  intro c hc
  rw [codecsHead_eq] at hc
  simp only [List.mem_append] at hc
  rcases hc with ((hc | hc) | hc) | hc
  · split at hc
    · simp only [List.mem_cons, List.not_mem_nil, or_false] at hc
      subst hc; exact transposeMeta_good _
    · cases hc
  · obtain ⟨f, hfm, rfl⟩ := List.mem_map.1 hc
    cases filters with
    | none => simp at hfm
    | some fs => exact filterToV3_good f (hf fs rfl f (by simpa using hfm))
  · cases compressor with
    | none => simp at hc
    | some m =>
      simp only [Option.bind_some, Option.mem_toList] at hc
      exact compressorA2B_good m (hcomp m rfl) c hc
  · split at hc
    · cases hc
    · simp only [List.mem_cons, List.not_mem_nil, or_false] at hc
      subst hc; exact bytesMeta_good _

theorem codecsV2ToV3_good (order : Order) (rank : Nat) (dtName : Str) (endian : Option Endian)
    (filters : Option (List MetaV2)) (compressor : Option MetaV2) (cs : List MetaV3)
    (hf : ∀ fs, filters = some fs → ∀ f ∈ fs, MetaV2.wfp f) (hcomp : ∀ m, compressor = some m → m.wfp)
    (h : codecsV2ToV3 order rank dtName endian filters compressor = .ok cs) : ∀ c ∈ cs, MetaV3.good c := by
  obtain ⟨b2b, rfl, hb⟩ := codecsV2ToV3_inv _ _ _ _ _ _ _ h
  intro c hc
  rcases List.mem_append.1 hc with h1 | h2
  · exact codecsHead_good _ _ _ _ _ hf hcomp c h1
  · clear hc h
    cases compressor with
    | none => simp only at hb; subst hb; cases h2
    | some m =>
      simp only at hb
      obtain ⟨o, ho, rfl⟩ := hb
      cases o with
      | none => cases h2
      | some x =>
        simp only [Option.toList_some, List.mem_cons, List.not_mem_nil, or_false] at h2
        subst h2
        exact compressorB2B_good _ m (hcomp m rfl) _ ho

/-- **the converted document is a well-formed V3 document**, provided no additional field of the V2 document is
    named like a V3 array field (it would be written next to the real one) -/
theorem v2ToV3_good (d : ArrayDocV2) (hs : d.shapeOk) (hw : d.wfParts) (v3 : ArrayDoc) (hc : v2ToV3 d = .ok v3)
    (hk : ∀ kv ∈ d.extra, kv.1 ∉ arrayKeys) : v3.good := by
  obtain ⟨s, endian, fill, cs, hdt, _, hfill, _, hcs, rfl⟩ := v2ToV3_inv d v3 hc
  have hsOk : strOk s := by
    have := hw.dt
    rw [hdt] at this
    exact this
  refine ⟨?_, ?_, ?_, ?_, ?_, ?_, ?_, ?_, ?_, ?_, ?_⟩
  · exact fun t ht => ⟨hs.shape t ht, hw.shape t ht⟩
  · exact ⟨strOk_dtypeNameV3 s hsOk, fun c hc => by cases hc⟩
  · exact regularMeta_good _ hw.chunks
  · exact v2KeyMeta_good _
  · exact fillConv_wf _ _ hw.fill _ hfill
  · exact codecsV2ToV3_good _ _ _ _ _ _ _ hw.filters hw.comp hcs
  · exact hw.attrs
  · intro c hc; cases hc
  · intro ns hns; cases hns
  · exact fun kv hkv => ⟨(hw.extra kv hkv).1, ⟨(hw.extra kv hkv).2, hs.extraShape kv hkv⟩, hk kv hkv⟩
  · exact hs.sorted

end Zarrs.MetaV2
