import ZarrsModel.Lemmas.MemConcGhost
/- C18 helper lemmas, part 7: responses equal ghost responses; the history invariant (linearization times lie
inside the operations' intervals, the ghost list matches the completed operations) -/
namespace Zarrs.MemConc

/-- the response produced by a completing step is the ghost response of the thread's linearization record -/
theorem VStep.resp_spec {ps i0 time v lin t v' lin' r} (g : GInv ps i0 v lin)
    (hst : VStep ps time v lin t v' lin' r) (res : Res) (hr : r = some res) :
    ∃ e ∈ lin', e.t = t ∧ e.k = v.pc t ∧ e.res = res ∧ (e ∈ lin ∨ e.lt = time) := by
  cases hst with
  | s1e op c hop hw hts hcur hfree hv hl hr' => rw [hr'] at hr; cases hr
  | s1n op hop hw hts hcur hv hl hr' => rw [hr'] at hr; cases hr
  | g1h op c hop hrd hts hcur hv hl hr' => rw [hr'] at hr; cases hr
  | s2 op c hop hts hv hl hr' =>
    rw [hr'] at hr; cases hr; subst hl
    obtain ⟨e, he, h1, h2⟩ := g.hold_lin t c hts
    refine ⟨e, he, h1, h2, ?_, Or.inl he⟩
    have := g.pend e he (by rw [h1]; exact h2)
    rw [PendOK, h1, hts] at this
    rcases this with ⟨_, _, h⟩ | ⟨_, h, _⟩
    · exact h
    · cases h
  | g1m op hop hrd hts hcur hv hl hr' =>
    rw [hr'] at hr; cases hr; subst hl
    exact ⟨_, List.mem_append_right _ (List.mem_singleton_self _), rfl, rfl, rfl, Or.inr rfl⟩
  | g2 op c hop hts hfree hv hl hr' =>
    rw [hr'] at hr; cases hr
    by_cases hc : v.cur = some c
    · rw [if_pos hc] at hl; subst hl
      exact ⟨_, List.mem_append_right _ (List.mem_singleton_self _), rfl, rfl, rfl, Or.inr rfl⟩
    · rw [if_neg hc] at hl; subst hl
      rcases g.get_lin t c hts with h | ⟨e, he, h1, h2⟩
      · exact absurd h hc
      · refine ⟨e, he, h1, h2, ?_, Or.inl he⟩
        have hop' := g.op_ok e he
        rw [h1, h2, hop] at hop'
        cases hop'
        have := g.pend e he (by rw [h1]; exact h2)
        rw [PendOK, h1, hts] at this
        rcases this with ⟨_, h, _⟩ | ⟨c', h, _, h3⟩
        · cases h
        · cases h
          rw [h3, logical_free hfree]
  | sz hop hts hfree hv hl hr' =>
    rw [hr'] at hr; cases hr; subst hl
    exact ⟨_, List.mem_append_right _ (List.mem_singleton_self _), rfl, rfl, rfl, Or.inr rfl⟩
  | e1 hop hts hv hl hr' =>
    rw [hr'] at hr; cases hr; subst hl
    exact ⟨_, List.mem_append_right _ (List.mem_singleton_self _), rfl, rfl, rfl, Or.inr rfl⟩

structure HInv (ps : Progs) (v : VState) (lin : List LinE) (time : Nat) (invs : List (Option Nat))
    (acc : List Done) : Prop where
  sorted : lin.Pairwise (fun a b => a.lt ≤ b.lt)
  lt_time : ∀ e ∈ lin, e.lt < time
  acc_lin : ∀ d ∈ acc, d.k < v.pc d.t ∧ ∃ e ∈ lin, e.t = d.t ∧ e.k = d.k ∧ e.op = d.op ∧ e.res = d.res ∧
      d.inv ≤ e.lt ∧ e.lt ≤ d.resp
  lin_acc : ∀ e ∈ lin, e.k < v.pc e.t → ∃ d ∈ acc, d.t = e.t ∧ d.k = e.k
  acc_nodup : acc.Pairwise (fun a b => ¬ (a.t = b.t ∧ a.k = b.k))
  linvs : invs.length = ps.length
  inv_idle : ∀ t, v.ts t = .idle → invs.getD t none = none
  inv_busy : ∀ t, v.ts t ≠ .idle → ∃ i, invs.getD t none = some i ∧ i < time ∧
      ∀ e ∈ lin, e.t = t → e.k = v.pc t → i ≤ e.lt

section
variable {ps : Progs} {i0 : Option Bytes} {time : Nat} {v v' : VState} {lin new : List LinE} {t : Nat}
  {r : Option Res} {invs : List (Option Nat)} {acc : List Done}

theorem sorted_append_new (hh : HInv ps v lin time invs acc) (hnew : ∀ e ∈ new, e.lt = time) :
    (lin ++ new).Pairwise (fun a b => a.lt ≤ b.lt) ∧ ∀ e ∈ lin ++ new, e.lt < time + 1 := by
  constructor
  · rw [List.pairwise_append]
    refine ⟨hh.sorted, ?_, ?_⟩
    · exact List.pairwise_of_forall_mem_list (fun a ha b hb => by rw [hnew a ha, hnew b hb]; exact Nat.le_refl _)
    · intro a ha b hb; rw [hnew b hb]; exact Nat.le_of_lt (hh.lt_time a ha)
  · intro e he
    rcases List.mem_append.mp he with he | he
    · exact Nat.lt_succ_of_lt (hh.lt_time e he)
    · rw [hnew e he]; exact Nat.lt_succ_self _

/-- a step that does not complete the operation: thread `t` was idle, its invocation time is `time` -/
theorem hinv_step_none (g : GInv ps i0 v lin) (hh : HInv ps v lin time invs acc)
    (ht : t < ps.length) (hst : VStep ps time v lin t v' (lin ++ new) r) (ns : NewSpec ps time v v' t new)
    (hr : r = none) : HInv ps v' (lin ++ new) (time + 1) (invs.set t (some time)) acc := by
  obtain ⟨hpc, hidle, hbusy⟩ := hst.pc_self.1 hr
  have hpc' : ∀ t', v'.pc t' = v.pc t' := by
    intro t'; by_cases h : t' = t
    · rw [h, hpc]
    · exact hst.pc_other h
  have hnew : ∀ e ∈ new, e.lt = time := fun e he => (ns.each e he).1
  obtain ⟨h1, h2⟩ := sorted_append_new hh hnew
  have htl : t < invs.length := by rw [hh.linvs]; exact ht
  refine ⟨h1, h2, ?_, ?_, hh.acc_nodup, by simpa using hh.linvs, ?_, ?_⟩
  · intro d hd
    obtain ⟨h3, e, he, h4⟩ := hh.acc_lin d hd
    exact ⟨by rw [hpc']; exact h3, e, List.mem_append_left _ he, h4⟩
  · intro e he hk
    rw [hpc'] at hk
    rcases List.mem_append.mp he with he | he
    · exact hh.lin_acc e he hk
    · have := (ns.each e he).2.1; omega
  · intro t' ht'
    have hne : t' ≠ t := by intro e; rw [e] at ht'; exact hbusy ht'
    have hne' : ¬ t = t' := fun e => hne e.symm
    rw [hst.ts_other hne] at ht'
    rw [getD_set]; simp only [hne', false_and, if_false]
    exact hh.inv_idle t' ht'
  · intro t' ht'
    by_cases hne : t' = t
    · subst hne
      refine ⟨time, by rw [getD_set]; simp [htl], Nat.lt_succ_self _, ?_⟩
      intro e he h3 h4
      rcases List.mem_append.mp he with he | he
      · exfalso
        have := g.pend e he (by rw [h4, hpc, h3])
        rw [PendOK, h3, hidle] at this
        rcases this with ⟨_, h, _⟩ | ⟨_, h, _⟩ <;> cases h
      · rw [hnew e he]; exact Nat.le_refl _
    · have hne' : ¬ t = t' := fun e => hne e.symm
      rw [hst.ts_other hne] at ht'
      obtain ⟨i, h3, h4, h5⟩ := hh.inv_busy t' ht'
      refine ⟨i, by rw [getD_set]; simp only [hne', false_and, if_false]; exact h3, Nat.lt_succ_of_lt h4, ?_⟩
      intro e he h6 h7
      rcases List.mem_append.mp he with he | he
      · exact h5 e he h6 (by rw [h7, hpc'])
      · rw [hnew e he]; exact Nat.le_of_lt h4

/-- a step that completes the operation of thread `t` with response `res` -/
theorem hinv_step_some (g : GInv ps i0 v lin) (g' : GInv ps i0 v' (lin ++ new))
    (hh : HInv ps v lin time invs acc) (ht : t < ps.length) (hst : VStep ps time v lin t v' (lin ++ new) r)
    (ns : NewSpec ps time v v' t new) (res : Res) (hr : r = some res) (op : Op)
    (hop : opAt ps t (v.pc t) = some op) (inv : Nat)
    (hinv : inv = match invs.getD t none with | some i => i | none => time) :
    HInv ps v' (lin ++ new) (time + 1) (invs.set t none) (acc ++ [⟨t, v.pc t, op, res, inv, time⟩]) := by
  obtain ⟨hpc, hidle⟩ := hst.pc_self.2 (by simp [hr])
  have htl : t < invs.length := by rw [hh.linvs]; exact ht
  have hnew : ∀ e ∈ new, e.lt = time := fun e he => (ns.each e he).1
  obtain ⟨h1, h2⟩ := sorted_append_new hh hnew
  refine ⟨h1, h2, ?_, ?_, ?_, by simpa using hh.linvs, ?_, ?_⟩
  · intro d hd
    rcases List.mem_append.mp hd with hd | hd
    · obtain ⟨h3, e, he, h4⟩ := hh.acc_lin d hd
      exact ⟨Nat.lt_of_lt_of_le h3 (hst.pc_le d.t), e, List.mem_append_left _ he, h4⟩
    · rw [List.mem_singleton] at hd; subst hd
      refine ⟨by show v.pc t < v'.pc t; omega, ?_⟩
      obtain ⟨e, he, h3, h4, h5, h6⟩ := hst.resp_spec g res hr
      refine ⟨e, he, h3, h4, ?_, h5, ?_, ?_⟩
      · have := g'.op_ok e he
        rw [h3, h4, hop] at this
        cases this; rfl
      · show inv ≤ e.lt
        rcases h6 with h6 | h6
        · have hp := g.pend e h6 (by rw [h3]; exact h4)
          have hb : v.ts t ≠ .idle := by
            rw [PendOK, h3] at hp
            rcases hp with ⟨_, h, _⟩ | ⟨_, h, _⟩ <;> rw [h] <;> simp
          obtain ⟨i, h7, _, h9⟩ := hh.inv_busy t hb
          rw [hinv, h7]
          exact h9 e h6 h3 h4
        · rw [h6, hinv]
          by_cases hb : v.ts t = .idle
          · rw [hh.inv_idle t hb]; exact Nat.le_refl _
          · obtain ⟨i, h7, h8, _⟩ := hh.inv_busy t hb
            rw [h7]; exact Nat.le_of_lt h8
      · show e.lt ≤ time
        exact Nat.le_of_lt_succ (h2 e he)
  · intro e he hk
    by_cases het : e.t = t
    · by_cases hk' : e.k = v.pc t
      · exact ⟨_, List.mem_append_right _ (List.mem_singleton_self _), het.symm, hk'.symm⟩
      · rcases List.mem_append.mp he with he | he
        · have := g.k_le e he
          rw [het] at this
          obtain ⟨d, hd, h3⟩ := hh.lin_acc e he (by rw [het]; omega)
          exact ⟨d, List.mem_append_left _ hd, h3⟩
        · exact absurd (by rw [(ns.each e he).2.1, het]) hk'
    · rw [hst.pc_other het] at hk
      rcases List.mem_append.mp he with he | he
      · obtain ⟨d, hd, h3⟩ := hh.lin_acc e he hk
        exact ⟨d, List.mem_append_left _ hd, h3⟩
      · have := (ns.each e he).2.1; omega
  · rw [List.pairwise_append]
    refine ⟨hh.acc_nodup, by simp, ?_⟩
    intro a ha b hb ⟨h3, h4⟩
    rw [List.mem_singleton] at hb; subst hb
    have := (hh.acc_lin a ha).1
    simp only at h3 h4
    rw [h3] at this; omega
  · intro t' ht'
    by_cases hne : t' = t
    · subst hne
      rw [getD_set]; simp [htl]
    · have hne' : ¬ t = t' := fun e => hne e.symm
      rw [hst.ts_other hne] at ht'
      rw [getD_set]; simp only [hne', false_and, if_false]
      exact hh.inv_idle t' ht'
  · intro t' ht'
    have hne : t' ≠ t := by intro e; rw [e] at ht'; exact ht' hidle
    have hne' : ¬ t = t' := fun e => hne e.symm
    rw [hst.ts_other hne] at ht'
    obtain ⟨i, h3, h4, h5⟩ := hh.inv_busy t' ht'
    refine ⟨i, by rw [getD_set]; simp only [hne', false_and, if_false]; exact h3, Nat.lt_succ_of_lt h4, ?_⟩
    intro e he h6 h7
    rcases List.mem_append.mp he with he | he
    · exact h5 e he h6 (by rw [h7, hst.pc_other hne])
    · rw [hnew e he]; exact Nat.le_of_lt h4

end

end Zarrs.MemConc
