import ZarrsModel.Lemmas.ChainSPEGeom
import ZarrsModel.Lemmas.ChainSDecShard
set_option Elab.async false
/- helper lemmas for C05 on chains, part 2: `shardPEElems` — reading the straddling inner chunks, one region write, all
region writes, the re-encoded inner chunks -/
namespace Zarrs.Partial
open Zarrs Zarrs.Codec Zarrs.Subset Zarrs.Shard

/-- the box of inner chunk `c` -/
def cellBox (inner : Shape) (c : Idx) : Subset := ⟨zipMul c inner, inner⟩

/-- what the sharding partial encoder finds: index entries, stored inner chunks and a handle serving them -/
structure PEOld (entries : List (Nat × Nat)) (chunks : List (Option Bytes)) (h : BHandle) (n : Nat) : Prop where
  elen : entries.length = n
  clen : chunks.length = n
  live : ∀ (i : Nat) (e : Nat × Nat), entries[i]? = some e → (isLive e = true ↔ ∃ b, chunks[i]? = some (some b))
  read : ∀ want : List Nat, (∀ i ∈ want, ∃ b, chunks[i]? = some (some b)) →
    h (want.map (fun i => ByteRange.fromStart (entries.getD i (0, 0)).1 (some (entries.getD i (0, 0)).2))) =
        some (some (want.map (fun i => (chunks.getD i none).getD []))) ∨
      (want = [] ∧ h [] = some none)

/-! ### reading the straddling inner chunks -/

theorem peRead_fold (es : Nat) (inner : Shape) (innerDec : Bytes → Option (List Elem)) (bytes : Nat → Bytes)
    (X : Nat → List Elem) : ∀ (want : List Nat) (init : List (Option (List Elem))),
    (∀ i ∈ want, i < init.length ∧ (innerDec (bytes i)).bind (validated es (prod inner)) = some (X i)) →
    ∃ st, (List.zip want (want.map bytes)).foldl (fun (acc : Option (List (Option (List Elem)))) (p : Nat × Bytes) =>
        match acc, (innerDec p.2).bind (validated es (prod inner)) with
        | some st, some xs => some (st.set p.1 (some xs))
        | _, _ => none) (some init) = some st ∧ st.length = init.length ∧
      ∀ i, st.getD i none = if i ∈ want then some (X i) else init.getD i none := by
  intro want
  induction want with
  | nil => intro init _; exact ⟨init, rfl, rfl, fun i => by simp⟩
  | cons a as ih =>
    intro init h
    obtain ⟨ha1, ha2⟩ := h a (by simp)
    obtain ⟨st, h1, h2, h3⟩ := ih (init.set a (some (X a))) (fun i hi => by
      rw [List.length_set]; exact h i (by simp [hi]))
    refine ⟨st, ?_, by rw [h2, List.length_set], ?_⟩
    · simp only [List.map_cons, List.zip_cons_cons, List.foldl_cons, ha2]
      exact h1
    · intro i
      rw [h3 i]
      by_cases hia : i ∈ as
      · simp [hia]
      · by_cases hie : i = a
        · subst hie
          simp only [hia, if_false, List.mem_cons, true_or, if_true, List.getD_eq_getElem?_getD,
            List.getElem?_set_self ha1, Option.getD_some]
        · simp [hia, hie, List.getElem?_set_ne (Ne.symm hie)]

theorem peRead_spec (es : Nat) (fill : Elem) (inner : Shape) (entries : List (Nat × Nat)) (chunks : List (Option Bytes))
    (innerDec : Bytes → Option (List Elem)) (h : BHandle) (n : Nat) (pieces : List (List Elem))
    (O : PEOld entries chunks h n) (hcd : ChunksDecode es fill inner innerDec chunks pieces)
    (strad : List Nat) (hs : ∀ i ∈ strad, i < n) :
    ∃ st0, peRead es inner entries innerDec h strad = some st0 ∧ st0.length = n ∧
      ∀ i, i < n → (∀ x, st0.getD i none = some x → pieces[i]? = some x) ∧
        (st0.getD i none = none → i ∉ strad ∨ chunks[i]? = some none) := by
  have hany : strad.any (fun i => decide (entries.length ≤ i)) = false := by
    rw [List.any_eq_false]
    intro i hi
    have := hs i hi
    rw [O.elen]
    simp; omega
  unfold peRead
  rw [hany]
  simp only [Bool.false_eq_true, if_false]
  generalize hwant : (List.range entries.length).filter (fun i =>
      strad.contains i && isLive (entries.getD i (sentinel, sentinel))) = want
  have hwmem : ∀ i, i ∈ want ↔ i < n ∧ i ∈ strad ∧ isLive (entries.getD i (sentinel, sentinel)) = true := by
    intro i
    rw [← hwant, List.mem_filter, List.mem_range, O.elen, Bool.and_eq_true, List.contains_iff_mem]
  have hgetD : ∀ i, i < n → entries[i]? = some (entries.getD i (sentinel, sentinel)) := by
    intro i hi
    rw [List.getD_eq_getElem?_getD, List.getElem?_eq_getElem (by rw [O.elen]; exact hi)]
    rfl
  have hwc : ∀ i ∈ want, ∃ b, chunks[i]? = some (some b) := by
    intro i hi
    obtain ⟨h1, _, h3⟩ := (hwmem i).mp hi
    exact (O.live i _ (hgetD i h1)).mp h3
  -- the entry of a position outside `want`
  have hout : ∀ i, i < n → i ∉ want → i ∉ strad ∨ chunks[i]? = some none := by
    intro i hi hnw
    by_cases hst : i ∈ strad
    · right
      have hnl : ¬ isLive (entries.getD i (sentinel, sentinel)) = true := fun hl => hnw ((hwmem i).mpr ⟨hi, hst, hl⟩)
      have hnb : ¬ ∃ b, chunks[i]? = some (some b) := fun hb => hnl ((O.live i _ (hgetD i hi)).mpr hb)
      have hlt : i < chunks.length := by rw [O.clen]; exact hi
      rw [List.getElem?_eq_getElem hlt]
      cases hc : chunks[i] with
      | none => rfl
      | some b => exact absurd ⟨b, by rw [List.getElem?_eq_getElem hlt, hc]⟩ hnb
    · exact Or.inl hst
  rcases O.read want hwc with hr | ⟨hw0, hr⟩
  · rw [hr]
    simp only
    obtain ⟨st, h1, h2, h3⟩ := peRead_fold es inner innerDec (fun i => (chunks.getD i none).getD [])
      (fun i => pieces.getD i []) want (List.replicate entries.length none) (by
        intro i hi
        obtain ⟨b, hb⟩ := hwc i hi
        obtain ⟨hin, _, _⟩ := (hwmem i).mp hi
        refine ⟨by rw [List.length_replicate, O.elen]; exact hin, ?_⟩
        have hlt : i < chunks.length := by rw [O.clen]; exact hin
        have hlp : i < pieces.length := by rw [← hcd.1]; exact hlt
        have := hcd.2 i hlt hlp
        rw [List.getElem?_eq_getElem hlt] at hb
        simp only [Option.some.injEq] at hb
        rw [hb] at this
        simp only at this
        simp only [List.getD_eq_getElem?_getD, List.getElem?_eq_getElem hlt, hb, Option.getD_some, this.1,
          Option.bind_some, List.getElem?_eq_getElem hlp]
        exact validated_some _ _ _ this.2.1 this.2.2)
    refine ⟨st, h1, by rw [h2, List.length_replicate, O.elen], ?_⟩
    intro i hi
    have hlp : i < pieces.length := by rw [← hcd.1, O.clen]; exact hi
    rw [h3 i]
    by_cases hiw : i ∈ want
    · simp only [hiw, if_true, Option.some.injEq, reduceCtorEq, false_implies, and_true]
      intro x hx
      rw [← hx, List.getD_eq_getElem?_getD, List.getElem?_eq_getElem hlp]
      rfl
    · simp only [hiw, if_false, List.getD_eq_getElem?_getD, List.getElem?_replicate]
      rw [if_pos (by rw [O.elen]; exact hi)]
      simp only [Option.getD_some, reduceCtorEq, false_implies, implies_true, true_and]
      intro _
      exact hout i hi hiw
  · subst hw0
    simp only [List.map_nil, hr]
    refine ⟨_, rfl, by rw [List.length_replicate, O.elen], ?_⟩
    intro i hi
    simp only [List.getD_eq_getElem?_getD, List.getElem?_replicate]
    rw [if_pos (by rw [O.elen]; exact hi)]
    simp only [Option.getD_some, reduceCtorEq, false_implies, implies_true, true_and]
    intro _
    exact hout i hi (by simp)

end Zarrs.Partial
