import ZarrsModel.Lemmas.ChainSDec
set_option Elab.async false
/- helper lemmas for C03 on (nested) sharded chains, part 2: `ShardingCodec::decode` on a legal shard, chains -/
namespace Zarrs.Partial
open Zarrs Zarrs.Codec Zarrs.Subset

theorem mapM_some_pointwise {α β : Type} (f : α → Option β) : ∀ (xs : List α) (ys : List β),
    xs.length = ys.length → (∀ i (h1 : i < xs.length) (h2 : i < ys.length), f xs[i] = some ys[i]) →
    xs.mapM f = some ys := by
  intro xs
  induction xs with
  | nil =>
    intro ys hl _
    cases ys with
    | nil => rfl
    | cons y ys => simp at hl
  | cons x xs ih =>
    intro ys hl h
    cases ys with
    | nil => simp at hl
    | cons y ys =>
      have h0 := h 0 (by simp) (by simp)
      simp only [List.getElem_cons_zero] at h0
      have ht := ih ys (by simpa using hl) (fun i h1 h2 => by
        have := h (i + 1) (by simp; omega) (by simp; omega)
        simpa using this)
      rw [List.mapM_cons, h0, ht]; rfl

/-- the stored inner chunks `chunks` (any encodings) decode to the element lists `xss`: a missing chunk stands for an
all-fill inner chunk, a stored one is decoded by the inner chain to a chunk of the inner shape -/
def ChunksDecode (es : Nat) (fill : Elem) (inner : Shape) (innerDec : Bytes → Option (List Elem))
    (chunks : List (Option Bytes)) (xss : List (List Elem)) : Prop :=
  chunks.length = xss.length ∧ ∀ i (h1 : i < chunks.length) (h2 : i < xss.length),
    match chunks[i] with
    | none => xss[i] = List.replicate (prod inner) fill
    | some b => innerDec b = some xss[i] ∧ xss[i].length = prod inner ∧ ∀ x ∈ xss[i], x.length = es

theorem ChunksDecode.piece_length {es : Nat} {fill : Elem} {inner : Shape} {innerDec : Bytes → Option (List Elem)}
    {chunks : List (Option Bytes)} {xss : List (List Elem)} (h : ChunksDecode es fill inner innerDec chunks xss) :
    ∀ xs ∈ xss, xs.length = prod inner := by
  intro xs hxs
  obtain ⟨i, hi, rfl⟩ := List.mem_iff_getElem.mp hxs
  have := h.2 i (by rw [h.1]; exact hi) hi
  split at this
  · rw [this]; simp
  · exact this.2.1

theorem mapM_shardChunkDec {es : Nat} {fill : Elem} {inner : Shape} {innerDec : Bytes → Option (List Elem)}
    {chunks : List (Option Bytes)} {xss : List (List Elem)} (hfill : fill.length = es)
    (h : ChunksDecode es fill inner innerDec chunks xss) :
    chunks.mapM (shardChunkDec es fill inner innerDec) = some xss := by
  apply mapM_some_pointwise _ _ _ h.1
  intro i h1 h2
  have := h.2 i h1 h2
  split at this
  · rename_i heq
    rw [heq, this]
    simp [shardChunkDec, hfill]
  · rename_i b heq
    rw [heq]
    simp only [shardChunkDec, this.1, Option.bind_some]
    exact validated_some _ _ _ this.2.1 this.2.2

theorem assemble_of_prod_zero (shard inner : Shape) (xss : List (List Elem)) (h : prod shard = 0) :
    assemble shard inner xss = [] := by
  apply List.eq_nil_of_length_eq_zero
  simp [assemble, boxIndices_length, h]

/-- **`ShardingCodec::decode` on ANY legal layout**: a value that is a legal shard holding the stored chunks `chunks`
(any offsets, order, gaps; index at either end, either byte order, with or without crc32c), which decode to `xss`,
decodes to the assembled shard -/
theorem shardDecode_legal (cfg : Shard.Cfg) (shard inner : Shape) (es : Nat) (fill : Elem)
    (innerDec : Bytes → Option (List Elem)) (v : Bytes) (chunks : List (Option Bytes)) (xss : List (List Elem))
    (ht : tiles inner shard = true) (hes : 0 < es) (hfill : fill.length = es)
    (hlegal : Shard.Legal { cfg with nChunks := prod (zipDiv shard inner) } v chunks)
    (hcd : ChunksDecode es fill inner innerDec chunks xss) :
    shardDecode cfg shard inner es fill innerDec v = some (assemble shard inner xss) := by
  have hdec := Conform.legal_shard_decodes' _ v chunks hlegal
  obtain ⟨hn, ib, entries, hib, hdi, _, _, _⟩ := hlegal
  unfold shardDecode
  simp only [chunksPerShard_of_tiles ht, hib, hdi]
  by_cases hz : prod shard = 0
  · rw [if_pos (by simp [hz]), assemble_of_prod_zero shard inner xss hz, hz]
    rfl
  · rw [if_neg (by
      simp only [beq_iff_eq]
      intro h0
      rcases Nat.mul_eq_zero.mp h0 with h | h <;> omega)]
    simp only [hdec, mapM_shardChunkDec hfill hcd, Option.map_some]
    congr 1
    apply assembleScatter_eq ht xss _ hcd.piece_length _ (by simp)
    rw [← hcd.1, hn]

/-! ### chains -/

theorem ChainS.es_pos (A : List AStage → Shape → Prop) (B : BStage → Prop) : ∀ (c : ChainS) (sh : Shape) (fill : Elem),
    c.okWith A B sh fill → 0 < c.es := by
  intro c
  induction c with
  | leaf c keep => intro sh fill h; exact h.1
  | shard a2a cfg ish es inner b2b ih =>
    intro sh fill h
    have := ih ish fill h.2.2.2.2.2
    rw [h.2.2.2.2.1] at this
    exact this

/-- the sharding level of `ChainS.decode` on the bytes-to-bytes encoding of any legal layout `v` of stored inner chunks
that decode (by the inner chain's `decode`) to the pieces of the array-to-array encoded chunk -/
theorem chainS_shard_decode (a2a : List AStage) (cfg : Shard.Cfg) (ish : Shape) (es : Nat) (inner : ChainS)
    (b2b : List BStage) (sh : Shape) (fill : Elem) (xs : List Elem) (v : Bytes) (chunks : List (Option Bytes))
    (ha : aOk a2a sh) (ht : tiles ish (shapesOf a2a sh) = true) (hB : ∀ st ∈ b2b, BDec st)
    (hes : 0 < es) (hfill : fill.length = es) (hxl : xs.length = prod sh) (hxe : ∀ x ∈ xs, x.length = es)
    (hlegal : Shard.Legal { cfg with nChunks := prod (zipDiv (shapesOf a2a sh) ish) } v chunks)
    (hcd : ChunksDecode es fill ish (inner.decode ish fill) chunks
      (splitShard (shapesOf a2a sh) ish (aEnc a2a sh xs))) :
    (ChainS.shard a2a cfg ish es inner b2b).decode sh fill (b2b.foldl (fun b st => st.enc b) v) = some xs := by
  obtain ⟨hyl, _⟩ := aEnc_chunk es a2a sh xs ha hxl hxe
  simp only [ChainS.decode]
  rw [decodeB2B_enc b2b hB]
  simp only [Option.bind_some]
  rw [shardDecode_legal cfg _ ish es fill _ v chunks _ ht hes hfill hlegal hcd, assemble_split ht _ hyl]
  simp only [Option.bind_some]
  rw [decodeA2A_enc a2a es sh xs ha hxl hxe]
  exact validated_some _ _ _ hxl hxe

/-- the encoder's stored chunks decode to the pieces, given that the inner chain decodes what it encodes on chunks of
the inner shape -/
theorem shardChunks_decode (es : Nat) (fill : Elem) (shard ish : Shape) (ys : List Elem)
    (enc : List Elem → Bytes) (dec : Bytes → Option (List Elem))
    (ht : tiles ish shard = true) (hyl : ys.length = prod shard) (hye : ∀ y ∈ ys, y.length = es)
    (hinv : ∀ p ∈ splitShard shard ish ys, p.length = prod ish → (∀ x ∈ p, x.length = es) → dec (enc p) = some p) :
    ChunksDecode es fill ish dec (shardChunks enc fill shard ish ys) (splitShard shard ish ys) := by
  refine ⟨by simp [shardChunks], ?_⟩
  intro i h1 h2
  have hpm : (splitShard shard ish ys)[i] ∈ splitShard shard ish ys := List.getElem_mem h2
  obtain ⟨hpl, hpe⟩ := splitShard_piece ht ys hyl _ hpm
  have hpe' : ∀ x ∈ (splitShard shard ish ys)[i], x.length = es := fun x hx => hye x (hpe x hx)
  simp only [shardChunks, List.getElem_map]
  split
  · rename_i heq
    split at heq
    · rename_i hall
      exact all_fill_replicate fill _ _ hpl hall
    · cases heq
  · rename_i b heq
    split at heq
    · cases heq
    · simp only [Option.some.injEq] at heq
      subst heq
      exact ⟨hinv _ hpm hpl hpe', hpl, hpe'⟩

/-- **a (nested) sharded chain decodes what it encoded** -/
theorem chainS_dec_enc' : ∀ (c : ChainS) (sh : Shape) (fill : Elem) (xs : List Elem),
    c.okWith aOk BDec sh fill → xs.length = prod sh → (∀ x ∈ xs, x.length = c.es) → c.fits sh fill xs →
    c.decode sh fill (c.encode sh fill xs) = some xs := by
  intro c
  induction c with
  | leaf c keep =>
    intro sh fill xs hok hxl hxe _
    exact chain_dec_enc c sh xs hok.1 hok.2.2.1 hxl hxe hok.2.2.2.1 hok.2.2.2.2.1
  | shard a2a cfg ish es inner b2b ih =>
    intro sh fill xs hok hxl hxe hfits
    have hes : 0 < es := ChainS.es_pos aOk BDec _ sh fill hok
    obtain ⟨ha, ht, hB, hfl, hies, hiok⟩ := hok
    simp only [ChainS.es] at hxe
    obtain ⟨hyl, hye⟩ := aEnc_chunk es a2a sh xs ha hxl hxe
    simp only [ChainS.fits, encodeA2A_eq] at hfits
    obtain ⟨hfp, hsmall⟩ := hfits
    have henc : (ChainS.shard a2a cfg ish es inner b2b).encode sh fill xs =
        b2b.foldl (fun b st => st.enc b)
          (Shard.encode { cfg with nChunks := prod (zipDiv (shapesOf a2a sh) ish) }
            (shardChunks (inner.encode ish fill) fill (shapesOf a2a sh) ish (aEnc a2a sh xs))) := by
      simp only [ChainS.encode, encodeA2A_eq]
    rw [henc]
    have hclen : (shardChunks (inner.encode ish fill) fill (shapesOf a2a sh) ish (aEnc a2a sh xs)).length =
        prod (zipDiv (shapesOf a2a sh) ish) := by simp [shardChunks, splitShard_length]
    have hlegal := Shard.shard_legal { cfg with nChunks := prod (zipDiv (shapesOf a2a sh) ish) } _ hclen (by
      rw [Shard.dataOf_length, ← Shard.shard_length _ _ hclen]; exact hsmall)
    apply chainS_shard_decode a2a cfg ish es inner b2b sh fill xs _ _ ha ht hB hes hfl hxl hxe hlegal
    apply shardChunks_decode es fill _ ish _ _ _ ht hyl hye
    intro p hp hpl hpe
    exact ih ish fill p hiok hpl (by rw [hies]; exact hpe) (hfp p hp)

/-! ### whatever `decode` returns is a chunk of the requested shape -/

theorem Chain.decode_valid (c : Chain) (sh : Shape) (b : Bytes) (xs : List Elem) (h : c.decode sh b = some xs) :
    xs.length = prod sh ∧ ∀ x ∈ xs, x.length = c.es := by
  unfold Chain.decode at h
  cases h1 : (decodeB2B c.b2b b).bind (bytesDecode c.big c.es c.unit (shapesOf c.a2a sh)) with
  | none => rw [h1] at h; cases h
  | some ys =>
    rw [h1] at h
    simp only [Option.bind_some] at h
    cases h2 : decodeA2A c.a2a sh c.es ys with
    | none => rw [h2] at h; cases h
    | some zs =>
      rw [h2] at h
      simp only [Option.bind_some] at h
      obtain ⟨rfl, hl, he⟩ := validated_eq_some h
      exact ⟨hl, he⟩

/-- **`ChainS.decode` only ever returns chunks of the requested shape and element size** (the final
`bytes.validate(num_elements, size)` of `CodecChain::decode`) — no hypothesis on the chain or on the bytes -/
theorem ChainS.decode_valid (c : ChainS) (sh : Shape) (fill : Elem) (b : Bytes) (xs : List Elem)
    (h : c.decode sh fill b = some xs) : xs.length = prod sh ∧ ∀ x ∈ xs, x.length = c.es := by
  cases c with
  | leaf c keep => exact Chain.decode_valid c sh b xs h
  | shard a2a cfg ish es inner b2b =>
    simp only [ChainS.decode] at h
    cases h1 : (decodeB2B b2b b).bind
        (shardDecode cfg (shapesOf a2a sh) ish es fill (fun e => inner.decode ish fill e)) with
    | none => rw [h1] at h; cases h
    | some ys =>
      rw [h1] at h
      simp only [Option.bind_some] at h
      cases h2 : decodeA2A a2a sh es ys with
      | none => rw [h2] at h; cases h
      | some zs =>
        rw [h2] at h
        simp only [Option.bind_some] at h
        obtain ⟨rfl, hl, he⟩ := validated_eq_some h
        exact ⟨hl, he⟩

end Zarrs.Partial
