import ZarrsModel.Lemmas.ChainSPEShard
set_option Elab.async false
/- helper lemmas for C05 on chains, part 7: the step of one sharding level -/
namespace Zarrs.Partial
open Zarrs Zarrs.Codec Zarrs.Subset Zarrs.Shard Zarrs.ShardPE

/-- a present result of `partialEncode` holds a stored inner chunk -/
theorem partialEncode_some_live (c : Cfg) (vo : Option Bytes) (chunks : List (Option Bytes))
    (us : List (Nat × Option Bytes)) (hst : St c vo chunks)
    (hu : (∀ u ∈ us, u.1 < c.nChunks) ∧ (us.map (·.1)).Nodup)
    (hsmall : (vo.getD []).length + ((us.filterMap (·.2)).map List.length).sum + indexSize c < sentinel)
    (v' : Bytes) (h : partialEncode c vo us = some (some v')) :
    ∃ ch ∈ applyUpdates chunks us, ch ≠ none := by
  -- the index and its relation to the stored chunks
  have hidx : ∃ idx v, currentIndex c vo = some idx ∧ idx.length = c.nChunks ∧ idx.mapM (decEntry v) = .ok chunks := by
    cases vo with
    | none =>
      have hc : chunks = List.replicate c.nChunks none := hst
      subst hc
      refine ⟨List.replicate c.nChunks (sentinel, sentinel), [], rfl, by simp, ?_⟩
      rw [mapM_ok_iff]
      refine ⟨by simp, ?_⟩
      intro i a ha
      rw [List.getElem?_replicate] at ha
      split at ha
      · cases ha
        rename_i hi
        exact ⟨none, by rw [List.getElem?_replicate, if_pos hi], by simp [decEntry]⟩
      · cases ha
    | some v =>
      obtain ⟨hdec, hwf, _⟩ : decode c true v = .ok chunks ∧ wellFormed c v = true ∧ tight c v = true := hst
      simp only [Option.getD_some] at hsmall
      obtain ⟨idx, hcur, hlen, hold, _⟩ := old_facts c v chunks hdec hwf (by omega)
      exact ⟨idx, v, hcur, hlen, hold⟩
  obtain ⟨idx, v, hcur, hlen, hold⟩ := hidx
  obtain ⟨hlc, hpt⟩ := (mapM_ok_iff _ _ _).mp hold
  rw [partialEncodeFixed_eq c vo us idx hcur] at h
  by_cases hall : (idxNew idx us (if c.indexAtEnd = true
      then (if (idxDead idx us).all (fun e => !isLive e) = true then 0 else liveEnd idx)
      else max (if (idxDead idx us).all (fun e => !isLive e) = true then 0 else liveEnd idx) (indexSize c))).all
        (fun e => !isLive e) = true
  · simp only [hall, if_true] at h
    cases h
  · rw [Bool.not_eq_true, List.all_eq_false] at hall
    obtain ⟨e, he, hle⟩ := hall
    have hl : isLive e = true := by simpa using hle
    obtain ⟨j, hj⟩ := List.mem_iff_getElem?.mp he
    rcases idxNew_cases idx us _ hu.2 j e hj with ⟨hjn, hje⟩ | ⟨k, ch, hk, hke⟩
    · obtain ⟨ch, hch, hde⟩ := hpt j e hje
      rw [decEntry_live v e hl] at hde
      split at hde
      · cases hde
      · cases hde
        exact ⟨_, List.mem_iff_getElem?.mpr ⟨j, by rw [applyUpdates_untouched _ _ _ hjn]; exact hch⟩, by simp⟩
    · have hjl : j < chunks.length := by
        rw [← hlc, hlen]
        exact hu.1 (j, ch) (List.mem_iff_getElem?.mpr ⟨k, hk⟩)
      refine ⟨ch, List.mem_iff_getElem?.mpr ⟨j, applyUpdates_touched chunks us hu.2 k j ch hk hjl⟩, ?_⟩
      intro hcn
      subst hcn
      -- a dropped update has the sentinel entry
      have : ∀ (vals : List (Option Bytes)) (off k : Nat) (e : Nat × Nat), vals[k]? = some none →
          (entriesFrom off vals)[k]? = some e → e = (sentinel, sentinel) := by
        intro vals
        induction vals with
        | nil => intro off k e h1; simp at h1
        | cons a as ih =>
          intro off k e h1 h2
          cases k with
          | zero =>
            simp only [List.getElem?_cons_zero, Option.some.injEq] at h1
            subst h1
            simpa [entriesFrom] using h2.symm
          | succ k =>
            simp only [List.getElem?_cons_succ] at h1
            cases a with
            | none => exact ih off k e h1 (by simpa [entriesFrom] using h2)
            | some b => exact ih _ k e h1 (by simpa [entriesFrom] using h2)
      have := this _ _ k e (by simp [hk]) hke
      subst this
      simp [isLive] at hl

/-- the stored inner chunks of one sharding level hold the pieces of the chunk, all-fill pieces not stored; `R b p`:
the stored bytes `b` hold the piece `p` -/
def ChunksHold (fill : Elem) (ish : Shape) (R : Bytes → List Elem → Prop) (chunks : List (Option Bytes))
    (pieces : List (List Elem)) : Prop :=
  chunks.length = pieces.length ∧ ∀ i (h1 : i < chunks.length) (h2 : i < pieces.length),
    match chunks[i] with
    | none => pieces[i] = List.replicate (prod ish) fill
    | some b => pieces[i] ≠ List.replicate (prod ish) fill ∧ R b pieces[i]

theorem ChunksHold.decode {es : Nat} {fill : Elem} {ish : Shape} {R : Bytes → List Elem → Prop}
    {innerDec : Bytes → Option (List Elem)}
    {chunks : List (Option Bytes)} {pieces : List (List Elem)} (h : ChunksHold fill ish R chunks pieces)
    (hR : ∀ b p, R b p → innerDec b = some p)
    (hp : ∀ p ∈ pieces, p.length = prod ish ∧ ∀ x ∈ p, x.length = es) :
    ChunksDecode es fill ish innerDec chunks pieces := by
  refine ⟨h.1, ?_⟩
  intro i h1 h2
  have := h.2 i h1 h2
  split
  · rename_i heq; rw [heq] at this; exact this
  · rename_i b heq
    rw [heq] at this
    exact ⟨hR _ _ this.2, hp _ (List.getElem_mem h2)⟩

theorem all_fill_iff_replicate (fill : Elem) (xs : List Elem) (n : Nat) (hl : xs.length = n) :
    xs.all (· == fill) = true ↔ xs = List.replicate n fill :=
  ⟨all_fill_replicate fill xs n hl, fun h => by rw [h]; exact replicate_all_fill fill n⟩

/-- **one sharding level**: from an absent value or a well-formed tight shard `v0` (below the bytes-to-bytes codecs)
whose stored inner chunks hold the pieces of `ys`, in-bounds region writes give (the encoding of) a well-formed tight
shard whose stored inner chunks hold the pieces of the updated `ys` — or erase the value when every piece is all fill.
`hrun`: what running the plan through the handles of `b2b` amounts to (`runPlan_nil`, `runPlan_lawful`). -/
theorem shardPE_step (cfg : Cfg) (ish sh : Shape) (es : Nat) (inner : ChainS) (b2b : List BStage) (fill : Elem)
    (ht : tiles ish sh = true) (hfill : fill.length = es) (hB : ∀ st ∈ b2b, BLaw st)
    (R : Bytes → List Elem → Prop) (hR1 : ∀ b p, R b p → inner.decode ish fill b = some p)
    (hR2 : ∀ p : List Elem, p.length = prod ish → (∀ x ∈ p, x.length = es) → R (inner.encode ish fill p) p)
    (M : Nat) (hM : ∀ p : List Elem, p.length = prod ish → (∀ x ∈ p, x.length = es) →
      (inner.encode ish fill p).length ≤ M)
    (v0 : Option Bytes) (chunks : List (Option Bytes)) (ys : List Elem)
    (hyl : ys.length = prod sh) (hye : ∀ y ∈ ys, y.length = es)
    (hst : St { cfg with nChunks := prod (zipDiv sh ish) } v0 chunks)
    (hhold : ChunksHold fill ish R chunks (splitShard sh ish ys))
    (hsmall : (v0.getD []).length + prod (zipDiv sh ish) * M +
      indexSize { cfg with nChunks := prod (zipDiv sh ish) } < sentinel)
    (hrun : ∀ idx us, currentIndex { cfg with nChunks := prod (zipDiv sh ish) } v0 = some idx →
      ((∀ u ∈ us, u.1 < prod (zipDiv sh ish)) ∧ (us.map (·.1)).Nodup) →
      ∃ v0pre, St { cfg with nChunks := prod (zipDiv sh ish) } v0pre chunks ∧
        (v0pre.getD []).length ≤ (v0.getD []).length ∧
        runPlan b2b (v0.map (encB b2b)) (shardPlan { cfg with nChunks := prod (zipDiv sh ish) } idx us) =
          (partialEncode { cfg with nChunks := prod (zipDiv sh ish) } v0pre us).map (fun r => r.map (encB b2b)))
    (ws : List RWrite) (hws : ∀ w ∈ ws, writeOk es sh w) :
    ∃ v0' chunks', shardPE cfg ish es inner b2b sh fill (v0.map (encB b2b)) ws = some (v0'.map (encB b2b)) ∧
      St { cfg with nChunks := prod (zipDiv sh ish) } v0' chunks' ∧
      ChunksHold fill ish R chunks' (splitShard sh ish (applyRegionWrites sh ys ws)) ∧
      (v0' = none ↔ ∀ ch ∈ chunks', ch = none) ∧
      (v0'.getD []).length ≤ (v0.getD []).length + prod (zipDiv sh ish) * M +
        indexSize { cfg with nChunks := prod (zipDiv sh ish) } := by
  generalize hcfg : ({ cfg with nChunks := prod (zipDiv sh ish) } : Cfg) = cfg' at *
  have hn' : cfg'.nChunks = prod (zipDiv sh ish) := by rw [← hcfg]
  -- the pieces of the old and the new chunk are chunks of the inner shape
  have hpv : ∀ (zs : List Elem), zs.length = prod sh → (∀ z ∈ zs, z.length = es) →
      ∀ p ∈ splitShard sh ish zs, p.length = prod ish ∧ ∀ x ∈ p, x.length = es := by
    intro zs hzl hze p hp
    obtain ⟨h1, h2⟩ := splitShard_piece ht zs hzl p hp
    exact ⟨h1, fun x hx => hze x (h2 x hx)⟩
  have hcd := hhold.decode hR1 (hpv ys hyl hye)
  -- the index the encoder works from, and what the handle serves
  have hfound : ∃ idx, shardIndexPD cfg true sh ish (bStack b2b (v0.map (encB b2b))) =
        some (if v0.isSome then some idx else none) ∧
      (v0.isSome = false → idx = List.replicate (prod (zipDiv sh ish)) (sentinel, sentinel)) ∧
      currentIndex cfg' v0 = some idx ∧
      PEOld idx chunks (bStack b2b (v0.map (encB b2b))) (prod (zipDiv sh ish)) := by
    cases v0 with
    | none =>
      have hc : chunks = List.replicate cfg'.nChunks none := hst
      have hh : BHandleAbsent (bStack b2b none) := bChain_absent b2b _ storeHandle_none_absent
      refine ⟨List.replicate (prod (zipDiv sh ish)) (sentinel, sentinel), ?_, fun _ => rfl, ?_, ?_⟩
      · exact shardIndexPD_absent cfg true ht hh
      · simp only [currentIndex, hn']
      · rw [hc, hn']; exact peOld_absent _ hh _
    | some d =>
      obtain ⟨hdec, hwf, _⟩ : decode cfg' true d = .ok chunks ∧ wellFormed cfg' d = true ∧ tight cfg' d = true := hst
      have hh : BHandleOk (bStack b2b (some (encB b2b d))) d :=
        bChain_ok b2b hB d _ (storeHandle_some_ok _)
      simp only [Option.getD_some] at hsmall
      obtain ⟨idx, ib, hib, hdi, hcur, _, hO⟩ := peOld_present cfg' _ d chunks hh hdec hwf (by omega)
      refine ⟨idx, ?_, fun h => (by cases h), hcur, (by rw [← hn']; exact hO)⟩
      rw [← shardIndexPD_cfg cfg (prod (zipDiv sh ish)), hcfg]
      exact shardIndexPD_legal cfg' true ht hn' d ib hh hib hdi
  obtain ⟨idx, hipd, hidx0, hcur, hO⟩ := hfound
  have hentries : (if v0.isSome then some idx else none : Option (List (Nat × Nat))).getD
      (List.replicate (prod (zipDiv sh ish)) (sentinel, sentinel)) = idx := by
    cases hs : v0.isSome with
    | true => simp
    | false => simp [hidx0 hs]
  -- the element level
  obtain ⟨st, hel, hstl, hstc⟩ := shardPEElems_spec ht es fill hfill idx chunks (inner.decode ish fill)
    (inner.encode ish fill) _ ys hyl hO hcd ws hws
  have hnewl := applyRegionWrites_length sh es ws ys hyl hws
  have hnewe : ∀ z ∈ applyRegionWrites sh ys ws, z.length = es :=
    applyRegionWrites_elems sh es ws ys hyl hye hws
  -- the entries of the map are pieces of the new chunk
  have hpiece : ∀ i, i < prod (zipDiv sh ish) →
      match st.getD i none with
      | some x => (splitShard sh ish (applyRegionWrites sh ys ws))[i]? = some x
      | none => (splitShard sh ish (applyRegionWrites sh ys ws))[i]? = (splitShard sh ish ys)[i]? := by
    intro i hi
    have hc := C09.unravel_inB i _ hi
    have hr := C09.ravel_unravel i _ hi
    have := hstc _ hc
    rw [hr] at this
    have h1 := splitShard_getElem? sh ish (applyRegionWrites sh ys ws) _ hc
    have h2 := splitShard_getElem? sh ish ys _ hc
    rw [hr] at h1 h2
    cases hs : st.getD i none with
    | some x => rw [hs] at this; simp only at this ⊢; rw [h1, this]; rfl
    | none => rw [hs] at this; simp only at this ⊢; rw [h1, h2]; exact congrArg some this
  have hx : ∀ i x, st.getD i none = some x → x.length = prod ish ∧ ∀ e ∈ x, e.length = es := by
    intro i x hs
    have hi : i < prod (zipDiv sh ish) := by
      rw [← hstl]
      rcases Nat.lt_or_ge i st.length with h | h
      · exact h
      · simp [List.getD_eq_getElem?_getD, List.getElem?_eq_none h] at hs
    have := hpiece i hi
    rw [hs] at this
    exact hpv _ hnewl hnewe x (List.mem_of_getElem? this)
  -- the updates
  have hkeys := peEncode_keys fill (inner.encode ish fill) st
  have hu : (∀ u ∈ peEncode fill (inner.encode ish fill) st, u.1 < prod (zipDiv sh ish)) ∧
      ((peEncode fill (inner.encode ish fill) st).map (·.1)).Nodup :=
    ⟨fun u hu => by rw [← hstl]; exact hkeys.2 u hu, hkeys.1⟩
  have hsz := peEncode_size fill (inner.encode ish fill) st M (fun i x hs => hM x (hx i x hs).1 (hx i x hs).2)
  rw [hstl] at hsz
  obtain ⟨v0pre, hstpre, hprel, hrunp⟩ := hrun idx _ hcur hu
  obtain ⟨vo', hpe, hst', hlen'⟩ := step_inv cfg' v0pre chunks _ hstpre (by rw [hn']; exact hu) (by omega)
  refine ⟨vo', applyUpdates chunks (peEncode fill (inner.encode ish fill) st), ?_, hst', ?_, ?_, by omega⟩
  · unfold shardPE shardPEWith
    simp only [chunksPerShard_of_tiles ht, hipd, hentries]
    have hel' : shardPEElemsWith straddles es fill sh ish (zipDiv sh ish) idx (inner.decode ish fill)
        (inner.encode ish fill) (bStack b2b (Option.map (encB b2b) v0)) ws =
        some (peEncode fill (inner.encode ish fill) st) := hel
    simp only [hel', hcfg, hrunp, hpe, Option.map_some]
  · -- the new stored chunks hold the new pieces
    have hcl : chunks.length = prod (zipDiv sh ish) := hO.clen
    refine ⟨by rw [applyUpdates_length, hcl, splitShard_length], ?_⟩
    intro i h1' h2
    have h1 : i < prod (zipDiv sh ish) := by rw [applyUpdates_length, hcl] at h1'; exact h1'
    have hp := hpiece i h1
    have hget : (splitShard sh ish (applyRegionWrites sh ys ws))[i]? =
        some (splitShard sh ish (applyRegionWrites sh ys ws))[i] := List.getElem?_eq_getElem h2
    cases hs : st.getD i none with
    | some x =>
      rw [hs] at hp
      simp only at hp
      rw [hget] at hp
      have hxe := Option.some.inj hp
      have hm := (peEncode_mem fill (inner.encode ish fill) st i _).mpr ⟨by rw [hstl]; exact h1, x, hs, rfl⟩
      have hset : (applyUpdates chunks (peEncode fill (inner.encode ish fill) st))[i]? = some _ :=
        setAll_mem chunks _ hu.2 i _ hm (by rw [hcl]; exact h1)
      have hset' : (applyUpdates chunks (peEncode fill (inner.encode ish fill) st))[i] =
          (if x.all (· == fill) then none else some (inner.encode ish fill x)) :=
        (List.getElem?_eq_some_iff.mp hset).2
      rw [hset', hxe]
      by_cases hall : x.all (· == fill) = true
      · rw [if_pos hall]
        exact (all_fill_iff_replicate fill x _ (hx i x hs).1).mp hall
      · rw [if_neg hall]
        exact ⟨fun h => hall ((all_fill_iff_replicate fill x _ (hx i x hs).1).mpr h),
          hR2 x (hx i x hs).1 (hx i x hs).2⟩
    | none =>
      rw [hs] at hp
      simp only at hp
      have hnk : i ∉ (peEncode fill (inner.encode ish fill) st).map (·.1) := by
        intro hk
        obtain ⟨x, hx'⟩ := (peEncode_key_iff fill _ st i (by rw [hstl]; exact h1)).mp hk
        rw [hs] at hx'; cases hx'
      have hun := applyUpdates_untouched chunks _ i hnk
      have h1c : i < chunks.length := by rw [hcl]; exact h1
      have h2o : i < (splitShard sh ish ys).length := by rw [splitShard_length]; exact h1
      have hold := hhold.2 i h1c h2o
      have e1 : (applyUpdates chunks (peEncode fill (inner.encode ish fill) st))[i] = chunks[i] := by
        rw [List.getElem?_eq_getElem h1c] at hun
        exact (List.getElem?_eq_some_iff.mp hun).2
      have e2 : (splitShard sh ish (applyRegionWrites sh ys ws))[i] = (splitShard sh ish ys)[i] := by
        rw [hget, List.getElem?_eq_getElem h2o] at hp
        exact Option.some.inj hp
      rw [e1, e2]
      exact hold
  · constructor
    · intro hv
      subst hv
      have hc : applyUpdates chunks (peEncode fill (inner.encode ish fill) st) =
          List.replicate cfg'.nChunks none := hst'
      rw [hc]
      intro ch hch
      exact List.eq_of_mem_replicate hch
    · intro hall
      cases hv : vo' with
      | none => rfl
      | some v' =>
        rw [hv] at hpe
        obtain ⟨ch, hch, hne⟩ := partialEncode_some_live cfg' v0pre chunks _ hstpre (by rw [hn']; exact hu)
          (by omega) v' hpe
        exact absurd (hall ch hch) hne

end Zarrs.Partial
