import ZarrsModel.Model.FixedScaleOffset
/- helper lemmas for the `fixedscaleoffset` theorems of C03 (Props/C03Fso.lean) -/
set_option Elab.async false
namespace Zarrs.Fso

/-! ### floor, rounding of integers -/

theorem floor_spec (y : Rat) (f : Int) : y.floor = f ↔ (f : Rat) ≤ y ∧ y < (f : Rat) + 1 := by
  constructor
  · intro h; subst h
    refine ⟨Rat.floor_le y, ?_⟩
    have := Rat.lt_floor_add_one y
    rw [Rat.intCast_add] at this; simpa using this
  · intro ⟨h1, h2⟩
    have a := Rat.le_floor_iff.mpr h1
    have h2' : y < ((f + 1 : Int) : Rat) := by rw [Rat.intCast_add]; simpa using h2
    have b := Rat.floor_lt_iff.mpr h2'
    omega

theorem floor_int_add_half (k : Int) : ((k : Rat) + 1 / 2).floor = k := by
  rw [floor_spec]; grind

theorem roundHalfAway_intCast (k : Int) : roundHalfAway (k : Rat) = k := by
  unfold roundHalfAway
  split
  · exact floor_int_add_half k
  · rw [← Rat.intCast_neg, floor_int_add_half]; omega

theorem trunc_intCast (k : Int) : trunc (k : Rat) = k := by
  unfold trunc
  split
  · exact Rat.floor_intCast k
  · rw [← Rat.intCast_neg, Rat.floor_intCast]; omega

theorem roundHalfEven_intCast (k : Int) : roundHalfEven (k : Rat) = k := by
  unfold roundHalfEven
  simp only [Rat.floor_intCast]
  have : (k : Rat) - (k : Rat) < 1/2 := by grind
  simp [this]

/-! ### the nearest integer (ties away from zero) -/

/-- the nearest integer is within one half -/
theorem roundHalfAway_near (y : Rat) :
    -(1 / 2) ≤ (roundHalfAway y : Rat) - y ∧ (roundHalfAway y : Rat) - y ≤ 1 / 2 := by
  unfold roundHalfAway
  split
  · have := (floor_spec (y + 1/2) _).mp rfl
    grind
  · have := (floor_spec (-y + 1/2) _).mp rfl
    rw [Rat.intCast_neg]
    grind

/-- the distance one half is reached exactly at the ties -/
theorem roundHalfAway_tie_iff (y : Rat) :
    ((roundHalfAway y : Rat) - y = 1 / 2 ∨ (roundHalfAway y : Rat) - y = -(1 / 2)) ↔ isTie y := by
  unfold isTie roundHalfAway
  have hf := (floor_spec y _).mp rfl
  split
  · have h1 := (floor_spec (y + 1/2) _).mp rfl
    constructor
    · intro h
      have : y.floor = (y + 1/2).floor - 1 := by
        rw [floor_spec]; rw [Rat.intCast_sub]; simp only [Rat.intCast_one]; grind
      rw [this, Rat.intCast_sub]; simp only [Rat.intCast_one]; grind
    · intro h
      have : (y + 1/2).floor = y.floor + 1 := by
        rw [floor_spec]; rw [Rat.intCast_add]; simp only [Rat.intCast_one]; grind
      rw [this, Rat.intCast_add]; simp only [Rat.intCast_one]; grind
  · have h1 := (floor_spec (-y + 1/2) _).mp rfl
    rw [Rat.intCast_neg]
    constructor
    · intro h
      have : y.floor = -(-y + 1/2).floor := by
        rw [floor_spec]; rw [Rat.intCast_neg]; grind
      rw [this, Rat.intCast_neg]; grind
    · intro h
      have : (-y + 1/2).floor = -y.floor := by
        rw [floor_spec]; rw [Rat.intCast_neg]; grind
      rw [this, Rat.intCast_neg]; grind

/-- ties go away from zero -/
theorem roundHalfAway_tie_away (y : Rat) (h : isTie y) :
    (0 ≤ y → (roundHalfAway y : Rat) = y + 1 / 2) ∧ (y < 0 → (roundHalfAway y : Rat) = y - 1 / 2) := by
  have hn := roundHalfAway_near y
  have ht := (roundHalfAway_tie_iff y).mpr h
  unfold isTie at h
  unfold roundHalfAway at *
  constructor
  · intro h0
    rw [if_pos h0] at *
    have h1 := (floor_spec (y + 1/2) _).mp rfl
    grind
  · intro h0
    have h0' : ¬ (0 ≤ y) := Rat.not_le.mpr h0
    rw [if_neg h0'] at *
    have h1 := (floor_spec (-y + 1/2) _).mp rfl
    rw [Rat.intCast_neg] at *
    grind

theorem abs_le_of (a b : Rat) (h1 : -b ≤ a) (h2 : a ≤ b) : a.abs ≤ b := by
  unfold Rat.abs; split <;> grind

theorem abs_eq_iff (a b : Rat) (hb : 0 < b) : a.abs = b ↔ (a = b ∨ a = -b) := by
  unfold Rat.abs; split <;> grind

/-! ### `rnd`: integers of fewer than `p` bits are exactly representable -/

theorem ilog2_le (q : Rat) : ilog2 q ≤ (Nat.log2 q.num.natAbs : Int) - (Nat.log2 q.den : Int) := by
  simp only [ilog2]
  split <;> omega

theorem ilog2_intCast_lt (k : Int) (p : Nat) (hk : k ≠ 0) (h : k.natAbs < 2 ^ p) : ilog2 (k : Rat) < p := by
  have h0 : k.natAbs ≠ 0 := by omega
  have h1 : Nat.log2 k.natAbs < p := (Nat.log2_lt h0).mpr h
  have := ilog2_le (k : Rat)
  simp only [Rat.num_intCast, Rat.den_intCast] at this
  have h2 : Nat.log2 1 = 0 := by decide
  omega

/-- a value that is an integer multiple of its own unit in the last place is left alone -/
theorem rnd_of_quot_int (p : Nat) (q : Rat) (j : Int)
    (h : q / (2 : Rat) ^ (ilog2 q - ((p : Int) - 1)) = j) : rnd p q = q := by
  unfold rnd
  split
  · rename_i h0; exact h0.symm
  · simp only [h, roundHalfEven_intCast]
    have hu : (0 : Rat) < (2 : Rat) ^ (ilog2 q - ((p : Int) - 1)) := Rat.zpow_pos (by decide)
    rw [← h]
    exact Rat.div_mul_cancel (Rat.ne_of_gt hu)

theorem rnd_intCast_natAbs (p : Nat) (k : Int) (h : k.natAbs < 2 ^ p) : rnd p (k : Rat) = k := by
  by_cases hk : k = 0
  · subst hk; simp [rnd]
  · have he := ilog2_intCast_lt k p hk h
    generalize hz : ilog2 (k : Rat) - ((p : Int) - 1) = z at *
    have hz0 : z ≤ 0 := by omega
    obtain ⟨m, hm⟩ : ∃ m : Nat, z = -(m : Int) := ⟨(-z).toNat, by omega⟩
    apply rnd_of_quot_int p (k : Rat) (k * 2 ^ m)
    rw [hz, hm, Rat.zpow_neg, Rat.zpow_natCast]
    have ht : (0 : Rat) < (2 : Rat) ^ m := Rat.pow_pos (by decide)
    rw [Rat.intCast_mul, Rat.intCast_pow]
    have h2 : ((2 : Int) : Rat) = 2 := by simp
    rw [h2]
    generalize (2 : Rat) ^ m = t at *
    grind

/-- **integers below `2^p` in magnitude are exactly representable with `p` significant bits** (`2^24` for `f32`,
`2^53` for `f64`) -/
theorem rnd_intCast (p : Nat) (k : Int) (h1 : -(2 : Int) ^ p < k) (h2 : k < (2 : Int) ^ p) :
    rnd p (k : Rat) = k := by
  apply rnd_intCast_natAbs
  have : ((2 ^ p : Nat) : Int) = (2 : Int) ^ p := by simp
  omega

theorem rep_intCast (p : Nat) (k : Int) (h1 : -(2 : Int) ^ p < k) (h2 : k < (2 : Int) ^ p) : Rep p (k : Rat) :=
  rnd_intCast p k h1 h2

/-- more significant bits only help -/
theorem rnd_intCast_mono (p p' : Nat) (hp : p ≤ p') (k : Int) (h1 : -(2 : Int) ^ p < k) (h2 : k < (2 : Int) ^ p) :
    rnd p' (k : Rat) = k := by
  have : (2 : Int) ^ p ≤ (2 : Int) ^ p' := by
    have h := Nat.pow_le_pow_right (n := 2) (by decide) hp
    have e1 : ((2 ^ p : Nat) : Int) = (2 : Int) ^ p := by simp
    have e2 : ((2 ^ p' : Nat) : Int) = (2 : Int) ^ p' := by simp
    omega
  exact rnd_intCast p' k (by omega) (by omega)

/-! ### saturation -/

theorem Ty.lo_nonpos (T : Ty) : T.lo ≤ 0 := by
  unfold Ty.lo
  split
  · rename_i b
    have : (0 : Int) < 2 ^ (b - 1) := Int.pow_pos (by decide)
    omega
  · omega

theorem Ty.hi_nonneg (T : Ty) : 0 ≤ T.hi := by
  unfold Ty.hi
  split
  · rename_i b
    have : (0 : Int) < 2 ^ (b - 1) := Int.pow_pos (by decide)
    omega
  · rename_i b
    have : (0 : Int) < 2 ^ b := Int.pow_pos (by decide)
    omega
  · omega

theorem truncSat_intCast (lo hi k : Int) : truncSat lo hi (k : Rat) = clamp lo hi k := by
  unfold truncSat; rw [trunc_intCast]

theorem clamp_of_mem (lo hi v : Int) (h1 : lo ≤ v) (h2 : v ≤ hi) : clamp lo hi v = v := by
  unfold clamp; split
  · omega
  · split <;> omega

theorem clamp_mem (lo hi v : Int) (h : lo ≤ hi) : lo ≤ clamp lo hi v ∧ clamp lo hi v ≤ hi := by
  unfold clamp; split
  · omega
  · split <;> omega

/-- saturation at bounds around zero moves a value toward zero, never across it -/
theorem clamp_toward_zero (lo hi v : Int) (hl : lo ≤ 0) (hh : 0 ≤ hi) :
    (0 ≤ v → 0 ≤ clamp lo hi v ∧ clamp lo hi v ≤ v) ∧ (v ≤ 0 → v ≤ clamp lo hi v ∧ clamp lo hi v ≤ 0) := by
  unfold clamp; split
  · omega
  · split <;> omega

theorem clamp_eq_self_iff (lo hi v : Int) : clamp lo hi v = v ↔ lo ≤ v ∧ v ≤ hi := by
  unfold clamp; split
  · omega
  · split <;> omega

/-! ### the code path under the exactness predicates -/

theorem castElem_exact (S D : Ty) (n : Int) (h : castExact S D n = true) : castElem S D (n : Rat) = n := by
  unfold castExact at h
  simp only [Bool.and_eq_true] at h
  obtain ⟨hS, hD⟩ := h
  have e1 : toF64 S (n : Rat) = n := by
    cases S with
    | int s b => simp only [decide_eq_true_eq] at hS; exact hS
    | flt b => rfl
    | unsupported => rfl
  unfold castElem
  rw [e1]
  cases D with
  | int s b =>
    simp only [Bool.and_eq_true, decide_eq_true_eq] at hD
    simp only [fromF64, truncSat_intCast, clamp_of_mem _ _ _ hD.1 hD.2]
  | flt b =>
    simp only [fromF64]
    split
    · rename_i hb; simp only [hb, if_true, decide_eq_true_eq] at hD; exact hD
    · rfl
  | unsupported => rfl

theorem scaleElem_exact (T : Ty) (off sc x : Rat)
    (hx : match T with | .int _ _ => Rep T.prec x | _ => True)
    (h1 : Rep T.prec (x - off)) (h2 : Rep T.prec ((x - off) * sc))
    (hr : match T with | .int _ _ => T.lo ≤ encodeQ off sc x ∧ encodeQ off sc x ≤ T.hi | _ => True) :
    scaleElem T off sc x = (encodeQ off sc x : Rat) := by
  have e0 : toF T x = x := by
    cases T with
    | int s b => exact hx
    | flt b => rfl
    | unsupported => rfl
  unfold scaleElem
  simp only [e0]
  rw [h1, h2]
  cases T with
  | int s b =>
    simp only [fromF, truncSat_intCast]
    have hr' : (Ty.int s b).lo ≤ encodeQ off sc x ∧ encodeQ off sc x ≤ (Ty.int s b).hi := hr
    show ((clamp (Ty.int s b).lo (Ty.int s b).hi (encodeQ off sc x) : Int) : Rat) = _
    rw [clamp_of_mem _ _ _ hr'.1 hr'.2]
  | flt b => rfl
  | unsupported => rfl

theorem unscaleElem_exact (T : Ty) (off sc : Rat) (n : Int)
    (hx : match T with | .int _ _ => Rep T.prec n | _ => True)
    (h1 : Rep T.prec ((n : Rat) / sc)) (h2 : Rep T.prec ((n : Rat) / sc + off)) :
    unscaleElem T off sc n = fromF T (decodeQ off sc n) := by
  have e0 : toF T (n : Rat) = n := by
    cases T with
    | int s b => exact hx
    | flt b => rfl
    | unsupported => rfl
  unfold unscaleElem decodeQ
  simp only [e0]
  rw [h1, h2]

theorem encodeElem_exact (c : Cfg) (x : Rat) (h : encExact c x = true) :
    encodeElem c x = (encodeQ c.off c.sc x : Rat) := by
  obtain ⟨off, sc, T, A⟩ := c
  unfold encExact at h
  simp only [Bool.and_eq_true, decide_eq_true_eq] at h
  obtain ⟨⟨⟨⟨hx, h1⟩, h2⟩, hr⟩, ha⟩ := h
  have hs : scaleElem T off sc x = (encodeQ off sc x : Rat) := by
    cases T with
    | int s b =>
      simp only [Bool.and_eq_true, decide_eq_true_eq] at hx hr
      exact scaleElem_exact _ _ _ _ hx h1 h2 hr
    | flt b => exact scaleElem_exact _ _ _ _ trivial h1 h2 trivial
    | unsupported => exact scaleElem_exact _ _ _ _ trivial h1 h2 trivial
  unfold encodeElem
  simp only [hs]
  cases A with
  | none => rfl
  | some A => exact castElem_exact _ _ _ ha

theorem decodeElem_exact (c : Cfg) (n : Int) (h : decExact c n = true) :
    decodeElem c (n : Rat) = fromF c.dtype (decodeQ c.off c.sc n) := by
  obtain ⟨off, sc, T, A⟩ := c
  unfold decExact at h
  simp only [Bool.and_eq_true, decide_eq_true_eq] at h
  obtain ⟨⟨⟨ha, hx⟩, h1⟩, h2⟩ := h
  have hy : decodeElem ⟨off, sc, T, A⟩ (n : Rat) = unscaleElem T off sc (n : Rat) := by
    cases A with
    | none => rfl
    | some A =>
      simp only [decodeElem]
      rw [castElem_exact _ _ _ ha]
  rw [hy]
  cases T with
  | int s b =>
    simp only [decide_eq_true_eq] at hx
    exact unscaleElem_exact _ _ _ _ hx h1 h2
  | flt b => exact unscaleElem_exact _ _ _ _ trivial h1 h2
  | unsupported => exact unscaleElem_exact _ _ _ _ trivial h1 h2

/-! ### integer element types, scale 1 -/

theorem prec_le_53 (T : Ty) : T.prec ≤ 53 := by
  unfold Ty.prec; split
  · split <;> omega
  · split <;> omega
  · omega

theorem scaleElem_int_scale1 (s : Bool) (b : Nat) (o k : Int)
    (h1 : -(2 : Int) ^ (Ty.int s b).prec < k) (h2 : k < (2 : Int) ^ (Ty.int s b).prec)
    (h3 : -(2 : Int) ^ (Ty.int s b).prec < k - o) (h4 : k - o < (2 : Int) ^ (Ty.int s b).prec) :
    scaleElem (.int s b) (o : Rat) 1 (k : Rat) = (satT (.int s b) (k - o) : Int) := by
  unfold scaleElem toF fromF satT
  simp only [rnd_intCast _ k h1 h2, ← Rat.intCast_sub, rnd_intCast _ (k - o) h3 h4, Rat.mul_one,
    roundHalfAway_intCast, truncSat_intCast]

theorem unscaleElem_int_scale1 (s : Bool) (b : Nat) (o k : Int)
    (h1 : -(2 : Int) ^ (Ty.int s b).prec < k) (h2 : k < (2 : Int) ^ (Ty.int s b).prec)
    (h3 : -(2 : Int) ^ (Ty.int s b).prec < k + o) (h4 : k + o < (2 : Int) ^ (Ty.int s b).prec) :
    unscaleElem (.int s b) (o : Rat) 1 (k : Rat) = (satT (.int s b) (k + o) : Int) := by
  unfold unscaleElem toF fromF satT
  have : ((k : Rat) / 1) = k := by grind
  simp only [rnd_intCast _ k h1 h2, this, ← Rat.intCast_add, rnd_intCast _ (k + o) h3 h4, truncSat_intCast]

theorem castElem_int (s : Bool) (b : Nat) (s' : Bool) (b' : Nat) (k : Int)
    (h1 : -(2 : Int) ^ 53 < k) (h2 : k < (2 : Int) ^ 53) :
    castElem (.int s b) (.int s' b') (k : Rat) = (satT (.int s' b') k : Int) := by
  unfold castElem toF64 fromF64 satT
  simp only [rnd_intCast _ k h1 h2, truncSat_intCast]

/-! ### chains of saturations -/

/-- `m` lies between zero and `v` -/
def Tow (v m : Int) : Prop := (0 ≤ v → 0 ≤ m ∧ m ≤ v) ∧ (v ≤ 0 → v ≤ m ∧ m ≤ 0)

theorem Tow.refl (v : Int) : Tow v v := by unfold Tow; omega
theorem Tow.trans {v m m' : Int} (h1 : Tow v m) (h2 : Tow m m') : Tow v m' := by unfold Tow at *; omega
theorem tow_satT (T : Ty) (v : Int) : Tow v (satT T v) :=
  clamp_toward_zero _ _ v (Ty.lo_nonpos T) (Ty.hi_nonneg T)
theorem Tow.bound {v m B : Int} (h : Tow v m) (h1 : -B < v) (h2 : v < B) : -B < m ∧ m < B := by
  unfold Tow at h; omega
theorem Tow.bound_add {x o m B : Int} (h : Tow (x - o) m) (hx : -B < x ∧ x < B) (ho : -B < o ∧ o < B) :
    -B < m + o ∧ m + o < B := by
  unfold Tow at h; omega

/-! ### further helpers of Props/C03Fso.lean -/

theorem tow_satA (A : Option (Bool × Nat)) (v : Int) : Tow v (satA A v) := by
  cases A with
  | none => exact Tow.refl v
  | some a => exact tow_satT _ v

theorem encodeElem_inTy (c : Cfg) (x : Rat) : inTy (encodedDataType c c.dtype) (encodeElem c x) := by
  obtain ⟨off, sc, T, A⟩ := c
  cases A with
  | some A =>
    cases A with
    | int s b =>
      simp only [encodedDataType, Option.getD, encodeElem, castElem, fromF64, inTy]
      exact ⟨_, rfl, clamp_mem _ _ _ (by have := Ty.lo_nonpos (Ty.int s b); have := Ty.hi_nonneg (Ty.int s b); omega)⟩
    | flt b => trivial
    | unsupported => trivial
  | none =>
    cases T with
    | int s b =>
      simp only [encodedDataType, Option.getD, encodeElem, scaleElem, fromF, inTy]
      exact ⟨_, rfl, clamp_mem _ _ _ (by have := Ty.lo_nonpos (Ty.int s b); have := Ty.hi_nonneg (Ty.int s b); omega)⟩
    | flt b => trivial
    | unsupported => trivial

theorem decodeQ_sub (off sc x : Rat) (hs : 0 < sc) :
    decodeQ off sc (encodeQ off sc x) - x = ((encodeQ off sc x : Rat) - (x - off) * sc) / sc := by
  unfold decodeQ
  have : sc ≠ 0 := Rat.ne_of_gt hs
  grind

end Zarrs.Fso
