import ZarrsModel.Lemmas.ArrayInv
set_option linter.unusedSectionVars false
/- helper lemmas for C01/C04, part 5: multi-chunk writes and erases -/
namespace Zarrs
open Subset

theorem Subset.beq_iff (a b : Subset) : (a == b) = true ↔ a = b := by
  cases a with | mk s1 h1 =>
  cases b with | mk s2 h2 =>
  show ((s1 == s2) && (h1 == h2)) = true ↔ _
  simp

/-! ### more index arithmetic -/

theorem zipSub_chain (i a o : List Nat) (h1 : allLe o a = true) (h2 : allLe a i = true)
    (hl : i.length = a.length) (hl2 : a.length = o.length) :
    addIdx (zipSub i a) (zipSub a o) = zipSub i o := by
  induction i generalizing a o with
  | nil => simp [zipSub, addIdx]
  | cons x xs ih =>
    cases a with
    | nil => simp at hl
    | cons y ys =>
      cases o with
      | nil => simp at hl2
      | cons z zs =>
        simp only [List.length_cons, Nat.add_right_cancel_iff] at hl hl2
        simp only [allLe, Bool.and_eq_true, decide_eq_true_eq] at h1 h2
        simp only [zipSub, addIdx, ih ys zs h1.2 h2.2 hl hl2, List.cons.injEq, and_true]
        omega

theorem zipSub_shift (j a o : List Nat) (h : allLe o a = true) :
    zipSub j (zipSub a o) = zipSub (addIdx j o) a := by
  induction j generalizing a o with
  | nil => simp [zipSub, addIdx]
  | cons x xs ih =>
    cases a with
    | nil => cases o <;> simp [zipSub, addIdx]
    | cons y ys =>
      cases o with
      | nil => simp [zipSub, addIdx]
      | cons z zs =>
        simp only [allLe, Bool.and_eq_true, decide_eq_true_eq] at h
        simp only [zipSub, addIdx, ih ys zs h.2, List.cons.injEq, and_true]
        omega

theorem zipSub_addIdx_cancel_left (o s : List Nat) (h : s.length ≤ o.length) : zipSub (addIdx o s) o = s := by
  induction o generalizing s with
  | nil => cases s <;> simp_all [addIdx, zipSub]
  | cons x xs ih =>
    cases s with
    | nil => simp [addIdx, zipSub]
    | cons y ys =>
      simp only [List.length_cons, Nat.add_le_add_iff_right] at h
      simp [addIdx, zipSub, ih ys h]

theorem prod_eq_one (sh : List Nat) (h : prod sh = 1) : ∀ x ∈ sh, x = 1 := by
  induction sh with
  | nil => simp
  | cons n ns ih =>
    simp only [prod_cons] at h
    intro x hx
    simp only [List.mem_cons] at hx
    rcases hx with rfl | hx
    · exact Nat.eq_one_of_mul_eq_one_right h
    · exact ih (Nat.eq_one_of_mul_eq_one_left h) x hx

theorem ones_end (st sh : List Nat) (h : ∀ x ∈ sh, x = 1) (hl : st.length = sh.length) :
    (addIdx st sh).map (· - 1) = st := by
  induction st generalizing sh with
  | nil => simp [addIdx]
  | cons o os ih =>
    cases sh with
    | nil => simp at hl
    | cons n ns =>
      simp only [List.mem_cons, forall_eq_or_imp] at h
      simp only [List.length_cons, Nat.add_right_cancel_iff] at hl
      simp only [addIdx, List.map_cons, ih ns h.2 hl, List.cons.injEq, and_true]
      omega

theorem mem_ones (c st sh : List Nat) (h : ∀ x ∈ sh, x = 1) (hm : mem c st sh = true) : c = st := by
  induction c generalizing st sh with
  | nil => cases st <;> cases sh <;> simp_all [mem]
  | cons x xs ih =>
    cases st with
    | nil => simp [mem] at hm
    | cons o os =>
      cases sh with
      | nil => simp [mem] at hm
      | cons n ns =>
        simp only [List.mem_cons, forall_eq_or_imp] at h
        simp only [mem, Bool.and_eq_true, decide_eq_true_eq] at hm
        rw [ih os ns h.2 hm.2]
        congr 1; omega

theorem ones_nonempty (sh : List Nat) (h : ∀ x ∈ sh, x = 1) : sh.any (· == 0) = false := by
  induction sh with
  | nil => rfl
  | cons n ns ih =>
    simp only [List.mem_cons, forall_eq_or_imp] at h
    simp [h.1, ih h.2]

theorem Subset.ofStartEndExc_self (cs : Subset) (h : cs.wf = true) :
    Subset.ofStartEndExc cs.start cs.endExc = cs := by
  simp only [Subset.wf, beq_iff_eq] at h
  cases cs with
  | mk o s =>
    simp only [Subset.ofStartEndExc, Subset.endExc] at h ⊢
    rw [zipSub_addIdx_cancel_left o s (by omega)]

theorem Subset.empty_indices (b : Subset) (he : b.isEmpty = true) : b.indices = [] := by
  apply List.eq_nil_of_length_eq_zero
  rw [Subset.indices_length, Subset.numElements]
  exact (prod_eq_zero_iff _).mpr he

theorem Subset.isEmpty_of_numElements_zero (b : Subset) (h : b.numElements = 0) : b.isEmpty = true :=
  (prod_eq_zero_iff _).mp h

theorem Subset.nonempty_of_contains (b : Subset) (i : Idx) (h : b.contains i = true) : b.isEmpty = false := by
  cases he : b.isEmpty with
  | false => rfl
  | true =>
    have := mem_of_any_zero i b.start b.shape he
    simp only [Subset.contains] at h
    rw [h] at this; cases this

theorem Subset.rank_pos_of_empty (b : Subset) (hb : b.wf = true) (he : b.isEmpty = true) : 0 < b.rank := by
  simp only [Subset.wf, beq_iff_eq] at hb
  simp only [Subset.isEmpty] at he
  simp only [Subset.rank, hb]
  cases hs : b.shape with
  | nil => rw [hs] at he; simp at he
  | cons _ _ => simp

theorem newEmpty_contains (k : Nat) (hk : 0 < k) (i : Idx) : (Subset.newEmpty k).contains i = false := by
  apply mem_of_any_zero
  cases k with
  | zero => omega
  | succ n => simp [Subset.newEmpty, List.replicate_succ]

theorem newEmpty_numElements (k : Nat) (hk : 0 < k) : (Subset.newEmpty k).numElements = 0 :=
  prod_replicate_zero k hk

theorem newEmpty_indices (k : Nat) (hk : 0 < k) : (Subset.newEmpty k).indices = [] := by
  apply List.eq_nil_of_length_eq_zero
  rw [Subset.indices_length, newEmpty_numElements k hk]

/-! ### pieces of a larger buffer -/

/-- the piece of `data` (laid out over `b`) that belongs to a sub-box `a` -/
theorem piece_spec {α} (a b : Subset) (ha : a.wf = true) (hb : b.wf = true) (hr : a.rank = b.rank)
    (hne : a.isEmpty = false) (hsub : ∀ i, a.contains i = true → b.contains i = true)
    (data : List α) (hlen : data.length = b.numElements) :
    ((a.relativeTo b.start).extract b.shape data).length = a.numElements ∧
    ∀ i, a.contains i = true →
      ((a.relativeTo b.start).extract b.shape data)[ravel (zipSub i a.start) a.shape]? =
        data[ravel (zipSub i b.start) b.shape]? := by
  obtain ⟨hw, hin, _, hle⟩ := Subset.rel_facts a b ha hb hr hne hsub
  obtain ⟨h1, h2⟩ := extract_spec (a.relativeTo b.start) b.shape data hw hin hlen
  refine ⟨h1, ?_⟩
  intro i hi
  have hj := (mem_zipSub i a.start a.shape hi).1
  refine (h2 (zipSub i a.start) hj).trans ?_
  show data[ravel (addIdx (zipSub i a.start) (zipSub a.start b.start)) b.shape]? = _
  simp only [Subset.rank] at hr
  rw [zipSub_chain i a.start b.start hle (allLe_of_mem i a.start a.shape hi) (mem_length hi).1 hr]

/-- one step of a multi-chunk read: paste the elements of a sub-box `sub` of `R` into the output -/
theorem updateRuns_read_step {α} (a : AArr α) (R sub : Subset) (hR : R.wf = true) (hs : sub.wf = true)
    (hr : sub.rank = R.rank) (hne : sub.isEmpty = false)
    (hsub : ∀ i, sub.contains i = true → R.contains i = true)
    (out : List α) (hout : out.length = R.numElements) :
    (updateRuns R.shape (sub.relativeTo R.start) out (a.read sub)).length = R.numElements ∧
    ∀ j, inB j R.shape = true →
      (updateRuns R.shape (sub.relativeTo R.start) out (a.read sub))[ravel j R.shape]? =
        if sub.contains (addIdx j R.start) = true then some (a (addIdx j R.start)) else out[ravel j R.shape]? := by
  obtain ⟨hw, hin, _, hle⟩ := Subset.rel_facts sub R hs hR hr hne hsub
  obtain ⟨h1, h2⟩ := updateRuns_spec R.shape (sub.relativeTo R.start) out (a.read sub) hw hin hout
    (a.read_length sub)
  refine ⟨h1, ?_⟩
  intro j hj
  rw [h2 j hj]
  have hR' := hR
  simp only [Subset.wf, beq_iff_eq] at hR'
  have hjl : j.length = R.start.length := by rw [inB_length hj, hR']
  have hm : (sub.relativeTo R.start).contains j = sub.contains (addIdx j R.start) :=
    C09.relativeTo_mem sub R.start hs (by simpa [Subset.rank] using hr.symm)
      (zipUnderflow_of_allLe _ _ hle) j (by simp only [Subset.rank] at hr ⊢; omega)
  rw [hm]
  by_cases hc : sub.contains (addIdx j R.start) = true
  · rw [if_pos hc, if_pos hc]
    simp only [Subset.relativeTo]
    rw [zipSub_shift j sub.start R.start hle]
    exact a.read_getElem?_ravel sub _ hc
  · rw [if_neg hc, if_neg hc]

namespace ArrCfg
variable {α : Type} [DecidableEq α]
variable {cfg : ArrCfg α} {G : Shape}

/-! ### folds -/

theorem foldOpt_some_foldl {σ β} (f : σ → β → σ) (s : σ) (l : List β) :
    foldOpt (fun s b => some (f s b)) s l = some (l.foldl f s) := by
  induction l generalizing s with
  | nil => rfl
  | cons b bs ih => simp only [foldOpt, List.foldl_cons, ih]

theorem foldOpt_append {σ β} (f : σ → β → Option σ) (s : σ) (l1 l2 : List β) :
    foldOpt f s (l1 ++ l2) = match foldOpt f s l1 with
      | some s' => foldOpt f s' l2
      | none => none := by
  induction l1 generalizing s with
  | nil => rfl
  | cons b bs ih =>
    simp only [List.cons_append, foldOpt]
    cases f s b with
    | none => rfl
    | some s' => exact ih s'

/-- does index `i` lie in chunk `c`? -/
def inChunk (cfg : ArrCfg α) (c i : Idx) : Bool :=
  match cfg.chunkSubset c with
  | some cs => cs.contains i
  | none => false

theorem inChunk_of {c : Idx} {cs : Subset} (hcs : cfg.chunkSubset c = some cs) (i : Idx) :
    cfg.inChunk c i = cs.contains i := by
  simp [inChunk, hcs]

/-- a fold of per-chunk writes that all write the same value function -/
theorem foldOpt_inv (f : KV → Idx → Option KV) (P : Idx → Idx → Bool) (v : Idx → α) (L : List Idx)
    (hstep : ∀ c ∈ L, ∀ st a, Inv cfg G st a → ∃ st', f st c = some st' ∧ Inv cfg G st' (a.wr (P c) v)) :
    ∀ st a, Inv cfg G st a →
      ∃ st', foldOpt f st L = some st' ∧ Inv cfg G st' (a.wr (fun i => L.any (fun c => P c i)) v) := by
  induction L with
  | nil =>
    intro st a hinv
    refine ⟨st, rfl, ?_⟩
    simp only [List.any_nil, AArr.wr_false]
    exact hinv
  | cons c L ih =>
    intro st a hinv
    obtain ⟨st1, h1, hinv1⟩ := hstep c (by simp) st a hinv
    obtain ⟨st2, h2, hinv2⟩ := ih (fun c' hc' => hstep c' (by simp [hc'])) st1 _ hinv1
    refine ⟨st2, by simp only [foldOpt, h1, h2], ?_⟩
    rw [AArr.wr_wr] at hinv2
    simpa only [List.any_cons] using hinv2

/-! ### boxes of chunks -/

theorem chunksSubset_empty (b : Subset) (he : b.isEmpty = true) :
    cfg.grid.chunksSubset b = some (Subset.newEmpty b.rank) := by
  simp [Grid.chunksSubset, Subset.endInc, he]

theorem COk.chunksSubset_single (h : COk cfg G) (b : Subset) (hb : b.wf = true)
    (hbi : b.inboundsShape G = true) (h1 : b.numElements = 1) :
    inB b.start G = true ∧ ∃ cs, cfg.chunkSubset b.start = some cs ∧ cfg.grid.chunksSubset b = some cs := by
  have hones := prod_eq_one b.shape h1
  have hne := ones_nonempty b.shape hones
  have hb' := hb
  simp only [Subset.wf, beq_iff_eq] at hb'
  have hin : inB b.start G = true := box_inB hbi (mem_start b.start b.shape hb' hne)
  obtain ⟨cs, hcs, _, hwf, _, _⟩ := h.chunk_def b.start hin
  refine ⟨hin, cs, hcs, ?_⟩
  rw [chunkSubset_of_length (h.inB_length hin)] at hcs
  simp only [Grid.chunksSubset, Subset.endInc, Subset.isEmpty, hne, Bool.false_eq_true, if_false,
    ones_end b.start b.shape hones hb', hcs]
  rw [Subset.ofStartEndExc_self cs hwf]

/-! ### `storeChunks` -/

theorem storeChunks_step (h : COk cfg G) {st : KV} {a : AArr α} (hinv : Inv cfg G st a)
    (b : Subset) (hb : b.wf = true) (hbi : b.inboundsShape G = true) (region : Subset)
    (hreg : cfg.grid.chunksSubset b = some region) (d : List α) (hlen : d.length = region.numElements) :
    ∃ st', cfg.storeChunks st b d = some st' ∧ Inv cfg G st' (a.write region d cfg.fill) := by
  simp only [storeChunks]
  split
  · -- no chunks
    rename_i h0
    have he := b.isEmpty_of_numElements_zero h0
    have hpos := b.rank_pos_of_empty hb he
    rw [chunksSubset_empty b he] at hreg
    cases hreg
    rw [newEmpty_numElements _ hpos] at hlen
    have hd : d = [] := List.eq_nil_of_length_eq_zero hlen
    subst hd
    refine ⟨st, by simp, ?_⟩
    have : a.write (Subset.newEmpty b.rank) [] cfg.fill = a := by
      funext i
      simp [AArr.write, newEmpty_contains _ hpos]
    rw [this]; exact hinv
  · -- one chunk
    rename_i h1
    obtain ⟨hin, cs, hcs, hreg'⟩ := h.chunksSubset_single b hb hbi h1
    rw [hreg] at hreg'; cases hreg'
    exact storeChunk_step h hinv hin hcs d hlen
  · -- several chunks
    rename_i hn0 hn1
    have hne : b.isEmpty = false := by
      cases he : b.isEmpty with
      | false => rfl
      | true => exact absurd ((prod_eq_zero_iff _).mpr he) hn0
    obtain ⟨region', hreg', hrwf, hrrank, hriff⟩ := h.chunksSubset b hb hbi hne
    rw [hreg] at hreg'; cases hreg'
    simp only [hreg]
    rw [if_neg (by simp only [bne_iff_ne, ne_eq, Decidable.not_not]; exact hlen)]
    obtain ⟨st', hfold, hinv'⟩ := foldOpt_inv (cfg := cfg) (G := G)
      (fun st c => match cfg.chunkSubset c with
        | none => none
        | some cs => cfg.storeChunk st c ((cs.relativeTo region.start).extract region.shape d))
      (fun c i => cfg.inChunk c i)
      (fun i => d.getD (ravel (zipSub i region.start) region.shape) cfg.fill) b.indices
      (by
        intro c hc st1 a1 hinv1
        have hbc := (b.mem_indices hb c).mp hc
        have hcG := box_inB hbi hbc
        obtain ⟨cs, hcs, _, hcwf, hcrank, hcne⟩ := h.chunk_def c hcG
        have hsub : ∀ i, cs.contains i = true → region.contains i = true :=
          fun i hi => (hriff i).mpr ⟨c, cs, hbc, hcs, hi⟩
        obtain ⟨hpl, hpp⟩ := piece_spec cs region hcwf hrwf (by rw [hcrank, hrrank]) hcne hsub d hlen
        simp only [hcs]
        apply storeChunk_step' h hinv1 hcG hcs _ hpl
        · intro i hi
          rw [hpp i hi]
          simp only [AArr.wr, inChunk_of hcs, hi, if_true]
          exact data_getElem?_getD d region cfg.fill hlen i (hsub i hi)
        · intro i hi
          simp [AArr.wr, inChunk_of hcs, hi])
      st a hinv
    refine ⟨st', hfold, ?_⟩
    rw [AArr.write_eq_wr]
    rw [AArr.wr_congr a (Q := region.contains)
      (w := fun i => d.getD (ravel (zipSub i region.start) region.shape) cfg.fill) ?_ (fun _ _ => rfl)] at hinv'
    · exact hinv'
    · intro i
      rw [Bool.eq_iff_iff, List.any_eq_true, hriff i]
      constructor
      · rintro ⟨c, hc, hi⟩
        have hbc := (b.mem_indices hb c).mp hc
        obtain ⟨cs, hcs, _⟩ := h.chunk_def c (box_inB hbi hbc)
        rw [inChunk_of hcs] at hi
        exact ⟨c, cs, hbc, hcs, hi⟩
      · rintro ⟨c, cs, hbc, hcs, hi⟩
        exact ⟨c, (b.mem_indices hb c).mpr hbc, by rw [inChunk_of hcs]; exact hi⟩

/-! ### `eraseChunks` -/

theorem eraseChunks_step (h : COk cfg G) {st : KV} {a : AArr α} (hinv : Inv cfg G st a)
    (b : Subset) (hb : b.wf = true) (hbi : b.inboundsShape G = true) :
    ∃ region, cfg.grid.chunksSubset b = some region ∧
      Inv cfg G (cfg.eraseChunks st b) (a.fillRegion region cfg.fill) := by
  cases he : b.isEmpty with
  | true =>
    have hpos := b.rank_pos_of_empty hb he
    refine ⟨_, chunksSubset_empty b he, ?_⟩
    have : a.fillRegion (Subset.newEmpty b.rank) cfg.fill = a := by
      funext i
      simp [AArr.fillRegion, newEmpty_contains _ hpos]
    rw [this]
    simp only [eraseChunks, b.empty_indices he, List.foldl_nil]
    exact hinv
  | false =>
    obtain ⟨region, hreg, hrwf, hrrank, hriff⟩ := h.chunksSubset b hb hbi he
    refine ⟨region, hreg, ?_⟩
    obtain ⟨st', hfold, hinv'⟩ := foldOpt_inv (cfg := cfg) (G := G)
      (fun st c => some (cfg.eraseChunk st c))
      (fun c i => cfg.inChunk c i) (fun _ => cfg.fill) b.indices
      (by
        intro c hc st1 a1 hinv1
        have hbc := (b.mem_indices hb c).mp hc
        have hcG := box_inB hbi hbc
        obtain ⟨cs, hcs, _⟩ := h.chunk_def c hcG
        refine ⟨_, rfl, ?_⟩
        have := eraseChunk_step h hinv1 hcG hcs
        rw [AArr.fillRegion_eq_wr] at this
        rw [AArr.wr_congr a1 (Q := cs.contains) (w := fun _ => cfg.fill) (fun i => inChunk_of hcs i)
          (fun _ _ => rfl)]
        exact this)
      st a hinv
    rw [foldOpt_some_foldl] at hfold
    cases hfold
    rw [AArr.fillRegion_eq_wr]
    rw [AArr.wr_congr a (Q := region.contains) (w := fun _ => cfg.fill) ?_ (fun _ _ => rfl)] at hinv'
    · exact hinv'
    · intro i
      rw [Bool.eq_iff_iff, List.any_eq_true, hriff i]
      constructor
      · rintro ⟨c, hc, hi⟩
        have hbc := (b.mem_indices hb c).mp hc
        obtain ⟨cs, hcs, _⟩ := h.chunk_def c (box_inB hbi hbc)
        rw [inChunk_of hcs] at hi
        exact ⟨c, cs, hbc, hcs, hi⟩
      · rintro ⟨c, cs, hbc, hcs, hi⟩
        exact ⟨c, (b.mem_indices hb c).mpr hbc, by rw [inChunk_of hcs]; exact hi⟩

/-! ### regions and the chunks meeting them -/

theorem region_inB {r : Subset} (hb : r.inboundsShape cfg.shape = true) {i : Idx} (hi : r.contains i = true) :
    inB i cfg.shape = true := by
  simp only [Subset.inboundsShape, Subset.rank, Subset.endExc, Bool.and_eq_true, beq_iff_eq] at hb
  exact inB_of_allLe_end i _ _ _ hb.1 hb.2 hi

/-- every element of the region lies in a chunk of the reported box -/
theorem COk.region_cover (h : COk cfg G) {r box : Subset} (hb : r.inboundsShape cfg.shape = true)
    (hiff : ∀ c, box.contains c = true ↔
      (inB c G = true ∧ ∃ cs i, cfg.chunkSubset c = some cs ∧ cs.contains i = true ∧ r.contains i = true))
    {i : Idx} (hi : r.contains i = true) :
    ∃ c cs, box.contains c = true ∧ inB c G = true ∧ cfg.chunkSubset c = some cs ∧ cs.contains i = true := by
  obtain ⟨c, cs, hcG, hcs, hci⟩ := h.cover i (region_inB hb hi)
  exact ⟨c, cs, (hiff c).mpr ⟨hcG, cs, i, hcs, hci, hi⟩, hcG, hcs, hci⟩

theorem _root_.Zarrs.Subset.wf_of_contains (b : Subset) (c : Idx) (h : b.contains c = true) : b.wf = true := by
  simp only [Subset.wf, beq_iff_eq]
  exact (mem_length h).2

/-- a region whose box of chunks has a single element lies inside that chunk -/
theorem COk.single_box (h : COk cfg G) {r box : Subset} (hr : r.wf = true)
    (hb : r.inboundsShape cfg.shape = true) (hne : r.isEmpty = false)
    (hiff : ∀ c, box.contains c = true ↔
      (inB c G = true ∧ ∃ cs i, cfg.chunkSubset c = some cs ∧ cs.contains i = true ∧ r.contains i = true))
    (h1 : box.numElements = 1) :
    inB box.start G = true ∧ ∃ cs, cfg.chunkSubset box.start = some cs ∧ cs.wf = true ∧ cs.rank = r.rank ∧
      ∀ i, r.contains i = true → cs.contains i = true := by
  have hones := prod_eq_one box.shape h1
  have hr' := hr
  simp only [Subset.wf, beq_iff_eq] at hr'
  simp only [Subset.isEmpty] at hne
  have hstart := mem_start r.start r.shape hr' hne
  obtain ⟨c0, cs0, hbc0, hc0G, hcs0, hci0⟩ := h.region_cover hb hiff (i := r.start) hstart
  have e0 := mem_ones c0 box.start box.shape hones hbc0
  subst e0
  obtain ⟨cs0', hcs0', _, hwf0, hrank0, _⟩ := h.chunk_def _ hc0G
  rw [hcs0] at hcs0'; cases hcs0'
  refine ⟨hc0G, cs0, hcs0, hwf0, ?_, ?_⟩
  · simp only [Subset.inboundsShape, Bool.and_eq_true, beq_iff_eq] at hb
    rw [hrank0, hb.1, h.rank]
  · intro i hi
    obtain ⟨c, cs, hbc, _, hcs, hci⟩ := h.region_cover hb hiff hi
    have e := mem_ones c box.start box.shape hones hbc
    subst e
    rw [hcs0] at hcs; cases hcs
    exact hci

/-! ### `storeArraySubset` -/

theorem storeArraySubset_step (h : COk cfg G) {st : KV} {a : AArr α} (hinv : Inv cfg G st a)
    (r : Subset) (hr : r.wf = true) (hb : r.inboundsShape cfg.shape = true)
    (d : List α) (hlen : d.length = r.numElements) :
    ∃ st', cfg.storeArraySubset st r d = some st' ∧ Inv cfg G st' (a.write r d cfg.fill) := by
  have hb' := hb
  simp only [Subset.inboundsShape, Bool.and_eq_true, beq_iff_eq] at hb'
  simp only [storeArraySubset]
  rw [if_neg (by simp only [bne_iff_ne, ne_eq, Decidable.not_not]; exact hb'.1)]
  cases he : r.isEmpty with
  | true =>
    have hpos := r.rank_pos_of_empty hr he
    have hgl : 0 < cfg.grid.length := by rw [← h.rank, ← hb'.1]; exact hpos
    have hbox : cfg.grid.chunksInArraySubset r cfg.shape = some (Subset.newEmpty cfg.grid.length) := by
      simp [Grid.chunksInArraySubset, Subset.endInc, he]
    simp only [hbox]
    rw [if_neg (by rw [newEmpty_numElements _ hgl]; simp)]
    rw [if_neg (by simp only [bne_iff_ne, ne_eq, Decidable.not_not]; exact hlen)]
    rw [newEmpty_indices _ hgl]
    refine ⟨st, rfl, ?_⟩
    have : a.write r d cfg.fill = a := by
      funext i
      have : r.contains i = false := mem_of_any_zero i r.start r.shape he
      simp [AArr.write, this]
    rw [this]; exact hinv
  | false =>
    obtain ⟨box, hbox, hiff⟩ := h.chunksIn r hr hb he
    simp only [hbox]
    by_cases h1 : box.numElements = 1
    · rw [if_pos (by simp [h1])]
      obtain ⟨hc0G, cs0, hcs0, hwf0, hrank0, hsub⟩ := h.single_box hr hb he hiff h1
      simp only [hcs0]
      by_cases heq : (r == cs0) = true
      · rw [if_pos heq]
        rw [Subset.beq_iff] at heq
        subst heq
        exact storeChunk_step h hinv hc0G hcs0 d hlen
      · rw [if_neg heq]
        obtain ⟨hw, hin, hadd, _⟩ := Subset.rel_facts r cs0 hr hwf0 hrank0.symm he hsub
        obtain ⟨st', hst', hinv'⟩ := storeChunkSubset_step h hinv hc0G hcs0 (r.relativeTo cs0.start) hw hin d hlen
        refine ⟨st', hst', ?_⟩
        simp only [Subset.relativeTo, hadd] at hinv'
        exact hinv'
    · rw [if_neg (by simp [h1])]
      rw [if_neg (by simp only [bne_iff_ne, ne_eq, Decidable.not_not]; exact hlen)]
      -- the box is well-formed because it contains the chunk of the first element
      have hr' := hr
      simp only [Subset.wf, beq_iff_eq] at hr'
      have hne' := he
      simp only [Subset.isEmpty] at hne'
      obtain ⟨c0, _, hbc0, _⟩ := h.region_cover hb hiff (i := r.start) (mem_start r.start r.shape hr' hne')
      have hbwf := box.wf_of_contains c0 hbc0
      obtain ⟨st', hfold, hinv'⟩ := foldOpt_inv (cfg := cfg) (G := G)
        (fun st c => match cfg.chunkSubset c with
          | none => none
          | some cs => cfg.storeChunkSubset st c ((r.overlap cs).relativeTo cs.start)
              (((r.overlap cs).relativeTo r.start).extract r.shape d))
        (fun c i => r.contains i && cfg.inChunk c i)
        (fun i => d.getD (ravel (zipSub i r.start) r.shape) cfg.fill) box.indices
        (by
          intro c hc st1 a1 hinv1
          have hbc := (box.mem_indices hbwf c).mp hc
          obtain ⟨hcG, cs, i0, hcs, hi0c, hi0r⟩ := (hiff c).mp hbc
          obtain ⟨cs', hcs', _, hcwf, hcrank, _⟩ := h.chunk_def c hcG
          rw [hcs] at hcs'; cases hcs'
          have hrk : r.rank = cs.rank := by rw [hcrank, hb'.1, h.rank]
          have hov : ∀ i, (r.overlap cs).contains i = (r.contains i && cs.contains i) :=
            C09.overlap_mem r cs hr hcwf hrk
          have hovwf : (r.overlap cs).wf = true := by
            simp only [Subset.wf, Subset.rank, beq_iff_eq] at hr hcwf hrk ⊢
            simp only [Subset.overlap, Subset.endExc, zipSub_length, zipMin_length, zipMax_length, addIdx_length]
            omega
          have hovrank : (r.overlap cs).rank = r.rank := by
            simp only [Subset.rank] at hrk ⊢
            simp only [Subset.overlap, zipMax_length]; omega
          have hovne : (r.overlap cs).isEmpty = false :=
            (r.overlap cs).nonempty_of_contains i0 (by rw [hov, hi0r, hi0c]; rfl)
          have hsub1 : ∀ i, (r.overlap cs).contains i = true → cs.contains i = true := by
            intro i hi; rw [hov, Bool.and_eq_true] at hi; exact hi.2
          have hsub2 : ∀ i, (r.overlap cs).contains i = true → r.contains i = true := by
            intro i hi; rw [hov, Bool.and_eq_true] at hi; exact hi.1
          obtain ⟨hw1, hin1, hadd1, _⟩ := Subset.rel_facts (r.overlap cs) cs hovwf hcwf (by rw [hovrank, hrk]) hovne hsub1
          obtain ⟨hpl, hpp⟩ := piece_spec (r.overlap cs) r hovwf hr hovrank hovne hsub2 d hlen
          simp only [hcs]
          obtain ⟨st2, hst2, hinv2⟩ := storeChunkSubset_step h hinv1 hcG hcs ((r.overlap cs).relativeTo cs.start)
            hw1 hin1 (((r.overlap cs).relativeTo r.start).extract r.shape d) hpl
          refine ⟨st2, hst2, ?_⟩
          simp only [Subset.relativeTo, hadd1] at hinv2
          rw [AArr.write_eq_wr] at hinv2
          rw [AArr.wr_congr a1 (P := fun i => r.contains i && cfg.inChunk c i)
            (Q := (⟨(r.overlap cs).start, (r.overlap cs).shape⟩ : Subset).contains)
            (w := fun i => List.getD (((r.overlap cs).relativeTo r.start).extract r.shape d)
              (ravel (zipSub i (r.overlap cs).start) (r.overlap cs).shape) cfg.fill) ?_ ?_]
          · exact hinv2
          · intro i
            rw [inChunk_of hcs]
            exact (hov i).symm
          · intro i hi
            rw [inChunk_of hcs, ← hov i] at hi
            rw [List.getD_eq_getElem?_getD, List.getD_eq_getElem?_getD, hpp i hi])
        st a hinv
      refine ⟨st', hfold, ?_⟩
      rw [AArr.write_eq_wr]
      rw [AArr.wr_congr a (Q := r.contains)
        (w := fun i => d.getD (ravel (zipSub i r.start) r.shape) cfg.fill) ?_ (fun _ _ => rfl)] at hinv'
      · exact hinv'
      · intro i
        cases hri : r.contains i with
        | false => simp
        | true =>
          obtain ⟨c, cs, hbc, _, hcs, hci⟩ := h.region_cover hb hiff hri
          rw [List.any_eq_true]
          exact ⟨c, (box.mem_indices hbwf c).mpr hbc, by simp [inChunk_of hcs, hci]⟩

end ArrCfg
end Zarrs
