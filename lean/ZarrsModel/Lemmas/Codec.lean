import ZarrsModel.Model.Shard
/- helper lemmas for C03 (codec inverses, chain composition, shard layout) -/
namespace Zarrs.Codec

end Zarrs.Codec
