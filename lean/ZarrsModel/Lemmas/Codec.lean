import ZarrsModel.Model.Shard
import ZarrsModel.Lemmas.CodecBasic
import ZarrsModel.Lemmas.CodecTranspose
import ZarrsModel.Lemmas.CodecShard
/-
helper lemmas for C03 (codec inverses, chain composition, shard layout); the proofs live in
`CodecBasic` (checksum codecs, `bytes`, `shuffle`, chains), `CodecTranspose` (`transpose`) and
`CodecShard` (`sharding_indexed` layout)
-/
