import ZarrsModel.Lemmas.PartialArray
/- helper lemmas for C02, part 3: the `bytes` partial decoder and the array cache -/
namespace Zarrs.Partial
open Zarrs Zarrs.Codec

/-! ### `groups` and `bytesEnc` on concatenations of whole elements -/

theorem groups_of_flatten (n : Nat) (hn : 0 < n) (gs : List Bytes) (h : ∀ g ∈ gs, g.length = n) :
    groups n gs.flatten = gs :=
  chunksOf_of_flatten n hn gs _ h (Nat.lt_succ_self _)

theorem groups_flatten_self (n : Nat) (hn : 0 < n) (b : Bytes) : (groups n b).flatten = b :=
  chunksOf_flatten n hn _ b (Nat.lt_succ_self _)

theorem groups_all_length (n : Nat) (hn : 0 < n) (b : Bytes) (h : b.length % n = 0) :
    ∀ g ∈ groups n b, g.length = n :=
  chunksOf_all_length n hn _ b h

/-- grouping a concatenation of whole elements groups every element separately -/
theorem groups_flatten (u : Nat) (hu : 0 < u) (ys : List Bytes) (h : ∀ y ∈ ys, y.length % u = 0) :
    groups u ys.flatten = ys.flatMap (groups u) := by
  have hfl : (ys.flatMap (groups u)).flatten = ys.flatten := by
    induction ys with
    | nil => rfl
    | cons y ys ih =>
      rw [List.flatMap_cons, List.flatten_append, groups_flatten_self u hu, List.flatten_cons,
        ih (fun y' hy' => h y' (by simp [hy']))]
  rw [← hfl]
  apply groups_of_flatten u hu
  intro g hg
  obtain ⟨y, hy, hgy⟩ := List.mem_flatMap.mp hg
  exact groups_all_length u hu y (h y hy) g hgy

theorem bytesEnc_flatten (big : Bool) (u : Nat) (hu : 0 < u) (ys : List Bytes) (h : ∀ y ∈ ys, y.length % u = 0) :
    bytesEnc big u ys.flatten = (ys.map (bytesEnc big u)).flatten := by
  unfold bytesEnc
  by_cases hc : (big && decide (u > 1)) = true
  · simp only [hc, if_true]
    rw [groups_flatten u hu ys h, List.flatMap_assoc, List.flatMap_def]
  · simp only [hc]
    simp

theorem bytesEnc_length (big : Bool) (u : Nat) (b : Bytes) (h : b.length % u = 0) :
    (bytesEnc big u b).length = b.length :=
  (bytes_dec_enc' big u b (Or.inr h)).2

theorem mul_mod_of_mod (k es u : Nat) (h : es % u = 0) : (k * es) % u = 0 := by
  obtain ⟨c, hc⟩ := Nat.dvd_of_mod_eq_zero h
  rw [hc, Nat.mul_left_comm]
  exact Nat.mul_mod_right u _

/-! ### `BytesPartialDecoder` -/

theorem bytesPD_region (big : Bool) (es unit : Nat) (sh : Shape) (xs : List Elem) (r : Subset)
    (hes : 0 < es) (hu : 0 < unit) (hdiv : es % unit = 0)
    (hxl : xs.length = prod sh) (hxe : ∀ x ∈ xs, x.length = es)
    (hr : r.wf = true) (hb : r.inboundsShape sh = true) :
    let V := bytesEnc big unit xs.flatten
    let ranges := (r.byteRanges sh es).map (fun p => ByteRange.fromStart p.1 (some p.2))
    (∀ q ∈ ranges, q.valid V.length = true) ∧
    groups es (bytesDec big unit (ranges.map (·.extract V)).flatten) = r.extract sh xs := by
  intro V ranges
  have hmodx : ∀ x ∈ xs, x.length % unit = 0 := fun x hx => by rw [hxe x hx]; exact hdiv
  have hE : ∀ g ∈ xs.map (bytesEnc big unit), g.length = es := by
    intro g hg
    obtain ⟨x, hx, rfl⟩ := List.mem_map.mp hg
    rw [bytesEnc_length big unit x (hmodx x hx), hxe x hx]
  have hV : V = (xs.map (bytesEnc big unit)).flatten := bytesEnc_flatten big unit hu xs hmodx
  have hVl : V.length = prod sh * es := by
    rw [hV, flatten_length_of_all es _ hE, List.length_map, hxl]
  have hranges : ranges = (r.contiguousLinearised sh).map
      (fun i => ByteRange.fromStart (i * es) (some ((r.contiguous sh).run * es))) := by
    simp only [ranges, Subset.byteRanges, List.map_map, Function.comp_def]
  refine ⟨?_, ?_⟩
  · intro q hq
    rw [hranges] at hq
    obtain ⟨i, hi, rfl⟩ := List.mem_map.mp hq
    have := contiguous_bound r sh hr hb i hi
    have h3 := Nat.mul_le_mul_right es this
    rw [Nat.add_mul] at h3
    simp only [ByteRange.valid, Option.getD_some, decide_eq_true_eq, hVl]
    exact h3
  · have hparts : (ranges.map (·.extract V)).flatten =
        (r.extract sh (xs.map (bytesEnc big unit))).flatten := by
      rw [hranges, List.map_map, Subset.extract, ← flatten_map_flatten]
      congr 1
      apply List.map_congr_left
      intro i _
      simp only [Function.comp, ByteRange.extract, ByteRange.start, ByteRange.stop, slice]
      rw [Nat.add_sub_cancel_left, hV, flatten_drop_mul es _ i hE,
        flatten_take_mul es _ _ (fun g hg => hE g (List.mem_of_mem_drop hg))]
    have hxe' : ∀ y ∈ r.extract sh xs, y.length = es := fun y hy => hxe y (mem_extract r sh xs y hy)
    have hmod' : ∀ y ∈ r.extract sh xs, y.length % unit = 0 := fun y hy => by rw [hxe' y hy]; exact hdiv
    rw [hparts, extract_map, ← bytesEnc_flatten big unit hu _ hmod']
    rw [(bytes_dec_enc' big unit _ (Or.inr (by
      rw [flatten_length_of_all es _ hxe']; exact mul_mod_of_mod _ es unit hdiv))).1]
    exact groups_of_flatten es hes _ hxe'

theorem bytesPD_ok' (big : Bool) (es unit : Nat) (sh : Shape) (fill : Elem) (h : BHandle) (xs : List Elem)
    (hes : 0 < es) (hu : 0 < unit) (hdiv : es % unit = 0)
    (hxl : xs.length = prod sh) (hxe : ∀ x ∈ xs, x.length = es)
    (hh : BHandleOk h (bytesEnc big unit xs.flatten)) :
    AHandleOk (bytesPD big es unit sh fill h) sh xs := by
  intro rs hrs
  unfold bytesPD
  apply mapM_some_of_forall
  intro r hr
  obtain ⟨hw, hb⟩ := hrs r hr
  obtain ⟨hv, hg⟩ := bytesPD_region big es unit sh xs r hes hu hdiv hxl hxe hw hb
  rw [if_neg (by simp [hw, hb]), hh _ hv]
  simp only
  rw [hg]

theorem bytesPD_absent' (big : Bool) (es unit : Nat) (sh : Shape) (fill : Elem) (h : BHandle)
    (hh : BHandleAbsent h) :
    AHandleOk (bytesPD big es unit sh fill h) sh (List.replicate (prod sh) fill) := by
  intro rs hrs
  unfold bytesPD
  apply mapM_some_of_forall
  intro r hr
  obtain ⟨hw, hb⟩ := hrs r hr
  rw [if_neg (by simp [hw, hb]), hh]
  simp only
  rw [extract_replicate r sh fill hw hb]

/-! ### `ArrayPartialDecoderCache` -/

theorem arrayCachePD_ok (sh : Shape) (h : AHandle) (xs : List Elem) (hx : xs.length = prod sh)
    (hh : AHandleOk h sh xs) : AHandleOk (arrayCachePD sh h) sh xs := by
  intro rs hrs
  unfold arrayCachePD
  rw [hh [Subset.ofShape sh] (by
    intro r hr
    simp only [List.mem_singleton] at hr
    subst hr
    exact ofShape_ok sh)]
  simp only [List.map_cons, List.map_nil, extract_full sh xs hx]
  apply mapM_some_of_forall
  intro r hr
  obtain ⟨hw, hb⟩ := hrs r hr
  simp [hw, hb]

end Zarrs.Partial
