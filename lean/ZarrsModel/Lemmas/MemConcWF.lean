import ZarrsModel.Lemmas.MemConcStep
/- C18 helper lemmas, part 3: well-formedness of the view, the list-level step refines the view-level step,
well-formedness is an invariant -/
namespace Zarrs.MemConc

structure VWF (ps : Progs) (v : VState) : Prop where
  cur_lt : ∀ c, v.cur = some c → c < v.ncells
  lock_iff : ∀ t c, v.wl c = some t ↔ v.ts t = .setHold c
  lock_lt : ∀ t c, v.wl c = some t → c < v.ncells
  ts_lt : ∀ t, v.ts t ≠ .idle → t < ps.length
  no_got : ∀ t c, v.ts t ≠ .setGot c
  hold_op : ∀ t c, v.ts t = .setHold c → ∃ op, opAt ps t (v.pc t) = some op ∧ isWrite op = true
  get_op : ∀ t c, v.ts t = .getHold c → c < v.ncells ∧ ∃ op, opAt ps t (v.pc t) = some op ∧ isRead op = true
  cell_nil : ∀ c, v.ncells ≤ c → v.cell c = []

theorem VState.ext' {a b : VState} (h1 : a.ncells = b.ncells) (h2 : ∀ x, a.cell x = b.cell x)
    (h3 : ∀ x, a.wl x = b.wl x) (h4 : a.cur = b.cur) (h5 : ∀ x, a.pc x = b.pc x) (h6 : ∀ x, a.ts x = b.ts x) :
    a = b := by
  cases a; cases b
  simp only at h1 h4
  simp only [VState.mk.injEq]
  exact ⟨h1, funext h2, funext h3, h4, funext h5, funext h6⟩

theorem getLast_out_respond (s : State) (t : Nat) (r : Res) (h : t < s.out.length) :
    ((respond s t r).out.getD t []).getLast? = some r := by
  simp [respond, h]

theorem lstep_view {ps s t s' r} (hl : LWF ps s) (hv : VWF ps (view s)) (ht : t < ps.length)
    (hst : LStep ps s t s' r) (time : Nat) (lin : List LinE) :
    LWF ps s' ∧ (∃ lin', VStep ps time (view s) lin t (view s') lin' r) ∧
      (∀ res, r = some res → (s'.out.getD t []).getLast? = some res) := by
  have htl : t < s.ts.length := by rw [hl.lts]; exact ht
  have hpl : t < s.pc.length := by rw [hl.lpc]; exact ht
  have hol : t < s.out.length := by rw [hl.lout]; exact ht
  obtain ⟨lpc, lts, lout, lwl⟩ := hl
  cases hst with
  | s1e op c hop hw hts hcur hfree hs hr =>
    subst hs hr
    have hc : c < s.cells.length := hv.cur_lt c hcur
    have hcl : c < s.wlock.length := by omega
    refine ⟨⟨lpc, by simpa using lts, lout, by simpa using lwl⟩, ⟨_, .s1e op c hop hw hts hcur hfree ?_ rfl rfl⟩, by simp⟩
    apply VState.ext' <;> intros <;> simp only [view] <;> acc_simp <;> simp [hcl, htl, eq_comm]
  | s1n op hop hw hts hcur hs hr =>
    subst hs hr
    refine ⟨⟨lpc, by simpa using lts, lout, by simp [lwl]⟩, ⟨_, .s1n op hop hw hts hcur ?_ rfl rfl⟩, by simp⟩
    apply VState.ext' <;> intros <;> simp only [view] <;> acc_simp
    · rename_i x
      split
      · rename_i h; rw [h, cell_nil_of_ge s _ (Nat.le_refl _)]
      · rfl
    · rename_i x
      rw [lwl]
      by_cases h : x = s.cells.length
      · subst h; simp
      · have h' : ¬ s.cells.length = x := fun e => h e.symm
        simp [h, h']
    · rename_i x
      by_cases h : x = t
      · subst h; simp [htl]
      · have h' : ¬ t = x := fun e => h e.symm
        simp [h, h']
  | s2 op c hop hts hs hr =>
    subst hs hr
    have hc : c < s.cells.length := hv.lock_lt t c ((hv.lock_iff t c).mpr hts)
    have hcl : c < s.wlock.length := by omega
    refine ⟨⟨by simpa [respond] using lpc, by simpa [respond] using lts, by simpa [respond] using lout,
      by simpa [respond] using lwl⟩, ⟨_, .s2 op c hop hts ?_ rfl rfl⟩, ?_⟩
    · apply VState.ext' <;> intros <;> simp only [view] <;> acc_simp <;> simp [htl, hpl, hc, hcl, eq_comm]
    · intro res hres; cases hres; exact getLast_out_respond _ t _ hol
  | g1m op hop hrd hts hcur hs hr =>
    subst hs hr
    refine ⟨⟨by simpa [respond] using lpc, by simpa [respond] using lts, by simpa [respond] using lout,
      by simpa [respond] using lwl⟩, ⟨_, .g1m op hop hrd hts hcur ?_ rfl rfl⟩, ?_⟩
    · apply VState.ext' <;> intros <;> simp only [view] <;> acc_simp <;> simp [htl, hpl, eq_comm]
    · intro res hres; cases hres; exact getLast_out_respond _ t _ hol
  | g1h op c hop hrd hts hcur hs hr =>
    subst hs hr
    refine ⟨⟨lpc, by simpa using lts, lout, lwl⟩, ⟨_, .g1h op c hop hrd hts hcur ?_ rfl rfl⟩, by simp⟩
    apply VState.ext' <;> intros <;> simp only [view] <;> acc_simp <;> simp [htl, eq_comm]
  | g2 op c hop hts hfree hs hr =>
    subst hs hr
    refine ⟨⟨by simpa [respond] using lpc, by simpa [respond] using lts, by simpa [respond] using lout,
      by simpa [respond] using lwl⟩, ⟨_, .g2 op c hop hts hfree ?_ rfl rfl⟩, ?_⟩
    · apply VState.ext' <;> intros <;> simp only [view] <;> acc_simp <;> simp [htl, hpl, eq_comm]
    · intro res hres; cases hres; exact getLast_out_respond _ t _ hol
  | sz hop hts hfree hs hr =>
    subst hs hr
    refine ⟨⟨by simpa [respond] using lpc, by simpa [respond] using lts, by simpa [respond] using lout,
      by simpa [respond] using lwl⟩, ⟨_, .sz hop hts hfree ?_ rfl rfl⟩, ?_⟩
    · apply VState.ext' <;> intros <;> simp only [view] <;> acc_simp <;> simp [htl, hpl, eq_comm]
    · intro res hres; cases hres; exact getLast_out_respond _ t _ hol
  | e1 hop hts hs hr =>
    subst hs hr
    refine ⟨⟨by simpa [respond] using lpc, by simpa [respond] using lts, by simpa [respond] using lout,
      by simpa [respond] using lwl⟩, ⟨_, .e1 hop hts ?_ rfl rfl⟩, ?_⟩
    · apply VState.ext' <;> intros <;> simp only [view] <;> acc_simp <;> simp [htl, hpl, eq_comm]
    · intro res hres; cases hres; exact getLast_out_respond _ t _ hol

/-- steps in which thread `t`, holding no lock, completes its operation -/
theorem vwf_respond {ps v t} (hwf : VWF ps v) (hnl : ∀ c, v.ts t ≠ .setHold c) (K : Option Nat)
    (hK : K = v.cur ∨ K = none) :
    VWF ps { v with cur := K, pc := upd v.pc t (v.pc t + 1), ts := upd v.ts t .idle } := by
  obtain ⟨cur_lt, lock_iff, lock_lt, ts_lt, no_got, hold_op, get_op, cell_nil⟩ := hwf
  refine ⟨?_, ?_, lock_lt, ?_, ?_, ?_, ?_, cell_nil⟩
  · intro c hc
    rcases hK with h | h
    · exact cur_lt c (h ▸ hc)
    · rw [h] at hc; cases hc
  · intro t' c'
    show v.wl c' = some t' ↔ upd v.ts t .idle t' = .setHold c'
    by_cases h1 : t' = t
    · subst h1
      simp only [upd_apply, if_true]
      constructor
      · intro h; exact absurd ((lock_iff _ _).mp h) (hnl c')
      · intro h; cases h
    · simp only [upd_apply, if_neg h1]; exact lock_iff t' c'
  · intro t'
    show upd v.ts t .idle t' ≠ .idle → _
    by_cases h1 : t' = t
    · simp [h1]
    · simp only [upd_apply, if_neg h1]; exact ts_lt t'
  · intro t' c'
    show upd v.ts t .idle t' ≠ _
    by_cases h1 : t' = t
    · simp [h1]
    · simp only [upd_apply, if_neg h1]; exact no_got t' c'
  · intro t' c'
    show upd v.ts t .idle t' = _ → ∃ op, opAt ps t' (upd v.pc t (v.pc t + 1) t') = some op ∧ _
    by_cases h1 : t' = t
    · simp [h1]
    · simp only [upd_apply, if_neg h1]; exact hold_op t' c'
  · intro t' c'
    show upd v.ts t .idle t' = _ → _ ∧ ∃ op, opAt ps t' (upd v.pc t (v.pc t + 1) t') = some op ∧ _
    by_cases h1 : t' = t
    · simp [h1]
    · simp only [upd_apply, if_neg h1]; exact get_op t' c'

theorem vwf_step {ps v t v' time lin lin' r} (hwf : VWF ps v) (ht : t < ps.length)
    (hst : VStep ps time v lin t v' lin' r) : VWF ps v' := by
  have hwf0 := hwf
  obtain ⟨cur_lt, lock_iff, lock_lt, ts_lt, no_got, hold_op, get_op, cell_nil⟩ := hwf
  cases hst with
  | s1e op c hop hw hts hcur hfree hv hl hr =>
    subst hv
    refine ⟨cur_lt, ?_, ?_, ?_, ?_, ?_, ?_, cell_nil⟩
    · intro t' c'
      show upd v.wl c (some t) c' = some t' ↔ upd v.ts t (.setHold c) t' = .setHold c'
      by_cases h1 : t' = t <;> by_cases h2 : c' = c
      · simp [h1, h2]
      · subst h1
        have : ¬ c = c' := fun e => h2 e.symm
        simp only [upd_apply, if_neg h2, if_true, TS.setHold.injEq, this, iff_false]
        intro h; rw [(lock_iff _ _).mp h] at hts; cases hts
      · subst h2
        have : ¬ t = t' := fun e => h1 e.symm
        simp only [upd_apply, if_neg h1, if_true, Option.some.injEq, this, false_iff]
        intro h; rw [(lock_iff _ _).mpr h] at hfree; cases hfree
      · simp only [upd_apply, if_neg h1, if_neg h2]; exact lock_iff t' c'
    · intro t' c'
      show upd v.wl c (some t) c' = some t' → _
      by_cases h2 : c' = c
      · intro _; rw [h2]; exact cur_lt c hcur
      · simp only [upd_apply, if_neg h2]; exact lock_lt t' c'
    · intro t'
      show upd v.ts t (.setHold c) t' ≠ .idle → _
      by_cases h1 : t' = t
      · intro _; rw [h1]; exact ht
      · simp only [upd_apply, if_neg h1]; exact ts_lt t'
    · intro t' c'
      show upd v.ts t (.setHold c) t' ≠ _
      by_cases h1 : t' = t
      · simp [h1]
      · simp only [upd_apply, if_neg h1]; exact no_got t' c'
    · intro t' c'
      show upd v.ts t (.setHold c) t' = _ → _
      by_cases h1 : t' = t
      · intro _; rw [h1]; exact ⟨op, hop, hw⟩
      · simp only [upd_apply, if_neg h1]; exact hold_op t' c'
    · intro t' c'
      show upd v.ts t (.setHold c) t' = _ → _
      by_cases h1 : t' = t
      · simp [h1]
      · simp only [upd_apply, if_neg h1]; exact get_op t' c'
  | s1n op hop hw hts hcur hv hl hr =>
    subst hv
    have hNfree : v.wl v.ncells = none := by
      cases h : v.wl v.ncells with
      | none => rfl
      | some t' => exact absurd (lock_lt t' _ h) (Nat.lt_irrefl _)
    refine ⟨?_, ?_, ?_, ?_, ?_, ?_, ?_, fun c hc => cell_nil c (Nat.le_of_succ_le hc)⟩
    · intro c hc
      have : c = v.ncells := by simpa using hc.symm
      show c < v.ncells + 1
      omega
    · intro t' c'
      show upd v.wl v.ncells (some t) c' = some t' ↔ upd v.ts t (.setHold v.ncells) t' = .setHold c'
      by_cases h1 : t' = t <;> by_cases h2 : c' = v.ncells
      · simp [h1, h2]
      · subst h1
        have : ¬ v.ncells = c' := fun e => h2 e.symm
        simp only [upd_apply, if_neg h2, if_true, TS.setHold.injEq, this, iff_false]
        intro h; rw [(lock_iff _ _).mp h] at hts; cases hts
      · subst h2
        have : ¬ t = t' := fun e => h1 e.symm
        simp only [upd_apply, if_neg h1, if_true, Option.some.injEq, this, false_iff]
        intro h; rw [(lock_iff _ _).mpr h] at hNfree; cases hNfree
      · simp only [upd_apply, if_neg h1, if_neg h2]; exact lock_iff t' c'
    · intro t' c'
      show upd v.wl v.ncells (some t) c' = some t' → c' < v.ncells + 1
      by_cases h2 : c' = v.ncells
      · intro _; omega
      · simp only [upd_apply, if_neg h2]; intro h; exact Nat.lt_succ_of_lt (lock_lt t' c' h)
    · intro t'
      show upd v.ts t (.setHold v.ncells) t' ≠ .idle → _
      by_cases h1 : t' = t
      · intro _; rw [h1]; exact ht
      · simp only [upd_apply, if_neg h1]; exact ts_lt t'
    · intro t' c'
      show upd v.ts t (.setHold v.ncells) t' ≠ _
      by_cases h1 : t' = t
      · simp [h1]
      · simp only [upd_apply, if_neg h1]; exact no_got t' c'
    · intro t' c'
      show upd v.ts t (.setHold v.ncells) t' = _ → _
      by_cases h1 : t' = t
      · intro _; rw [h1]; exact ⟨op, hop, hw⟩
      · simp only [upd_apply, if_neg h1]; exact hold_op t' c'
    · intro t' c'
      show upd v.ts t (.setHold v.ncells) t' = _ → c' < v.ncells + 1 ∧ _
      by_cases h1 : t' = t
      · simp [h1]
      · simp only [upd_apply, if_neg h1]
        intro h; exact ⟨Nat.lt_succ_of_lt (get_op t' c' h).1, (get_op t' c' h).2⟩
  | s2 op c hop hts hv hl hr =>
    subst hv
    have hlock : v.wl c = some t := (lock_iff t c).mpr hts
    refine ⟨cur_lt, ?_, ?_, ?_, ?_, ?_, ?_, ?_⟩
    rotate_right
    · intro c' hc'
      show upd v.cell c _ c' = []
      have hc'' : v.ncells ≤ c' := hc'
      have : c' ≠ c := fun e => by have := lock_lt t c hlock; omega
      simp only [upd_apply, if_neg this]; exact cell_nil c' hc'
    · intro t' c'
      show upd v.wl c none c' = some t' ↔ upd v.ts t .idle t' = .setHold c'
      by_cases h1 : t' = t <;> by_cases h2 : c' = c
      · simp [h1, h2]
      · subst h1
        simp only [upd_apply, if_neg h2, if_true]
        constructor
        · intro h
          have := (lock_iff _ _).mp h
          rw [hts] at this; cases this; exact absurd rfl h2
        · intro h; cases h
      · subst h2
        simp only [upd_apply, if_neg h1, if_true]
        constructor
        · intro h; cases h
        · intro h
          have := (lock_iff _ _).mpr h
          rw [hlock] at this; cases this; exact absurd rfl h1
      · simp only [upd_apply, if_neg h1, if_neg h2]; exact lock_iff t' c'
    · intro t' c'
      show upd v.wl c none c' = some t' → _
      by_cases h2 : c' = c
      · simp [h2]
      · simp only [upd_apply, if_neg h2]; exact lock_lt t' c'
    · intro t'
      show upd v.ts t .idle t' ≠ .idle → _
      by_cases h1 : t' = t
      · simp [h1]
      · simp only [upd_apply, if_neg h1]; exact ts_lt t'
    · intro t' c'
      show upd v.ts t .idle t' ≠ _
      by_cases h1 : t' = t
      · simp [h1]
      · simp only [upd_apply, if_neg h1]; exact no_got t' c'
    · intro t' c'
      show upd v.ts t .idle t' = _ → ∃ op, opAt ps t' (upd v.pc t (v.pc t + 1) t') = some op ∧ _
      by_cases h1 : t' = t
      · simp [h1]
      · simp only [upd_apply, if_neg h1]; exact hold_op t' c'
    · intro t' c'
      show upd v.ts t .idle t' = _ → _ ∧ ∃ op, opAt ps t' (upd v.pc t (v.pc t + 1) t') = some op ∧ _
      by_cases h1 : t' = t
      · simp [h1]
      · simp only [upd_apply, if_neg h1]; exact get_op t' c'
  | g1m op hop hrd hts hcur hv hl hr =>
    subst hv
    exact vwf_respond hwf0 (fun c h => by rw [hts] at h; cases h) v.cur (Or.inl rfl)
  | g1h op c hop hrd hts hcur hv hl hr =>
    subst hv
    refine ⟨cur_lt, ?_, lock_lt, ?_, ?_, ?_, ?_, cell_nil⟩
    · intro t' c'
      show v.wl c' = some t' ↔ upd v.ts t (.getHold c) t' = .setHold c'
      by_cases h1 : t' = t
      · subst h1
        simp only [upd_apply, if_true]
        constructor
        · intro h; rw [(lock_iff _ _).mp h] at hts; cases hts
        · intro h; cases h
      · simp only [upd_apply, if_neg h1]; exact lock_iff t' c'
    · intro t'
      show upd v.ts t (.getHold c) t' ≠ .idle → _
      by_cases h1 : t' = t
      · intro _; rw [h1]; exact ht
      · simp only [upd_apply, if_neg h1]; exact ts_lt t'
    · intro t' c'
      show upd v.ts t (.getHold c) t' ≠ _
      by_cases h1 : t' = t
      · simp [h1]
      · simp only [upd_apply, if_neg h1]; exact no_got t' c'
    · intro t' c'
      show upd v.ts t (.getHold c) t' = _ → _
      by_cases h1 : t' = t
      · simp [h1]
      · simp only [upd_apply, if_neg h1]; exact hold_op t' c'
    · intro t' c'
      show upd v.ts t (.getHold c) t' = _ → _
      by_cases h1 : t' = t
      · subst h1
        simp only [upd_apply, if_true, TS.getHold.injEq]
        intro h; subst h
        exact ⟨cur_lt c hcur, op, hop, hrd⟩
      · simp only [upd_apply, if_neg h1]; exact get_op t' c'
  | g2 op c hop hts hfree hv hl hr =>
    subst hv
    exact vwf_respond hwf0 (fun c h => by rw [hts] at h; cases h) v.cur (Or.inl rfl)
  | sz hop hts hfree hv hl hr =>
    subst hv
    exact vwf_respond hwf0 (fun c h => by rw [hts] at h; cases h) v.cur (Or.inl rfl)
  | e1 hop hts hv hl hr =>
    subst hv
    exact vwf_respond hwf0 (fun c h => by rw [hts] at h; cases h) none (Or.inr rfl)

theorem tsOf_init (ps : Progs) (i0 : Option Bytes) (t : Nat) : tsOf (init ps i0) t = .idle := by
  simp only [tsOf, init, List.getD_eq_getElem?_getD, List.getElem?_map]
  cases ps[t]? <;> rfl

theorem pcOf_init (ps : Progs) (i0 : Option Bytes) (t : Nat) : pcOf (init ps i0) t = 0 := by
  simp only [pcOf, init, List.getD_eq_getElem?_getD, List.getElem?_map]
  cases ps[t]? <;> rfl

theorem wl_init (ps : Progs) (i0 : Option Bytes) (c : Nat) : wl (init ps i0) c = none := by
  simp only [wl, init]
  cases i0 with
  | none => rfl
  | some b => cases c <;> rfl

theorem lwf_init (ps : Progs) (i0 : Option Bytes) : LWF ps (init ps i0) :=
  ⟨by simp [init], by simp [init], by simp [init], by cases i0 <;> simp [init]⟩

theorem vwf_init (ps : Progs) (i0 : Option Bytes) : VWF ps (view (init ps i0)) := by
  refine ⟨?_, ?_, ?_, ?_, ?_, ?_, ?_, fun c hc => cell_nil_of_ge _ c hc⟩
  · intro c hc; cases i0 <;> simp [view, init] at hc ⊢; omega
  · intro t c; show wl _ c = some t ↔ tsOf _ t = _; rw [tsOf_init, wl_init]; simp
  · intro t c; show wl _ c = some t → _; rw [wl_init]; simp
  · intro t; show tsOf _ t ≠ _ → _; rw [tsOf_init]; simp
  · intro t c; show tsOf _ t ≠ _; rw [tsOf_init]; simp
  · intro t c; show tsOf _ t = _ → _; rw [tsOf_init]; simp
  · intro t c; show tsOf _ t = _ → _; rw [tsOf_init]; simp

/-- one enabled step of the repaired protocol, on the view, with ghost update; well-formedness is kept -/
theorem step_view {ps s t} (hl : LWF ps s) (hv : VWF ps (view s)) (ht : t < ps.length)
    (hen : enabled .fixed ps s t = true) (time : Nat) (lin : List LinE) :
    LWF ps (step .fixed ps s t) ∧ VWF ps (view (step .fixed ps s t)) ∧
    ∃ lin' r, VStep ps time (view s) lin t (view (step .fixed ps s t)) lin' r ∧
      (∀ res, r = some res → ((step .fixed ps s t).out.getD t []).getLast? = some res) := by
  obtain ⟨r, hst⟩ := step_spec ps s t hl.lpc (fun c => hv.no_got t c) hen
  obtain ⟨h1, ⟨lin', h2⟩, h3⟩ := lstep_view hl hv ht hst time lin
  exact ⟨h1, vwf_step hv ht h2, lin', r, h2, h3⟩

theorem reachable_wf {ps i0 s} (hr : Reachable .fixed ps i0 s) : LWF ps s ∧ VWF ps (view s) := by
  induction hr with
  | init => exact ⟨lwf_init ps i0, vwf_init ps i0⟩
  | step s t _ ht hen ih =>
    obtain ⟨h1, h2, _⟩ := step_view ih.1 ih.2 ht hen 0 []
    exact ⟨h1, h2⟩

end Zarrs.MemConc
