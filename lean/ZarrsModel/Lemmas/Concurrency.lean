import ZarrsModel.Model.Concurrency
/-
Helper lemmas for `Props/C16Conc.lean`: `usize::div_ceil` as a Galois connection, the closed form of
`calc_concurrency_outer_inner` on well-formed recommendations.
-/
set_option Elab.async false
namespace Zarrs.Concurrency

/-! ### `div_ceil` -/

theorem divCeil_le_iff {a b k : Nat} (hb : 0 < b) : divCeil a b ≤ k ↔ a ≤ k * b := by
  unfold divCeil
  have hdm := Nat.div_add_mod a b
  have hlt := Nat.mod_lt a hb
  by_cases hr : a % b > 0
  · rw [if_pos hr]
    constructor
    · intro h
      have h1 : (a / b + 1) * b ≤ k * b := Nat.mul_le_mul_right b h
      rw [Nat.add_mul, Nat.one_mul, Nat.mul_comm] at h1
      omega
    · intro h
      have h2 : a / b < k := by
        apply (Nat.div_lt_iff_lt_mul hb).2
        rcases Nat.lt_or_ge a (k * b) with h3 | h3
        · exact h3
        · have : a = k * b := Nat.le_antisymm h h3
          rw [this, Nat.mul_mod_left] at hr
          omega
      omega
  · rw [if_neg hr]
    have hr0 : a % b = 0 := by omega
    constructor
    · intro h
      have h1 : a / b * b ≤ k * b := Nat.mul_le_mul_right b h
      rw [Nat.mul_comm] at h1
      omega
    · intro h
      have := Nat.div_le_div_right (c := b) h
      rwa [Nat.mul_div_cancel _ hb] at this

theorem le_divCeil_mul {a b : Nat} (hb : 0 < b) : a ≤ divCeil a b * b :=
  (divCeil_le_iff hb).1 (Nat.le_refl _)

theorem lt_divCeil_iff {a b k : Nat} (hb : 0 < b) : k < divCeil a b ↔ k * b < a := by
  have := divCeil_le_iff (a := a) (k := k) hb
  omega

theorem divCeil_mono {a a' b : Nat} (hb : 0 < b) (h : a ≤ a') : divCeil a b ≤ divCeil a' b :=
  (divCeil_le_iff hb).2 (Nat.le_trans h (le_divCeil_mul hb))

theorem divCeil_pos {a b : Nat} (ha : 0 < a) (hb : 0 < b) : 1 ≤ divCeil a b := by
  have := (lt_divCeil_iff (a := a) (k := 0) hb).2 (by omega)
  omega

/-- the other half of the characterisation: one less does not reach `a` -/
theorem pred_divCeil_mul_lt {a b : Nat} (ha : 0 < a) (hb : 0 < b) : (divCeil a b - 1) * b < a :=
  (lt_divCeil_iff hb).1 (by have := divCeil_pos ha hb; omega)

theorem divCeil?_eq {a b : Nat} (hb : 0 < b) : divCeil? a b = some (divCeil a b) := by
  unfold divCeil?
  rw [if_neg (by omega)]

/-! ### bounds -/

theorem natMin_eq_left {a b : Nat} (h : a ≤ b) : Nat.min a b = a := Nat.min_eq_left h
theorem natMin_eq_right {a b : Nat} (h : b ≤ a) : Nat.min a b = b := Nat.min_eq_right h

theorem capMax_le_left (n : Nat) (b : Option Nat) : capMax n b ≤ n := by
  cases b with
  | none => exact Nat.le_refl _
  | some m => exact Nat.min_le_left _ _

theorem capMax_leB (n : Nat) (b : Option Nat) : LeB (capMax n b) b := by
  intro m h
  subst h
  exact Nat.min_le_right _ _

theorem le_capMax {k n : Nat} {b : Option Nat} (h1 : k ≤ n) (h2 : LeB k b) : k ≤ capMax n b := by
  cases b with
  | none => exact h1
  | some m => exact Nat.le_min.2 ⟨h1, h2 m rfl⟩

theorem capMax_mono {n n' : Nat} (b : Option Nat) (h : n ≤ n') : capMax n b ≤ capMax n' b := by
  cases b with
  | none => exact h
  | some m =>
    show Nat.min n m ≤ Nat.min n' m
    exact Nat.le_min.2 ⟨Nat.le_trans (Nat.min_le_left _ _) h, Nat.min_le_right _ _⟩

theorem capMax_eq_of_leB {n : Nat} {b : Option Nat} (h : LeB n b) : capMax n b = n := by
  cases b with
  | none => rfl
  | some m => exact Nat.min_eq_left (h m rfl)

theorem leB_none (n : Nat) : LeB n none := fun _ h => nomatch h

theorem leB_some {n m : Nat} : LeB n (some m) ↔ n ≤ m :=
  ⟨fun h => h m rfl, fun h _ e => by cases e; exact h⟩

theorem LeB.trans {k n : Nat} {b : Option Nat} (h1 : k ≤ n) (h2 : LeB n b) : LeB k b :=
  fun m e => Nat.le_trans h1 (h2 m e)

/-! ### `RecommendedConcurrency::new` -/

theorem ofBounds_wf (s e : Bound) : (RecConc.ofBounds s e).WF := by
  refine ⟨Nat.le_max_right _ _, ?_⟩
  intro m h
  simp only [RecConc.ofBounds] at h
  cases e <;> simp only [Option.map_some, Option.map_none, Option.some.injEq, reduceCtorEq] at h <;>
    (subst h; exact Nat.le_max_right _ _)

theorem new_min (lo hi : Nat) : (RecConc.new lo hi).min = Nat.max lo 1 := rfl
theorem new_max (lo hi : Nat) : (RecConc.new lo hi).max = some (Nat.max hi 1) := rfl

theorem new_ordered {lo hi : Nat} (h : lo ≤ hi) : (RecConc.new lo hi).Ordered := by
  intro m e
  rw [new_max] at e
  cases e
  rw [new_min]
  exact Nat.max_le.2 ⟨Nat.le_trans h (Nat.le_max_left _ _), Nat.le_max_right _ _⟩

theorem chunksRec_wf (ccm n : Nat) : (chunksRec ccm n).WF := ofBounds_wf _ _

theorem chunksRec_ordered (ccm n : Nat) : (chunksRec ccm n).Ordered :=
  new_ordered (Nat.le_trans (Nat.min_le_left _ _) (Nat.le_max_left _ _))

/-! ### closed form of `calc_concurrency_outer_inner` -/

/-- the inner (codec) limit -/
def innerOf (t : Nat) (o i : RecConc) : Nat :=
  if i.min * o.min < t then capMax (divCeil t o.min) i.max else i.min

/-- the outer (chunk) limit -/
def outerOf (t : Nat) (o i : RecConc) : Nat :=
  if innerOf t o i * o.min < t then capMax (divCeil t (innerOf t o i)) o.max else o.min

theorem innerOf_pos {t : Nat} {o i : RecConc} (ho : o.WF) (hi : i.WF) : 1 ≤ innerOf t o i := by
  unfold innerOf
  split
  · next h =>
    have ht : 0 < t := by omega
    exact le_capMax (divCeil_pos ht ho.1) hi.2
  · exact hi.1

theorem outerOf_pos {t : Nat} {o i : RecConc} (ho : o.WF) (hi : i.WF) : 1 ≤ outerOf t o i := by
  unfold outerOf
  split
  · next h =>
    have ht : 0 < t := by omega
    exact le_capMax (divCeil_pos ht (innerOf_pos ho hi)) ho.2
  · exact ho.1

theorem calcOuterInner_eq {t : Nat} {o i : RecConc} (ho : o.WF) (hi : i.WF) :
    calcOuterInner t o i = some (outerOf t o i, innerOf t o i) := by
  have hi1 := innerOf_pos (t := t) ho hi
  unfold calcOuterInner
  simp only [divCeil?_eq ho.1, Option.map_some]
  have e1 : (if i.min * o.min < t then some (capMax (divCeil t o.min) i.max) else some i.min)
      = some (innerOf t o i) := by
    unfold innerOf; split <;> rfl
  rw [e1]
  simp only [divCeil?_eq hi1, Option.map_some]
  have e2 : (if innerOf t o i * o.min < t then some (capMax (divCeil t (innerOf t o i)) o.max) else some o.min)
      = some (outerOf t o i) := by
    unfold outerOf; split <;> rfl
  rw [e2]

/-! ### bounds, saturation, monotonicity of the closed form -/

theorem innerOf_ge_min {t : Nat} {o i : RecConc} (ho : o.WF) (hio : i.Ordered) : i.min ≤ innerOf t o i := by
  unfold innerOf
  split
  · next h =>
    refine le_capMax ?_ hio
    exact Nat.le_of_lt ((lt_divCeil_iff ho.1).2 h)
  · exact Nat.le_refl _

theorem innerOf_le_max {t : Nat} {o i : RecConc} (hio : i.Ordered) : LeB (innerOf t o i) i.max := by
  unfold innerOf
  split
  · exact capMax_leB _ _
  · exact hio

theorem outerOf_ge_min {t : Nat} {o i : RecConc} (ho : o.WF) (hi : i.WF) (hoo : o.Ordered) :
    o.min ≤ outerOf t o i := by
  unfold outerOf
  split
  · next h =>
    refine le_capMax ?_ hoo
    have := (lt_divCeil_iff (a := t) (k := o.min) (innerOf_pos (t := t) ho hi)).2 (by rw [Nat.mul_comm]; exact h)
    exact Nat.le_of_lt this
  · exact Nat.le_refl _

theorem outerOf_le_max {t : Nat} {o i : RecConc} (hoo : o.Ordered) : LeB (outerOf t o i) o.max := by
  unfold outerOf
  split
  · exact capMax_leB _ _
  · exact hoo

/-- the outer limit is raised only when the inner limit sits at its (finite) maximum and still falls short -/
theorem inner_saturated {t : Nat} {o i : RecConc} (ho : o.WF) (h : innerOf t o i * o.min < t) :
    i.max = some (innerOf t o i) ∧ i.min * o.min < t ∧ innerOf t o i < divCeil t o.min := by
  unfold innerOf at h ⊢
  by_cases hs : i.min * o.min < t
  · rw [if_pos hs] at h ⊢
    cases hm : i.max with
    | none =>
      rw [hm] at h
      have := le_divCeil_mul (a := t) ho.1
      simp only [capMax] at h
      omega
    | some m =>
      rw [hm] at h
      simp only [capMax] at h ⊢
      have h1 := le_divCeil_mul (a := t) ho.1
      rcases Nat.le_total (divCeil t o.min) m with h2 | h2
      · rw [natMin_eq_left h2] at h; omega
      · rw [natMin_eq_right h2] at h ⊢
        refine ⟨rfl, hs, ?_⟩
        exact (lt_divCeil_iff ho.1).2 h
  · rw [if_neg hs] at h
    omega

theorem innerOf_mono {t t' : Nat} {o i : RecConc} (ho : o.WF) (hio : i.Ordered) (h : t ≤ t') :
    innerOf t o i ≤ innerOf t' o i := by
  by_cases hs : i.min * o.min < t
  · have hs' : i.min * o.min < t' := by omega
    unfold innerOf
    rw [if_pos hs, if_pos hs']
    exact capMax_mono _ (divCeil_mono ho.1 h)
  · have : innerOf t o i = i.min := by unfold innerOf; rw [if_neg hs]
    rw [this]
    exact innerOf_ge_min ho hio

theorem outerOf_mono {t t' : Nat} {o i : RecConc} (ho : o.WF) (hi : i.WF) (hoo : o.Ordered) (h : t ≤ t') :
    outerOf t o i ≤ outerOf t' o i := by
  by_cases hs : innerOf t o i * o.min < t
  · obtain ⟨hm, hlt, hdc⟩ := inner_saturated ho hs
    -- the inner limit stays at its maximum
    have hi' : innerOf t' o i = innerOf t o i := by
      have hlt' : i.min * o.min < t' := by omega
      have hdc' : innerOf t o i < divCeil t' o.min := Nat.lt_of_lt_of_le hdc (divCeil_mono ho.1 h)
      show (if i.min * o.min < t' then capMax (divCeil t' o.min) i.max else i.min) = _
      rw [if_pos hlt', hm]
      exact Nat.min_eq_right (Nat.le_of_lt hdc')
    have hs' : innerOf t' o i * o.min < t' := by rw [hi']; omega
    unfold outerOf
    rw [if_pos hs, if_pos hs', hi']
    exact capMax_mono _ (divCeil_mono (innerOf_pos ho hi) h)
  · have : outerOf t o i = o.min := by unfold outerOf; rw [if_neg hs]
    rw [this]
    exact outerOf_ge_min ho hi hoo

/-- `outer.max() * inner.max()` (`none` = unbounded) -/
def maxProduct (o i : RecConc) : Option Nat :=
  match o.max, i.max with
  | some a, some b => some (a * b)
  | _, _ => none

theorem reaches_of_reachable {t : Nat} {o i : RecConc} (ho : o.WF) (hi : i.WF)
    (h : LeB t (maxProduct o i)) : t ≤ outerOf t o i * innerOf t o i := by
  by_cases hs : innerOf t o i * o.min < t
  · obtain ⟨hm, _, _⟩ := inner_saturated ho hs
    have hpos := innerOf_pos (t := t) ho hi
    have : outerOf t o i = capMax (divCeil t (innerOf t o i)) o.max := by unfold outerOf; rw [if_pos hs]
    rw [this]
    cases hom : o.max with
    | none => exact le_divCeil_mul hpos
    | some mo =>
      have h' : t ≤ mo * innerOf t o i := by
        have := h (mo * innerOf t o i) (by unfold maxProduct; rw [hom, hm])
        exact this
      have : divCeil t (innerOf t o i) ≤ mo := (divCeil_le_iff hpos).2 h'
      simp only [capMax]
      rw [natMin_eq_left this]
      exact le_divCeil_mul hpos
  · have : outerOf t o i = o.min := by unfold outerOf; rw [if_neg hs]
    rw [this, Nat.mul_comm]
    omega

theorem reachable_of_reaches {t : Nat} {o i : RecConc} (hoo : o.Ordered) (hio : i.Ordered)
    (h : t ≤ outerOf t o i * innerOf t o i) : LeB t (maxProduct o i) := by
  intro m hm
  unfold maxProduct at hm
  cases hom : o.max with
  | none => rw [hom] at hm; cases hm
  | some mo =>
    cases him : i.max with
    | none => rw [hom, him] at hm; cases hm
    | some mi =>
      rw [hom, him] at hm
      cases hm
      have h1 := outerOf_le_max (t := t) (i := i) hoo mo hom
      have h2 := innerOf_le_max (t := t) (o := o) hio mi him
      exact Nat.le_trans h (Nat.mul_le_mul h1 h2)

/-- an unreachable target: both limits end at their maxima -/
theorem saturates {t mo mi : Nat} {o i : RecConc} (ho : o.WF) (hi : i.WF) (hoo : o.Ordered) (hio : i.Ordered)
    (hom : o.max = some mo) (him : i.max = some mi) (h : mo * mi < t) :
    outerOf t o i = mo ∧ innerOf t o i = mi := by
  have ho1 : o.min ≤ mo := hoo mo hom
  have hi1 : i.min ≤ mi := hio mi him
  have hmi : 1 ≤ mi := hi.2 mi him
  have hlt : i.min * o.min < t := Nat.lt_of_le_of_lt (by rw [Nat.mul_comm]; exact Nat.mul_le_mul ho1 hi1) h
  have hmo : mi * o.min < t := Nat.lt_of_le_of_lt (by rw [Nat.mul_comm]; exact Nat.mul_le_mul ho1 (Nat.le_refl _)) h
  have e1 : innerOf t o i = mi := by
    unfold innerOf
    rw [if_pos hlt, him]
    exact Nat.min_eq_right (Nat.le_of_lt ((lt_divCeil_iff ho.1).2 hmo))
  refine ⟨?_, e1⟩
  unfold outerOf
  rw [e1, if_pos hmo, hom]
  exact Nat.min_eq_right (Nat.le_of_lt ((lt_divCeil_iff hmi).2 h))

theorem inner_tight {t : Nat} {o i : RecConc} (ho : o.WF) (h : i.min < innerOf t o i) :
    (innerOf t o i - 1) * o.min < t := by
  unfold innerOf at h ⊢
  by_cases hs : i.min * o.min < t
  · rw [if_pos hs] at h ⊢
    have h1 := capMax_le_left (divCeil t o.min) i.max
    exact (lt_divCeil_iff ho.1).1 (by omega)
  · rw [if_neg hs] at h; omega

theorem outer_tight {t : Nat} {o i : RecConc} (ho : o.WF) (hi : i.WF) (h : o.min < outerOf t o i) :
    (outerOf t o i - 1) * innerOf t o i < t := by
  unfold outerOf at h ⊢
  by_cases hs : innerOf t o i * o.min < t
  · rw [if_pos hs] at h ⊢
    have h1 := capMax_le_left (divCeil t (innerOf t o i)) o.max
    exact (lt_divCeil_iff (innerOf_pos ho hi)).1 (by omega)
  · rw [if_neg hs] at h; omega

theorem no_raise {t : Nat} {o i : RecConc} (h : t ≤ i.min * o.min) :
    outerOf t o i = o.min ∧ innerOf t o i = i.min := by
  have e : innerOf t o i = i.min := by unfold innerOf; rw [if_neg (by omega)]
  refine ⟨?_, e⟩
  unfold outerOf
  rw [e, if_neg (by omega)]

/-! ### `iter_subdivide` -/

theorem subdivideChunkSize_pos (limit len : Nat) : 1 ≤ subdivideChunkSize limit len := by
  unfold subdivideChunkSize
  split
  · exact Nat.le_refl _
  · exact Nat.le_max_right _ _

theorem le_subdivide_mul {limit len : Nat} (hl : 1 ≤ limit) : len ≤ limit * subdivideChunkSize limit len := by
  unfold subdivideChunkSize
  rw [if_neg (by omega)]
  have h1 : len + limit - 1 < ((len + limit - 1) / limit + 1) * limit :=
    (Nat.div_lt_iff_lt_mul hl).1 (Nat.lt_succ_self _)
  have h2 : (len + limit - 1) / limit ≤ Nat.max ((len + limit - 1) / limit) 1 := Nat.le_max_left _ _
  have h3 := Nat.mul_le_mul_left limit h2
  rw [Nat.add_mul, Nat.one_mul, Nat.mul_comm] at h1
  omega

theorem subdivideGroups_le {limit len : Nat} (hl : 1 ≤ limit) : subdivideGroups limit len ≤ limit :=
  (divCeil_le_iff (subdivideChunkSize_pos _ _)).2 (le_subdivide_mul hl)

theorem subdivideGroups_cover (limit len : Nat) : len ≤ subdivideGroups limit len * subdivideChunkSize limit len :=
  le_divCeil_mul (subdivideChunkSize_pos _ _)

/-! ### `CodecChain::recommended_concurrency` -/

theorem foldl_min_le (others : List RecConc) (a : Nat) :
    others.foldl (fun a r => Nat.min a r.min) a ≤ a := by
  induction others generalizing a with
  | nil => exact Nat.le_refl _
  | cons r rs ih => exact Nat.le_trans (ih _) (Nat.min_le_left _ _)

theorem foldl_min_of_one (others : List RecConc) (a : Nat) (h : a = 1 ∨ ∃ r ∈ others, r.min = 1)
    (hall : 1 ≤ a ∧ ∀ r ∈ others, 1 ≤ r.min) :
    others.foldl (fun a r => Nat.min a r.min) a = 1 := by
  induction others generalizing a with
  | nil =>
    rcases h with h | ⟨r, hr, _⟩
    · exact h
    · cases hr
  | cons r rs ih =>
    simp only [List.foldl_cons]
    have hr1 : 1 ≤ r.min := hall.2 r (List.mem_cons_self ..)
    apply ih
    · rcases h with h | ⟨r', hr', h1⟩
      · left; subst h; exact Nat.min_eq_left hr1
      · rcases List.mem_cons.1 hr' with e | hmem
        · left; subst e; rw [h1]; exact Nat.min_eq_right hall.1
        · right; exact ⟨r', hmem, h1⟩
    · exact ⟨Nat.le_min.2 ⟨hall.1, hr1⟩, fun r' hr' => hall.2 r' (List.mem_cons_of_mem _ hr')⟩

theorem chainRec_wf (a2b : RecConc) (others : List RecConc) : (chainRec a2b others).WF := by
  unfold chainRec
  dsimp only
  split <;> exact ofBounds_wf _ _

theorem chainRec_ordered (a2b : RecConc) (others : List RecConc) : (chainRec a2b others).Ordered := by
  unfold chainRec
  dsimp only
  split
  · exact leB_none _
  · exact new_ordered (Nat.le_trans (Nat.min_le_right _ _) (Nat.le_max_left _ _))

end Zarrs.Concurrency
