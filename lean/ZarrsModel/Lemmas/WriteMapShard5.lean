import ZarrsModel.Lemmas.WriteMapShard4
import ZarrsModel.Lemmas.PartialTranspose
import ZarrsModel.Lemmas.PartialSqueeze
set_option Elab.async false
/- helper lemmas for C17 (sharded routes), part 5: every buffer published along a (nested) chain is tiled -/
namespace Zarrs
open Zarrs.Subset
open Zarrs.Partial (AStage aOk shapesOf tiles_length tiles_pos chunksPerShard_of_tiles chunk_item_facts)

/-- the chain fits the chunk shape: the array-to-array codecs accept their shapes and, at every sharding level, the
inner chunk shape tiles the (encoded) shard shape -/
def WChain.wf : WChain → Shape → Prop
  | .leaf _, _ => True
  | .shard a2a inner sub, sh => aOk a2a sh ∧ Partial.tiles inner (shapesOf a2a sh) = true ∧ sub.wf inner

theorem flatOpt_map_all {α β} (P : α → Prop) (l : List β) (f : β → Option (List α))
    (h : ∀ x ∈ l, ∃ m, f x = some m ∧ ∀ y ∈ m, P y) :
    ∃ m, flatOpt (l.map f) = some m ∧ ∀ y ∈ m, P y := by
  induction l with
  | nil => exact ⟨[], rfl, by simp⟩
  | cons x xs ih =>
    obtain ⟨m1, h1, p1⟩ := h x (by simp)
    obtain ⟨m2, h2, p2⟩ := ih (fun y hy => h y (by simp [hy]))
    refine ⟨m1 ++ m2, by simp only [List.map_cons, flatOpt, h1, h2], ?_⟩
    intro y hy
    rcases List.mem_append.mp hy with hy | hy
    · exact p1 y hy
    · exact p2 y hy

/-- the region handed down through the array-to-array partial decoders stays a region of the encoded shape -/
theorem a2aRegion_ok : ∀ (a2a : List AStage) (sh : Shape) (r : Subset), aOk a2a sh → r.wf = true →
    r.inboundsShape sh = true →
    (a2aRegion a2a sh r).wf = true ∧ (a2aRegion a2a sh r).inboundsShape (shapesOf a2a sh) = true := by
  intro a2a
  induction a2a with
  | nil => intro sh r _ hr hb; exact ⟨hr, hb⟩
  | cons st rest ih =>
    intro sh r hok hr hb
    obtain ⟨hst, hrest⟩ := hok
    have hs : shapesOf (st :: rest) sh = shapesOf rest (st.encShape sh) := rfl
    rw [hs]
    cases st with
    | transpose order =>
      obtain ⟨h1, h2⟩ := Partial.permRegion_ok order sh r hr hb
      exact ih _ _ hrest h1 h2
    | squeeze =>
      obtain ⟨h1, h2, _⟩ := Partial.squeezeRegion_ok sh (List.replicate (prod sh) []) r hst (by simp) hr hb
      exact ih _ _ hrest h1 h2
    | cache => exact ih _ _ hrest hr hb

/-- the map of a whole-shard decode exists and tiles -/
theorem shardDecodeMap_tiles {inner sh : Shape} (ht : Partial.tiles inner sh = true) (es : Nat) :
    ∃ m, shardDecodeMap sh inner es = some m ∧ tiles (prod sh * es) m = true := by
  simp only [shardDecodeMap, shardDecodeViews, chunksPerShard_of_tiles ht]
  split
  · rename_i h0
    simp only [beq_iff_eq] at h0
    exact ⟨[], rfl, by rw [h0]; rfl⟩
  · refine ⟨_, rfl, (tiles_iff_perm _ _).mpr ?_⟩
    rw [List.flatMap_map]
    exact shardDecode_perm ht es

/-- the map of one region of the sharding partial decoder exists and tiles -/
theorem shardPDMap_tiles {inner sh : Shape} (ht : Partial.tiles inner sh = true) (r : Subset) (hr : r.wf = true)
    (hb : r.inboundsShape sh = true) (es : Nat) :
    ∃ m, shardPDMap (zipDiv sh inner) inner r es = some m ∧ tiles (r.numElements * es) m = true := by
  have hb' := hb
  simp only [Subset.inboundsShape, Subset.rank, Bool.and_eq_true, beq_iff_eq] at hb'
  have hcl : inner.length = r.rank := by
    have := tiles_length ht; simp only [Subset.rank]; omega
  have hall : (r.chunks inner).all (fun p => decide (ravel p.1 (zipDiv sh inner) < prod (zipDiv sh inner))) = true := by
    rw [List.all_eq_true]
    intro p hp
    obtain ⟨_, _, _, _, hin, _⟩ := chunk_item_facts ht r hr hb p hp
    simp only [decide_eq_true_eq]
    exact ravel_lt _ _ hin
  simp only [shardPDMap, hall, if_true]
  exact ⟨_, rfl, (tiles_iff_perm _ _).mpr (shardPD_perm inner r hr (tiles_pos ht) hcl es)⟩

/-- **every buffer published by a whole-chunk decode is tiled, for any nesting depth** -/
theorem decodePubs_tile (es : Nat) : ∀ (c : WChain) (sh : Shape) (pres : Presence), c.wf sh →
    ∃ pubs, c.decodePubs es sh pres = some pubs ∧ ∀ pub ∈ pubs, tiles pub.1 pub.2 = true := by
  intro c
  induction c with
  | leaf a2a =>
    intro sh pres _
    cases pres <;> exact ⟨[], rfl, by simp⟩
  | shard a2a inner sub ih =>
    intro sh pres hwf
    obtain ⟨_, ht, hsub⟩ := hwf
    cases pres with
    | missing => exact ⟨[], rfl, by simp⟩
    | stored ps =>
      obtain ⟨m, hm, hmt⟩ := shardDecodeMap_tiles ht es
      simp only [WChain.decodePubs, chunksPerShard_of_tiles ht, hm]
      split
      · exact ⟨[], rfl, by simp⟩
      · obtain ⟨ip, hip, hipt⟩ := flatOpt_map_all (fun pub : Pub => tiles pub.1 pub.2 = true)
          (List.range (prod (zipDiv (shapesOf a2a sh) inner))) (fun k => sub.decodePubs es inner (ps k))
          (fun k _ => ih inner (ps k) hsub)
        simp only [hip]
        refine ⟨_, rfl, ?_⟩
        intro pub hpub
        rcases List.mem_append.mp hpub with h | h
        · exact hipt pub h
        · simp only [List.mem_singleton] at h
          subst h
          exact hmt

/-- every buffer published while a stored chunk is decoded into a view is tiled, for any nesting depth -/
theorem decodeIntoPubs_tile (es : Nat) : ∀ (c : WChain) (sh : Shape) (pres : Presence), c.wf sh →
    ∃ pubs, c.decodeIntoPubs es sh pres = some pubs ∧ ∀ pub ∈ pubs, tiles pub.1 pub.2 = true := by
  intro c
  induction c with
  | leaf a2a =>
    intro sh pres _
    cases pres <;> exact ⟨[], rfl, by simp⟩
  | shard a2a inner sub ih =>
    intro sh pres hwf
    cases pres with
    | missing => exact ⟨[], rfl, by simp⟩
    | stored ps =>
      simp only [WChain.decodeIntoPubs]
      split
      · exact decodePubs_tile es _ sh _ hwf
      · rename_i he
        have : a2a = [] := by simpa using he
        subst this
        obtain ⟨_, ht, hsub⟩ := hwf
        have ht' : Partial.tiles inner sh = true := ht
        simp only [chunksPerShard_of_tiles ht']
        exact flatOpt_map_all (fun pub : Pub => tiles pub.1 pub.2 = true) _ _ (fun k _ => ih inner (ps k) hsub)

/-- **every buffer published by a partial decode of an in-bounds region is tiled, for any nesting depth** -/
theorem pdPubs_tile (es : Nat) : ∀ (c : WChain) (sh : Shape) (pres : Presence) (r : Subset), c.wf sh →
    r.wf = true → r.inboundsShape sh = true →
    ∃ pubs, c.pdPubs es sh pres r = some pubs ∧ ∀ pub ∈ pubs, tiles pub.1 pub.2 = true := by
  intro c
  induction c with
  | leaf a2a =>
    intro sh pres r _ _ _
    cases pres <;> exact ⟨[], rfl, by simp⟩
  | shard a2a inner sub ih =>
    intro sh pres r hwf hr hb
    obtain ⟨hok, ht, hsub⟩ := hwf
    cases pres with
    | missing => exact ⟨[], rfl, by simp⟩
    | stored ps =>
      obtain ⟨hr', hb'⟩ := a2aRegion_ok a2a sh r hok hr hb
      obtain ⟨m, hm, hmt⟩ := shardPDMap_tiles ht (a2aRegion a2a sh r) hr' hb' es
      simp only [WChain.pdPubs, chunksPerShard_of_tiles ht, hm]
      obtain ⟨ip, hip, hipt⟩ := flatOpt_map_all (fun pub : Pub => tiles pub.1 pub.2 = true)
        ((a2aRegion a2a sh r).chunks inner)
        (fun p => sub.pdPubs es inner (ps (ravel p.1 (zipDiv (shapesOf a2a sh) inner)))
          (((a2aRegion a2a sh r).overlap p.2).relativeTo p.2.start))
        (by
          intro p hp
          obtain ⟨hp2, _, hcwf, hcrank, _, hovwf, hovrank, hovne, hov, _⟩ :=
            chunk_item_facts ht (a2aRegion a2a sh r) hr' hb' p hp
          have hsub1 : ∀ i, ((a2aRegion a2a sh r).overlap p.2).contains i = true → p.2.contains i = true := by
            intro i hi; rw [hov, Bool.and_eq_true] at hi; exact hi.2
          obtain ⟨hqw, hqb, _, _⟩ := Subset.rel_facts ((a2aRegion a2a sh r).overlap p.2) p.2 hovwf hcwf
            (by rw [hovrank, hcrank]) hovne hsub1
          have hps : p.2.shape = inner := by rw [hp2]
          rw [hps] at hqb
          exact ih inner _ _ hsub hqw hqb)
      simp only [hip]
      refine ⟨_, rfl, ?_⟩
      intro pub hpub
      rcases List.mem_append.mp hpub with h | h
      · exact hipt pub h
      · simp only [List.mem_singleton] at h
        subst h
        exact hmt

/-- the `decode_into` tree of a fitting chain is well-formed whatever is stored -/
theorem intoTree_wf : ∀ (c : WChain) (sh : Shape) (pres : Presence), c.wf sh → (c.intoTree pres).wf sh := by
  intro c
  induction c with
  | leaf a2a =>
    intro sh pres _
    cases pres <;> exact trivial
  | shard a2a inner sub ih =>
    intro sh pres hwf
    obtain ⟨_, ht, hsub⟩ := hwf
    cases pres with
    | missing => exact trivial
    | stored ps =>
      simp only [WChain.intoTree]
      split
      · rename_i he
        have : a2a = [] := by simpa using he
        subst this
        exact ⟨ht, fun k _ => ih inner (ps k) hsub⟩
      · exact trivial

end Zarrs
