import ZarrsModel.Lemmas.DeflateHuff
set_option Elab.async false
/-
The symbols of a compressed block: `blockLoop` of the reader on the bits of any encodable token list (literals and
copies) under any valid pair of code-length assignments gives `render`.
-/
namespace Zarrs.DeflateSpec
open Zarrs Zarrs.Inflate

/-! ### base/extra-bits tables -/

theorem symIdx_spec (t : List Nat) (x : Nat) (hne : t ≠ []) (h0 : t.headD 0 ≤ x) :
    symIdx t x < t.length ∧ t.getD (symIdx t x) 0 ≤ x ∧
      (symIdx t x + 1 < t.length → x < t.getD (symIdx t x + 1) 0) := by
  induction t with
  | nil => exact absurd rfl hne
  | cons a t ih =>
    cases t with
    | nil => simpa [symIdx] using h0
    | cons b bs =>
      by_cases hx : x < b
      · simp only [symIdx, hx, if_true]
        refine ⟨by simp, by simpa using h0, fun _ => by simpa using hx⟩
      · simp only [symIdx, hx, if_false]
        obtain ⟨h1, h2, h3⟩ := ih (by simp) (by simp only [List.headD_cons]; omega)
        refine ⟨by simp only [List.length_cons] at h1 ⊢; omega, ?_, ?_⟩
        · rw [List.getD_cons_succ]; exact h2
        · intro hlt
          rw [List.getD_cons_succ]
          exact h3 (by simp only [List.length_cons] at hlt ⊢; omega)

theorem lenBase_step : ∀ i, i < 28 → lenBase.getD (i + 1) 0 ≤ lenBase.getD i 0 + 2 ^ lenExtra.getD i 0 := by decide
theorem distBase_step : ∀ i, i < 29 → distBase.getD (i + 1) 0 ≤ distBase.getD i 0 + 2 ^ distExtra.getD i 0 := by
  decide

theorem lenSym_spec (len : Nat) (h3 : 3 ≤ len) (h258 : len ≤ 258) :
    lenSym len < 29 ∧ lenBase.getD (lenSym len) 0 ≤ len ∧
      len - lenBase.getD (lenSym len) 0 < 2 ^ lenExtra.getD (lenSym len) 0 := by
  obtain ⟨h1, h2, hn⟩ := symIdx_spec lenBase len (by decide) (by simpa [lenBase] using h3)
  have hl : lenBase.length = 29 := rfl
  rw [hl] at h1 hn
  refine ⟨h1, h2, ?_⟩
  unfold lenSym
  by_cases h28 : symIdx lenBase len = 28
  · rw [h28]
    have : lenBase.getD 28 0 = 258 := rfl
    have e : lenExtra.getD 28 0 = 0 := rfl
    rw [this, e]
    omega
  · have := lenBase_step (symIdx lenBase len) (by omega)
    have := hn (by omega)
    omega

theorem distSym_spec (dist : Nat) (h1 : 1 ≤ dist) (h2 : dist ≤ 32768) :
    distSym dist < 30 ∧ distBase.getD (distSym dist) 0 ≤ dist ∧
      dist - distBase.getD (distSym dist) 0 < 2 ^ distExtra.getD (distSym dist) 0 := by
  obtain ⟨h1', h2', hn⟩ := symIdx_spec distBase dist (by decide) (by simpa [distBase] using h1)
  have hl : distBase.length = 30 := rfl
  rw [hl] at h1' hn
  refine ⟨h1', h2', ?_⟩
  unfold distSym
  by_cases h29 : symIdx distBase dist = 29
  · rw [h29]
    have : distBase.getD 29 0 = 24577 := rfl
    have e : distExtra.getD 29 0 = 13 := rfl
    rw [this, e]
    omega
  · have := distBase_step (symIdx distBase dist) (by omega)
    have := hn (by omega)
    omega

/-! ### extra bits -/

theorem takeBits_bitsLsb (n v : Nat) (r : Bits) (hv : v < 2 ^ n) : takeBits n (bitsLsb n v ++ r) = some (v, r) := by
  have := takeBits_bitsN n 0 v r
  unfold bitsLsb
  rw [Nat.add_zero] at this
  rw [this]
  simp [takeBits, Nat.mod_eq_of_lt hv]

theorem bitsLsb_length (n v : Nat) : (bitsLsb n v).length = n := by simp [bitsLsb]

/-! ### copies -/

theorem copyBack_eq (n dist : Nat) (out : Array Nat) (h1 : 1 ≤ dist) (h2 : dist ≤ out.size) :
    copyBack n dist out = some (copyFrom n dist out.toList).toArray := by
  induction n generalizing out with
  | zero => simp [copyBack, copyFrom]
  | succ n ih =>
    have hc : ¬ (dist = 0 ∨ dist > out.size) := by omega
    simp only [copyBack, copyFrom, beq_iff_eq, Bool.or_eq_true, decide_eq_true_eq, hc, if_false]
    rw [ih _ (by simp only [Array.size_push]; omega)]
    congr 3
    cases out with
    | mk l =>
      simp only [Array.getD, List.getD_eq_getElem?_getD, Array.size]
      by_cases h : l.length - dist < l.length
      · simp [h]
      · simp [h]

/-! ### one step of the block loop on a copy -/

theorem blockLoop_copy (L D : Huff) (fuel : Nat) (bs b1 b2 b3 b4 : Bits) (out out' : Array Nat) (sym le ds de : Nat)
    (h1 : decodeSym L bs = some (sym, b1)) (hs : 257 ≤ sym) (hs' : sym ≤ 285)
    (h2 : takeBits (lenExtra.getD (sym - 257) 0) b1 = some (le, b2))
    (h3 : decodeSym D b2 = some (ds, b3)) (hd : ds ≤ 29)
    (h4 : takeBits (distExtra.getD ds 0) b3 = some (de, b4))
    (h5 : copyBack (lenBase.getD (sym - 257) 0 + le) (distBase.getD ds 0 + de) out = some out') :
    blockLoop L D (fuel + 1) bs out = blockLoop L D fuel b4 out' := by
  show (match decodeSym L bs with | none => none | some (sym, bs) => _) = _
  rw [h1]
  have c1 : ¬ sym < 256 := by omega
  have c2 : (sym == 256) = false := by simp; omega
  have c3 : ¬ sym > 285 := by omega
  have c4 : ¬ ds > 29 := by omega
  simp only [c1, c2, c3, if_false, Bool.false_eq_true]
  rw [h2]
  simp only
  rw [h3]
  simp only [c4, if_false]
  rw [h4]
  simp only
  rw [h5]

/-! ### the bits of a token list -/

theorem encTokens_length (litLens distLens : List Nat) (toks : List Token) (bits : Bits)
    (he : encTokens litLens distLens toks = some bits) : toks.length + 1 ≤ bits.length := by
  induction toks generalizing bits with
  | nil => exact codeOf_length_pos _ _ _ he
  | cons t ts ih =>
    simp only [encTokens] at he
    cases ha : encToken litLens distLens t with
    | none => simp [ha] at he
    | some a =>
      cases hb : encTokens litLens distLens ts with
      | none => simp [ha, hb] at he
      | some b =>
        simp only [ha, hb, Option.some.injEq] at he
        subst he
        have h1 := ih b hb
        have h2 : 1 ≤ a.length := by
          cases t with
          | lit x =>
            simp only [encToken] at ha
            split at ha
            · exact codeOf_length_pos _ _ _ ha
            · cases ha
          | copy len dist =>
            simp only [encToken] at ha
            split at ha
            · cases hc1 : codeOf litLens (257 + lenSym len) with
              | none => simp [hc1] at ha
              | some c1 =>
                cases hc2 : codeOf distLens (distSym dist) with
                | none => simp [hc1, hc2] at ha
                | some c2 =>
                  simp only [hc1, hc2, Option.some.injEq] at ha
                  subst ha
                  have := codeOf_length_pos _ _ _ hc1
                  simp only [List.length_append]
                  omega
            · cases ha
        simp only [List.length_cons, List.length_append]
        omega

/-- **the symbols of one block decode to the rendering of its tokens** -/
theorem blockLoop_tokens (litLens distLens : List Nat) (hL : validLens litLens = true)
    (hD : validLens distLens = true) (toks : List Token) (bits tail : Bits) (out : Array Nat) (res : Bytes)
    (fuel : Nat) (he : encTokens litLens distLens toks = some bits) (hr : render toks out.toList = some res)
    (hf : toks.length < fuel) :
    blockLoop (mkHuff litLens) (mkHuff distLens) fuel (bits ++ tail) out = some (tail, res.toArray) := by
  induction toks generalizing bits out fuel with
  | nil =>
    obtain ⟨fuel, rfl⟩ : ∃ f, fuel = f + 1 := ⟨fuel - 1, by simp at hf; omega⟩
    simp only [encTokens] at he
    simp only [render, Option.some.injEq] at hr
    subst hr
    rw [blockLoop_eob _ _ _ _ _ _ (decodeSym_codeOf' litLens hL 256 bits tail he)]
  | cons t ts ih =>
    obtain ⟨fuel, rfl⟩ : ∃ f, fuel = f + 1 := ⟨fuel - 1, by simp at hf; omega⟩
    have hf' : ts.length < fuel := by simp only [List.length_cons] at hf; omega
    simp only [encTokens] at he
    cases ha : encToken litLens distLens t with
    | none => simp [ha] at he
    | some a =>
      cases hb : encTokens litLens distLens ts with
      | none => simp [ha, hb] at he
      | some b =>
        simp only [ha, hb, Option.some.injEq] at he
        subst he
        rw [List.append_assoc]
        simp only [render] at hr
        cases t with
        | lit x =>
          simp only [encToken] at ha
          simp only [renderTok] at hr
          by_cases hx : x < 256
          · rw [if_pos hx] at ha hr
            simp only at hr
            rw [blockLoop_lit _ _ _ _ _ _ _ (decodeSym_codeOf' litLens hL x a _ ha) hx]
            exact ih b (out.push x) fuel hb (by simpa using hr) hf'
          · rw [if_neg hx] at ha; cases ha
        | copy len dist =>
          simp only [encToken] at ha
          simp only [renderTok] at hr
          by_cases hok : 3 ≤ len ∧ len ≤ 258 ∧ 1 ≤ dist ∧ dist ≤ 32768
          · rw [if_pos hok] at ha
            by_cases hok2 : 3 ≤ len ∧ len ≤ 258 ∧ 1 ≤ dist ∧ dist ≤ 32768 ∧ dist ≤ out.toList.length
            · rw [if_pos hok2] at hr
              simp only at hr
              cases hc1 : codeOf litLens (257 + lenSym len) with
              | none => simp [hc1] at ha
              | some c1 =>
                cases hc2 : codeOf distLens (distSym dist) with
                | none => simp [hc1, hc2] at ha
                | some c2 =>
                  simp only [hc1, hc2, Option.some.injEq] at ha
                  subst ha
                  obtain ⟨hl1, hl2, hl3⟩ := lenSym_spec len hok.1 hok.2.1
                  obtain ⟨hd1, hd2, hd3⟩ := distSym_spec dist hok.2.2.1 hok.2.2.2
                  have hsz : dist ≤ out.size := by simpa using hok2.2.2.2.2
                  have e1 : lenBase.getD (257 + lenSym len - 257) 0 + (len - lenBase.getD (lenSym len) 0) = len := by
                    rw [Nat.add_sub_cancel_left]; omega
                  have e2 : distBase.getD (distSym dist) 0 + (dist - distBase.getD (distSym dist) 0) = dist := by
                    omega
                  rw [List.append_assoc, List.append_assoc, List.append_assoc]
                  rw [blockLoop_copy _ _ fuel _ _ _ _ _ out (copyFrom len dist out.toList).toArray
                    (257 + lenSym len) (len - lenBase.getD (lenSym len) 0) (distSym dist)
                    (dist - distBase.getD (distSym dist) 0)
                    (decodeSym_codeOf' litLens hL _ c1 _ hc1) (by omega) (by omega)
                    (by rw [Nat.add_sub_cancel_left]; exact takeBits_bitsLsb _ _ _ hl3)
                    (decodeSym_codeOf' distLens hD _ c2 _ hc2) (by omega)
                    (takeBits_bitsLsb _ _ _ hd3)
                    (by rw [e1, e2]; exact copyBack_eq len dist out hok.2.2.1 hsz)]
                  exact ih b _ fuel hb (by simpa using hr) hf'
            · rw [if_neg hok2] at hr; cases hr
          · rw [if_neg hok] at ha; cases ha

end Zarrs.DeflateSpec
