import ZarrsModel.Lemmas.ArrayOn
import ZarrsModel.Lemmas.Store
set_option Elab.async false
set_option linter.unusedSectionVars false
set_option linter.unusedSimpArgs false
/-
Two array configurations that differ only in the decoder behave alike on stores that hold nothing but encodings of
well-formed chunks, if the two decoders agree on such encodings.  Used to remove a guard from a decoder (Props/C01Vlen:
the element-length cap that makes `OkOn.decGood` hold): in a history from the empty store every stored value is the
encoding of a well-formed chunk (`Encoded`), so the guarded and the unguarded decoder are never told apart.
-/
namespace Zarrs
namespace ArrCfg
variable {α : Type} [DecidableEq α]

/-- the same configuration with another decoder -/
def withDec (cfg : ArrCfg α) (d : Bytes → Option (List α)) : ArrCfg α := { cfg with dec := d }

/-- every stored value is the encoding of a chunk satisfying `P` -/
def Encoded (cfg : ArrCfg α) (P : List α → Bool) (st : KV) : Prop :=
  ∀ k b, st.get k = some b → ∃ x, P x = true ∧ b = cfg.enc x

variable {cfg : ArrCfg α} {P : List α → Bool} {Pe : α → Bool} {d : Bytes → Option (List α)}

/-- the two decoders agree on encodings of well-formed chunks -/
def DecAgree (cfg : ArrCfg α) (P : List α → Bool) (d : Bytes → Option (List α)) : Prop :=
  ∀ x, P x = true → d (cfg.enc x) = cfg.dec (cfg.enc x)

theorem encoded_nil : Encoded cfg P [] := by
  intro k b h
  simp [KV.get] at h

theorem encoded_put {st : KV} (h : Encoded cfg P st) (k : Key) (x : List α) (hx : P x = true) :
    Encoded cfg P (st.put k (cfg.enc x)) := by
  intro k' b hb
  by_cases hk : k' = k
  · subst hk
    rw [KV.get_put_same] at hb
    exact ⟨x, hx, (Option.some.inj hb).symm⟩
  · rw [KV.get_put_other st k k' _ hk] at hb
    exact h k' b hb

theorem encoded_erase {st : KV} (h : Encoded cfg P st) (k : Key) : Encoded cfg P (st.erase k) := by
  intro k' b hb
  rw [KV.get_erase] at hb
  by_cases hk : k' = k
  · rw [if_pos hk] at hb; cases hb
  · rw [if_neg hk] at hb; exact h k' b hb

/-! ### reads agree on encoded stores -/

theorem wd_retrieveChunkIfExists (ha : DecAgree cfg P d) {st : KV} (hE : Encoded cfg P st) (c : Idx) :
    (cfg.withDec d).retrieveChunkIfExists st c = cfg.retrieveChunkIfExists st c := by
  show (match cfg.chunkShape c with
    | none => none
    | some s => match st.get (cfg.keyOf c) with
      | none => some none
      | some b => match d b with
        | some xs => if xs.length == prod s then some (some xs) else none
        | none => none) = cfg.retrieveChunkIfExists st c
  unfold retrieveChunkIfExists
  cases cfg.chunkShape c with
  | none => rfl
  | some s =>
    simp only
    cases hg : st.get (cfg.keyOf c) with
    | none => rfl
    | some b =>
      obtain ⟨x, hx, rfl⟩ := hE _ b hg
      simp only
      rw [ha x hx]
      cases cfg.dec (cfg.enc x) <;> rfl

theorem wd_retrieveChunk (ha : DecAgree cfg P d) {st : KV} (hE : Encoded cfg P st) (c : Idx) :
    (cfg.withDec d).retrieveChunk st c = cfg.retrieveChunk st c := by
  show (match cfg.chunkShape c, (cfg.withDec d).retrieveChunkIfExists st c with
    | some s, some none => some (List.replicate (prod s) cfg.fill)
    | some _, some (some xs) => some xs
    | _, _ => none) = cfg.retrieveChunk st c
  rw [wd_retrieveChunkIfExists ha hE]
  rfl

theorem wd_retrieveChunkSubset (ha : DecAgree cfg P d) {st : KV} (hE : Encoded cfg P st) (c : Idx) (r : Subset) :
    (cfg.withDec d).retrieveChunkSubset st c r = cfg.retrieveChunkSubset st c r := by
  show (match cfg.chunkShape c with
    | none => none
    | some s => if !r.inboundsShape s then none else
      ((cfg.withDec d).retrieveChunk st c).map (fun xs => r.extract s xs)) = cfg.retrieveChunkSubset st c r
  rw [wd_retrieveChunk ha hE]
  rfl

theorem wd_retrieveArraySubset (ha : DecAgree cfg P d) {st : KV} (hE : Encoded cfg P st) (r : Subset) :
    (cfg.withDec d).retrieveArraySubset st r = cfg.retrieveArraySubset st r := by
  have h1 : (cfg.withDec d).retrieveChunk st = cfg.retrieveChunk st := funext (wd_retrieveChunk ha hE)
  have h2 : (cfg.withDec d).retrieveChunkSubset st = cfg.retrieveChunkSubset st := by
    funext c r'; exact wd_retrieveChunkSubset ha hE c r'
  unfold retrieveArraySubset
  rw [h1, h2]
  rfl

theorem wd_retrieveChunks (ha : DecAgree cfg P d) {st : KV} (hE : Encoded cfg P st) (b : Subset) :
    (cfg.withDec d).retrieveChunks st b = cfg.retrieveChunks st b := by
  have h1 : (cfg.withDec d).retrieveChunk st = cfg.retrieveChunk st := funext (wd_retrieveChunk ha hE)
  unfold retrieveChunks
  rw [h1]
  rfl

theorem wd_absRun (ops : List (WriteOp α)) : (cfg.withDec d).absRun ops = cfg.absRun ops := by
  have : (cfg.withDec d).absOp = cfg.absOp := by
    funext a op
    cases op <;> rfl
  unfold absRun
  rw [this]
  rfl

/-! ### writes keep the store encoded, and agree -/

theorem encoded_storeChunk (hG : Good cfg P Pe) {st st' : KV} (hE : Encoded cfg P st) (c : Idx) (data : List α)
    (hd : ∀ e ∈ data, Pe e = true) (h : cfg.storeChunk st c data = some st') : Encoded cfg P st' := by
  unfold storeChunk at h
  cases hs : cfg.chunkShape c with
  | none => rw [hs] at h; cases h
  | some s =>
    rw [hs] at h
    simp only at h
    by_cases hl : (data.length != prod s) = true
    · rw [if_pos hl] at h; cases h
    · rw [if_neg hl] at h
      have hl' : data.length = prod s := by simpa using hl
      by_cases hc : (!cfg.storeEmpty && cfg.isFill data) = true
      · rw [if_pos hc] at h
        rw [← Option.some.inj h]
        exact encoded_erase hE _
      · rw [if_neg hc] at h
        rw [← Option.some.inj h]
        exact encoded_put hE _ data (hG.ofElems c s data hs hl' hd)

theorem encoded_storeChunkSubset (hG : Good cfg P Pe) {st st' : KV} (hE : Encoded cfg P st) (c : Idx) (r : Subset)
    (data : List α) (hd : ∀ e ∈ data, Pe e = true) (h : cfg.storeChunkSubset st c r data = some st') :
    Encoded cfg P st' := by
  unfold storeChunkSubset at h
  cases hs : cfg.chunkShape c with
  | none => rw [hs] at h; cases h
  | some s =>
    rw [hs] at h
    simp only at h
    by_cases h1 : (!(r.rank == s.length && Subset.allLe r.endExc s)) = true
    · rw [if_pos h1] at h; cases h
    · rw [if_neg h1] at h
      by_cases h2 : (r.shape == s && r.start.all (· == 0)) = true
      · rw [if_pos h2] at h
        exact encoded_storeChunk hG hE c data hd h
      · rw [if_neg h2] at h
        by_cases h3 : (data.length != r.numElements) = true
        · rw [if_pos h3] at h; cases h
        · rw [if_neg h3] at h
          cases hold : cfg.retrieveChunk st c with
          | none => rw [hold] at h; cases h
          | some old =>
            rw [hold] at h
            simp only at h
            apply encoded_storeChunk hG hE c _ _ h
            intro e he
            rcases mem_updateRuns s r old data e he with h' | h'
            · exact retrieveChunk_good hG st c old hold e h'
            · exact hd e h'

theorem foldOpt_keeps {β} (I : KV → Prop) (f : KV → β → Option KV) (l : List β)
    (h : ∀ st b st', b ∈ l → I st → f st b = some st' → I st') :
    ∀ st st', I st → foldOpt f st l = some st' → I st' := by
  induction l with
  | nil => intro st st' hI hf; simp only [foldOpt] at hf; rw [← Option.some.inj hf]; exact hI
  | cons b bs ih =>
    intro st st' hI hf
    simp only [foldOpt] at hf
    cases hb : f st b with
    | none => rw [hb] at hf; cases hf
    | some st1 =>
      rw [hb] at hf
      exact ih (fun st b' st' hb' => h st b' st' (by simp [hb'])) st1 st' (h st b st1 (by simp) hI hb) hf

theorem foldOpt_same {β} (I : KV → Prop) (f g : KV → β → Option KV) (l : List β)
    (hfg : ∀ st b, b ∈ l → I st → g st b = f st b)
    (h : ∀ st b st', b ∈ l → I st → f st b = some st' → I st') :
    ∀ st, I st → foldOpt g st l = foldOpt f st l := by
  induction l with
  | nil => intro st _; rfl
  | cons b bs ih =>
    intro st hI
    simp only [foldOpt, hfg st b (by simp) hI]
    cases hb : f st b with
    | none => rfl
    | some st1 =>
      simp only
      exact ih (fun st b' hb' => hfg st b' (by simp [hb'])) (fun st b' st' hb' => h st b' st' (by simp [hb']))
        st1 (h st b st1 (by simp) hI hb)

theorem encoded_applyOp (hG : Good cfg P Pe) {st st' : KV} (hE : Encoded cfg P st) (op : WriteOp α)
    (hd : ∀ e ∈ opData op, Pe e = true) (h : cfg.applyOp st op = some st') : Encoded cfg P st' := by
  cases op with
  | storeChunk c data => exact encoded_storeChunk hG hE c data hd h
  | storeChunkSubset c r data => exact encoded_storeChunkSubset hG hE c r data hd h
  | eraseChunk c =>
    simp only [applyOp, eraseChunk] at h
    rw [← Option.some.inj h]
    exact encoded_erase hE _
  | eraseChunks b =>
    simp only [applyOp, eraseChunks, eraseChunk] at h
    rw [← Option.some.inj h]
    clear h
    generalize b.indices = L
    induction L generalizing st with
    | nil => exact hE
    | cons c cs ih => exact ih (encoded_erase hE _)
  | storeChunks box data =>
    have hd' : ∀ e ∈ data, Pe e = true := hd
    simp only [applyOp, storeChunks] at h
    cases hn : box.numElements with
    | zero =>
      rw [hn] at h
      simp only at h
      by_cases he : data.isEmpty = true
      · rw [if_pos he] at h; rw [← Option.some.inj h]; exact hE
      · rw [if_neg he] at h; cases h
    | succ n =>
      rw [hn] at h
      cases n with
      | zero => exact encoded_storeChunk hG hE _ data hd' h
      | succ m =>
        simp only at h
        cases hr : cfg.grid.chunksSubset box with
        | none => rw [hr] at h; cases h
        | some region =>
          rw [hr] at h
          simp only at h
          by_cases hl : (data.length != region.numElements) = true
          · rw [if_pos hl] at h; cases h
          · rw [if_neg hl] at h
            refine foldOpt_keeps (Encoded cfg P) _ box.indices ?_ st st' hE h
            intro st1 c st2 _ hI hf
            cases hcs : cfg.chunkSubset c with
            | none => rw [hcs] at hf; cases hf
            | some cs =>
              rw [hcs] at hf
              exact encoded_storeChunk hG hI c _ (fun e he => hd' e (Partial.mem_extract _ _ _ e he)) hf
  | storeArraySubset region data =>
    have hd' : ∀ e ∈ data, Pe e = true := hd
    simp only [applyOp, storeArraySubset] at h
    by_cases h0 : (region.rank != cfg.shape.length) = true
    · rw [if_pos h0] at h; cases h
    · rw [if_neg h0] at h
      cases hch : cfg.grid.chunksInArraySubset region cfg.shape with
      | none => rw [hch] at h; cases h
      | some chunks =>
        rw [hch] at h
        simp only at h
        by_cases h1 : (chunks.numElements == 1) = true
        · rw [if_pos h1] at h
          cases hcs : cfg.chunkSubset chunks.start with
          | none => rw [hcs] at h; cases h
          | some cs =>
            rw [hcs] at h
            simp only at h
            by_cases h2 : (region == cs) = true
            · rw [if_pos h2] at h; exact encoded_storeChunk hG hE _ data hd' h
            · rw [if_neg h2] at h; exact encoded_storeChunkSubset hG hE _ _ data hd' h
        · rw [if_neg h1] at h
          by_cases h3 : (data.length != region.numElements) = true
          · rw [if_pos h3] at h; cases h
          · rw [if_neg h3] at h
            refine foldOpt_keeps (Encoded cfg P) _ chunks.indices ?_ st st' hE h
            intro st1 c st2 _ hI hf
            cases hcs : cfg.chunkSubset c with
            | none => rw [hcs] at hf; cases hf
            | some cs =>
              rw [hcs] at hf
              exact encoded_storeChunkSubset hG hI c _ _ (fun e he => hd' e (Partial.mem_extract _ _ _ e he)) hf

theorem wd_storeChunkSubset (ha : DecAgree cfg P d) {st : KV} (hE : Encoded cfg P st) (c : Idx) (r : Subset)
    (data : List α) : (cfg.withDec d).storeChunkSubset st c r data = cfg.storeChunkSubset st c r data := by
  have h1 : (cfg.withDec d).retrieveChunk st c = cfg.retrieveChunk st c := wd_retrieveChunk ha hE c
  unfold storeChunkSubset
  rw [h1]
  rfl

theorem wd_applyOp (hG : Good cfg P Pe) (ha : DecAgree cfg P d) {st : KV} (hE : Encoded cfg P st) (op : WriteOp α)
    (hd : ∀ e ∈ opData op, Pe e = true) : (cfg.withDec d).applyOp st op = cfg.applyOp st op := by
  cases op with
  | storeChunk c data => rfl
  | storeChunks b data => rfl
  | storeChunkSubset c r data => exact wd_storeChunkSubset ha hE c r data
  | eraseChunk c => rfl
  | eraseChunks b => rfl
  | storeArraySubset region data =>
    have hd' : ∀ e ∈ data, Pe e = true := hd
    show (cfg.withDec d).storeArraySubset st region data = cfg.storeArraySubset st region data
    unfold storeArraySubset
    show (if (region.rank != cfg.shape.length) = true then none else
      match cfg.grid.chunksInArraySubset region cfg.shape with
      | none => none
      | some chunks =>
        if (chunks.numElements == 1) = true then
          match cfg.chunkSubset chunks.start with
          | none => none
          | some cs =>
            if (region == cs) = true then cfg.storeChunk st chunks.start data
            else (cfg.withDec d).storeChunkSubset st chunks.start (region.relativeTo cs.start) data
        else
          if (data.length != region.numElements) = true then none else
          foldOpt (fun st c =>
            match cfg.chunkSubset c with
            | none => none
            | some cs =>
              let ov := region.overlap cs
              (cfg.withDec d).storeChunkSubset st c (ov.relativeTo cs.start)
                ((ov.relativeTo region.start).extract region.shape data)) st chunks.indices) = _
    by_cases h0 : (region.rank != cfg.shape.length) = true
    · simp only [if_pos h0]
    · simp only [if_neg h0]
      cases cfg.grid.chunksInArraySubset region cfg.shape with
      | none => rfl
      | some chunks =>
        simp only
        by_cases h1 : (chunks.numElements == 1) = true
        · simp only [if_pos h1]
          cases cfg.chunkSubset chunks.start with
          | none => rfl
          | some cs =>
            simp only
            rw [wd_storeChunkSubset ha hE]
        · simp only [if_neg h1]
          by_cases h3 : (data.length != region.numElements) = true
          · simp only [if_pos h3]
          · simp only [if_neg h3]
            apply foldOpt_same (Encoded cfg P) _ _ chunks.indices ?_ ?_ st hE
            · intro st1 c _ hI
              cases cfg.chunkSubset c with
              | none => rfl
              | some cs => simp only; exact wd_storeChunkSubset ha hI c _ _
            · intro st1 c st2 _ hI hf
              cases hcs : cfg.chunkSubset c with
              | none => rw [hcs] at hf; cases hf
              | some cs =>
                rw [hcs] at hf
                exact encoded_storeChunkSubset hG hI c _ _ (fun e he => hd' e (Partial.mem_extract _ _ _ e he)) hf

/-- **the two configurations run in lock step** on histories of well-formed data, and the final store is encoded -/
theorem wd_run (hG : Good cfg P Pe) (ha : DecAgree cfg P d) (ops : List (WriteOp α))
    (hd : ∀ op ∈ ops, ∀ e ∈ opData op, Pe e = true) :
    ∀ st, Encoded cfg P st → (cfg.withDec d).run st ops = cfg.run st ops ∧
      ∀ st', cfg.run st ops = some st' → Encoded cfg P st' := by
  induction ops with
  | nil =>
    intro st hE
    refine ⟨rfl, ?_⟩
    intro st' h
    simp only [run, foldOpt] at h
    rw [← Option.some.inj h]; exact hE
  | cons op rest ih =>
    intro st hE
    have hop := wd_applyOp hG ha hE op (hd op (by simp))
    simp only [run, foldOpt] at *
    rw [hop]
    cases h1 : cfg.applyOp st op with
    | none => exact ⟨rfl, fun st' h => by cases h⟩
    | some st1 =>
      simp only
      exact ih (fun op' hop' => hd op' (by simp [hop'])) st1 (encoded_applyOp hG hE op (hd op (by simp)) h1)

end ArrCfg
end Zarrs
