import ZarrsModel.Model.FillMeta
/- number tokens: decimal digits of `Nat.toDigits 10`, the JSON number tokenizer on them, and their integer
   classification (helper lemmas for C14) -/
namespace Zarrs.NumTok
open Zarrs.Json

theorem char_isDigit_eq (c : Char) : c.isDigit = isDigit c.toNat := by
  have h1 : c.isDigit = (decide (48 ≤ c.toNat) && decide (c.toNat ≤ 57)) := by
    simp only [Char.isDigit, ge_iff_le, UInt32.le_iff_toNat_le]
    rfl
  rw [h1]; rfl

theorem digitChar_toNat : ∀ d, d < 10 → (Nat.digitChar d).toNat = 48 + d := by decide

/-- a decimal digit string: nonempty, all digits, no leading zero unless it is the single digit -/
structure DigitsOk (ds : List Char) : Prop where
  ne : ds ≠ []
  dig : ∀ c ∈ ds, isDigit c.toNat = true
  lead : 1 < ds.length → ds.head? ≠ some '0'

theorem toDigits_dig (n : Nat) : ∀ c ∈ Nat.toDigits 10 n, isDigit c.toNat = true := by
  intro c hc
  rw [← char_isDigit_eq]
  exact Nat.isDigit_of_mem_toDigits (by decide) (by decide) hc

theorem toDigits_head (n : Nat) (hn : 0 < n) : (Nat.toDigits 10 n).head? ≠ some '0' := by
  induction n using Nat.strongRecOn with
  | _ n ih =>
    rw [Nat.toDigits_eq_if (by decide)]
    split
    · rename_i h
      have : ∀ d, d < 10 → 0 < d → Nat.digitChar d ≠ '0' := by decide
      simpa using this n h hn
    · rename_i h
      have hne : Nat.toDigits 10 (n / 10) ≠ [] := Nat.toDigits_ne_nil
      have ih' := ih (n / 10) (by omega) (by omega)
      obtain ⟨c, cs, hcs⟩ := List.exists_cons_of_ne_nil hne
      rw [hcs] at ih' ⊢
      simpa using ih'

theorem toDigits_length_one (n : Nat) (h : 1 < (Nat.toDigits 10 n).length) : 0 < n := by
  rcases Nat.eq_zero_or_pos n with h0 | h0
  · subst h0; simp [Nat.toDigits_zero] at h
  · exact h0

theorem toDigits_ok (n : Nat) : DigitsOk (Nat.toDigits 10 n) :=
  ⟨Nat.toDigits_ne_nil, toDigits_dig n, fun h => toDigits_head n (toDigits_length_one n h)⟩

theorem natOfDigits_append (a : List Char) (c : Char) :
    natOfDigits (a ++ [c]) = natOfDigits a * 10 + (c.toNat - 48) := by
  simp [natOfDigits, List.foldl_append]

theorem natOfDigits_toDigits (n : Nat) : natOfDigits (Nat.toDigits 10 n) = n := by
  induction n using Nat.strongRecOn with
  | _ n ih =>
    rw [Nat.toDigits_eq_if (by decide)]
    split
    · rename_i h
      simp [natOfDigits, digitChar_toNat n h]
    · rename_i h
      rw [natOfDigits_append, ih (n / 10) (by omega), digitChar_toNat _ (Nat.mod_lt n (by decide))]
      omega

/-! ### the tokenizer on digit strings -/

def pnSign : List Nat → List Nat × List Nat
  | 45 :: r => ([45], r)
  | r => ([], r)
def pnFrac (r1 : List Nat) : List Nat × List Nat :=
  match r1 with
  | 46 :: r => let (d, r') := takeWhileB isDigit r; if d.isEmpty then ([0], r1) else (46 :: d, r')
  | r => ([], r)
def pnExp (r2 : List Nat) : List Nat × List Nat :=
  match r2 with
  | e :: r => if e == 101 || e == 69 then
      let (sg, r') := match r with | 43 :: x => ([43], x) | 45 :: x => ([45], x) | x => ([], x)
      let (d, r'') := takeWhileB isDigit r'
      if d.isEmpty then ([0], r2) else (e :: sg ++ d, r'')
    else ([], r2)
  | [] => ([], [])

theorem parseNum_eq (inp : List Nat) : parseNum inp =
    (let sr := pnSign inp
     let ir := takeWhileB isDigit sr.2
     if ir.1.isEmpty || (ir.1.length > 1 && ir.1.head? == some 48) then none else
     let fr := pnFrac ir.2
     if fr.1 == [0] then none else
     let er := pnExp fr.2
     if er.1 == [0] then none else
     some ((sr.1 ++ ir.1 ++ fr.1 ++ er.1).map Char.ofNat, er.2)) := by
  rfl

theorem takeWhileB_digits (ds rest : List Nat) (hds : ∀ b ∈ ds, isDigit b = true)
    (hrest : ∀ b, rest.head? = some b → isDigit b = false) :
    takeWhileB isDigit (ds ++ rest) = (ds, rest) := by
  induction ds with
  | nil =>
    cases rest with
    | nil => rfl
    | cons b r => simp [takeWhileB, hrest b rfl]
  | cons d ds ih =>
    have hd := hds d (by simp)
    have := ih (fun b hb => hds b (by simp [hb]))
    simp [takeWhileB, hd, this]

theorem pnSign_neg (r : List Nat) : pnSign (45 :: r) = ([45], r) := rfl
theorem pnSign_pos (d : Nat) (r : List Nat) (h : d ≠ 45) : pnSign (d :: r) = ([], d :: r) := by
  unfold pnSign; split
  · rename_i heq; simp at heq; omega
  · rfl

theorem pnFrac_none (rest : List Nat) (h : ∀ b, rest.head? = some b → b ≠ 46) : pnFrac rest = ([], rest) := by
  unfold pnFrac; split
  · exact absurd rfl (h 46 rfl)
  · rfl

theorem pnExp_none (rest : List Nat) (h : ∀ b, rest.head? = some b → b ≠ 101 ∧ b ≠ 69) : pnExp rest = ([], rest) := by
  unfold pnExp; split
  · rename_i e r
    have := h e rfl
    simp [this.1, this.2]
  · rfl

theorem pnExp_neg (ex rest : List Nat) (hne : ex ≠ []) (hex : ∀ b ∈ ex, isDigit b = true)
    (hrest : ∀ b, rest.head? = some b → isDigit b = false) :
    pnExp (101 :: 45 :: (ex ++ rest)) = (101 :: 45 :: ex, rest) := by
  have htw := takeWhileB_digits ex rest hex hrest
  cases ex with
  | nil => exact absurd rfl hne
  | cons x xs =>
    rw [List.cons_append] at htw
    simp [pnExp, htw]

/-- the integer-part conditions of the grammar on bytes -/
structure IpOk (ds : List Nat) : Prop where
  ne : ds ≠ []
  dig : ∀ b ∈ ds, isDigit b = true
  lead : 1 < ds.length → ds.head? ≠ some 48

theorem parseNum_ip (sign : Bool) (ds rest : List Nat) (h : IpOk ds)
    (hrest : ∀ b, rest.head? = some b → isDigit b = false ∧ b ≠ 46) :
    parseNum ((if sign then [45] else []) ++ ds ++ rest) =
      (let er := pnExp rest
       if er.1 == [0] then none else
       some (((if sign then [45] else []) ++ ds ++ er.1).map Char.ofNat, er.2)) := by
  obtain ⟨d, ds', rfl⟩ := List.exists_cons_of_ne_nil h.ne
  have hd := h.dig d (by simp)
  have hd45 : d ≠ 45 := by intro h; subst h; simp [isDigit] at hd
  have htw := takeWhileB_digits (d :: ds') rest h.dig (fun b hb => (hrest b hb).1)
  have hlead : ¬ (1 < (d :: ds').length ∧ d = 48) := by
    intro ⟨h1, h2⟩; exact h.lead h1 (by simp [h2])
  have hfr := pnFrac_none rest (fun b hb => (hrest b hb).2)
  rw [parseNum_eq]
  cases sign
  · simp only [Bool.false_eq_true, if_false, List.nil_append, List.cons_append, pnSign_pos d _ hd45]
    simp only [← List.cons_append, htw, hfr]
    have h1 : ((d :: ds').isEmpty || decide ((d :: ds').length > 1) && (d :: ds').head? == some 48) = false := by
      simp only [List.isEmpty_cons, Bool.false_or, List.head?_cons]
      rcases Nat.lt_or_ge 1 (d :: ds').length with hl | hl
      · have : d ≠ 48 := fun h48 => hlead ⟨hl, h48⟩
        simp [this]
      · have : ¬ ((d :: ds').length > 1) := by omega
        simp only [this, decide_false, Bool.false_and]
    simp only [h1, Bool.false_eq_true, if_false]
    simp
  · simp only [if_true, List.cons_append, List.nil_append, pnSign_neg]
    simp only [← List.cons_append, htw, hfr]
    have h1 : ((d :: ds').isEmpty || decide ((d :: ds').length > 1) && (d :: ds').head? == some 48) = false := by
      simp only [List.isEmpty_cons, Bool.false_or, List.head?_cons]
      rcases Nat.lt_or_ge 1 (d :: ds').length with hl | hl
      · have : d ≠ 48 := fun h48 => hlead ⟨hl, h48⟩
        simp [this]
      · have : ¬ ((d :: ds').length > 1) := by omega
        simp only [this, decide_false, Bool.false_and]
    simp only [h1, Bool.false_eq_true, if_false]
    simp


theorem numCont_false {b : Nat} (h : numCont b = false) :
    isDigit b = false ∧ b ≠ 46 ∧ b ≠ 101 ∧ b ≠ 69 ∧ b ≠ 43 ∧ b ≠ 45 := by
  simp only [numCont, Bool.or_eq_false_iff, beq_eq_false_iff_ne] at h
  simp [h]

theorem map_ofNat_toNat (t : List Char) : (t.map Char.toNat).map Char.ofNat = t := by
  induction t with
  | nil => rfl
  | cons c t ih => simp [ih]

theorem DigitsOk.ipOk {ds : List Char} (h : DigitsOk ds) : IpOk (ds.map Char.toNat) := by
  refine ⟨by simpa using h.ne, ?_, ?_⟩
  · intro b hb
    obtain ⟨c, hc, rfl⟩ := List.mem_map.mp hb
    exact h.dig c hc
  · intro hl hh
    rw [List.length_map] at hl
    apply h.lead hl
    cases ds with
    | nil => simp at hl
    | cons c cs =>
      simp only [List.map_cons, List.head?_cons, Option.some.injEq] at hh ⊢
      rw [← Char.ofNat_toNat c, hh]

theorem signTok_map (sign : Bool) :
    (if sign then ['-'] else []).map Char.toNat = (if sign then [45] else []) := by
  cases sign <;> rfl

theorem tokOk_int (sign : Bool) (ds : List Char) (h : DigitsOk ds) :
    tokOk ((if sign then ['-'] else []) ++ ds) := by
  intro rest hrest
  have hr : ∀ b, rest.head? = some b → isDigit b = false ∧ b ≠ 46 ∧ b ≠ 101 ∧ b ≠ 69 ∧ b ≠ 43 ∧ b ≠ 45 :=
    fun b hb => numCont_false (hrest b hb)
  rw [List.map_append, signTok_map,
    parseNum_ip sign _ rest h.ipOk (fun b hb => ⟨(hr b hb).1, (hr b hb).2.1⟩),
    pnExp_none rest (fun b hb => ⟨(hr b hb).2.2.1, (hr b hb).2.2.2.1⟩)]
  simp only [List.append_nil]
  rw [← signTok_map, ← List.map_append, map_ofNat_toNat]
  rfl

theorem tokOk_exp (sign : Bool) (ds ex : List Char) (h : DigitsOk ds) (hne : ex ≠ [])
    (hex : ∀ c ∈ ex, isDigit c.toNat = true) :
    tokOk ((if sign then ['-'] else []) ++ ds ++ ['e', '-'] ++ ex) := by
  intro rest hrest
  have hr : ∀ b, rest.head? = some b → isDigit b = false :=
    fun b hb => (numCont_false (hrest b hb)).1
  have e1 : (((if sign then ['-'] else []) ++ ds ++ ['e', '-'] ++ ex).map Char.toNat ++ rest)
      = (if sign then [45] else []) ++ ds.map Char.toNat ++ (101 :: 45 :: (ex.map Char.toNat ++ rest)) := by
    simp only [List.map_append, signTok_map, List.append_assoc]
    rfl
  rw [e1, parseNum_ip sign _ _ h.ipOk (by intro b hb; simp at hb; subst hb; decide),
    pnExp_neg (ex.map Char.toNat) rest (by simpa using hne)
      (by intro b hb; obtain ⟨c, hc, rfl⟩ := List.mem_map.mp hb; exact hex c hc) hr]
  have e2 : ((if sign then [45] else []) ++ ds.map Char.toNat ++ (101 :: 45 :: ex.map Char.toNat))
      = ((if sign then ['-'] else []) ++ ds ++ ['e', '-'] ++ ex).map Char.toNat := by
    simp only [List.map_append, signTok_map, List.append_assoc]
    rfl
  simp only [e2, map_ofNat_toNat]
  rfl


/-! ### integer classification -/
open Zarrs.FillMeta

theorem not_special_of_digit (c : Char) (h : isDigit c.toNat = true) :
    (c == '.' || c == 'e' || c == 'E') = false := by
  have h46 : c ≠ '.' := by intro h'; subst h'; revert h; decide
  have h101 : c ≠ 'e' := by intro h'; subst h'; revert h; decide
  have h69 : c ≠ 'E' := by intro h'; subst h'; revert h; decide
  simp [h46, h101, h69]

theorem tokIsInt_digits (t : List Char) (h : ∀ c ∈ t, isDigit c.toNat = true) : tokIsInt t = true := by
  simp only [tokIsInt, Bool.not_eq_true', List.any_eq_false]
  intro c hc
  simp [not_special_of_digit c (h c hc)]

theorem tokIsInt_neg (t : List Char) : tokIsInt ('-' :: t) = tokIsInt t := by
  simp [tokIsInt]

theorem head_ne_minus (t : List Char) (h : ∀ c ∈ t, isDigit c.toNat = true) : t.head? ≠ some '-' := by
  cases t with
  | nil => simp
  | cons c cs =>
    have := h c (by simp)
    intro h'; simp at h'; subst h'; revert this; decide

theorem natTok_dig (v : Nat) : ∀ c ∈ natTok v, isDigit c.toNat = true := toDigits_dig v

theorem asU64_natTok (v : Nat) : asU64 (natTok v) = if v < 2 ^ 64 then some v else none := by
  have h1 := tokIsInt_digits _ (natTok_dig v)
  have h2 := head_ne_minus _ (natTok_dig v)
  simp only [asU64, h1, Bool.true_and, bne_iff_ne, ne_eq, h2, not_false_eq_true, if_true]
  rw [show natOfDigits (natTok v) = v from natOfDigits_toDigits v]

theorem asU64_neg (t : List Char) : asU64 ('-' :: t) = none := by
  simp [asU64]

theorem asU64_nonint (t : List Char) (h : tokIsInt t = false) : asU64 t = none := by
  simp [asU64, h]
theorem asI64_nonint (t : List Char) (h : tokIsInt t = false) : asI64 t = none := by
  simp [asI64, h]

theorem asI64_intTok (i : Int) :
    asI64 (intTok i) = if -(2 ^ 63 : Int) ≤ i ∧ i < 2 ^ 63 then some i else none := by
  unfold intTok
  split
  · rename_i hi
    have h1 : tokIsInt ('-' :: natTok i.natAbs) = true := by
      rw [tokIsInt_neg]; exact tokIsInt_digits _ (natTok_dig _)
    simp only [asI64, h1, Bool.not_true, Bool.false_eq_true, if_false]
    rw [show natOfDigits (natTok i.natAbs) = i.natAbs from natOfDigits_toDigits _]
    have : i.natAbs ≠ 0 := by omega
    simp only [beq_iff_eq, this, if_false]
    split <;> split <;> first | rfl | omega | (simp; omega)
  · rename_i hi
    have h1 := tokIsInt_digits _ (natTok_dig i.natAbs)
    have h2 := head_ne_minus _ (natTok_dig i.natAbs)
    unfold asI64
    simp only [h1, Bool.not_true, Bool.false_eq_true, if_false]
    split
    · rename_i ds heq; rw [heq] at h2; simp at h2
    · rw [show natOfDigits (natTok i.natAbs) = i.natAbs from natOfDigits_toDigits _]
      split <;> split <;> first | rfl | omega | (simp; omega)


theorem tokOk_natTok (v : Nat) : tokOk (natTok v) := tokOk_int false _ (toDigits_ok v)

theorem tokOk_intTok (i : Int) : tokOk (intTok i) := by
  unfold intTok; split
  · exact tokOk_int true _ (toDigits_ok _)
  · exact tokOk_int false _ (toDigits_ok _)

end Zarrs.NumTok
