import ZarrsModel.Model.FillMeta
/- number tokens: decimal digits of `Nat.toDigits 10`, the JSON number tokenizer on them, and their integer
   classification (helper lemmas for C14) -/
namespace Zarrs.NumTok
open Zarrs.Json

theorem char_isDigit_eq (c : Char) : c.isDigit = isDigit c.toNat := by
  have h1 : c.isDigit = (decide (48 ≤ c.toNat) && decide (c.toNat ≤ 57)) := by
    simp only [Char.isDigit, ge_iff_le, UInt32.le_iff_toNat_le]
    rfl
  rw [h1]; rfl

theorem digitChar_toNat : ∀ d, d < 10 → (Nat.digitChar d).toNat = 48 + d := by decide

/-- a decimal digit string: nonempty, all digits, no leading zero unless it is the single digit -/
structure DigitsOk (ds : List Char) : Prop where
  ne : ds ≠ []
  dig : ∀ c ∈ ds, isDigit c.toNat = true
  lead : 1 < ds.length → ds.head? ≠ some '0'

theorem toDigits_dig (n : Nat) : ∀ c ∈ Nat.toDigits 10 n, isDigit c.toNat = true := by
  intro c hc
  rw [← char_isDigit_eq]
  exact Nat.isDigit_of_mem_toDigits (by decide) (by decide) hc

theorem toDigits_head (n : Nat) (hn : 0 < n) : (Nat.toDigits 10 n).head? ≠ some '0' := by
  induction n using Nat.strongRecOn with
  | _ n ih =>
    rw [Nat.toDigits_eq_if (by decide)]
    split
    · rename_i h
      have : ∀ d, d < 10 → 0 < d → Nat.digitChar d ≠ '0' := by decide
      simpa using this n h hn
    · rename_i h
      have hne : Nat.toDigits 10 (n / 10) ≠ [] := Nat.toDigits_ne_nil
      have ih' := ih (n / 10) (by omega) (by omega)
      obtain ⟨c, cs, hcs⟩ := List.exists_cons_of_ne_nil hne
      rw [hcs] at ih' ⊢
      simpa using ih'

theorem toDigits_length_one (n : Nat) (h : 1 < (Nat.toDigits 10 n).length) : 0 < n := by
  rcases Nat.eq_zero_or_pos n with h0 | h0
  · subst h0; simp [Nat.toDigits_zero] at h
  · exact h0

theorem toDigits_ok (n : Nat) : DigitsOk (Nat.toDigits 10 n) :=
  ⟨Nat.toDigits_ne_nil, toDigits_dig n, fun h => toDigits_head n (toDigits_length_one n h)⟩

theorem natOfDigits_append (a : List Char) (c : Char) :
    natOfDigits (a ++ [c]) = natOfDigits a * 10 + (c.toNat - 48) := by
  simp [natOfDigits, List.foldl_append]

theorem natOfDigits_toDigits (n : Nat) : natOfDigits (Nat.toDigits 10 n) = n := by
  induction n using Nat.strongRecOn with
  | _ n ih =>
    rw [Nat.toDigits_eq_if (by decide)]
    split
    · rename_i h
      simp [natOfDigits, digitChar_toNat n h]
    · rename_i h
      rw [natOfDigits_append, ih (n / 10) (by omega), digitChar_toNat _ (Nat.mod_lt n (by decide))]
      omega

end Zarrs.NumTok
