import ZarrsModel.Lemmas.ChainSPEElems
set_option Elab.async false
/- helper lemmas for C05 on chains, part 3: one region write and all region writes of `shardPEElems` -/
namespace Zarrs.Partial
open Zarrs Zarrs.Codec Zarrs.Subset Zarrs.Shard

theorem nodup_map_of_injOn {α β} (f : α → β) (l : List α) (hn : l.Nodup)
    (hinj : ∀ a ∈ l, ∀ b ∈ l, f a = f b → a = b) : (l.map f).Nodup := by
  unfold List.Nodup at *
  rw [List.pairwise_map]
  exact List.Pairwise.imp_of_mem (fun {a b} ha hb hab heq => hab (hinj a ha b hb heq)) hn

theorem indices_nodup' (s : Subset) (h : s.wf = true) : s.indices.Nodup :=
  (s.indices_pairwise h).imp (fun {a b} hab e => by
    subst e
    have : ∀ a : Idx, lexLt a a = false := by
      intro a
      induction a with
      | nil => rfl
      | cons x xs ih => simp [lexLt, ih]
    rw [this] at hab
    cases hab)

/-- the new entry of the map for one inner chunk, as a function of its old entry -/
def peChunkG (es : Nat) (fill : Elem) (inner : Shape) (w : RWrite) (o : Option (List Elem)) (p : Idx × Subset) :
    Option (List Elem) :=
  if ((((w.1.overlap p.2).relativeTo w.1.start).extract w.1.shape w.2).length != (w.1.overlap p.2).numElements) then none
  else
    match (match o with
           | some x => some x
           | none => if fill.length != es then none else some (List.replicate (prod inner) fill)) with
    | none => none
    | some cur =>
      if cur.length != prod inner then none
      else some (updateRuns inner ((w.1.overlap p.2).relativeTo p.2.start) cur
        (((w.1.overlap p.2).relativeTo w.1.start).extract w.1.shape w.2))

theorem peChunkStep_eq (es : Nat) (fill : Elem) (inner cps : Shape) (w : RWrite) (st : List (Option (List Elem)))
    (p : Idx × Subset) (hk : ravel p.1 cps < st.length) :
    peChunkStep es fill inner cps w st p =
      (peChunkG es fill inner w (st.getD (ravel p.1 cps) none) p).map (fun x => st.set (ravel p.1 cps) (some x)) := by
  unfold peChunkStep peChunkG
  simp only
  rw [if_neg (by omega)]
  by_cases hc : ((((w.1.overlap p.2).relativeTo w.1.start).extract w.1.shape w.2).length !=
      (w.1.overlap p.2).numElements) = true
  · rw [if_pos hc, if_pos hc]; rfl
  · rw [if_neg hc, if_neg hc]
    cases hst : st.getD (ravel p.1 cps) none with
    | some x =>
      simp only
      by_cases hl : (x.length != prod inner) = true
      · rw [if_pos hl, if_pos hl]; rfl
      · rw [if_neg hl, if_neg hl]; rfl
    | none =>
      simp only
      by_cases hf : (fill.length != es) = true
      · rw [if_pos hf]; rfl
      · rw [if_neg hf]
        simp only
        by_cases hl : ((List.replicate (prod inner) fill).length != prod inner) = true
        · rw [if_pos hl, if_pos hl]; rfl
        · rw [if_neg hl, if_neg hl]; rfl

/-- the invariant between the map of decoded inner chunks `st` and the shard contents `cur`; `st0` is the map after
the initial read, `old` the shard contents before the call -/
def PEInv (inner shard : Shape) (old : List Elem) (st0 st : List (Option (List Elem))) (cur : List Elem) : Prop :=
  st.length = prod (zipDiv shard inner) ∧
  ∀ c, inB c (zipDiv shard inner) = true →
    match st.getD (ravel c (zipDiv shard inner)) none with
    | some x => x = (cellBox inner c).extract shard cur
    | none => (cellBox inner c).extract shard cur = (cellBox inner c).extract shard old ∧
        st0.getD (ravel c (zipDiv shard inner)) none = none

theorem ravel_inj (a b : Idx) (sh : Shape) (ha : inB a sh = true) (hb : inB b sh = true)
    (h : ravel a sh = ravel b sh) : a = b := by
  rw [← C09.unravel_ravel a sh ha, ← C09.unravel_ravel b sh hb, h]

theorem cellBox_extract_length {inner shard : Shape} (ht : tiles inner shard = true) (c : Idx)
    (hc : inB c (zipDiv shard inner) = true) (xs : List Elem) (hx : xs.length = prod shard) :
    ((cellBox inner c).extract shard xs).length = prod inner := by
  obtain ⟨hw, hb⟩ := cellBox_inbounds ht c hc
  exact (extract_spec' _ shard xs hw hb hx).1

/-- **one region write** keeps the invariant: the map then describes the shard updated by the write -/
theorem peWriteStep_inv {inner shard : Shape} (ht : tiles inner shard = true) (es : Nat) (fill : Elem)
    (hfill : fill.length = es) (old : List Elem) (st0 st : List (Option (List Elem))) (cur : List Elem)
    (hcur : cur.length = prod shard)
    (r : Subset) (ys : List Elem) (hr : r.wf = true) (hb : r.inboundsShape shard = true)
    (hy : ys.length = r.numElements) (hye : ∀ y ∈ ys, y.length = es)
    (hJ : PEInv inner shard old st0 st cur)
    (hS : ∀ c, inB c (zipDiv shard inner) = true → st0.getD (ravel c (zipDiv shard inner)) none = none →
      (c, cellBox inner c) ∈ r.chunks inner → straddles (cellBox inner c) r = true →
      (cellBox inner c).extract shard old = List.replicate (prod inner) fill) :
    ∃ st', peWriteStep es fill inner (zipDiv shard inner) st ((r, ys), r.chunks inner) = some st' ∧
      PEInv inner shard old st0 st' (updateRuns shard r cur ys) := by
  obtain ⟨hJl, hJc⟩ := hJ
  have hall : ys.all (·.length == es) = true := by
    rw [List.all_eq_true]; intro y hy'; simpa using hye y hy'
  unfold peWriteStep
  simp only [hall, Bool.not_true, Bool.false_eq_true, if_false]
  -- facts about the items
  have hitem : ∀ p ∈ r.chunks inner, p.2 = cellBox inner p.1 ∧ inB p.1 (zipDiv shard inner) = true := by
    intro p hp
    obtain ⟨h1, _, _, _, h5, _⟩ := chunk_item_facts ht r hr hb p hp
    exact ⟨h1, h5⟩
  have hkeys : ((r.chunks inner).map (fun p => ravel p.1 (zipDiv shard inner))).Nodup := by
    have hb' := hb
    simp only [Subset.inboundsShape, Subset.rank, Bool.and_eq_true, beq_iff_eq] at hb'
    have hcl : inner.length = r.rank := by have := tiles_length ht; simp only [Subset.rank]; omega
    apply nodup_map_of_injOn
    · simp only [Subset.chunks, Iter.new_items]
      apply nodup_map_of_injOn _ _ (indices_nodup' (r.chunkBox inner) (r.chunkBox_wf inner hr hcl))
      intro a _ b _ hab
      exact (Prod.mk.inj hab).1
    · intro a ha b hb2 hab
      obtain ⟨ha1, ha2⟩ := hitem a ha
      obtain ⟨hb1, hb3⟩ := hitem b hb2
      have := ravel_inj a.1 b.1 _ ha2 hb3 hab
      exact Prod.ext this (by rw [ha1, hb1, this])
  -- the base of every item agrees with the shard outside the region
  have hbase : ∀ p ∈ r.chunks inner, ∃ base,
      (match st.getD (ravel p.1 (zipDiv shard inner)) none with
        | some x => some x
        | none => if fill.length != es then none else some (List.replicate (prod inner) fill)) = some base ∧
      base.length = prod inner ∧
      ∀ j, inB j inner = true → r.contains (addIdx j p.2.start) = false →
        base[ravel j inner]? = cur[ravel (addIdx j p.2.start) shard]? := by
    intro p hp
    obtain ⟨hp2, hpin⟩ := hitem p hp
    obtain ⟨hcw, hcb⟩ := cellBox_inbounds ht p.1 hpin
    have hJp := hJc p.1 hpin
    obtain ⟨hE1, hE2⟩ := extract_spec' (cellBox inner p.1) shard cur hcw hcb hcur
    cases hst : st.getD (ravel p.1 (zipDiv shard inner)) none with
    | some x =>
      rw [hst] at hJp
      simp only at hJp
      refine ⟨x, rfl, by rw [hJp]; exact hE1, ?_⟩
      intro j hj _
      rw [hJp, hp2]
      exact hE2 j hj
    | none =>
      rw [hst] at hJp
      simp only at hJp
      refine ⟨List.replicate (prod inner) fill, by simp [hfill], by simp, ?_⟩
      intro j hj hnot
      by_cases hstr : straddles (cellBox inner p.1) r = true
      · have := hS p.1 hpin hJp.2 (by rw [← hp2]; exact hp) hstr
        rw [← this, ← hJp.1, hp2]
        exact hE2 j hj
      · exfalso
        have hcw' := hcw
        simp only [Subset.wf, beq_iff_eq] at hcw'
        have hgm : (cellBox inner p.1).contains (addIdx j (cellBox inner p.1).start) = true :=
          mem_addIdx j _ _ hcw' hj
        obtain ⟨_, _, _, hcrank, _⟩ := chunk_item_facts ht r hr hb p hp
        have := not_straddles_sub (cellBox inner p.1) r hr (by rw [← hp2]; exact hcrank) (by simpa using hstr) _ hgm
        rw [hp2] at hnot
        rw [this] at hnot
        cases hnot
  obtain ⟨st', h1, h2, h3, h4⟩ := foldOpt_setKeys (fun p : Idx × Subset => ravel p.1 (zipDiv shard inner))
    (peChunkG es fill inner (r, ys)) (peChunkStep es fill inner (zipDiv shard inner) (r, ys))
    (fun st p hk => peChunkStep_eq es fill inner _ (r, ys) st p hk)
    (r.chunks inner) st hkeys
    (fun p hp => by rw [hJl]; exact ravel_lt _ _ (hitem p hp).2)
    (by
      intro p hp
      obtain ⟨base, hb1, hb2, hb3⟩ := hbase p hp
      obtain ⟨hlen, _⟩ := chunk_update ht r hr hb ys hy cur hcur p hp base hb2 hb3
      unfold peChunkG
      simp only [hb1]
      rw [if_neg (by simpa using hlen), if_neg (by simpa using hb2)]
      rfl)
  refine ⟨st', h1, by rw [h2, hJl], ?_⟩
  intro c hc
  by_cases hcm : (c, cellBox inner c) ∈ r.chunks inner
  · obtain ⟨base, hb1, hb2, hb3⟩ := hbase _ hcm
    obtain ⟨hlen, heq⟩ := chunk_update ht r hr hb ys hy cur hcur _ hcm base hb2 hb3
    have := h3 _ hcm
    simp only at this
    rw [this]
    unfold peChunkG
    simp only [hb1]
    rw [if_neg (by simpa using hlen), if_neg (by simpa using hb2)]
    simp only
    exact heq
  · have hnk : ravel c (zipDiv shard inner) ∉ (r.chunks inner).map (fun p => ravel p.1 (zipDiv shard inner)) := by
      intro hmem
      obtain ⟨p, hp, hpe⟩ := List.mem_map.mp hmem
      obtain ⟨hp2, hpin⟩ := hitem p hp
      have := ravel_inj p.1 c _ hpin hc hpe
      apply hcm
      rw [← this, ← hp2]
      exact hp
    rw [h4 _ hnk]
    have hun := chunk_untouched ht r hr hb ys hy cur hcur c hc hcm
    have hJp := hJc c hc
    cases hst : st.getD (ravel c (zipDiv shard inner)) none with
    | some x =>
      rw [hst] at hJp
      simp only at hJp ⊢
      rw [hJp]
      exact hun.symm
    | none =>
      rw [hst] at hJp
      simp only at hJp ⊢
      exact ⟨by rw [← hJp.1]; exact hun, hJp.2⟩

end Zarrs.Partial
