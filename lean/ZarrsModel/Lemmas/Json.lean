import ZarrsModel.Model.FillMeta
import ZarrsModel.Lemmas.JsonBase
/- helper lemmas for C14/C13: the JSON parser inverts the printer on well-formed documents -/
namespace Zarrs.Json

theorem printList_single (x : J) : printList [x] = print x := by rw [printList]
theorem printList_cons2 (x y : J) (ys : List J) :
    printList (x :: y :: ys) = print x ++ 44 :: printList (y :: ys) := by
  rw [printList]; simp
  intro h; cases h
theorem printKVs_single (k : Str) (v : J) : printKVs [(k, v)] = printStr k ++ 58 :: print v := by
  rw [printKVs]; simp
theorem printKVs_cons2 (k : Str) (v : J) (kv : Str × J) (kvs : List (Str × J)) :
    printKVs ((k, v) :: kv :: kvs) = printStr k ++ 58 :: (print v ++ 44 :: printKVs (kv :: kvs)) := by
  rw [printKVs]
  · simp
  · intros; simp_all

theorem printList_head (x : J) (xs : List J) (h : wfList (x :: xs)) :
    ∃ b tl, printList (x :: xs) = b :: tl ∧ isWs b = false ∧ b ≠ 93 := by
  obtain ⟨b, tl, e, h1, h2, _⟩ := print_head x (by simp only [wfList] at h; exact h.1)
  cases xs with
  | nil => exact ⟨b, tl, by rw [printList_single, e], h1, h2⟩
  | cons y ys => exact ⟨b, tl ++ 44 :: printList (y :: ys), by rw [printList_cons2, e]; rfl, h1, h2⟩

theorem any_key_false (acc : List (Str × J)) (k : Str) (v : J) (kvs : List (Str × J))
    (h : keysDistinct (acc ++ (k, v) :: kvs)) : acc.any (·.1 == k) = false := by
  unfold keysDistinct at h
  rw [List.map_append, List.nodup_append] at h
  have h3 := h.2.2
  rw [Bool.eq_false_iff]
  intro hc
  rw [List.any_eq_true] at hc
  obtain ⟨p, hp, hpk⟩ := hc
  have hpk' : p.1 = k := by simpa using hpk
  exact h3 p.1 (List.mem_map_of_mem hp) k (by simp) hpk'

mutual
theorem pv_print (j : J) (h : j.wf) (fuel : Nat) (rest : List Nat) (hr : headOk rest)
    (hf : (print j).length < fuel) : parseValue fuel (print j ++ rest) = some (j, rest) := by
  obtain ⟨f, rfl⟩ : ∃ f, fuel = f + 1 := ⟨fuel - 1, by omega⟩
  match j, h with
  | .null, _ => simp only [print, ascii_null]; exact pv_null f rest
  | .bool true, _ => simp only [print, ascii_true]; exact pv_true f rest
  | .bool false, _ => simp only [print, ascii_false]; exact pv_false f rest
  | .num t, h =>
    simp only [J.wf] at h
    obtain ⟨b, tl, e, hb⟩ := num_head t h
    simp only [print]
    have e' : List.map Char.toNat t ++ rest = b :: (tl ++ rest) := by rw [e]; rfl
    rw [e', pv_num _ _ _ hb, ← e', h rest hr]; rfl
  | .str s, h =>
    simp only [J.wf] at h
    have e' : print (.str s) ++ rest = 34 :: (s.flatMap escapeByte ++ 34 :: rest) := by
      simp [print, printStr]
    rw [e', pv_str, parseStr_print _ _ h.2]; rfl
  | .arr [], _ =>
    have e' : print (.arr []) ++ rest = 91 :: 93 :: rest := by simp [print, printList]
    rw [e', pv_arr_nil]
  | .arr (x :: xs), h =>
    simp only [J.wf] at h
    obtain ⟨b, tl, e, hws, h93⟩ := printList_head x xs h
    have e' : print (.arr (x :: xs)) ++ rest = 91 :: (printList (x :: xs) ++ 93 :: rest) := by
      simp [print]
    have e'' : printList (x :: xs) ++ 93 :: rest = b :: (tl ++ 93 :: rest) := by rw [e]; rfl
    have hl : (print (.arr (x :: xs))).length = (printList (x :: xs)).length + 2 := by
      simp [print]
    rw [e', e'', pv_arr _ _ _ hws h93, ← e'',
      pe_print (x :: xs) (by simp) h f rest [] (by omega)]
    rfl
  | .obj [], _ =>
    have e' : print (.obj []) ++ rest = 123 :: 125 :: rest := by simp [print, printKVs]
    rw [e', pv_obj_nil]
  | .obj ((k, v) :: kvs), h =>
    simp only [J.wf] at h
    have e' : print (.obj ((k, v) :: kvs)) ++ rest = 123 :: (printKVs ((k, v) :: kvs) ++ 125 :: rest) := by
      simp [print]
    obtain ⟨tl, e⟩ : ∃ tl, printKVs ((k, v) :: kvs) = 34 :: tl := by
      cases kvs with
      | nil => exact ⟨_, by rw [printKVs_single, printStr]; rfl⟩
      | cons kv kvs => exact ⟨_, by rw [printKVs_cons2, printStr]; rfl⟩
    have e'' : printKVs ((k, v) :: kvs) ++ 125 :: rest = 34 :: (tl ++ 125 :: rest) := by rw [e]; rfl
    have hl : (print (.obj ((k, v) :: kvs))).length = (printKVs ((k, v) :: kvs)).length + 2 := by
      simp [print]
    rw [e', e'', pv_obj _ _ _ (by decide) (by decide), ← e'',
      pm_print ((k, v) :: kvs) (by simp) h.1 [] (by simpa using h.2) f rest (by omega)]
    rfl
theorem pe_print (xs : List J) (hne : xs ≠ []) (h : wfList xs) (fuel : Nat) (rest : List Nat) (acc : List J)
    (hf : (printList xs).length + 1 < fuel) :
    parseElems fuel (printList xs ++ 93 :: rest) acc = some (acc ++ xs, rest) := by
  obtain ⟨f, rfl⟩ : ∃ f, fuel = f + 1 := ⟨fuel - 1, by omega⟩
  match xs, hne, h with
  | [x], _, h =>
    simp only [wfList] at h
    rw [printList_single] at hf ⊢
    rw [pe_close f _ acc x rest (pv_print x h.1 f (93 :: rest) (headOk_93 _) (by omega))]
  | x :: y :: ys, _, h =>
    simp only [wfList] at h
    rw [printList_cons2] at hf ⊢
    simp only [List.length_append, List.length_cons] at hf
    rw [List.append_assoc, List.cons_append,
      pe_comma f _ acc x _ (pv_print x h.1 f _ (headOk_44 _) (by omega)),
      pe_print (y :: ys) (by simp) (by simp only [wfList]; exact h.2) f rest (acc ++ [x]) (by omega)]
    simp
theorem pm_print (kvs : List (Str × J)) (hne : kvs ≠ []) (h : wfKVs kvs) (acc : List (Str × J))
    (hd : keysDistinct (acc ++ kvs)) (fuel : Nat) (rest : List Nat)
    (hf : (printKVs kvs).length + 1 < fuel) :
    parseMembers fuel (printKVs kvs ++ 125 :: rest) acc = some (acc ++ kvs, rest) := by
  obtain ⟨f, rfl⟩ : ∃ f, fuel = f + 1 := ⟨fuel - 1, by omega⟩
  match kvs, hne, h with
  | [(k, v)], _, h =>
    simp only [wfKVs] at h
    rw [printKVs_single] at hf ⊢
    simp only [List.length_append, List.length_cons] at hf
    have e : printStr k ++ 58 :: print v ++ 125 :: rest
        = 34 :: (k.flatMap escapeByte ++ 34 :: 58 :: (print v ++ 125 :: rest)) := by
      simp [printStr]
    rw [e, pm_close f _ acc k v rest _ (parseStr_print k _ h.1.2)
      (pv_print v h.2.1 f _ (headOk_125 _) (by omega)) (any_key_false acc k v [] hd)]
  | (k, v) :: kv :: kvs, _, h =>
    simp only [wfKVs] at h
    rw [printKVs_cons2] at hf ⊢
    simp only [List.length_append, List.length_cons] at hf
    have e : printStr k ++ 58 :: (print v ++ 44 :: printKVs (kv :: kvs)) ++ 125 :: rest
        = 34 :: (k.flatMap escapeByte ++ 34 :: 58 :: (print v ++ 44 :: (printKVs (kv :: kvs) ++ 125 :: rest))) := by
      simp [printStr]
    rw [e, pm_comma f _ acc k v _ _ (parseStr_print k _ h.1.2)
      (pv_print v h.2.1 f _ (headOk_44 _) (by omega)) (any_key_false acc k v _ hd),
      pm_print (kv :: kvs) (by simp) h.2.2 (acc ++ [(k, v)]) (by simpa using hd) f rest (by omega)]
    simp
end

theorem parse_print (j : J) (h : j.wf) : parse (print j) = some j := by
  unfold parse
  have := pv_print j h ((print j).length + 1) [] headOk_nil (by omega)
  rw [List.append_nil] at this
  rw [this]
  rfl

end Zarrs.Json
