import ZarrsModel.Model.AsyncRmw
import ZarrsModel.Lemmas.Store
/- helper lemmas for Props/C08Async.lean: the concurrent generic read-modify-write partial write -/
set_option Elab.async false
namespace Zarrs.AsyncRmw
open Zarrs

/-! ### group lookup and the grouping loop -/

theorem glookup_nil (k : Key) : glookup [] k = none := rfl

theorem glookup_cons (k0 : Key) (g0 : List Entry) (gs : List Group) (k : Key) :
    glookup ((k0, g0) :: gs) k = if k0 = k then some g0 else glookup gs k := by
  unfold glookup
  rw [List.find?_cons]
  by_cases h : k0 = k
  · simp [h]
  · have hb : (k0 == k) = false := by simpa using h
    simp [h, hb]

theorem glookup_addEntry (gs : List Group) (k : Key) (o : Nat) (v : Bytes) (k' : Key) :
    glookup (addEntry gs (k, o, v)) k' =
      if k' = k then some ((glookup gs k).getD [] ++ [(o, v)]) else glookup gs k' := by
  induction gs with
  | nil =>
    rw [addEntry, glookup_cons, glookup_nil, glookup_nil]
    by_cases h : k = k'
    · simp [h]
    · have h' : ¬ k' = k := fun e => h e.symm
      simp [h, h']
  | cons x gs ih =>
    obtain ⟨k0, g0⟩ := x
    rw [addEntry]
    by_cases hk : k = k0
    · subst hk
      rw [if_pos (by simp)]
      rw [glookup_cons, glookup_cons, glookup_cons]
      by_cases h : k = k'
      · subst h; simp
      · have h' : ¬ k' = k := fun e => h e.symm
        simp [h, h']
    · rw [if_neg (by simpa using hk)]
      rw [glookup_cons, ih, glookup_cons, glookup_cons]
      by_cases h : k' = k
      · subst h
        have h0 : ¬ k0 = k' := fun e => hk e.symm
        simp [h0]
      · simp [h]

theorem entriesOf_nil (k : Key) : entriesOf k [] = [] := rfl

theorem entriesOf_cons (k : Key) (x : Key × Nat × Bytes) (l : List (Key × Nat × Bytes)) :
    entriesOf k (x :: l) = if x.1 = k then x.2 :: entriesOf k l else entriesOf k l := by
  unfold entriesOf
  rw [List.filter_cons]
  by_cases h : x.1 = k
  · simp [h]
  · simp [h]

/-- the groups after the loop has consumed `l`, starting from the groups `acc` -/
theorem glookup_foldl_addEntry (l : List (Key × Nat × Bytes)) (acc : List Group) (k : Key) :
    glookup (l.foldl addEntry acc) k =
      if entriesOf k l = [] then glookup acc k else some ((glookup acc k).getD [] ++ entriesOf k l) := by
  induction l generalizing acc with
  | nil => simp [entriesOf_nil]
  | cons x l ih =>
    obtain ⟨kx, o, v⟩ := x
    rw [List.foldl_cons, ih, glookup_addEntry, entriesOf_cons]
    by_cases h : k = kx
    · subst h
      simp only [if_true]
      by_cases he : entriesOf k l = []
      · simp [he]
      · simp [he]
    · have h' : ¬ kx = k := fun e => h e.symm
      simp [h, h']

/-- **what the grouping loop computes**: one group per key that occurs, holding exactly the entries of that key in
call order -/
theorem glookup_groupByKey (kovs : List (Key × Nat × Bytes)) (k : Key) :
    glookup (groupByKey kovs) k = if entriesOf k kovs = [] then none else some (entriesOf k kovs) := by
  unfold groupByKey
  rw [glookup_foldl_addEntry]
  simp [glookup_nil]

theorem mem_keys_addEntry (gs : List Group) (x : Key × Nat × Bytes) (y : Key)
    (h : y ∈ (addEntry gs x).map (·.1)) : y ∈ gs.map (·.1) ∨ y = x.1 := by
  obtain ⟨k, o, v⟩ := x
  induction gs with
  | nil =>
    rw [addEntry] at h
    simp at h
    exact Or.inr h
  | cons g gs ih =>
    obtain ⟨k0, g0⟩ := g
    rw [addEntry] at h
    by_cases hk : k = k0
    · subst hk
      rw [if_pos (by simp)] at h
      simp only [List.map_cons, List.mem_cons] at h
      rcases h with h | h
      · exact Or.inl (by simp [h])
      · exact Or.inl (by simp only [List.map_cons, List.mem_cons]; exact Or.inr h)
    · rw [if_neg (by simpa using hk)] at h
      simp only [List.map_cons, List.mem_cons] at h
      rcases h with h | h
      · exact Or.inl (by simp [h])
      · rcases ih h with h | h
        · exact Or.inl (by simp only [List.map_cons, List.mem_cons]; exact Or.inr h)
        · exact Or.inr h

theorem nodup_addEntry (gs : List Group) (x : Key × Nat × Bytes) (h : (gs.map (·.1)).Nodup) :
    ((addEntry gs x).map (·.1)).Nodup := by
  obtain ⟨k, o, v⟩ := x
  induction gs with
  | nil => rw [addEntry]; simp
  | cons g gs ih =>
    obtain ⟨k0, g0⟩ := g
    rw [List.map_cons, List.nodup_cons] at h
    rw [addEntry]
    by_cases hk : k = k0
    · subst hk
      rw [if_pos (by simp)]
      simp only [List.map_cons]
      exact List.nodup_cons.2 h
    · rw [if_neg (by simpa using hk)]
      simp only [List.map_cons]
      refine List.nodup_cons.2 ⟨?_, ih h.2⟩
      intro hm
      rcases mem_keys_addEntry gs (k, o, v) k0 hm with hm | hm
      · exact h.1 hm
      · exact hk hm.symm

theorem nodup_foldl_addEntry (l : List (Key × Nat × Bytes)) (acc : List Group) (h : (acc.map (·.1)).Nodup) :
    ((l.foldl addEntry acc).map (·.1)).Nodup := by
  induction l generalizing acc with
  | nil => exact h
  | cons x l ih => exact ih _ (nodup_addEntry acc x h)

/-- **the groups of one call have pairwise distinct keys** -/
theorem nodup_groupByKey (kovs : List (Key × Nat × Bytes)) : ((groupByKey kovs).map (·.1)).Nodup :=
  nodup_foldl_addEntry kovs [] (by simp)

/-- distinct positions hold distinct keys -/
theorem idx_inj (l : List Group) (h : (l.map (·.1)).Nodup) (i j : Nat) (k : Key) (g g' : List Entry)
    (hi : l[i]? = some (k, g)) (hj : l[j]? = some (k, g')) : i = j := by
  induction l generalizing i j with
  | nil => simp at hi
  | cons x l ih =>
    rw [List.map_cons, List.nodup_cons] at h
    cases i with
    | zero =>
      cases j with
      | zero => rfl
      | succ j =>
        exfalso
        simp only [List.getElem?_cons_zero, Option.some.injEq] at hi
        simp only [List.getElem?_cons_succ] at hj
        have hm : (k, g') ∈ l := List.mem_of_getElem? hj
        apply h.1
        rw [hi]
        exact List.mem_map.2 ⟨(k, g'), hm, rfl⟩
    | succ i =>
      cases j with
      | zero =>
        exfalso
        simp only [List.getElem?_cons_zero, Option.some.injEq] at hj
        simp only [List.getElem?_cons_succ] at hi
        have hm : (k, g) ∈ l := List.mem_of_getElem? hi
        apply h.1
        rw [hj]
        exact List.mem_map.2 ⟨(k, g), hm, rfl⟩
      | succ j =>
        simp only [List.getElem?_cons_succ] at hi hj
        rw [ih h.2 i j hi hj]

theorem glookup_none_of_not_mem (gs : List Group) (k : Key) (h : k ∉ gs.map (·.1)) : glookup gs k = none := by
  induction gs with
  | nil => rfl
  | cons x gs ih =>
    obtain ⟨k0, g0⟩ := x
    simp only [List.map_cons, List.mem_cons, not_or] at h
    rw [glookup_cons]
    have h0 : ¬ k0 = k := fun e => h.1 e.symm
    simp only [h0, if_false]
    exact ih h.2

theorem glookup_some_idx (gs : List Group) (k : Key) (g : List Entry) (h : glookup gs k = some g) :
    ∃ i : Nat, gs[i]? = some (k, g) := by
  induction gs with
  | nil => simp [glookup_nil] at h
  | cons x gs ih =>
    obtain ⟨k0, g0⟩ := x
    rw [glookup_cons] at h
    by_cases hk : k0 = k
    · subst hk
      simp only [if_true, Option.some.injEq] at h
      subst h
      exact ⟨0, rfl⟩
    · simp only [hk, if_false] at h
      obtain ⟨i, hi⟩ := ih h
      exact ⟨i + 1, by simpa using hi⟩

theorem glookup_none_idx (gs : List Group) (k : Key) (h : glookup gs k = none) (i : Nat) (g : List Entry) :
    gs[i]? ≠ some (k, g) := by
  induction gs generalizing i with
  | nil => simp
  | cons x gs ih =>
    obtain ⟨k0, g0⟩ := x
    rw [glookup_cons] at h
    by_cases hk : k0 = k
    · simp [hk] at h
    · simp only [hk, if_false] at h
      cases i with
      | zero =>
        simp only [List.getElem?_cons_zero, ne_eq, Option.some.injEq, Prod.mk.injEq, not_and]
        intro e; exact absurd e hk
      | succ i =>
        simp only [List.getElem?_cons_succ]
        exact ih h i

/-! ### the sequential run of the groups, and the specification, key by key -/

/-- the groups applied one after the other (`specGroup` = read, apply the group's writes, put) -/
theorem seq_get (tasks : List Group) (hnd : (tasks.map (·.1)).Nodup) (m : KV) (k : Key) :
    (tasks.foldl specGroup m).get k =
      match glookup tasks k with
      | some g => some (specFold ((m.get k).getD []) g)
      | none => m.get k := by
  induction tasks generalizing m with
  | nil => rfl
  | cons x rest ih =>
    obtain ⟨k1, g1⟩ := x
    rw [List.map_cons, List.nodup_cons] at hnd
    rw [List.foldl_cons, ih hnd.2, glookup_cons]
    by_cases hk : k1 = k
    · subst hk
      rw [glookup_none_of_not_mem rest k1 hnd.1]
      simp only [if_true]
      unfold specGroup
      exact KV.get_put_same _ _ _
    · simp only [hk, if_false]
      have hg : (specGroup m (k1, g1)).get k = m.get k := by
        unfold specGroup
        exact KV.get_put_other _ _ _ _ (fun e => hk e.symm)
      rw [hg]

theorem specFold_cons (old : Bytes) (ov : Entry) (g : List Entry) :
    specFold old (ov :: g) = specFold (specSetPartial old ov.1 ov.2) g := rfl

/-- the specification (`Spec.step … (.setPartial kovs)`: the entries one after the other), key by key -/
theorem spec_get (kovs : List (Key × Nat × Bytes)) (m : KV) (k : Key) :
    (kovs.foldl specKov m).get k =
      if entriesOf k kovs = [] then m.get k else some (specFold ((m.get k).getD []) (entriesOf k kovs)) := by
  induction kovs generalizing m with
  | nil => simp [entriesOf_nil]
  | cons x rest ih =>
    obtain ⟨k1, o, v⟩ := x
    rw [List.foldl_cons, ih, entriesOf_cons]
    by_cases hk : k1 = k
    · subst hk
      have hg : (specKov m (k1, o, v)).get k1 = some (specSetPartial ((m.get k1).getD []) o v) := by
        unfold specKov
        exact KV.get_put_same _ _ _
      simp only [if_true, hg, Option.getD_some]
      by_cases he : entriesOf k1 rest = []
      · simp [he, specFold]
      · simp [he, specFold_cons]
    · have hg : (specKov m (k1, o, v)).get k = m.get k := by
        unfold specKov
        exact KV.get_put_other _ _ _ _ (fun e => hk e.symm)
      simp only [hk, if_false, hg]

/-! ### the concurrent run -/

/-- what holds after any prefix of any schedule, for groups with pairwise distinct keys -/
structure Inv (tasks : List Group) (m0 : KV) (s : AState) : Prop where
  /-- a group that has written left its key at the specified value -/
  written : ∀ i k g, tasks[i]? = some (k, g) → i ∈ s.done → s.m.get k = some (specFold ((m0.get k).getD []) g)
  /-- a key none of whose groups has written is as it was -/
  untouched : ∀ k, (∀ i g, tasks[i]? = some (k, g) → i ∉ s.done) → s.m.get k = m0.get k
  /-- what a future has read is the ORIGINAL value of its key -/
  snapOk : ∀ i old, snapOf s i = some old → ∃ k g, tasks[i]? = some (k, g) ∧ old = (m0.get k).getD []
  /-- a future writes after it has read -/
  doneRead : ∀ i, i ∈ s.done → (snapOf s i).isSome = true

theorem snapOf_cons (s : AState) (i : Nat) (old : Bytes) (j : Nat) :
    snapOf { s with snap := (i, old) :: s.snap } j = if i = j then some old else snapOf s j := by
  unfold snapOf
  simp only [List.find?_cons]
  by_cases h : i = j
  · simp [h]
  · have hb : (i == j) = false := by simpa using h
    simp [h, hb]

theorem inv_init (tasks : List Group) (m0 : KV) : Inv tasks m0 { m := m0 } where
  written := by intro i k g _ h; simp at h
  untouched := by intro k _; rfl
  snapOk := by intro i old h; simp [snapOf] at h
  doneRead := by intro i h; simp at h

theorem inv_step (tasks : List Group) (hnd : (tasks.map (·.1)).Nodup) (m0 : KV) (s : AState)
    (h : Inv tasks m0 s) (e : Ev) : Inv tasks m0 (stepEv tasks s e) := by
  cases e with
  | read i =>
    by_cases hs : (snapOf s i).isSome = true
    · have e : stepEv tasks s (.read i) = s := by simp [stepEv, hs]
      rw [e]; exact h
    · cases ht : tasks[i]? with
      | none =>
        have e : stepEv tasks s (.read i) = s := by simp [stepEv, ht]
        rw [e]; exact h
      | some kg =>
        obtain ⟨k, g⟩ := kg
        have e : stepEv tasks s (.read i) = { s with snap := (i, (s.m.get k).getD []) :: s.snap } := by
          simp [stepEv, hs, ht]
        rw [e]
        -- the key still holds its original value: no group with this key has written
        have horig : s.m.get k = m0.get k := by
          apply h.untouched
          intro i' g' hi' hd
          have : i' = i := idx_inj tasks hnd i' i k g' g hi' ht
          subst this
          exact hs (h.doneRead _ hd)
        refine ⟨h.written, h.untouched, ?_, ?_⟩
        · intro j old hj
          rw [snapOf_cons] at hj
          by_cases hij : i = j
          · subst hij
            simp only [if_true, Option.some.injEq] at hj
            exact ⟨k, g, ht, by rw [← hj, horig]⟩
          · simp only [hij, if_false] at hj
            exact h.snapOk j old hj
        · intro j hj
          rw [snapOf_cons]
          by_cases hij : i = j
          · simp [hij]
          · simp only [hij, if_false]
            exact h.doneRead j hj
  | write i =>
    by_cases hd : i ∈ s.done
    · have e : stepEv tasks s (.write i) = s := by simp [stepEv, hd]
      rw [e]; exact h
    · cases ht : tasks[i]? with
      | none =>
        have e : stepEv tasks s (.write i) = s := by simp [stepEv, ht]
        rw [e]; exact h
      | some kg =>
        obtain ⟨k, g⟩ := kg
        cases hsn : snapOf s i with
        | none =>
          have e : stepEv tasks s (.write i) = s := by simp [stepEv, ht, hsn]
          rw [e]; exact h
        | some old =>
          have e : stepEv tasks s (.write i) = { s with m := s.m.put k (rmwGroup old g), done := i :: s.done } := by
            simp [stepEv, hd, ht, hsn]
          rw [e]
          obtain ⟨k', g', ht', hold⟩ := h.snapOk i old hsn
          rw [ht] at ht'
          simp only [Option.some.injEq, Prod.mk.injEq] at ht'
          obtain ⟨rfl, rfl⟩ := ht'
          refine ⟨?_, ?_, ?_, ?_⟩
          · intro j kj gj hj hjd
            simp only [List.mem_cons] at hjd
            by_cases hji : j = i
            · subst hji
              rw [ht] at hj
              simp only [Option.some.injEq, Prod.mk.injEq] at hj
              obtain ⟨rfl, rfl⟩ := hj
              show (s.m.put k (rmwGroup old g)).get k = _
              rw [KV.get_put_same, rmwGroup_eq, hold]
            · have hjd' : j ∈ s.done := by
                rcases hjd with hjd | hjd
                · exact absurd hjd hji
                · exact hjd
              have hkk : kj ≠ k := by
                intro e
                subst e
                exact hji (idx_inj tasks hnd j i kj gj g hj ht)
              show (s.m.put k (rmwGroup old g)).get kj = _
              rw [KV.get_put_other _ _ _ _ hkk]
              exact h.written j kj gj hj hjd'
          · intro k'' hk''
            have hkk : k'' ≠ k := by
              intro e
              subst e
              exact hk'' i g ht (by simp)
            show (s.m.put k (rmwGroup old g)).get k'' = _
            rw [KV.get_put_other _ _ _ _ hkk]
            apply h.untouched
            intro i' g'' hi' hmem
            exact hk'' i' g'' hi' (by simp [hmem])
          · intro j old' hj
            exact h.snapOk j old' hj
          · intro j hj
            simp only [List.mem_cons] at hj
            rcases hj with hj | hj
            · subst hj
              show (snapOf s j).isSome = true
              rw [hsn]; rfl
            · exact h.doneRead j hj

theorem inv_foldl (tasks : List Group) (hnd : (tasks.map (·.1)).Nodup) (m0 : KV) (evs : List Ev) (s : AState)
    (h : Inv tasks m0 s) : Inv tasks m0 (evs.foldl (stepEv tasks) s) := by
  induction evs generalizing s with
  | nil => exact h
  | cons e evs ih => exact ih _ (inv_step tasks hnd m0 s h e)

theorem inv_run (tasks : List Group) (hnd : (tasks.map (·.1)).Nodup) (m0 : KV) (evs : List Ev) :
    Inv tasks m0 (run tasks m0 evs) :=
  inv_foldl tasks hnd m0 evs _ (inv_init tasks m0)

/-- after every future has completed — in whatever order their reads and writes took effect — every key holds what the
sequential run of the groups leaves -/
theorem run_get (tasks : List Group) (hnd : (tasks.map (·.1)).Nodup) (m0 : KV) (evs : List Ev)
    (hdone : allDone tasks (run tasks m0 evs) = true) (k : Key) :
    (run tasks m0 evs).m.get k = (tasks.foldl specGroup m0).get k := by
  have hI := inv_run tasks hnd m0 evs
  rw [seq_get tasks hnd]
  cases hg : glookup tasks k with
  | some g =>
    obtain ⟨i, hi⟩ := glookup_some_idx tasks k g hg
    have hlt : i < tasks.length := by
      rcases Nat.lt_or_ge i tasks.length with h | h
      · exact h
      · rw [List.getElem?_eq_none h] at hi; cases hi
    have hid : i ∈ (run tasks m0 evs).done := by
      unfold allDone at hdone
      rw [List.all_eq_true] at hdone
      have := hdone i (List.mem_range.2 hlt)
      simpa using this
    exact hI.written i k g hi hid
  | none =>
    apply hI.untouched
    intro i g hi
    exact absurd hi (glookup_none_idx tasks k hg i g)

/-- an event leaves the store as it is or puts one value -/
theorem stepEv_m (tasks : List Group) (s : AState) (e : Ev) :
    (stepEv tasks s e).m = s.m ∨ ∃ k v, (stepEv tasks s e).m = s.m.put k v := by
  cases e with
  | read i =>
    left
    by_cases hs : (snapOf s i).isSome = true
    · simp [stepEv, hs]
    · cases ht : tasks[i]? with
      | none => simp [stepEv, ht]
      | some kg => simp [stepEv, hs, ht]
  | write i =>
    by_cases hd : i ∈ s.done
    · left; simp [stepEv, hd]
    · cases ht : tasks[i]? with
      | none => left; simp [stepEv, ht]
      | some kg =>
        obtain ⟨k, g⟩ := kg
        cases hsn : snapOf s i with
        | none => left; simp [stepEv, ht, hsn]
        | some old => right; exact ⟨k, rmwGroup old g, by simp [stepEv, hd, ht, hsn]⟩

theorem stepEv_sorted (tasks : List Group) (s : AState) (hs : s.m.sorted) (e : Ev) : (stepEv tasks s e).m.sorted := by
  rcases stepEv_m tasks s e with h | ⟨k, v, h⟩
  · rw [h]; exact hs
  · rw [h]; exact KV.put_sorted _ hs _ _

theorem run_sorted (tasks : List Group) (m0 : KV) (hs : m0.sorted) (evs : List Ev) : (run tasks m0 evs).m.sorted := by
  unfold run
  generalize hst : ({ m := m0 } : AState) = s0
  have h0 : s0.m.sorted := by rw [← hst]; exact hs
  clear hst
  induction evs generalizing s0 with
  | nil => exact h0
  | cons e evs ih => exact ih _ (stepEv_sorted tasks s0 h0 e)

end Zarrs.AsyncRmw
