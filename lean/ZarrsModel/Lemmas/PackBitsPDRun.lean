import ZarrsModel.Lemmas.PackBitsPD
/- helper lemmas for the packbits partial decoder (C02), part 2: the component loop of one run, the loop over the
runs with the running output index -/
set_option Elab.async false
namespace Zarrs.PackBitsPD
open Zarrs Zarrs.Codec Zarrs.Partial Zarrs.PackBits

/-- the component loop of one run writes the components `base + s .. base + s + m` of the stream behind the
components already written -/
theorem runLoop_spec (c : Cfg) (hfl : c.first ≤ c.last) (hl : c.last < c.w) (packed : Bytes) (bitOff outer base : Nat)
    (X : List Bool) (M : Nat)
    (hread : ∀ k, k < M → readBits packed (k * c.n + bitOff) c.n = some ((X.drop ((base + k) * c.n)).take c.n)) :
    ∀ (m s z : Nat) (done : List Nat), done.length = outer + s → s + m ≤ M →
      runLoop c packed bitOff outer (List.range' s m) (done ++ List.replicate (m + z) 0) =
        some (done ++ (List.range' s m).map (fun k => compAt c X (base + k)) ++ List.replicate z 0) := by
  intro m
  induction m with
  | zero =>
    intro s z done _ _
    simp [runLoop]
  | succ m ih =>
    intro s z done hd hs
    rw [List.range'_succ, runLoop, hread s (by omega)]
    simp only
    have e : m + 1 + z = (m + z) + 1 := by omega
    rw [e, ← hd, writeComp_zero c hfl hl done (m + z) _ (natOfBits_take_lt _ _)]
    simp only
    have hd' : (done ++ [place c (natOfBits ((X.drop ((base + s) * c.n)).take c.n))]).length = outer + (s + 1) := by
      rw [List.length_append, hd]; rfl
    rw [ih (s + 1) z _ hd' (by omega)]
    simp only [List.map_cons, List.append_assoc, List.cons_append, List.nil_append, compAt]

theorem range_map_drop_take {α} (f : Nat → α) (N b m : Nat) (h : b + m ≤ N) :
    (((List.range N).map f).drop b).take m = (List.range m).map (fun k => f (b + k)) := by
  apply List.ext_getElem?
  intro i
  by_cases hi : i < m
  · simp only [List.getElem?_take, hi, if_true, List.getElem?_drop, List.getElem?_map]
    rw [List.getElem?_range (by omega), List.getElem?_range hi]
    rfl
  · simp only [List.getElem?_take, hi, if_false, List.getElem?_map]
    rw [List.getElem?_eq_none (by simp; omega)]
    rfl

/-- the loop over the runs: run `i` (element index) of `run` elements appends the components
`i * nc .. (i + run) * nc` of the full decode -/
theorem runsLoop_spec (c : Cfg) (hfl : c.first ≤ c.last) (hl : c.last < c.w) (nc : Nat) (hnc : 0 < nc)
    (count : Nat) (v : Bytes) (N run : Nat) (hcount : count = N * nc)
    (hbody : (bodyOf c v).length = (count * c.n + 7) / 8)
    (P : Nat → Bytes)
    (hP : ∀ i, i + run ≤ N → P i = slice (bodyOf c v) (i * ebits c nc / 8) ((i * ebits c nc + run * ebits c nc + 7) / 8)) :
    ∀ (is : List Nat) (outer z : Nat) (done : List Nat), (∀ i ∈ is, i + run ≤ N) → done.length = outer →
      runsLoop c nc nc (is.map (fun i => (P i, (i * ebits c nc, run * ebits c nc)))) outer
          (done ++ List.replicate (is.length * (run * nc) + z) 0) =
        some (done ++ is.flatMap (fun i => ((compsOf c count v).drop (i * nc)).take (run * nc)) ++ List.replicate z 0) := by
  have hn : 0 < c.n := by unfold Cfg.n; omega
  have hE : 0 < ebits c nc := Nat.mul_pos hn hnc
  intro is
  induction is with
  | nil =>
    intro outer z done _ _
    simp [runsLoop]
  | cons i is ih =>
    intro outer z done hall hd
    have hi : i + run ≤ N := hall i (by simp)
    rw [List.map_cons, runsLoop]
    have hE0 : (ebits c nc == 0) = false := by simp; omega
    simp only [hE0, Bool.false_eq_true, if_false]
    rw [Nat.mul_div_cancel _ hE]
    -- the reads of this run
    have hread : ∀ k, k < run * nc →
        readBits (P i) (k * c.n + (i * ebits c nc - 8 * (i * ebits c nc / 8))) c.n =
          some (((allBits (bodyOf c v)).drop ((i * nc + k) * c.n)).take c.n) := by
      intro k hk
      rw [hP i hi]
      have hk1 : (k + 1) * c.n ≤ run * ebits c nc := by
        have := Nat.mul_le_mul_right c.n (show k + 1 ≤ run * nc by omega)
        rw [Nat.mul_assoc, Nat.mul_comm nc c.n] at this
        exact this
      have htot : i * ebits c nc + run * ebits c nc ≤ count * c.n := by
        have := Nat.mul_le_mul_right (ebits c nc) hi
        rw [Nat.add_mul] at this
        rw [hcount, Nat.mul_assoc, Nat.mul_comm nc c.n]
        exact this
      have he : (i * ebits c nc + run * ebits c nc + 7) / 8 ≤ (bodyOf c v).length := by
        rw [hbody]
        exact Nat.div_le_div_right (by omega)
      rw [Nat.succ_mul] at hk1
      have hoff : 8 * (i * ebits c nc / 8) + (k * c.n + (i * ebits c nc - 8 * (i * ebits c nc / 8))) = (i * nc + k) * c.n := by
        have : i * ebits c nc = i * nc * c.n := by
          unfold ebits; rw [Nat.mul_comm c.n nc, Nat.mul_assoc]
        rw [Nat.add_mul, ← this]
        omega
      rw [readBits_slice _ _ _ _ _ he (by omega), hoff]
    have hz : (i :: is).length * (run * nc) + z = run * nc + (is.length * (run * nc) + z) := by
      rw [List.length_cons, Nat.succ_mul]; omega
    rw [hz, List.range_eq_range']
    have hrun := runLoop_spec c hfl hl (P i) (i * ebits c nc - 8 * (i * ebits c nc / 8)) outer (i * nc)
      (allBits (bodyOf c v)) (run * nc) hread (run * nc) 0 (is.length * (run * nc) + z) done (by omega) (by omega)
    rw [hrun]
    simp only
    have hseg : (List.range' 0 (run * nc)).map (fun k => compAt c (allBits (bodyOf c v)) (i * nc + k)) =
        ((compsOf c count v).drop (i * nc)).take (run * nc) := by
      rw [← List.range_eq_range', compsOf, range_map_drop_take _ count (i * nc) (run * nc) (by
        rw [hcount, ← Nat.add_mul]; exact Nat.mul_le_mul_right nc hi)]
    rw [hseg]
    have hd' : (done ++ ((compsOf c count v).drop (i * nc)).take (run * nc)).length = outer + run * nc := by
      rw [List.length_append, hd, List.length_take, List.length_drop, compsOf_length, hcount]
      have : i * nc + run * nc ≤ N * nc := by rw [← Nat.add_mul]; exact Nat.mul_le_mul_right nc hi
      omega
    rw [ih (outer + run * nc) z _ (fun j hj => hall j (by simp [hj])) hd']
    simp only [List.flatMap_cons, List.append_assoc]

end Zarrs.PackBitsPD
