import ZarrsModel.Lemmas.MemConcInv
/- C18 helper lemmas, part 6: the ghost entries added by one step; the ghost invariant is preserved -/
namespace Zarrs.MemConc

/-- what a step appends to the ghost linearization list -/
structure NewSpec (ps : Progs) (time : Nat) (v v' : VState) (t : Nat) (new : List LinE) : Prop where
  legal : legalG (v.cur.map (logical ps v)) new = some (v'.cur.map (logical ps v'))
  each : ∀ e ∈ new, e.lt = time ∧ e.k = v.pc e.t ∧ opAt ps e.t e.k = some e.op ∧
      (v.ts e.t = .idle ∨ ∃ c, v.ts e.t = .getHold c ∧ v.cur = some c) ∧
      (e.k = v'.pc e.t → PendOK ps v' e)
  pw : new.Pairwise (fun a b => a.t ≠ b.t)
  hold : ∀ c0, v'.ts t = .setHold c0 → ∃ e ∈ new, e.t = t ∧ e.k = v'.pc t
  getOther : ∀ t' c', v.ts t' = .getHold c' → v.cur = some c' → t' ≠ t →
      v'.cur = some c' ∨ ∃ e ∈ new, e.t = t' ∧ e.k = v.pc t'
  getSelf : ∀ c', v'.ts t = .getHold c' → v.ts t = .idle → v'.cur = some c'

theorem VStep.new_spec {ps time v lin t v' lin' r} (hwf : VWF ps v)
    (hst : VStep ps time v lin t v' lin' r) :
    ∃ new, lin' = lin ++ new ∧ NewSpec ps time v v' t new := by
  have hfr := logical_frame hwf hst
  -- the `legal` clause when nothing is linearized and the map entry is unchanged
  have legal_nil : v'.cur = v.cur → (∀ c0, v'.ts t ≠ .setHold c0) →
      legalG (v.cur.map (logical ps v)) [] = some (v'.cur.map (logical ps v')) := by
    intro h1 h2
    rw [h1]
    cases hc : v.cur with
    | none => rfl
    | some c => simp only [legalG, Option.map_some, hfr c (Or.inl h2)]
  cases hst with
  | s1e op c hop hw hts hcur hfree hv hl hr =>
    subst hv hl
    refine ⟨_, rfl, ?_, ?_, ?_, ?_, ?_, ?_⟩
    · simp only [hcur, Option.map_some, legalG, specStep_write _ _ hw, if_true, Option.getD_some]
      rw [logical_free hfree, logical_locked (t := t) (op := op) (by simp [upd_apply]) (by simpa using hop)]
    · intro e he
      rw [List.mem_singleton] at he; subst he
      refine ⟨rfl, rfl, hop, Or.inl hts, fun _ => Or.inl ⟨c, by simp [upd_apply], rfl⟩⟩
    · simp
    · intro c0 _; exact ⟨_, List.mem_singleton_self _, rfl, rfl⟩
    · intro t' c' _ h _; exact Or.inl h
    · intro c' h; simp [upd_apply] at h
  | s1n op hop hw hts hcur hv hl hr =>
    subst hv hl
    refine ⟨_, rfl, ?_, ?_, ?_, ?_, ?_, ?_⟩
    · simp only [hcur, Option.map_none, Option.map_some, legalG, specStep_write _ _ hw, if_true, Option.getD_none]
      rw [logical_locked (t := t) (op := op) (by simp [upd_apply]) (by simpa using hop)]
      simp only [hwf.cell_nil v.ncells (Nat.le_refl _)]
    · intro e he
      rw [List.mem_singleton] at he; subst he
      refine ⟨rfl, rfl, hop, Or.inl hts, fun _ => Or.inl ⟨v.ncells, by simp [upd_apply], rfl⟩⟩
    · simp
    · intro c0 _; exact ⟨_, List.mem_singleton_self _, rfl, rfl⟩
    · intro t' c' _ h _; rw [hcur] at h; cases h
    · intro c' h; simp [upd_apply] at h
  | s2 op c hop hts hv hl hr =>
    subst hv hl
    refine ⟨[], (List.append_nil _).symm, legal_nil rfl (by simp [upd_apply]), ?_, List.Pairwise.nil, ?_, ?_, ?_⟩
    · intro e he; cases he
    · intro c0 h; simp [upd_apply] at h
    · intro t' c' _ h _; exact Or.inl h
    · intro c' h; simp [upd_apply] at h
  | g1m op hop hrd hts hcur hv hl hr =>
    subst hv hl
    refine ⟨_, rfl, ?_, ?_, ?_, ?_, ?_, ?_⟩
    · simp only [hcur, Option.map_none, legalG, specStep_read_none _ hrd, if_true]
    · intro e he
      rw [List.mem_singleton] at he; subst he
      refine ⟨rfl, rfl, hop, Or.inl hts, fun h => ?_⟩
      simp [upd_apply] at h
    · simp
    · intro c0 h; simp [upd_apply] at h
    · intro t' c' _ h _; exact Or.inl h
    · intro c' h; simp [upd_apply] at h
  | g1h op c hop hrd hts hcur hv hl hr =>
    subst hv hl
    refine ⟨[], (List.append_nil _).symm, legal_nil rfl (by simp [upd_apply]), ?_, List.Pairwise.nil, ?_, ?_, ?_⟩
    · intro e he; cases he
    · intro c0 h; simp [upd_apply] at h
    · intro t' c' _ h _; exact Or.inl h
    · intro c' h _
      have : c = c' := by simpa [upd_apply] using h
      subst this; exact hcur
  | g2 op c hop hts hfree hv hl hr =>
    subst hv
    obtain ⟨_, op', hop', hrd⟩ := hwf.get_op t c hts
    have : op' = op := by rw [hop] at hop'; cases hop'; rfl
    subst this
    by_cases hc : v.cur = some c
    · rw [if_pos hc] at hl; subst hl
      refine ⟨_, rfl, ?_, ?_, ?_, ?_, ?_, ?_⟩
      · simp only [hc, Option.map_some, legalG, specStep_read _ _ hrd, logical_free hfree, if_true]
        rw [← logical_free (ps := ps) hfree, ← hfr c (Or.inl (by simp [upd_apply]))]
        rfl
      · intro e he
        rw [List.mem_singleton] at he; subst he
        refine ⟨rfl, rfl, hop, Or.inr ⟨c, hts, hc⟩, fun h => ?_⟩
        simp [upd_apply] at h
      · simp
      · intro c0 h; simp [upd_apply] at h
      · intro t' c' _ h _; exact Or.inl h
      · intro c' h; simp [upd_apply] at h
    · rw [if_neg hc] at hl; subst hl
      refine ⟨[], (List.append_nil _).symm, legal_nil rfl (by simp [upd_apply]), ?_, List.Pairwise.nil, ?_, ?_, ?_⟩
      · intro e he; cases he
      · intro c0 h; simp [upd_apply] at h
      · intro t' c' _ h _; exact Or.inl h
      · intro c' h; simp [upd_apply] at h
  | sz hop hts hfree hv hl hr =>
    subst hv hl
    refine ⟨_, rfl, ?_, ?_, ?_, ?_, ?_, ?_⟩
    · have hnl : ∀ c0, upd v.ts t TS.idle t ≠ .setHold c0 := by simp [upd_apply]
      cases hc : v.cur with
      | none => simp [legalG, specStep]
      | some c =>
        have h1 := hfr c (Or.inl hnl)
        rw [logical_free (hfree c hc)] at h1
        simp only [Option.map_some, legalG, specStep, logical_free (hfree c hc), if_true]
        exact congrArg (fun x => some (some x)) h1.symm
    · intro e he
      rw [List.mem_singleton] at he; subst he
      refine ⟨rfl, rfl, hop, Or.inl hts, fun h => ?_⟩
      simp [upd_apply] at h
    · simp
    · intro c0 h; simp [upd_apply] at h
    · intro t' c' _ h _; exact Or.inl h
    · intro c' h; simp [upd_apply] at h
  | e1 hop hts hv hl hr =>
    subst hv
    rw [List.append_assoc] at hl; subst hl
    have hnl : ∀ c0, upd v.ts t TS.idle t ≠ .setHold c0 := by simp [upd_apply]
    refine ⟨_, rfl, ?_, ?_, ?_, ?_, ?_, ?_⟩
    · rw [legalG_append]
      cases hc : v.cur with
      | none => simp [legalG, specStep]
      | some c =>
        have : legalG (some (logical ps v c)) (helpers ps v c time) = some (some (logical ps v c)) := by
          apply legalG_reads
          intro e he
          obtain ⟨t', op, _, hts', hop', rfl⟩ := mem_helpers.mp he
          obtain ⟨_, op', hop'', hrd⟩ := hwf.get_op t' c hts'
          rw [hop'] at hop''; cases hop''
          exact ⟨hrd, rfl⟩
        simp [this, legalG, specStep]
    · intro e he
      rw [List.mem_append, List.mem_singleton] at he
      rcases he with he | he
      · cases hc : v.cur with
        | none => rw [hc] at he; cases he
        | some c =>
          rw [hc] at he
          obtain ⟨t', op, _, hts', hop', rfl⟩ := mem_helpers.mp he
          have hne : t' ≠ t := by intro e; rw [e, hts] at hts'; cases hts'
          refine ⟨rfl, rfl, hop', Or.inr ⟨c, hts', rfl⟩, fun _ => Or.inr ⟨c, ?_, ?_, ?_⟩⟩
          · simp [upd_apply, hne, hts']
          · simp
          · show _ = readRes op (logical ps _ c)
            rw [hfr c (Or.inl hnl)]
      · subst he
        refine ⟨rfl, rfl, hop, Or.inl hts, fun h => ?_⟩
        simp [upd_apply] at h
    · rw [List.pairwise_append]
      refine ⟨?_, by simp, ?_⟩
      · cases hc : v.cur with
        | none => exact List.Pairwise.nil
        | some c => exact helpers_pairwise ps v c time
      · intro a ha b hb
        rw [List.mem_singleton] at hb; subst hb
        cases hc : v.cur with
        | none => rw [hc] at ha; cases ha
        | some c =>
          rw [hc] at ha
          obtain ⟨t', op, _, hts', _, rfl⟩ := mem_helpers.mp ha
          intro e; simp only at e; rw [e, hts] at hts'; cases hts'
    · intro c0 h; simp [upd_apply] at h
    · intro t' c' hts' hc _
      right
      obtain ⟨_, op', hop', _⟩ := hwf.get_op t' c' hts'
      refine ⟨⟨t', v.pc t', op', readRes op' (logical ps v c'), time⟩, ?_, rfl, rfl⟩
      rw [List.mem_append]; left
      rw [hc]
      exact mem_helpers.mpr ⟨t', op', hwf.ts_lt t' (by rw [hts']; simp), hts', hop', rfl⟩
    · intro c' h; simp [upd_apply] at h

/-- the ghost invariant: the linearization list is a legal register run ending in the logical value of the key,
and accounts for exactly the linearized pending operations -/
structure GInv (ps : Progs) (i0 : Option Bytes) (v : VState) (lin : List LinE) : Prop where
  legal : legalG i0 lin = some (v.cur.map (logical ps v))
  k_le : ∀ e ∈ lin, e.k ≤ v.pc e.t
  op_ok : ∀ e ∈ lin, opAt ps e.t e.k = some e.op
  pend : ∀ e ∈ lin, e.k = v.pc e.t → PendOK ps v e
  hold_lin : ∀ t c, v.ts t = .setHold c → ∃ e ∈ lin, e.t = t ∧ e.k = v.pc t
  get_lin : ∀ t c, v.ts t = .getHold c → v.cur = some c ∨ ∃ e ∈ lin, e.t = t ∧ e.k = v.pc t
  nodup : lin.Pairwise (fun a b => ¬ (a.t = b.t ∧ a.k = b.k))

theorem PendOK.frame {ps time v lin t v' lin' r e} (hwf : VWF ps v) (hst : VStep ps time v lin t v' lin' r)
    (hne : e.t ≠ t) (h : PendOK ps v e) : PendOK ps v' e := by
  rcases h with ⟨c, h1, h2⟩ | ⟨c, h1, h2, h3⟩
  · exact Or.inl ⟨c, by rw [hst.ts_other hne]; exact h1, h2⟩
  · have hc := (hwf.get_op e.t c h1).1
    exact Or.inr ⟨c, by rw [hst.ts_other hne]; exact h1, hst.cur_orphan h2 hc,
      by rw [logical_frame hwf hst c (Or.inr ⟨h2, hc⟩)]; exact h3⟩

theorem ginv_step {ps i0 time v lin t v' lin' r} (hwf : VWF ps v) (g : GInv ps i0 v lin)
    (hst : VStep ps time v lin t v' lin' r) {new : List LinE} (hl : lin' = lin ++ new)
    (ns : NewSpec ps time v v' t new) : GInv ps i0 v' lin' := by
  subst hl
  have hself := hst.pc_self
  refine ⟨?_, ?_, ?_, ?_, ?_, ?_, ?_⟩
  · rw [legalG_append, g.legal]; exact ns.legal
  · intro e he
    rcases List.mem_append.mp he with he | he
    · exact Nat.le_trans (g.k_le e he) (hst.pc_le e.t)
    · rw [(ns.each e he).2.1]; exact hst.pc_le e.t
  · intro e he
    rcases List.mem_append.mp he with he | he
    · exact g.op_ok e he
    · exact (ns.each e he).2.2.1
  · intro e he hk
    rcases List.mem_append.mp he with he | he
    · by_cases het : e.t = t
      · exfalso
        cases hr : r with
        | none =>
          obtain ⟨h1, h2, _⟩ := hself.1 hr
          rw [het, h1] at hk
          have := g.pend e he (by rw [het]; exact hk)
          rw [PendOK, het, h2] at this
          rcases this with ⟨c, h, _⟩ | ⟨c, h, _⟩ <;> cases h
        | some x =>
          obtain ⟨h1, _⟩ := hself.2 (by simp [hr])
          have := g.k_le e he
          rw [het] at hk this
          omega
      · rw [hst.pc_other het] at hk
        exact (g.pend e he hk).frame hwf hst het
    · exact (ns.each e he).2.2.2.2 hk
  · intro t' c' hts'
    by_cases het : t' = t
    · subst het
      obtain ⟨e, he, h⟩ := ns.hold c' hts'
      exact ⟨e, List.mem_append_right _ he, h⟩
    · rw [hst.ts_other het] at hts'
      obtain ⟨e, he, h1, h2⟩ := g.hold_lin t' c' hts'
      exact ⟨e, List.mem_append_left _ he, h1, by rw [hst.pc_other het]; exact h2⟩
  · intro t' c' hts'
    by_cases het : t' = t
    · subst het
      left
      cases hr : r with
      | none => exact ns.getSelf c' hts' (hself.1 hr).2.1
      | some x =>
        have := (hself.2 (by simp [hr])).2
        rw [this] at hts'; cases hts'
    · have hts0 := hts'
      rw [hst.ts_other het] at hts0
      rcases g.get_lin t' c' hts0 with h | ⟨e, he, h1, h2⟩
      · rcases ns.getOther t' c' hts0 h het with h' | ⟨e, he, h1, h2⟩
        · exact Or.inl h'
        · exact Or.inr ⟨e, List.mem_append_right _ he, h1, by rw [hst.pc_other het]; exact h2⟩
      · exact Or.inr ⟨e, List.mem_append_left _ he, h1, by rw [hst.pc_other het]; exact h2⟩
  · rw [List.pairwise_append]
    refine ⟨g.nodup, ns.pw.imp (fun {a b} h h' => h h'.1), ?_⟩
    intro a ha b hb ⟨h1, h2⟩
    obtain ⟨_, hbk, _, hb', _⟩ := ns.each b hb
    have := g.pend a ha (by rw [h2, hbk, h1])
    rw [PendOK, h1] at this
    rcases this with ⟨c, h, _⟩ | ⟨c, h, hc, _⟩
    · rcases hb' with h' | ⟨c', h', _⟩ <;> rw [h] at h' <;> cases h'
    · rcases hb' with h' | ⟨c', h', hc'⟩
      · rw [h] at h'; cases h'
      · rw [h] at h'; cases h'; exact hc hc'

end Zarrs.MemConc
