import ZarrsModel.Model.PackBitsPD
import ZarrsModel.Lemmas.PackBits
import ZarrsModel.Lemmas.Partial
/- helper lemmas for the packbits partial decoder (C02), part 1: bits of byte slices, the full decoder as a list of
components, one component write -/
set_option Elab.async false
namespace Zarrs.PackBitsPD
open Zarrs Zarrs.Codec Zarrs.Partial Zarrs.PackBits

/-! ### bits of bytes -/

theorem allBits_eq_flatten (b : Bytes) : allBits b = (b.map (bitsOf 8)).flatten := by
  unfold allBits; rw [List.flatMap_def]

theorem bits8_len (b : Bytes) : ∀ g ∈ b.map (bitsOf 8), g.length = 8 := by
  intro g hg
  obtain ⟨x, _, rfl⟩ := List.mem_map.mp hg
  exact bitsOf_length 8 x

theorem allBits_length (b : Bytes) : (allBits b).length = 8 * b.length := by
  rw [allBits_eq_flatten, flatten_length_of_all 8 _ (bits8_len b), List.length_map, Nat.mul_comm]

theorem allBits_drop (b : Bytes) (k : Nat) : allBits (b.drop k) = (allBits b).drop (8 * k) := by
  rw [allBits_eq_flatten, allBits_eq_flatten, Nat.mul_comm, flatten_drop_mul 8 _ k (bits8_len b), List.map_drop]

theorem allBits_take (b : Bytes) (k : Nat) : allBits (b.take k) = (allBits b).take (8 * k) := by
  rw [allBits_eq_flatten, allBits_eq_flatten, Nat.mul_comm, flatten_take_mul 8 _ k (bits8_len b), List.map_take]

theorem allBits_slice (b : Bytes) (a e : Nat) :
    allBits (slice b a e) = ((allBits b).drop (8 * a)).take (8 * (e - a)) := by
  unfold slice
  rw [allBits_take, allBits_drop]

/-- reading `n` bits at bit `s` of the bytes `[a, e)` of `body` is reading at bit `8a + s` of `body` -/
theorem readBits_slice (body : Bytes) (a e s n : Nat) (he : e ≤ body.length) (hb : 8 * a + s + n ≤ 8 * e) :
    readBits (slice body a e) s n = some (((allBits body).drop (8 * a + s)).take n) := by
  unfold readBits
  have hl : (slice body a e).length = e - a := slice_length_le body a e he
  rw [hl, if_pos (by omega), allBits_slice, List.drop_take, List.take_take, List.drop_drop]
  congr 2
  omega

theorem natOfBits_lt : ∀ (l : List Bool), natOfBits l < 2 ^ l.length := by
  intro l
  induction l with
  | nil => simp [natOfBits]
  | cons b l ih =>
    simp only [natOfBits, List.length_cons, Nat.pow_succ]
    cases b <;> simp <;> omega

theorem natOfBits_take_lt (l : List Bool) (n : Nat) : natOfBits (l.take n) < 2 ^ n := by
  have h1 := natOfBits_lt (l.take n)
  have h2 : (l.take n).length ≤ n := by rw [List.length_take]; omega
  exact Nat.lt_of_lt_of_le h1 (Nat.pow_le_pow_right (by decide) h2)

/-! ### the full decoder as a list of components -/

theorem takeBits_eq_range (n : Nat) : ∀ (k : Nat) (bits : List Bool),
    takeBits k n bits = (List.range k).map (fun j => (bits.drop (j * n)).take n) := by
  intro k
  induction k with
  | zero => intro bits; rfl
  | succ k ih =>
    intro bits
    rw [takeBits, ih, List.range_succ_eq_map, List.map_cons, List.map_map]
    simp only [Nat.zero_mul, List.drop_zero, List.cons.injEq, true_and]
    apply List.map_congr_left
    intro j _
    simp only [Function.comp, List.drop_drop, Nat.succ_mul]
    rw [Nat.add_comm]

/-- the packed bytes without the padding byte -/
def bodyOf (c : Cfg) (v : Bytes) : Bytes :=
  match c.pad with
  | .none => v
  | .firstByte => v.drop 1
  | .lastByte => v.dropLast

/-- component `j` decoded from the packed bit stream -/
def compAt (c : Cfg) (bits : List Bool) (j : Nat) : Nat := place c (natOfBits ((bits.drop (j * c.n)).take c.n))

/-- all decoded components -/
def compsOf (c : Cfg) (count : Nat) (v : Bytes) : List Nat := (List.range count).map (compAt c (allBits (bodyOf c v)))

theorem compsOf_length (c : Cfg) (count : Nat) (v : Bytes) : (compsOf c count v).length = count := by
  simp [compsOf]

/-- what a successful full decode (not the fast path) says about the stored value -/
theorem decode_slow (c : Cfg) (count : Nat) (v d : Bytes) (hf : fast c = false) (h : decode c count v = some d) :
    d = (compsOf c count v).flatMap (toLE c.cb) ∧
    (bodyOf c v).length = (count * c.n + 7) / 8 ∧
    offset c + (bodyOf c v).length ≤ v.length ∧
    ∀ a e, a ≤ e → e ≤ (bodyOf c v).length → slice v (offset c + a) (offset c + e) = slice (bodyOf c v) a e := by
  unfold decode at h
  simp only [hf, Bool.false_eq_true, if_false] at h
  by_cases hlen : v.length = encodedSize c count
  · simp only [hlen, bne_self_eq_false, Bool.false_eq_true, if_false] at h
    have hd : ∀ body, bodyOf c v = body →
        some (((takeBits count c.n (allBits body)).map (fun bs => toLE c.cb (place c (natOfBits bs)))).flatten) = some d →
        d = (compsOf c count v).flatMap (toLE c.cb) := by
      intro body hb he
      simp only [Option.some.injEq] at he
      rw [← he, takeBits_eq_range, List.map_map, compsOf, hb, List.flatMap_def, List.map_map]
      rfl
    unfold encodedSize at hlen
    simp only [hf, Bool.false_eq_true, if_false] at hlen
    cases hp : c.pad with
    | none =>
      simp only [hp, Option.map_some] at h hlen
      have hb : bodyOf c v = v := by simp [bodyOf, hp]
      refine ⟨hd v hb h, ?_, ?_, ?_⟩
      · rw [hb, hlen]; simp
      · simp [offset, hp, hb]
      · intro a e _ _; simp [offset, hp, hb]
    | firstByte =>
      simp only [hp] at h hlen
      have hb : bodyOf c v = v.drop 1 := by simp [bodyOf, hp]
      have hl : (v.drop 1).length = (count * c.n + 7) / 8 := by
        rw [List.length_drop, hlen]; simp
      by_cases hh : (v.head? == some (padBits (count * c.n))) = true
      · simp only [hh, if_true, Option.map_some] at h
        refine ⟨hd _ hb h, ?_, ?_, ?_⟩
        · rw [hb, hl]
        · rw [hb, hl, hlen]; simp [offset, hp]; omega
        · intro a e _ _
          rw [hb]
          simp only [offset, hp, slice, List.drop_drop]
          congr 1
          omega
      · simp [hh] at h
    | lastByte =>
      simp only [hp] at h hlen
      have hb : bodyOf c v = v.dropLast := by simp [bodyOf, hp]
      have hl : v.dropLast.length = (count * c.n + 7) / 8 := by
        rw [List.length_dropLast, hlen]; simp
      by_cases hh : (v.getLast? == some (padBits (count * c.n))) = true
      · simp only [hh, if_true, Option.map_some] at h
        refine ⟨hd _ hb h, ?_, ?_, ?_⟩
        · rw [hb, hl]
        · rw [hb, hl, hlen]; simp [offset, hp]
        · intro a e hae he
          rw [hb] at he ⊢
          simp only [offset, hp, Nat.zero_add]
          rw [List.dropLast_eq_take]
          unfold slice
          rw [List.drop_take, List.take_take]
          congr 1
          rw [List.dropLast_eq_take, List.length_take] at he
          omega
      · simp [hh] at h
  · simp [hlen] at h

/-! ### one component -/

theorem place_of_lt (c : Cfg) (hfl : c.first ≤ c.last) (hl : c.last < c.w) (v : Nat) (hv : v < 2 ^ c.n) :
    (let x := 0 ||| (v * 2 ^ c.first)
     if c.sign && x / 2 ^ c.last % 2 == 1 then x ||| (2 ^ c.w - 2 ^ (c.last + 1)) else x) = place c v := by
  have hn : c.n = c.last - c.first + 1 := rfl
  have hlast : 2 ^ c.last = 2 ^ (c.n - 1) * 2 ^ c.first := by
    rw [← Nat.pow_add]; congr 1; omega
  have hpos : 0 < 2 ^ c.first := Nat.pow_pos (by decide)
  have hdiv : v * 2 ^ c.first / 2 ^ c.last = v / 2 ^ (c.n - 1) := by
    rw [hlast, Nat.mul_div_mul_right _ _ hpos]
  have hx : v * 2 ^ c.first < 2 ^ (c.last + 1) := by
    have : 2 ^ (c.last + 1) = 2 ^ c.n * 2 ^ c.first := by
      rw [← Nat.pow_add]; congr 1; omega
    rw [this]
    exact Nat.mul_lt_mul_of_lt_of_le hv (Nat.le_refl _) hpos
  have hmask : 2 ^ c.w - 2 ^ (c.last + 1) = 2 ^ (c.last + 1) * (2 ^ (c.w - (c.last + 1)) - 1) := by
    rw [Nat.mul_sub, ← Nat.pow_add, Nat.mul_one]
    congr 2
    omega
  simp only [Nat.zero_or, place, hdiv]
  split
  · rw [hmask, Nat.or_comm, ← Nat.two_pow_add_eq_or_of_lt hx, Nat.add_comm]
  · rfl

theorem writeComp_zero (c : Cfg) (hfl : c.first ≤ c.last) (hl : c.last < c.w) (done : List Nat) (z v : Nat)
    (hv : v < 2 ^ c.n) :
    writeComp c (done ++ List.replicate (z + 1) 0) done.length v = some (done ++ [place c v] ++ List.replicate z 0) := by
  unfold writeComp
  have hget : (done ++ List.replicate (z + 1) 0)[done.length]? = some 0 := by
    rw [List.getElem?_append_right (Nat.le_refl _)]
    simp [List.replicate_succ]
  rw [hget]
  simp only
  rw [place_of_lt c hfl hl v hv, List.set_append_right _ _ (Nat.le_refl _)]
  simp [List.replicate_succ]

end Zarrs.PackBitsPD
