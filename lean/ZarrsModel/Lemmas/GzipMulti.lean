import ZarrsModel.Lemmas.DeflateContainers
set_option Elab.async false
/-
gzip files of several members (RFC 1952 §2.2): `gunzipMember` (one member and what follows it), `gunzipAll` (the whole
file) against the writer `gzipFile` of `Model/DeflateSpec.lean`.
-/
namespace Zarrs.DeflateSpec
open Zarrs Zarrs.Inflate

/-- trailer check of `gunzipMember`: the data and the bytes after the trailer -/
def gzTailM : Option (Bytes × Bytes) → Option (Bytes × Bytes)
  | none => none
  | some (data, tail) =>
    if tail.length < 8 then none
    else if ofLe (tail.take 4) != crc32 data then none
    else if ofLe ((tail.drop 4).take 4) != data.length % 4294967296 then none
    else some (data, tail.drop 8)

theorem gunzipMember_eq (flg m0 m1 m2 m3 xfl os : Nat) (rest : Bytes) :
    gunzipMember (0x1f :: 0x8b :: 8 :: flg :: m0 :: m1 :: m2 :: m3 :: xfl :: os :: rest) =
      gzTailM (((((gzF1 flg rest).bind (gzF2 flg)).bind (gzF3 flg)).bind (gzF4 flg)).bind inflate) := rfl

theorem gzTail_eq_map (x : Option (Bytes × Bytes)) : gzTail x = (gzTailM x).map (·.1) := by
  cases x with
  | none => rfl
  | some p =>
    obtain ⟨data, tail⟩ := p
    simp only [gzTail, gzTailM]
    split
    · rfl
    · split
      · rfl
      · split <;> rfl

/-- the old one-member reader is the first-member reader -/
theorem gunzip_eq_map (bs : Bytes) : gunzip bs = (gunzipMember bs).map (·.1) := by
  unfold gunzip
  split
  · rw [gunzipMember_eq, ← gzTail_eq_map]
    rfl
  · rename_i hne
    unfold gunzipMember
    split
    · rename_i flg m0 m1 m2 m3 xfl os rest
      exact absurd rfl (hne flg m0 m1 m2 m3 xfl os rest)
    · rfl

/-! ### a member written by the specification, followed by anything -/

/-- the header fields of a spec-written header are skipped exactly: what is left for `inflate` is what follows the
    header -/
theorem gunzipMember_header (h : GzHeader) (hok : h.ok = true) (body : Bytes) :
    gunzipMember (h.bytes ++ body) = gzTailM (inflate body) := by
  obtain ⟨hm, he, hn, hc⟩ := GzHeader.ok_iff h hok
  obtain ⟨f1, f2, f3, f4, _⟩ := flg_bits h
  unfold GzHeader.bytes
  obtain ⟨m0, m1, m2, m3, hmt⟩ : ∃ a b c d, h.mtime = [a, b, c, d] := by
    match hmm : h.mtime, hm with
    | [a, b, c, d], _ => exact ⟨a, b, c, d, rfl⟩
  rw [hmt]
  simp only [List.cons_append, List.nil_append, List.append_assoc]
  rw [gunzipMember_eq, gzF1_spec _ _ _ f1 he]
  simp only [Option.bind_some]
  have s2 := gzF23_spec (h.flg / 8 % 2) h.name (gzZBytes h.comment ++ (gzCrcBytes h.hcrc ++ body)) f2 hn
  have s3 := gzF23_spec (h.flg / 16 % 2) h.comment (gzCrcBytes h.hcrc ++ body) f3 hc
  unfold gzF2
  rw [s2]
  simp only [Option.bind_some]
  unfold gzF3
  rw [s3]
  simp only [Option.bind_some]
  rw [gzF4_spec _ _ _ f4]
  simp only [Option.bind_some]

theorem gunzipMember_gzipMember (h : GzHeader) (hok : h.ok = true) (stream data rest : Bytes)
    (hi : ∀ rest, inflate (stream ++ rest) = some (data, rest)) (hd : ∀ x ∈ data, x < 256) :
    gunzipMember (gzipMember h stream data ++ rest) = some (data, rest) := by
  unfold gzipMember
  simp only [List.append_assoc]
  rw [gunzipMember_header h hok, hi]
  have h1 : ofLe (le32 (crc32 data)) = crc32 data := ofLe_le32 _ (crc32_lt data hd)
  have h2 : ofLe (le32 (data.length % 4294967296)) = data.length % 4294967296 :=
    ofLe_le32 _ (Nat.mod_lt _ (by omega))
  have h3 : ∀ (a : Nat) (r : Bytes), List.take 4 (le32 a ++ r) = le32 a := fun _ _ => rfl
  have h4 : ∀ (a : Nat) (r : Bytes), List.drop 4 (le32 a ++ r) = r := fun _ _ => rfl
  have h8 : ∀ (a b : Nat) (r : Bytes), List.drop 8 (le32 a ++ (le32 b ++ r)) = r := fun _ _ _ => rfl
  simp [gzTailM, le32_length, h1, h2, h3, h4, h8]
  omega

/-! ### every accepted member uses up input: the fuel of `gunzipAll` is never the reason for a rejection -/

theorem dropZ_length (r r' : Bytes) (h : dropZ r = some r') : r'.length < r.length := by
  induction r with
  | nil => simp [dropZ] at h
  | cons a r ih =>
    cases a with
    | zero =>
      simp only [dropZ, Option.some.injEq] at h
      subst h
      simp
    | succ a =>
      simp only [dropZ] at h
      have := ih h
      simp only [List.length_cons]
      omega

theorem gzF1_length (flg : Nat) (r r' : Bytes) (h : gzF1 flg r = some r') : r'.length ≤ r.length := by
  unfold gzF1 at h
  split at h
  · split at h
    · simp only at h
      split at h
      · cases h
      · simp only [Option.some.injEq] at h
        subst h
        simp only [List.length_drop, List.length_cons]
        omega
    · cases h
  · simp only [Option.some.injEq] at h
    subst h
    exact Nat.le_refl _

theorem gzF2_length (flg : Nat) (r r' : Bytes) (h : gzF2 flg r = some r') : r'.length ≤ r.length := by
  unfold gzF2 at h
  split at h
  · exact Nat.le_of_lt (dropZ_length r r' h)
  · simp only [Option.some.injEq] at h
    subst h
    exact Nat.le_refl _

theorem gzF3_length (flg : Nat) (r r' : Bytes) (h : gzF3 flg r = some r') : r'.length ≤ r.length := by
  unfold gzF3 at h
  split at h
  · exact Nat.le_of_lt (dropZ_length r r' h)
  · simp only [Option.some.injEq] at h
    subst h
    exact Nat.le_refl _

theorem gzF4_length (flg : Nat) (r r' : Bytes) (h : gzF4 flg r = some r') : r'.length ≤ r.length := by
  unfold gzF4 at h
  split at h
  · split at h
    · cases h
    · simp only [Option.some.injEq] at h
      subst h
      simp only [List.length_drop]
      omega
  · simp only [Option.some.injEq] at h
    subst h
    exact Nat.le_refl _

theorem inflate_length (bs data tail : Bytes) (h : inflate bs = some (data, tail)) : tail.length ≤ bs.length := by
  unfold inflate at h
  simp only at h
  split at h
  · cases h
  · simp only [Option.some.injEq, Prod.mk.injEq] at h
    rw [← h.2]
    simp only [List.length_drop]
    omega

theorem gzTailM_length (x : Option (Bytes × Bytes)) (data rest : Bytes) (h : gzTailM x = some (data, rest)) :
    ∃ tail, x = some (data, tail) ∧ rest.length + 8 ≤ tail.length := by
  cases x with
  | none => simp [gzTailM] at h
  | some p =>
    obtain ⟨d, tail⟩ := p
    simp only [gzTailM] at h
    split at h
    · cases h
    · split at h
      · cases h
      · split at h
        · cases h
        · simp only [Option.some.injEq, Prod.mk.injEq] at h
          refine ⟨tail, by rw [h.1], ?_⟩
          rw [← h.2]
          simp only [List.length_drop]
          omega

/-- an accepted member is at least 18 bytes long (10 of header, 8 of trailer) -/
theorem gunzipMember_length (bs data rest : Bytes) (h : gunzipMember bs = some (data, rest)) :
    rest.length + 18 ≤ bs.length := by
  unfold gunzipMember at h
  split at h
  · rename_i flg m0 m1 m2 m3 xfl os r0
    change gzTailM (((((gzF1 flg r0).bind (gzF2 flg)).bind (gzF3 flg)).bind (gzF4 flg)).bind inflate) =
      some (data, rest) at h
    obtain ⟨tail, hx, hl⟩ := gzTailM_length _ _ _ h
    cases e1 : gzF1 flg r0 with
    | none => simp [e1] at hx
    | some r1 =>
      simp only [e1, Option.bind_some] at hx
      cases e2 : gzF2 flg r1 with
      | none => simp [e2] at hx
      | some r2 =>
        simp only [e2, Option.bind_some] at hx
        cases e3 : gzF3 flg r2 with
        | none => simp [e3] at hx
        | some r3 =>
          simp only [e3, Option.bind_some] at hx
          cases e4 : gzF4 flg r3 with
          | none => simp [e4] at hx
          | some r4 =>
            simp only [e4, Option.bind_some] at hx
            have l1 := gzF1_length _ _ _ e1
            have l2 := gzF2_length _ _ _ e2
            have l3 := gzF3_length _ _ _ e3
            have l4 := gzF4_length _ _ _ e4
            have l5 := inflate_length _ _ _ hx
            simp only [List.length_cons]
            omega
  · cases h

theorem gunzipAllAux_fuel (f1 f2 : Nat) (bs : Bytes) (h1 : bs.length < f1) (h2 : bs.length < f2) :
    gunzipAllAux f1 bs = gunzipAllAux f2 bs := by
  induction f1 generalizing f2 bs with
  | zero => omega
  | succ f1 ih =>
    cases f2 with
    | zero => omega
    | succ f2 =>
      simp only [gunzipAllAux]
      cases hm : gunzipMember bs with
      | none => rfl
      | some p =>
        obtain ⟨data, rest⟩ := p
        have hl := gunzipMember_length bs data rest hm
        simp only
        rw [ih f2 rest (by omega) (by omega)]

theorem gunzipAllAux_succ (f : Nat) (bs data rest : Bytes) (hm : gunzipMember bs = some (data, rest)) :
    gunzipAllAux (f + 1) bs = if rest.isEmpty then some data else (gunzipAllAux f rest).map (data ++ ·) := by
  simp only [gunzipAllAux, hm]
  cases gunzipAllAux f rest <;> rfl

/-- the defining equation of `gunzipAll` without fuel -/
theorem gunzipAll_step (bs data rest : Bytes) (hm : gunzipMember bs = some (data, rest)) :
    gunzipAll bs = if rest.isEmpty then some data else (gunzipAll rest).map (data ++ ·) := by
  have hl := gunzipMember_length bs data rest hm
  unfold gunzipAll
  rw [gunzipAllAux_succ _ _ _ _ hm, gunzipAllAux_fuel bs.length (rest.length + 1) rest (by omega) (by omega)]

theorem gunzipAll_none (bs : Bytes) (hm : gunzipMember bs = none) : gunzipAll bs = none := by
  unfold gunzipAll
  simp only [gunzipAllAux, hm]

/-! ### files written by the specification -/

/-- a member a conformant writer can emit: header fields the format can carry, a conformant DEFLATE stream of
    its data -/
def conformantMember (m : GzHeader × Bytes × Bytes) : Prop :=
  m.1.ok = true ∧ ∃ bl fill, encodeStream bl fill = some m.2.1 ∧ renderBlocks bl [] = some m.2.2

/-- the data of a file: the members' data one after another -/
def fileData (ms : List (GzHeader × Bytes × Bytes)) : Bytes := (ms.map (fun m => m.2.2)).flatten

theorem gunzipMember_conformant (m : GzHeader × Bytes × Bytes) (hm : conformantMember m) (rest : Bytes) :
    gunzipMember (gzipMember m.1 m.2.1 m.2.2 ++ rest) = some (m.2.2, rest) := by
  obtain ⟨hh, bl, fill, he, hr⟩ := hm
  exact gunzipMember_gzipMember m.1 hh m.2.1 m.2.2 rest
    (fun rest => inflate_encodeStream bl fill m.2.1 m.2.2 rest he hr) (encodeStream_data_wf bl fill m.2.1 m.2.2 he hr)

theorem gzipMember_ne_nil (h : GzHeader) (stream data : Bytes) : gzipMember h stream data ≠ [] := by
  simp [gzipMember, GzHeader.bytes]

theorem gzipFile_isEmpty (ms : List (GzHeader × Bytes × Bytes)) : (gzipFile ms).isEmpty = ms.isEmpty := by
  cases ms with
  | nil => rfl
  | cons m ms =>
    obtain ⟨h, stream, data⟩ := m
    have := gzipMember_ne_nil h stream data
    simp only [gzipFile, List.isEmpty_cons]
    simp [this]

/-- a written file followed by anything non-empty: the members are read, and the outcome is decided by what follows -/
theorem gunzipAll_gzipFile_append (ms : List (GzHeader × Bytes × Bytes)) (hms : ∀ m ∈ ms, conformantMember m)
    (g : Bytes) (hg : g ≠ []) : gunzipAll (gzipFile ms ++ g) = (gunzipAll g).map (fileData ms ++ ·) := by
  induction ms with
  | nil =>
    simp only [gzipFile, fileData, List.map_nil, List.flatten_nil, List.nil_append]
    cases gunzipAll g <;> rfl
  | cons m ms ih =>
    obtain ⟨h, stream, data⟩ := m
    have hm := gunzipMember_conformant (h, stream, data) (hms _ (List.mem_cons_self ..)) (gzipFile ms ++ g)
    simp only [gzipFile, List.append_assoc]
    rw [gunzipAll_step _ _ _ hm, ih (fun m hm' => hms m (List.mem_cons_of_mem _ hm'))]
    have hne : (gzipFile ms ++ g).isEmpty = false := by
      cases hx : gzipFile ms ++ g with
      | nil => exact absurd (List.append_eq_nil_iff.1 hx).2 hg
      | cons _ _ => rfl
    simp only [hne, Bool.false_eq_true, if_false, fileData, List.map_cons, List.flatten_cons]
    cases gunzipAll g <;> simp

/-- a written file of at least one member -/
theorem gunzipAll_gzipFile (ms : List (GzHeader × Bytes × Bytes)) (hne : ms ≠ [])
    (hms : ∀ m ∈ ms, conformantMember m) : gunzipAll (gzipFile ms) = some (fileData ms) := by
  induction ms with
  | nil => exact absurd rfl hne
  | cons m ms ih =>
    obtain ⟨h, stream, data⟩ := m
    have hm := gunzipMember_conformant (h, stream, data) (hms _ (List.mem_cons_self ..)) (gzipFile ms)
    simp only [gzipFile]
    rw [gunzipAll_step _ _ _ hm, gzipFile_isEmpty]
    cases ms with
    | nil => simp [fileData]
    | cons m' ms' =>
      rw [ih (by simp) (fun m hm' => hms m (List.mem_cons_of_mem _ hm'))]
      simp [fileData]

end Zarrs.DeflateSpec
