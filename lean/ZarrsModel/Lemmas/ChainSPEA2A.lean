import ZarrsModel.Lemmas.ChainSPEAll
import ZarrsModel.Lemmas.ChainSDec
set_option Elab.async false
/- helper lemmas for C05 on chains, part 8: the default partial encoders of the array-to-array codecs -/
namespace Zarrs.Partial
open Zarrs Zarrs.Codec Zarrs.Subset

theorem applyWrites_eq (es : Nat) (sh : Shape) : ∀ (ws : List RWrite) (xs : List Elem),
    (∀ w ∈ ws, writeOk es sh w) → applyWrites es sh xs ws = some (applyRegionWrites sh xs ws) := by
  intro ws
  induction ws with
  | nil => intro xs _; rfl
  | cons w ws ih =>
    intro xs hok
    obtain ⟨hwf, hb, hy, hye⟩ := hok w (by simp)
    simp only [applyWrites, hwf, hb, Bool.and_self, Bool.not_true, Bool.false_eq_true, if_false,
      validated_some es _ w.2 hy hye]
    exact ih _ (fun w' hw' => hok w' (by simp [hw']))

theorem zipSub_zeros (a : List Nat) (n : Nat) (h : a.length ≤ n) : zipSub a (List.replicate n 0) = a := by
  induction a generalizing n with
  | nil => cases n <;> simp [zipSub]
  | cons x xs ih =>
    cases n with
    | zero => simp at h
    | succ n =>
      simp only [List.replicate_succ, zipSub, Nat.sub_zero, List.cons.injEq, true_and]
      exact ih n (by simpa using h)

/-- a write of the whole array replaces it -/
theorem updateRuns_full (sh : Shape) (xs ys : List Elem) (hx : xs.length = prod sh) (hy : ys.length = prod sh) :
    updateRuns sh (Subset.ofShape sh) xs ys = ys := by
  obtain ⟨hw, hb⟩ := ofShape_ok sh
  obtain ⟨hl, hp⟩ := updateRuns_spec sh (Subset.ofShape sh) xs ys hw hb hx hy
  apply list_ext_box sh _ _ hl hy
  intro j hj
  rw [hp j hj]
  have hm : (Subset.ofShape sh).contains j = true := by
    have := mem_addIdx j (Subset.ofShape sh).start sh (by simp [Subset.ofShape]) hj
    rw [show addIdx j (Subset.ofShape sh).start = j from
      addIdx_zeros j sh.length (by rw [inB_length hj]; exact Nat.le_refl _)] at this
    exact this
  rw [if_pos hm]
  simp only [Subset.ofShape]
  rw [zipSub_zeros j _ (by rw [inB_length hj]; exact Nat.le_refl _)]

theorem applyRegionWrites_whole (sh : Shape) (xs ys : List Elem) (hx : xs.length = prod sh)
    (hy : ys.length = prod sh) : applyRegionWrites sh xs [(Subset.ofShape sh, ys)] = ys := by
  simp only [applyRegionWrites, List.foldl_cons, List.foldl_nil]
  exact updateRuns_full sh xs ys hx hy

theorem writeOk_whole (es : Nat) (sh : Shape) (ys : List Elem) (hy : ys.length = prod sh)
    (hye : ∀ y ∈ ys, y.length = es) : writeOk es sh (Subset.ofShape sh, ys) :=
  ⟨(ofShape_ok sh).1, (ofShape_ok sh).2, hy, hye⟩

/-- an array-to-array stage maps no other chunk to the all-fill chunk -/
theorem aStage_enc_fill_iff (st : AStage) (sh : Shape) (es : Nat) (fill : Elem) (xs : List Elem) (ho : st.ok sh)
    (hl : xs.length = prod sh) (he : ∀ x ∈ xs, x.length = es) (hf : fill.length = es) :
    (st.enc sh xs).all (· == fill) = true ↔ xs.all (· == fill) = true := by
  constructor
  · intro h
    have h1 := all_fill_replicate fill _ _ (aStage_length st sh xs ho hl) h
    have h2 := aStage_dec_enc st sh es xs ho hl he
    have h3 := aStage_dec_enc st sh es (List.replicate (prod sh) fill) ho (by simp)
      (fun x hx => by rw [List.eq_of_mem_replicate hx]; exact hf)
    rw [aStage_fill st sh fill ho, ← h1, h2] at h3
    rw [Option.some.inj h3]
    rw [List.all_eq_true]
    intro x hx
    rw [List.eq_of_mem_replicate hx]
    simp
  · intro h
    rw [all_fill_replicate fill xs _ hl h, aStage_fill st sh fill ho, List.all_eq_true]
    intro x hx
    rw [List.eq_of_mem_replicate hx]
    simp

/-- **the default partial encoders of the array-to-array codecs** (no caches), stacked over an array-to-bytes
partial encoder `a2b` that — for the fixed stored value — turns region writes on the encoded array `aEnc a2a sh xs`
into a value related (`H`) to the updated encoded array, or erases (`none`) exactly when that is all fill; `pd` are
the partial decoders of the tails of the chain, serving the partly encoded chunk.  Then the whole stack turns region
writes on `xs` into a value related to the encoding of the updated chunk, erased exactly when it is all fill. -/
theorem aPE_spec (es : Nat) (fill : Elem) (hf : fill.length = es) (pd : List AStage → Shape → AHandle)
    (a2b : Shape → List RWrite → Option (Option Bytes)) (H : Shape → Option Bytes → List Elem → Prop) :
    ∀ (a2a : List AStage) (sh : Shape) (xs : List Elem) (ws : List RWrite),
      (∀ st ∈ a2a, st.isCache = false) → aOk a2a sh → xs.length = prod sh → (∀ x ∈ xs, x.length = es) →
      (∀ w ∈ ws, writeOk es sh w) →
      (∀ pre rest st, a2a = pre ++ st :: rest →
        AHandleOk (pd rest (shapesOf (pre ++ [st]) sh)) (shapesOf (pre ++ [st]) sh) (aEnc (pre ++ [st]) sh xs)) →
      (∀ ws', (∀ w ∈ ws', writeOk es (shapesOf a2a sh) w) →
        ∃ v', a2b (shapesOf a2a sh) ws' = some v' ∧
          H (shapesOf a2a sh) v' (applyRegionWrites (shapesOf a2a sh) (aEnc a2a sh xs) ws') ∧
          (v' = none ↔ (applyRegionWrites (shapesOf a2a sh) (aEnc a2a sh xs) ws').all (· == fill) = true)) →
      ∃ v', aPE es fill pd a2b a2a sh ws = some v' ∧
        H (shapesOf a2a sh) v' (aEnc a2a sh (applyRegionWrites sh xs ws)) ∧
        (v' = none ↔ (applyRegionWrites sh xs ws).all (· == fill) = true) := by
  intro a2a
  induction a2a with
  | nil =>
    intro sh xs ws _ _ _ _ hws _ hA
    obtain ⟨v', h1, h2, h3⟩ := hA ws hws
    exact ⟨v', h1, h2, h3⟩
  | cons st rest ih =>
    intro sh xs ws hnc ha hxl hxe hws hP hA
    have hst : st.isCache = false := hnc st (by simp)
    obtain ⟨ho, har⟩ := ha
    have hl1 := aStage_length st sh xs ho hxl
    have he1 : ∀ y ∈ st.enc sh xs, y.length = es := fun y hy => hxe y (aStage_mem st sh xs ho hxl y hy)
    have hnewl := applyRegionWrites_length sh es ws xs hxl hws
    have hnewe := applyRegionWrites_elems sh es ws xs hxl hxe hws
    have hl2 := aStage_length st sh _ ho hnewl
    have he2 : ∀ y ∈ st.enc sh (applyRegionWrites sh xs ws), y.length = es :=
      fun y hy => hnewe y (aStage_mem st sh _ ho hnewl y hy)
    -- the read of the whole encoded array
    have hread : pd rest (st.encShape sh) [Subset.ofShape (st.encShape sh)] = some [st.enc sh xs] := by
      have := hP [] rest st rfl
      simp only [List.nil_append, shapesOf, List.foldl_cons, List.foldl_nil, aEnc] at this
      rw [this [Subset.ofShape (st.encShape sh)] (by
        intro r hr; rw [List.mem_singleton.mp hr]; exact ofShape_ok _)]
      simp only [List.map_cons, List.map_nil, extract_full _ _ hl1]
    -- the body of the stage
    have hbody : aPE es fill pd a2b (st :: rest) sh ws =
        (if (applyRegionWrites sh xs ws).all (· == fill) then some none
         else aPE es fill pd a2b rest (st.encShape sh)
           [(Subset.ofShape (st.encShape sh), st.enc sh (applyRegionWrites sh xs ws))]) := by
      have hcore : (match pd rest (st.encShape sh) [Subset.ofShape (st.encShape sh)] with
          | none => none
          | some parts =>
            match parts.getLast? with
            | none => none
            | some enc =>
              match (st.dec sh es enc).bind (validated es (prod sh)) with
              | none => none
              | some d =>
                match applyWrites es sh d ws with
                | none => none
                | some new =>
                  if new.all (· == fill) then some none
                  else aPE es fill pd a2b rest (st.encShape sh) [(Subset.ofShape (st.encShape sh), st.enc sh new)]) =
          (if (applyRegionWrites sh xs ws).all (· == fill) then some none
           else aPE es fill pd a2b rest (st.encShape sh)
             [(Subset.ofShape (st.encShape sh), st.enc sh (applyRegionWrites sh xs ws))]) := by
        simp only [hread, List.getLast?_singleton, aStage_dec_enc st sh es xs ho hxl hxe, Option.bind_some,
          validated_some es _ xs hxl hxe, applyWrites_eq es sh ws xs hws]
      cases st with
      | cache => simp [AStage.isCache] at hst
      | transpose order => exact hcore
      | squeeze => exact hcore
    rw [hbody]
    by_cases hall : (applyRegionWrites sh xs ws).all (· == fill) = true
    · rw [if_pos hall]
      refine ⟨none, rfl, ?_, by simp [hall]⟩
      -- the relation for an erased value comes from the array-to-bytes encoder on a whole all-fill write
      obtain ⟨v', h1, h2, h3⟩ := hA [(Subset.ofShape (shapesOf (st :: rest) sh),
        aEnc (st :: rest) sh (applyRegionWrites sh xs ws))] (by
          intro w hw
          rw [List.mem_singleton.mp hw]
          obtain ⟨q1, q2⟩ := aEnc_chunk es (st :: rest) sh _ ⟨ho, har⟩ hnewl hnewe
          exact writeOk_whole es _ _ q1 q2)
      obtain ⟨q1, q2⟩ := aEnc_chunk es (st :: rest) sh _ ⟨ho, har⟩ hnewl hnewe
      obtain ⟨p1, _⟩ := aEnc_chunk es (st :: rest) sh xs ⟨ho, har⟩ hxl hxe
      rw [applyRegionWrites_whole _ _ _ p1 q1] at h2 h3
      have hnone : v' = none := by
        rw [h3, all_fill_replicate fill _ _ hnewl hall, aEnc_fill fill (st :: rest) sh ⟨ho, har⟩]
        exact replicate_all_fill fill _
      rw [hnone] at h2
      exact h2
    · rw [if_neg hall]
      obtain ⟨v', h1, h2, h3⟩ := ih (st.encShape sh) (st.enc sh xs)
        [(Subset.ofShape (st.encShape sh), st.enc sh (applyRegionWrites sh xs ws))]
        (fun s hs => hnc s (by simp [hs])) har hl1 he1
        (by intro w hw; rw [List.mem_singleton.mp hw]; exact writeOk_whole es _ _ hl2 he2)
        (by
          intro pre rest' st' hsplit
          have := hP (st :: pre) rest' st' (by rw [hsplit]; rfl)
          exact this)
        hA
      rw [applyRegionWrites_whole _ _ _ hl1 hl2] at h2 h3
      refine ⟨v', h1, h2, ?_⟩
      rw [h3, aStage_enc_fill_iff st sh es fill _ ho hnewl hnewe hf]

end Zarrs.Partial
