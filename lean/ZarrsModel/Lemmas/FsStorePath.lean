import ZarrsModel.Model.FsStore
import ZarrsModel.Lemmas.Store
/- keys and paths: `splitPath` / `joinPath` are inverse on slash-free names -/
set_option Elab.async false
namespace Zarrs.Fs
open Zarrs

theorem splitPath_ne_nil (k : Key) : splitPath k ≠ [] := by
  cases k with
  | nil => simp [splitPath]
  | cons c rest =>
    unfold splitPath
    split
    · simp
    · split <;> simp

theorem joinPath_cons_cons (c : Char) (x : Name) (xs : List Name) :
    joinPath ((c :: x) :: xs) = c :: joinPath (x :: xs) := by
  cases xs with
  | nil => rfl
  | cons y ys => rfl

theorem joinPath_nil_cons (y : Name) (ys : List Name) : joinPath ([] :: y :: ys) = '/' :: joinPath (y :: ys) := rfl

theorem join_split (k : Key) : joinPath (splitPath k) = k := by
  induction k with
  | nil => rfl
  | cons c rest ih =>
    unfold splitPath
    split
    · rename_i hc
      subst hc
      cases h : splitPath rest with
      | nil => exact absurd h (splitPath_ne_nil rest)
      | cons y ys => rw [joinPath_nil_cons, ← h, ih]
    · cases h : splitPath rest with
      | nil => exact absurd h (splitPath_ne_nil rest)
      | cons y ys =>
        simp only
        rw [joinPath_cons_cons, ← h, ih]

theorem splitPath_cons_ne (c : Char) (rest : Key) (hc : c ≠ '/') (x : Name) (xs : List Name)
    (h : splitPath rest = x :: xs) : splitPath (c :: rest) = (c :: x) :: xs := by
  rw [splitPath, if_neg hc, h]

/-- a slash-free name followed by '/' is the first component -/
theorem splitPath_name_slash (n : Name) (t : Key) (hn : '/' ∉ n) : splitPath (n ++ '/' :: t) = n :: splitPath t := by
  induction n with
  | nil => simp [splitPath]
  | cons c cs ih =>
    simp only [List.mem_cons, not_or] at hn
    have hc : c ≠ '/' := fun e => hn.1 e.symm
    rw [List.cons_append, splitPath_cons_ne _ _ hc _ _ (ih hn.2)]

theorem splitPath_name (n : Name) (hn : '/' ∉ n) : splitPath n = [n] := by
  induction n with
  | nil => rfl
  | cons c cs ih =>
    simp only [List.mem_cons, not_or] at hn
    have hc : c ≠ '/' := fun e => hn.1 e.symm
    rw [splitPath_cons_ne _ _ hc _ _ (ih hn.2)]

theorem splitPath_join_append (ps : List Name) (t : Key) (hne : ps ≠ []) (hs : ∀ n ∈ ps, '/' ∉ n) :
    splitPath (joinPath ps ++ '/' :: t) = ps ++ splitPath t := by
  induction ps with
  | nil => exact absurd rfl hne
  | cons n rest ih =>
    cases rest with
    | nil => simp [joinPath, splitPath_name_slash n t (hs n (List.mem_cons_self ..))]
    | cons m ms =>
      have : joinPath (n :: m :: ms) ++ '/' :: t = n ++ '/' :: (joinPath (m :: ms) ++ '/' :: t) := by
        simp [joinPath]
      rw [this, splitPath_name_slash n _ (hs n (List.mem_cons_self ..)),
        ih (by simp) (fun x hx => hs x (List.mem_cons_of_mem _ hx))]
      rfl

theorem split_join (ps : List Name) (hne : ps ≠ []) (hs : ∀ n ∈ ps, '/' ∉ n) : splitPath (joinPath ps) = ps := by
  induction ps with
  | nil => exact absurd rfl hne
  | cons n rest ih =>
    cases rest with
    | nil => simp [joinPath, splitPath_name n (hs n (List.mem_cons_self ..))]
    | cons m ms =>
      have : joinPath (n :: m :: ms) = n ++ '/' :: joinPath (m :: ms) := rfl
      rw [this, splitPath_name_slash n _ (hs n (List.mem_cons_self ..)),
        ih (by simp) (fun x hx => hs x (List.mem_cons_of_mem _ hx))]

theorem joinPath_append (ps qs : List Name) (hp : ps ≠ []) (hq : qs ≠ []) :
    joinPath (ps ++ qs) = joinPath ps ++ '/' :: joinPath qs := by
  induction ps with
  | nil => exact absurd rfl hp
  | cons n rest ih =>
    cases rest with
    | nil =>
      cases qs with
      | nil => exact absurd rfl hq
      | cons q qs' => rfl
    | cons m ms =>
      have h1 : joinPath (n :: m :: ms) = n ++ '/' :: joinPath (m :: ms) := rfl
      have h2 : joinPath ((n :: m :: ms) ++ qs) = n ++ '/' :: joinPath ((m :: ms) ++ qs) := rfl
      rw [h1, h2, ih (by simp)]
      simp

theorem joinPath_inj (ps qs : List Name) (hp : ps ≠ []) (hq : qs ≠ [])
    (hsp : ∀ n ∈ ps, '/' ∉ n) (hsq : ∀ n ∈ qs, '/' ∉ n) (h : joinPath ps = joinPath qs) : ps = qs := by
  rw [← split_join ps hp hsp, ← split_join qs hq hsq, h]

theorem plainName_spec {n : Name} (h : plainName n = true) : n ≠ [] ∧ '/' ∉ n := by
  unfold plainName at h
  simp only [Bool.and_eq_true, Bool.not_eq_true', List.isEmpty_eq_false_iff,
    List.contains_eq_mem, decide_eq_false_iff_not] at h
  exact ⟨h.1.1.1.1, h.1.1.1.2⟩

/-- the key of a directory prefix path -/
def dirKey (pp : List Name) : Key := if pp = [] then [] else joinPath pp ++ ['/']

theorem dirKey_nil : dirKey [] = [] := rfl
theorem dirKey_ne (pp : List Name) (h : pp ≠ []) : dirKey pp = joinPath pp ++ ['/'] := by
  unfold dirKey; rw [if_neg h]

theorem joinPath_dirKey (pp rest : List Name) (hr : rest ≠ []) : joinPath (pp ++ rest) = dirKey pp ++ joinPath rest := by
  by_cases hp : pp = []
  · subst hp; rfl
  · rw [dirKey_ne _ hp, joinPath_append _ _ hp hr]; simp

theorem dirKey_snoc (pp : List Name) (n : Name) : dirKey (pp ++ [n]) = dirKey pp ++ n ++ ['/'] := by
  rw [dirKey_ne _ (by simp), joinPath_dirKey pp [n] (by simp)]
  rfl

theorem dirKey_dirShaped (pp : List Name) : dirShaped (dirKey pp) := by
  by_cases hp : pp = []
  · left; rw [hp]; rfl
  · right; exact ⟨_, dirKey_ne _ hp⟩

/-- a key lies below a directory prefix exactly when its path properly extends the directory's path -/
theorem dirKey_prefix_iff (pp path : List Name) (hne : path ≠ []) (hsp : ∀ n ∈ pp, '/' ∉ n)
    (hs : ∀ n ∈ path, '/' ∉ n) :
    (dirKey pp).isPrefixOf (joinPath path) = true ↔ ∃ rest, rest ≠ [] ∧ path = pp ++ rest := by
  by_cases hp : pp = []
  · subst hp
    simp only [dirKey_nil, List.isPrefixOf_nil_left, List.nil_append, true_iff]
    exact ⟨path, hne, rfl⟩
  · rw [dirKey_ne _ hp, List.isPrefixOf_iff_prefix]
    constructor
    · rintro ⟨t, ht⟩
      have h := congrArg splitPath ht
      rw [List.append_assoc, List.singleton_append, splitPath_join_append pp t hp hsp, split_join path hne hs] at h
      exact ⟨splitPath t, splitPath_ne_nil t, h.symm⟩
    · rintro ⟨rest, hr, rfl⟩
      rw [joinPath_append _ _ hp hr]
      exact ⟨joinPath rest, by simp⟩

end Zarrs.Fs
