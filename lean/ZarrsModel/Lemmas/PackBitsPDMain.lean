import ZarrsModel.Lemmas.PackBitsPDRun
/- helper lemmas for the packbits partial decoder (C02), part 3: one region, the stage lemma, the requested byte
ranges, chains -/
set_option Elab.async false
namespace Zarrs.PackBitsPD
open Zarrs Zarrs.Codec Zarrs.Partial Zarrs.PackBits

/-! ### elements as groups of components -/

theorem toLE_length : ∀ (k v : Nat), (toLE k v).length = k
  | 0, _ => rfl
  | k + 1, v => by simp [toLE, toLE_length k]

theorem flatMap_toLE_length (cb : Nat) : ∀ (e : List Nat), (e.flatMap (toLE cb)).length = e.length * cb
  | [] => by simp
  | x :: e => by
    rw [List.flatMap_cons, List.length_append, toLE_length, flatMap_toLE_length cb e, List.length_cons, Nat.succ_mul]
    omega

theorem flatten_flatMap_toLE (cb : Nat) : ∀ (G : List (List Nat)),
    G.flatten.flatMap (toLE cb) = (G.map (fun e => e.flatMap (toLE cb))).flatten
  | [] => rfl
  | g :: G => by
    rw [List.flatten_cons, List.flatMap_append, flatten_flatMap_toLE cb G, List.map_cons, List.flatten_cons]

/-- the decoded bytes of whole elements (lists of `nc` components) group into the elements -/
theorem groups_comps (nc cb : Nat) (hnc : 0 < nc) (hcb : 0 < cb) (G : List (List Nat)) (hG : ∀ g ∈ G, g.length = nc) :
    groups (nc * cb) (G.flatten.flatMap (toLE cb)) = G.map (fun e => e.flatMap (toLE cb)) := by
  rw [flatten_flatMap_toLE]
  apply groups_of_flatten (nc * cb) (Nat.mul_pos hnc hcb)
  intro y hy
  obtain ⟨g, hg, rfl⟩ := List.mem_map.mp hy
  rw [flatMap_toLE_length, hG g hg]

/-! ### the runs of a region -/

theorem runs_length {α} (xs : List α) (run : Nat) : ∀ (is : List Nat), (∀ i ∈ is, i + run ≤ xs.length) →
    (is.flatMap (fun i => (xs.drop i).take run)).length = is.length * run
  | [], _ => by simp
  | i :: is, h => by
    have hi := h i (by simp)
    rw [List.flatMap_cons, List.length_append, runs_length xs run is (fun j hj => h j (by simp [hj])),
      List.length_take, List.length_drop, List.length_cons, Nat.succ_mul]
    omega

theorem numElements_runs (r : Subset) (sh : Shape) (hr : r.wf = true) (hb : r.inboundsShape sh = true) :
    r.numElements = (r.contiguousLinearised sh).length * (r.contiguous sh).run := by
  have h1 := (extract_spec' r sh (List.replicate (prod sh) ()) hr hb (by simp)).1
  rw [← h1, Subset.extract]
  apply runs_length
  intro i hi
  rw [List.length_replicate]
  exact contiguous_bound r sh hr hb i hi

theorem bitRanges_eq (c : Cfg) (nc : Nat) (sh : Shape) (r : Subset) :
    bitRanges c nc sh r =
      (r.contiguousLinearised sh).map (fun i => (i * ebits c nc, (r.contiguous sh).run * ebits c nc)) := rfl

theorem requests_eq (c : Cfg) (nc : Nat) (sh : Shape) (r : Subset) :
    requests c nc sh r =
      (r.contiguousLinearised sh).map (fun i => byteRangeOf c (i * ebits c nc, (r.contiguous sh).run * ebits c nc)) := by
  unfold requests
  rw [bitRanges_eq, List.map_map]
  rfl

/-- a run of an in-bounds region ends inside the packed bytes -/
theorem run_end_le (c : Cfg) (nc N i run : Nat) (hi : i + run ≤ N) :
    (i * ebits c nc + run * ebits c nc + 7) / 8 ≤ (N * nc * c.n + 7) / 8 := by
  apply Nat.div_le_div_right
  have := Nat.mul_le_mul_right (ebits c nc) hi
  rw [Nat.add_mul] at this
  rw [Nat.mul_assoc, Nat.mul_comm nc c.n]
  unfold ebits at this ⊢
  omega

/-- every byte range requested lies inside a value whose packed part has the declared length -/
theorem requests_valid (c : Cfg) (nc : Nat) (sh : Shape) (r : Subset) (hr : r.wf = true) (hb : r.inboundsShape sh = true)
    (len bodyLen : Nat) (hbody : bodyLen = (prod sh * nc * c.n + 7) / 8) (hoff : offset c + bodyLen ≤ len) :
    ∀ q ∈ requests c nc sh r, q.valid len = true := by
  intro q hq
  rw [requests_eq] at hq
  obtain ⟨i, hi, rfl⟩ := List.mem_map.mp hq
  have h1 := contiguous_bound r sh hr hb i hi
  have h2 := run_end_le c nc (prod sh) i (r.contiguous sh).run h1
  have h3 : i * ebits c nc / 8 ≤ (i * ebits c nc + (r.contiguous sh).run * ebits c nc + 7) / 8 :=
    Nat.div_le_div_right (by omega)
  simp only [byteRangeOf, ByteRange.valid, Option.getD_some, decide_eq_true_eq]
  omega

/-! ### one region -/

theorem regionPD_spec (c : Cfg) (hfl : c.first ≤ c.last) (hl : c.last < c.w) (nc : Nat) (hnc : 0 < nc)
    (sh : Shape) (fill : Elem) (h : BHandle) (v d : Bytes) (hf : fast c = false)
    (hdec : decode c (prod sh * nc) v = some d) (hh : BHandleOk h v)
    (r : Subset) (hr : r.wf = true) (hb : r.inboundsShape sh = true) :
    regionPD c nc nc sh fill h r = some (r.extract sh (groups (nc * c.cb) d)) := by
  have hcb : 0 < c.cb := cb_pos c (by omega)
  obtain ⟨hd, hbl, hoff, hsl⟩ := decode_slow c (prod sh * nc) v d hf hdec
  have hval := requests_valid c nc sh r hr hb v.length (bodyOf c v).length hbl hoff
  unfold regionPD
  rw [if_neg (by simp [hr, hb]), hh _ hval]
  simp only
  rw [requests_eq, bitRanges_eq, List.map_map, List.zip_map']
  -- the bytes handed back for run `i`
  have hP : ∀ i, i + (r.contiguous sh).run ≤ prod sh →
      ((fun q : ByteRange => q.extract v) ∘
        (fun i => byteRangeOf c (i * ebits c nc, (r.contiguous sh).run * ebits c nc))) i =
      slice (bodyOf c v) (i * ebits c nc / 8) ((i * ebits c nc + (r.contiguous sh).run * ebits c nc + 7) / 8) := by
    intro i hi
    have h2 := run_end_le c nc (prod sh) i (r.contiguous sh).run hi
    have h3 : i * ebits c nc / 8 ≤ (i * ebits c nc + (r.contiguous sh).run * ebits c nc + 7) / 8 :=
      Nat.div_le_div_right (by omega)
    simp only [Function.comp, byteRangeOf, ByteRange.extract, ByteRange.start, ByteRange.stop]
    rw [← hsl _ _ h3 (by rw [hbl]; exact h2)]
    congr 1
    omega
  have hnum := numElements_runs r sh hr hb
  have hz : r.numElements * nc =
      (r.contiguousLinearised sh).length * ((r.contiguous sh).run * nc) + 0 := by
    rw [hnum, Nat.mul_assoc]; rfl
  rw [hz]
  have hloop := runsLoop_spec c hfl hl nc hnc (prod sh * nc) v (prod sh) (r.contiguous sh).run rfl hbl _ hP
    (r.contiguousLinearised sh) 0 0 [] (contiguous_bound r sh hr hb) rfl
  simp only [List.nil_append] at hloop
  rw [hloop]
  simp only [List.replicate_zero, List.append_nil]
  -- elements as groups of components
  have hmod : (compsOf c (prod sh * nc) v).length % nc = 0 := by
    rw [compsOf_length]; exact Nat.mul_mod_left _ _
  have hG := groups_all_length nc hnc (compsOf c (prod sh * nc) v) hmod
  have hGf := groups_flatten_self nc hnc (compsOf c (prod sh * nc) v)
  have hd' : groups (nc * c.cb) d = (groups nc (compsOf c (prod sh * nc) v)).map (fun e => e.flatMap (toLE c.cb)) := by
    rw [hd]
    conv => lhs; rw [← hGf]
    exact groups_comps nc c.cb hnc hcb _ hG
  have hout : (r.contiguousLinearised sh).flatMap
        (fun i => ((compsOf c (prod sh * nc) v).drop (i * nc)).take ((r.contiguous sh).run * nc)) =
      (r.extract sh (groups nc (compsOf c (prod sh * nc) v))).flatten := by
    rw [Subset.extract, ← flatten_map_flatten, List.flatMap_def]
    congr 1
    apply List.map_congr_left
    intro i _
    conv => lhs; rw [← hGf]
    rw [flatten_drop_mul nc _ i hG, flatten_take_mul nc _ _ (fun g hg => hG g (List.mem_of_mem_drop hg))]
  rw [hout, groups_comps nc c.cb hnc hcb _ (fun g hg => hG g (mem_extract r sh _ g hg)), hd', extract_map]

/-! ### the stage -/

theorem groups_length (n : Nat) (hn : 0 < n) (b : Bytes) (m : Nat) (h : b.length = m * n) : (groups n b).length = m := by
  have hmod : b.length % n = 0 := by rw [h]; exact Nat.mul_mod_left _ _
  have h1 := flatten_length_of_all n _ (groups_all_length n hn b hmod)
  rw [groups_flatten_self n hn b, h] at h1
  exact (Nat.eq_of_mul_eq_mul_right hn h1).symm

theorem packbitsPD_ok (c : Cfg) (hfl : c.first ≤ c.last) (hl : c.last < c.w) (nc : Nat) (hnc : 0 < nc)
    (sh : Shape) (fill : Elem) (h : BHandle) (v d : Bytes) (hf : fast c = false)
    (hdec : decode c (prod sh * nc) v = some d) (hh : BHandleOk h v) :
    AHandleOk (packbitsPD c nc sh fill h) sh (groups (nc * c.cb) d) := by
  intro rs hrs
  unfold packbitsPD packbitsPDWith
  apply mapM_some_of_forall
  intro r hr
  obtain ⟨hw, hb⟩ := hrs r hr
  exact regionPD_spec c hfl hl nc hnc sh fill h v d hf hdec hh r hw hb

theorem packbitsPD_absent' (acc : Nat) (c : Cfg) (nc : Nat) (sh : Shape) (fill : Elem) (h : BHandle) (hh : BHandleAbsent h) :
    AHandleOk (packbitsPDWith acc c nc sh fill h) sh (List.replicate (prod sh) fill) := by
  intro rs hrs
  unfold packbitsPDWith
  apply mapM_some_of_forall
  intro r hr
  obtain ⟨hw, hb⟩ := hrs r hr
  unfold regionPD
  rw [if_neg (by simp [hw, hb]), hh]
  simp only
  rw [extract_replicate r sh fill hw hb]

/-- the selected decoder (`bytes` on the fast path, packbits otherwise) serves the full decode -/
theorem partialDecoder_ok (c : Cfg) (hw : 0 < c.w) (hfl : c.first ≤ c.last) (hl : c.last < c.w) (nc : Nat) (hnc : 0 < nc)
    (sh : Shape) (fill : Elem) (h : BHandle) (v d : Bytes)
    (hdec : decode c (prod sh * nc) v = some d) (hh : BHandleOk h v) :
    AHandleOk (partialDecoder c nc sh fill h) sh (groups (nc * c.cb) d) := by
  have hcb : 0 < c.cb := cb_pos c hw
  have hes : 0 < nc * c.cb := Nat.mul_pos hnc hcb
  unfold partialDecoder partialDecoderSel
  cases hf : fast c with
  | false =>
    simp only [Bool.false_eq_true, if_false]
    exact packbitsPD_ok c hfl hl nc hnc sh fill h v d hf hdec hh
  | true =>
    simp only [if_true]
    unfold decode at hdec
    simp only [hf, if_true] at hdec
    by_cases hlen : (v.length == prod sh * nc * c.cb) = true
    · simp only [hlen, if_true, Option.some.injEq] at hdec
      subst hdec
      have hlen' : v.length = prod sh * (nc * c.cb) := by
        rw [← Nat.mul_assoc]; exact beq_iff_eq.mp hlen
      have hmod : v.length % (nc * c.cb) = 0 := by rw [hlen']; exact Nat.mul_mod_left _ _
      apply bytesPD_ok' false (nc * c.cb) c.cb sh fill h (groups (nc * c.cb) v) hes hcb (Nat.mul_mod_left _ _)
        (groups_length _ hes v _ hlen') (groups_all_length _ hes v hmod)
      rw [groups_flatten_self _ hes]
      simp only [bytesEnc, Bool.false_and, Bool.false_eq_true, if_false]
      exact hh
    · simp [hlen] at hdec

theorem partialDecoder_absent (c : Cfg) (nc : Nat) (sh : Shape) (fill : Elem) (h : BHandle) (hh : BHandleAbsent h) :
    AHandleOk (partialDecoder c nc sh fill h) sh (List.replicate (prod sh) fill) := by
  unfold partialDecoder partialDecoderSel
  split
  · exact bytesPD_absent' false _ _ sh fill h hh
  · exact packbitsPD_absent' nc c nc sh fill h hh

/-! ### chains -/

theorem chainP_encode_eq (c : ChainP) (sh : Shape) (xs : List Elem) :
    c.encode sh xs = c.b2b.foldl (fun b st => st.enc b) (PackBits.encode c.cfg (aEnc c.a2a sh xs).flatten) := by
  unfold ChainP.encode
  rw [enc_fold]

theorem chainP_partialDecoder_eq (c : ChainP) (sh : Shape) (fill : Elem) (input : BHandle) :
    c.partialDecoder sh fill input =
      aPD c.a2a sh (partialDecoder c.cfg c.nc (shapesOf c.a2a sh) fill (c.b2b.foldr (fun st h => st.pd h) input)) := by
  have h1 : c.a2a.foldl (fun (acc : List Shape) st => acc ++ [st.encShape (acc.getLastD sh)]) [sh] =
      aShapes c.a2a sh := shapes_fold sh c.a2a [] sh
  unfold ChainP.partialDecoder
  simp only [h1, aShapes_getLastD]
  exact zip_foldr c.a2a sh _

/-- a chain `array-to-array* ; packbits ; bytes-to-bytes*` on the stored encoding of `xs` serves every chunk `ys` whose
array-to-array encoding is the full decode of the packbits stage (for data inside the bit range: `ys = xs`) -/
theorem chainP_ok (c : ChainP) (sh : Shape) (fill : Elem) (xs ys : List Elem)
    (hw : 0 < c.cfg.w) (hfl : c.cfg.first ≤ c.cfg.last) (hl : c.cfg.last < c.cfg.w) (hnc : 0 < c.nc)
    (hyl : ys.length = prod sh) (hye : ∀ y ∈ ys, y.length = c.nc * c.cfg.cb) (ha : aOk c.a2a sh)
    (hdec : decode c.cfg (prod (shapesOf c.a2a sh) * c.nc) (PackBits.encode c.cfg (aEnc c.a2a sh xs).flatten) =
      some (aEnc c.a2a sh ys).flatten)
    (hb : ∀ st ∈ c.b2b, ∀ (b : Bytes) (g : BHandle), BHandleOk g (st.enc b) → BHandleOk (st.pd g) b) :
    AHandleOk (c.partialDecoder sh fill (storeHandle (some (c.encode sh xs)))) sh ys := by
  rw [chainP_partialDecoder_eq, chainP_encode_eq]
  have hes : 0 < c.nc * c.cfg.cb := Nat.mul_pos hnc (cb_pos c.cfg hw)
  obtain ⟨_, he⟩ := aEnc_chunk (c.nc * c.cfg.cb) c.a2a sh ys ha hyl hye
  apply aChain_ok c.a2a sh ys _ ha hyl
  have hserve := partialDecoder_ok c.cfg hw hfl hl c.nc hnc (shapesOf c.a2a sh) fill
    (c.b2b.foldr (fun st h => st.pd h) (storeHandle (some (c.b2b.foldl (fun b st => st.enc b)
      (PackBits.encode c.cfg (aEnc c.a2a sh xs).flatten))))) _ _ hdec
    (bChain_ok c.b2b hb _ _ (storeHandle_some_ok _))
  rw [groups_of_flatten _ hes _ he] at hserve
  exact hserve

theorem chainP_absent (c : ChainP) (sh : Shape) (fill : Elem) (ha : aOk c.a2a sh) :
    AHandleOk (c.partialDecoder sh fill (storeHandle none)) sh (List.replicate (prod sh) fill) := by
  rw [chainP_partialDecoder_eq]
  apply aChain_ok c.a2a sh _ _ ha (by simp)
  rw [aEnc_fill fill c.a2a sh ha]
  apply partialDecoder_absent
  exact bChain_absent c.b2b _ storeHandle_none_absent

end Zarrs.PackBitsPD
