import ZarrsModel.Lemmas.ChainSPEStores
import ZarrsModel.Lemmas.ChainSArr
set_option Elab.async false
/- helper lemmas for C05 on chains, part 12: one `partial_encode` call on a chain -/
namespace Zarrs.Partial
open Zarrs Zarrs.Codec Zarrs.Subset Zarrs.Shard Zarrs.ShardPE

/-- a lawful bytes-to-bytes stage: decoding inverts encoding and the partial decoder serves the decoded value -/
def BOk2 (st : BStage) : Prop := BDec st ∧ BLaw st

/-! ### the `bytes` codec's default partial encoder -/

theorem leafPE_spec (c : Chain) (b2b : List BStage) (hb : ∀ st ∈ b2b, BOk st) (hes : 0 < c.es)
    (hdiv : c.es % c.unit = 0) (shB : Shape) (fill : Elem)
    (v : Option Bytes) (ys : List Elem) (hyl : ys.length = prod shB) (hye : ∀ y ∈ ys, y.length = c.es)
    (hv : match v with
      | none => ys = List.replicate (prod shB) fill
      | some b => b = encB b2b (bytesEnc c.big c.unit ys.flatten))
    (ws : List RWrite) (hws : ∀ w ∈ ws, writeOk c.es shB w) :
    leafPE c b2b shB fill v ws =
      (if (applyRegionWrites shB ys ws).all (· == fill) then some none
       else some (some (encB b2b (bytesEnc c.big c.unit (applyRegionWrites shB ys ws).flatten)))) := by
  unfold leafPE
  cases v with
  | none =>
    simp only at hv
    subst hv
    simp only [readWhole_absent _ (bStack_absent b2b), validated_some c.es _ _ hyl hye,
      Option.bind_some, applyWrites_eq c.es shB ws _ hws, bWrite_none_one b2b hb]
  | some b =>
    simp only at hv
    subst hv
    simp only [readWhole_ok _ _ (bStack_ok b2b hb _), bytesDecode_enc c.big c.es c.unit shB ys hes hdiv hyl hye,
      validated_some c.es _ ys hyl hye, Option.bind_some, applyWrites_eq c.es shB ws _ hws, bWrite_none_one b2b hb]

/-! ### splitting the array-to-array codecs -/

theorem shapesOf_append (l1 l2 : List AStage) (sh : Shape) : shapesOf (l1 ++ l2) sh = shapesOf l2 (shapesOf l1 sh) := by
  simp [shapesOf, List.foldl_append]

theorem aEnc_append (l1 l2 : List AStage) : ∀ (sh : Shape) (xs : List Elem),
    aEnc (l1 ++ l2) sh xs = aEnc l2 (shapesOf l1 sh) (aEnc l1 sh xs) := by
  induction l1 with
  | nil => intro sh xs; rfl
  | cons st rest ih => intro sh xs; exact ih (st.encShape sh) (st.enc sh xs)

theorem aOk_append (l1 l2 : List AStage) : ∀ (sh : Shape), aOk (l1 ++ l2) sh ↔ aOk l1 sh ∧ aOk l2 (shapesOf l1 sh) := by
  induction l1 with
  | nil => intro sh; simp [aOk, shapesOf]
  | cons st rest ih =>
    intro sh
    show (st.ok sh ∧ aOk (rest ++ l2) (st.encShape sh)) ↔ (st.ok sh ∧ aOk rest (st.encShape sh)) ∧ _
    rw [ih]
    exact ⟨fun ⟨a, b, c⟩ => ⟨⟨a, b⟩, c⟩, fun ⟨⟨a, b⟩, c⟩ => ⟨a, b, c⟩⟩

theorem filter_noCache_a (l : List AStage) (h : ∀ st ∈ l, st.isCache = false) :
    l.filter (fun st => !st.isCache) = l := by
  rw [List.filter_eq_self]
  intro st hst
  simp [h st hst]

theorem filter_noCache_b (l : List BStage) (h : ∀ st ∈ l, st.isCache = false) :
    l.filter (fun st => !st.isCache) = l := by
  rw [List.filter_eq_self]
  intro st hst
  simp [h st hst]

/-! ### the state of a chunk's key -/

/-- the key is absent and the chunk all fill, or the key holds a well-formed stored value of the chunk -/
def ChainS.Holds (c : ChainS) (sh : Shape) (fill : Elem) (v : Option Bytes) (xs : List Elem) : Prop :=
  match v with
  | none => xs = List.replicate (prod sh) fill
  | some b => c.Stores sh fill b xs

/-- the length of the shard below the top-level bytes-to-bytes codecs (0 for an unsharded chain or an absent key) -/
def ChainS.shardLen : ChainS → Option Bytes → Nat
  | .leaf _ _, _ => 0
  | .shard _ _ _ _ _ b2b, v => ((v.bind (decodeB2B b2b)).getD []).length

/-- what one `partial_encode` call can add to that length: every inner chunk re-encoded, and one index -/
def ChainS.stepCost : ChainS → Shape → Nat
  | .leaf _ _, _ => 0
  | .shard a2a cfg ish _ inner _, sh =>
    prod (zipDiv (shapesOf a2a sh) ish) * (inner.bound ish).getD 0 +
      indexSize { cfg with nChunks := prod (zipDiv (shapesOf a2a sh) ish) }

/-- no cache among the top-level stages (`CodecChain::partial_encoder` uses none) -/
def ChainS.topNoCache : ChainS → Prop
  | .leaf c _ => (∀ st ∈ c.a2a, st.isCache = false) ∧ (∀ st ∈ c.b2b, st.isCache = false)
  | .shard a2a _ _ _ _ b2b => (∀ st ∈ a2a, st.isCache = false) ∧ (∀ st ∈ b2b, st.isCache = false)

/-- the inner chain of the top sharding level declares a size bound, and the shards nested in it are small -/
def ChainS.innerSmall : ChainS → Prop
  | .leaf _ _ => True
  | .shard _ _ ish _ inner _ => inner.small ish ∧ (inner.bound ish).isSome = true

theorem okWith_BDec (c : ChainS) (sh : Shape) (fill : Elem) (h : c.okWith aOk BOk2 sh fill) :
    c.okWith aOk BDec sh fill := ChainS.okWith_mono (fun _ _ h => h) (fun _ h => h.1) c sh fill h
theorem okWith_BLaw (c : ChainS) (sh : Shape) (fill : Elem) (h : c.okWith aOk BOk2 sh fill) :
    c.okWith aOk BLaw sh fill := ChainS.okWith_mono (fun _ _ h => h) (fun _ h => h.2) c sh fill h

theorem splitShard_fill {ish sh : Shape} (ht : tiles ish sh = true) (fill : Elem) (i : Nat)
    (hi : i < (splitShard sh ish (List.replicate (prod sh) fill)).length) :
    (splitShard sh ish (List.replicate (prod sh) fill))[i] = List.replicate (prod ish) fill := by
  obtain ⟨hl, hm⟩ := splitShard_piece ht _ (List.length_replicate ..) _ (List.getElem_mem hi)
  rw [List.eq_replicate_iff]
  exact ⟨hl, fun b hb => (List.mem_replicate.mp (hm b hb)).2⟩

/-- every piece is all fill exactly when the chunk is -/
theorem pieces_fill_iff {ish sh : Shape} (ht : tiles ish sh = true) (fill : Elem) (ys : List Elem)
    (hyl : ys.length = prod sh) :
    (∀ i (h : i < (splitShard sh ish ys).length), (splitShard sh ish ys)[i] = List.replicate (prod ish) fill) ↔
      ys.all (· == fill) = true := by
  constructor
  · intro h
    have : splitShard sh ish ys = splitShard sh ish (List.replicate (prod sh) fill) := by
      apply List.ext_getElem (by rw [splitShard_length, splitShard_length])
      intro i h1 h2
      rw [h i h1, splitShard_fill ht fill i h2]
    have h2 := assemble_split ht ys hyl
    rw [this, assemble_split ht _ (List.length_replicate ..)] at h2
    rw [← h2]
    exact replicate_all_fill fill _
  · intro h i hi
    have := all_fill_replicate fill ys _ hyl h
    subst this
    exact splitShard_fill ht fill i hi

end Zarrs.Partial
