import ZarrsModel.Model.Partial
import ZarrsModel.Props.C09
import ZarrsModel.Lemmas.ArrayList
import ZarrsModel.Lemmas.CodecBasic
import ZarrsModel.Lemmas.PartialBytes
/- helper lemmas for C02, part 2: region extraction, the `bytes` partial decoder, the array cache -/
namespace Zarrs.Partial
open Zarrs Zarrs.Codec

/-! ### small list facts -/

theorem map_some_inj {α} {l1 l2 : List α} (h : l1.map some = l2.map some) : l1 = l2 := by
  induction l1 generalizing l2 with
  | nil => cases l2 <;> simp_all
  | cons a l ih =>
    cases l2 with
    | nil => simp at h
    | cons b l' =>
      simp only [List.map_cons, List.cons.injEq, Option.some.injEq] at h
      rw [h.1, ih h.2]

theorem zip_map_map {α β γ} (f : α → β) (g : α × β → γ) (l : List α) :
    (l.zip (l.map f)).map g = l.map (fun a => g (a, f a)) := by
  induction l with
  | nil => rfl
  | cons a l ih => simp [ih]

theorem flatten_map_flatten {α β} (l : List α) (f : α → List (List β)) :
    (l.map (fun a => (f a).flatten)).flatten = (l.flatMap f).flatten := by
  induction l with
  | nil => rfl
  | cons a l ih => simp [List.flatMap_cons, ih]

theorem flatten_drop_mul {α} (n : Nat) : ∀ (L : List (List α)) (i : Nat), (∀ g ∈ L, g.length = n) →
    L.flatten.drop (i * n) = (L.drop i).flatten
  | [], i, _ => by simp
  | g :: L, 0, _ => by simp
  | g :: L, i + 1, h => by
    have hg : g.length = n := h g (by simp)
    have e : (i + 1) * n = g.length + i * n := by rw [hg, Nat.succ_mul]; omega
    rw [List.flatten_cons, e, List.drop_length_add_append, List.drop_succ_cons]
    exact flatten_drop_mul n L i (fun g' hg' => h g' (by simp [hg']))

theorem flatten_take_mul {α} (n : Nat) : ∀ (L : List (List α)) (i : Nat), (∀ g ∈ L, g.length = n) →
    L.flatten.take (i * n) = (L.take i).flatten
  | [], i, _ => by simp
  | g :: L, 0, _ => by simp
  | g :: L, i + 1, h => by
    have hg : g.length = n := h g (by simp)
    have e : (i + 1) * n = g.length + i * n := by rw [hg, Nat.succ_mul]; omega
    rw [List.flatten_cons, e, List.take_length_add_append, List.take_succ_cons, List.flatten_cons]
    rw [flatten_take_mul n L i (fun g' hg' => h g' (by simp [hg']))]

/-! ### index facts -/

theorem addIdx_zeros (j : Idx) (n : Nat) (h : j.length ≤ n) : addIdx j (List.replicate n 0) = j := by
  induction j generalizing n with
  | nil => cases n <;> simp [addIdx]
  | cons x xs ih =>
    cases n with
    | zero => simp at h
    | succ n =>
      simp only [List.length_cons, Nat.add_le_add_iff_right] at h
      simp [List.replicate_succ, addIdx, ih n h]

theorem zeros_addIdx (sh : Shape) (n : Nat) (h : sh.length ≤ n) : addIdx (List.replicate n 0) sh = sh := by
  induction sh generalizing n with
  | nil => cases n <;> simp [addIdx]
  | cons x xs ih =>
    cases n with
    | zero => simp at h
    | succ n =>
      simp only [List.length_cons, Nat.add_le_add_iff_right] at h
      simp [List.replicate_succ, addIdx, ih n h]

theorem allLe_refl (sh : Shape) : Subset.allLe sh sh = true := by
  induction sh with
  | nil => rfl
  | cons x xs ih => simp [Subset.allLe, ih]

theorem allLe_zeros (n : Nat) (sh : Shape) : Subset.allLe (List.replicate n 0) sh = true := by
  induction n generalizing sh with
  | zero => cases sh <;> rfl
  | succ n ih => cases sh <;> simp [List.replicate_succ, Subset.allLe, ih]

theorem ofShape_ok (sh : Shape) : (Subset.ofShape sh).wf = true ∧ (Subset.ofShape sh).inboundsShape sh = true := by
  simp [Subset.ofShape, Subset.wf, Subset.inboundsShape, Subset.rank, Subset.endExc,
    zeros_addIdx sh sh.length (Nat.le_refl _), allLe_refl]

/-! ### extraction -/

theorem extract_spec' {α} (r : Subset) (sh : Shape) (xs : List α) (hr : r.wf = true)
    (hb : r.inboundsShape sh = true) (hx : xs.length = prod sh) :
    (r.extract sh xs).length = r.numElements ∧
    ∀ j, inB j r.shape = true → (r.extract sh xs)[ravel j r.shape]? = xs[ravel (addIdx j r.start) sh]? := by
  have he := C09.extract_exact r sh xs hr hb hx
  have hlen : (r.extract sh xs).length = r.numElements := by
    have := congrArg List.length he
    simpa [Subset.gather, Subset.indices_length] using this
  refine ⟨hlen, ?_⟩
  intro j hj
  have := congrArg (fun l => l[ravel j r.shape]?) he
  simp only [Subset.gather, List.getElem?_map, r.indices_getElem?_box j hj, Option.map_some] at this
  have hlt : ravel j r.shape < (r.extract sh xs).length := by
    rw [hlen]; exact ravel_lt j r.shape hj
  rw [List.getElem?_eq_getElem hlt] at this ⊢
  simp only [Option.map_some, Option.some.injEq] at this
  exact this

/-- extraction is determined by the linear indices of the region -/
theorem extract_lin {α} (r : Subset) (sh : Shape) (xs : List α) (hr : r.wf = true)
    (hb : r.inboundsShape sh = true) (hx : xs.length = prod sh) :
    (r.extract sh xs).map some = (linIdx r.start r.shape sh).map (fun k => xs[k]?) := by
  rw [C09.extract_exact r sh xs hr hb hx]
  simp [Subset.gather, linIdx, Subset.indices, List.map_map, Function.comp_def]

theorem extract_empty {α} (r : Subset) (sh : Shape) (xs : List α) (hr : r.wf = true)
    (hb : r.inboundsShape sh = true) (hx : xs.length = prod sh) (he : r.numElements = 0) :
    r.extract sh xs = [] := by
  apply List.eq_nil_of_length_eq_zero
  rw [(extract_spec' r sh xs hr hb hx).1, he]

theorem extract_map {α β} (f : α → β) (r : Subset) (sh : Shape) (xs : List α) :
    r.extract sh (xs.map f) = (r.extract sh xs).map f := by
  simp only [Subset.extract, List.map_flatMap, List.map_take, List.map_drop]

theorem mem_extract {α} (r : Subset) (sh : Shape) (xs : List α) (y : α) (h : y ∈ r.extract sh xs) : y ∈ xs := by
  simp only [Subset.extract, List.mem_flatMap] at h
  obtain ⟨i, _, hy⟩ := h
  exact List.mem_of_mem_drop (List.mem_of_mem_take hy)

theorem extract_replicate {α} (r : Subset) (sh : Shape) (f : α) (hr : r.wf = true)
    (hb : r.inboundsShape sh = true) :
    r.extract sh (List.replicate (prod sh) f) = List.replicate r.numElements f := by
  rw [List.eq_replicate_iff]
  refine ⟨(extract_spec' r sh _ hr hb (by simp)).1, ?_⟩
  intro b hb'
  exact (List.mem_replicate.1 (mem_extract r sh _ b hb')).2

theorem extract_full {α} (sh : Shape) (xs : List α) (hx : xs.length = prod sh) :
    (Subset.ofShape sh).extract sh xs = xs := by
  obtain ⟨h1, h2⟩ := ofShape_ok sh
  obtain ⟨hl, hp⟩ := extract_spec' (Subset.ofShape sh) sh xs h1 h2 hx
  apply list_ext_box sh _ _ hl hx
  intro j hj
  have := hp j hj
  simp only [Subset.ofShape] at this
  rw [addIdx_zeros j sh.length (by rw [inB_length hj]; exact Nat.le_refl _)] at this
  exact this

/-! ### every contiguous run lies inside the array -/

theorem contigAux_bound (st sh arr : List Nat) (h1 : st.length = sh.length) (h2 : st.length = arr.length)
    (hle : Subset.allLe (addIdx st sh) arr = true) :
    ∀ r ∈ linIdx st (contigAux st sh arr).2.2 arr, r + (contigAux st sh arr).2.1 ≤ prod arr := by
  induction st generalizing sh arr with
  | nil =>
    cases sh <;> cases arr <;> (try (simp at h1; done)) <;> (try (simp at h2; done))
    simp [contigAux, linIdx, boxIndices, addIdx, ravel, prod]
  | cons o os ih =>
    cases sh with
    | nil => simp at h1
    | cons n ns =>
      cases arr with
      | nil => simp at h2
      | cons a as =>
        simp only [List.length_cons, Nat.add_right_cancel_iff] at h1 h2
        simp only [addIdx, Subset.allLe, Bool.and_eq_true, decide_eq_true_eq] at hle
        have ih' := ih ns as h1 h2 hle.2
        simp only [contigAux]
        cases hc : (contigAux os ns as).1 with
        | false =>
          simp only [Bool.false_eq_true, if_false]
          rw [linIdx_cons]
          intro r hr
          simp only [List.mem_flatMap, List.mem_range, List.mem_map] at hr
          obtain ⟨k, hk, r', hr', rfl⟩ := hr
          have hb := ih' r' hr'
          have h3 : (k + o) * prod as + prod as ≤ a * prod as := by
            have := Nat.mul_le_mul_right (prod as) (show k + o + 1 ≤ a by omega)
            rwa [Nat.succ_mul] at this
          show (k + o) * prod as + r' + (contigAux os ns as).2.1 ≤ a * prod as
          omega
        | true =>
          obtain ⟨e1, e2⟩ := (contigAux_spec os ns as h1 h2).2 hc
          simp only [if_true]
          have hL : linIdx (o :: os) (1 :: (contigAux os ns as).2.2) (a :: as) = [o * prod as] := by
            rw [linIdx_cons, e1]; simp
          rw [hL, e2]
          intro r hr
          simp only [List.mem_singleton] at hr
          subst hr
          have h3 : (o + n) * prod as ≤ a * prod as := Nat.mul_le_mul_right (prod as) hle.1
          rw [Nat.add_mul, Nat.mul_comm n] at h3
          exact h3

theorem contiguous_bound (r : Subset) (sh : Shape) (hr : r.wf = true) (hb : r.inboundsShape sh = true) :
    ∀ i ∈ r.contiguousLinearised sh, i + (r.contiguous sh).run ≤ prod sh := by
  simp only [Subset.wf, beq_iff_eq] at hr
  simp only [Subset.inboundsShape, Subset.rank, Subset.endExc, Bool.and_eq_true, beq_iff_eq] at hb
  rw [r.contiguousLinearised_eq_linIdx, r.contiguous_run]
  exact contigAux_bound r.start r.shape sh hr hb.1 hb.2

end Zarrs.Partial
