import ZarrsModel.Lemmas.ShardPDMain
set_option Elab.async false
/- helper lemmas for C02 (sharding partial decoder), part 5: the full decoder's scatter, and chains that read their
whole input -/
namespace Zarrs.Partial
open Zarrs Zarrs.Codec Zarrs.Subset

/-! ### `assemble` is what pasting every inner chunk at its place gives -/

theorem foldOpt_some_foldl' {σ β} (f : σ → β → σ) (s : σ) (l : List β) :
    ArrCfg.foldOpt (fun s b => some (f s b)) s l = some (l.foldl f s) := by
  induction l generalizing s with
  | nil => rfl
  | cons b bs ih => simp only [ArrCfg.foldOpt, List.foldl_cons, ih]

/-- the item `(c, xs)` at position `k` of the C-order enumeration of the inner grid zipped with the chunks -/
theorem zip_box_mem (cps : Shape) (xss : List (List Elem)) (p : Idx × List Elem)
    (hp : p ∈ (boxIndices cps).zip xss) :
    inB p.1 cps = true ∧ xss[ravel p.1 cps]? = some p.2 := by
  obtain ⟨k, hk, hpk⟩ := List.mem_iff_getElem.mp hp
  simp only [List.length_zip, boxIndices_length] at hk
  have hkb : k < prod cps := by omega
  have hkx : k < xss.length := by omega
  rw [List.getElem_zip] at hpk
  have h1 : (boxIndices cps)[k]? = some (unravel k cps) := boxIndices_getElem?_lt k cps hkb
  have h2 : p.1 = unravel k cps := by
    have : (boxIndices cps)[k]? = some p.1 := by
      rw [List.getElem?_eq_getElem (by rw [boxIndices_length]; exact hkb), ← hpk]
    rw [h1] at this
    exact (Option.some.inj this).symm
  rw [h2, C09.ravel_unravel k cps hkb]
  refine ⟨C09.unravel_inB k cps hkb, ?_⟩
  rw [List.getElem?_eq_getElem hkx, ← hpk]

theorem assembleScatter_eq {inner shard : Shape} (ht : tiles inner shard = true) (xss : List (List Elem))
    (hxl : xss.length = prod (zipDiv shard inner)) (hx : ∀ xs ∈ xss, xs.length = prod inner)
    (init : List Elem) (hinit : init.length = prod shard) :
    assembleScatter shard inner xss init = assemble shard inner xss := by
  have hR : (Subset.ofShape shard).wf = true := (ofShape_ok shard).1
  have hz : ∀ j, inB j shard = true → addIdx j (Subset.ofShape shard).start = j := by
    intro j hj
    exact addIdx_zeros j shard.length (by rw [inB_length hj]; exact Nat.le_refl _)
  have hil := tiles_length ht
  obtain ⟨out, hfold, hl, hp⟩ := foldOpt_readG (shardElem inner (zipDiv shard inner) xss) (Subset.ofShape shard)
    (fun out (p : Idx × List Elem) => some (updateRuns shard ⟨zipMul p.1 inner, inner⟩ out p.2))
    (fun p i => (Subset.mk (zipMul p.1 inner) inner).contains i) ((boxIndices (zipDiv shard inner)).zip xss)
    (by
      intro p hp out hout
      obtain ⟨hc, hpx⟩ := zip_box_mem _ xss p hp
      obtain ⟨hw, hb⟩ := cellBox_inbounds ht p.1 hc
      have hpl : p.2.length = prod inner := hx p.2 (List.mem_of_getElem? hpx)
      have hcl : p.1.length = inner.length := by
        have := inB_length hc; simp only [zipDiv_length] at this; omega
      -- the chunk is the read of its box
      have hread : p.2 = AArr.read (shardElem inner (zipDiv shard inner) xss) ⟨zipMul p.1 inner, inner⟩ := by
        apply list_ext_box inner _ _ hpl (AArr.read_length _ _)
        intro j hj
        rw [AArr.read_getElem?_box _ ⟨zipMul p.1 inner, inner⟩ j hj]
        have hm : mem (addIdx j (zipMul p.1 inner)) (zipMul p.1 inner) inner = true :=
          mem_addIdx j _ _ (by simp only [zipMul_length]; omega) hj
        have hb' := hb
        simp only [Subset.inboundsShape, Subset.rank, Subset.endExc, Bool.and_eq_true, beq_iff_eq] at hb'
        have hin : inB (addIdx j (zipMul p.1 inner)) shard = true :=
          inB_of_allLe_end _ _ _ shard hb'.1 hb'.2 hm
        have := (shardElem_of_mem ht xss _ p.1 hin hcl hm p.2 hpx hpl).2
        rw [zipSub_addIdx_cancel j _ (by rw [inB_length hj]; simp only [zipMul_length]; omega)] at this
        exact this
      have hne : (Subset.mk (zipMul p.1 inner) inner).isEmpty = false := by
        simp only [Subset.isEmpty]
        rw [Bool.eq_false_iff]
        intro hany
        obtain ⟨d, hd, hd0⟩ := List.any_eq_true.mp hany
        have := tiles_pos ht d hd
        simp at hd0; omega
      have hsub : ∀ i, (Subset.mk (zipMul p.1 inner) inner).contains i = true →
          (Subset.ofShape shard).contains i = true := by
        intro i hi
        have hb' := hb
        simp only [Subset.inboundsShape, Subset.rank, Subset.endExc, Bool.and_eq_true, beq_iff_eq] at hb'
        have hin : inB i shard = true := inB_of_allLe_end _ _ _ shard hb'.1 hb'.2 hi
        have := mem_addIdx i (Subset.ofShape shard).start shard (by simp [Subset.ofShape]) hin
        rw [hz i hin] at this
        exact this
      have hrank : (Subset.mk (zipMul p.1 inner) inner).rank = (Subset.ofShape shard).rank := by
        simp only [Subset.rank, Subset.ofShape, zipMul_length, List.length_replicate]; omega
      obtain ⟨h1, h2⟩ := updateRuns_read_step (shardElem inner (zipDiv shard inner) xss) (Subset.ofShape shard)
        ⟨zipMul p.1 inner, inner⟩ hR hw hrank hne hsub out hout
      have hrel : (Subset.mk (zipMul p.1 inner) inner).relativeTo (Subset.ofShape shard).start =
          ⟨zipMul p.1 inner, inner⟩ := by
        simp only [Subset.relativeTo, Subset.ofShape]
        congr 1
        have : ∀ (a : List Nat) (n : Nat), zipSub a (List.replicate n 0) = a.take n := by
          intro a
          induction a with
          | nil => intro n; cases n <;> simp [zipSub]
          | cons x xs ih => intro n; cases n <;> simp [zipSub, List.replicate_succ, ih]
        rw [this, List.take_of_length_le (by simp only [zipMul_length]; omega)]
      rw [hrel, ← hread] at h1 h2
      exact ⟨_, rfl, h1, h2⟩)
    init (by rw [hinit]; rfl)
  rw [foldOpt_some_foldl'] at hfold
  have : assembleScatter shard inner xss init = out := Option.some.inj hfold
  rw [this]
  apply list_ext_box shard _ _ (by rw [hl]; rfl) (by simp [assemble, boxIndices_length])
  intro j hj
  have hz' : addIdx j (List.replicate shard.length 0) = j := hz j hj
  have := hp j hj
  simp only [Subset.ofShape, hz'] at this
  rw [this, if_pos]
  · simp only [assemble, List.getElem?_map, boxIndices_getElem?_ravel j shard hj, Option.map_some]
  · obtain ⟨hc, hm, _, _⟩ := cell_of_inB ht j hj
    rw [List.any_eq_true]
    have hk := ravel_lt _ _ hc
    have hkx : ravel (zipDiv j inner) (zipDiv shard inner) < xss.length := by rw [hxl]; exact hk
    refine ⟨(zipDiv j inner, xss[ravel (zipDiv j inner) (zipDiv shard inner)]), ?_, hm⟩
    rw [List.mem_iff_getElem]
    refine ⟨ravel (zipDiv j inner) (zipDiv shard inner), by simp [boxIndices_length]; omega, ?_⟩
    rw [List.getElem_zip]
    congr 1
    have := boxIndices_getElem?_ravel _ _ hc
    rw [List.getElem?_eq_getElem (by rw [boxIndices_length]; exact hk)] at this
    exact Option.some.inj this

/-! ### chains that read their whole input -/

/-- a bytes handle that fails on every request -/
def BDead (h : BHandle) : Prop := ∀ rs, h rs = none
/-- an array handle that fails on every single-region request -/
def ADead (h : AHandle) : Prop := ∀ q, h [q] = none

theorem bStage_dead (st : BStage) (h : BHandle) (hd : BDead h) : BDead (st.pd h) := by
  intro rs
  cases st with
  | stripSuffix n sum => simp only [BStage.pd, stripSuffixPD, hd _]
  | decodeAll e d => simp only [BStage.pd, decodeAllPD, hd _]
  | cache => simp only [BStage.pd, bytesCachePD, hd _]

/-- a decode-all stage or a cache directly on the input: the whole input is read first -/
def readsAll : BStage → Bool
  | .stripSuffix _ _ => false
  | .decodeAll _ _ => true
  | .cache => true

theorem bStage_readsAll (st : BStage) (hst : readsAll st = true) (g : BHandle)
    (hg : g [ByteRange.fromStart 0 none] = none) : BDead (st.pd g) := by
  intro rs
  cases st with
  | stripSuffix n sum => simp [readsAll] at hst
  | decodeAll e d => simp only [BStage.pd, decodeAllPD, hg]
  | cache => simp only [BStage.pd, bytesCachePD, hg]

theorem bChain_dead (stages : List BStage) (h : BHandle) (hd : BDead h) :
    BDead (stages.foldr (fun st h => st.pd h) h) := by
  induction stages with
  | nil => exact hd
  | cons st rest ih => exact bStage_dead st _ ih

theorem aStage_dead (st : AStage) (sh : Shape) (h : AHandle) (hd : ADead h) : ADead (st.pd sh h) := by
  intro q
  cases st with
  | transpose order => simp only [AStage.pd, transposePD, List.map_cons, List.map_nil, hd _]
  | squeeze => simp only [AStage.pd, squeezePD, List.map_cons, List.map_nil, hd _]
  | cache => simp only [AStage.pd, arrayCachePD, hd _]

theorem aPD_dead (stages : List AStage) : ∀ (sh : Shape) (h : AHandle), ADead h → ADead (aPD stages sh h) := by
  induction stages with
  | nil => intro _ h hd; exact hd
  | cons st rest ih => intro sh h hd; exact aStage_dead st sh _ (ih _ h hd)

theorem bytesPD_dead (big : Bool) (es unit : Nat) (sh : Shape) (fill : Elem) (h : BHandle) (hd : BDead h) :
    ADead (bytesPD big es unit sh fill h) := by
  intro q
  simp only [bytesPD, List.mapM_cons, List.mapM_nil, hd _]
  split <;> rfl

/-- a chain whose outermost bytes-to-bytes codec (the one applied to the stored bytes) decodes everything or caches
its input fails on every single-region request when the whole input cannot be read -/
theorem chain_readsWhole (c : Chain) (sh : Shape) (fill : Elem) (pre : List BStage) (last : BStage)
    (hb : c.b2b = pre ++ [last]) (hlast : readsAll last = true) (g : BHandle)
    (hg : g [ByteRange.fromStart 0 none] = none) (q : Subset) : c.partialDecoder sh fill g [q] = none := by
  rw [partialDecoder_eq, hb, List.foldr_append]
  apply aPD_dead
  apply bytesPD_dead
  apply bChain_dead
  exact bStage_readsAll last hlast g hg

/-! ### index entries reaching outside the value -/

/-- a handle that rejects every request containing a range outside the value `v` (the storage handle does) -/
def BHandleStrict (h : BHandle) (v : Bytes) : Prop :=
  ∀ rs, (∃ q ∈ rs, q.valid v.length = false) → h rs = none

theorem storeHandle_strict' (v : Bytes) : BHandleStrict (storeHandle (some v)) v := by
  intro rs ⟨q, hq, hv⟩
  simp only [storeHandle, extractByteRanges]
  rw [if_neg]
  · rfl
  · rw [List.all_eq_true]
    intro hall
    have := hall q hq
    rw [hv] at this
    cases this

/-- an inner partial decoder that reads its whole input: it fails (on single-region requests) when the whole input
cannot be read -/
def ReadsWhole (innerPD : BHandle → AHandle) : Prop :=
  ∀ g q, g [ByteRange.fromStart 0 none] = none → innerPD g [q] = none

/-- a request with an in-bounds region touching an inner chunk whose piece cannot be decoded fails -/
theorem shardPD_none_of_part (cfg : Shard.Cfg) (validate : Bool) (shard inner : Shape) (es : Nat) (fill : Elem)
    (fixed : Option Nat) (innerPD : Shape → Elem → BHandle → AHandle) (h : BHandle) (entries : List (Nat × Nat))
    (ht : tiles inner shard = true)
    (hidx : shardIndexPD cfg validate shard inner h = some (some entries))
    (rs : List Subset) (r : Subset) (hr : r ∈ rs) (hwf : r.wf = true) (hb : r.inboundsShape shard = true)
    (i : Idx) (hi : r.contains i = true) (e : Nat × Nat)
    (hent : entries[ravel (zipDiv i inner) (zipDiv shard inner)]? = some e)
    (hpart : ∀ ov cs, shardPart fixed fill inner innerPD h e ov cs = none) :
    shardPD cfg validate shard inner es fill fixed innerPD h rs = none := by
  unfold shardPD
  rw [hidx]
  simp only [chunksPerShard_of_tiles ht]
  split
  · rfl
  · apply mapM_none_of_mem _ rs r hr
    have hb' := hb
    simp only [Subset.inboundsShape, Subset.rank, Bool.and_eq_true, beq_iff_eq] at hb'
    have hcl : inner.length = r.rank := by
      have := tiles_length ht; simp only [Subset.rank]; omega
    have hin : inB i shard = true := inB_of_allLe_end i _ _ shard hb'.1 hb'.2 hi
    obtain ⟨_, hm, _, _⟩ := cell_of_inB ht i hin
    have hp : (zipDiv i inner, Subset.mk (zipMul (zipDiv i inner) inner) inner) ∈ r.chunks inner := by
      rw [mem_chunks]
      refine ⟨?_, rfl⟩
      rw [(r.chunkBox inner).mem_indices (r.chunkBox_wf inner hwf hcl)]
      apply (r.contains_chunkBox inner hwf hcl (tiles_pos ht) _).mpr
      refine ⟨?_, i, hi, hm⟩
      have := inB_length hin
      simp only [zipDiv_length, Subset.rank] at hcl ⊢
      omega
    unfold shardRegion
    apply foldOpt_none_of_mem _ _ _ hp
    intro out
    simp only [shardStep, hent, hpart]

theorem shardPD_error_on_wrong_size' (cfg : Shard.Cfg) (validate : Bool) (shard inner : Shape) (es : Nat) (fill : Elem)
    (n : Nat) (innerPD : Shape → Elem → BHandle → AHandle) (h : BHandle) (entries : List (Nat × Nat))
    (ht : tiles inner shard = true)
    (hidx : shardIndexPD cfg validate shard inner h = some (some entries))
    (rs : List Subset) (r : Subset) (hr : r ∈ rs) (hwf : r.wf = true) (hb : r.inboundsShape shard = true)
    (i : Idx) (hi : r.contains i = true) (off size : Nat)
    (hent : entries[ravel (zipDiv i inner) (zipDiv shard inner)]? = some (off, size))
    (hlive : Shard.isLive (off, size) = true) (hsize : size ≠ n) :
    shardPD cfg validate shard inner es fill (some n) innerPD h rs = none := by
  apply shardPD_none_of_part cfg validate shard inner es fill (some n) innerPD h entries ht hidx rs r hr hwf hb i hi
    (off, size) hent
  intro ov cs
  have hnot : ((off == Shard.sentinel) && (size == Shard.sentinel)) = false := by
    have := hlive; simp only [Shard.isLive, Bool.not_eq_true'] at this; exact this
  have hso : sizeOk (some n) size = false := by simp [sizeOk, hsize]
  simp only [shardPart, hnot, hso, Bool.false_eq_true, if_false, Bool.not_false, if_true]

theorem shardPD_error_on_bad_entry' (cfg : Shard.Cfg) (validate : Bool) (shard inner : Shape) (es : Nat) (fill : Elem)
    (fixed : Option Nat) (innerPD : Shape → Elem → BHandle → AHandle) (h : BHandle) (v : Bytes)
    (entries : List (Nat × Nat))
    (ht : tiles inner shard = true) (hstrict : BHandleStrict h v)
    (hidx : shardIndexPD cfg validate shard inner h = some (some entries))
    (hwhole : ReadsWhole (innerPD inner fill))
    (rs : List Subset) (r : Subset) (hr : r ∈ rs) (hwf : r.wf = true) (hb : r.inboundsShape shard = true)
    (i : Idx) (hi : r.contains i = true) (off size : Nat)
    (hent : entries[ravel (zipDiv i inner) (zipDiv shard inner)]? = some (off, size))
    (hlive : Shard.isLive (off, size) = true) (hbad : off + size > v.length) :
    shardPD cfg validate shard inner es fill fixed innerPD h rs = none := by
  apply shardPD_none_of_part cfg validate shard inner es fill fixed innerPD h entries ht hidx rs r hr hwf hb i hi
    (off, size) hent
  intro ov cs
  have hnot : ((off == Shard.sentinel) && (size == Shard.sentinel)) = false := by
    have := hlive; simp only [Shard.isLive, Bool.not_eq_true'] at this; exact this
  have hfail : byteIntervalPD off size h [ByteRange.fromStart 0 none] = none := by
    simp only [byteIntervalPD, List.all_cons, List.all_nil, ByteRange.valid, Option.getD_none, Nat.add_zero,
      Nat.zero_le, decide_true, Bool.and_self, if_true, List.map_cons, List.map_nil, ByteRange.start,
      ByteRange.length, Nat.sub_zero]
    apply hstrict
    refine ⟨_, List.mem_singleton.mpr rfl, ?_⟩
    simp only [ByteRange.valid, Option.getD_some, decide_eq_false_iff_not]
    omega
  simp only [shardPart, hnot, Bool.false_eq_true, if_false, hwhole _ _ hfail]
  split <;> rfl

end Zarrs.Partial
