import ZarrsModel.Lemmas.FsStoreStep
/- histories: the invariant that lets every operation over a hierarchy-shaped key universe satisfy `opOk` -/
set_option Elab.async false
namespace Zarrs.Fs
open Zarrs

/-- keys of the specification only come from the operation -/
theorem foldl_erase_keys (ks : List Key) (m : KV) (k : Key) (h : k ∈ (ks.foldl Zarrs.KV.erase m).keys) : k ∈ m.keys := by
  induction ks generalizing m with
  | nil => exact h
  | cons x xs ih =>
    have := ih _ h
    unfold Zarrs.KV.erase Zarrs.KV.keys at this
    obtain ⟨kv, hkv, rfl⟩ := List.mem_map.1 this
    exact List.mem_map_of_mem (List.mem_filter.1 hkv).1

theorem foldl_setPartial_keys (kovs : List (Key × Nat × Bytes)) (m : KV) (k : Key)
    (h : k ∈ (kovs.foldl (fun m (x : Key × Nat × Bytes) =>
      m.put x.1 (specSetPartial ((m.get x.1).getD []) x.2.1 x.2.2)) m).keys) :
    k ∈ m.keys ∨ k ∈ kovs.map (·.1) := by
  induction kovs generalizing m with
  | nil => exact Or.inl h
  | cons x xs ih =>
    rcases ih _ h with h' | h'
    · rcases (Zarrs.KV.keys_put m _ _ k).1 h' with rfl | h''
      · right; simp
      · exact Or.inl h''
    · right; simp only [List.map_cons, List.mem_cons]; exact Or.inr h'

theorem Spec.step_keys_subset (m : KV) (op : StoreOp) (k : Key) (h : k ∈ (Spec.step m op).1.keys) :
    k ∈ m.keys ∨ k ∈ opKeys op := by
  cases op with
  | set k0 v =>
    rcases (Zarrs.KV.keys_put m k0 v k).1 h with rfl | h'
    · right; simp [opKeys]
    · exact Or.inl h'
  | setPartial kovs => exact foldl_setPartial_keys kovs m k h
  | erase k0 => exact Or.inl (foldl_erase_keys [k0] m k h)
  | eraseValues ks => exact Or.inl (foldl_erase_keys ks m k h)
  | erasePrefix p =>
    left
    simp only [Spec.step] at h
    unfold Zarrs.KV.keys at h
    obtain ⟨kv, hkv, rfl⟩ := List.mem_map.1 h
    exact List.mem_map_of_mem (List.mem_filter.1 hkv).1
  | _ => exact Or.inl h

/-- the history invariant for a key universe `U`: well formed, files only at keys of `U`, no key of `U` names a
directory (also not an emptied one) -/
def HInv (U : List Key) (s : FsState) : Prop :=
  FsInv s ∧ (∀ k ∈ (absFs s).keys, k ∈ U) ∧
    ∀ k ∈ U, ∀ path, keyPath k = some path → ((FsState.content s).stat path).kind ≠ .dir

theorem univOk_spec {U : List Key} (h : univOk U = true) :
    (∀ k ∈ U, ∃ path, keyPath k = some path) ∧ ∀ a ∈ U, ∀ b ∈ U, dirPrefixOf a b = false := by
  unfold univOk compatKeys at h
  simp only [Bool.and_eq_true, List.all_eq_true] at h
  refine ⟨fun k hk => Option.isSome_iff_exists.1 (h.1 k hk), fun a ha b hb => ?_⟩
  simpa using h.2 a ha b hb

namespace Tree

/-- ENOTDIR: a file lies on the way -/
theorem stat_notdir (t : Tree) (path : List Name) (h : t.stat path = .notdir) :
    ∃ pp rest b, path = pp ++ rest ∧ rest ≠ [] ∧ pp ≠ [] ∧ t.fileAt pp = some b := by
  induction path generalizing t with
  | nil => rw [stat_nil] at h; cases h
  | cons n rest ih =>
    rw [stat_cons] at h
    cases hl : t.lookup1 n with
    | none => rw [hl] at h; cases h
    | some e =>
      rw [hl] at h
      cases e with
      | file b =>
        cases rest with
        | nil => cases h
        | cons x xs => exact ⟨[n], x :: xs, b, rfl, by simp, by simp, (fileAt_single t n b).2 hl⟩
      | dir c =>
        obtain ⟨pp, r, b, h1, h2, h3, h4⟩ := ih c h
        refine ⟨n :: pp, r, b, by rw [h1]; rfl, h2, by simp, ?_⟩
        rw [fileAt_cons, hl]; exact h4

end Tree

theorem keyPath_joinPath (path : List Name) (hne : path ≠ []) (hpl : ∀ n ∈ path, plainName n = true) :
    keyPath (joinPath path) = some path := by
  unfold keyPath
  rw [split_join path hne (plain_noSlash hpl), if_pos (List.all_eq_true.2 hpl)]

/-- a file in the tree is a key of the abstraction -/
theorem file_key (s : FsState) (hi : FsInv s) (pp : List Name) (b : Bytes)
    (h : (FsState.content s).fileAt pp = some b) :
    joinPath pp ∈ (absFs s).keys ∧ keyPath (joinPath pp) = some pp := by
  have hpl := Tree.fileAt_plain _ hi.content pp b h
  have hne : pp ≠ [] := by intro e; subst e; rw [Tree.fileAt_nil] at h; cases h
  refine ⟨?_, keyPath_joinPath pp hne hpl⟩
  rw [mem_absFs_keys s hi, split_join pp hne (plain_noSlash hpl)]
  exact ⟨b, h⟩

theorem hinv_keyOk {U : List Key} (hU : univOk U = true) {s : FsState} (h : HInv U s) (k : Key) (hk : k ∈ U) :
    keyOk s k = true := by
  obtain ⟨hU1, hU2⟩ := univOk_spec hU
  obtain ⟨hi, h1, h2⟩ := h
  obtain ⟨path, hkp⟩ := hU1 k hk
  apply keyOk_of hkp
  have hne := (keyPath_spec hkp).2.1
  rw [statFree_kind s path hne]
  cases hs : (FsState.content s).stat path with
  | noent => rfl
  | file b => rfl
  | dir c => exact absurd (by rw [hs]; rfl) (h2 k hk path hkp)
  | notdir =>
    obtain ⟨pp, rest, b, e1, e2, e3, e4⟩ := Tree.stat_notdir _ path hs
    obtain ⟨f1, f2⟩ := file_key s hi pp b e4
    have : dirPrefixOf (joinPath pp) k = true := by
      rw [dirPrefixOf_iff f2 hkp, e1, List.isPrefixOf_iff_prefix]
      refine ⟨⟨rest, rfl⟩, ?_⟩
      intro e
      have := congrArg List.length e
      simp only [List.length_append] at this
      exact e2 (List.length_eq_zero_iff.1 (by omega))
    rw [hU2 _ (h1 _ f1) k hk] at this
    cases this

theorem dirKey_prefix_append (pp rest : List Name) : (dirKey pp).isPrefixOf (dirKey (pp ++ rest)) = true := by
  rw [List.isPrefixOf_iff_prefix]
  by_cases hr : rest = []
  · subst hr; rw [List.append_nil]; exact List.prefix_refl _
  · rw [dirKey_ne (pp ++ rest) (by simp [hr]), joinPath_dirKey pp rest hr, List.append_assoc]
    exact List.prefix_append _ _

theorem hinv_opOk {U : List Key} (hU : univOk U = true) {s : FsState} (h : HInv U s) (op : StoreOp)
    (hop : opIn U op = true) : opOk s op = true := by
  have hkey := hinv_keyOk hU h
  have hmem : ∀ {ks : List Key}, (ks.all fun k => U.contains k) = true → ∀ k ∈ ks, k ∈ U := by
    intro ks hks k hk
    have := List.all_eq_true.1 hks k hk
    simpa using this
  cases op with
  | set k v => exact hkey k (hmem hop k (by simp [opKeys]))
  | erase k => exact hkey k (hmem hop k (by simp [opKeys]))
  | get k => exact hkey k (hmem hop k (by simp [opKeys]))
  | getPartial k rs => exact hkey k (hmem hop k (by simp [opKeys]))
  | sizeKey k => exact hkey k (hmem hop k (by simp [opKeys]))
  | eraseValues ks =>
    simp only [opOk, List.all_eq_true]
    intro k hk
    exact hkey k (hmem hop k hk)
  | setPartial kovs =>
    have hin : ∀ k ∈ kovs.map (·.1), k ∈ U := hmem hop
    simp only [opOk, Bool.and_eq_true, List.all_eq_true]
    refine ⟨fun x hx => hkey x.1 (hin _ (List.mem_map_of_mem hx)), ?_⟩
    unfold compatKeys
    rw [List.all_eq_true]
    intro a ha
    rw [List.all_eq_true]
    intro b hb
    rw [(univOk_spec hU).2 a (hin a ha) b (hin b hb)]
    rfl
  | sizePrefix p => exact hop
  | listPrefix p => exact hop
  | listDir p => exact hop
  | list => rfl
  | erasePrefix p => exact hop

theorem hinv_step {U : List Key} (hU : univOk U = true) {s : FsState} (h : HInv U s) (op : StoreOp)
    (hop : opIn U op = true) : HInv U (fsStep s op).1 := by
  obtain ⟨r1, r2, _, r4⟩ := fsStep_refines s h.1 op (hinv_opOk hU h op hop)
  obtain ⟨hU1, hU2⟩ := univOk_spec hU
  have hkeysU : ∀ k ∈ opKeys op, k ∈ U := by
    intro k hk
    cases op with
    | erasePrefix p => simp [opKeys] at hk
    | sizePrefix p => simp [opKeys] at hk
    | listPrefix p => simp [opKeys] at hk
    | listDir p => simp [opKeys] at hk
    | list => simp [opKeys] at hk
    | set k0 v => simpa using List.all_eq_true.1 hop k hk
    | erase k0 => simpa using List.all_eq_true.1 hop k hk
    | get k0 => simpa using List.all_eq_true.1 hop k hk
    | getPartial k0 rs => simpa using List.all_eq_true.1 hop k hk
    | sizeKey k0 => simpa using List.all_eq_true.1 hop k hk
    | setPartial kovs => simpa using List.all_eq_true.1 hop k hk
    | eraseValues ks => simpa using List.all_eq_true.1 hop k hk
  refine ⟨r1, ?_, ?_⟩
  · intro k hk
    rw [r2] at hk
    rcases Spec.step_keys_subset _ op k hk with h' | h'
    · exact h.2.1 k h'
    · exact hkeysU k h'
  · intro k hk path hkp hd
    have hne := (keyPath_spec hkp).2.1
    rcases r4 path hne hd with h' | ⟨k0, hk0, pk0, hkp0, hpre, hne'⟩
    · exact h.2.2 k hk path hkp h'
    · have := (dirPrefixOf_iff hkp hkp0).2 ⟨hpre, hne'⟩
      rw [hU2 k hk k0 (hkeysU k0 hk0)] at this
      cases this

theorem hinv_init (U : List Key) : HInv U (some .nil) := by
  refine ⟨trivial, ?_, ?_⟩
  · intro k hk; cases hk
  · intro k _ path hkp hd
    have hne := (keyPath_spec hkp).2.1
    cases path with
    | nil => exact hne rfl
    | cons n rest => cases hd

theorem hinv_run {U : List Key} (hU : univOk U = true) (ops : List StoreOp) (hops : ∀ op ∈ ops, opIn U op = true)
    (s : FsState) (h : HInv U s) :
    HInv U (fsRun s ops) ∧ absFs (fsRun s ops) = specRun (absFs s) ops := by
  induction ops generalizing s with
  | nil => exact ⟨h, rfl⟩
  | cons op rest ih =>
    have hop := hops op (List.mem_cons_self ..)
    have hs := hinv_step hU h op hop
    obtain ⟨_, r2, _, _⟩ := fsStep_refines s h.1 op (hinv_opOk hU h op hop)
    obtain ⟨i1, i2⟩ := ih (fun o ho => hops o (List.mem_cons_of_mem _ ho)) _ hs
    refine ⟨i1, ?_⟩
    show absFs (fsRun (fsStep s op).1 rest) = specRun (Spec.step (absFs s) op).1 rest
    rw [i2, r2]

end Zarrs.Fs
