import ZarrsModel.Lemmas.MetaV2
import ZarrsModel.Lemmas.MetaWf
/- helper lemmas for C13 (V2): what parsing leaves is (up to the empty filter list) what the round trip needs -/
set_option Elab.async false
namespace Zarrs.MetaV2
open Zarrs.Json Zarrs.Meta

theorem afield_ofJ_shapeOk (j : J) : AField.shapeOk (AField.ofJ j) := by
  cases j with
  | obj o => exact lookup_without_self _ _
  | null => rfl
  | bool _ => rfl
  | num _ => rfl
  | str _ => rfl
  | arr _ => rfl

theorem numList_u64_inv (j : Option J) (l : List (List Char)) (h : numList u64Tok j = some l) :
    j = some (.arr (l.map .num)) ∧ ∀ t ∈ l, isU64Tok t = true := by
  unfold numList at h
  split at h
  · rename_i xs
    refine ⟨by rw [mapM_some_inv u64Tok J.num (fun x y hx => (u64Tok_inv x y hx).1) _ _ h], ?_⟩
    intro t ht
    obtain ⟨x, _, hx⟩ := mapM_some_mem _ _ _ h t ht
    exact (u64Tok_inv x t hx).2
  · cases h

theorem numList_nz_inv (j : Option J) (l : List (List Char)) (h : numList nzTok j = some l) :
    j = some (.arr (l.map .num)) ∧ ∀ t ∈ l, isNzU64Tok t = true := by
  unfold numList at h
  split at h
  · rename_i xs
    refine ⟨by rw [mapM_some_inv nzTok J.num (fun x y hx => (nzTok_inv x y hx).1) _ _ h], ?_⟩
    intro t ht
    obtain ⟨x, _, hx⟩ := mapM_some_mem _ _ _ h t ht
    exact (nzTok_inv x t hx).2
  · cases h

theorem compOfJ_shapeOk (j : Option J) (c : Option MetaV2) (h : compOfJ j = some c) : ∀ m, c = some m → m.shapeOk := by
  intro m hm
  subst hm
  unfold compOfJ at h
  split at h
  · cases h
  · cases h
  · rename_i j' _
    cases hj : MetaV2.ofJ j' with
    | none => rw [hj] at h; cases h
    | some m' =>
      rw [hj] at h
      simp only [Option.map_some, Option.some.injEq] at h
      subst h
      exact metaV2_ofJ_shapeOk _ _ hj

theorem metaV2List_shapeOk (xs : List J) (fs : List MetaV2) (h : metaV2List xs = some fs) : ∀ f ∈ fs, MetaV2.shapeOk f := by
  intro f hf
  obtain ⟨x, _, hx⟩ := mapM_some_mem _ _ _ h f hf
  exact metaV2_ofJ_shapeOk _ _ hx

theorem filtersOfJ_shapeOk (j : Option J) (f : Option (List MetaV2)) (h : filtersOfJ j = some f) :
    ∀ fs, f = some fs → ∀ m ∈ fs, MetaV2.shapeOk m := by
  intro fs hfs
  subst hfs
  unfold filtersOfJ at h
  split at h
  · cases h
  · cases h
  · rename_i xs
    cases hm : metaV2List xs with
    | none => rw [hm] at h; cases h
    | some fs' =>
      rw [hm] at h
      simp only [Option.map_some, Option.some.injEq] at h
      subst h
      exact metaV2List_shapeOk _ _ hm
  · cases h

/-- a data type that can be written and read again: every structured field has a shape -/
def DType.hasShapes : DType → Prop
  | .simple _ => True
  | .structured fs => ∀ f ∈ fs, f.shape ≠ none

theorem dfield_ofJ_toks (j : J) (f : DField) (h : DField.ofJ j = some f) : ∀ s, f.shape = some s → ∀ t ∈ s, isU64Tok t = true := by
  intro s hs
  unfold DField.ofJ at h
  split at h
  · cases h; cases hs
  · rename_i a b sh
    cases hm : sh.mapM u64Tok with
    | none => rw [hm] at h; cases h
    | some s' =>
      rw [hm] at h
      simp only [Option.map_some, Option.some.injEq] at h
      subst h
      simp only [Option.some.injEq] at hs
      subst hs
      intro t ht
      obtain ⟨x, _, hx⟩ := mapM_some_mem _ _ _ hm t ht
      exact (u64Tok_inv x t hx).2
  · cases h

theorem dtype_ofJ_shapeOk (j : Option J) (d : DType) (h : j.bind DType.ofJ = some d) (hs : d.hasShapes) : d.shapeOk := by
  cases j with
  | none => cases h
  | some j =>
    simp only [Option.bind_some] at h
    cases j with
    | str s => simp only [DType.ofJ] at h; cases h; trivial
    | arr xs =>
      simp only [DType.ofJ] at h
      cases hm : xs.mapM DField.ofJ with
      | none => rw [hm] at h; cases h
      | some fs =>
        rw [hm] at h
        simp only [Option.map_some, Option.some.injEq] at h
        subst h
        intro f hf
        obtain ⟨x, _, hx⟩ := mapM_some_mem _ _ _ hm f hf
        cases hsh : f.shape with
        | none => exact absurd hsh (hs f hf)
        | some s => exact ⟨s, hsh, dfield_ofJ_toks x f hx s hsh⟩
    | null => simp [DType.ofJ] at h
    | bool _ => simp [DType.ofJ] at h
    | num _ => simp [DType.ofJ] at h
    | obj _ => simp [DType.ofJ] at h

theorem fill_bind_shapeOk (j : Option J) (f : FillV2) (h : j.bind FillV2.ofJ = some f) : f.shapeOk := by
  cases j with
  | none => cases h
  | some j => exact fillV2_ofJ_shapeOk j f h

/-- an empty filter list is written as `null` and read back as no filters -/
def ArrayDocV2.norm (d : ArrayDocV2) : ArrayDocV2 :=
  { d with filters := match d.filters with | some [] => none | f => f }

theorem filtersToJ_norm (f : Option (List MetaV2)) :
    filtersToJ (match f with | some [] => none | f => f) = filtersToJ f := by
  cases f with
  | none => rfl
  | some fs => cases fs <;> rfl

theorem ArrayDocV2.toJ_norm (d : ArrayDocV2) : d.norm.toJ = d.toJ := by
  obtain ⟨shape, chunks, dtype, compressor, fill, order, filters, sep, attrs, extra⟩ := d
  cases filters with
  | none => rfl
  | some fs => cases fs <;> rfl

theorem sortedKeys_filter {β} (e : List (Str × β)) (p : Str × β → Bool) (h : sortedKeys e) : sortedKeys (e.filter p) := by
  unfold sortedKeys at *
  exact List.Pairwise.sublist ((List.filter_sublist).map _) h

theorem extrasV2_keys (known : List Str) (o : Obj) : ∀ kv ∈ extrasV2 known o, kv.1 ∉ known := by
  intro kv hkv
  rw [extrasV2_eq] at hkv
  obtain ⟨v, _, hk, _⟩ := mem_extrasOf known o kv hkv
  exact hk

theorem extrasV2_shape (known : List Str) (o : Obj) : ∀ kv ∈ extrasV2 known o, AField.shapeOk kv.2 := by
  intro kv hkv
  rw [extrasV2_eq] at hkv
  obtain ⟨v, _, _, e⟩ := mem_extrasOf known o kv hkv
  rw [e]
  exact afield_ofJ_shapeOk v

/-- **a parsed array document, normalised, is in the form the round trip needs** -/
theorem arrayDocV2_ofJ_shapeOk (j : J) (d : ArrayDocV2) (h : ArrayDocV2.ofJ j = some d) (hs : d.dtype.hasShapes) :
    d.norm.shapeOk := by
  cases j with
  | obj o =>
    have hi := arrayDocV2_ofJ_inv o d h
    refine ⟨(numList_u64_inv _ _ hi.shape).2, (numList_nz_inv _ _ hi.chunks).2, dtype_ofJ_shapeOk _ _ hi.dt hs,
      compOfJ_shapeOk _ _ hi.comp, fill_bind_shapeOk _ _ hi.fill, ⟨?_, ?_⟩, ?_, ?_, ?_, ?_⟩
    · unfold ArrayDocV2.norm
      simp only
      split
      · intro e; cases e
      · rename_i hne
        intro e
        exact hne e
    · intro fs hfs
      unfold ArrayDocV2.norm at hfs
      simp only at hfs
      split at hfs
      · cases hfs
      · exact filtersOfJ_shapeOk _ _ hi.filters fs hfs
    · intro kv hkv
      have : kv ∈ dropArrayTag (extrasV2 arrayKeysV2 o) := by
        have := hi.extra; unfold ArrayDocV2.norm at hkv; simp only at hkv; rw [this] at hkv; exact hkv
      exact extrasV2_keys _ _ kv (List.mem_filter.1 this).1
    · intro kv hkv
      have : kv ∈ dropArrayTag (extrasV2 arrayKeysV2 o) := by
        have := hi.extra; unfold ArrayDocV2.norm at hkv; simp only at hkv; rw [this] at hkv; exact hkv
      exact extrasV2_shape _ _ kv (List.mem_filter.1 this).1
    · have : d.norm.extra = dropArrayTag (extrasV2 arrayKeysV2 o) := hi.extra
      rw [this]
      exact sortedKeys_filter _ _ (by rw [extrasV2_eq]; exact extrasOf_sorted _ _)
    · have : d.norm.extra = dropArrayTag (extrasV2 arrayKeysV2 o) := hi.extra
      rw [this]
      exact noArrayTag_dropArrayTag _
  | null => simp [ArrayDocV2.ofJ] at h
  | bool _ => simp [ArrayDocV2.ofJ] at h
  | num _ => simp [ArrayDocV2.ofJ] at h
  | str _ => simp [ArrayDocV2.ofJ] at h
  | arr _ => simp [ArrayDocV2.ofJ] at h

theorem groupDocV2_ofJ_shapeOk (j : J) (d : GroupDocV2) (h : GroupDocV2.ofJ j = some d) : d.shapeOk := by
  cases j with
  | obj o =>
    have hi := groupDocV2_ofJ_inv o d h
    refine ⟨?_, ?_, ?_⟩
    · intro kv hkv; rw [hi.extra] at hkv; exact extrasV2_keys _ _ kv hkv
    · intro kv hkv; rw [hi.extra] at hkv; exact extrasV2_shape _ _ kv hkv
    · rw [hi.extra, extrasV2_eq]; exact extrasOf_sorted _ _
  | null => simp [GroupDocV2.ofJ] at h
  | bool _ => simp [GroupDocV2.ofJ] at h
  | num _ => simp [GroupDocV2.ofJ] at h
  | str _ => simp [GroupDocV2.ofJ] at h
  | arr _ => simp [GroupDocV2.ofJ] at h

end Zarrs.MetaV2
