import ZarrsModel.Lemmas.ArrayList
import ZarrsModel.Lemmas.ArrayGrid
import ZarrsModel.Lemmas.Store
set_option linter.unusedSectionVars false
/- helper lemmas for C01/C04, part 3: configuration facts, the refinement invariant, single-chunk operations -/
namespace Zarrs
open Subset

/-! ### index arithmetic -/

theorem zipSub_addIdx_cancel (j o : List Nat) (h : j.length ≤ o.length) : zipSub (addIdx j o) o = j := by
  induction j generalizing o with
  | nil => cases o <;> simp [addIdx, zipSub]
  | cons x xs ih =>
    cases o with
    | nil => simp at h
    | cons y ys =>
      simp only [List.length_cons, Nat.add_le_add_iff_right] at h
      simp [addIdx, zipSub, ih ys h]

theorem addIdx_zipSub_cancel (a o : List Nat) (hl : a.length ≤ o.length) (h : allLe o a = true) :
    addIdx (zipSub a o) o = a := by
  induction a generalizing o with
  | nil => cases o <;> simp [addIdx, zipSub]
  | cons x xs ih =>
    cases o with
    | nil => simp at hl
    | cons y ys =>
      simp only [List.length_cons, Nat.add_le_add_iff_right] at hl
      simp only [allLe, Bool.and_eq_true, decide_eq_true_eq] at h
      simp only [zipSub, addIdx, ih ys hl h.2, List.cons.injEq, and_true]
      omega

theorem addIdx_assoc (a b c : List Nat) : addIdx (addIdx a b) c = addIdx a (addIdx b c) := by
  induction a generalizing b c with
  | nil => simp [addIdx]
  | cons x xs ih =>
    cases b with
    | nil => simp [addIdx]
    | cons y ys =>
      cases c with
      | nil => simp [addIdx]
      | cons z zs => simp [addIdx, ih, Nat.add_assoc]

theorem zipSub_addIdx_right (i r o : List Nat) : zipSub i (addIdx r o) = zipSub (zipSub i o) r := by
  induction i generalizing r o with
  | nil => simp [zipSub]
  | cons x xs ih =>
    cases r with
    | nil => cases o <;> simp [addIdx, zipSub]
    | cons y ys =>
      cases o with
      | nil => simp [addIdx, zipSub]
      | cons z zs =>
        simp only [addIdx, zipSub, ih, List.cons.injEq, and_true]
        omega

theorem mem_add_right (j r sh o : List Nat) (ho : o.length = r.length) (hj : j.length ≤ o.length) :
    mem (addIdx j o) (addIdx r o) sh = mem j r sh := by
  induction j generalizing r sh o with
  | nil =>
    cases o <;> cases r <;> (try (simp at ho; done)) <;> cases sh <;> simp [addIdx, mem]
  | cons x xs ih =>
    cases o with
    | nil => simp at hj
    | cons z zs =>
      cases r with
      | nil => simp at ho
      | cons y ys =>
        cases sh with
        | nil => simp [addIdx, mem]
        | cons n ns =>
          simp only [List.length_cons, Nat.add_right_cancel_iff, Nat.add_le_add_iff_right] at ho hj
          simp only [addIdx, mem, ih ys ns zs ho hj]
          congr 1
          rw [Bool.eq_iff_iff]; simp only [Bool.and_eq_true, decide_eq_true_eq]; omega

theorem allLe_addIdx_left (r o : List Nat) : allLe o (addIdx r o) = true := by
  induction r generalizing o with
  | nil => cases o <;> simp [addIdx, allLe]
  | cons x xs ih =>
    cases o with
    | nil => simp [allLe]
    | cons y ys => simp [addIdx, allLe, ih]

theorem allLe_shift (r rsh o s : List Nat) (h : allLe (addIdx r rsh) s = true) :
    allLe (addIdx (addIdx r o) rsh) (addIdx o s) = true := by
  induction r generalizing rsh o s with
  | nil => simp [addIdx, allLe]
  | cons x xs ih =>
    cases rsh with
    | nil => cases o <;> simp [addIdx, allLe]
    | cons n ns =>
      cases o with
      | nil => simp [addIdx, allLe]
      | cons y ys =>
        cases s with
        | nil => simp [addIdx, allLe]
        | cons m ms =>
          simp only [addIdx, allLe, Bool.and_eq_true, decide_eq_true_eq] at h ⊢
          exact ⟨by omega, ih ns ys ms h.2⟩

/-- a non-empty box `a` inside a box `b`: the relative box is in bounds of `b`'s shape -/
theorem allLe_rel (sa na sb nb : List Nat) (h1 : allLe sb sa = true)
    (h2 : allLe (addIdx sa na) (addIdx sb nb) = true) :
    allLe (addIdx (zipSub sa sb) na) nb = true := by
  induction sa generalizing na sb nb with
  | nil => simp [zipSub, addIdx, allLe]
  | cons x xs ih =>
    cases sb with
    | nil => simp [zipSub, addIdx, allLe]
    | cons y ys =>
      cases na with
      | nil => simp [zipSub, addIdx, allLe]
      | cons n ns =>
        cases nb with
        | nil => simp [zipSub, addIdx, allLe]
        | cons m ms =>
          simp only [addIdx, allLe, Bool.and_eq_true, decide_eq_true_eq] at h1 h2
          simp only [zipSub, addIdx, allLe, Bool.and_eq_true, decide_eq_true_eq]
          exact ⟨by omega, ih ns ys ms h1.2 h2.2⟩

theorem zipUnderflow_of_allLe (a o : List Nat) (h : allLe o a = true) : zipUnderflow a o = false := by
  induction a generalizing o with
  | nil => simp [zipUnderflow]
  | cons x xs ih =>
    cases o with
    | nil => simp [zipUnderflow]
    | cons y ys =>
      simp only [allLe, Bool.and_eq_true, decide_eq_true_eq] at h
      simp only [zipUnderflow, Bool.or_eq_false_iff, decide_eq_false_iff_not, ih ys h.2, and_true]
      omega

/-- facts about a non-empty well-formed subset `a` contained in a well-formed subset `b` of equal rank -/
theorem Subset.rel_facts (a b : Subset) (ha : a.wf = true) (hb : b.wf = true) (hr : a.rank = b.rank)
    (hne : a.isEmpty = false) (hsub : ∀ i, a.contains i = true → b.contains i = true) :
    (a.relativeTo b.start).wf = true ∧ (a.relativeTo b.start).inboundsShape b.shape = true ∧
    addIdx (zipSub a.start b.start) b.start = a.start ∧ allLe b.start a.start = true := by
  have hin := C09.inbounds_complete a b ha hb hne hr hsub
  simp only [Subset.inbounds, Subset.rank, Subset.endExc, Bool.and_eq_true, beq_iff_eq] at hin
  simp only [Subset.wf, beq_iff_eq] at ha hb
  simp only [Subset.rank] at hr
  obtain ⟨⟨_, h1⟩, h2⟩ := hin
  refine ⟨?_, ?_, addIdx_zipSub_cancel _ _ (by omega) h1, h1⟩
  · simp only [Subset.wf, Subset.relativeTo, zipSub_length, beq_iff_eq]; omega
  · simp only [Subset.inboundsShape, Subset.relativeTo, Subset.rank, Subset.endExc, zipSub_length,
      Bool.and_eq_true, beq_iff_eq]
    exact ⟨by omega, allLe_rel _ _ _ _ h1 h2⟩

/-! ### extraction, pointwise -/

theorem extract_spec {α} (r : Subset) (sh : Shape) (xs : List α) (hr : r.wf = true)
    (hb : r.inboundsShape sh = true) (hx : xs.length = prod sh) :
    (r.extract sh xs).length = r.numElements ∧
    ∀ j, inB j r.shape = true → (r.extract sh xs)[ravel j r.shape]? = xs[ravel (addIdx j r.start) sh]? := by
  have he := C09.extract_exact r sh xs hr hb hx
  have hlen : (r.extract sh xs).length = r.numElements := by
    have := congrArg List.length he
    simpa [Subset.gather, Subset.indices_length] using this
  refine ⟨hlen, ?_⟩
  intro j hj
  have := congrArg (fun l => l[ravel j r.shape]?) he
  simp only [Subset.gather, List.getElem?_map, r.indices_getElem?_box j hj, Option.map_some] at this
  have hlt : ravel j r.shape < (r.extract sh xs).length := by
    rw [hlen]; exact ravel_lt j r.shape hj
  rw [List.getElem?_eq_getElem hlt] at this ⊢
  simp only [Option.map_some, Option.some.injEq] at this
  exact this

/-! ### the standing assumptions and what they give -/

namespace ArrCfg
variable {α : Type} [DecidableEq α]

/-- the standing assumptions on a configuration (same fields as `C01.Ok`) -/
structure COk (cfg : ArrCfg α) (G : Shape) : Prop where
  lossless : cfg.Lossless
  keysInj : cfg.KeysInjective
  gridNew : ∃ gcfg, cfg.grid = Grid.new gcfg
  gridWf : cfg.grid.wf = true
  gridShape : cfg.grid.gridShape cfg.shape = some G
  rank : cfg.shape.length = cfg.grid.length

variable {cfg : ArrCfg α} {G : Shape}

theorem COk.gok (h : COk cfg G) : GridOK' cfg.grid cfg.shape G := by
  obtain ⟨gcfg, hg⟩ := h.gridNew
  have h1 := h.gridWf
  have h2 := h.gridShape
  have h3 := h.rank
  rw [hg] at h1 h2 h3 ⊢
  exact gridOK'_new gcfg cfg.shape G h1 h2 (by rw [h3]; simp [Grid.new])

theorem COk.G_length (h : COk cfg G) : G.length = cfg.grid.length := h.gok.length.2

theorem chunkSubset_of_length {c : Idx} (hc : c.length = cfg.grid.length) :
    cfg.chunkSubset c = cfg.grid.subset c := by
  simp [chunkSubset, hc]

theorem chunkShape_of_length {c : Idx} (hc : c.length = cfg.grid.length) :
    cfg.chunkShape c = cfg.grid.chunkShape c := by
  simp [chunkShape, hc]

theorem COk.inB_length (h : COk cfg G) {c : Idx} (hc : inB c G = true) : c.length = cfg.grid.length := by
  rw [Zarrs.inB_length hc, h.G_length]

/-- every chunk below the grid shape has a non-empty well-formed subset -/
theorem COk.chunk_def (h : COk cfg G) (c : Idx) (hc : inB c G = true) :
    ∃ cs, cfg.chunkSubset c = some cs ∧ cfg.chunkShape c = some cs.shape ∧ cs.wf = true ∧
      cs.rank = cfg.grid.length ∧ cs.isEmpty = false := by
  obtain ⟨o, s, ho, hs, hlo, hls, hne⟩ := h.gok.defined c hc
  have hl := h.inB_length hc
  refine ⟨⟨o, s⟩, ?_, ?_, ?_, hlo, hne⟩
  · rw [chunkSubset_of_length hl]; exact Grid.subset_eq_some.mpr ⟨o, s, ho, hs, rfl⟩
  · rw [chunkShape_of_length hl]; exact hs
  · simp [Subset.wf, hlo, hls]

theorem chunkSubset_some {c : Idx} {cs : Subset} (h : cfg.chunkSubset c = some cs) :
    c.length = cfg.grid.length ∧ cfg.grid.chunkOrigin c = some cs.start ∧ cfg.grid.chunkShape c = some cs.shape := by
  simp only [chunkSubset] at h
  split at h
  · rename_i hl
    obtain ⟨o, s, ho, hs, rfl⟩ := Grid.subset_eq_some.mp h
    exact ⟨by simpa using hl, ho, hs⟩
  · cases h

/-- distinct chunks are disjoint -/
theorem COk.chunk_disj (h : COk cfg G) {c c' : Idx} {cs cs' : Subset} {i : Idx}
    (hc : inB c G = true) (hc' : inB c' G = true) (hcs : cfg.chunkSubset c = some cs)
    (hcs' : cfg.chunkSubset c' = some cs') (hi : cs.contains i = true) (hi' : cs'.contains i = true) : c' = c := by
  obtain ⟨_, ho, hs⟩ := chunkSubset_some hcs
  obtain ⟨_, ho', hs'⟩ := chunkSubset_some hcs'
  exact h.gok.disjoint c c' _ _ _ _ i hc hc' ho hs ho' hs' hi hi'

/-- every element of the array lies in a chunk below the grid shape -/
theorem COk.cover (h : COk cfg G) (i : Idx) (hi : inB i cfg.shape = true) :
    ∃ c cs, inB c G = true ∧ cfg.chunkSubset c = some cs ∧ cs.contains i = true := by
  obtain ⟨gcfg, hg⟩ := h.gridNew
  have h1 := h.gridWf
  have h2 := h.gridShape
  have h3 := h.rank
  rw [hg] at h1 h2 h3
  obtain ⟨c, sub, _, hcG, hsub, hcont, _⟩ := C10.partition gcfg cfg.shape G h1 h2
    (by rw [h3]; simp [Grid.new]) i hi
  refine ⟨c, sub, hcG, ?_, hcont⟩
  rw [chunkSubset_of_length (h.inB_length hcG), hg]; exact hsub

/-- `chunks_in_array_subset` of a non-empty in-bounds region: exactly the chunks meeting the region -/
theorem COk.chunksIn (h : COk cfg G) (r : Subset) (hr : r.wf = true) (hb : r.inboundsShape cfg.shape = true)
    (hne : r.isEmpty = false) :
    ∃ box, cfg.grid.chunksInArraySubset r cfg.shape = some box ∧
      ∀ c, box.contains c = true ↔
        (inB c G = true ∧ ∃ cs i, cfg.chunkSubset c = some cs ∧ cs.contains i = true ∧ r.contains i = true) := by
  obtain ⟨gcfg, hg⟩ := h.gridNew
  have h1 := h.gridWf
  have h2 := h.gridShape
  have h3 := h.rank
  rw [hg] at h1 h2 h3
  obtain ⟨box, hbox, hiff⟩ := C10.chunks_in_subset_exact gcfg cfg.shape G h1 h2
    (by rw [h3]; simp [Grid.new]) r hr hb hne
  refine ⟨box, by rw [hg]; exact hbox, ?_⟩
  intro c
  rw [hiff c]
  constructor
  · rintro ⟨hc, sub, i, hs, h4, h5⟩
    exact ⟨hc, sub, i, by rw [chunkSubset_of_length (h.inB_length hc), hg]; exact hs, h4, h5⟩
  · rintro ⟨hc, sub, i, hs, h4, h5⟩
    rw [chunkSubset_of_length (h.inB_length hc), hg] at hs
    exact ⟨hc, sub, i, hs, h4, h5⟩

theorem box_inB {b : Subset} (hbi : b.inboundsShape G = true) {c : Idx} (hc : b.contains c = true) :
    inB c G = true := by
  simp only [Subset.inboundsShape, Subset.rank, Subset.endExc, Bool.and_eq_true, beq_iff_eq] at hbi
  exact inB_of_allLe_end c _ _ G hbi.1 hbi.2 hc

/-- `chunks_subset` of a non-empty in-grid box: the union of its chunks -/
theorem COk.chunksSubset (h : COk cfg G) (b : Subset) (hb : b.wf = true) (hbi : b.inboundsShape G = true)
    (hne : b.isEmpty = false) :
    ∃ region, cfg.grid.chunksSubset b = some region ∧ region.wf = true ∧ region.rank = cfg.grid.length ∧
      ∀ i, region.contains i = true ↔
        ∃ c cs, b.contains c = true ∧ cfg.chunkSubset c = some cs ∧ cs.contains i = true := by
  have hbi' := hbi
  simp only [Subset.wf, beq_iff_eq] at hb
  simp only [Subset.inboundsShape, Subset.rank, Subset.endExc, Bool.and_eq_true, beq_iff_eq] at hbi
  simp only [Subset.isEmpty] at hne
  have hGl := h.G_length
  obtain ⟨o0, s0, o1, s1, ho0, hs0, ho1, hs1, hl0, hl1, hl2, hiff⟩ :=
    h.gok.chunksSubset b.start b.shape (by omega) (by omega) hbi.2 hne
  refine ⟨⟨o0, zipSub (addIdx o1 s1) o0⟩, ?_, ?_, hl0, ?_⟩
  · simp only [Grid.chunksSubset, Subset.endInc, Subset.isEmpty, hne, Bool.false_eq_true, if_false]
    rw [Grid.subset_eq_some.mpr ⟨o0, s0, ho0, hs0, rfl⟩, Grid.subset_eq_some.mpr ⟨o1, s1, ho1, hs1, rfl⟩]
    rfl
  · simp only [Subset.wf, zipSub_length, addIdx_length, beq_iff_eq]; omega
  · intro i
    simp only [Subset.contains]
    rw [hiff i]
    constructor
    · rintro ⟨c, o, s, hc, ho, hs, hm⟩
      have hcG : inB c G = true := box_inB hbi' hc
      exact ⟨c, ⟨o, s⟩, hc, by
        rw [chunkSubset_of_length (h.inB_length hcG)]
        exact Grid.subset_eq_some.mpr ⟨o, s, ho, hs, rfl⟩, hm⟩
    · rintro ⟨c, cs, hc, hcs, hm⟩
      obtain ⟨_, ho, hs⟩ := chunkSubset_some hcs
      exact ⟨c, cs.start, cs.shape, hc, ho, hs, hm⟩

end ArrCfg
end Zarrs
