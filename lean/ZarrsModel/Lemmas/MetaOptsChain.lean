import ZarrsModel.Model.MetaOpts
import ZarrsModel.Lemmas.MetaOptsAlias
/- helper lemmas for `Props/C13Opts.lean`: the codec chain (`chainOf`) as a stable partition of the created codecs by
   kind, and the chain of the metadata a chain writes -/
set_option Elab.async false
namespace Zarrs.MetaOpts
open Zarrs.Json Zarrs.Meta Zarrs.MetaV2

/-- the named codec a metadata entry gives, when its plugin creates one -/
def created (plug : Plug) (m : MetaV3) : Option Named :=
  (plug (codecV3.identifier m.name) m.config).map (fun c => ⟨m.name, c⟩)

/-- the created codecs of a codec list, in list order -/
def createdOf (plug : Plug) (ms : List MetaV3) : List Named := ms.filterMap (created plug)

def ofKind (k : Kind) (ns : List Named) : List Named := ns.filter (fun n => n.codec.kind == k)

/-- every entry that is not created need not be understood -/
def skipOk (plug : Plug) (ms : List MetaV3) : Bool := ms.all (fun m => (created plug m).isSome || !m.mu)

theorem createdOf_cons_none (plug : Plug) (m : MetaV3) (ms : List MetaV3) (h : created plug m = none) :
    createdOf plug (m :: ms) = createdOf plug ms := by
  simp [createdOf, h]

theorem createdOf_cons_some (plug : Plug) (m : MetaV3) (ms : List MetaV3) (n : Named) (h : created plug m = some n) :
    createdOf plug (m :: ms) = n :: createdOf plug ms := by
  simp [createdOf, h]

theorem ofKind_cons (k : Kind) (n : Named) (ns : List Named) :
    ofKind k (n :: ns) = if n.codec.kind = k then n :: ofKind k ns else ofKind k ns := by
  unfold ofKind
  rw [List.filter_cons]
  by_cases h : n.codec.kind = k <;> simp [h]

theorem chainFold_eq (plug : Plug) (ms : List MetaV3) : ∀ acc : Acc, chainFold plug acc ms =
    if skipOk plug ms = true ∧ (acc.a2b.toList ++ ofKind .a2b (createdOf plug ms)).length ≤ 1 then
      some ⟨acc.a2a ++ ofKind .a2a (createdOf plug ms), (acc.a2b.toList ++ ofKind .a2b (createdOf plug ms)).head?,
            acc.b2b ++ ofKind .b2b (createdOf plug ms)⟩
    else none := by
  induction ms with
  | nil =>
    intro acc
    obtain ⟨a, b, c⟩ := acc
    cases b <;> simp [chainFold, skipOk, createdOf, ofKind]
  | cons m ms ih =>
    intro acc
    obtain ⟨a, b, c⟩ := acc
    unfold chainFold chainStep
    cases hp : plug (codecV3.identifier m.name) m.config with
    | none =>
      have hc : created plug m = none := by simp [created, hp]
      have hs : skipOk plug (m :: ms) = (!m.mu && skipOk plug ms) := by simp [skipOk, hc]
      rw [createdOf_cons_none plug m ms hc, hs]
      cases hmu : m.mu with
      | true => simp
      | false => simp only [Bool.false_eq_true, if_false, ih]; simp
    | some x =>
      have hc : created plug m = some ⟨m.name, x⟩ := by simp [created, hp]
      have hs : skipOk plug (m :: ms) = skipOk plug ms := by simp [skipOk, hc]
      rw [createdOf_cons_some plug m ms _ hc, hs]
      simp only [ofKind_cons]
      cases hk : x.kind with
      | a2a =>
        simp only [ih, reduceCtorEq, if_false, if_true, List.append_assoc, List.singleton_append]
      | b2b =>
        simp only [ih, reduceCtorEq, if_false, if_true, List.append_assoc, List.singleton_append]
      | a2b =>
        simp only [if_true]
        cases b with
        | some b0 =>
          have hn : ¬ (skipOk plug ms = true ∧
              ((some b0).toList ++ ({ name := m.name, codec := x } : Named) :: ofKind Kind.a2b (createdOf plug ms)).length ≤ 1) := by
            rintro ⟨_, h⟩
            simp at h
          simp only [Option.isSome_some, if_true]
          rw [if_neg hn]
        | none =>
          simp only [Option.isSome_none, Bool.false_eq_true, if_false, ih, Option.toList_some, Option.toList_none,
            List.nil_append, List.singleton_append, reduceCtorEq]
          rfl

theorem chainOf_eq (plug : Plug) (ms : List MetaV3) : chainOf plug ms =
    if skipOk plug ms = true then
      match ofKind .a2b (createdOf plug ms) with
      | [b] => some ⟨ofKind .a2a (createdOf plug ms), b, ofKind .b2b (createdOf plug ms)⟩
      | _ => none
    else none := by
  unfold chainOf
  rw [chainFold_eq]
  simp only [Option.toList_none, List.nil_append]
  by_cases hs : skipOk plug ms = true
  · simp only [hs, true_and, if_true]
    cases hb : ofKind .a2b (createdOf plug ms) with
    | nil => simp
    | cons b rest =>
      cases rest with
      | nil => simp
      | cons b' rest' => simp
  · simp [hs]

/-- inversion of a successful `chainOf` -/
theorem chainOf_inv (plug : Plug) (ms : List MetaV3) (ch : Chain) (h : chainOf plug ms = some ch) :
    skipOk plug ms = true ∧ ofKind .a2b (createdOf plug ms) = [ch.a2b] ∧
    ch.a2a = ofKind .a2a (createdOf plug ms) ∧ ch.b2b = ofKind .b2b (createdOf plug ms) := by
  rw [chainOf_eq] at h
  by_cases hs : skipOk plug ms = true
  · simp only [hs, if_true] at h
    split at h
    · rename_i b hb
      cases h
      exact ⟨hs, hb, rfl, rfl⟩
    · cases h
  · simp [hs] at h

theorem chainOf_intro (plug : Plug) (ms : List MetaV3) (b : Named) (hs : skipOk plug ms = true)
    (hb : ofKind .a2b (createdOf plug ms) = [b]) :
    chainOf plug ms = some ⟨ofKind .a2a (createdOf plug ms), b, ofKind .b2b (createdOf plug ms)⟩ := by
  rw [chainOf_eq, if_pos hs, hb]

/-! ### what a chain made by `chainOf` looks like -/

/-- the three parts hold codecs of their kind -/
structure Chain.wellKinded (ch : Chain) : Prop where
  a2a : ∀ n ∈ ch.a2a, n.codec.kind = .a2a
  a2b : ch.a2b.codec.kind = .a2b
  b2b : ∀ n ∈ ch.b2b, n.codec.kind = .b2b

/-- every codec is what the plugin of its name's identifier creates from some configuration -/
def Chain.fromPlug (plug : Plug) (ch : Chain) : Prop :=
  ∀ n ∈ ch.all, ∃ cfg, plug (codecV3.identifier n.name) cfg = some n.codec

theorem mem_createdOf (plug : Plug) (ms : List MetaV3) (n : Named) (h : n ∈ createdOf plug ms) :
    ∃ m ∈ ms, n.name = m.name ∧ plug (codecV3.identifier m.name) m.config = some n.codec := by
  unfold createdOf at h
  rw [List.mem_filterMap] at h
  obtain ⟨m, hm, hc⟩ := h
  unfold created at hc
  cases hp : plug (codecV3.identifier m.name) m.config with
  | none => rw [hp] at hc; cases hc
  | some x =>
    rw [hp] at hc
    simp only [Option.map_some, Option.some.injEq] at hc
    subst hc
    exact ⟨m, hm, rfl, hp⟩

theorem mem_ofKind (k : Kind) (ns : List Named) (n : Named) : n ∈ ofKind k ns ↔ n ∈ ns ∧ n.codec.kind = k := by
  simp [ofKind, List.mem_filter]

theorem chainOf_wellKinded (plug : Plug) (ms : List MetaV3) (ch : Chain) (h : chainOf plug ms = some ch) : ch.wellKinded := by
  obtain ⟨_, hb, ha, hc⟩ := chainOf_inv plug ms ch h
  refine ⟨?_, ?_, ?_⟩
  · intro n hn; rw [ha] at hn; exact ((mem_ofKind _ _ _).1 hn).2
  · have : ch.a2b ∈ ofKind .a2b (createdOf plug ms) := by rw [hb]; simp
    exact ((mem_ofKind _ _ _).1 this).2
  · intro n hn; rw [hc] at hn; exact ((mem_ofKind _ _ _).1 hn).2

/-- every codec of the chain is a created codec of the list (so its name is a name the list gave) -/
theorem chainOf_mem (plug : Plug) (ms : List MetaV3) (ch : Chain) (h : chainOf plug ms = some ch) :
    ∀ n ∈ ch.all, n ∈ createdOf plug ms := by
  obtain ⟨_, hb, ha, hc⟩ := chainOf_inv plug ms ch h
  intro n hn
  simp only [Chain.all, List.mem_append, List.mem_cons, List.not_mem_nil, or_false] at hn
  rcases hn with (hn | hn) | hn
  · rw [ha] at hn; exact ((mem_ofKind _ _ _).1 hn).1
  · have : ch.a2b ∈ ofKind .a2b (createdOf plug ms) := by rw [hb]; simp
    rw [hn]; exact ((mem_ofKind _ _ _).1 this).1
  · rw [hc] at hn; exact ((mem_ofKind _ _ _).1 hn).1

theorem chainOf_fromPlug (plug : Plug) (ms : List MetaV3) (ch : Chain) (h : chainOf plug ms = some ch) : ch.fromPlug plug := by
  intro n hn
  obtain ⟨m, _, hname, hp⟩ := mem_createdOf plug ms n (chainOf_mem plug ms ch h n hn)
  exact ⟨m.config, hname ▸ hp⟩

/-! ### the chain of a list of written codecs -/

theorem ofKind_filter (k : Kind) (p : Named → Bool) (ns : List Named) : ofKind k (ns.filter p) = (ofKind k ns).filter p := by
  unfold ofKind
  rw [List.filter_filter, List.filter_filter]
  congr 1
  funext n
  exact Bool.and_comm _ _

theorem ofKind_map (k : Kind) (f : Named → Named) (hf : ∀ n, (f n).codec = n.codec) (ns : List Named) :
    ofKind k (ns.map f) = (ofKind k ns).map f := by
  unfold ofKind
  rw [List.filter_map]
  congr 1
  apply List.filter_congr
  intro n _
  simp [Function.comp, hf]

theorem ofKind_append (k : Kind) (a b : List Named) : ofKind k (a ++ b) = ofKind k a ++ ofKind k b := by
  simp [ofKind]

theorem ofKind_all (k : Kind) (ns : List Named) (h : ∀ n ∈ ns, n.codec.kind = k) : ofKind k ns = ns := by
  unfold ofKind
  rw [List.filter_eq_self]
  intro n hn
  simp [h n hn]

theorem ofKind_none (k k' : Kind) (hk : k' ≠ k) (ns : List Named) (h : ∀ n ∈ ns, n.codec.kind = k') : ofKind k ns = [] := by
  unfold ofKind
  rw [List.filter_eq_nil_iff]
  intro n hn
  simp [h n hn, hk]

/-- the parts of a well-kinded chain are the codecs of their kind of the whole -/
theorem Chain.ofKind_all (ch : Chain) (h : ch.wellKinded) :
    ofKind .a2a ch.all = ch.a2a ∧ ofKind .a2b ch.all = [ch.a2b] ∧ ofKind .b2b ch.all = ch.b2b := by
  have hb : ∀ n ∈ [ch.a2b], n.codec.kind = .a2b := by
    intro n hn; simp only [List.mem_cons, List.not_mem_nil, or_false] at hn; rw [hn]; exact h.a2b
  refine ⟨?_, ?_, ?_⟩
  · simp only [Chain.all, ofKind_append]
    rw [Zarrs.MetaOpts.ofKind_all .a2a _ h.a2a, ofKind_none .a2a .a2b (by decide) _ hb, ofKind_none .a2a .b2b (by decide) _ h.b2b]
    simp
  · simp only [Chain.all, ofKind_append]
    rw [ofKind_none .a2b .a2a (by decide) _ h.a2a, Zarrs.MetaOpts.ofKind_all .a2b _ hb, ofKind_none .a2b .b2b (by decide) _ h.b2b]
    simp
  · simp only [Chain.all, ofKind_append]
    rw [ofKind_none .b2b .a2a (by decide) _ h.a2a, ofKind_none .b2b .a2b (by decide) _ hb, Zarrs.MetaOpts.ofKind_all .b2b _ h.b2b]
    simp

/-- a list of metadata written by named codecs which their plugins create again from what they wrote: all of them are
    created, as themselves -/
theorem createdOf_toMeta (plug : Plug) (ns : List Named)
    (h : ∀ n ∈ ns, plug (codecV3.identifier n.name) (some n.codec.config) = some n.codec) :
    createdOf plug (ns.map Named.toMeta) = ns ∧ skipOk plug (ns.map Named.toMeta) = true := by
  induction ns with
  | nil => exact ⟨rfl, rfl⟩
  | cons n ns ih =>
    have hn := h n (List.mem_cons_self ..)
    have hc : created plug n.toMeta = some n := by
      simp only [created, Named.toMeta, hn, Option.map_some]
    obtain ⟨i1, i2⟩ := ih (fun x hx => h x (List.mem_cons_of_mem _ hx))
    refine ⟨?_, ?_⟩
    · rw [List.map_cons, createdOf_cons_some plug _ _ n hc, i1]
    · simp only [skipOk, List.map_cons, List.all_cons, hc, Option.isSome_some, Bool.true_or, Bool.true_and]
      exact i2

/-! ### the stored chain -/

/-- the name a codec is written with -/
def Named.rename (o : Opts) (n : Named) : Named := if o.convertAliased then { n with name := codecV3.convert n.name } else n

theorem Named.rename_codec (o : Opts) (n : Named) : (n.rename o).codec = n.codec := by
  unfold Named.rename; split <;> rfl

theorem Named.rename_ident (o : Opts) (n : Named) : codecV3.identifier (n.rename o).name = codecV3.identifier n.name := by
  unfold Named.rename
  split
  · exact codecV3.identifier_convert codecV3_coherent n.name
  · rfl

theorem Named.rename_idem (o : Opts) (n : Named) : (n.rename o).rename o = n.rename o := by
  unfold Named.rename
  split
  · simp only [codecV3.convert_idem codecV3_coherent]
  · rfl

theorem Named.rename_written (o : Opts) (n : Named) : (n.rename o).written o = n.written o := by
  unfold Named.written; rw [Named.rename_codec]

/-- the chain of the array that the stored metadata denotes: the written codecs under the names they were written with -/
def Chain.stored (o : Opts) (ch : Chain) : Chain :=
  ⟨(ch.a2a.filter (Named.written o)).map (Named.rename o), ch.a2b.rename o, (ch.b2b.filter (Named.written o)).map (Named.rename o)⟩

/-- the codec list `metadata_opt` produces for a V3 array -/
def outCodecs (o : Opts) (ch : Chain) : List MetaV3 :=
  if o.convertAliased then (ch.metadatas o).map (renameV3 codecV3) else ch.metadatas o

theorem outCodecs_eq (o : Opts) (ch : Chain) :
    outCodecs o ch = ((ch.all.filter (Named.written o)).map (Named.rename o)).map Named.toMeta := by
  unfold outCodecs Chain.metadatas
  cases ha : o.convertAliased with
  | true =>
    simp only [if_true, List.map_map]
    apply List.map_congr_left
    intro n _
    simp [Function.comp, Named.rename, ha, Named.toMeta, renameV3]
  | false =>
    simp only [Bool.false_eq_true, if_false, List.map_map]
    apply List.map_congr_left
    intro n _
    simp [Function.comp, Named.rename, ha]

theorem Chain.stored_all (o : Opts) (ch : Chain) (hb : ch.a2b.written o = true) :
    (ch.stored o).all = (ch.all.filter (Named.written o)).map (Named.rename o) := by
  simp [Chain.stored, Chain.all, List.filter_append, hb]

/-- **the written codec list is read back as the stored chain** -/
theorem chainOf_outCodecs (plug : Plug) (o : Opts) (ch : Chain) (hk : ch.wellKinded) (hf : ch.fromPlug plug)
    (hre : ∀ i c x, plug i c = some x → plug i (some x.config) = some x) (hb : ch.a2b.written o = true) :
    chainOf plug (outCodecs o ch) = some (ch.stored o) := by
  rw [outCodecs_eq]
  have hall : ∀ n ∈ (ch.all.filter (Named.written o)).map (Named.rename o),
      plug (codecV3.identifier n.name) (some n.codec.config) = some n.codec := by
    intro n hn
    rw [List.mem_map] at hn
    obtain ⟨n0, hn0, rfl⟩ := hn
    rw [Named.rename_ident, Named.rename_codec]
    obtain ⟨cfg, hc⟩ := hf n0 (List.mem_filter.1 hn0).1
    exact hre _ _ _ hc
  obtain ⟨h1, h2⟩ := createdOf_toMeta plug _ hall
  obtain ⟨ka, kb, kc⟩ := ch.ofKind_all hk
  have e : ∀ k, ofKind k ((ch.all.filter (Named.written o)).map (Named.rename o)) =
      ((ofKind k ch.all).filter (Named.written o)).map (Named.rename o) := by
    intro k
    rw [ofKind_map k _ (Named.rename_codec o), ofKind_filter]
  have hb' : ofKind .a2b (createdOf plug (((ch.all.filter (Named.written o)).map (Named.rename o)).map Named.toMeta)) =
      [ch.a2b.rename o] := by
    rw [h1, e, kb]; simp [hb]
  rw [chainOf_intro plug _ _ h2 hb', h1, e, e, ka, kc]
  rfl

theorem Chain.stored_wellKinded (o : Opts) (ch : Chain) (hk : ch.wellKinded) : (ch.stored o).wellKinded := by
  refine ⟨?_, ?_, ?_⟩
  · intro n hn
    simp only [Chain.stored, List.mem_map, List.mem_filter] at hn
    obtain ⟨n0, ⟨hn0, _⟩, rfl⟩ := hn
    rw [Named.rename_codec]; exact hk.a2a n0 hn0
  · simp only [Chain.stored]; rw [Named.rename_codec]; exact hk.a2b
  · intro n hn
    simp only [Chain.stored, List.mem_map, List.mem_filter] at hn
    obtain ⟨n0, ⟨hn0, _⟩, rfl⟩ := hn
    rw [Named.rename_codec]; exact hk.b2b n0 hn0

/-- storing the stored chain again changes nothing -/
theorem outCodecs_stored (o : Opts) (ch : Chain) (hb : ch.a2b.written o = true) :
    outCodecs o (ch.stored o) = outCodecs o ch := by
  rw [outCodecs_eq, outCodecs_eq, Chain.stored_all o ch hb]
  congr 1
  rw [List.filter_map]
  have : (Named.written o ∘ Named.rename o) = Named.written o := by
    funext n; simp [Function.comp, Named.rename_written]
  rw [this, List.filter_filter, List.map_map]
  simp only [Bool.and_self]
  apply List.map_congr_left
  intro n _
  simp [Function.comp, Named.rename_idem]

/-! ### renaming a codec list -/

theorem created_renameV3 (plug : Plug) (m : MetaV3) :
    created plug (renameV3 codecV3 m) = (created plug m).map (fun n => { n with name := codecV3.convert n.name }) := by
  simp only [created, renameV3, codecV3.identifier_convert codecV3_coherent, Option.map_map]
  rfl

theorem createdOf_renameV3 (plug : Plug) (ms : List MetaV3) :
    createdOf plug (ms.map (renameV3 codecV3)) = (createdOf plug ms).map (fun n => { n with name := codecV3.convert n.name }) := by
  induction ms with
  | nil => rfl
  | cons m ms ih =>
    cases hc : created plug m with
    | none =>
      have : created plug (renameV3 codecV3 m) = none := by rw [created_renameV3, hc]; rfl
      rw [List.map_cons, createdOf_cons_none _ _ _ this, createdOf_cons_none _ _ _ hc, ih]
    | some n =>
      have : created plug (renameV3 codecV3 m) = some { n with name := codecV3.convert n.name } := by rw [created_renameV3, hc]; rfl
      rw [List.map_cons, createdOf_cons_some _ _ _ _ this, createdOf_cons_some _ _ _ _ hc, ih, List.map_cons]

theorem skipOk_renameV3 (plug : Plug) (ms : List MetaV3) : skipOk plug (ms.map (renameV3 codecV3)) = skipOk plug ms := by
  unfold skipOk
  rw [List.all_map]
  congr 1
  funext m
  simp only [Function.comp, created_renameV3, Option.isSome_map]
  rfl

/-- the chain with every name converted -/
def Chain.converted (ch : Chain) : Chain :=
  ⟨ch.a2a.map (fun n => { n with name := codecV3.convert n.name }), { ch.a2b with name := codecV3.convert ch.a2b.name },
   ch.b2b.map (fun n => { n with name := codecV3.convert n.name })⟩

/-- **converting the names of a codec list converts the names of its chain and nothing else** -/
theorem chainOf_renameV3 (plug : Plug) (ms : List MetaV3) :
    chainOf plug (ms.map (renameV3 codecV3)) = (chainOf plug ms).map Chain.converted := by
  rw [chainOf_eq, chainOf_eq, skipOk_renameV3, createdOf_renameV3]
  by_cases hs : skipOk plug ms = true
  · simp only [hs, if_true]
    have e : ∀ k, ofKind k ((createdOf plug ms).map (fun n => ({ n with name := codecV3.convert n.name } : Named))) =
        (ofKind k (createdOf plug ms)).map (fun n => ({ n with name := codecV3.convert n.name } : Named)) :=
      fun k => ofKind_map k (fun n => ({ n with name := codecV3.convert n.name } : Named)) (fun _ => rfl) _
    rw [e, e, e]
    cases hb : ofKind .a2b (createdOf plug ms) with
    | nil => rfl
    | cons b rest =>
      cases rest with
      | nil => rfl
      | cons b' rest' => rfl
  · simp [hs]

end Zarrs.MetaOpts
