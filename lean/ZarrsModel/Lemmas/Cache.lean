import ZarrsModel.Model.Cache
/- helper lemmas for C06 -/
namespace Zarrs

end Zarrs
