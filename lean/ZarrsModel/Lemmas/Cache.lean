import ZarrsModel.Model.Cache
/- helper lemmas for C06 -/
namespace Zarrs

namespace Cache
variable {α : Type}

/-- a hit returns an entry that is stored in the cache under exactly the requested index -/
theorem lookup_some_mem {c : Cache α} {i : Idx} {e : CacheEntry α} (h : c.lookup i = some e) :
    (i, e) ∈ c := by
  unfold lookup at h
  cases hf : c.find? (·.1 == i) with
  | none => simp [hf] at h
  | some p =>
    rw [hf] at h
    simp only [Option.map_some, Option.some.injEq] at h
    have hm := List.mem_of_find?_eq_some hf
    have hp := List.find?_some hf
    have hi : p.1 = i := by simpa using hp
    obtain ⟨a, b⟩ := p
    simp only at hi h
    subst hi; subst h
    exact hm

/-- move-to-front only permutes: every entry after a touch was there before -/
theorem mem_touch {c : Cache α} {i : Idx} {p : Idx × CacheEntry α} (h : p ∈ c.touch i) : p ∈ c := by
  unfold touch at h
  cases hf : c.find? (·.1 == i) with
  | none => simpa [hf] using h
  | some q =>
    rw [hf] at h
    simp only [List.mem_cons] at h
    rcases h with h | h
    · subst h; exact List.mem_of_find?_eq_some hf
    · exact (List.mem_filter.mp h).1

end Cache

namespace ArrCfg
variable {α : Type}

/-- filling is exactly the uncached read, for both cache kinds -/
theorem cacheDecode_of_cacheFill (cfg : ArrCfg α) (st : KV) (kind : CacheKind) (c : Idx)
    (e : CacheEntry α) (h : cfg.cacheFill st kind c = some e) :
    cfg.cacheDecode c e = cfg.retrieveChunk st c := by
  cases kind with
  | decoded =>
    simp only [cacheFill] at h
    cases hr : cfg.retrieveChunk st c with
    | none => simp [hr] at h
    | some xs =>
      rw [hr] at h
      simp only [Option.map_some, Option.some.injEq] at h
      subst h
      rfl
  | encoded =>
    simp only [cacheFill] at h
    cases hs : cfg.chunkShape c with
    | none => simp [hs] at h
    | some s =>
      rw [hs] at h
      simp only [Option.some.injEq] at h
      subst h
      cases hg : st.get (cfg.keyOf c) with
      | none => simp [cacheDecode, retrieveChunk, retrieveChunkIfExists, hs, hg]
      | some b =>
        cases hd : cfg.dec b with
        | none => simp [cacheDecode, retrieveChunk, retrieveChunkIfExists, hs, hg, hd]
        | some xs =>
          by_cases hl : (xs.length == prod s) = true
          · simp [cacheDecode, retrieveChunk, retrieveChunkIfExists, hs, hg, hd, hl]
          · simp [cacheDecode, retrieveChunk, retrieveChunkIfExists, hs, hg, hd, hl]

/-- a failed fill is a failed uncached read -/
theorem retrieveChunk_none_of_cacheFill_none (cfg : ArrCfg α) (st : KV) (kind : CacheKind) (c : Idx)
    (h : cfg.cacheFill st kind c = none) : cfg.retrieveChunk st c = none := by
  cases kind with
  | decoded =>
    simp only [cacheFill] at h
    cases hr : cfg.retrieveChunk st c with
    | none => rfl
    | some xs => simp [hr] at h
  | encoded =>
    simp only [cacheFill] at h
    cases hs : cfg.chunkShape c with
    | none => simp [retrieveChunk, hs]
    | some s => simp [hs] at h

/-- coherence is inherited by any cache whose entries all come from a coherent cache -/
theorem CacheOk.of_subset {cfg : ArrCfg α} {st : KV} {kind : CacheKind} {c c' : Cache α}
    (hc : cfg.CacheOk st kind c) (hsub : ∀ p ∈ c', p ∈ c) : cfg.CacheOk st kind c' :=
  fun p hp => hc p (hsub p hp)

theorem CacheOk.cons {cfg : ArrCfg α} {st : KV} {kind : CacheKind} {c : Cache α} {i : Idx}
    {e : CacheEntry α} (hc : cfg.CacheOk st kind c) (he : cfg.cacheFill st kind i = some e) :
    cfg.CacheOk st kind ((i, e) :: c) := by
  intro p hp
  rcases List.mem_cons.mp hp with h | h
  · subst h; exact he
  · exact hc p h

/-- one cached read against a coherent cache, for an eviction policy that only drops entries -/
theorem cachedRetrieveChunk_spec (cfg : ArrCfg α) (st : KV) (kind : CacheKind)
    (evict : Cache α → Cache α) (hev : ∀ c, (evict c).Sublist c) (cache : Cache α)
    (hc : cfg.CacheOk st kind cache) (c : Idx) :
    (cfg.cachedRetrieveChunk st kind evict cache c).1 = cfg.retrieveChunk st c ∧
    cfg.CacheOk st kind (cfg.cachedRetrieveChunk st kind evict cache c).2 := by
  unfold cachedRetrieveChunk
  cases hl : cache.lookup c with
  | some e =>
    have hm := Cache.lookup_some_mem hl
    have hf : cfg.cacheFill st kind c = some e := hc _ hm
    exact ⟨cfg.cacheDecode_of_cacheFill st kind c e hf, hc.of_subset (fun p hp => Cache.mem_touch hp)⟩
  | none =>
    cases hf : cfg.cacheFill st kind c with
    | none => exact ⟨(cfg.retrieveChunk_none_of_cacheFill_none st kind c hf).symm, hc⟩
    | some e =>
      exact ⟨cfg.cacheDecode_of_cacheFill st kind c e hf,
        (hc.cons hf).of_subset (fun p hp => (hev _).subset hp)⟩

/-- a sequence of cached reads against a coherent cache -/
theorem cachedReads_spec (cfg : ArrCfg α) (st : KV) (kind : CacheKind)
    (evict : Cache α → Cache α) (hev : ∀ c, (evict c).Sublist c) (reads : List Idx) :
    ∀ (cache : Cache α), cfg.CacheOk st kind cache →
    (cfg.cachedReads st kind evict cache reads).1 = reads.map (cfg.retrieveChunk st) ∧
    cfg.CacheOk st kind (cfg.cachedReads st kind evict cache reads).2 := by
  induction reads with
  | nil => intro cache hc; exact ⟨rfl, hc⟩
  | cons c cs ih =>
    intro cache hc
    obtain ⟨h1, h2⟩ := cfg.cachedRetrieveChunk_spec st kind evict hev cache hc c
    obtain ⟨h3, h4⟩ := ih _ h2
    simp only [cachedReads, List.map_cons]
    exact ⟨by rw [h1, h3], h4⟩

end ArrCfg
/-! ### fixtures for the non-vacuity examples of `Props/C06.lean`

A 1-D array of shape `[4]` on the regular grid `[Dim.fixed 2]` (two chunks `[0]`, `[1]`), identity codec,
a store holding the encoded chunk `[0]` (chunk `[1]` is absent and reads as fill), and one coherent cache of
each kind holding chunk `[0]`.  The eviction policy is LRU by count with capacity 1. -/
namespace C06.Ex

def cfg : ArrCfg Nat where
  shape := [4]
  grid := [Dim.fixed 2]
  fill := 0
  keyOf := fun c => 'c' :: c.map (fun n => Char.ofNat (48 + n))
  enc := id
  dec := some
  storeEmpty := false

def st : KV := [(['c', '0'], [7, 9])]

def cacheEnc : Cache Nat := [([0], CacheEntry.encoded (some [7, 9]))]
def cacheDec : Cache Nat := [([0], CacheEntry.decoded [7, 9])]

def evict1 : Cache Nat → Cache Nat := fun c => c.take 1

theorem cacheEnc_ok : cfg.CacheOk st .encoded cacheEnc := by
  intro p hp
  simp only [cacheEnc, List.mem_singleton] at hp
  subst hp
  rfl

theorem cacheDec_ok : cfg.CacheOk st .decoded cacheDec := by
  intro p hp
  simp only [cacheDec, List.mem_singleton] at hp
  subst hp
  rfl

end C06.Ex

end Zarrs
