import ZarrsModel.Model.FaultOps
set_option Elab.async false
/-
The theory of operation-level programs (`Model/FaultOps.lean`): ONE description of `Prog.run` for every program,
store, counter value and failing set (`run_eq`), from which "a fault inside the run is an error", "the count does
not depend on the counter", "the state after a fault is a prefix of the fault-free run" all follow at once.
-/
namespace Zarrs

/-! ### `firstFail` -/

theorem firstFail_lt (F : List Nat) : ∀ (N n j : Nat), firstFail F n N = some j → j < N ∧ (n + j + 1) ∈ F
  | 0, n, j, h => by simp [firstFail] at h
  | N + 1, n, j, h => by
    simp only [firstFail] at h
    split at h
    · rename_i hc
      simp only [Option.some.injEq] at h
      subst h
      exact ⟨by omega, by simpa using hc⟩
    · cases h2 : firstFail F (n + 1) N with
      | none => rw [h2] at h; cases h
      | some j' =>
        rw [h2] at h
        simp only [Option.map_some, Option.some.injEq] at h
        subst h
        obtain ⟨h3, h4⟩ := firstFail_lt F N (n + 1) j' h2
        exact ⟨by omega, by rw [show n + (j' + 1) + 1 = n + 1 + j' + 1 by omega]; exact h4⟩

theorem firstFail_none (F : List Nat) : ∀ (N n : Nat), firstFail F n N = none → ∀ k ∈ F, k ≤ n ∨ n + N < k
  | 0, n, _, k, _ => by omega
  | N + 1, n, h, k, hk => by
    simp only [firstFail] at h
    split at h
    · cases h
    · rename_i hc
      cases h2 : firstFail F (n + 1) N with
      | some j' => rw [h2] at h; cases h
      | none =>
        have := firstFail_none F N (n + 1) h2 k hk
        by_cases hkn : k = n + 1
        · subst hkn
          exact absurd (by simpa using hk) hc
        · omega

/-- a failing ordinal inside the next `N` operations is met -/
theorem firstFail_isSome (F : List Nat) (n N k : Nat) (hk : k ∈ F) (h1 : n < k) (h2 : k ≤ n + N) :
    ∃ j, firstFail F n N = some j := by
  cases h : firstFail F n N with
  | some j => exact ⟨j, rfl⟩
  | none =>
    have := firstFail_none F N n h k hk
    omega

theorem firstFail_nil : ∀ (N n : Nat), firstFail [] n N = none
  | 0, _ => rfl
  | N + 1, n => by simp [firstFail, firstFail_nil N (n + 1)]

/-- a single failing ordinal `k` inside the run fails exactly the operation `k` -/
theorem firstFail_single (k : Nat) : ∀ (N n : Nat), n < k → k ≤ n + N → firstFail [k] n N = some (k - n - 1)
  | 0, n, h1, h2 => by omega
  | N + 1, n, h1, h2 => by
    simp only [firstFail]
    by_cases hk : k = n + 1
    · subst hk
      simp
    · have : ([k].contains (n + 1)) = false := by simp; omega
      rw [this]
      simp only [Bool.false_eq_true, if_false]
      rw [firstFail_single k N (n + 1) (by omega) (by omega)]
      simp only [Option.map_some, Option.some.injEq]
      omega

/-- the first failing operation does not depend on where the window ends, as long as it is inside -/
theorem firstFail_mono (F : List Nat) : ∀ (N N' n j : Nat), firstFail F n N = some j → N ≤ N' →
    firstFail F n N' = some j
  | 0, _, n, j, h, _ => by simp [firstFail] at h
  | N + 1, 0, n, j, h, hle => by omega
  | N + 1, N' + 1, n, j, h, hle => by
    simp only [firstFail] at h ⊢
    split
    · rename_i hc
      rw [if_pos hc] at h
      exact h
    · rename_i hc
      rw [if_neg hc] at h
      cases h2 : firstFail F (n + 1) N with
      | none => rw [h2] at h; cases h
      | some j' =>
        rw [h2] at h
        rw [firstFail_mono F N N' (n + 1) j' h2 (by omega)]
        exact h

/-- no failing operation in a window: none in a shorter window, and none in the window that follows iff none in the
rest -/
theorem firstFail_split (F : List Nat) : ∀ (N M n : Nat), firstFail F n N = none →
    firstFail F n (N + M) = (firstFail F (n + N) M).map (· + N)
  | 0, M, n, _ => by
    simp only [Nat.zero_add, Nat.add_zero]
    cases firstFail F n M <;> simp
  | N + 1, M, n, h => by
    simp only [firstFail] at h
    rw [show N + 1 + M = (N + M) + 1 by omega]
    simp only [firstFail]
    split at h
    · cases h
    · rename_i hc
      rw [if_neg hc]
      cases h2 : firstFail F (n + 1) N with
      | some j' => rw [h2] at h; cases h
      | none =>
        rw [firstFail_split F N M (n + 1) h2, show n + 1 + N = n + (N + 1) by omega]
        cases firstFail F (n + (N + 1)) M with
        | none => rfl
        | some j => simp only [Option.map_some, Option.some.injEq]; omega

namespace Prog
variable {β γ : Type}

/-- the trace lists exactly the operations counted by `ops` -/
theorem trace_length (p : Prog β) : ∀ m, (p.trace m).length = p.ops m := by
  induction p with
  | ret v => intro m; rfl
  | fail => intro m; rfl
  | get k cont ih => intro m; simp only [trace, ops, List.length_cons, ih]
  | set k v cont ih => intro m; simp only [trace, ops, List.length_cons, ih]
  | erase k cont ih => intro m; simp only [trace, ops, List.length_cons, ih]
  | listDir q cont ih => intro m; simp only [trace, ops, List.length_cons, ih]

@[simp] theorem mAfter_zero (p : Prog β) (m : KV) : p.mAfter m 0 = m := by
  cases p <;> rfl

/-- the outcome of the fault-free run, with the counter advanced by the number of operations -/
def outcome (p : Prog β) (m : KV) (n : Nat) (F : List Nat) : FR β :=
  match p.pure m with
  | some (v, m') => .ok v ⟨m', n + p.ops m, F⟩
  | none => .err ⟨p.mAfter m (p.ops m), n + p.ops m, F⟩

theorem outcome_step (q : Prog β) (p : Prog β) (m m' : KV) (n : Nat) (F : List Nat)
    (hp : p.pure m = q.pure m') (ho : p.ops m = q.ops m' + 1) (hm : p.mAfter m (q.ops m' + 1) = q.mAfter m' (q.ops m')) :
    q.outcome m' (n + 1) F = p.outcome m n F := by
  simp only [outcome, hp, ho, hm]
  rw [show n + 1 + q.ops m' = n + (q.ops m' + 1) by omega]

theorem fget_eq (m : KV) (n : Nat) (F : List Nat) (k : Key) :
    fget ⟨m, n, F⟩ k = if F.contains (n + 1) then .err ⟨m, n + 1, F⟩ else .ok (m.get k) ⟨m, n + 1, F⟩ := rfl
theorem fset_eq (m : KV) (n : Nat) (F : List Nat) (k : Key) (v : Bytes) :
    fset ⟨m, n, F⟩ k v = if F.contains (n + 1) then .err ⟨m, n + 1, F⟩ else .ok () ⟨m.put k v, n + 1, F⟩ := rfl
theorem ferase_eq (m : KV) (n : Nat) (F : List Nat) (k : Key) :
    ferase ⟨m, n, F⟩ k = if F.contains (n + 1) then .err ⟨m, n + 1, F⟩ else .ok () ⟨m.erase k, n + 1, F⟩ := rfl
theorem flistDir_eq (m : KV) (n : Nat) (F : List Nat) (q : Key) :
    flistDir ⟨m, n, F⟩ q = if F.contains (n + 1) then .err ⟨m, n + 1, F⟩ else .ok (Spec.listDir m q) ⟨m, n + 1, F⟩ := rfl

/-- **the run of any program under any failing set**: it fails at the first failing operation among those the
fault-free run performs, leaving the store of the fault-free run just before that operation; with no such
operation it is the fault-free run -/
theorem run_eq (p : Prog β) : ∀ (m : KV) (n : Nat) (F : List Nat),
    p.run ⟨m, n, F⟩ = match firstFail F n (p.ops m) with
      | some j => .err ⟨p.mAfter m j, n + j + 1, F⟩
      | none => p.outcome m n F := by
  induction p with
  | ret v => intro m n F; simp [run, ops, firstFail, outcome, pure]
  | fail => intro m n F; simp [run, ops, firstFail, outcome, pure, mAfter]
  | get k cont ih =>
    intro m n F
    cases hc : F.contains (n + 1) with
    | true => simp only [run, fget_eq, ops, firstFail, hc, ↓reduceIte, mAfter_zero, Nat.add_zero]
    | false =>
      simp only [run, fget_eq, ops, firstFail, hc, Bool.false_eq_true, ↓reduceIte]
      rw [ih (m.get k) m (n + 1) F]
      cases h2 : firstFail F (n + 1) ((cont (m.get k)).ops m) with
      | some j => simp only [Option.map_some, mAfter]; rw [show n + 1 + j + 1 = n + (j + 1) + 1 by omega]
      | none =>
        simp only [Option.map_none]
        exact outcome_step _ _ m m n F rfl rfl rfl
  | set k v cont ih =>
    intro m n F
    cases hc : F.contains (n + 1) with
    | true => simp only [run, fset_eq, ops, firstFail, hc, ↓reduceIte, mAfter_zero, Nat.add_zero]
    | false =>
      simp only [run, fset_eq, ops, firstFail, hc, Bool.false_eq_true, ↓reduceIte]
      rw [ih (m.put k v) (n + 1) F]
      cases h2 : firstFail F (n + 1) (cont.ops (m.put k v)) with
      | some j => simp only [Option.map_some, mAfter]; rw [show n + 1 + j + 1 = n + (j + 1) + 1 by omega]
      | none =>
        simp only [Option.map_none]
        exact outcome_step _ _ m _ n F rfl rfl rfl
  | erase k cont ih =>
    intro m n F
    cases hc : F.contains (n + 1) with
    | true => simp only [run, ferase_eq, ops, firstFail, hc, ↓reduceIte, mAfter_zero, Nat.add_zero]
    | false =>
      simp only [run, ferase_eq, ops, firstFail, hc, Bool.false_eq_true, ↓reduceIte]
      rw [ih (m.erase k) (n + 1) F]
      cases h2 : firstFail F (n + 1) (cont.ops (m.erase k)) with
      | some j => simp only [Option.map_some, mAfter]; rw [show n + 1 + j + 1 = n + (j + 1) + 1 by omega]
      | none =>
        simp only [Option.map_none]
        exact outcome_step _ _ m _ n F rfl rfl rfl
  | listDir q cont ih =>
    intro m n F
    cases hc : F.contains (n + 1) with
    | true => simp only [run, flistDir_eq, ops, firstFail, hc, ↓reduceIte, mAfter_zero, Nat.add_zero]
    | false =>
      simp only [run, flistDir_eq, ops, firstFail, hc, Bool.false_eq_true, ↓reduceIte]
      rw [ih (Spec.listDir m q) m (n + 1) F]
      cases h2 : firstFail F (n + 1) ((cont (Spec.listDir m q)).ops m) with
      | some j => simp only [Option.map_some, mAfter]; rw [show n + 1 + j + 1 = n + (j + 1) + 1 by omega]
      | none =>
        simp only [Option.map_none]
        exact outcome_step _ _ m m n F rfl rfl rfl

/-- without faults the run is the pure run, the counter advanced by `ops` -/
theorem run_nofault (p : Prog β) (m : KV) (n : Nat) : p.run ⟨m, n, []⟩ = p.outcome m n [] := by
  rw [run_eq, firstFail_nil]

/-- no failing ordinal among the operations of the run: the fault-free outcome -/
theorem run_of_none (p : Prog β) (m : KV) (n : Nat) (F : List Nat) (h : firstFail F n (p.ops m) = none) :
    p.run ⟨m, n, F⟩ = p.outcome m n F := by
  rw [run_eq, h]

/-- **a fault inside the run is an error**: some failing ordinal `k` with `n < k ≤ n + ops` -/
theorem fault_is_err (p : Prog β) (m : KV) (n : Nat) (F : List Nat) (k : Nat) (hk : k ∈ F) (h1 : n < k)
    (h2 : k ≤ n + p.ops m) : ∃ s', p.run ⟨m, n, F⟩ = .err s' := by
  obtain ⟨j, hj⟩ := firstFail_isSome F n (p.ops m) k hk h1 h2
  rw [run_eq, hj]
  exact ⟨_, rfl⟩

/-- the failing run with exactly one failing ordinal `k` inside the run: error, `k` operations counted, the store
that of the fault-free run after `k - 1` operations -/
theorem run_single (p : Prog β) (m : KV) (n k : Nat) (h1 : n < k) (h2 : k ≤ n + p.ops m) :
    p.run ⟨m, n, [k]⟩ = .err ⟨p.mAfter m (k - n - 1), k, [k]⟩ := by
  rw [run_eq, firstFail_single k _ n h1 h2]
  simp only
  rw [show n + (k - n - 1) + 1 = k by omega]

/-- a successful run is the pure run -/
theorem run_ok (p : Prog β) (m : KV) (n : Nat) (F : List Nat) (v : β) (s' : FStore) (h : p.run ⟨m, n, F⟩ = .ok v s') :
    p.pure m = some (v, s'.m) ∧ s'.n = n + p.ops m ∧ s'.fails = F ∧ firstFail F n (p.ops m) = none := by
  rw [run_eq] at h
  cases hf : firstFail F n (p.ops m) with
  | some j => rw [hf] at h; cases h
  | none =>
    rw [hf] at h
    simp only [outcome] at h
    cases hp : p.pure m with
    | none => rw [hp] at h; cases h
    | some r =>
      obtain ⟨v', m'⟩ := r
      rw [hp] at h
      simp only [FR.ok.injEq] at h
      obtain ⟨rfl, rfl⟩ := h
      exact ⟨rfl, rfl, rfl, rfl⟩

/-- a failed run leaves the store of some prefix of the fault-free run -/
theorem run_err (p : Prog β) (m : KV) (n : Nat) (F : List Nat) (s' : FStore) (h : p.run ⟨m, n, F⟩ = .err s') :
    s'.fails = F ∧ ((∃ j, firstFail F n (p.ops m) = some j ∧ s'.m = p.mAfter m j ∧ s'.n = n + j + 1) ∨
      (firstFail F n (p.ops m) = none ∧ p.pure m = none ∧ s'.m = p.mAfter m (p.ops m) ∧ s'.n = n + p.ops m)) := by
  rw [run_eq] at h
  cases hf : firstFail F n (p.ops m) with
  | some j =>
    rw [hf] at h
    simp only [FR.err.injEq] at h
    subst h
    exact ⟨rfl, Or.inl ⟨j, rfl, rfl, rfl⟩⟩
  | none =>
    rw [hf] at h
    simp only [outcome] at h
    cases hp : p.pure m with
    | some r => rw [hp] at h; cases h
    | none =>
      rw [hp] at h
      simp only [FR.err.injEq] at h
      subst h
      exact ⟨rfl, Or.inr ⟨rfl, rfl, rfl, rfl⟩⟩

/-- the counter and the failing set after any run -/
theorem run_st (p : Prog β) (m : KV) (n : Nat) (F : List Nat) :
    (p.run ⟨m, n, F⟩).st.fails = F ∧ n ≤ (p.run ⟨m, n, F⟩).st.n ∧ (p.run ⟨m, n, F⟩).st.n ≤ n + p.ops m := by
  rw [run_eq]
  cases hf : firstFail F n (p.ops m) with
  | some j =>
    have := (firstFail_lt F _ n j hf).1
    exact ⟨rfl, by simp only [FR.st]; omega, by simp only [FR.st]; omega⟩
  | none =>
    simp only [outcome]
    cases p.pure m with
    | none => exact ⟨rfl, by simp only [FR.st]; omega, by simp only [FR.st]; omega⟩
    | some r => exact ⟨rfl, by simp only [FR.st]; omega, by simp only [FR.st]; omega⟩


/-- the store of the pure run is the store after all its operations -/
theorem pure_mAfter (p : Prog β) : ∀ (m : KV) (v : β) (m' : KV), p.pure m = some (v, m') → ∀ j, p.ops m ≤ j → p.mAfter m j = m' := by
  induction p with
  | ret v => intro m v' m' h j _; simp only [pure, Option.some.injEq, Prod.mk.injEq] at h; exact h.2
  | fail => intro m v' m' h; cases h
  | get k cont ih =>
    intro m v' m' h j hj
    simp only [ops] at hj
    cases j with
    | zero => omega
    | succ j => exact ih _ m v' m' h j (by omega)
  | set k v cont ih =>
    intro m v' m' h j hj
    simp only [ops] at hj
    cases j with
    | zero => omega
    | succ j => exact ih _ v' m' h j (by omega)
  | erase k cont ih =>
    intro m v' m' h j hj
    simp only [ops] at hj
    cases j with
    | zero => omega
    | succ j => exact ih _ v' m' h j (by omega)
  | listDir q cont ih =>
    intro m v' m' h j hj
    simp only [ops] at hj
    cases j with
    | zero => omega
    | succ j => exact ih _ m v' m' h j (by omega)

/-- **whatever fails, the store a run leaves is the store of the fault-free run after some number of its operations** -/
theorem run_st_mAfter (p : Prog β) (m : KV) (n : Nat) (F : List Nat) : ∃ j, (p.run ⟨m, n, F⟩).st.m = p.mAfter m j := by
  rw [run_eq]
  cases firstFail F n (p.ops m) with
  | some j => exact ⟨j, rfl⟩
  | none =>
    simp only [outcome]
    cases hp : p.pure m with
    | none => exact ⟨_, rfl⟩
    | some r => exact ⟨p.ops m, (pure_mAfter p m r.1 r.2 hp _ (Nat.le_refl _)).symm⟩

/-! ### sequencing -/

theorem pure_bind (p : Prog β) (f : β → Prog γ) : ∀ m, (p.bind f).pure m =
    match p.pure m with
    | some (v, m') => (f v).pure m'
    | none => none := by
  induction p with
  | ret v => intro m; rfl
  | fail => intro m; rfl
  | get k cont ih => intro m; simp only [bind, pure]; exact ih _ m
  | set k v cont ih => intro m; simp only [bind, pure]; exact ih _
  | erase k cont ih => intro m; simp only [bind, pure]; exact ih _
  | listDir q cont ih => intro m; simp only [bind, pure]; exact ih _ m

theorem ops_bind (p : Prog β) (f : β → Prog γ) : ∀ m, (p.bind f).ops m =
    p.ops m + match p.pure m with
      | some (v, m') => (f v).ops m'
      | none => 0 := by
  induction p with
  | ret v => intro m; simp [bind, ops, pure]
  | fail => intro m; simp [bind, ops, pure]
  | get k cont ih => intro m; simp only [bind, ops, pure]; rw [ih _ m]; omega
  | set k v cont ih => intro m; simp only [bind, ops, pure]; rw [ih _]; omega
  | erase k cont ih => intro m; simp only [bind, ops, pure]; rw [ih _]; omega
  | listDir q cont ih => intro m; simp only [bind, ops, pure]; rw [ih _ m]; omega

theorem run_bind (p : Prog β) (f : β → Prog γ) : ∀ s, (p.bind f).run s =
    match p.run s with
    | .ok v s' => (f v).run s'
    | .err s' => .err s' := by
  induction p with
  | ret v => intro s; rfl
  | fail => intro s; rfl
  | get k cont ih =>
    intro s
    simp only [bind, run]
    cases fget s k with
    | ok v s' => exact ih v s'
    | err s' => rfl
  | set k v cont ih =>
    intro s
    simp only [bind, run]
    cases fset s k v with
    | ok v s' => exact ih s'
    | err s' => rfl
  | erase k cont ih =>
    intro s
    simp only [bind, run]
    cases ferase s k with
    | ok v s' => exact ih s'
    | err s' => rfl
  | listDir q cont ih =>
    intro s
    simp only [bind, run]
    cases flistDir s q with
    | ok v s' => exact ih v s'
    | err s' => rfl

theorem bind_ret_pure (p : Prog β) (g : β → γ) (m : KV) :
    (p.bind (fun v => .ret (g v))).pure m = (p.pure m).map (fun r => (g r.1, r.2)) := by
  rw [pure_bind]
  cases p.pure m with
  | none => rfl
  | some r => rfl

/-! ### read-only programs and programs whose only write is their last operation -/

theorem readOnly_mAfter (p : Prog β) (h : p.readOnly) : ∀ m j, p.mAfter m j = m := by
  induction p with
  | ret v => intro m j; rfl
  | fail => intro m j; rfl
  | get k cont ih =>
    intro m j
    cases j with
    | zero => rfl
    | succ j => exact ih _ (h _) m j
  | set k v cont ih => exact absurd h (by simp [readOnly])
  | erase k cont ih => exact absurd h (by simp [readOnly])
  | listDir q cont ih =>
    intro m j
    cases j with
    | zero => rfl
    | succ j => exact ih _ (h _) m j

theorem readOnly_pure (p : Prog β) (h : p.readOnly) : ∀ m v m', p.pure m = some (v, m') → m' = m := by
  induction p with
  | ret v => intro m v' m' hp; simp only [pure, Option.some.injEq, Prod.mk.injEq] at hp; exact hp.2.symm
  | fail => intro m v' m' hp; cases hp
  | get k cont ih => intro m v' m' hp; exact ih _ (h _) m v' m' hp
  | set k v cont ih => exact absurd h (by simp [readOnly])
  | erase k cont ih => exact absurd h (by simp [readOnly])
  | listDir q cont ih => intro m v' m' hp; exact ih _ (h _) m v' m' hp

/-- **a read-only method never changes the store**, whatever fails -/
theorem readOnly_run (p : Prog β) (h : p.readOnly) (m : KV) (n : Nat) (F : List Nat) :
    (p.run ⟨m, n, F⟩).st.m = m := by
  rw [run_eq]
  cases firstFail F n (p.ops m) with
  | some j => exact readOnly_mAfter p h m j
  | none =>
    simp only [outcome]
    cases hp : p.pure m with
    | none => exact readOnly_mAfter p h m _
    | some r => exact readOnly_pure p h m r.1 r.2 hp

theorem readOnly_writeLast (p : Prog β) (h : p.readOnly) : p.writeLast := by
  induction p with
  | ret v => trivial
  | fail => trivial
  | get k cont ih => exact fun v => ih v (h v)
  | set k v cont ih => exact absurd h (by simp [readOnly])
  | erase k cont ih => exact absurd h (by simp [readOnly])
  | listDir q cont ih => exact fun v => ih v (h v)

theorem readOnly_bind (p : Prog β) (f : β → Prog γ) (hp : p.readOnly) (hf : ∀ v, (f v).readOnly) :
    (p.bind f).readOnly := by
  induction p with
  | ret v => exact hf v
  | fail => trivial
  | get k cont ih => exact fun v => ih v (hp v)
  | set k v cont ih => exact absurd hp (by simp [readOnly])
  | erase k cont ih => exact absurd hp (by simp [readOnly])
  | listDir q cont ih => exact fun v => ih v (hp v)

theorem writeLast_bind (p : Prog β) (f : β → Prog γ) (hp : p.readOnly) (hf : ∀ v, (f v).writeLast) :
    (p.bind f).writeLast := by
  induction p with
  | ret v => exact hf v
  | fail => trivial
  | get k cont ih => exact fun v => ih v (hp v)
  | set k v cont ih => exact absurd hp (by simp [readOnly])
  | erase k cont ih => exact absurd hp (by simp [readOnly])
  | listDir q cont ih => exact fun v => ih v (hp v)

theorem writeLast_mAfter_lt (p : Prog β) (h : p.writeLast) : ∀ m j, j < p.ops m → p.mAfter m j = m := by
  induction p with
  | ret v => intro m j _; rfl
  | fail => intro m j _; rfl
  | get k cont ih =>
    intro m j hj
    cases j with
    | zero => rfl
    | succ j => exact ih _ (h _) m j (by simp only [ops] at hj; omega)
  | set k v cont ih =>
    intro m j hj
    obtain ⟨v', rfl⟩ := h
    simp only [ops] at hj
    have : j = 0 := by omega
    subst this; rfl
  | erase k cont ih =>
    intro m j hj
    obtain ⟨v', rfl⟩ := h
    simp only [ops] at hj
    have : j = 0 := by omega
    subst this; rfl
  | listDir q cont ih =>
    intro m j hj
    cases j with
    | zero => rfl
    | succ j => exact ih _ (h _) m j (by simp only [ops] at hj; omega)

theorem writeLast_mAfter_none (p : Prog β) (h : p.writeLast) : ∀ m j, p.pure m = none → p.mAfter m j = m := by
  induction p with
  | ret v => intro m j _; rfl
  | fail => intro m j _; rfl
  | get k cont ih =>
    intro m j hp
    cases j with
    | zero => rfl
    | succ j => exact ih _ (h _) m j hp
  | set k v cont ih =>
    intro m j hp
    obtain ⟨v', rfl⟩ := h
    cases hp
  | erase k cont ih =>
    intro m j hp
    obtain ⟨v', rfl⟩ := h
    cases hp
  | listDir q cont ih =>
    intro m j hp
    cases j with
    | zero => rfl
    | succ j => exact ih _ (h _) m j hp

/-- **a method whose only write is its last operation is atomic**: whenever it returns an error — a fault on any of its
reads, a fault on the write itself, or an error of its own — the store is unchanged -/
theorem writeLast_err (p : Prog β) (h : p.writeLast) (m : KV) (n : Nat) (F : List Nat) (s' : FStore)
    (he : p.run ⟨m, n, F⟩ = .err s') : s'.m = m := by
  obtain ⟨_, h1 | h1⟩ := run_err p m n F s' he
  · obtain ⟨j, hj, hm, _⟩ := h1
    rw [hm]
    exact writeLast_mAfter_lt p h m j (firstFail_lt F _ n j hj).1
  · obtain ⟨_, hp, hm, _⟩ := h1
    rw [hm]
    exact writeLast_mAfter_none p h m _ hp

/-! ### lists of steps -/

theorem seq_pure_step (p : Prog Unit) (ps : List (Prog Unit)) (m : KV) :
    (seq (p :: ps)).pure m = match p.pure m with
      | some (_, m') => (seq ps).pure m'
      | none => none := by
  simp only [seq]
  rw [pure_bind]
  cases p.pure m with
  | none => rfl
  | some r => rfl

theorem seq_ops_step (p : Prog Unit) (ps : List (Prog Unit)) (m : KV) :
    (seq (p :: ps)).ops m = p.ops m + match p.pure m with
      | some (_, m') => (seq ps).ops m'
      | none => 0 := by
  simp only [seq]
  rw [ops_bind]
  cases p.pure m with
  | none => rfl
  | some r => rfl

/-- **every failing ordinal among the operations of the fault-free sequential run makes the parallel run fail**, even
though every closure is started -/
theorem runAll_fault_is_err : ∀ (ps : List (Prog Unit)) (m : KV) (n : Nat) (F : List Nat) (k : Nat), k ∈ F → n < k →
    k ≤ n + (seq ps).ops m → ∃ s', runAll ps ⟨m, n, F⟩ = .err s'
  | [], m, n, F, k, _, h1, h2 => by simp only [seq, ops] at h2; omega
  | p :: ps, m, n, F, k, hk, h1, h2 => by
    simp only [runAll]
    cases hr : p.run ⟨m, n, F⟩ with
    | err s' => exact ⟨_, rfl⟩
    | ok v s' =>
      obtain ⟨hp, hn, hF, hff⟩ := run_ok p m n F v s' hr
      rw [seq_ops_step, hp] at h2
      simp only at h2
      have hk2 : n + p.ops m < k := by
        rcases firstFail_none F _ n hff k hk with h | h
        · omega
        · exact h
      obtain ⟨m', n', F'⟩ := s'
      simp only at hp hn hF h2
      subst hn hF
      exact runAll_fault_is_err ps m' _ _ k hk hk2 (by omega)

/-- a parallel run in which no closure failed is the sequential run -/
theorem runAll_ok : ∀ (ps : List (Prog Unit)) (s s' : FStore), runAll ps s = .ok () s' → (seq ps).run s = .ok () s'
  | [], s, s', h => by simpa [runAll, seq, run] using h
  | p :: ps, s, s', h => by
    simp only [runAll] at h
    simp only [seq]
    rw [run_bind]
    cases hr : p.run s with
    | err s1 => rw [hr] at h; cases h
    | ok v s1 =>
      rw [hr] at h
      exact runAll_ok ps s1 s' h

theorem runAll_of_seq_ok : ∀ (ps : List (Prog Unit)) (s s' : FStore), (seq ps).run s = .ok () s' → runAll ps s = .ok () s'
  | [], s, s', h => by simpa [runAll, seq, run] using h
  | p :: ps, s, s', h => by
    simp only [seq] at h
    rw [run_bind] at h
    simp only [runAll]
    cases hr : p.run s with
    | err s1 => rw [hr] at h; cases h
    | ok v s1 =>
      rw [hr] at h
      exact runAll_of_seq_ok ps s1 s' h

end Prog
end Zarrs
