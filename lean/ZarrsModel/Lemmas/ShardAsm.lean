import ZarrsModel.Model.ShardAsm
import ZarrsModel.Lemmas.ConformShard
set_option Elab.async false
/- helper lemmas for C16Shard: reservation chains, the buffer, the invariant of the atomic assembly machine -/
namespace Zarrs.ShardAsm
open Zarrs Zarrs.Codec

/-! ### reservation chains: consecutive ranges starting at `a`, ending at `e` -/

def Chained (a : Nat) : List (Nat × Nat × Nat) → Nat → Prop
  | [], e => e = a
  | x :: rest, e => x.2.1 = a ∧ Chained (a + x.2.2) rest e

theorem chained_snoc (i n : Nat) : ∀ (l : List (Nat × Nat × Nat)) (a e : Nat),
    Chained a l e → Chained a (l ++ [(i, e, n)]) (e + n) := by
  intro l
  induction l with
  | nil => intro a e h; simp only [Chained] at h; subst h; simp [Chained]
  | cons x rest ih =>
    intro a e h
    exact ⟨h.1, ih _ _ h.2⟩

theorem chained_end : ∀ (l : List (Nat × Nat × Nat)) (a e : Nat), Chained a l e → e = a + (l.map (·.2.2)).sum := by
  intro l
  induction l with
  | nil => intro a e h; simpa [Chained] using h
  | cons x rest ih =>
    intro a e h
    have := ih _ _ h.2
    simp only [List.map_cons, List.sum_cons]; omega

theorem chained_bounds : ∀ (l : List (Nat × Nat × Nat)) (a e : Nat), Chained a l e →
    ∀ x ∈ l, a ≤ x.2.1 ∧ x.2.1 + x.2.2 ≤ e := by
  intro l
  induction l with
  | nil => intro a e _ x hx; cases hx
  | cons y rest ih =>
    intro a e h x hx
    have he := chained_end _ _ _ h.2
    simp only [List.mem_cons] at hx
    rcases hx with rfl | hx
    · have := h.1; omega
    · have := ih _ _ h.2 x hx; omega

/-- different entries of a chain occupy disjoint ranges -/
theorem chained_disj : ∀ (l : List (Nat × Nat × Nat)) (a e : Nat), Chained a l e →
    ∀ x ∈ l, ∀ y ∈ l, x.1 ≠ y.1 → x.2.1 + x.2.2 ≤ y.2.1 ∨ y.2.1 + y.2.2 ≤ x.2.1 := by
  intro l
  induction l with
  | nil => intro a e _ x hx; cases hx
  | cons z rest ih =>
    intro a e h x hx y hy hne
    simp only [List.mem_cons] at hx hy
    rcases hx with rfl | hx <;> rcases hy with rfl | hy
    · exact absurd rfl hne
    · have := chained_bounds _ _ _ h.2 y hy; have := h.1; left; omega
    · have := chained_bounds _ _ _ h.2 x hx; have := h.1; right; omega
    · exact ih _ _ h.2 x hx y hy hne

/-- the ranges of a chain cover `[a, e)` -/
theorem chained_cover : ∀ (l : List (Nat × Nat × Nat)) (a e : Nat), Chained a l e →
    ∀ k, a ≤ k → k < e → ∃ x ∈ l, x.2.1 ≤ k ∧ k < x.2.1 + x.2.2 := by
  intro l
  induction l with
  | nil => intro a e h k h1 h2; simp only [Chained] at h; omega
  | cons z rest ih =>
    intro a e h k h1 h2
    by_cases hk : k < a + z.2.2
    · exact ⟨z, List.mem_cons_self, by have := h.1; omega, by have := h.1; omega⟩
    · obtain ⟨x, hx, hx1, hx2⟩ := ih _ _ h.2 k (by omega) h2
      exact ⟨x, List.mem_cons_of_mem _ hx, hx1, hx2⟩

/-! ### the buffer -/

@[simp] theorem writeAt_length (buf : List (Option Nat)) (off : Nat) (b : Bytes) : (writeAt buf off b).length = buf.length := by
  simp [writeAt]

theorem writeAt_getElem? (buf : List (Option Nat)) (off : Nat) (b : Bytes) (k : Nat) (hk : k < buf.length) :
    (writeAt buf off b)[k]? = some (if off ≤ k ∧ k < off + b.length then some (b.getD (k - off) 0) else buf.getD k none) := by
  simp [writeAt, hk]

theorem writeAt_in (buf : List (Option Nat)) (off : Nat) (b : Bytes) (k : Nat) (hk : k < b.length) (h : off + b.length ≤ buf.length) :
    (writeAt buf off b)[off + k]? = some (some (b.getD k 0)) := by
  rw [writeAt_getElem? _ _ _ _ (by omega)]
  have : off ≤ off + k ∧ off + k < off + b.length := by omega
  simp only [this, and_self, if_true, Nat.add_sub_cancel_left]

theorem writeAt_out (buf : List (Option Nat)) (off : Nat) (b : Bytes) (k : Nat) (h : k < off ∨ off + b.length ≤ k) :
    (writeAt buf off b)[k]? = buf[k]? := by
  by_cases hk : k < buf.length
  · rw [writeAt_getElem? _ _ _ _ hk]
    have : ¬ (off ≤ k ∧ k < off + b.length) := by omega
    simp only [this, if_false, List.getD_eq_getElem?_getD, List.getElem?_eq_getElem hk, Option.getD_some]
  · rw [List.getElem?_eq_none (by simp; omega), List.getElem?_eq_none (by omega)]

/-- a list splits around a run of known elements -/
theorem split_around {α : Type} (data : List α) (a : Nat) (b : List α)
    (h2 : ∀ k, k < b.length → data[a + k]? = b[k]?) : data = data.take a ++ b ++ data.drop (a + b.length) := by
  have hb : (data.drop a).take b.length = b := by
    apply List.ext_getElem?
    intro k
    by_cases hk : k < b.length
    · rw [List.getElem?_take_of_lt hk, List.getElem?_drop, h2 k hk]
    · rw [List.getElem?_eq_none (by simp; omega), List.getElem?_eq_none (by omega)]
  calc data = data.take a ++ data.drop a := (List.take_append_drop a data).symm
    _ = data.take a ++ ((data.drop a).take b.length ++ (data.drop a).drop b.length) := by
      congr 1; exact (List.take_append_drop _ _).symm
    _ = data.take a ++ b ++ data.drop (a + b.length) := by rw [hb, List.drop_drop, List.append_assoc]

/-! ### accounting of the bytes not yet reserved -/

def pendingOf : List (Option Bytes) → List Pc → Nat
  | some b :: cs, .start :: ps => b.length + pendingOf cs ps
  | _ :: cs, _ :: ps => pendingOf cs ps
  | _, _ => 0

theorem pendingOf_init (chunks : List (Option Bytes)) :
    pendingOf chunks (chunks.map initPc) = (lens chunks).sum := by
  induction chunks with
  | nil => rfl
  | cons c cs ih =>
    cases c with
    | none => simp [pendingOf, lens, initPc] at ih ⊢; exact ih
    | some b => simp [pendingOf, lens, initPc] at ih ⊢; exact ih

theorem pendingOf_cons_ne (c : Option Bytes) (cs : List (Option Bytes)) (q : Pc) (ps : List Pc) (hq : q ≠ .start) :
    pendingOf (c :: cs) (q :: ps) = pendingOf cs ps := by
  cases c with
  | none => simp only [pendingOf]
  | some b => cases q <;> first | exact absurd rfl hq | simp only [pendingOf]

theorem pendingOf_cons_start (b : Bytes) (cs : List (Option Bytes)) (ps : List Pc) :
    pendingOf (some b :: cs) (.start :: ps) = b.length + pendingOf cs ps := by simp only [pendingOf]

theorem pendingOf_cons_cons (c : Option Bytes) (cs : List (Option Bytes)) (q : Pc) (ps ps' : List Pc)
    (h : pendingOf cs ps' = pendingOf cs ps) : pendingOf (c :: cs) (q :: ps') = pendingOf (c :: cs) (q :: ps) := by
  by_cases hq : q = .start
  · subst hq
    cases c with
    | none => simp only [pendingOf]; exact h
    | some b => rw [pendingOf_cons_start, pendingOf_cons_start, h]
  · rw [pendingOf_cons_ne _ _ _ _ hq, pendingOf_cons_ne _ _ _ _ hq, h]

/-- a task leaving `start` takes its length out of the pending bytes -/
theorem pendingOf_leave : ∀ (cs : List (Option Bytes)) (ps : List Pc) (i : Nat) (b : Bytes) (x : Pc),
    cs[i]? = some (some b) → ps[i]? = some .start → x ≠ .start →
    pendingOf cs (ps.set i x) + b.length = pendingOf cs ps := by
  intro cs
  induction cs with
  | nil => intro ps i b x h; simp at h
  | cons c cs ih =>
    intro ps i b x hc hp hx
    cases ps with
    | nil => simp at hp
    | cons q ps =>
      cases i with
      | zero =>
        simp only [List.getElem?_cons_zero, Option.some.injEq] at hc hp
        subst hc; subst hp
        rw [List.set_cons_zero, pendingOf_cons_ne _ _ _ _ hx, pendingOf_cons_start]; omega
      | succ i =>
        simp only [List.getElem?_cons_succ] at hc hp
        have := ih ps i b x hc hp hx
        rw [List.set_cons_succ]
        by_cases hq : q = .start
        · subst hq
          cases c with
          | none => simp only [pendingOf]; exact this
          | some b' => rw [pendingOf_cons_start, pendingOf_cons_start]; omega
        · rw [pendingOf_cons_ne _ _ _ _ hq, pendingOf_cons_ne _ _ _ _ hq]; exact this

/-- a task moving between non-`start` states changes nothing -/
theorem pendingOf_stay : ∀ (cs : List (Option Bytes)) (ps : List Pc) (i : Nat) (y x : Pc),
    ps[i]? = some y → y ≠ .start → x ≠ .start → pendingOf cs (ps.set i x) = pendingOf cs ps := by
  intro cs
  induction cs with
  | nil => intro ps i y x _ _ _; cases ps <;> simp [pendingOf]
  | cons c cs ih =>
    intro ps i y x hp hy hx
    cases ps with
    | nil => simp at hp
    | cons q ps =>
      cases i with
      | zero =>
        simp only [List.getElem?_cons_zero, Option.some.injEq] at hp
        subst hp
        rw [List.set_cons_zero, pendingOf_cons_ne _ _ _ _ hx, pendingOf_cons_ne _ _ _ _ hy]
      | succ i =>
        simp only [List.getElem?_cons_succ] at hp
        rw [List.set_cons_succ]
        exact pendingOf_cons_cons _ _ _ _ _ (ih ps i y x hp hy hx)

/-- when every task is final nothing is pending -/
theorem pendingOf_final : ∀ (cs : List (Option Bytes)) (ps : List Pc), ps.all Pc.isFinal = true → pendingOf cs ps = 0 := by
  intro cs
  induction cs with
  | nil => intro ps _; cases ps <;> simp [pendingOf]
  | cons c cs ih =>
    intro ps h
    cases ps with
    | nil => simp [pendingOf]
    | cons q ps =>
      simp only [List.all_cons, Bool.and_eq_true] at h
      have hq : q ≠ .start := by intro hq; rw [hq] at h; simp [Pc.isFinal] at h
      rw [pendingOf_cons_ne _ _ _ _ hq]; exact ih ps h.2

end Zarrs.ShardAsm
