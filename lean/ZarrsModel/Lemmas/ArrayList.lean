import ZarrsModel.Model.Array
import ZarrsModel.Lemmas.Index
import ZarrsModel.Props.C09
/- helper lemmas for C01/C04, part 1: list-level facts (`boxIndices` lookup, `AArr.read`, `updateRuns`) -/
namespace Zarrs
open Subset

/-! ### positional lookup in the specification enumerations -/

theorem boxIndices_getElem?_ravel (i : Idx) (sh : Shape) (h : inB i sh = true) :
    (boxIndices sh)[ravel i sh]? = some i := by
  rw [← range_map_unravel]
  have hlt := ravel_lt i sh h
  rw [List.getElem?_map, List.getElem?_range hlt]
  simp only [Option.map_some]
  rw [C09.unravel_ravel i sh h]

theorem boxIndices_getElem?_lt (q : Nat) (sh : Shape) (h : q < prod sh) :
    (boxIndices sh)[q]? = some (unravel q sh) := by
  rw [← range_map_unravel, List.getElem?_map, List.getElem?_range h]
  rfl

theorem Subset.indices_getElem?_ravel (s : Subset) (i : Idx) (h : s.contains i = true) :
    s.indices[ravel (zipSub i s.start) s.shape]? = some i := by
  obtain ⟨h1, h2⟩ := mem_zipSub i s.start s.shape h
  simp only [Subset.indices, List.getElem?_map, boxIndices_getElem?_ravel _ _ h1, Option.map_some, h2]

theorem Subset.indices_getElem?_box (s : Subset) (j : Idx) (h : inB j s.shape = true) :
    s.indices[ravel j s.shape]? = some (addIdx j s.start) := by
  simp only [Subset.indices, List.getElem?_map, boxIndices_getElem?_ravel _ _ h, Option.map_some]

namespace AArr
variable {α : Type}

theorem read_length (a : AArr α) (s : Subset) : (a.read s).length = s.numElements := by
  simp [AArr.read, Subset.indices_length]

theorem read_getElem?_ravel (a : AArr α) (s : Subset) (i : Idx) (h : s.contains i = true) :
    (a.read s)[ravel (zipSub i s.start) s.shape]? = some (a i) := by
  simp only [AArr.read, List.getElem?_map, s.indices_getElem?_ravel i h, Option.map_some]

theorem read_getElem?_box (a : AArr α) (s : Subset) (j : Idx) (h : inB j s.shape = true) :
    (a.read s)[ravel j s.shape]? = some (a (addIdx j s.start)) := by
  simp only [AArr.read, List.getElem?_map, s.indices_getElem?_box j h, Option.map_some]

end AArr

/-! ### one run of `updateRuns` -/

def runStep {α} (w : Nat) (ys : List α) (acc : List α) (p : Nat × Nat) : List α :=
  acc.take p.1 ++ (ys.drop (p.2 * w)).take w ++ acc.drop (p.1 + w)

theorem updateRuns_eq_foldl {α} (sh : Shape) (r : Subset) (xs ys : List α) :
    updateRuns sh r xs ys =
      ((r.contiguousLinearised sh).zipIdx).foldl (runStep (r.contiguous sh).run ys) xs := rfl

theorem runStep_zero {α} (ys acc : List α) (p : Nat × Nat) : runStep 0 ys acc p = acc := by
  simp [runStep]

theorem runStep_length {α} (w : Nat) (ys acc : List α) (p k : Nat) (hp : p + w ≤ acc.length)
    (hk : k * w + w ≤ ys.length) : (runStep w ys acc (p, k)).length = acc.length := by
  simp only [runStep, List.length_append, List.length_take, List.length_drop]
  omega

theorem runStep_getElem? {α} (w : Nat) (ys acc : List α) (p k : Nat) (hp : p + w ≤ acc.length)
    (hk : k * w + w ≤ ys.length) (q : Nat) :
    (runStep w ys acc (p, k))[q]? = if p ≤ q ∧ q < p + w then ys[k * w + (q - p)]? else acc[q]? := by
  simp only [runStep]
  have hl1 : (acc.take p).length = p := by simp; omega
  have hl2 : ((ys.drop (k * w)).take w).length = w := by simp; omega
  by_cases h1 : q < p
  · rw [if_neg (by omega), List.append_assoc, List.getElem?_append_left (by omega)]
    rw [List.getElem?_take_of_lt h1]
  · by_cases h2 : q < p + w
    · rw [if_pos (by omega), List.append_assoc, List.getElem?_append_right (by omega), hl1,
        List.getElem?_append_left (by omega), List.getElem?_take_of_lt (by omega), List.getElem?_drop]
    · rw [if_neg (by omega), List.getElem?_append_right (by simp only [List.length_append]; omega)]
      simp only [List.length_append, hl1, hl2, List.getElem?_drop]
      congr 1; omega

theorem foldl_runStep {α} (w : Nat) (ys : List α) :
    ∀ (ps : List Nat) (k₀ : Nat) (acc : List α),
      (ps.flatMap (fun p => List.range' p w)).Nodup →
      (∀ q ∈ ps.flatMap (fun p => List.range' p w), q < acc.length) →
      k₀ * w + (ps.flatMap (fun p => List.range' p w)).length ≤ ys.length →
      ((ps.zipIdx k₀).foldl (runStep w ys) acc).length = acc.length ∧
      (∀ m q, (ps.flatMap (fun p => List.range' p w))[m]? = some q →
        ((ps.zipIdx k₀).foldl (runStep w ys) acc)[q]? = ys[k₀ * w + m]?) ∧
      (∀ q, q ∉ ps.flatMap (fun p => List.range' p w) →
        ((ps.zipIdx k₀).foldl (runStep w ys) acc)[q]? = acc[q]?) := by
  intro ps
  induction ps with
  | nil =>
    intro k₀ acc _ _ _
    simp
  | cons p ps ih =>
    intro k₀ acc hnd hlt hlen
    simp only [List.flatMap_cons, List.length_append, List.length_range'] at hnd hlt hlen
    simp only [List.flatMap_cons, List.zipIdx_cons, List.foldl_cons]
    by_cases hw : w = 0
    · subst hw
      simp only [runStep_zero, List.range'_zero, List.nil_append] at hnd hlt hlen ⊢
      have := ih (k₀ + 1) acc hnd hlt (by simpa using hlen)
      simpa using this
    · have hpw : p + w ≤ acc.length := by
        have := hlt (p + (w - 1)) (by
          rw [List.mem_append]; left
          rw [List.mem_range'_1]; omega)
        omega
      have hkw : k₀ * w + w ≤ ys.length := by omega
      have hl' := runStep_length w ys acc p k₀ hpw hkw
      rw [List.nodup_append] at hnd
      obtain ⟨_, hnd2, hdisj⟩ := hnd
      obtain ⟨ih1, ih2, ih3⟩ := ih (k₀ + 1) (runStep w ys acc (p, k₀)) hnd2
        (by intro q hq; rw [hl']; exact hlt q (List.mem_append_right _ hq))
        (by rw [Nat.add_mul]; omega)
      refine ⟨by rw [ih1, hl'], ?_, ?_⟩
      · intro m q hm
        by_cases hmw : m < w
        · rw [List.getElem?_append_left (by simpa using hmw)] at hm
          rw [List.getElem?_range' (by omega)] at hm
          simp only [Nat.one_mul, Option.some.injEq] at hm
          subst hm
          have hnot : p + m ∉ ps.flatMap (fun p => List.range' p w) := by
            intro hin
            exact hdisj (p + m) (by rw [List.mem_range'_1]; omega) _ hin rfl
          rw [ih3 _ hnot, runStep_getElem? w ys acc p k₀ hpw hkw, if_pos (by omega)]
          congr 1; omega
        · rw [List.getElem?_append_right (by simpa using Nat.le_of_not_lt hmw)] at hm
          simp only [List.length_range'] at hm
          rw [ih2 _ _ hm]
          congr 1
          rw [Nat.add_mul]; omega
      · intro q hq
        rw [List.mem_append, not_or] at hq
        rw [ih3 q hq.2, runStep_getElem? w ys acc p k₀ hpw hkw, if_neg]
        intro hc
        apply hq.1
        rw [List.mem_range'_1]; omega

/-! ### `updateRuns`: the pointwise specification -/

theorem updateRuns_spec {α} (sh : Shape) (r : Subset) (xs ys : List α) (hr : r.wf = true)
    (hb : r.inboundsShape sh = true) (hx : xs.length = prod sh) (hy : ys.length = r.numElements) :
    (updateRuns sh r xs ys).length = prod sh ∧
    ∀ j, inB j sh = true → (updateRuns sh r xs ys)[ravel j sh]? =
      if r.contains j = true then ys[ravel (zipSub j r.start) r.shape]? else xs[ravel j sh]? := by
  have hL : (r.contiguousLinearised sh).flatMap (fun p => List.range' p (r.contiguous sh).run) =
      r.indices.map (fun i => ravel i sh) := by
    rw [C09.contiguous_tiles r sh hr hb, C09.linearised_eq r sh hr]
  have hinb : ∀ i, r.contains i = true → inB i sh = true := by
    intro i hi
    simp only [Subset.inboundsShape, Subset.rank, Bool.and_eq_true, beq_iff_eq] at hb
    exact inB_of_allLe_end i _ _ sh hb.1 hb.2 hi
  have hnd : (r.indices.map (fun i => ravel i sh)).Nodup := by
    have := C09.linearised_sorted r sh hr hb
    rw [C09.linearised_eq r sh hr] at this
    exact this.imp (fun h => Nat.ne_of_lt h)
  obtain ⟨h1, h2, h3⟩ := foldl_runStep (r.contiguous sh).run ys (r.contiguousLinearised sh) 0 xs
    (by rw [hL]; exact hnd)
    (by
      rw [hL]; intro q hq
      obtain ⟨i, hi, rfl⟩ := List.mem_map.mp hq
      rw [r.mem_indices hr] at hi
      rw [hx]; exact ravel_lt i sh (hinb i hi))
    (by rw [hL, List.length_map, Subset.indices_length, hy]; omega)
  rw [updateRuns_eq_foldl]
  refine ⟨by rw [h1, hx], ?_⟩
  intro j hj
  by_cases hc : r.contains j = true
  · rw [if_pos hc]
    have := h2 (ravel (zipSub j r.start) r.shape) (ravel j sh) (by
      rw [hL, List.getElem?_map, r.indices_getElem?_ravel j hc]; rfl)
    rw [this]; simp
  · rw [if_neg hc]
    apply h3
    rw [hL]
    intro hin
    obtain ⟨i, hi, he⟩ := List.mem_map.mp hin
    rw [r.mem_indices hr] at hi
    have : i = j := by
      rw [← C09.unravel_ravel i sh (hinb i hi), ← C09.unravel_ravel j sh hj, he]
    subst this
    exact hc hi

theorem updateRuns_length {α} (sh : Shape) (r : Subset) (xs ys : List α) (hr : r.wf = true)
    (hb : r.inboundsShape sh = true) (hx : xs.length = prod sh) (hy : ys.length = r.numElements) :
    (updateRuns sh r xs ys).length = prod sh :=
  (updateRuns_spec sh r xs ys hr hb hx hy).1

theorem updateRuns_scatter {α} (sh : Shape) (r : Subset) (xs ys : List α) (hr : r.wf = true)
    (hb : r.inboundsShape sh = true) (hx : xs.length = prod sh) (hy : ys.length = r.numElements) :
    (updateRuns sh r xs ys).map some = scatter sh r xs ys := by
  obtain ⟨hl, hp⟩ := updateRuns_spec sh r xs ys hr hb hx hy
  apply List.ext_getElem?
  intro q
  by_cases hq : q < prod sh
  · have hj := C09.unravel_inB q sh hq
    have hrv := C09.ravel_unravel q sh hq
    have := hp (unravel q sh) hj
    rw [hrv] at this
    simp only [scatter, List.getElem?_map, boxIndices_getElem?_lt q sh hq, Option.map_some, hrv]
    rw [← this]
    have hlt : q < (updateRuns sh r xs ys).length := by rw [hl]; exact hq
    rw [List.getElem?_eq_getElem hlt]
    rfl
  · rw [List.getElem?_eq_none (by simp [hl]; omega), List.getElem?_eq_none (by
      simp [scatter, boxIndices_length]; omega)]

/-- two lists of the same length as a box that agree at every in-box position are equal -/
theorem list_ext_box {α} (sh : Shape) (l1 l2 : List α) (h1 : l1.length = prod sh) (h2 : l2.length = prod sh)
    (h : ∀ j, inB j sh = true → l1[ravel j sh]? = l2[ravel j sh]?) : l1 = l2 := by
  apply List.ext_getElem?
  intro q
  by_cases hq : q < prod sh
  · have := h (unravel q sh) (C09.unravel_inB q sh hq)
    rwa [C09.ravel_unravel q sh hq] at this
  · rw [List.getElem?_eq_none (by omega), List.getElem?_eq_none (by omega)]

end Zarrs
