import ZarrsModel.Model.FillMeta
/- helper lemmas for C14/C13 -/
