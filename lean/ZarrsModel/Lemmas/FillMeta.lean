import ZarrsModel.Model.FillMeta
import ZarrsModel.Lemmas.NumTok
import ZarrsModel.Lemmas.Json
import ZarrsModel.Lemmas.Float
/- helper lemmas for C14/C13 -/
namespace Zarrs.FillMeta
open Zarrs.Json Zarrs.Float Zarrs.NumTok

theorem length_natLE (n v : Nat) : (natLE n v).length = n := by
  induction n generalizing v with
  | zero => rfl
  | succ n ih => simp [natLE, ih]

theorem natLE_byte (n v : Nat) : ∀ b ∈ natLE n v, b < 256 := by
  induction n generalizing v with
  | zero => simp [natLE]
  | succ n ih =>
    intro b hb
    simp only [natLE, List.mem_cons] at hb
    rcases hb with rfl | hb
    · exact Nat.mod_lt _ (by decide)
    · exact ih _ b hb

theorem leNat_natLE (n v : Nat) : leNat (natLE n v) = v % 256 ^ n := by
  induction n generalizing v with
  | zero => simp [natLE, leNat, Nat.mod_one]
  | succ n ih =>
    simp only [natLE, leNat, ih]
    rw [Nat.pow_succ, Nat.mul_comm (256 ^ n) 256, Nat.mod_mul]

theorem natLE_leNat (bs : List Nat) (h : ∀ b ∈ bs, b < 256) : natLE bs.length (leNat bs) = bs := by
  induction bs with
  | nil => rfl
  | cons b bs ih =>
    have hb := h b (by simp)
    have := ih (fun x hx => h x (by simp [hx]))
    simp only [List.length_cons, natLE, leNat]
    rw [Nat.add_mul_mod_self_left, Nat.mod_eq_of_lt hb, Nat.add_mul_div_left _ _ (by decide : 0 < 256),
      Nat.div_eq_of_lt hb, Nat.zero_add, this]

theorem leNat_lt (bs : List Nat) (h : ∀ b ∈ bs, b < 256) : leNat bs < 256 ^ bs.length := by
  induction bs with
  | nil => simp [leNat]
  | cons b bs ih =>
    have hb := h b (by simp)
    have := ih (fun x hx => h x (by simp [hx]))
    simp only [List.length_cons, leNat, Nat.pow_succ]
    omega

theorem hexVal_hexDigit : ∀ d, d < 16 → hexVal (hexDigit d).toNat = some d := by decide

theorem unhexPairs_hex (bs : List Nat) (h : ∀ b ∈ bs, b < 256) :
    unhexPairs (bs.flatMap (fun b => [(hexDigit (b / 16)).toNat, (hexDigit (b % 16)).toNat])) = some bs := by
  induction bs with
  | nil => rfl
  | cons b bs ih =>
    have hb := h b (by simp)
    have := ih (fun x hx => h x (by simp [hx]))
    simp only [List.flatMap_cons, List.cons_append, List.nil_append, unhexPairs, this,
      hexVal_hexDigit (b / 16) (by omega), hexVal_hexDigit (b % 16) (by omega)]
    congr 2; omega

theorem unhexStr_hexStr (bs : List Nat) (h : ∀ b ∈ bs, b < 256) : unhexStr (hexStr bs) = some bs := by
  simp only [hexStr, List.cons_append, List.nil_append, unhexStr]
  exact unhexPairs_hex bs h

theorem hexStr_ne (bs : List Nat) : hexStr bs ≠ sInfinity ∧ hexStr bs ≠ sNegInfinity ∧ hexStr bs ≠ sNaN := by
  refine ⟨?_, ?_, ?_⟩ <;> intro h <;>
    · have := congrArg List.head? h
      revert this
      simp only [hexStr, List.cons_append, List.head?_cons]
      decide

/-! ### non-finite floats -/

theorem fmt_facts (f : Fmt) (hf : f = f16 ∨ f = bf16 ∨ f = f32 ∨ f = f64) :
    256 ^ (f.bits / 8) = 2 ^ f.bits ∧ 2 ^ f.bits = 2 * f.signBit ∧ f.inf < f.signBit ∧ f.qnan < f.signBit
      ∧ f.inf < f.qnan := by
  rcases hf with rfl | rfl | rfl | rfl <;> decide

theorem names_ne : (sNegInfinity == sInfinity) = false ∧ (sNaN == sInfinity) = false ∧ (sNaN == sNegInfinity) = false := by
  decide

theorem bits_split (S b : Nat) (hS : 0 < S) (hb : b < 2 * S) :
    (b / S % 2 == 1) = true → b = S + b % S := by
  intro h
  have h1 : b / S < 2 := (Nat.div_lt_iff_lt_mul hS).mpr hb
  have h2 : b / S = 1 := by
    have : b / S % 2 = 1 := beq_iff_eq.mp h
    generalize b / S = q at h1 this
    omega
  have := Nat.div_add_mod b S
  rw [h2] at this; omega

theorem bits_split' (S b : Nat) (hS : 0 < S) (hb : b < 2 * S) :
    (b / S % 2 == 1) = false → b = b % S := by
  intro h
  have h1 : b / S < 2 := (Nat.div_lt_iff_lt_mul hS).mpr hb
  have h2 : b / S = 0 := by
    have : ¬ (b / S % 2 = 1) := beq_eq_false_iff_ne.mp h
    generalize b / S = q at h1 this
    omega
  have := Nat.div_add_mod b S
  rw [h2] at this; omega

theorem metaToFloat_hex (nc : NumCodec) (how : Narrow) (f : Fmt) (hf : f = f16 ∨ f = bf16 ∨ f = f32 ∨ f = f64)
    (b : Nat) (hb : b < 2 ^ f.bits) :
    metaToFloat nc how f (.str (hexStr (natLE (f.bits / 8) b).reverse)) = some b := by
  obtain ⟨h256, -, -, -, -⟩ := fmt_facts f hf
  obtain ⟨h1, h2, h3⟩ := hexStr_ne (natLE (f.bits / 8) b).reverse
  have hun := unhexStr_hexStr (natLE (f.bits / 8) b).reverse
    (fun x hx => natLE_byte _ _ x (List.mem_reverse.mp hx))
  simp only [metaToFloat, beq_iff_eq, h1, h2, h3, if_false, hun, List.length_reverse, length_natLE,
    if_true, List.reverse_reverse, leNat_natLE, h256, Nat.mod_eq_of_lt hb]

theorem float_nonfinite (nc : NumCodec) (how : Narrow) (f : Fmt)
    (hf : f = f16 ∨ f = bf16 ∨ f = f32 ∨ f = f64) (b : Nat) (hb : b < 2 ^ f.bits) (hnf : f.isFinite b = false) :
    metaToFloat nc how f (floatToMeta nc f b) = some b ∧ ∃ s, floatToMeta nc f b = .str s := by
  obtain ⟨h256, h2S, hinf, hq, hiq⟩ := fmt_facts f hf
  have hS : 0 < f.signBit := by omega
  rw [h2S] at hb
  unfold floatToMeta
  split
  · rename_i hi
    have hm : b % f.signBit = f.inf := by simpa [Fmt.isInf, Fmt.mag] using hi
    split
    · rename_i hn
      have := bits_split _ b hS hb (by simpa [Fmt.neg] using hn)
      refine ⟨?_, _, rfl⟩
      simp only [metaToFloat, names_ne.1, Bool.false_eq_true, if_false, BEq.rfl, if_true]
      rw [this, hm]
    · rename_i hn
      have := bits_split' _ b hS hb (by simpa [Fmt.neg] using hn)
      refine ⟨?_, _, rfl⟩
      simp only [metaToFloat, BEq.rfl, if_true]
      rw [this, hm]
  · split
    · rename_i hq'
      have : b = f.qnan := by simpa using hq'
      refine ⟨?_, _, rfl⟩
      simp only [metaToFloat, names_ne.2.1, names_ne.2.2, Bool.false_eq_true, if_false, BEq.rfl, if_true, this]
    · split
      · exact ⟨metaToFloat_hex nc how f hf b (by rw [h2S]; exact hb), _, rfl⟩
      · rename_i h1 _ h3
        exfalso
        simp only [Fmt.isFinite, Fmt.isInf, Fmt.isNan, decide_eq_false_iff_not, beq_iff_eq, decide_eq_true_eq] at hnf h1 h3
        omega


end Zarrs.FillMeta
