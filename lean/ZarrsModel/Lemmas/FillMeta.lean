import ZarrsModel.Model.FillMeta
import ZarrsModel.Lemmas.NumTok
import ZarrsModel.Lemmas.Json
import ZarrsModel.Lemmas.Float
/- helper lemmas for C14/C13 -/
namespace Zarrs.FillMeta
open Zarrs.Json Zarrs.Float Zarrs.NumTok

theorem length_natLE (n v : Nat) : (natLE n v).length = n := by
  induction n generalizing v with
  | zero => rfl
  | succ n ih => simp [natLE, ih]

theorem natLE_byte (n v : Nat) : ∀ b ∈ natLE n v, b < 256 := by
  induction n generalizing v with
  | zero => simp [natLE]
  | succ n ih =>
    intro b hb
    simp only [natLE, List.mem_cons] at hb
    rcases hb with rfl | hb
    · exact Nat.mod_lt _ (by decide)
    · exact ih _ b hb

theorem leNat_natLE (n v : Nat) : leNat (natLE n v) = v % 256 ^ n := by
  induction n generalizing v with
  | zero => simp [natLE, leNat, Nat.mod_one]
  | succ n ih =>
    simp only [natLE, leNat, ih]
    rw [Nat.pow_succ, Nat.mul_comm (256 ^ n) 256, Nat.mod_mul]

theorem natLE_leNat (bs : List Nat) (h : ∀ b ∈ bs, b < 256) : natLE bs.length (leNat bs) = bs := by
  induction bs with
  | nil => rfl
  | cons b bs ih =>
    have hb := h b (by simp)
    have := ih (fun x hx => h x (by simp [hx]))
    simp only [List.length_cons, natLE, leNat]
    rw [Nat.add_mul_mod_self_left, Nat.mod_eq_of_lt hb, Nat.add_mul_div_left _ _ (by decide : 0 < 256),
      Nat.div_eq_of_lt hb, Nat.zero_add, this]

theorem leNat_lt (bs : List Nat) (h : ∀ b ∈ bs, b < 256) : leNat bs < 256 ^ bs.length := by
  induction bs with
  | nil => simp [leNat]
  | cons b bs ih =>
    have hb := h b (by simp)
    have := ih (fun x hx => h x (by simp [hx]))
    simp only [List.length_cons, leNat, Nat.pow_succ]
    omega

theorem hexVal_hexDigit : ∀ d, d < 16 → hexVal (hexDigit d).toNat = some d := by decide

theorem unhexPairs_hex (bs : List Nat) (h : ∀ b ∈ bs, b < 256) :
    unhexPairs (bs.flatMap (fun b => [(hexDigit (b / 16)).toNat, (hexDigit (b % 16)).toNat])) = some bs := by
  induction bs with
  | nil => rfl
  | cons b bs ih =>
    have hb := h b (by simp)
    have := ih (fun x hx => h x (by simp [hx]))
    simp only [List.flatMap_cons, List.cons_append, List.nil_append, unhexPairs, this,
      hexVal_hexDigit (b / 16) (by omega), hexVal_hexDigit (b % 16) (by omega)]
    congr 2; omega

theorem unhexStr_hexStr (bs : List Nat) (h : ∀ b ∈ bs, b < 256) : unhexStr (hexStr bs) = some bs := by
  simp only [hexStr, List.cons_append, List.nil_append, unhexStr]
  exact unhexPairs_hex bs h

theorem hexStr_ne (bs : List Nat) : hexStr bs ≠ sInfinity ∧ hexStr bs ≠ sNegInfinity ∧ hexStr bs ≠ sNaN := by
  refine ⟨?_, ?_, ?_⟩ <;> intro h <;>
    · have := congrArg List.head? h
      revert this
      simp only [hexStr, List.cons_append, List.head?_cons]
      decide

/-! ### non-finite floats -/

theorem fmt_facts (f : Fmt) (hf : f = f16 ∨ f = bf16 ∨ f = f32 ∨ f = f64) :
    256 ^ (f.bits / 8) = 2 ^ f.bits ∧ 2 ^ f.bits = 2 * f.signBit ∧ f.inf < f.signBit ∧ f.qnan < f.signBit
      ∧ f.inf < f.qnan := by
  rcases hf with rfl | rfl | rfl | rfl <;> decide

theorem names_ne : (sNegInfinity == sInfinity) = false ∧ (sNaN == sInfinity) = false ∧ (sNaN == sNegInfinity) = false := by
  decide

theorem bits_split (S b : Nat) (hS : 0 < S) (hb : b < 2 * S) :
    (b / S % 2 == 1) = true → b = S + b % S := by
  intro h
  have h1 : b / S < 2 := (Nat.div_lt_iff_lt_mul hS).mpr hb
  have h2 : b / S = 1 := by
    have : b / S % 2 = 1 := beq_iff_eq.mp h
    generalize b / S = q at h1 this
    omega
  have := Nat.div_add_mod b S
  rw [h2] at this; omega

theorem bits_split' (S b : Nat) (hS : 0 < S) (hb : b < 2 * S) :
    (b / S % 2 == 1) = false → b = b % S := by
  intro h
  have h1 : b / S < 2 := (Nat.div_lt_iff_lt_mul hS).mpr hb
  have h2 : b / S = 0 := by
    have : ¬ (b / S % 2 = 1) := beq_eq_false_iff_ne.mp h
    generalize b / S = q at h1 this
    omega
  have := Nat.div_add_mod b S
  rw [h2] at this; omega

theorem metaToFloat_hex (nc : NumCodec) (how : Narrow) (f : Fmt) (hf : f = f16 ∨ f = bf16 ∨ f = f32 ∨ f = f64)
    (b : Nat) (hb : b < 2 ^ f.bits) :
    metaToFloat nc how f (.str (hexStr (natLE (f.bits / 8) b).reverse)) = some b := by
  obtain ⟨h256, -, -, -, -⟩ := fmt_facts f hf
  obtain ⟨h1, h2, h3⟩ := hexStr_ne (natLE (f.bits / 8) b).reverse
  have hun := unhexStr_hexStr (natLE (f.bits / 8) b).reverse
    (fun x hx => natLE_byte _ _ x (List.mem_reverse.mp hx))
  simp only [metaToFloat, beq_iff_eq, h1, h2, h3, if_false, hun, List.length_reverse, length_natLE,
    if_true, List.reverse_reverse, leNat_natLE, h256, Nat.mod_eq_of_lt hb]

theorem float_nonfinite (nc : NumCodec) (how : Narrow) (f : Fmt)
    (hf : f = f16 ∨ f = bf16 ∨ f = f32 ∨ f = f64) (b : Nat) (hb : b < 2 ^ f.bits) (hnf : f.isFinite b = false) :
    metaToFloat nc how f (floatToMeta nc f b) = some b ∧ ∃ s, floatToMeta nc f b = .str s := by
  obtain ⟨h256, h2S, hinf, hq, hiq⟩ := fmt_facts f hf
  have hS : 0 < f.signBit := by omega
  rw [h2S] at hb
  unfold floatToMeta
  split
  · rename_i hi
    have hm : b % f.signBit = f.inf := by simpa [Fmt.isInf, Fmt.mag] using hi
    split
    · rename_i hn
      have := bits_split _ b hS hb (by simpa [Fmt.neg] using hn)
      refine ⟨?_, _, rfl⟩
      simp only [metaToFloat, names_ne.1, Bool.false_eq_true, if_false, BEq.rfl, if_true]
      rw [this, hm]
    · rename_i hn
      have := bits_split' _ b hS hb (by simpa [Fmt.neg] using hn)
      refine ⟨?_, _, rfl⟩
      simp only [metaToFloat, BEq.rfl, if_true]
      rw [this, hm]
  · split
    · rename_i hq'
      have : b = f.qnan := by simpa using hq'
      refine ⟨?_, _, rfl⟩
      simp only [metaToFloat, names_ne.2.1, names_ne.2.2, Bool.false_eq_true, if_false, BEq.rfl, if_true, this]
    · split
      · exact ⟨metaToFloat_hex nc how f hf b (by rw [h2S]; exact hb), _, rfl⟩
      · rename_i h1 _ h3
        exfalso
        simp only [Fmt.isFinite, Fmt.isInf, Fmt.isNan, decide_eq_false_iff_not, beq_iff_eq, decide_eq_true_eq] at hnf h1 h3
        omega


/-! ### finite floats, well-formedness of produced metadata -/

/-- the two facts used of the number codec -/
structure NcGood (nc : NumCodec) : Prop where
  roundTrip : ∀ b, b < 2 ^ 64 → f64.isFinite b = true → nc.rd (nc.fmt b) = some b
  token : ∀ b, b < 2 ^ 64 → f64.isFinite b = true → tokOk (nc.fmt b)

theorem floatToMeta_finite (nc : NumCodec) (f : Fmt) (hf : f = f16 ∨ f = bf16 ∨ f = f32 ∨ f = f64)
    (b : Nat) (hfin : f.isFinite b = true) : floatToMeta nc f b = .num (nc.fmt (convertBits f f64 b)) := by
  obtain ⟨-, -, hinf, hq, hiq⟩ := fmt_facts f hf
  have hm : b % f.signBit < f.inf := of_decide_eq_true hfin
  have h1 : f.isInf b = false := by simp [Fmt.isInf, Fmt.mag]; omega
  have h2 : (b == f.qnan) = false := by
    simp only [beq_eq_false_iff_ne]; intro h; subst h
    rw [Nat.mod_eq_of_lt hq] at hm; omega
  have h3 : f.isNan b = false := by simp [Fmt.isNan, Fmt.mag]; omega
  simp [floatToMeta, h1, h2, h3]

theorem float_roundtrip' (nc : NumCodec) (hnc : NcGood nc) (how : Narrow) (f : Fmt)
    (hf : f = f16 ∨ f = bf16 ∨ f = f32 ∨ f = f64) (b : Nat) (hb : b < 2 ^ f.bits) :
    metaToFloat nc how f (floatToMeta nc f b) = some b := by
  cases hfin : f.isFinite b
  · exact (float_nonfinite nc how f hf b hb hfin).1
  · obtain ⟨h1, h2⟩ := widen_finite f hf b hb hfin
    rw [floatToMeta_finite nc f hf b hfin]
    simp only [metaToFloat, hnc.roundTrip _ h1 h2, Option.bind_some, narrow_widen how f hf b hb hfin, hfin, if_true]


theorem validUtf8_ascii (s : List Nat) (h : ∀ b ∈ s, b < 128) : validUtf8 s = true := by
  induction s with
  | nil => rfl
  | cons b s ih =>
    have hb : b < 128 := h b (by simp)
    have := ih (fun x hx => h x (by simp [hx]))
    unfold validUtf8; simp [hb, this]

theorem strOk_ascii (s : List Nat) (h : ∀ b ∈ s, b < 128) : strOk s :=
  ⟨fun b hb => by have := h b hb; omega, validUtf8_ascii s h⟩

theorem hexDigit_lt : ∀ d, d < 16 → (hexDigit d).toNat < 128 := by decide

theorem strOk_hexStr (bs : List Nat) (h : ∀ b ∈ bs, b < 256) : strOk (hexStr bs) := by
  apply strOk_ascii
  intro x hx
  simp only [hexStr, List.cons_append, List.nil_append, List.mem_cons, List.mem_flatMap, List.not_mem_nil,
    or_false] at hx
  rcases hx with rfl | rfl | ⟨b, hb, rfl | rfl⟩
  · decide
  · decide
  · exact hexDigit_lt _ (by have := h b hb; omega)
  · exact hexDigit_lt _ (by omega)

theorem strOk_names : strOk sInfinity ∧ strOk sNegInfinity ∧ strOk sNaN := by
  refine ⟨strOk_ascii _ ?_, strOk_ascii _ ?_, strOk_ascii _ ?_⟩ <;> decide

theorem floatToMeta_wf (nc : NumCodec) (hnc : NcGood nc) (f : Fmt) (hf : f = f16 ∨ f = bf16 ∨ f = f32 ∨ f = f64)
    (b : Nat) (hb : b < 2 ^ f.bits) : (floatToMeta nc f b).wf := by
  cases hfin : f.isFinite b
  · unfold floatToMeta
    split
    · split
      · simp only [J.wf]; exact strOk_names.2.1
      · simp only [J.wf]; exact strOk_names.1
    · split
      · simp only [J.wf]; exact strOk_names.2.2
      · split
        · simp only [J.wf]
          exact strOk_hexStr _ (fun x hx => natLE_byte _ _ x (List.mem_reverse.mp hx))
        · rename_i h1 _ h3
          exfalso
          simp only [Fmt.isFinite, Fmt.isInf, Fmt.isNan, decide_eq_false_iff_not, beq_iff_eq, decide_eq_true_eq] at hfin h1 h3
          omega
  · obtain ⟨h1, h2⟩ := widen_finite f hf b hb hfin
    rw [floatToMeta_finite nc f hf b hfin]
    simp only [J.wf]
    exact hnc.token _ h1 h2

theorem wfList_natToks (bs : List Nat) : wfList (bs.map (fun b => J.num (natTok b))) := by
  induction bs with
  | nil => simp [wfList]
  | cons b bs ih => simp only [List.map_cons, wfList, J.wf]; exact ⟨tokOk_natTok b, ih⟩


/-! ### inverses per data type -/

theorem int_inverse (nc : NumCodec) (how : Narrow) (n : Nat) (hn : n = 1 ∨ n = 2 ∨ n = 4 ∨ n = 8)
    (bs : List Nat) (hlen : bs.length = n) (hbytes : ∀ b ∈ bs, b < 256) :
    fromMeta nc how (.int n) (.num (intTok (leInt bs))) = some bs := by
  have hv := leNat_lt bs hbytes
  have hinv := natLE_leNat bs hbytes
  simp only [fromMeta, asI64_intTok]
  rw [hlen] at hv hinv
  unfold leInt
  rw [hlen]
  rcases hn with rfl | rfl | rfl | rfl
  all_goals
    generalize leNat bs = v at hv hinv ⊢
    simp only [Nat.reducePow, Nat.reduceMul, Nat.reduceSub, Int.reducePow, Int.reduceNeg] at hv ⊢
    by_cases hc : v ≥ 2 ^ (8 * bs.length - 1)
    all_goals
      rw [hlen] at hc
      simp only [Nat.reducePow, Nat.reduceMul, Nat.reduceSub] at hc
      simp only [hc, if_true, if_false]
      rw [if_pos (by omega), Option.bind_some, if_pos (by omega)]
      first
        | rw [show (((v : Int) - _) % _).toNat = v by omega, hinv]
        | rw [show ((v : Int) % _).toNat = v by omega, hinv]


theorem pow256 (n : Nat) : 256 ^ n = 2 ^ (8 * n) := by
  rw [Nat.pow_mul]

theorem uint_inverse (nc : NumCodec) (how : Narrow) (n : Nat) (hn : n = 1 ∨ n = 2 ∨ n = 4 ∨ n = 8)
    (bs : List Nat) (hlen : bs.length = n) (hbytes : ∀ b ∈ bs, b < 256) :
    fromMeta nc how (.uint n) (.num (natTok (leNat bs))) = some bs := by
  have hv := leNat_lt bs hbytes
  have hinv := natLE_leNat bs hbytes
  rw [hlen] at hv hinv
  rw [pow256] at hv
  have h64 : leNat bs < 2 ^ 64 := by
    refine Nat.lt_of_lt_of_le hv (Nat.pow_le_pow_right (by decide) ?_)
    omega
  simp only [fromMeta, asU64_natTok, h64, if_true, Option.bind_some, hv, hinv]

theorem metaToBytes_natToks (bs : List Nat) (hbytes : ∀ b ∈ bs, b < 256) :
    metaToBytes (.arr (bs.map (fun b => J.num (natTok b)))) = some bs := by
  simp only [metaToBytes]
  induction bs with
  | nil => rfl
  | cons b bs ih =>
    have hb := hbytes b (by simp)
    have hb64 : b < 2 ^ 64 := by omega
    have := ih (fun x hx => hbytes x (by simp [hx]))
    simp only [List.map_cons, List.mapM_cons, asU64_natTok, hb64, if_true, Option.bind_some, hb, this,
      Option.bind_eq_bind, Option.pure_def]


theorem leNat_lt_bits (f : Fmt) (hf : f = f16 ∨ f = bf16 ∨ f = f32 ∨ f = f64) (bs : List Nat)
    (hlen : bs.length = f.bits / 8) (hbytes : ∀ b ∈ bs, b < 256) : leNat bs < 2 ^ f.bits := by
  have := leNat_lt bs hbytes
  rw [hlen, (fmt_facts f hf).1] at this
  exact this

theorem float_inverse (nc : NumCodec) (hnc : NcGood nc) (how : Narrow) (f : Fmt)
    (hf : f = f16 ∨ f = bf16 ∨ f = f32 ∨ f = f64) (bs : List Nat)
    (hlen : bs.length = f.bits / 8) (hbytes : ∀ b ∈ bs, b < 256) :
    fromMeta nc how (.float f) (floatToMeta nc f (leNat bs)) = some bs := by
  have hinv := natLE_leNat bs hbytes
  rw [hlen] at hinv
  simp only [fromMeta, float_roundtrip' nc hnc how f hf _ (leNat_lt_bits f hf bs hlen hbytes), Option.map_some, hinv]

theorem complex_inverse (nc : NumCodec) (hnc : NcGood nc) (how : Narrow) (f : Fmt)
    (hf : f = f16 ∨ f = bf16 ∨ f = f32 ∨ f = f64) (bs : List Nat)
    (hlen : bs.length = 2 * (f.bits / 8)) (hbytes : ∀ b ∈ bs, b < 256) :
    fromMeta nc how (.complex f)
      (.arr [floatToMeta nc f (leNat (bs.take (f.bits / 8))), floatToMeta nc f (leNat (bs.drop (f.bits / 8)))])
      = some bs := by
  have ht : (bs.take (f.bits / 8)).length = f.bits / 8 := by rw [List.length_take]; omega
  have hd : (bs.drop (f.bits / 8)).length = f.bits / 8 := by rw [List.length_drop]; omega
  have hbt : ∀ b ∈ bs.take (f.bits / 8), b < 256 := fun b hb => hbytes b (List.mem_of_mem_take hb)
  have hbd : ∀ b ∈ bs.drop (f.bits / 8), b < 256 := fun b hb => hbytes b (List.mem_of_mem_drop hb)
  have h1 := natLE_leNat _ hbt
  have h2 := natLE_leNat _ hbd
  rw [ht] at h1; rw [hd] at h2
  simp only [fromMeta, float_roundtrip' nc hnc how f hf _ (leNat_lt_bits f hf _ ht hbt),
    float_roundtrip' nc hnc how f hf _ (leNat_lt_bits f hf _ hd hbd), h1, h2, List.take_append_drop]


/-! ### what accepted metadata looks like -/

theorem mapM_some {α β : Type} (g : α → Option β) (xs : List α) (bs : List β) (h : xs.mapM g = some bs) :
    (∀ x ∈ xs, (g x).isSome = true) ∧ (∀ b ∈ bs, ∃ x ∈ xs, g x = some b) := by
  induction xs generalizing bs with
  | nil =>
    simp only [List.mapM_nil, Option.pure_def, Option.some.injEq] at h
    subst h; simp
  | cons x xs ih =>
    rw [List.mapM_cons] at h
    cases hx : g x with
    | none => simp [hx] at h
    | some y =>
      cases hxs : xs.mapM g with
      | none => simp [hx, hxs] at h
      | some ys =>
        simp only [hx, hxs, Option.bind_eq_bind, Option.bind_some, Option.pure_def, Option.some.injEq] at h
        subst h
        obtain ⟨i1, i2⟩ := ih ys hxs
        refine ⟨?_, ?_⟩
        · intro z hz
          rcases List.mem_cons.mp hz with rfl | hz
          · simp [hx]
          · exact i1 z hz
        · intro b hb
          rcases List.mem_cons.mp hb with rfl | hb
          · exact ⟨x, by simp, hx⟩
          · obtain ⟨z, hz, hz'⟩ := i2 b hb
            exact ⟨z, by simp [hz], hz'⟩

theorem metaToBytes_some (j : J) (bs : List Nat) (h : metaToBytes j = some bs) :
    ∃ xs, j = .arr xs ∧ (∀ x ∈ xs, ∃ t, x = .num t) ∧ (∀ b ∈ bs, b < 256) := by
  cases j with
  | arr xs =>
    simp only [metaToBytes] at h
    obtain ⟨h1, h2⟩ := mapM_some _ xs bs h
    refine ⟨xs, rfl, ?_, ?_⟩
    · intro x hx
      have := h1 x hx
      cases x <;> simp at this
      exact ⟨_, rfl⟩
    · intro b hb
      obtain ⟨x, _, hx⟩ := h2 b hb
      cases x with
      | num t =>
        cases hu : asU64 t with
        | none => simp [hu] at hx
        | some v =>
          simp only [hu, Option.bind_some] at hx
          split at hx
          · simp at hx; omega
          · simp at hx
      | _ => simp at hx
  | _ => simp [metaToBytes] at h

theorem unhexPairs_some (ds bs : List Nat) (h : unhexPairs ds = some bs) :
    ds.length = 2 * bs.length ∧ ∀ d ∈ ds, (hexVal d).isSome = true := by
  fun_induction unhexPairs ds generalizing bs with
  | case1 => simp at h; subst h; simp
  | case2 a b rest x y r hr hy hx ih =>
    simp only [Option.some.injEq] at h
    subst h
    obtain ⟨i1, i2⟩ := ih r hr
    refine ⟨by simp [i1]; omega, ?_⟩
    intro d hd
    simp only [List.mem_cons] at hd
    rcases hd with rfl | rfl | hd
    · simp [hx]
    · simp [hy]
    · exact i2 d hd
  | case3 => simp at h
  | case4 => simp at h

theorem float_string_accept' (nc : NumCodec) (how : Narrow) (f : Fmt) (s : Str) (b : Nat)
    (hs : s ≠ sInfinity ∧ s ≠ sNegInfinity ∧ s ≠ sNaN) (h : metaToFloat nc how f (.str s) = some b) :
    ∃ ds, s = 48 :: 120 :: ds ∧ ds.length = 2 * (f.bits / 8) ∧ ∀ d ∈ ds, (hexVal d).isSome = true := by
  simp only [metaToFloat, beq_iff_eq, hs.1, hs.2.1, hs.2.2, if_false] at h
  cases hu : unhexStr s with
  | none => simp [hu] at h
  | some bs =>
    simp only [hu] at h
    split at h
    · rename_i hl
      unfold unhexStr at hu
      split at hu
      · rename_i rest
        obtain ⟨h1, h2⟩ := unhexPairs_some rest bs hu
        exact ⟨rest, rfl, by rw [h1, hl], h2⟩
      · simp at hu
    · simp at h


/-! ### the whole conversion -/
/-- the data types of C14 (same as `C14.DT.ok`) -/
def DTok : DT → Prop
  | .bool => True
  | .int n => n = 1 ∨ n = 2 ∨ n = 4 ∨ n = 8
  | .uint n => n = 1 ∨ n = 2 ∨ n = 4 ∨ n = 8
  | .float f => f = f16 ∨ f = bf16 ∨ f = f32 ∨ f = f64
  | .complex f => f = f32 ∨ f = f64
  | .raw _ => True
  | .bytes => True
  | .string => True

theorem toMeta_bool (nc : NumCodec) (bs : List Nat) (j : J) (hj : toMeta nc .bool bs = some j) :
    (bs = [0] ∧ j = .bool false) ∨ (bs = [1] ∧ j = .bool true) := by
  unfold toMeta at hj
  split at hj <;> simp_all

/-- the data types that never use the number codec -/
theorem toMeta_inverse_nonfloat (nc : NumCodec) (how : Narrow) (dt : DT) (hdt : DTok dt)
    (hnf : ∀ f, dt ≠ .float f ∧ dt ≠ .complex f)
    (bs : List Nat) (hbytes : ∀ b ∈ bs, b < 256) (j : J) (hj : toMeta nc dt bs = some j) :
    j.wf ∧ fromMeta nc how dt j = some bs := by
  cases dt with
  | bool =>
    rcases toMeta_bool nc bs j hj with ⟨rfl, rfl⟩ | ⟨rfl, rfl⟩ <;> simp [J.wf, fromMeta]
  | int n =>
    simp only [toMeta] at hj
    split at hj
    · rename_i hl
      simp only [Option.some.injEq] at hj; subst hj
      exact ⟨by simp only [J.wf]; exact tokOk_intTok _, int_inverse nc how n hdt bs (by simpa using hl) hbytes⟩
    · simp at hj
  | uint n =>
    simp only [toMeta] at hj
    split at hj
    · rename_i hl
      simp only [Option.some.injEq] at hj; subst hj
      exact ⟨by simp only [J.wf]; exact tokOk_natTok _, uint_inverse nc how n hdt bs (by simpa using hl) hbytes⟩
    · simp at hj
  | float f => exact absurd rfl (hnf f).1
  | complex f => exact absurd rfl (hnf f).2
  | raw n =>
    simp only [toMeta] at hj
    split at hj
    · rename_i hl
      simp only [Option.some.injEq] at hj; subst hj
      refine ⟨by simp only [J.wf]; exact wfList_natToks bs, ?_⟩
      simp only [fromMeta, metaToBytes_natToks bs hbytes, Option.bind_some, hl, if_true]
    · simp at hj
  | bytes =>
    simp only [toMeta, Option.some.injEq] at hj; subst hj
    exact ⟨by simp only [J.wf]; exact wfList_natToks bs, by simp only [fromMeta, metaToBytes_natToks bs hbytes]⟩
  | string =>
    simp only [toMeta] at hj
    split at hj
    · rename_i hl
      simp only [Option.some.injEq] at hj; subst hj
      exact ⟨by simp only [J.wf]; exact ⟨hbytes, hl⟩, by simp only [fromMeta]⟩
    · simp at hj

theorem toMeta_inverse (nc : NumCodec) (hnc : NcGood nc) (how : Narrow) (dt : DT) (hdt : DTok dt)
    (bs : List Nat) (hbytes : ∀ b ∈ bs, b < 256) (j : J) (hj : toMeta nc dt bs = some j) :
    j.wf ∧ fromMeta nc how dt j = some bs := by
  by_cases hnf : ∀ f, dt ≠ .float f ∧ dt ≠ .complex f
  · exact toMeta_inverse_nonfloat nc how dt hdt hnf bs hbytes j hj
  · cases dt with
    | float f =>
      simp only [toMeta] at hj
      split at hj
      · rename_i hl
        have hl' : bs.length = f.bits / 8 := by simpa using hl
        simp only [Option.some.injEq] at hj; subst hj
        exact ⟨floatToMeta_wf nc hnc f hdt _ (leNat_lt_bits f hdt bs hl' hbytes),
          float_inverse nc hnc how f hdt bs hl' hbytes⟩
      · simp at hj
    | complex f =>
      have hf : f = f16 ∨ f = bf16 ∨ f = f32 ∨ f = f64 := by
        rcases hdt with h | h <;> simp [h]
      simp only [toMeta] at hj
      split at hj
      · rename_i hl
        have hl' : bs.length = 2 * (f.bits / 8) := by simpa using hl
        simp only [Option.some.injEq] at hj; subst hj
        have ht : (bs.take (f.bits / 8)).length = f.bits / 8 := by rw [List.length_take]; omega
        have hd : (bs.drop (f.bits / 8)).length = f.bits / 8 := by rw [List.length_drop]; omega
        have hbt : ∀ b ∈ bs.take (f.bits / 8), b < 256 := fun b hb => hbytes b (List.mem_of_mem_take hb)
        have hbd : ∀ b ∈ bs.drop (f.bits / 8), b < 256 := fun b hb => hbytes b (List.mem_of_mem_drop hb)
        refine ⟨?_, complex_inverse nc hnc how f hf bs hl' hbytes⟩
        simp only [J.wf, wfList, and_true]
        exact ⟨floatToMeta_wf nc hnc f hf _ (leNat_lt_bits f hf _ ht hbt),
          floatToMeta_wf nc hnc f hf _ (leNat_lt_bits f hf _ hd hbd)⟩
      · simp at hj
    | _ => exact absurd (fun f => ⟨by simp, by simp⟩) hnf


/-! ### kinds -/

theorem metaToFloat_kind (nc : NumCodec) (how : Narrow) (f : Fmt) (j : J) (a : Nat)
    (h : metaToFloat nc how f j = some a) : (∃ t, j = .num t) ∨ (∃ s, j = .str s) := by
  cases j <;> simp [metaToFloat] at h ⊢

theorem fromMeta_complex_some (nc : NumCodec) (how : Narrow) (f : Fmt) (j : J) (bs : List Nat)
    (h : fromMeta nc how (.complex f) j = some bs) :
    ∃ re im a b, j = .arr [re, im] ∧ metaToFloat nc how f re = some a ∧ metaToFloat nc how f im = some b ∧
      bs = natLE (f.bits / 8) a ++ natLE (f.bits / 8) b := by
  unfold fromMeta at h
  split at h
  all_goals first
    | (rename_i heq; injection heq; done)
    | (rename_i heq; cases heq; done)
    | skip
  all_goals first
    | (exact absurd h (by simp); done)
    | skip
  rename_i f' re im heq
  injection heq with heq
  subst heq
  cases h1 : metaToFloat nc how f re with
  | none => simp [h1] at h
  | some a =>
    cases h2 : metaToFloat nc how f im with
    | none => simp [h1, h2] at h
    | some b =>
      simp only [h1, h2, Option.some.injEq] at h
      exact ⟨re, im, a, b, rfl, h1, h2, h.symm⟩

theorem fromMeta_complex_kind (nc : NumCodec) (how : Narrow) (f : Fmt) (j : J) (bs : List Nat)
    (h : fromMeta nc how (.complex f) j = some bs) :
    ∃ re im, j = .arr [re, im] ∧ ((∃ t, re = .num t) ∨ (∃ s, re = .str s)) ∧ ((∃ t, im = .num t) ∨ (∃ s, im = .str s)) := by
  obtain ⟨re, im, a, b, h1, h2, h3, -⟩ := fromMeta_complex_some nc how f j bs h
  exact ⟨re, im, h1, metaToFloat_kind nc how f re a h2, metaToFloat_kind nc how f im b h3⟩


/-! ### sizes and ranges -/

theorem bind_if_isSome {α β : Type} (P : Prop) [Decidable P] (x : α) (Q : α → Prop) [DecidablePred Q] (g : α → β) :
    ((if P then some x else none).bind fun i => if Q i then some (g i) else none).isSome = true ↔ P ∧ Q x := by
  by_cases hP : P <;> by_cases hQ : Q x <;> simp [hP, hQ]


theorem fromMeta_size' (nc : NumCodec) (how : Narrow) (dt : DT) (j : J) (bs : List Nat)
    (h : fromMeta nc how dt j = some bs) :
    match dt with
    | .bool => bs.length = 1
    | .int n => bs.length = n
    | .uint n => bs.length = n
    | .float f => bs.length = f.bits / 8
    | .complex f => bs.length = 2 * (f.bits / 8)
    | .raw n => bs.length = n ∧ ∀ b ∈ bs, b < 256
    | .bytes => ∀ b ∈ bs, b < 256
    | .string => True := by
  cases dt with
  | bool =>
    cases j <;> simp [fromMeta] at h
    subst h; rfl
  | int n =>
    cases j <;> simp only [fromMeta, reduceCtorEq] at h
    rename_i t
    cases ha : asI64 t with
    | none => simp [ha] at h
    | some i =>
      simp only [ha, Option.bind_some] at h
      split at h
      · simp only [Option.some.injEq] at h; subst h; exact length_natLE _ _
      · simp at h
  | uint n =>
    cases j <;> simp only [fromMeta, reduceCtorEq] at h
    rename_i t
    cases ha : asU64 t with
    | none => simp [ha] at h
    | some i =>
      simp only [ha, Option.bind_some] at h
      split at h
      · simp only [Option.some.injEq] at h; subst h; exact length_natLE _ _
      · simp at h
  | float f =>
    simp only [fromMeta] at h
    cases hm : metaToFloat nc how f j with
    | none => simp [hm] at h
    | some a =>
      simp only [hm, Option.map_some, Option.some.injEq] at h; subst h; exact length_natLE _ _
  | complex f =>
    obtain ⟨re, im, a, b, -, -, -, rfl⟩ := fromMeta_complex_some nc how f j bs h
    simp only [List.length_append, length_natLE]; omega
  | raw n =>
    simp only [fromMeta] at h
    cases hm : metaToBytes j with
    | none => simp [hm] at h
    | some bs' =>
      simp only [hm, Option.bind_some] at h
      split at h
      · rename_i hl
        simp only [Option.some.injEq] at h; subst h
        obtain ⟨xs, -, -, h3⟩ := metaToBytes_some j bs' hm
        exact ⟨by simpa using hl, h3⟩
      · simp at h
  | bytes =>
    obtain ⟨xs, -, -, h3⟩ := metaToBytes_some j bs h
    exact h3
  | string => trivial


end Zarrs.FillMeta
