import ZarrsModel.Model.DeflateSpec
set_option Elab.async false
/-
What a copy means, independent of the byte-by-byte recursion of `copyFrom`: the output grows by `len` bytes, the earlier
output is untouched, and every new byte equals the byte `dist` positions before it (RFC 1951 §3.2.3) — also when
`dist < len`, where the source runs into the bytes being written.
-/
namespace Zarrs.DeflateSpec
open Zarrs Zarrs.Inflate

theorem getD_of_take (R P : Bytes) (k m : Nat) (h : R.take k = P) (hm : m < k) : R.getD m 0 = P.getD m 0 := by
  subst h
  rw [List.getD_eq_getElem?_getD, List.getD_eq_getElem?_getD, List.getElem?_take, if_pos hm]

theorem copyFrom_spec (n d : Nat) (out : Bytes) (h1 : 1 ≤ d) (h2 : d ≤ out.length) :
    (copyFrom n d out).length = out.length + n ∧ (copyFrom n d out).take out.length = out ∧
    ∀ i, i < n → (copyFrom n d out).getD (out.length + i) 0 = (copyFrom n d out).getD (out.length + i - d) 0 := by
  induction n generalizing out with
  | zero => simp [copyFrom]
  | succ n ih =>
    simp only [copyFrom]
    generalize hx : out.getD (out.length - d) 0 = x
    obtain ⟨l1, l2, l3⟩ := ih (out ++ [x]) (by simp only [List.length_append, List.length_cons, List.length_nil]; omega)
    generalize copyFrom n d (out ++ [x]) = R at l1 l2 l3
    simp only [List.length_append, List.length_cons, List.length_nil] at l1 l2 l3
    have hpre : R.take out.length = out := by
      have := congrArg (List.take out.length) l2
      rw [List.take_take] at this
      simpa [Nat.min_eq_left (Nat.le_succ _)] using this
    refine ⟨by omega, hpre, ?_⟩
    intro i hi
    cases i with
    | zero =>
      rw [Nat.add_zero, getD_of_take R _ _ _ l2 (by omega), getD_of_take R _ _ _ hpre (by omega), hx]
      simp [List.getD_eq_getElem?_getD]
    | succ j =>
      have := l3 j (by omega)
      have e1 : out.length + (j + 1) = out.length + (0 + 1) + j := by omega
      rw [e1]
      exact this

end Zarrs.DeflateSpec
