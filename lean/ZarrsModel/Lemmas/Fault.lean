import ZarrsModel.Model.Fault
import ZarrsModel.Model.Cache
import ZarrsModel.Props.C16
/- helper lemmas for C20 -/
namespace Zarrs

end Zarrs
