import ZarrsModel.Model.Fault
import ZarrsModel.Model.Cache
import ZarrsModel.Props.C16
import ZarrsModel.Props.C06
set_option linter.unusedSectionVars false
/-
helper lemmas for C20.

Every per-chunk step of a multi-chunk write is a *single-key* store operation whose outcome (fail / erase /
set `v`) depends only on the value currently stored under the chunk's own key.  `KV.applyW` is that store
operation, the `…W` functions compute the outcome from the old value, `kvStep` is the shape shared by all such
steps, and the `foldOpt_kvStep_*` lemmas describe a fold of such steps over chunks with distinct keys.
-/
namespace Zarrs
open Subset

/-! ### one single-key store operation -/

namespace KV

/-- erase (`none`) or set (`some v`) the value of one key -/
def applyW (s : KV) (k : Key) : Option Bytes → KV
  | none => s.erase k
  | some v => s.put k v

theorem get_applyW (s : KV) (k : Key) (w : Option Bytes) (k' : Key) :
    (s.applyW k w).get k' = if k' = k then w else s.get k' := by
  cases w with
  | none => simp only [applyW, get_erase]
  | some v => simp only [applyW, get_put]

theorem applyW_sorted (s : KV) (hs : s.sorted) (k : Key) (w : Option Bytes) : (s.applyW k w).sorted := by
  cases w with
  | none => exact erase_sorted s hs k
  | some v => exact put_sorted s hs k v

end KV

theorem lexLt_irrefl' (a : Idx) : lexLt a a = false := by
  induction a with
  | nil => rfl
  | cons x xs ih => simp [lexLt, ih]

/-- the indices of a well-formed box are pairwise distinct -/
theorem Subset.indices_nodup (s : Subset) (h : s.wf = true) : s.indices.Nodup :=
  (s.indices_pairwise h).imp (fun {a b} hab e => by
    subst e
    rw [lexLt_irrefl'] at hab
    cases hab)

/-! ### `updateRuns` is idempotent -/

theorem updateRuns_idem {α} (sh : Shape) (r : Subset) (xs ys : List α) (hr : r.wf = true)
    (hb : r.inboundsShape sh = true) (hx : xs.length = prod sh) (hy : ys.length = r.numElements) :
    updateRuns sh r (updateRuns sh r xs ys) ys = updateRuns sh r xs ys := by
  obtain ⟨hl1, hp1⟩ := updateRuns_spec sh r xs ys hr hb hx hy
  obtain ⟨hl2, hp2⟩ := updateRuns_spec sh r (updateRuns sh r xs ys) ys hr hb hl1 hy
  apply list_ext_box sh _ _ hl2 hl1
  intro j hj
  rw [hp2 j hj, hp1 j hj]
  split <;> rfl

namespace ArrCfg
variable {α : Type} [DecidableEq α]
variable {cfg : ArrCfg α}

/-! ### the outcome of the array write steps as a function of the old value -/

/-- outcome of `store_chunk`: `none` = error, `some none` = erase the key, `some (some v)` = set it to `v` -/
def storeChunkW (cfg : ArrCfg α) (c : Idx) (data : List α) : Option (Option Bytes) :=
  match cfg.chunkShape c with
  | none => none
  | some s =>
    if data.length != prod s then none
    else if !cfg.storeEmpty && cfg.isFill data then some none
    else some (some (cfg.enc data))

theorem storeChunk_eq (st : KV) (c : Idx) (d : List α) :
    cfg.storeChunk st c d = (cfg.storeChunkW c d).map (st.applyW (cfg.keyOf c)) := by
  simp only [storeChunk, storeChunkW]
  cases cfg.chunkShape c with
  | none => rfl
  | some s =>
    simp only
    split
    · rfl
    · split <;> rfl

/-- `retrieve_chunk` as a function of the value stored under the chunk's key -/
def retrieveChunkV (cfg : ArrCfg α) (c : Idx) (old : Option Bytes) : Option (List α) :=
  match cfg.chunkShape c with
  | none => none
  | some s =>
    match old with
    | none => some (List.replicate (prod s) cfg.fill)
    | some b => match cfg.dec b with
      | some xs => if xs.length = prod s then some xs else none
      | none => none

theorem retrieveChunk_eqV (st : KV) (c : Idx) :
    cfg.retrieveChunk st c = cfg.retrieveChunkV c (st.get (cfg.keyOf c)) := by
  cases hs : cfg.chunkShape c with
  | none => simp [retrieveChunk, retrieveChunkV, hs]
  | some s =>
    rw [retrieveChunk_eq st c s hs]
    simp only [retrieveChunkV, hs]
    cases st.get (cfg.keyOf c) with
    | none => rfl
    | some b => rfl

theorem retrieveChunkV_length (c : Idx) (s : Shape) (hs : cfg.chunkShape c = some s) (old : Option Bytes)
    (xs : List α) (h : cfg.retrieveChunkV c old = some xs) : xs.length = prod s := by
  simp only [retrieveChunkV, hs] at h
  cases old with
  | none =>
    simp only [Option.some.injEq] at h
    subst h
    simp
  | some b =>
    simp only at h
    cases hd : cfg.dec b with
    | none => rw [hd] at h; cases h
    | some ys =>
      rw [hd] at h
      simp only at h
      split at h
      · simp only [Option.some.injEq] at h
        subst h
        assumption
      · cases h

/-- reading back what `store_chunk` left under the key gives the chunk that was stored (lossless chain; an elided
all-fill chunk reads back as fill) -/
theorem storeChunkW_readback (hL : cfg.Lossless) (c : Idx) (d : List α) (w : Option Bytes)
    (h : cfg.storeChunkW c d = some w) : cfg.retrieveChunkV c w = some d := by
  simp only [storeChunkW] at h
  cases hs : cfg.chunkShape c with
  | none => rw [hs] at h; cases h
  | some s =>
    rw [hs] at h
    simp only at h
    split at h
    · cases h
    · rename_i hlen
      simp only [bne_iff_ne, ne_eq, Decidable.not_not] at hlen
      split at h
      · rename_i hf
        simp only [Option.some.injEq] at h
        subst h
        simp only [Bool.and_eq_true] at hf
        have hall := (isFill_iff (cfg := cfg) d).1 hf.2
        simp only [retrieveChunkV, hs, Option.some.injEq]
        exact (List.eq_replicate_iff.2 ⟨hlen, hall⟩).symm
      · simp only [Option.some.injEq] at h
        subst h
        simp only [retrieveChunkV, hs, hL d, hlen, if_true]

/-- outcome of `store_chunk_subset` given the old value under the chunk's key -/
def storeChunkSubsetW (cfg : ArrCfg α) (c : Idx) (r : Subset) (data : List α) (old : Option Bytes) :
    Option (Option Bytes) :=
  match cfg.chunkShape c with
  | none => none
  | some s =>
    if !(r.rank == s.length && Subset.allLe r.endExc s) then none
    else if r.shape == s && r.start.all (· == 0) then cfg.storeChunkW c data
    else if data.length != r.numElements then none
    else match cfg.retrieveChunkV c old with
      | none => none
      | some oldxs => cfg.storeChunkW c (updateRuns s r oldxs data)

theorem storeChunkSubset_eq (st : KV) (c : Idx) (r : Subset) (d : List α) :
    cfg.storeChunkSubset st c r d =
      (cfg.storeChunkSubsetW c r d (st.get (cfg.keyOf c))).map (st.applyW (cfg.keyOf c)) := by
  simp only [storeChunkSubset, storeChunkSubsetW, retrieveChunk_eqV]
  cases cfg.chunkShape c with
  | none => rfl
  | some s =>
    simp only
    split
    · rfl
    · split
      · exact storeChunk_eq st c d
      · split
        · rfl
        · cases cfg.retrieveChunkV c (st.get (cfg.keyOf c)) with
          | none => rfl
          | some oldxs => exact storeChunk_eq st c _

/-- **the per-chunk step is idempotent on its own key**: applied to the value it produced, it produces that
value again -/
theorem storeChunkSubsetW_idem (hL : cfg.Lossless) (c : Idx) (r : Subset) (d : List α) (hrw : r.wf = true)
    (old w : Option Bytes) (h : cfg.storeChunkSubsetW c r d old = some w) :
    cfg.storeChunkSubsetW c r d w = some w := by
  simp only [storeChunkSubsetW] at h ⊢
  cases hs : cfg.chunkShape c with
  | none => rw [hs] at h; cases h
  | some s =>
    rw [hs] at h
    simp only at h ⊢
    split at h
    · cases h
    · rename_i hb
      rw [if_neg hb]
      split at h
      · rename_i hfull
        rw [if_pos hfull]
        exact h
      · rename_i hfull
        rw [if_neg hfull]
        split at h
        · cases h
        · rename_i hlen
          rw [if_neg hlen]
          simp only [bne_iff_ne, ne_eq, Decidable.not_not] at hlen
          simp only [Bool.not_eq_true', Bool.not_eq_false] at hb
          cases ho : cfg.retrieveChunkV c old with
          | none => rw [ho] at h; cases h
          | some oldxs =>
            rw [ho] at h
            simp only at h
            have hol := retrieveChunkV_length c s hs old oldxs ho
            rw [storeChunkW_readback hL c _ w h]
            simp only
            rw [updateRuns_idem s r oldxs d hrw hb hol hlen]
            exact h

/-- outcome of the per-chunk step of `store_array_subset` given the old value under the chunk's key -/
def storeArraySubsetChunkW (cfg : ArrCfg α) (region : Subset) (data : List α) (c : Idx) (old : Option Bytes) :
    Option (Option Bytes) :=
  match cfg.chunkSubset c with
  | none => none
  | some cs =>
    let ov := region.overlap cs
    cfg.storeChunkSubsetW c (ov.relativeTo cs.start) ((ov.relativeTo region.start).extract region.shape data) old

/-- outcome of the per-chunk step of `store_chunks` (it does not read the old value) -/
def storeChunksChunkW (cfg : ArrCfg α) (region : Subset) (data : List α) (c : Idx) (_old : Option Bytes) :
    Option (Option Bytes) :=
  match cfg.chunkSubset c with
  | none => none
  | some cs => cfg.storeChunkW c ((cs.relativeTo region.start).extract region.shape data)

/-- the subset of a chunk is well-formed -/
theorem chunkSubset_wf {c : Idx} {cs : Subset} (h : cfg.chunkSubset c = some cs) : cs.wf = true := by
  obtain ⟨_, ho, hs⟩ := chunkSubset_some h
  have h1 := zipOpt_length _ _ _ _ ho
  have h2 := zipOpt_length _ _ _ _ hs
  simp only [Subset.wf, beq_iff_eq]
  omega

theorem overlap_relativeTo_wf (region cs : Subset) (hw : region.wf = true) (hcs : cs.wf = true) :
    ((region.overlap cs).relativeTo cs.start).wf = true := by
  simp only [Subset.wf, beq_iff_eq] at hw hcs ⊢
  simp only [Subset.relativeTo, Subset.overlap, Subset.endExc, zipSub_length, zipMin_length, zipMax_length,
    addIdx_length]
  omega

theorem storeArraySubsetChunkW_idem (hL : cfg.Lossless) (region : Subset) (data : List α) (hw : region.wf = true)
    (c : Idx) (old w : Option Bytes) (h : cfg.storeArraySubsetChunkW region data c old = some w) :
    cfg.storeArraySubsetChunkW region data c w = some w := by
  simp only [storeArraySubsetChunkW] at h ⊢
  cases hcs : cfg.chunkSubset c with
  | none => rw [hcs] at h; cases h
  | some cs =>
    rw [hcs] at h
    simp only at h ⊢
    exact storeChunkSubsetW_idem hL c _ _ (overlap_relativeTo_wf region cs hw (chunkSubset_wf hcs)) old w h

/-! ### folds of single-key steps -/

/-- a step that performs one store operation on the key of its chunk, decided from the old value of that key -/
def kvStep (keyOf : Idx → Key) (W : Idx → Option Bytes → Option (Option Bytes)) (s : KV) (c : Idx) : Option KV :=
  (W c (s.get (keyOf c))).map (s.applyW (keyOf c))

theorem storeArraySubsetChunk_eq_kvStep (region : Subset) (data : List α) :
    cfg.storeArraySubsetChunk region data = kvStep cfg.keyOf (cfg.storeArraySubsetChunkW region data) := by
  funext st c
  simp only [storeArraySubsetChunk, storeArraySubsetChunkW, kvStep]
  cases cfg.chunkSubset c with
  | none => rfl
  | some cs => exact storeChunkSubset_eq st c _ _

theorem storeChunksChunk_eq_kvStep (region : Subset) (data : List α) :
    cfg.storeChunksChunk region data = kvStep cfg.keyOf (cfg.storeChunksChunkW region data) := by
  funext st c
  simp only [storeChunksChunk, storeChunksChunkW, kvStep]
  cases cfg.chunkSubset c with
  | none => rfl
  | some cs => exact storeChunk_eq st c _

section fold
variable (keyOf : Idx → Key) (W : Idx → Option Bytes → Option (Option Bytes))

/-- a successful fold over chunks with distinct keys: every chunk's key holds the outcome of its own step
*computed from the initial state*, all other keys are untouched, sortedness is kept -/
theorem foldOpt_kvStep_some (l : List Idx) (hnd : (l.map keyOf).Nodup) (s s' : KV)
    (h : foldOpt (kvStep keyOf W) s l = some s') :
    (∀ c ∈ l, W c (s.get (keyOf c)) = some (s'.get (keyOf c))) ∧
    (∀ k, k ∉ l.map keyOf → s'.get k = s.get k) ∧ (s.sorted → s'.sorted) := by
  induction l generalizing s with
  | nil =>
    simp only [foldOpt, Option.some.injEq] at h
    subst h
    exact ⟨fun _ hc => (nomatch hc), fun _ _ => rfl, id⟩
  | cons c rest ih =>
    simp only [List.map_cons, List.nodup_cons] at hnd
    simp only [foldOpt] at h
    cases hw : W c (s.get (keyOf c)) with
    | none => simp only [kvStep, hw, Option.map_none] at h; cases h
    | some w =>
      simp only [kvStep, hw, Option.map_some] at h
      obtain ⟨ih1, ih2, ih3⟩ := ih hnd.2 _ h
      have hc' : s'.get (keyOf c) = w := by
        rw [ih2 _ hnd.1, KV.get_applyW, if_pos rfl]
      refine ⟨?_, ?_, fun hs => ih3 (KV.applyW_sorted s hs _ w)⟩
      · intro c' hc'm
        rcases List.mem_cons.1 hc'm with rfl | hr
        · rw [hc']; exact hw
        · have hne : keyOf c' ≠ keyOf c := fun e => hnd.1 (e ▸ List.mem_map_of_mem hr)
          have := ih1 c' hr
          rwa [KV.get_applyW, if_neg hne] at this
      · intro k hk
        simp only [List.map_cons, List.mem_cons, not_or] at hk
        rw [ih2 k hk.2, KV.get_applyW, if_neg hk.1]

/-- if every chunk's step succeeds on the initial value of its key, the fold over chunks with distinct keys
succeeds -/
theorem foldOpt_kvStep_of (l : List Idx) (hnd : (l.map keyOf).Nodup) (s : KV) (V : Idx → Option Bytes)
    (h : ∀ c ∈ l, W c (s.get (keyOf c)) = some (V c)) :
    ∃ s', foldOpt (kvStep keyOf W) s l = some s' := by
  induction l generalizing s with
  | nil => exact ⟨s, rfl⟩
  | cons c rest ih =>
    simp only [List.map_cons, List.nodup_cons] at hnd
    simp only [foldOpt, kvStep, h c List.mem_cons_self, Option.map_some]
    apply ih hnd.2
    intro c' hc'
    have hne : keyOf c' ≠ keyOf c := fun e => hnd.1 (e ▸ List.mem_map_of_mem hc')
    rw [KV.get_applyW, if_neg hne]
    exact h c' (List.mem_cons_of_mem _ hc')

end fold

/-- distinct chunks have distinct keys -/
theorem keys_nodup (hK : cfg.KeysInjective) (l : List Idx) (hnd : l.Nodup) : (l.map cfg.keyOf).Nodup := by
  rw [List.Nodup, List.pairwise_map]
  exact hnd.imp (fun {a b} hab e => hab (hK a b e))

end ArrCfg
end Zarrs
