import ZarrsModel.Lemmas.ShardPEMain
/- helper lemmas for C05, part 5: the repaired `partialEncode` (index at the end: an update that appends nothing and
lowers the end of the live data rewrites the shard up to the new end of the live data) -/
-- elaborate sequentially: fewer worker threads, so the file also builds under a tight `ulimit -v`
set_option Elab.async false
namespace Zarrs.ShardPE
open Zarrs Zarrs.Codec Zarrs.Shard

/-! ### the repaired function, with its folds resolved -/

theorem partialEncodeFixed_eq (c : Cfg) (v : Option Bytes) (us : List (Nat × Option Bytes)) (idx : List (Nat × Nat))
    (h : currentIndex c v = some idx) :
    partialEncode c v us =
      (let dead := (idxDead idx us).all (fun e => !isLive e)
       let v1 := if dead then none else v
       let maxData := if dead then 0 else liveEnd idx
       let off := if c.indexAtEnd then maxData else max maxData (indexSize c)
       if (idxNew idx us off).all (fun e => !isLive e) then some none
       else if c.indexAtEnd then
         if (dataNew us).isEmpty && liveEnd (idxNew idx us off) < off then
           some (writeAt none 0 ((v1.getD []).take (liveEnd (idxNew idx us off)) ++ encodeIndex c (idxNew idx us off)))
         else some (writeAt v1 off (dataNew us ++ encodeIndex c (idxNew idx us off)))
       else some (writeAt (writeAt v1 0 (encodeIndex c (idxNew idx us off))) off (dataNew us))) := by
  unfold partialEncode
  rw [h]
  simp only
  rw [show (fun (ix : List (Nat × Nat)) (u : Nat × Option Bytes) => setEntry ix u.1 (sentinel, sentinel)) = step1 from rfl,
    fold_step1]
  cases hd : (idxDead idx us).all (fun e => !isLive e)
  all_goals
    simp only [Bool.false_eq_true, if_false, if_true]
    rw [foldl_congr_step2 _ _ _ (fun acc u => by cases hu : u.2 <;> simp [step2, hu]), fold_step2]
    simp only [List.nil_append]
    rfl

/-- outside the repair branch the repaired function is the function as found -/
theorem partialEncode_eq_pinned (c : Cfg) (v : Option Bytes) (us : List (Nat × Option Bytes)) (idx : List (Nat × Nat))
    (hcur : currentIndex c v = some idx)
    (h : c.indexAtEnd = false ∨ (idxDead idx us).all (fun e => !isLive e) = true) :
    partialEncode c v us = partialEncodePinned c v us := by
  rw [partialEncodeFixed_eq c v us idx hcur, partialEncode_eq c v us idx hcur]
  cases hc : c.indexAtEnd
  · simp only [Bool.false_eq_true, if_false]
  · rcases h with h | h
    · rw [hc] at h; cases h
    · simp only [h, if_true, Nat.not_lt_zero, decide_false, Bool.and_false, Bool.false_eq_true, if_false]

/-! ### updates that store nothing -/

theorem entriesFrom_all_none (vals : List (Option Bytes)) (h : ∀ ch ∈ vals, ch = none) (off : Nat) :
    entriesFrom off vals = List.replicate vals.length (sentinel, sentinel) := by
  induction vals with
  | nil => rfl
  | cons ch cs ih =>
    have := h ch (by simp)
    subst this
    simp only [entriesFrom, List.length_cons, List.replicate_succ]
    rw [ih (fun ch hm => h ch (by simp [hm]))]

theorem idxNew_all_none (idx : List (Nat × Nat)) (us : List (Nat × Option Bytes))
    (h : ¬ ∃ u ∈ us, Option.isSome u.2 = true) (off off' : Nat) : idxNew idx us off = idxNew idx us off' := by
  have hv : ∀ ch ∈ us.map (fun (u : Nat × Option Bytes) => u.2), ch = none := by
    intro ch hm
    obtain ⟨u, hu, rfl⟩ := List.mem_map.mp hm
    cases hu2 : u.2 with
    | none => rfl
    | some b => exact absurd ⟨u, hu, by simp [hu2]⟩ h
  unfold idxNew
  rw [entriesFrom_all_none _ hv off, entriesFrom_all_none _ hv off']

theorem dataNew_all_none (us : List (Nat × Option Bytes)) (h : ¬ ∃ u ∈ us, Option.isSome u.2 = true) :
    dataNew us = [] :=
  dataOf_all_none _ (by
    rintro ⟨ch, hm, hi⟩
    obtain ⟨u, hu, rfl⟩ := List.mem_map.mp hm
    exact h ⟨u, hu, hi⟩)

/-- the live data of the new index ends no later than the appended data -/
theorem liveEnd_idxNew_le (idx : List (Nat × Nat)) (us : List (Nat × Option Bytes)) (off : Nat)
    (hn : (us.map (·.1)).Nodup)
    (hk : ∀ (j : Nat) (e : Nat × Nat), j ∉ us.map (·.1) → idx[j]? = some e → isLive e = true → e.1 + e.2 ≤ off) :
    liveEnd (idxNew idx us off) ≤ off + (dataNew us).length := by
  rw [liveEnd_le_iff]
  intro e he hl
  obtain ⟨j, hj⟩ := List.mem_iff_getElem?.mp he
  rcases idxNew_cases idx us off hn j e hj with ⟨hjn, h⟩ | ⟨k, ch, hk', h⟩
  · have := hk j e hjn h hl; omega
  · rcases entriesFrom_mem (us.map (fun (u : Nat × Option Bytes) => u.2)) off e
      (List.mem_iff_getElem?.mpr ⟨k, h⟩) with rfl | h'
    · simp [isLive] at hl
    · exact h'.2

/-! ### the shape of the value written by the repair branch -/

theorem frame_end_trim (c : Cfg) (P : Nat × Nat → Prop) (v ib : Bytes) (L : Nat) (hc : c.indexAtEnd = true)
    (hib : ib.length = indexSize c) (hL : L ≤ v.length) (hP : ∀ e, P e → e.1 + e.2 ≤ L) :
    Frame c P v L [] ib (specSetPartial [] 0 (v.take L ++ ib)) := by
  rw [specSetPartial_nil]
  have hto : (v.take L).length = L := by rw [List.length_take]; omega
  have hl : (v.take L ++ ib).length = L + indexSize c := by rw [List.length_append, hto, hib]
  refine ⟨⟨v.take L, ib, by simp, hto⟩, ?_, ?_, ?_, fun _ => by rw [hl]; simp⟩
  · unfold indexBytes
    rw [if_neg (by omega), if_pos hc, drop_app _ _ _ (by rw [hl, hto]; omega)]
  · intro e he
    have h1 := hP e he
    refine ⟨h1, ?_, ?_⟩
    · rw [slice_app_left _ _ _ _ (by omega), slice_take _ _ _ _ h1]
    · left
      simp only [indexRegion, hc, if_true, hl]
      omega
  · intro o l _ h
    left
    simp only [indexRegion, hc, if_true, hl]
    simp only [List.length_nil, Nat.add_zero] at h
    omega

/-! ### the main statements for the repaired function -/

theorem absent_dead (c : Cfg) (us : List (Nat × Option Bytes)) :
    (idxDead (List.replicate c.nChunks ((sentinel, sentinel) : Nat × Nat)) us).all (fun e => !isLive e) = true := by
  rw [List.all_eq_true]
  intro e he
  obtain ⟨j, hj⟩ := List.mem_iff_getElem?.mp he
  by_cases hjm : j ∈ us.map (·.1)
  · rw [idxDead_touched _ us j hjm e hj]; simp [isLive]
  · rw [idxDead_untouched _ us j hjm, List.getElem?_replicate] at hj
    split at hj
    · cases hj; simp [isLive]
    · cases hj

/-- from an absent value: the repair branch is never taken -/
theorem partialEncode_fixed_absent (c : Cfg) (us : List (Nat × Option Bytes))
    (hu : (∀ u ∈ us, u.1 < c.nChunks) ∧ (us.map (·.1)).Nodup)
    (hsmall : ((us.filterMap (·.2)).map List.length).sum + indexSize c < sentinel) :
    Outcome c (List.replicate c.nChunks none) us True (partialEncode c none us) := by
  rw [partialEncode_eq_pinned c none us _ rfl (Or.inr (absent_dead c us))]
  exact partialEncode_absent c us hu hsmall

/-- from an existing well-formed tight value: the new value is always tight again -/
theorem partialEncode_fixed_wellformed (c : Cfg) (v : Bytes) (chunks : List (Option Bytes))
    (hdec : decode c true v = .ok chunks) (hwf : wellFormed c v = true) (ht : tight c v = true)
    (us : List (Nat × Option Bytes))
    (hu : (∀ u ∈ us, u.1 < c.nChunks) ∧ (us.map (·.1)).Nodup)
    (hsmall : v.length + ((us.filterMap (·.2)).map List.length).sum + indexSize c < sentinel) :
    Outcome c chunks us True (partialEncode c (some v) us) := by
  obtain ⟨idx, hcur, hlen, hold, hb, hWF, hiv⟩ := old_facts c v chunks hdec hwf (by omega)
  have hdl := dataNew_length us
  have hr : ∀ u ∈ us, u.1 < idx.length := fun u h => by rw [hlen]; exact hu.1 u h
  cases hd : (idxDead idx us).all (fun e => !isLive e)
  · cases hc : c.indexAtEnd
    · -- index at the start: the function as found, whose condition for tightness is vacuous
      rw [partialEncode_eq_pinned c (some v) us idx hcur (Or.inl hc)]
      exact (partialEncode_wellformed c v chunks hdec hwf ht us hu hsmall).mono
        (fun _ h => by rw [hc] at h; cases h)
    · -- index at the end, something of the old value survives
      have hle : liveEnd idx ≤ v.length := (liveEnd_le_iff idx _).mpr (fun e he hl => (hWF.1 e he hl).1)
      have hkept : ∀ e, Kept idx us e → e ∈ idx ∧ isLive e = true := fun e ⟨hl, j, hj, _⟩ =>
        ⟨List.mem_iff_getElem?.mpr ⟨j, hj⟩, hl⟩
      have hvl : v.length = liveEnd idx + indexSize c := by
        unfold tight at ht
        rw [hcur] at ht
        simpa [hc] using ht
      have hk : ∀ (j : Nat) (e : Nat × Nat), j ∉ us.map (·.1) → idx[j]? = some e → isLive e = true →
          e.1 + e.2 ≤ liveEnd idx := fun j e _ he hl => le_liveEnd idx e (List.mem_iff_getElem?.mpr ⟨j, he⟩) hl
      rw [partialEncodeFixed_eq c (some v) us idx hcur]
      simp only [hd, hc, Bool.false_eq_true, if_false, if_true]
      by_cases hall : (idxNew idx us (liveEnd idx)).all (fun e => !isLive e) = true
      · simp only [hall, if_true]
        exact ⟨all_dead_updates idx us _ hu.2 hr (by omega) hall,
          all_dead_chunks idx v chunks us _ hold hu.2 hr (by omega) hall⟩
      · simp only [hall, if_false, Bool.false_eq_true]
        have hub := liveEnd_idxNew_le idx us (liveEnd idx) hu.2 hk
        by_cases hrep : ((dataNew us).isEmpty && decide (liveEnd (idxNew idx us (liveEnd idx)) < liveEnd idx)) = true
        · -- the repair branch: nothing is stored and the end of the live data moves down
          simp only [hrep, if_true]
          rw [Bool.and_eq_true, decide_eq_true_eq, List.isEmpty_iff] at hrep
          obtain ⟨hd0, hlt⟩ := hrep
          have hnone : ¬ ∃ u ∈ us, Option.isSome u.2 = true := by
            intro hsome
            have := liveEnd_idxNew idx us (liveEnd idx) hu.2 hr (by omega) hk (Or.inl hsome)
            omega
          have hoff := idxNew_all_none idx us hnone (liveEnd idx) (liveEnd (idxNew idx us (liveEnd idx)))
          generalize hL : liveEnd (idxNew idx us (liveEnd idx)) = L at hoff hlt ⊢
          have hf : Frame c (Kept idx us) v L (dataNew us) (encodeIndex c (idxNew idx us L))
              (specSetPartial [] 0 (v.take L ++ encodeIndex c (idxNew idx us L))) := by
            rw [hd0]
            refine frame_end_trim c _ v _ L hc (encodeIndex_idxNew_length c idx us _ hlen) (by omega) ?_
            rintro e ⟨hl, j, hj, hjn⟩
            rw [← hL]
            exact le_liveEnd _ e (List.mem_iff_getElem?.mpr ⟨j, by rw [idxNew_untouched idx us _ j hjn]; exact hj⟩) hl
          obtain ⟨r1, r2, r3⟩ := frame_result c idx v chunks us L _ hlen hold hb hWF.2 hu (by omega) hf
          rw [hoff]
          refine ⟨r2, r3, fun _ => tight_of c _ _ r1 (fun _ => ?_)⟩
          show (specSetPartial [] 0 (v.take L ++ encodeIndex c (idxNew idx us L))).length = _
          rw [hf.endLen hc, hd0, ← hoff, hL]
          rfl
        · -- the branch of the function as found; the index follows the live data
          simp only [hrep, if_false, Bool.false_eq_true]
          have hf := frame_end_alive c (Kept idx us) v (dataNew us) (encodeIndex c (idxNew idx us (liveEnd idx)))
            (liveEnd idx) hc (encodeIndex_idxNew_length c idx us _ hlen) hvl
            (fun e he => le_liveEnd idx e (hkept e he).1 (hkept e he).2)
          obtain ⟨r1, r2, r3⟩ := frame_result c idx v chunks us (liveEnd idx) _ hlen hold hb hWF.2 hu (by omega) hf
          refine ⟨r2, r3, fun _ => tight_of c _ _ r1 (fun _ => ?_)⟩
          show (specSetPartial v (liveEnd idx) _).length = _
          rw [hf.endLen hc]
          congr 1
          by_cases hsome : ∃ u ∈ us, Option.isSome u.2 = true
          · exact (liveEnd_idxNew idx us (liveEnd idx) hu.2 hr (by omega) hk (Or.inl hsome)).symm
          · have hd0 := dataNew_all_none us hsome
            rw [hd0] at hrep hub ⊢
            simp only [List.isEmpty_nil, Bool.true_and, decide_eq_true_eq] at hrep
            simp only [List.length_nil, Nat.add_zero] at hub ⊢
            omega
  · rw [partialEncode_eq_pinned c (some v) us idx hcur (Or.inr hd)]
    exact (partialEncode_dead c (some v) idx v chunks us hcur hlen hold hb hWF.2 hu (by omega) hd).mono
      (fun _ => trivial)

/-! ### histories -/

/-- a step lengthens the value by at most the stored data plus one index -/
theorem partialEncode_fixed_length (c : Cfg) (vo : Option Bytes) (us : List (Nat × Option Bytes))
    (idx : List (Nat × Nat)) (hcur : currentIndex c vo = some idx) (hlen : idx.length = c.nChunks)
    (hle : liveEnd idx ≤ (vo.getD []).length) (v' : Bytes) (h : partialEncode c vo us = some (some v')) :
    v'.length ≤ (vo.getD []).length + (dataNew us).length + indexSize c := by
  have hib := fun off => encodeIndex_idxNew_length c idx us off hlen
  have hw : ∀ (w : Option Bytes) (off : Nat) (b : Bytes) (x : Bytes), writeAt w off b = some x →
      x.length = max (w.getD []).length (off + b.length) := by
    intro w off b x hx
    unfold writeAt at hx
    cases hx
    exact (C08.setPartial_zero_extends _ _ _).1
  rw [partialEncodeFixed_eq c vo us idx hcur] at h
  cases hc : c.indexAtEnd <;> cases hd : (idxDead idx us).all (fun e => !isLive e) <;>
    simp only [hc, hd, Bool.false_eq_true, if_false, if_true] at h <;>
    split at h <;> try (injection h with h; cases h; done)
  · have h0 := Option.some.inj h
    obtain ⟨x, hx⟩ : ∃ x, writeAt vo 0 (encodeIndex c (idxNew idx us (max (liveEnd idx) (indexSize c)))) = some x :=
      ⟨_, rfl⟩
    rw [hx] at h0
    have l1 := hw _ _ _ _ hx
    have l2 := hw _ _ _ _ h0
    rw [hib] at l1
    simp only [Option.getD_some] at l2
    omega
  · have h0 := Option.some.inj h
    obtain ⟨x, hx⟩ : ∃ x, writeAt none 0 (encodeIndex c (idxNew idx us (max 0 (indexSize c)))) = some x := ⟨_, rfl⟩
    rw [hx] at h0
    have l1 := hw _ _ _ _ hx
    have l2 := hw _ _ _ _ h0
    rw [hib] at l1
    simp only [Option.getD_some, Option.getD_none, List.length_nil] at l1 l2
    omega
  · split at h
    · have l := hw _ _ _ _ (Option.some.inj h)
      rw [List.length_append, hib, List.length_take] at l
      simp only [Option.getD_none, List.length_nil] at l
      omega
    · have l := hw _ _ _ _ (Option.some.inj h)
      rw [List.length_append, hib] at l
      omega
  · split at h
    · have l := hw _ _ _ _ (Option.some.inj h)
      rw [List.length_append, hib, List.length_take] at l
      simp only [Option.getD_none, List.length_nil] at l
      omega
    · have l := hw _ _ _ _ (Option.some.inj h)
      rw [List.length_append, hib] at l
      simp only [Option.getD_none, List.length_nil] at l
      omega

/-- the invariant of a history: absent with every inner chunk fill, or a well-formed tight shard of the chunks -/
def St (c : Cfg) (vo : Option Bytes) (chunks : List (Option Bytes)) : Prop :=
  match vo with
  | none => chunks = List.replicate c.nChunks none
  | some v => decode c true v = .ok chunks ∧ wellFormed c v = true ∧ tight c v = true

/-- run a history of partial encodes (the same function as `C05.runUpdates`) -/
def runHist (c : Cfg) (v : Option Bytes) : List (List (Nat × Option Bytes)) → Option (Option Bytes)
  | [] => some v
  | u :: rest => (partialEncode c v u).bind (fun v' => runHist c v' rest)

/-- the bytes a history can add -/
def histCost (c : Cfg) (hist : List (List (Nat × Option Bytes))) : Nat :=
  (hist.map (fun u => ((u.filterMap (·.2)).map List.length).sum + indexSize c)).sum

theorem all_none_eq_replicate (n : Nat) (l : List (Option Bytes)) (hl : l.length = n) (h : ∀ ch ∈ l, ch = none) :
    l = List.replicate n none := List.eq_replicate_iff.mpr ⟨hl, h⟩

theorem liveEnd_replicate_sentinel (n : Nat) : liveEnd (List.replicate n ((sentinel, sentinel) : Nat × Nat)) = 0 := by
  have : liveEnd (List.replicate n ((sentinel, sentinel) : Nat × Nat)) ≤ 0 := by
    rw [liveEnd_le_iff]
    intro e he hl
    rw [List.eq_of_mem_replicate he] at hl
    simp [isLive] at hl
  omega

/-- one step of a history preserves the invariant -/
theorem step_inv (c : Cfg) (vo : Option Bytes) (chunks : List (Option Bytes)) (us : List (Nat × Option Bytes))
    (hst : St c vo chunks) (hu : (∀ u ∈ us, u.1 < c.nChunks) ∧ (us.map (·.1)).Nodup)
    (hsmall : (vo.getD []).length + ((us.filterMap (·.2)).map List.length).sum + indexSize c < sentinel) :
    ∃ vo', partialEncode c vo us = some vo' ∧ St c vo' (applyUpdates chunks us) ∧
      (vo'.getD []).length ≤ (vo.getD []).length + ((us.filterMap (·.2)).map List.length).sum + indexSize c := by
  rw [← dataNew_length] at hsmall ⊢
  cases vo with
  | none =>
    have hc : chunks = List.replicate c.nChunks none := hst
    subst hc
    have h := partialEncode_fixed_absent c us hu (by rw [← dataNew_length]; simpa using hsmall)
    cases hr : partialEncode c none us with
    | none => rw [hr] at h; exact h.elim
    | some r =>
      rw [hr] at h
      cases r with
      | none =>
        refine ⟨none, rfl, ?_, Nat.zero_le _⟩
        exact all_none_eq_replicate _ _ (by rw [applyUpdates_length]; simp) h.2
      | some v' =>
        refine ⟨some v', rfl, ⟨h.1, h.2.1, h.2.2 trivial⟩, ?_⟩
        exact partialEncode_fixed_length c none us _ rfl (by simp)
          (by rw [liveEnd_replicate_sentinel]; exact Nat.zero_le _) v' hr
  | some v =>
    obtain ⟨hdec, hwf, ht⟩ : decode c true v = .ok chunks ∧ wellFormed c v = true ∧ tight c v = true := hst
    simp only [Option.getD_some] at hsmall ⊢
    obtain ⟨idx, hcur, hlen, hold, _, hWF, _⟩ := old_facts c v chunks hdec hwf (by omega)
    have hcl : chunks.length = c.nChunks := by rw [← ((mapM_ok_iff _ _ _).mp hold).1, hlen]
    have h := partialEncode_fixed_wellformed c v chunks hdec hwf ht us hu (by rw [← dataNew_length]; exact hsmall)
    cases hr : partialEncode c (some v) us with
    | none => rw [hr] at h; exact h.elim
    | some r =>
      rw [hr] at h
      cases r with
      | none =>
        refine ⟨none, rfl, ?_, Nat.zero_le _⟩
        exact all_none_eq_replicate _ _ (by rw [applyUpdates_length, hcl]) h.2
      | some v' =>
        refine ⟨some v', rfl, ⟨h.1, h.2.1, h.2.2 trivial⟩, ?_⟩
        exact partialEncode_fixed_length c (some v) us idx hcur hlen
          ((liveEnd_le_iff idx _).mpr (fun e he hl => (hWF.1 e he hl).1)) v' hr

/-- every history preserves the invariant -/
theorem history_inv (c : Cfg) (hist : List (List (Nat × Option Bytes))) :
    ∀ (vo : Option Bytes) (chunks : List (Option Bytes)), St c vo chunks →
      (∀ us ∈ hist, (∀ u ∈ us, u.1 < c.nChunks) ∧ (us.map (·.1)).Nodup) →
      (vo.getD []).length + histCost c hist + indexSize c < sentinel →
      ∃ vo', runHist c vo hist = some vo' ∧ St c vo' (hist.foldl applyUpdates chunks) := by
  induction hist with
  | nil => intro vo chunks hst _ _; exact ⟨vo, rfl, hst⟩
  | cons us rest ih =>
    intro vo chunks hst hu hsmall
    simp only [histCost, List.map_cons, List.sum_cons] at hsmall
    obtain ⟨vo1, h1, hst1, hl1⟩ := step_inv c vo chunks us hst (hu us (by simp)) (by omega)
    obtain ⟨vo2, h2, hst2⟩ := ih vo1 (applyUpdates chunks us) hst1 (fun x hx => hu x (by simp [hx]))
      (by unfold histCost; omega)
    exact ⟨vo2, by simp only [runHist, h1, Option.bind_some, h2], by simpa using hst2⟩

end Zarrs.ShardPE
