import ZarrsModel.Model.Meta
import ZarrsModel.Model.Hier
/- helper lemmas for C13 -/
