import ZarrsModel.Model.Hier
import ZarrsModel.Lemmas.Store
/- helper lemmas for C13: hierarchy discovery -/
namespace Zarrs.Hier
open Zarrs

/-! ### reading metadata -/

def metaKeys : List Key := [kZarrJson, kZarray, kZgroup]

theorem getMeta_node_key (r : Reader) (m : KV) (pre : Key) (k : Kind) (h : getMeta r m pre = .node k) :
    ∃ s ∈ metaKeys, pre ++ s ∈ m.keys := by
  unfold getMeta at h
  cases h1 : m.get (pre ++ kZarrJson) with
  | some v => exact ⟨kZarrJson, by simp [metaKeys], (KV.mem_keys_iff_get m _).2 (by rw [h1]; simp)⟩
  | none =>
    cases h2 : m.get (pre ++ kZarray) with
    | some v => exact ⟨kZarray, by simp [metaKeys], (KV.mem_keys_iff_get m _).2 (by rw [h2]; simp)⟩
    | none =>
      cases h3 : m.get (pre ++ kZgroup) with
      | some v => exact ⟨kZgroup, by simp [metaKeys], (KV.mem_keys_iff_get m _).2 (by rw [h3]; simp)⟩
      | none => simp [h1, h2, h3] at h

theorem getMeta_congr (r : Reader) (m m' : KV) (pre pre' : Key)
    (h : ∀ s ∈ [kZarrJson, kZattrs, kZarray, kZgroup], m.get (pre ++ s) = m'.get (pre' ++ s)) :
    getMeta r m pre = getMeta r m' pre' := by
  unfold getMeta
  rw [h kZarrJson (by simp), h kZattrs (by simp), h kZarray (by simp), h kZgroup (by simp)]

theorem getMeta_missing_of_none (r : Reader) (m : KV) (pre : Key)
    (h : ∀ s ∈ [kZarrJson, kZarray, kZgroup], m.get (pre ++ s) = none) : getMeta r m pre = .missing := by
  unfold getMeta
  rw [h kZarrJson (by simp), h kZarray (by simp), h kZgroup (by simp)]

def attrsOk (r : Reader) (m : KV) (pre : Key) : Bool :=
  match m.get (pre ++ kZattrs) with | some a => r.okAttrs a | none => true

theorem getMeta_eq (r : Reader) (m : KV) (pre : Key) : getMeta r m pre =
    match m.get (pre ++ kZarrJson) with
    | some v => (match r.cls v with
      | some true => .node .group3
      | some false => .node .array3
      | none => .invalid)
    | none =>
      match m.get (pre ++ kZarray) with
      | some v => if r.okA v && attrsOk r m pre then .node .array2 else .invalid
      | none => match m.get (pre ++ kZgroup) with
        | some v => if r.okG v && attrsOk r m pre then .node .group2 else .invalid
        | none => .missing := by
  unfold getMeta attrsOk; rfl

theorem nodeExists_iff_node (r : Reader) (m : KV) (pre : Key) (hr : getMeta r m pre ≠ .invalid) :
    nodeExists m pre = true ↔ ∃ k, getMeta r m pre = .node k := by
  unfold nodeExists
  rw [getMeta_eq] at hr ⊢
  generalize attrsOk r m pre = ao at hr ⊢
  cases h1 : m.get (pre ++ kZarrJson) with
  | some v =>
    simp only [h1] at hr ⊢
    cases hc : r.cls v with
    | none => simp [hc] at hr
    | some b => cases b <;> simp
  | none =>
    simp only [h1] at hr ⊢
    cases h2 : m.get (pre ++ kZarray) with
    | some v =>
      simp only [h2] at hr ⊢
      by_cases hb : (r.okA v && ao) = true
      · simp [hb]
      · simp [hb] at hr
    | none =>
      simp only [h2] at hr ⊢
      cases h3 : m.get (pre ++ kZgroup) with
      | some v =>
        simp only [h3] at hr ⊢
        by_cases hb : (r.okG v && ao) = true
        · simp [hb]
        · simp [hb] at hr
      | none => simp

/-! ### prefixes -/

theorem prefix_of_append_noSlash (p q s : Key) (hp : p.getLast? = some '/') (hs : '/' ∉ s) (h : p <+: q ++ s) :
    p <+: q := by
  by_cases hl : p.length ≤ q.length
  · exact List.prefix_of_prefix_length_le h (List.prefix_append q s) hl
  · have hq : q <+: p := List.prefix_of_prefix_length_le (List.prefix_append q s) h (by omega)
    obtain ⟨t, rfl⟩ := hq
    have ht : t <+: s := (List.prefix_append_right_inj q).1 h
    exfalso
    apply hs
    have htne : t ≠ [] := by intro e; subst e; simp at hl
    have : t.getLast? = some '/' := by
      rw [List.getLast?_append] at hp
      cases hgl : t.getLast? with
      | none => rw [List.getLast?_eq_none_iff] at hgl; exact absurd hgl htne
      | some c => rw [hgl] at hp; simpa using hp
    exact ht.subset (List.mem_of_getLast? this)

theorem slash_notin_metaKeys : ∀ s ∈ [kZarrJson, kZattrs, kZarray, kZgroup], '/' ∉ s := by decide

theorem getMeta_erasePrefix_other (r : Reader) (m : KV) (p q : Key) (hp : p.getLast? = some '/')
    (hq : ¬ (p.isPrefixOf q = true)) : getMeta r (Spec.step m (.erasePrefix p)).1 q = getMeta r m q := by
  apply getMeta_congr
  intro s hs
  rw [Spec.erasePrefix_get]
  have : hasPrefix (q ++ s) p = false := by
    rw [Bool.eq_false_iff]
    intro hc
    unfold hasPrefix at hc
    rw [List.isPrefixOf_iff_prefix] at hc hq
    exact hq (prefix_of_append_noSlash p q s hp (slash_notin_metaKeys s hs) hc)
  rw [this]; rfl

theorem getMeta_erasePrefix_under (r : Reader) (m : KV) (p q : Key) (hq : p.isPrefixOf q = true) :
    getMeta r (Spec.step m (.erasePrefix p)).1 q = .missing := by
  apply getMeta_missing_of_none
  intro s _
  rw [Spec.erasePrefix_get]
  have : hasPrefix (q ++ s) p = true := by
    unfold hasPrefix
    rw [List.isPrefixOf_iff_prefix] at hq ⊢
    exact hq.trans (List.prefix_append q s)
  rw [this]; rfl

/-! ### the listing recursion -/

/-- what is listed beneath a found node -/
def subNodes (r : Reader) (m : KV) (recursive : Bool) (fuel : Nat) (q : Key) (k : Kind) : Option (List Tree) :=
  if recursive && k.isGroup then childNodes r m true fuel q else some []

theorem childList_nil (r : Reader) (m : KV) (rec : Bool) (fuel : Nat) : childList r m rec fuel [] = some [] := by
  rw [childList]

theorem childList_cons_invalid (r : Reader) (m : KV) (rec : Bool) (fuel : Nat) (q : Key) (rest : List Key)
    (h : getMeta r m q = .invalid) : childList r m rec fuel (q :: rest) = none := by
  cases fuel <;> simp [childList, h]

theorem childList_cons_missing (r : Reader) (m : KV) (rec : Bool) (fuel : Nat) (q : Key) (rest : List Key)
    (h : getMeta r m q = .missing) : childList r m rec fuel (q :: rest) = childList r m rec fuel rest := by
  cases fuel <;> simp [childList, h]

theorem childList_cons_node (r : Reader) (m : KV) (rec : Bool) (fuel : Nat) (q : Key) (rest : List Key) (k : Kind)
    (h : getMeta r m q = .node k) : childList r m rec fuel (q :: rest) =
      (subNodes r m rec fuel q k).bind (fun cs => (childList r m rec fuel rest).map (fun ts => Tree.mk q k cs :: ts)) := by
  cases fuel with
  | zero =>
    simp only [childList, h, subNodes, childNodes]
    cases childList r m rec 0 rest <;> simp
  | succ f =>
    by_cases hg : (rec && k.isGroup) = true
    · simp only [childList, h, subNodes, hg, if_true]
      cases childNodes r m true (f + 1) q <;> cases childList r m rec (f + 1) rest <;> simp
    · simp only [childList, h, subNodes, hg]
      cases childList r m rec (f + 1) rest <;> simp

theorem flattenList_nil : flattenList [] = [] := by rw [flattenList]
theorem flattenList_cons (q : Key) (k : Kind) (cs ts : List Tree) :
    flattenList (Tree.mk q k cs :: ts) = (q, k) :: (flattenList cs ++ flattenList ts) := by
  rw [flattenList, Tree.flatten]; rfl

/-- the list recursion, given what the sub-listings are -/
theorem childList_spec (r : Reader) (m : KV) (rec : Bool) (fuel : Nat) (S : Key → Key × Kind → Prop) (qs : List Key)
    (hr : ∀ q ∈ qs, getMeta r m q ≠ .invalid)
    (hsub : ∀ q ∈ qs, ∀ k, getMeta r m q = .node k →
      ∃ cs, subNodes r m rec fuel q k = some cs ∧ ∀ x, x ∈ flattenList cs ↔ S q x) :
    ∃ ts, childList r m rec fuel qs = some ts ∧
      ∀ x, x ∈ flattenList ts ↔ ∃ q ∈ qs, ∃ k, getMeta r m q = .node k ∧ (x = (q, k) ∨ S q x) := by
  induction qs with
  | nil => exact ⟨[], childList_nil .., by simp [flattenList_nil]⟩
  | cons q rest ih =>
    obtain ⟨ts, hts, hmem⟩ := ih (fun q' hq' => hr q' (List.mem_cons_of_mem _ hq'))
      (fun q' hq' => hsub q' (List.mem_cons_of_mem _ hq'))
    cases hq : getMeta r m q with
    | invalid => exact absurd hq (hr q (List.mem_cons_self ..))
    | missing =>
      refine ⟨ts, by rw [childList_cons_missing _ _ _ _ _ _ hq, hts], ?_⟩
      intro x
      rw [hmem]
      constructor
      · rintro ⟨q', hq', k, hk, hx⟩; exact ⟨q', List.mem_cons_of_mem _ hq', k, hk, hx⟩
      · rintro ⟨q', hq', k, hk, hx⟩
        rcases List.mem_cons.1 hq' with rfl | hq'
        · rw [hq] at hk; cases hk
        · exact ⟨q', hq', k, hk, hx⟩
    | node k =>
      obtain ⟨cs, hcs, hcmem⟩ := hsub q (List.mem_cons_self ..) k hq
      refine ⟨Tree.mk q k cs :: ts, by rw [childList_cons_node _ _ _ _ _ _ _ hq, hcs, hts]; rfl, ?_⟩
      intro x
      rw [flattenList_cons, List.mem_cons, List.mem_append, hmem, hcmem]
      constructor
      · rintro (rfl | h | ⟨q', hq', k', hk', hx⟩)
        · exact ⟨q, List.mem_cons_self .., k, hq, Or.inl rfl⟩
        · exact ⟨q, List.mem_cons_self .., k, hq, Or.inr h⟩
        · exact ⟨q', List.mem_cons_of_mem _ hq', k', hk', hx⟩
      · rintro ⟨q', hq', k', hk', hx⟩
        rcases List.mem_cons.1 hq' with rfl | hq'
        · rw [hq] at hk'; cases hk'
          rcases hx with hx | hx
          · exact Or.inl hx
          · exact Or.inr (Or.inl hx)
        · exact Or.inr (Or.inr ⟨q', hq', k', hk', hx⟩)

/-! ### child prefixes -/

/-- `q` is `pre` plus one path component -/
def oneBelow (pre q : Key) : Prop := ∃ c : Key, c ≠ [] ∧ '/' ∉ c ∧ q = pre ++ c ++ ['/']

theorem isChildPrefix_iff (pre q : Key) : isChildPrefix pre q = true ↔ oneBelow pre q := by
  unfold isChildPrefix oneBelow
  simp only [Bool.and_eq_true, decide_eq_true_eq, beq_iff_eq, Bool.not_eq_true', List.isPrefixOf_iff_prefix]
  constructor
  · rintro ⟨⟨s, rfl⟩, ⟨h1, h2⟩, h3⟩
    rw [List.drop_left] at h1 h2 h3
    obtain ⟨c, rfl⟩ := List.getLast?_eq_some_iff.1 h2
    rw [List.dropLast_concat] at h3
    refine ⟨c, ?_, ?_, by simp⟩
    · intro e; subst e; simp at h1
    · intro hc; simp [hc] at h3
  · rintro ⟨c, hc1, hc2, rfl⟩
    refine ⟨⟨c ++ ['/'], by simp⟩, ?_⟩
    have : List.drop pre.length (pre ++ c ++ ['/']) = c ++ ['/'] := by
      rw [List.append_assoc, List.drop_left]
    rw [this, List.dropLast_concat]
    refine ⟨⟨?_, List.getLast?_concat ..⟩, by simpa using hc2⟩
    cases c with
    | nil => exact absurd rfl hc1
    | cons x xs => simp

theorem mem_discover (m : KV) (pre : Key) (hp : dirShaped pre) (hv : ∀ k ∈ m.keys, validKeyB k = true) (q : Key) :
    q ∈ discover m pre ↔
      (oneBelow pre q ∧ ∃ k ∈ m.keys, q.isPrefixOf k = true) ∧ ¬ ("__".toList.isPrefixOf q = true) := by
  unfold discover
  rw [List.mem_filter, Spec.listDir_prefixes m pre hp hv q]
  simp only [Bool.not_eq_true', Bool.not_eq_true]
  unfold oneBelow
  constructor
  · rintro ⟨⟨k, hk, c, h1, h2, h3, h4⟩, h5⟩
    exact ⟨⟨⟨c, h1, h2, h3⟩, k, hk, h4⟩, h5⟩
  · rintro ⟨⟨⟨c, h1, h2, h3⟩, k, hk, h4⟩, h5⟩
    exact ⟨⟨k, hk, c, h1, h2, h3, h4⟩, h5⟩

theorem node_has_key (r : Reader) (m : KV) (q : Key) (k : Kind) (h : getMeta r m q = .node k) :
    ∃ key ∈ m.keys, q.isPrefixOf key = true := by
  obtain ⟨s, _, hs⟩ := getMeta_node_key r m q k h
  exact ⟨_, hs, by rw [List.isPrefixOf_iff_prefix]; exact List.prefix_append q s⟩

/-- every listing succeeds on a readable store -/
theorem childNodes_some (r : Reader) (m : KV) (hr : ∀ q, getMeta r m q ≠ .invalid) (fuel : Nat) :
    ∀ (rec : Bool) (pre : Key), ∃ ts, childNodes r m rec fuel pre = some ts := by
  induction fuel with
  | zero => intro rec pre; exact ⟨[], by rw [childNodes]⟩
  | succ f ih =>
    intro rec pre
    rw [childNodes]
    obtain ⟨ts, hts, _⟩ := childList_spec r m rec f (fun q x => ∃ k, ∃ cs, subNodes r m rec f q k = some cs ∧
        getMeta r m q = .node k ∧ x ∈ flattenList cs) (discover m pre)
      (fun q _ => hr q) (by
        intro q _ k hk
        have : ∃ cs, subNodes r m rec f q k = some cs := by
          unfold subNodes
          split
          · exact ih true q
          · exact ⟨[], rfl⟩
        obtain ⟨cs, hcs⟩ := this
        refine ⟨cs, hcs, fun x => ⟨fun hx => ⟨k, cs, hcs, hk, hx⟩, ?_⟩⟩
        rintro ⟨k', cs', hcs', hk', hx⟩
        rw [hk] at hk'; cases hk'
        rw [hcs] at hcs'; cases hcs'
        exact hx)
    exact ⟨ts, hts⟩

theorem depthBound_pos (m : KV) : ∃ n, depthBound m = n + 1 := ⟨_, rfl⟩

/-- direct children -/
theorem children_false (r : Reader) (m : KV) (hv : ∀ k ∈ m.keys, validKeyB k = true) (hr : ∀ q, getMeta r m q ≠ .invalid)
    (pre : Key) (hp : dirShaped pre) :
    ∃ ns, children r m false pre = some ns ∧
      ∀ q k, (q, k) ∈ ns ↔ (oneBelow pre q ∧ ¬ ("__".toList.isPrefixOf q = true) ∧ getMeta r m q = .node k) := by
  obtain ⟨n, hn⟩ := depthBound_pos m
  unfold children
  rw [hn, childNodes]
  obtain ⟨ts, hts, hmem⟩ := childList_spec r m false n (fun _ _ => False) (discover m pre) (fun q _ => hr q)
    (fun q _ k _ => ⟨[], by simp [subNodes], by simp [flattenList_nil]⟩)
  refine ⟨flattenList ts, by rw [hts]; rfl, ?_⟩
  intro q k
  rw [hmem]
  constructor
  · rintro ⟨q', hq', k', hk', hx | hx⟩
    · cases hx
      rw [mem_discover m pre hp hv] at hq'
      exact ⟨hq'.1.1, hq'.2, hk'⟩
    · exact absurd hx id
  · rintro ⟨h1, h2, h3⟩
    exact ⟨q, (mem_discover m pre hp hv q).2 ⟨⟨h1, node_has_key r m q k h3⟩, h2⟩, k, h3, Or.inl rfl⟩

/-! ### prefix facts for the tree theorem -/

theorem any_zip_prefix (f : Char × Char → Bool) (x z : Key) (h : (List.zip x (x.drop 1)).any f = true) :
    (List.zip (x ++ z) ((x ++ z).drop 1)).any f = true := by
  induction x with
  | nil => simp at h
  | cons a xs ih =>
    cases xs with
    | nil => simp at h
    | cons b xs' =>
      simp only [List.drop_succ_cons, List.drop_zero, List.zip_cons_cons, List.any_cons, Bool.or_eq_true,
        List.cons_append] at h ih ⊢
      rcases h with h | h
      · exact Or.inl h
      · exact Or.inr (ih h)

theorem validKeyB_of_prefix_slash (x y : Key) (h : validKeyB (x ++ '/' :: y) = true) : validKeyB x = true := by
  unfold validKeyB at h ⊢
  simp only [Bool.and_eq_true, Bool.not_eq_true', bne_iff_ne, ne_eq] at h ⊢
  obtain ⟨⟨⟨h1, h2⟩, h3⟩, h4⟩ := h
  have hx : x ≠ [] := by intro e; subst e; simp at h2
  refine ⟨⟨⟨by simpa using hx, ?_⟩, ?_⟩, ?_⟩
  · cases x with
    | nil => exact absurd rfl hx
    | cons a xs => simpa using h2
  · intro hl
    obtain ⟨x', rfl⟩ := List.getLast?_eq_some_iff.1 hl
    have := doubleSlash_any x' y
    simp only [List.append_assoc, List.singleton_append] at h4
    rw [this] at h4
    cases h4
  · rw [Bool.eq_false_iff]
    intro hc
    rw [any_zip_prefix _ x ('/' :: y) hc] at h4
    cases h4

/-- a child prefix with a key beneath it is a valid prefix -/
theorem validPrefixB_of_key (x : Key) (key : Key) (hk : validKeyB key = true) (hp : (x ++ ['/']) <+: key) : validPrefixB (x ++ ['/']) = true := by
  obtain ⟨t, rfl⟩ := hp
  unfold validPrefixB
  rw [List.dropLast_concat, List.getLast?_concat]
  have : validKeyB x = true := by
    apply validKeyB_of_prefix_slash x t
    simpa using hk
  simp [this]

theorem reserved_iff_of_prefix (q q' : Key) (h : q <+: q') (hl : 2 ≤ q.length) :
    "__".toList.isPrefixOf q = true ↔ "__".toList.isPrefixOf q' = true := by
  rw [List.isPrefixOf_iff_prefix, List.isPrefixOf_iff_prefix]
  constructor
  · intro h1; exact h1.trans h
  · intro h1; exact List.prefix_of_prefix_length_le h1 h (by simpa using hl)

theorem oneBelow_length (pre q : Key) (h : oneBelow pre q) : pre.length + 2 ≤ q.length := by
  obtain ⟨c, hc, _, rfl⟩ := h
  cases c with
  | nil => exact absurd rfl hc
  | cons a as => simp

theorem oneBelow_prefix (pre q : Key) (h : oneBelow pre q) : pre <+: q := by
  obtain ⟨c, _, _, rfl⟩ := h
  exact ⟨c ++ ['/'], by simp⟩

theorem oneBelow_dirShaped (pre q : Key) (h : oneBelow pre q) : dirShaped q := by
  obtain ⟨c, _, _, rfl⟩ := h
  exact Or.inr ⟨_, rfl⟩

theorem oneBelow_getLast (pre q : Key) (h : oneBelow pre q) : q.getLast? = some '/' := by
  obtain ⟨c, _, _, rfl⟩ := h
  exact List.getLast?_concat ..

/-- nothing ending in '/' lies strictly between a prefix and its child prefix -/
theorem oneBelow_mid (pre q mid : Key) (h : oneBelow pre q) (h1 : pre <+: mid) (h2 : mid <+: q)
    (h3 : pre.length < mid.length) (h4 : mid.getLast? = some '/') : mid = q := by
  obtain ⟨c, _, hc, rfl⟩ := h
  obtain ⟨t, rfl⟩ := h1
  rw [List.append_assoc] at h2 ⊢
  have ht : t <+: c ++ ['/'] := (List.prefix_append_right_inj pre).1 h2
  have htne : t ≠ [] := by intro e; subst e; simp at h3
  have htl : t.getLast? = some '/' := by
    rw [List.getLast?_append] at h4
    cases hgl : t.getLast? with
    | none => rw [List.getLast?_eq_none_iff] at hgl; exact absurd hgl htne
    | some x => rw [hgl] at h4; simpa using h4
  by_cases hl : t.length ≤ c.length
  · have : t <+: c := List.prefix_of_prefix_length_le ht (List.prefix_append c _) hl
    exact absurd (this.subset (List.mem_of_getLast? htl)) hc
  · have hle := ht.length_le
    simp only [List.length_append, List.length_singleton] at hle
    rw [ht.eq_of_length (by simp; omega)]

/-! ### the tree below a prefix -/

/-- every prefix strictly between `pre` and `q` holds group metadata -/
def between (r : Reader) (m : KV) (pre q : Key) : Prop :=
  ∀ mid : Key, pre.isPrefixOf mid = true → mid.isPrefixOf q = true → mid ≠ q → mid.length > pre.length →
    mid.getLast? = some '/' → ∃ k, getMeta r m mid = .node k ∧ k.isGroup = true

/-- `q` is a node of kind `k` reachable from `pre` through groups -/
def below (r : Reader) (m : KV) (pre q : Key) (k : Kind) : Prop :=
  pre.isPrefixOf q = true ∧ q ≠ pre ∧ validPrefixB q = true ∧ getMeta r m q = .node k ∧
    between r m pre q ∧ ¬ ("__".toList.isPrefixOf q = true)

/-- what is listed beneath a child `q`: `q` is a group and the node is below it -/
def belowGroup (r : Reader) (m : KV) (q : Key) (x : Key × Kind) : Prop :=
  (∃ k, getMeta r m q = .node k ∧ k.isGroup = true) ∧ below r m q x.1 x.2

/-- the first path component below `pre` on the way to a valid prefix `q'` -/
theorem first_step (m : KV) (hv : ∀ k ∈ m.keys, validKeyB k = true) (pre : Key) (hp : dirShaped pre) (q' : Key)
    (h1 : pre <+: q') (h2 : q' ≠ pre) (h3 : q'.getLast? = some '/')
    (hkey : ∃ key ∈ m.keys, q' <+: key) :
    ∃ q t, oneBelow pre q ∧ q' = q ++ t := by
  obtain ⟨s, rfl⟩ := h1
  have hsne : s ≠ [] := by intro e; subst e; simp at h2
  obtain ⟨key, hkey, ⟨u, rfl⟩⟩ := hkey
  have hval := hv _ hkey
  rw [List.append_assoc] at hval
  obtain ⟨_, hhead⟩ := validKey_rest pre (s ++ u) hp hval
  have hshead : s.head? ≠ some '/' := by
    cases s with
    | nil => exact absurd rfl hsne
    | cons a as => simpa using hhead
  have hsl : s.getLast? = some '/' := by
    rw [List.getLast?_append] at h3
    cases hgl : s.getLast? with
    | none => rw [List.getLast?_eq_none_iff] at hgl; exact absurd hgl hsne
    | some x => rw [hgl] at h3; simpa using h3
  have hmore : (firstComponent s).2 = true := by
    cases hb : (firstComponent s).2 with
    | true => rfl
    | false => exact absurd (List.mem_of_getLast? hsl) (firstComponent_nomore s hb)
  obtain ⟨t, ht⟩ := firstComponent_more s hmore
  refine ⟨pre ++ (firstComponent s).1 ++ ['/'], t,
    ⟨(firstComponent s).1, firstComponent_ne_nil s hsne hshead, firstComponent_noSlash s, rfl⟩, ?_⟩
  conv => lhs; rw [ht]
  simp

theorem below_iff (r : Reader) (m : KV) (hv : ∀ k ∈ m.keys, validKeyB k = true) (pre : Key) (hp : dirShaped pre)
    (x : Key × Kind) :
    below r m pre x.1 x.2 ↔
      ∃ q ∈ discover m pre, ∃ k, getMeta r m q = .node k ∧ (x = (q, k) ∨ belowGroup r m q x) := by
  obtain ⟨q', k'⟩ := x
  simp only
  constructor
  · rintro ⟨h1, h2, h3, h4, h5, h6⟩
    rw [List.isPrefixOf_iff_prefix] at h1
    obtain ⟨key, hkey, hqk⟩ := node_has_key r m q' k' h4
    rw [List.isPrefixOf_iff_prefix] at hqk
    have hq'ne : q' ≠ [] := by
      intro e; subst e
      exact h2 (List.prefix_nil.1 h1).symm
    have hlast : q'.getLast? = some '/' := by
      unfold validPrefixB at h3
      simp only [Bool.or_eq_true, Bool.and_eq_true, beq_iff_eq, List.isEmpty_iff] at h3
      rcases h3 with h3 | h3
      · exact absurd h3 hq'ne
      · exact h3.1
    obtain ⟨q, t, hob, rfl⟩ := first_step m hv pre hp q' h1 h2 hlast ⟨key, hkey, hqk⟩
    have hqq' : q <+: q ++ t := List.prefix_append q t
    have hlen := oneBelow_length pre q hob
    have hdisc : q ∈ discover m pre := by
      rw [mem_discover m pre hp hv]
      refine ⟨⟨hob, key, hkey, ?_⟩, ?_⟩
      · rw [List.isPrefixOf_iff_prefix]; exact hqq'.trans hqk
      · rw [reserved_iff_of_prefix q (q ++ t) hqq' (by omega)]; exact h6
    by_cases ht : t = []
    · subst ht
      rw [List.append_nil] at h4 ⊢
      exact ⟨q, hdisc, k', h4, Or.inl rfl⟩
    · have hne : q ≠ q ++ t := by
        intro e
        have := congrArg List.length e
        simp at this
        exact ht this
      obtain ⟨k, hk, hg⟩ := h5 q (by rw [List.isPrefixOf_iff_prefix]; exact oneBelow_prefix pre q hob)
        (by rw [List.isPrefixOf_iff_prefix]; exact hqq') hne (by omega) (oneBelow_getLast pre q hob)
      refine ⟨q, hdisc, k, hk, Or.inr ⟨⟨k, hk, hg⟩, ?_⟩⟩
      refine ⟨by rw [List.isPrefixOf_iff_prefix]; exact hqq', fun e => hne e.symm, h3, h4, ?_, h6⟩
      intro mid g1 g2 g3 g4 g5
      rw [List.isPrefixOf_iff_prefix] at g1
      refine h5 mid ?_ g2 g3 (by omega) g5
      rw [List.isPrefixOf_iff_prefix]
      exact (oneBelow_prefix pre q hob).trans g1
  · rintro ⟨q, hq, k, hk, hx⟩
    rw [mem_discover m pre hp hv] at hq
    obtain ⟨⟨hob, key, hkey, hqk⟩, hres⟩ := hq
    rw [List.isPrefixOf_iff_prefix] at hqk
    have hlen := oneBelow_length pre q hob
    have hpq := oneBelow_prefix pre q hob
    rcases hx with hx | ⟨⟨k2, hk2, hg⟩, g1, g2, g3, g4, g5, g6⟩
    · cases hx
      refine ⟨by rw [List.isPrefixOf_iff_prefix]; exact hpq, ?_, ?_, hk, ?_, hres⟩
      · intro e; rw [e] at hlen; omega
      · obtain ⟨c, _, _, rfl⟩ := hob
        exact validPrefixB_of_key (pre ++ c) key (hv _ hkey) hqk
      · intro mid g1 g2 g3 g4 g5
        rw [List.isPrefixOf_iff_prefix] at g1 g2
        exact absurd (oneBelow_mid pre q' mid hob g1 g2 g4 g5) g3
    · simp only at g1 g2 g3 g4 g5 g6
      rw [List.isPrefixOf_iff_prefix] at g1
      have hlen' := g1.length_le
      refine ⟨by rw [List.isPrefixOf_iff_prefix]; exact hpq.trans g1, ?_, g3, g4, ?_, g6⟩
      · intro e; rw [e] at hlen'; omega
      · intro mid f1 f2 f3 f4 f5
        rw [List.isPrefixOf_iff_prefix] at f1 f2
        by_cases hl : mid.length ≤ q.length
        · have hmq : mid <+: q := List.prefix_of_prefix_length_le f2 g1 hl
          have := oneBelow_mid pre q mid hob f1 hmq f4 f5
          subst this
          exact ⟨k2, hk2, hg⟩
        · have hqm : q <+: mid := List.prefix_of_prefix_length_le g1 f2 (by omega)
          exact g5 mid (by rw [List.isPrefixOf_iff_prefix]; exact hqm) (by rw [List.isPrefixOf_iff_prefix]; exact f2)
            f3 (by omega) f5

theorem le_foldl_max (l : List Nat) (a : Nat) : a ≤ l.foldl max a ∧ ∀ x ∈ l, x ≤ l.foldl max a := by
  induction l generalizing a with
  | nil => simp
  | cons y ys ih =>
    rw [List.foldl_cons]
    obtain ⟨h1, h2⟩ := ih (max a y)
    refine ⟨by omega, ?_⟩
    intro x hx
    rcases List.mem_cons.1 hx with rfl | hx
    · omega
    · exact h2 x hx

theorem length_lt_depthBound (m : KV) : ∀ k ∈ m.keys, k.length < depthBound m := by
  intro k hk
  unfold depthBound
  have := (le_foldl_max (m.keys.map List.length) 0).2 k.length (List.mem_map_of_mem hk)
  omega

/-- the recursive listing, for any fuel that covers the keys below the prefix -/
theorem childNodes_true (r : Reader) (m : KV) (hv : ∀ k ∈ m.keys, validKeyB k = true)
    (hr : ∀ q, getMeta r m q ≠ .invalid) (L : Nat) (hL : ∀ k ∈ m.keys, k.length < L) (fuel : Nat) :
    ∀ pre, dirShaped pre → L ≤ fuel + pre.length →
      ∃ ts, childNodes r m true fuel pre = some ts ∧ ∀ x, x ∈ flattenList ts ↔ below r m pre x.1 x.2 := by
  induction fuel with
  | zero =>
    intro pre _ hl
    refine ⟨[], by rw [childNodes], ?_⟩
    intro x
    rw [flattenList_nil]
    simp only [List.not_mem_nil, false_iff]
    rintro ⟨h1, h2, _, h4, _, _⟩
    rw [List.isPrefixOf_iff_prefix] at h1
    obtain ⟨key, hkey, hqk⟩ := node_has_key r m x.1 x.2 h4
    rw [List.isPrefixOf_iff_prefix] at hqk
    have := hL key hkey
    have := h1.length_le
    have := hqk.length_le
    have : x.1.length ≠ pre.length := fun e => h2 (h1.eq_of_length e.symm).symm
    omega
  | succ f ih =>
    intro pre hp hl
    rw [childNodes]
    obtain ⟨ts, hts, hmem⟩ := childList_spec r m true f (belowGroup r m) (discover m pre) (fun q _ => hr q) (by
      intro q hq k hk
      rw [mem_discover m pre hp hv] at hq
      have hob := hq.1.1
      have hlen := oneBelow_length pre q hob
      unfold subNodes
      cases hg : k.isGroup with
      | true =>
        obtain ⟨cs, hcs, hcmem⟩ := ih q (oneBelow_dirShaped pre q hob) (by omega)
        refine ⟨cs, by simpa using hcs, ?_⟩
        intro x
        rw [hcmem]
        exact ⟨fun h => ⟨⟨k, hk, hg⟩, h⟩, fun h => h.2⟩
      | false =>
        refine ⟨[], by simp, ?_⟩
        intro x
        rw [flattenList_nil]
        simp only [List.not_mem_nil, false_iff]
        rintro ⟨⟨k2, hk2, hg2⟩, _⟩
        rw [hk] at hk2; cases hk2
        rw [hg] at hg2; cases hg2)
    refine ⟨ts, hts, ?_⟩
    intro x
    rw [hmem, below_iff r m hv pre hp x]

/-- the whole tree beneath a prefix -/
theorem children_true (r : Reader) (m : KV) (hv : ∀ k ∈ m.keys, validKeyB k = true) (hr : ∀ q, getMeta r m q ≠ .invalid)
    (pre : Key) (hp : dirShaped pre) :
    ∃ ns, children r m true pre = some ns ∧ ∀ q k, (q, k) ∈ ns ↔ below r m pre q k := by
  obtain ⟨ts, hts, hmem⟩ := childNodes_true r m hv hr (depthBound m) (length_lt_depthBound m) (depthBound m) pre hp
    (by omega)
  refine ⟨flattenList ts, by unfold children; rw [hts]; rfl, ?_⟩
  intro q k
  exact hmem (q, k)

/-! ### a sufficient condition for readability (used for the non-vacuity examples) -/

theorem KV.get_mem (m : KV) (k : Key) (v : Bytes) (h : m.get k = some v) : (k, v) ∈ m := by
  unfold KV.get at h
  simp only [Option.map_eq_some_iff] at h
  obtain ⟨kv, hkv, rfl⟩ := h
  have h1 := List.find?_some hkv
  have h2 := List.mem_of_find?_eq_some hkv
  have : kv.1 = k := by simpa using h1
  subst this
  exact h2

/-- if every stored value reads as some node document, no prefix has unreadable metadata -/
theorem readable_of_values (r : Reader) (m : KV) (h : ∀ kv ∈ m, r.cls kv.2 ≠ none ∧ r.okA kv.2 = true ∧
    r.okG kv.2 = true ∧ r.okAttrs kv.2 = true) : ∀ pre, getMeta r m pre ≠ .invalid := by
  intro pre
  rw [getMeta_eq]
  have hao : attrsOk r m pre = true := by
    unfold attrsOk
    split
    · rename_i a ha; exact (h _ (KV.get_mem m _ a ha)).2.2.2
    · rfl
  rw [hao]
  cases h1 : m.get (pre ++ kZarrJson) with
  | some v =>
    have := (h _ (KV.get_mem m _ v h1)).1
    simp only at this ⊢
    cases hc : r.cls v with
    | none => exact absurd hc this
    | some b => cases b <;> simp
  | none =>
    cases h2 : m.get (pre ++ kZarray) with
    | some v => simp [(h _ (KV.get_mem m _ v h2)).2.1]
    | none =>
      cases h3 : m.get (pre ++ kZgroup) with
      | some v => simp [(h _ (KV.get_mem m _ v h3)).2.2.1]
      | none => simp

end Zarrs.Hier
