import ZarrsModel.Lemmas.ChainSPELeaf
import ZarrsModel.Lemmas.ChainSPEShardTop
set_option Elab.async false
/- helper lemmas for C05 on chains, part 15: any chain, histories, legality of the layout, the index and the fill value -/
namespace Zarrs.Partial
open Zarrs Zarrs.Codec Zarrs.Subset Zarrs.Shard Zarrs.ShardPE

/-- **one `partial_encode` call on any chain** -/
theorem chainS_pe_step (c : ChainS) (sh : Shape) (fill : Elem) (hok : c.okWith aOk BOk2 sh fill)
    (hfl : fill.length = c.es) (hnc : c.topNoCache) (hsm : c.innerSmall)
    (v : Option Bytes) (xs : List Elem) (hxl : xs.length = prod sh) (hxe : ∀ x ∈ xs, x.length = c.es)
    (hH : c.Holds sh fill v xs) (hlen : c.shardLen v + c.stepCost sh < sentinel)
    (ws : List RWrite) (hws : ∀ w ∈ ws, writeOk c.es sh w) :
    ∃ v', c.partialEncode sh fill v ws = some v' ∧ c.Holds sh fill v' (applyRegionWrites sh xs ws) ∧
      (v' = none ↔ (applyRegionWrites sh xs ws).all (· == fill) = true) ∧
      c.shardLen v' ≤ c.shardLen v + c.stepCost sh := by
  cases c with
  | leaf c keep =>
    obtain ⟨v', h1, h2, h3⟩ := leafChain_step c keep sh fill hok hnc hfl v xs hxl hxe hH ws hws
    exact ⟨v', h1, h2, h3, Nat.le_refl _⟩
  | shard a2a cfg ish es inner b2b =>
    exact shardChain_step a2a cfg ish es inner b2b sh fill hok hnc hsm v xs hxl hxe hH hlen ws hws

/-- the chunk after a history of calls -/
def applyHistory (sh : Shape) (old : List Elem) (hist : List (List RWrite)) : List Elem :=
  hist.foldl (applyRegionWrites sh) old

/-- **every history of `partial_encode` calls** keeps the invariant -/
theorem chainS_pe_history (c : ChainS) (sh : Shape) (fill : Elem) (hok : c.okWith aOk BOk2 sh fill)
    (hfl : fill.length = c.es) (hnc : c.topNoCache) (hsm : c.innerSmall) :
    ∀ (hist : List (List RWrite)) (v : Option Bytes) (xs : List Elem), xs.length = prod sh →
      (∀ x ∈ xs, x.length = c.es) → c.Holds sh fill v xs →
      c.shardLen v + hist.length * c.stepCost sh < sentinel →
      (∀ ws ∈ hist, ∀ w ∈ ws, writeOk c.es sh w) →
      ∃ v', c.runPE sh fill v hist = some v' ∧ c.Holds sh fill v' (applyHistory sh xs hist) ∧
        (hist ≠ [] → (v' = none ↔ (applyHistory sh xs hist).all (· == fill) = true)) := by
  intro hist
  induction hist with
  | nil => intro v xs _ _ hH _ _; exact ⟨v, rfl, hH, fun h => absurd rfl h⟩
  | cons ws rest ih =>
    intro v xs hxl hxe hH hlen hws
    simp only [List.length_cons, Nat.succ_mul] at hlen
    obtain ⟨v1, h1, h2, h3, h4⟩ := chainS_pe_step c sh fill hok hfl hnc hsm v xs hxl hxe hH (by omega) ws
      (hws ws (by simp))
    obtain ⟨v2, g1, g2, g3⟩ := ih v1 (applyRegionWrites sh xs ws)
      (applyRegionWrites_length sh c.es ws xs hxl (hws ws (by simp)))
      (applyRegionWrites_elems sh c.es ws xs hxl hxe (hws ws (by simp))) h2 (by omega)
      (fun ws' h' => hws ws' (by simp [h']))
    refine ⟨v2, by simp only [ChainS.runPE, h1, Option.bind_some, g1], g2, ?_⟩
    intro _
    cases rest with
    | nil =>
      simp only [ChainS.runPE, Option.some.injEq] at g1
      subst g1
      exact h3
    | cons a as => exact g3 (by simp)

/-! ### legality of the layout -/

/-- a value that `Shard.decode` accepts and `Shard.wellFormed` passes, whose stored chunks are non-empty, is a legal
shard of these chunks -/
theorem legal_of_wf (c : Cfg) (v : Bytes) (chunks : List (Option Bytes))
    (hdec : decode c true v = .ok chunks) (hwf : wellFormed c v = true) (hsm : v.length < sentinel)
    (hpos : ∀ b, some b ∈ chunks → 0 < b.length) : Legal c v chunks := by
  obtain ⟨idx, hcur, hlen, hold, _, hWF, _⟩ := old_facts c v chunks hdec hwf hsm
  obtain ⟨ib, idx', hib, hdi, _⟩ := (wellFormed_iff c v).mp hwf
  have : idx' = idx := by
    unfold currentIndex at hcur
    simp only [hib, hdi] at hcur
    exact Option.some.inj hcur
  subst this
  obtain ⟨hlc, hpt⟩ := (mapM_ok_iff _ _ _).mp hold
  -- per entry
  have hent : ∀ i (h : i < idx'.length) (hc : i < chunks.length),
      match chunks[i] with
      | none => isLive idx'[i] = false
      | some b => isLive idx'[i] = true ∧ idx'[i].2 = b.length ∧ idx'[i].1 + idx'[i].2 ≤ v.length ∧
          slice v idx'[i].1 (idx'[i].1 + idx'[i].2) = b ∧
          (idx'[i].1 + idx'[i].2 ≤ (indexRegion c v.length).1 ∨ (indexRegion c v.length).2 ≤ idx'[i].1) := by
    intro i h hc
    obtain ⟨ch, hch, hde⟩ := hpt i idx'[i] (List.getElem?_eq_getElem h)
    rw [List.getElem?_eq_getElem hc] at hch
    cases hch
    cases hl : isLive idx'[i] with
    | false =>
      rw [decEntry_dead v _ hl] at hde
      simp only [Except.ok.injEq] at hde
      rw [← hde]
    | true =>
      rw [decEntry_live v _ hl] at hde
      split at hde
      · cases hde
      · rename_i hle
        simp only [Except.ok.injEq] at hde
        rw [← hde]
        show true = true ∧ idx'[i].2 = (slice v idx'[i].1 (idx'[i].1 + idx'[i].2)).length ∧ _ ∧ _ ∧ _
        refine ⟨rfl, ?_, by omega, rfl, (hWF.1 _ (List.getElem_mem h) hl).2⟩
        rw [slice_length_le v _ _ (by omega)]; omega
  refine ⟨by rw [← hlc, hlen], ib, idx', hib, hdi, hlen, hent, ?_⟩
  intro i j hi hj hij hli hlj
  have hR := hWF.2 i j _ _ hij (List.getElem?_eq_getElem hi) (List.getElem?_eq_getElem hj) hli hlj
  have hpi : 0 < idx'[i].2 := by
    have hc : i < chunks.length := by omega
    have := hent i hi hc
    cases hch : chunks[i] with
    | none => rw [hch] at this; simp only at this; rw [this] at hli; cases hli
    | some b =>
      rw [hch] at this
      rw [this.2.1]
      exact hpos b (by rw [← hch]; exact List.getElem_mem hc)
  have hpj : 0 < idx'[j].2 := by
    have hc : j < chunks.length := by omega
    have := hent j hj hc
    cases hch : chunks[j] with
    | none => rw [hch] at this; simp only at this; rw [this] at hlj; cases hlj
    | some b =>
      rw [hch] at this
      rw [this.2.1]
      exact hpos b (by rw [← hch]; exact List.getElem_mem hc)
  unfold Rel at hR
  omega

end Zarrs.Partial
