import ZarrsModel.Lemmas.FsStoreRefine
/- listings of the filesystem store against the ordered map: `list`, `list_prefix`, `list_dir`, `size_prefix` -/
set_option Elab.async false
namespace Zarrs.Fs
open Zarrs

/-! ### keys of plain paths are valid store keys -/

def hasDbl : Key → Bool
  | a :: b :: r => (a == '/' && b == '/') || hasDbl (b :: r)
  | _ => false

theorem zip_any_hasDbl (k : Key) :
    (List.zip k (k.drop 1)).any (fun p => p.1 == '/' && p.2 == '/') = hasDbl k := by
  induction k with
  | nil => rfl
  | cons a t ih =>
    cases t with
    | nil => rfl
    | cons b r =>
      simp only [List.drop_succ_cons, List.drop_zero, List.zip_cons_cons, List.any_cons, hasDbl]
      simp only [List.drop_succ_cons, List.drop_zero] at ih
      rw [ih]

theorem hasDbl_noSlash (n : Key) (h : '/' ∉ n) : hasDbl n = false := by
  induction n with
  | nil => rfl
  | cons a t ih =>
    simp only [List.mem_cons, not_or] at h
    cases t with
    | nil => rfl
    | cons b r =>
      have : (a == '/') = false := by simpa using fun e => h.1 e.symm
      simp only [hasDbl, this, Bool.false_and, Bool.false_or]
      exact ih h.2

theorem hasDbl_name_slash (n k' : Key) (hn : '/' ∉ n) (hne : n ≠ []) (hk : k'.head? ≠ some '/')
    (hd : hasDbl k' = false) : hasDbl (n ++ '/' :: k') = false := by
  induction n with
  | nil => exact absurd rfl hne
  | cons a t ih =>
    simp only [List.mem_cons, not_or] at hn
    have ha : (a == '/') = false := by simpa using fun e => hn.1 e.symm
    cases t with
    | nil =>
      simp only [List.cons_append, List.nil_append, hasDbl, ha, Bool.false_and, Bool.false_or]
      cases k' with
      | nil => rfl
      | cons c r =>
        have hc : (c == '/') = false := by
          have : c ≠ '/' := by intro e; subst e; exact hk rfl
          simpa using this
        simp only [hasDbl, hc, Bool.and_false, Bool.false_or]
        exact hd
    | cons b r =>
      simp only [List.cons_append, hasDbl, ha, Bool.false_and, Bool.false_or]
      exact ih hn.2 (by simp)

theorem validKeyB_iff (k : Key) :
    validKeyB k = true ↔ k ≠ [] ∧ k.head? ≠ some '/' ∧ k.getLast? ≠ some '/' ∧ hasDbl k = false := by
  unfold validKeyB
  rw [zip_any_hasDbl]
  simp only [Bool.and_eq_true, Bool.not_eq_true', List.isEmpty_eq_false_iff, bne_iff_ne, ne_eq]
  constructor
  · rintro ⟨⟨⟨h1, h2⟩, h3⟩, h4⟩; exact ⟨h1, h2, h3, h4⟩
  · rintro ⟨h1, h2, h3, h4⟩; exact ⟨⟨⟨h1, h2⟩, h3⟩, h4⟩

theorem validKeyB_name (n : Name) (hne : n ≠ []) (hs : '/' ∉ n) : validKeyB n = true := by
  rw [validKeyB_iff]
  refine ⟨hne, ?_, ?_, hasDbl_noSlash n hs⟩
  · intro h
    cases n with
    | nil => exact hne rfl
    | cons a t => simp only [List.head?_cons, Option.some.injEq] at h; subst h; simp at hs
  · intro h
    have := List.mem_of_getLast? h
    exact hs this

theorem validKeyB_joinPath (path : List Name) (hne : path ≠ []) (hpl : ∀ n ∈ path, plainName n = true) :
    validKeyB (joinPath path) = true := by
  induction path with
  | nil => exact absurd rfl hne
  | cons n rest ih =>
    obtain ⟨hn1, hn2⟩ := plainName_spec (hpl n (List.mem_cons_self ..))
    cases rest with
    | nil => exact validKeyB_name n hn1 hn2
    | cons m ms =>
      have ih' := ih (by simp) (fun x hx => hpl x (List.mem_cons_of_mem _ hx))
      rw [validKeyB_iff] at ih' ⊢
      obtain ⟨i1, i2, i3, i4⟩ := ih'
      have hj : joinPath (n :: m :: ms) = n ++ '/' :: joinPath (m :: ms) := rfl
      rw [hj]
      refine ⟨by simp, ?_, ?_, hasDbl_name_slash n _ hn2 hn1 i2 i4⟩
      · intro h
        cases n with
        | nil => exact hn1 rfl
        | cons a t =>
          simp only [List.cons_append, List.head?_cons, Option.some.injEq] at h
          subst h; simp at hn2
      · rw [List.getLast?_append]
        cases hk : joinPath (m :: ms) with
        | nil => exact absurd hk i1
        | cons c r =>
          rw [hk] at i3
          rw [List.getLast?_cons_cons]
          simpa using i3

/-! ### the keys of the abstraction -/

theorem mem_absFs_keys (s : FsState) (hi : FsInv s) (k : Key) :
    k ∈ (absFs s).keys ↔ ∃ b, (FsState.content s).fileAt (splitPath k) = some b := by
  rw [Zarrs.KV.mem_keys_iff_get, absFs_get s hi]
  cases (FsState.content s).fileAt (splitPath k) <;> simp

theorem absFs_keys_valid (s : FsState) (hi : FsInv s) (k : Key) (hk : k ∈ (absFs s).keys) : validKeyB k = true := by
  obtain ⟨b, hb⟩ := (mem_absFs_keys s hi k).1 hk
  rw [← join_split k]
  exact validKeyB_joinPath _ (splitPath_ne_nil k) (Tree.fileAt_plain _ hi.content _ _ hb)

theorem dirKey_inj (a b : List Name) (ha : ∀ n ∈ a, '/' ∉ n) (hb : ∀ n ∈ b, '/' ∉ n) (h : dirKey a = dirKey b) :
    a = b := by
  by_cases ea : a = []
  · subst ea
    by_cases eb : b = []
    · exact eb.symm
    · rw [dirKey_nil, dirKey_ne _ eb] at h
      simp at h
  · by_cases eb : b = []
    · subst eb
      rw [dirKey_nil, dirKey_ne _ ea] at h
      simp at h
    · rw [dirKey_ne _ ea, dirKey_ne _ eb] at h
      exact joinPath_inj a b ea eb ha hb (List.append_cancel_right h)

namespace Tree

theorem stat_inv (t : Tree) (hi : t.Inv) (path : List Name) (c : Tree) (h : t.stat path = .dir c) : c.Inv := by
  induction path generalizing t with
  | nil => rw [stat_nil] at h; simp only [Stat.dir.injEq] at h; subst h; exact hi
  | cons n rest ih =>
    rw [stat_cons] at h
    cases hl : t.lookup1 n with
    | none => rw [hl] at h; cases h
    | some e =>
      rw [hl] at h
      cases e with
      | file b => cases rest <;> cases h
      | dir c0 => exact ih c0 (inv_lookup1 t hi n _ hl).1 h

theorem fileAt_append_dir (t : Tree) (pp q : List Name) (c : Tree) (h : t.stat pp = .dir c) :
    t.fileAt (pp ++ q) = c.fileAt q := by
  unfold fileAt
  rw [stat_append_dir t pp q c h]

/-- a file below `pp` means `pp` is a directory -/
theorem stat_prefix_of_file (t : Tree) (pp rest : List Name) (b : Bytes) (hr : rest ≠ [])
    (h : t.fileAt (pp ++ rest) = some b) : ∃ c, t.stat pp = .dir c ∧ c.fileAt rest = some b := by
  unfold fileAt at h
  rw [stat_append] at h
  cases hs : t.stat pp with
  | dir c => rw [hs] at h; exact ⟨c, rfl, h⟩
  | file b' =>
    rw [hs] at h
    cases rest with
    | nil => exact absurd rfl hr
    | cons x xs => cases h
  | noent => rw [hs] at h; cases h
  | notdir => rw [hs] at h; cases h

theorem hasFile_iff_walk (t : Tree) (pre : Key) : t.hasFile = true ↔ t.walk pre ≠ [] := by
  induction t generalizing pre with
  | nil => simp [hasFile, walk]
  | file n b rest _ => simp [hasFile, walk]
  | dir n c rest ihc ih =>
    simp only [hasFile, walk, Bool.or_eq_true, ihc (pre ++ n ++ ['/']), ih pre, ne_eq, List.append_eq_nil_iff]
    constructor
    · rintro (h | h) ⟨h1, h2⟩
      · exact h h1
      · exact h h2
    · intro h
      by_cases h1 : c.walk (pre ++ n ++ ['/']) = []
      · right; intro h2; exact h ⟨h1, h2⟩
      · left; exact h1

theorem hasFile_iff (t : Tree) (hi : t.Inv) : t.hasFile = true ↔ ∃ path v, t.fileAt path = some v := by
  rw [hasFile_iff_walk t []]
  constructor
  · intro h
    cases hw : t.walk [] with
    | nil => exact absurd hw h
    | cons kv l =>
      obtain ⟨path, _, _, hf⟩ := (mem_walk t hi [] kv.1 kv.2).1 (by rw [hw]; exact List.mem_cons_self ..)
      exact ⟨path, kv.2, hf⟩
  · rintro ⟨path, v, hf⟩ hw
    have hp : path ≠ [] := by intro e; subst e; rw [fileAt_nil] at hf; cases hf
    have := (mem_walk t hi [] (joinPath path) v).2 ⟨path, hp, rfl, hf⟩
    rw [hw] at this
    cases this

theorem dirEntries_file (p : Key) (n : Name) (b : Bytes) (rest : Tree) :
    (Tree.file n b rest).dirEntries p = ((p ++ n) :: (rest.dirEntries p).1, (rest.dirEntries p).2) := rfl

theorem dirEntries_dir (p : Key) (n : Name) (c rest : Tree) :
    (Tree.dir n c rest).dirEntries p =
      if c.hasFile then ((rest.dirEntries p).1, (p ++ n ++ ['/']) :: (rest.dirEntries p).2)
      else ((rest.dirEntries p).1, (rest.dirEntries p).2) := rfl

theorem lookup1_file_cons (n : Name) (b : Bytes) (rest : Tree) (m : Name) :
    (Tree.file n b rest).lookup1 m = if m = n then some (.file b) else rest.lookup1 m := rfl
theorem lookup1_dir_cons (n : Name) (c rest : Tree) (m : Name) :
    (Tree.dir n c rest).lookup1 m = if m = n then some (.dir c) else rest.lookup1 m := rfl

theorem lookup1_ne_of_rest {rest : Tree} {n m : Name} {e : Ent} (hlt : ∀ x ∈ rest.names, keyLt n x = true)
    (h : rest.lookup1 m = some e) : m ≠ n := by
  intro e'
  subst e'
  have : m ∈ rest.names := by
    apply Classical.byContradiction
    intro hn
    rw [(lookup1_eq_none_iff rest m).2 hn] at h
    cases h
  have := hlt m this
  rw [keyLt_irrefl] at this; cases this

theorem mem_dirEntries_keys (t : Tree) (hi : t.Inv) (p k : Key) :
    k ∈ (t.dirEntries p).1 ↔ ∃ n b, k = p ++ n ∧ t.lookup1 n = some (.file b) := by
  induction t with
  | nil => simp [dirEntries, lookup1]
  | file n b rest ih =>
    obtain ⟨_, hlt, hr⟩ := hi
    rw [dirEntries_file]
    simp only [List.mem_cons, ih hr]
    constructor
    · rintro (rfl | ⟨n', b', rfl, hl⟩)
      · exact ⟨n, b, rfl, by rw [lookup1_file_cons, if_pos rfl]⟩
      · exact ⟨n', b', rfl, by rw [lookup1_file_cons, if_neg (lookup1_ne_of_rest hlt hl)]; exact hl⟩
    · rintro ⟨n', b', rfl, hl⟩
      rw [lookup1_file_cons] at hl
      by_cases hn : n' = n
      · left; rw [hn]
      · right; rw [if_neg hn] at hl; exact ⟨n', b', rfl, hl⟩
  | dir n c rest _ ih =>
    obtain ⟨_, hlt, _, hr⟩ := hi
    have h1 : ((Tree.dir n c rest).dirEntries p).1 = (rest.dirEntries p).1 := by
      rw [dirEntries_dir]; split <;> rfl
    rw [h1, ih hr]
    constructor
    · rintro ⟨n', b', rfl, hl⟩
      exact ⟨n', b', rfl, by rw [lookup1_dir_cons, if_neg (lookup1_ne_of_rest hlt hl)]; exact hl⟩
    · rintro ⟨n', b', rfl, hl⟩
      rw [lookup1_dir_cons] at hl
      by_cases hn : n' = n
      · rw [if_pos hn] at hl; cases hl
      · rw [if_neg hn] at hl; exact ⟨n', b', rfl, hl⟩

theorem mem_dirEntries_prefixes (t : Tree) (hi : t.Inv) (p q : Key) :
    q ∈ (t.dirEntries p).2 ↔ ∃ n c, q = p ++ n ++ ['/'] ∧ t.lookup1 n = some (.dir c) ∧ c.hasFile = true := by
  induction t with
  | nil => simp [dirEntries, lookup1]
  | file n b rest ih =>
    obtain ⟨_, hlt, hr⟩ := hi
    rw [dirEntries_file]
    simp only [ih hr]
    constructor
    · rintro ⟨n', c', rfl, hl, hf⟩
      exact ⟨n', c', rfl, by rw [lookup1_file_cons, if_neg (lookup1_ne_of_rest hlt hl)]; exact hl, hf⟩
    · rintro ⟨n', c', rfl, hl, hf⟩
      rw [lookup1_file_cons] at hl
      by_cases hn : n' = n
      · rw [if_pos hn] at hl; cases hl
      · rw [if_neg hn] at hl; exact ⟨n', c', rfl, hl, hf⟩
  | dir n c rest _ ih =>
    obtain ⟨_, hlt, _, hr⟩ := hi
    have lift : ∀ n' c', rest.lookup1 n' = some (.dir c') → (Tree.dir n c rest).lookup1 n' = some (.dir c') := by
      intro n' c' hl
      rw [lookup1_dir_cons, if_neg (lookup1_ne_of_rest hlt hl)]; exact hl
    rw [dirEntries_dir]
    by_cases hc : c.hasFile = true
    · rw [if_pos hc]
      simp only [List.mem_cons, ih hr]
      constructor
      · rintro (rfl | ⟨n', c', rfl, hl, hf⟩)
        · exact ⟨n, c, rfl, by rw [lookup1_dir_cons, if_pos rfl], hc⟩
        · exact ⟨n', c', rfl, lift n' c' hl, hf⟩
      · rintro ⟨n', c', rfl, hl, hf⟩
        rw [lookup1_dir_cons] at hl
        by_cases hn : n' = n
        · left; rw [hn]
        · right; rw [if_neg hn] at hl; exact ⟨n', c', rfl, hl, hf⟩
    · rw [if_neg hc]
      simp only [ih hr]
      constructor
      · rintro ⟨n', c', rfl, hl, hf⟩
        exact ⟨n', c', rfl, lift n' c' hl, hf⟩
      · rintro ⟨n', c', rfl, hl, hf⟩
        rw [lookup1_dir_cons] at hl
        by_cases hn : n' = n
        · rw [if_pos hn] at hl
          simp only [Option.some.injEq, Ent.dir.injEq] at hl
          subst hl
          exact absurd hf hc
        · rw [if_neg hn] at hl; exact ⟨n', c', rfl, hl, hf⟩

end Tree
end Zarrs.Fs
