import ZarrsModel.Lemmas.ArrayChunk
set_option linter.unusedSectionVars false
/- helper lemmas for C01/C04, part 4: the refinement invariant and the single-chunk operations -/
namespace Zarrs
open Subset

/-! ### abstract arrays: restricted writes -/
namespace AArr
variable {α : Type}

/-- write `v i` at every index satisfying `P` -/
def wr (a : AArr α) (P : Idx → Bool) (v : Idx → α) : AArr α := fun i => if P i = true then v i else a i

theorem write_eq_wr (a : AArr α) (r : Subset) (data : List α) (d : α) :
    a.write r data d = a.wr r.contains (fun i => data.getD (ravel (zipSub i r.start) r.shape) d) := rfl

theorem fillRegion_eq_wr (a : AArr α) (r : Subset) (d : α) :
    a.fillRegion r d = a.wr r.contains (fun _ => d) := rfl

theorem wr_wr (a : AArr α) (P Q : Idx → Bool) (v : Idx → α) :
    (a.wr P v).wr Q v = a.wr (fun i => P i || Q i) v := by
  funext i
  simp only [wr]
  by_cases hP : P i = true <;> by_cases hQ : Q i = true <;> simp [hP, hQ]

theorem wr_false (a : AArr α) (v : Idx → α) : a.wr (fun _ => false) v = a := by
  funext i; simp [wr]

theorem wr_congr (a : AArr α) {P Q : Idx → Bool} {v w : Idx → α} (hP : ∀ i, P i = Q i)
    (hv : ∀ i, P i = true → v i = w i) : a.wr P v = a.wr Q w := by
  funext i
  simp only [wr, ← hP i]
  split
  · rename_i h; exact hv i h
  · rfl

theorem read_congr (a b : AArr α) (s : Subset) (hs : s.wf = true)
    (h : ∀ i, s.contains i = true → a i = b i) : a.read s = b.read s := by
  simp only [read]
  apply List.map_congr_left
  intro i hi
  exact h i ((s.mem_indices hs i).mp hi)

/-- reading back a region just written -/
theorem read_of_getElem (a : AArr α) (s : Subset) (data : List α) (hs : s.wf = true)
    (hl : data.length = s.numElements)
    (h : ∀ i, s.contains i = true → data[ravel (zipSub i s.start) s.shape]? = some (a i)) :
    a.read s = data := by
  simp only [Subset.wf, beq_iff_eq] at hs
  apply list_ext_box s.shape _ _ (a.read_length s) hl
  intro j hj
  rw [a.read_getElem?_box s j hj]
  have := h (addIdx j s.start) (mem_addIdx j s.start s.shape hs hj)
  rw [zipSub_addIdx_cancel j s.start (by rw [inB_length hj, hs]; exact Nat.le_refl _)] at this
  exact this.symm

theorem read_const (d : α) (s : Subset) : AArr.read (fun _ => d) s = List.replicate s.numElements d := by
  simp only [read, List.map_const', Subset.indices_length]

end AArr

namespace ArrCfg
variable {α : Type} [DecidableEq α]
variable {cfg : ArrCfg α} {G : Shape}

/-! ### `retrieveChunk` in terms of the store lookup -/

theorem retrieveChunk_eq (st : KV) (c : Idx) (s : Shape) (hs : cfg.chunkShape c = some s) :
    cfg.retrieveChunk st c =
      match st.get (cfg.keyOf c) with
      | none => some (List.replicate (prod s) cfg.fill)
      | some b => match cfg.dec b with
        | some xs => if xs.length = prod s then some xs else none
        | none => none := by
  simp only [retrieveChunk, retrieveChunkIfExists, hs]
  cases st.get (cfg.keyOf c) with
  | none => rfl
  | some b =>
    simp only
    cases cfg.dec b with
    | none => rfl
    | some xs =>
      by_cases hl : xs.length = prod s <;> simp [hl]

theorem retrieveChunk_congr (st st' : KV) (c : Idx) (h : st'.get (cfg.keyOf c) = st.get (cfg.keyOf c)) :
    cfg.retrieveChunk st' c = cfg.retrieveChunk st c := by
  simp only [retrieveChunk, retrieveChunkIfExists, h]

theorem isFill_iff (xs : List α) : cfg.isFill xs = true ↔ ∀ x ∈ xs, x = cfg.fill := by
  simp [isFill, List.all_eq_true]

/-! ### the refinement invariant -/

/-- every chunk below the grid shape reads as the abstract array; only chunk keys are present; with elision on,
a key is present exactly when its chunk holds a non-fill element -/
structure Inv (cfg : ArrCfg α) (G : Shape) (st : KV) (a : AArr α) : Prop where
  chunks : ∀ c, inB c G = true → ∀ cs, cfg.chunkSubset c = some cs → cfg.retrieveChunk st c = some (a.read cs)
  keys : ∀ k ∈ st.keys, ∃ c, inB c G = true ∧ k = cfg.keyOf c
  elide : cfg.storeEmpty = false → ∀ c, inB c G = true → ∀ cs, cfg.chunkSubset c = some cs →
    (cfg.keyOf c ∈ st.keys ↔ ∃ i, cs.contains i = true ∧ a i ≠ cfg.fill)

theorem Inv.init (h : COk cfg G) : Inv cfg G [] (fun _ => cfg.fill) where
  chunks := by
    intro c hc cs hcs
    obtain ⟨cs', hcs', hsh, _, _, _⟩ := h.chunk_def c hc
    rw [hcs] at hcs'; cases hcs'
    rw [retrieveChunk_eq [] c cs.shape hsh, AArr.read_const]
    rfl
  keys := by intro k hk; simp [KV.keys] at hk
  elide := by
    intro _ c _ cs _
    simp [KV.keys]

/-- the effect of replacing the contents of one chunk -/
theorem Inv.update (h : COk cfg G) {st st' : KV} {a a' : AArr α} (hinv : Inv cfg G st a)
    {c : Idx} {cs : Subset} (hc : inB c G = true) (hcs : cfg.chunkSubset c = some cs)
    (new : List α) (hlen : new.length = cs.numElements)
    (hget : (st'.get (cfg.keyOf c) = some (cfg.enc new) ∧ (cfg.storeEmpty = false → cfg.isFill new = false)) ∨
      (st'.get (cfg.keyOf c) = none ∧ cfg.isFill new = true))
    (hframe : ∀ k, k ≠ cfg.keyOf c → st'.get k = st.get k)
    (hin : ∀ i, cs.contains i = true → new[ravel (zipSub i cs.start) cs.shape]? = some (a' i))
    (hout : ∀ i, cs.contains i = false → a' i = a i) : Inv cfg G st' a' := by
  obtain ⟨cs0, hcs0, hsh, hwf, _, _⟩ := h.chunk_def c hc
  rw [hcs] at hcs0; cases hcs0
  have hread : a'.read cs = new := AArr.read_of_getElem a' cs new hwf hlen hin
  have hother : ∀ c', inB c' G = true → c' ≠ c → ∀ cs', cfg.chunkSubset c' = some cs' →
      (∀ i, cs'.contains i = true → a' i = a i) := by
    intro c' hc' hne cs' hcs' i hi
    apply hout
    cases hci : cs.contains i with
    | false => rfl
    | true => exact absurd (h.chunk_disj hc hc' hcs hcs' hci hi) hne
  have hkey : ∀ c', c' ≠ c → cfg.keyOf c' ≠ cfg.keyOf c := fun c' hne he => hne (h.keysInj _ _ he)
  have hnew_all : cfg.isFill new = true → ∀ i, cs.contains i = true → a' i = cfg.fill := by
    intro hf i hi
    have := hin i hi
    rw [isFill_iff] at hf
    exact (hf _ (List.mem_of_getElem? this)).symm ▸ rfl
  have hnew_ex : cfg.isFill new = false → ∃ i, cs.contains i = true ∧ a' i ≠ cfg.fill := by
    intro hf
    simp only [isFill, List.all_eq_false, beq_iff_eq] at hf
    obtain ⟨x, hx, hne⟩ := hf
    rw [← hread] at hx
    simp only [AArr.read, List.mem_map] at hx
    obtain ⟨i, hi, rfl⟩ := hx
    exact ⟨i, (cs.mem_indices hwf i).mp hi, hne⟩
  refine ⟨?_, ?_, ?_⟩
  · intro c' hc' cs' hcs'
    by_cases he : c' = c
    · subst he
      rw [hcs] at hcs'; cases hcs'
      rw [retrieveChunk_eq st' c' cs.shape hsh, hread]
      rcases hget with ⟨hg, _⟩ | ⟨hg, hf⟩
      · rw [hg]
        simp only [h.lossless new]
        rw [if_pos (by rw [hlen]; rfl)]
      · rw [hg]
        simp only
        rw [isFill_iff] at hf
        congr 1
        exact (List.eq_replicate_iff.mpr ⟨by rw [hlen]; rfl, hf⟩).symm
    · rw [retrieveChunk_congr st st' c' (hframe _ (hkey c' he)), hinv.chunks c' hc' cs' hcs']
      obtain ⟨cs0, hcs0, _, hwf', _, _⟩ := h.chunk_def c' hc'
      rw [hcs'] at hcs0; cases hcs0
      congr 1
      exact (AArr.read_congr a' a cs' hwf' (hother c' hc' he cs' hcs')).symm
  · intro k hk
    by_cases he : k = cfg.keyOf c
    · exact ⟨c, hc, he⟩
    · rw [KV.mem_keys_iff_get, hframe k he, ← KV.mem_keys_iff_get] at hk
      exact hinv.keys k hk
  · intro hel c' hc' cs' hcs'
    by_cases he : c' = c
    · subst he
      rw [hcs] at hcs'; cases hcs'
      rw [KV.mem_keys_iff_get]
      rcases hget with ⟨hg, hf⟩ | ⟨hg, hf⟩
      · simp only [hg, ne_eq, reduceCtorEq, not_false_eq_true, true_iff]
        exact hnew_ex (hf hel)
      · simp only [hg, ne_eq, not_true_eq_false, false_iff, not_exists, not_and, Decidable.not_not]
        exact hnew_all hf
    · rw [KV.mem_keys_iff_get, hframe _ (hkey c' he), ← KV.mem_keys_iff_get, hinv.elide hel c' hc' cs' hcs']
      constructor
      · rintro ⟨i, hi, hne⟩
        exact ⟨i, hi, by rw [hother c' hc' he cs' hcs' i hi]; exact hne⟩
      · rintro ⟨i, hi, hne⟩
        exact ⟨i, hi, by rw [← hother c' hc' he cs' hcs' i hi]; exact hne⟩

/-! ### single-chunk writes -/

/-- `storeChunk` with data whose elements are described pointwise -/
theorem storeChunk_step' (h : COk cfg G) {st : KV} {a a' : AArr α} (hinv : Inv cfg G st a)
    {c : Idx} {cs : Subset} (hc : inB c G = true) (hcs : cfg.chunkSubset c = some cs)
    (data : List α) (hlen : data.length = cs.numElements)
    (hin : ∀ i, cs.contains i = true → data[ravel (zipSub i cs.start) cs.shape]? = some (a' i))
    (hout : ∀ i, cs.contains i = false → a' i = a i) :
    ∃ st', cfg.storeChunk st c data = some st' ∧ Inv cfg G st' a' := by
  obtain ⟨cs0, hcs0, hsh, hwf, _, _⟩ := h.chunk_def c hc
  rw [hcs] at hcs0; cases hcs0
  simp only [storeChunk, hsh]
  rw [if_neg (by simp only [bne_iff_ne, ne_eq, Decidable.not_not]; exact hlen)]
  by_cases hcond : (!cfg.storeEmpty && cfg.isFill data) = true
  · rw [if_pos hcond]
    simp only [Bool.and_eq_true, Bool.not_eq_true'] at hcond
    refine ⟨_, rfl, Inv.update h hinv hc hcs data hlen (Or.inr ⟨?_, hcond.2⟩) ?_ hin hout⟩
    · rw [KV.get_erase]; simp
    · intro k hk; rw [KV.get_erase, if_neg hk]
  · rw [if_neg hcond]
    refine ⟨_, rfl, Inv.update h hinv hc hcs data hlen (Or.inl ⟨KV.get_put_same _ _ _, ?_⟩) ?_ hin hout⟩
    · intro hse
      simp only [hse, Bool.not_false, Bool.true_and, Bool.not_eq_true] at hcond
      exact hcond
    · intro k hk; exact KV.get_put_other _ _ _ _ hk

theorem getD_eq_of_getElem? {α} (l : List α) (n : Nat) (d x : α) (h : l[n]? = some x) : l.getD n d = x := by
  simp [List.getD, h]

theorem data_getElem?_getD (data : List α) (cs : Subset) (d : α) (hlen : data.length = cs.numElements)
    (i : Idx) (hi : cs.contains i = true) :
    data[ravel (zipSub i cs.start) cs.shape]? = some (data.getD (ravel (zipSub i cs.start) cs.shape) d) := by
  have hlt : ravel (zipSub i cs.start) cs.shape < data.length := by
    rw [hlen]; exact ravel_lt _ _ (mem_zipSub i cs.start cs.shape hi).1
  simp [List.getD, List.getElem?_eq_getElem hlt]

theorem storeChunk_step (h : COk cfg G) {st : KV} {a : AArr α} (hinv : Inv cfg G st a)
    {c : Idx} {cs : Subset} (hc : inB c G = true) (hcs : cfg.chunkSubset c = some cs)
    (data : List α) (hlen : data.length = cs.numElements) :
    ∃ st', cfg.storeChunk st c data = some st' ∧ Inv cfg G st' (a.write cs data cfg.fill) := by
  apply storeChunk_step' h hinv hc hcs data hlen
  · intro i hi
    simp only [AArr.write, hi, if_true]
    exact data_getElem?_getD data cs cfg.fill hlen i hi
  · intro i hi
    simp [AArr.write, hi]

theorem eraseChunk_step (h : COk cfg G) {st : KV} {a : AArr α} (hinv : Inv cfg G st a)
    {c : Idx} {cs : Subset} (hc : inB c G = true) (hcs : cfg.chunkSubset c = some cs) :
    Inv cfg G (cfg.eraseChunk st c) (a.fillRegion cs cfg.fill) := by
  apply Inv.update h hinv hc hcs (List.replicate cs.numElements cfg.fill) (by simp)
    (Or.inr ⟨by simp [eraseChunk, KV.get_erase], by simp [isFill_iff]⟩)
  · intro k hk; simp [eraseChunk, KV.get_erase, hk]
  · intro i hi
    have hlt : ravel (zipSub i cs.start) cs.shape < cs.numElements :=
      ravel_lt _ _ (mem_zipSub i cs.start cs.shape hi).1
    simp [AArr.fillRegion, hi, hlt]
  · intro i hi
    simp [AArr.fillRegion, hi]

/-- `storeChunkSubset`: whole-chunk fast path or read–update–store -/
theorem storeChunkSubset_step (h : COk cfg G) {st : KV} {a : AArr α} (hinv : Inv cfg G st a)
    {c : Idx} {cs : Subset} (hc : inB c G = true) (hcs : cfg.chunkSubset c = some cs)
    (r : Subset) (hr : r.wf = true) (hrb : r.inboundsShape cs.shape = true)
    (data : List α) (hlen : data.length = r.numElements) :
    ∃ st', cfg.storeChunkSubset st c r data = some st' ∧
      Inv cfg G st' (a.write ⟨addIdx r.start cs.start, r.shape⟩ data cfg.fill) := by
  obtain ⟨cs0, hcs0, hsh, hwf, _, _⟩ := h.chunk_def c hc
  rw [hcs] at hcs0; cases hcs0
  have hwf' := hwf
  have hr' := hr
  have hrb' := hrb
  simp only [Subset.wf, beq_iff_eq] at hwf' hr'
  simp only [Subset.inboundsShape, Subset.rank, Subset.endExc, Bool.and_eq_true, beq_iff_eq] at hrb'
  -- membership in the shifted region
  have hmem : ∀ i, cs.contains i = true →
      (⟨addIdx r.start cs.start, r.shape⟩ : Subset).contains i = r.contains (zipSub i cs.start) := by
    intro i hi
    obtain ⟨hj, hadd⟩ := mem_zipSub i cs.start cs.shape hi
    have := mem_add_right (zipSub i cs.start) r.start r.shape cs.start (by omega)
      (by rw [inB_length hj]; omega)
    rw [hadd] at this
    exact this
  have hsubset : ∀ i, (⟨addIdx r.start cs.start, r.shape⟩ : Subset).contains i = true →
      cs.contains i = true := by
    intro i hi
    exact mem_of_allLe i (addIdx r.start cs.start) r.shape cs.start cs.shape
      (by simp only [addIdx_length]; omega) hwf' (by simp only [addIdx_length]; omega)
      (allLe_addIdx_left _ _) (allLe_shift _ _ _ _ hrb'.2) hi
  simp only [storeChunkSubset, hsh]
  rw [if_neg (by
    simp only [Bool.not_eq_true', Bool.not_eq_false]
    exact hrb)]
  by_cases hfast : (r.shape == cs.shape && r.start.all (· == 0)) = true
  · rw [if_pos hfast]
    simp only [Bool.and_eq_true, beq_iff_eq, List.all_eq_true] at hfast
    have hstart : addIdx r.start cs.start = cs.start := by
      have : ∀ (z o : List Nat), (∀ x ∈ z, x = 0) → z.length = o.length → addIdx z o = o := by
        intro z
        induction z with
        | nil => intro o _ hl; cases o <;> simp_all [addIdx]
        | cons x xs ih =>
          intro o hz hl
          cases o with
          | nil => simp at hl
          | cons y ys =>
            simp only [List.mem_cons, forall_eq_or_imp] at hz
            simp only [List.length_cons, Nat.add_right_cancel_iff] at hl
            simp [addIdx, hz.1, ih ys hz.2 hl]
      exact this _ _ hfast.2 (by omega)
    have : (⟨addIdx r.start cs.start, r.shape⟩ : Subset) = cs := by
      rw [hstart, hfast.1]
    rw [this]
    exact storeChunk_step h hinv hc hcs data (by rw [hlen, Subset.numElements, hfast.1]; rfl)
  · rw [if_neg hfast, if_neg (by simp only [bne_iff_ne, ne_eq, Decidable.not_not]; exact hlen)]
    rw [hinv.chunks c hc cs hcs]
    simp only
    obtain ⟨hul, hup⟩ := updateRuns_spec cs.shape r (a.read cs) data hr hrb (a.read_length cs) hlen
    apply storeChunk_step' h hinv hc hcs _ hul
    · intro i hi
      obtain ⟨hj, hadd⟩ := mem_zipSub i cs.start cs.shape hi
      rw [hup _ hj]
      have hm := hmem i hi
      by_cases hrc : r.contains (zipSub i cs.start) = true
      · rw [hrc] at hm
        simp only [AArr.write, hm, hrc, if_true]
        rw [zipSub_addIdx_right]
        exact data_getElem?_getD data r cfg.fill hlen _ hrc
      · rw [Bool.not_eq_true] at hrc
        rw [hrc] at hm
        simp only [AArr.write, hm, hrc, Bool.false_eq_true, if_false]
        exact a.read_getElem?_ravel cs i hi
    · intro i hi
      have : (⟨addIdx r.start cs.start, r.shape⟩ : Subset).contains i = false := by
        cases hc' : (⟨addIdx r.start cs.start, r.shape⟩ : Subset).contains i with
        | false => rfl
        | true => rw [hsubset i hc'] at hi; cases hi
      simp only [AArr.write, this, Bool.false_eq_true, if_false]

/-! ### single-chunk reads -/

theorem retrieveChunkSubset_read (h : COk cfg G) {st : KV} {a : AArr α} (hinv : Inv cfg G st a)
    {c : Idx} {cs : Subset} (hc : inB c G = true) (hcs : cfg.chunkSubset c = some cs)
    (r : Subset) (hr : r.wf = true) (hrb : r.inboundsShape cs.shape = true) :
    cfg.retrieveChunkSubset st c r = some (a.read ⟨addIdx r.start cs.start, r.shape⟩) := by
  obtain ⟨cs0, hcs0, hsh, hwf, _, _⟩ := h.chunk_def c hc
  rw [hcs] at hcs0; cases hcs0
  simp only [retrieveChunkSubset, hsh, hrb, Bool.not_true, Bool.false_eq_true, if_false,
    hinv.chunks c hc cs hcs, Option.map_some]
  congr 1
  obtain ⟨hel, hep⟩ := extract_spec r cs.shape (a.read cs) hr hrb (a.read_length cs)
  apply list_ext_box r.shape _ _ hel (AArr.read_length a ⟨addIdx r.start cs.start, r.shape⟩)
  intro j hj
  rw [hep j hj, AArr.read_getElem?_box a ⟨addIdx r.start cs.start, r.shape⟩ j hj]
  simp only [Subset.wf, beq_iff_eq] at hr
  simp only [Subset.inboundsShape, Subset.rank, Subset.endExc, Bool.and_eq_true, beq_iff_eq] at hrb
  have hjb : inB (addIdx j r.start) cs.shape = true :=
    inB_of_allLe_end _ r.start r.shape cs.shape hrb.1 hrb.2 (mem_addIdx j r.start r.shape hr hj)
  rw [a.read_getElem?_box cs _ hjb, addIdx_assoc]

end ArrCfg
end Zarrs
