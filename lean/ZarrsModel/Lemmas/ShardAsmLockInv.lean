import ZarrsModel.Lemmas.ShardAsmLock
set_option Elab.async false
/- invariants of the reachable states of a well-formed pool in which no program holds the mutex across a join -/
namespace Zarrs.ShardAsm

def onStack (s : PState) (x : Nat) : Prop := ∃ (w : Nat) (st : List (Nat × Nat)) (pc : Nat), s.stacks[w]? = some st ∧ (x, pc) ∈ st
def Live (s : PState) (x : Nat) : Prop := x ∈ s.queue ∨ onStack s x ∨ x ∈ s.finished

def prog (P : Pool) (t : Nat) : List Instr := P.progs.getD t []
def heldFr (P : Pool) (fr : Nat × Nat) : Bool := heldAfter false (prog P fr.1) fr.2

theorem instrAt_eq (P : Pool) (t pc : Nat) : instrAt P t pc = (prog P t)[pc]? := rfl

structure PInv (P : Pool) (s : PState) : Prop where
  len : s.stacks.length = P.workers
  below : ∀ (w : Nat) (f : Nat × Nat) (rest : List (Nat × Nat)), s.stacks[w]? = some (f :: rest) → ∀ fr ∈ rest, ∃ c, instrAt P fr.1 fr.2 = some (.wait c)
  held : ∀ (w : Nat) (st : List (Nat × Nat)), s.stacks[w]? = some st → ∀ fr ∈ st, heldFr P fr = true → s.holder = some w
  holderTop : ∀ (w : Nat), s.holder = some w → ∃ (t pc : Nat) (below : List (Nat × Nat)), s.stacks[w]? = some ((t, pc) :: below) ∧ heldFr P (t, pc) = true
  liveRoot : ∀ r ∈ P.roots, Live s r
  liveFork : ∀ (w : Nat) (st : List (Nat × Nat)), s.stacks[w]? = some st → ∀ fr ∈ st, ∀ (k c : Nat), k < fr.2 → instrAt P fr.1 k = some (.fork c) → Live s c
  liveFin : ∀ t ∈ s.finished, ∀ (k c : Nat), instrAt P t k = some (.fork c) → Live s c

theorem pinv_init (P : Pool) : PInv P (pinit P) := by
  have hst : ∀ (w : Nat) (st : List (Nat × Nat)), (pinit P).stacks[w]? = some st → st = [] := by
    intro w st h
    simp only [pinit, List.getElem?_replicate] at h
    split at h
    · simp only [Option.some.injEq] at h; exact h.symm
    · cases h
  refine ⟨by simp [pinit], ?_, ?_, ?_, ?_, ?_, ?_⟩
  · intro w f rest h; have := hst _ _ h; cases this
  · intro w st h fr hfr; rw [hst _ _ h] at hfr; cases hfr
  · intro w h; cases h
  · intro r hr; exact Or.inl hr
  · intro w st h fr hfr; rw [hst _ _ h] at hfr; cases hfr
  · intro t ht; cases ht

/-- tasks only move queue → stack → finished -/
theorem live_mono (s s' : PState) (w : Nat) (st st' : List (Nat × Nat)) (hst : s.stacks[w]? = some st)
    (hs' : s'.stacks = s.stacks.set w st')
    (hq : ∀ x ∈ s.queue, x ∈ s'.queue ∨ ∃ pc, (x, pc) ∈ st')
    (hfr : ∀ fr ∈ st, (∃ pc, (fr.1, pc) ∈ st') ∨ fr.1 ∈ s'.finished)
    (hf : ∀ x ∈ s.finished, x ∈ s'.finished) : ∀ x, Live s x → Live s' x := by
  have hw' : s'.stacks[w]? = some st' := by rw [hs']; exact set_get_self _ _ _ _ hst
  intro x hx
  rcases hx with h | ⟨w2, st2, pc, h2, hm⟩ | h
  · rcases hq x h with h | ⟨pc, h⟩
    · exact Or.inl h
    · exact Or.inr (Or.inl ⟨w, st', pc, hw', h⟩)
  · by_cases hw : w2 = w
    · subst hw
      rw [hst] at h2
      simp only [Option.some.injEq] at h2
      subst h2
      rcases hfr _ hm with ⟨pc', h⟩ | h
      · exact Or.inr (Or.inl ⟨w2, st', pc', hw', h⟩)
      · exact Or.inr (Or.inr h)
    · exact Or.inr (Or.inl ⟨w2, st2, pc, by rw [hs', set_get_ne _ _ _ _ hw]; exact h2, hm⟩)
  · exact Or.inr (Or.inr (hf x h))

theorem frames_cases (s s' : PState) (w : Nat) (st' : List (Nat × Nat)) (hs' : s'.stacks = s.stacks.set w st')
    (w2 : Nat) (st2 : List (Nat × Nat)) (h : s'.stacks[w2]? = some st2) :
    (w2 = w ∧ st2 = st') ∨ (w2 ≠ w ∧ s.stacks[w2]? = some st2) := by
  rw [hs'] at h; exact set_get_cases _ _ _ _ _ h

structure PoolOk (P : Pool) : Prop where
  bal : ∀ t, balanced false (prog P t) = true
  nojoin : ∀ t, lockAcrossJoin false (prog P t) = false

theorem heldFr_zero (P : Pool) (c : Nat) : heldFr P (c, 0) = false := by
  simp only [heldFr]
  cases prog P c <;> rfl

theorem heldFr_succ (P : Pool) (t pc : Nat) : heldFr P (t, pc + 1) = (match instrAt P t pc with
    | some .lock => true
    | some .unlock => false
    | _ => heldFr P (t, pc)) := heldAfter_succ _ _ _

theorem wait_not_held (P : Pool) (ok : PoolOk P) (fr : Nat × Nat) (c : Nat) (h : instrAt P fr.1 fr.2 = some (.wait c)) :
    heldFr P fr = false := (nojoin_facts _ false fr.2 (ok.nojoin fr.1)).1 c h

/-- (A) an idle worker takes a queued task -/
theorem pinv_take (P : Pool) (s : PState) (w c : Nat) (inv : PInv P s)
    (hst : s.stacks[w]? = some []) (hc : c ∈ s.queue) :
    PInv P ⟨s.stacks.set w [(c, 0)], s.queue.erase c, s.finished, s.holder⟩ := by
  have hlive : ∀ x, Live s x → Live ⟨s.stacks.set w [(c, 0)], s.queue.erase c, s.finished, s.holder⟩ x := by
    apply live_mono s _ w [] [(c, 0)] hst rfl
    · intro x hx
      by_cases hxc : x = c
      · subst hxc; exact Or.inr ⟨0, List.mem_singleton.mpr rfl⟩
      · exact Or.inl ((List.mem_erase_of_ne hxc).mpr hx)
    · intro fr hfr; cases hfr
    · intro x hx; exact hx
  refine ⟨by simp [inv.len], ?_, ?_, ?_, ?_, ?_, ?_⟩
  · intro w2 f rest h fr hfr
    rcases frames_cases s _ w _ rfl w2 _ h with ⟨_, he⟩ | ⟨_, ho⟩
    · simp only [List.cons.injEq] at he; rw [he.2] at hfr; cases hfr
    · exact inv.below w2 f rest ho fr hfr
  · intro w2 st2 h fr hfr hh
    rcases frames_cases s _ w _ rfl w2 _ h with ⟨_, he⟩ | ⟨_, ho⟩
    · subst he
      simp only [List.mem_singleton] at hfr
      subst hfr
      rw [heldFr_zero] at hh; cases hh
    · exact inv.held w2 st2 ho fr hfr hh
  · intro h hh
    obtain ⟨t, pc, below, h1, h2⟩ := inv.holderTop h hh
    have hne : h ≠ w := by
      intro e; subst e; rw [hst] at h1; cases h1
    exact ⟨t, pc, below, by show (s.stacks.set w _)[h]? = _; rw [set_get_ne _ _ _ _ hne]; exact h1, h2⟩
  · intro r hr; exact hlive r (inv.liveRoot r hr)
  · intro w2 st2 h fr hfr k c' hk hi
    rcases frames_cases s _ w _ rfl w2 _ h with ⟨_, he⟩ | ⟨_, ho⟩
    · subst he
      simp only [List.mem_singleton] at hfr
      subst hfr
      simp at hk
    · exact hlive c' (inv.liveFork w2 st2 ho fr hfr k c' hk hi)
  · intro t ht k c' hi
    exact hlive c' (inv.liveFin t ht k c' hi)


/-- (B) the top task ends -/
theorem pinv_end (P : Pool) (ok : PoolOk P) (s : PState) (w t pc : Nat) (below : List (Nat × Nat)) (inv : PInv P s)
    (hst : s.stacks[w]? = some ((t, pc) :: below)) (hi : instrAt P t pc = none) :
    PInv P ⟨s.stacks.set w below, s.queue, t :: s.finished, s.holder⟩ := by
  have hlive : ∀ x, Live s x → Live ⟨s.stacks.set w below, s.queue, t :: s.finished, s.holder⟩ x := by
    apply live_mono s _ w _ below hst rfl
    · intro x hx; exact Or.inl hx
    · intro fr hfr
      simp only [List.mem_cons] at hfr
      rcases hfr with rfl | hfr
      · exact Or.inr List.mem_cons_self
      · exact Or.inl ⟨fr.2, hfr⟩
    · intro x hx; exact List.mem_cons_of_mem _ hx
  have hnh : heldFr P (t, pc) = false := (balanced_facts _ false pc (ok.bal t)).2.2 hi
  refine ⟨by simp [inv.len], ?_, ?_, ?_, ?_, ?_, ?_⟩
  · intro w2 f rest h fr hfr
    rcases frames_cases s _ w _ rfl w2 _ h with ⟨_, he⟩ | ⟨_, ho⟩
    · exact inv.below w _ _ hst fr (by rw [← he]; exact List.mem_cons_of_mem _ hfr)
    · exact inv.below w2 f rest ho fr hfr
  · intro w2 st2 h fr hfr hh
    rcases frames_cases s _ w _ rfl w2 _ h with ⟨hw, he⟩ | ⟨_, ho⟩
    · subst he; subst hw
      exact inv.held w2 _ hst fr (List.mem_cons_of_mem _ hfr) hh
    · exact inv.held w2 st2 ho fr hfr hh
  · intro h hh
    obtain ⟨t', pc', below', h1, h2⟩ := inv.holderTop h hh
    have hne : h ≠ w := by
      intro e; subst e; rw [hst] at h1
      simp only [Option.some.injEq, List.cons.injEq, Prod.mk.injEq] at h1
      obtain ⟨⟨rfl, rfl⟩, _⟩ := h1
      rw [hnh] at h2; cases h2
    exact ⟨t', pc', below', by show (s.stacks.set w _)[h]? = _; rw [set_get_ne _ _ _ _ hne]; exact h1, h2⟩
  · intro r hr; exact hlive r (inv.liveRoot r hr)
  · intro w2 st2 h fr hfr k c' hk hi'
    rcases frames_cases s _ w _ rfl w2 _ h with ⟨hw, he⟩ | ⟨_, ho⟩
    · subst he; subst hw
      exact hlive c' (inv.liveFork w2 _ hst fr (List.mem_cons_of_mem _ hfr) k c' hk hi')
    · exact hlive c' (inv.liveFork w2 st2 ho fr hfr k c' hk hi')
  · intro t' ht k c' hi'
    have ht' : t' ∈ t :: s.finished := ht
    simp only [List.mem_cons] at ht'
    rcases ht' with rfl | ht'
    · have hk : k < pc := by
        rw [instrAt_eq] at hi hi'
        have h1 : (prog P t').length ≤ pc := by
          by_cases h : pc < (prog P t').length
          · rw [List.getElem?_eq_getElem h] at hi; cases hi
          · omega
        have h2 : k < (prog P t').length := by
          by_cases h : k < (prog P t').length
          · exact h
          · rw [List.getElem?_eq_none (by omega)] at hi'; cases hi'
        omega
      exact hlive c' (inv.liveFork w _ hst (t', pc) List.mem_cons_self k c' hk hi')
    · exact hlive c' (inv.liveFin t' ht' k c' hi')

/-- (D) a worker waiting for an unfinished child takes a queued task on top of its stack -/
theorem pinv_steal (P : Pool) (ok : PoolOk P) (s : PState) (w c t pc c' : Nat) (below : List (Nat × Nat)) (inv : PInv P s)
    (hst : s.stacks[w]? = some ((t, pc) :: below)) (hi : instrAt P t pc = some (.wait c')) (hc : c ∈ s.queue) :
    PInv P ⟨s.stacks.set w ((c, 0) :: (t, pc) :: below), s.queue.erase c, s.finished, s.holder⟩ := by
  have hlive : ∀ x, Live s x → Live ⟨s.stacks.set w ((c, 0) :: (t, pc) :: below), s.queue.erase c, s.finished, s.holder⟩ x := by
    apply live_mono s _ w _ ((c, 0) :: (t, pc) :: below) hst rfl
    · intro x hx
      by_cases hxc : x = c
      · subst hxc; exact Or.inr ⟨0, List.mem_cons_self⟩
      · exact Or.inl ((List.mem_erase_of_ne hxc).mpr hx)
    · intro fr hfr; exact Or.inl ⟨fr.2, List.mem_cons_of_mem _ hfr⟩
    · intro x hx; exact hx
  have hnh : heldFr P (t, pc) = false := wait_not_held P ok (t, pc) c' hi
  refine ⟨by simp [inv.len], ?_, ?_, ?_, ?_, ?_, ?_⟩
  · intro w2 f rest h fr hfr
    rcases frames_cases s _ w _ rfl w2 _ h with ⟨_, he⟩ | ⟨_, ho⟩
    · simp only [List.cons.injEq] at he
      rw [he.2] at hfr
      simp only [List.mem_cons] at hfr
      rcases hfr with rfl | hfr
      · exact ⟨c', hi⟩
      · exact inv.below w _ _ hst fr hfr
    · exact inv.below w2 f rest ho fr hfr
  · intro w2 st2 h fr hfr hh
    rcases frames_cases s _ w _ rfl w2 _ h with ⟨hw, he⟩ | ⟨_, ho⟩
    · subst he; subst hw
      simp only [List.mem_cons] at hfr
      rcases hfr with rfl | hfr
      · rw [heldFr_zero] at hh; cases hh
      · exact inv.held w2 _ hst fr (List.mem_cons.mpr hfr) hh
    · exact inv.held w2 st2 ho fr hfr hh
  · intro h hh
    obtain ⟨t', pc', below', h1, h2⟩ := inv.holderTop h hh
    have hne : h ≠ w := by
      intro e; subst e; rw [hst] at h1
      simp only [Option.some.injEq, List.cons.injEq, Prod.mk.injEq] at h1
      obtain ⟨⟨rfl, rfl⟩, _⟩ := h1
      rw [hnh] at h2; cases h2
    exact ⟨t', pc', below', by show (s.stacks.set w _)[h]? = _; rw [set_get_ne _ _ _ _ hne]; exact h1, h2⟩
  · intro r hr; exact hlive r (inv.liveRoot r hr)
  · intro w2 st2 h fr hfr k c'' hk hi'
    rcases frames_cases s _ w _ rfl w2 _ h with ⟨hw, he⟩ | ⟨_, ho⟩
    · subst he; subst hw
      simp only [List.mem_cons] at hfr
      rcases hfr with rfl | hfr
      · simp at hk
      · exact hlive c'' (inv.liveFork w2 _ hst fr (List.mem_cons.mpr hfr) k c'' hk hi')
    · exact hlive c'' (inv.liveFork w2 st2 ho fr hfr k c'' hk hi')
  · intro t' ht k c'' hi'
    exact hlive c'' (inv.liveFin t' ht k c'' hi')


/-- (C) the top task advances by one instruction: the parts of the invariant that do not concern the mutex -/
theorem adv_common (P : Pool) (s : PState) (w t pc : Nat) (below : List (Nat × Nat)) (q' : List Nat) (h' : Option Nat)
    (i : Instr) (inv : PInv P s) (hst : s.stacks[w]? = some ((t, pc) :: below)) (hi : instrAt P t pc = some i)
    (hq : ∀ x ∈ s.queue, x ∈ q') (hfq : ∀ c, i = .fork c → c ∈ q') :
    let s' : PState := ⟨s.stacks.set w ((t, pc + 1) :: below), q', s.finished, h'⟩
    s'.stacks.length = P.workers ∧
    (∀ (w2 : Nat) (f : Nat × Nat) (rest : List (Nat × Nat)), s'.stacks[w2]? = some (f :: rest) → ∀ fr ∈ rest,
      ∃ c, instrAt P fr.1 fr.2 = some (.wait c)) ∧
    (∀ r ∈ P.roots, Live s' r) ∧
    (∀ (w2 : Nat) (st2 : List (Nat × Nat)), s'.stacks[w2]? = some st2 → ∀ fr ∈ st2, ∀ (k c : Nat), k < fr.2 →
      instrAt P fr.1 k = some (.fork c) → Live s' c) ∧
    (∀ t' ∈ s'.finished, ∀ (k c : Nat), instrAt P t' k = some (.fork c) → Live s' c) := by
  intro s'
  have hlive : ∀ x, Live s x → Live s' x := by
    apply live_mono s s' w _ ((t, pc + 1) :: below) hst rfl
    · intro x hx; exact Or.inl (hq x hx)
    · intro fr hfr
      simp only [List.mem_cons] at hfr
      rcases hfr with rfl | hfr
      · exact Or.inl ⟨pc + 1, List.mem_cons_self⟩
      · exact Or.inl ⟨fr.2, List.mem_cons_of_mem _ hfr⟩
    · intro x hx; exact hx
  refine ⟨by simp [s', inv.len], ?_, ?_, ?_, ?_⟩
  · intro w2 f rest h fr hfr
    rcases frames_cases s s' w _ rfl w2 _ h with ⟨_, he⟩ | ⟨_, ho⟩
    · simp only [List.cons.injEq] at he
      rw [he.2] at hfr
      exact inv.below w _ _ hst fr hfr
    · exact inv.below w2 f rest ho fr hfr
  · intro r hr; exact hlive r (inv.liveRoot r hr)
  · intro w2 st2 h fr hfr k c' hk hi'
    rcases frames_cases s s' w _ rfl w2 _ h with ⟨hw, he⟩ | ⟨_, ho⟩
    · subst he; subst hw
      simp only [List.mem_cons] at hfr
      rcases hfr with rfl | hfr
      · by_cases hkp : k < pc
        · exact hlive c' (inv.liveFork w2 _ hst (t, pc) List.mem_cons_self k c' hkp hi')
        · have : k = pc := by simp only at hk; omega
          subst this
          simp only at hi'
          rw [hi] at hi'
          simp only [Option.some.injEq] at hi'
          exact Or.inl (hfq c' hi')
      · exact hlive c' (inv.liveFork w2 _ hst fr (List.mem_cons_of_mem _ hfr) k c' hk hi')
    · exact hlive c' (inv.liveFork w2 st2 ho fr hfr k c' hk hi')
  · intro t' ht k c' hi'
    exact hlive c' (inv.liveFin t' ht k c' hi')

/-- (C1) `work`, `fork`, a `wait` whose child has finished: the holder does not change -/
theorem pinv_adv_plain (P : Pool) (s : PState) (w t pc : Nat) (below : List (Nat × Nat)) (q' : List Nat)
    (i : Instr) (inv : PInv P s) (hst : s.stacks[w]? = some ((t, pc) :: below)) (hi : instrAt P t pc = some i)
    (hq : ∀ x ∈ s.queue, x ∈ q') (hfq : ∀ c, i = .fork c → c ∈ q') (hl : i ≠ .lock) (hu : i ≠ .unlock) :
    PInv P ⟨s.stacks.set w ((t, pc + 1) :: below), q', s.finished, s.holder⟩ := by
  obtain ⟨h1, h2, h3, h4, h5⟩ := adv_common P s w t pc below q' s.holder i inv hst hi hq hfq
  have hsame : heldFr P (t, pc + 1) = heldFr P (t, pc) := by
    rw [heldFr_succ, hi]
    cases i <;> first | rfl | exact absurd rfl hl | exact absurd rfl hu
  refine ⟨h1, h2, ?_, ?_, h3, h4, h5⟩
  · intro w2 st2 h fr hfr hh
    rcases frames_cases s _ w _ rfl w2 _ h with ⟨hw, he⟩ | ⟨_, ho⟩
    · subst he; subst hw
      simp only [List.mem_cons] at hfr
      rcases hfr with rfl | hfr
      · rw [hsame] at hh
        exact inv.held w2 _ hst (t, pc) List.mem_cons_self hh
      · exact inv.held w2 _ hst fr (List.mem_cons_of_mem _ hfr) hh
    · exact inv.held w2 st2 ho fr hfr hh
  · intro h hh
    obtain ⟨t', pc', below', h1', h2'⟩ := inv.holderTop h hh
    by_cases hne : h = w
    · subst hne
      rw [hst] at h1'
      simp only [Option.some.injEq, List.cons.injEq, Prod.mk.injEq] at h1'
      obtain ⟨⟨rfl, rfl⟩, rfl⟩ := h1'
      exact ⟨t, pc + 1, below, set_get_self _ _ _ _ hst, by rw [hsame]; exact h2'⟩
    · exact ⟨t', pc', below', by show (s.stacks.set w _)[h]? = _; rw [set_get_ne _ _ _ _ hne]; exact h1', h2'⟩

/-- (C2) `lock` on the free mutex -/
theorem pinv_adv_lock (P : Pool) (s : PState) (w t pc : Nat) (below : List (Nat × Nat))
    (inv : PInv P s) (hst : s.stacks[w]? = some ((t, pc) :: below)) (hi : instrAt P t pc = some .lock)
    (hfree : s.holder = none) :
    PInv P ⟨s.stacks.set w ((t, pc + 1) :: below), s.queue, s.finished, some w⟩ := by
  obtain ⟨h1, h2, h3, h4, h5⟩ := adv_common P s w t pc below s.queue (some w) .lock inv hst hi (fun _ h => h)
    (fun c h => by cases h)
  refine ⟨h1, h2, ?_, ?_, h3, h4, h5⟩
  · intro w2 st2 h fr hfr hh
    rcases frames_cases s _ w _ rfl w2 _ h with ⟨hw, _⟩ | ⟨_, ho⟩
    · rw [hw]
    · have := inv.held w2 st2 ho fr hfr hh
      rw [hfree] at this; cases this
  · intro h hh
    have : h = w := by
      have hh' : some w = some h := hh
      simp only [Option.some.injEq] at hh'; exact hh'.symm
    subst this
    exact ⟨t, pc + 1, below, set_get_self _ _ _ _ hst, by rw [heldFr_succ, hi]⟩

/-- (C3) `unlock` -/
theorem pinv_adv_unlock (P : Pool) (ok : PoolOk P) (s : PState) (w t pc : Nat) (below : List (Nat × Nat))
    (inv : PInv P s) (hst : s.stacks[w]? = some ((t, pc) :: below)) (hi : instrAt P t pc = some .unlock) :
    PInv P ⟨s.stacks.set w ((t, pc + 1) :: below), s.queue, s.finished, none⟩ := by
  obtain ⟨h1, h2, h3, h4, h5⟩ := adv_common P s w t pc below s.queue none .unlock inv hst hi (fun _ h => h)
    (fun c h => by cases h)
  have hheld : heldFr P (t, pc) = true := (balanced_facts _ false pc (ok.bal t)).1 hi
  have hw : s.holder = some w := inv.held w _ hst (t, pc) List.mem_cons_self hheld
  refine ⟨h1, h2, ?_, ?_, h3, h4, h5⟩
  · intro w2 st2 h fr hfr hh
    exfalso
    rcases frames_cases s _ w _ rfl w2 _ h with ⟨hw2, he⟩ | ⟨hne, ho⟩
    · subst he
      simp only [List.mem_cons] at hfr
      rcases hfr with rfl | hfr
      · rw [heldFr_succ, hi] at hh; cases hh
      · obtain ⟨c, hc⟩ := inv.below w _ _ hst fr hfr
        rw [wait_not_held P ok fr c hc] at hh; cases hh
    · have := inv.held w2 st2 ho fr hfr hh
      rw [hw] at this
      simp only [Option.some.injEq] at this
      exact hne this.symm
  · intro h hh; cases hh

/-- **every step preserves the invariant** -/
theorem pinv_step (P : Pool) (ok : PoolOk P) (s s' : PState) (w c : Nat) (inv : PInv P s) (h : pstep P s w c = some s') :
    PInv P s' := by
  rcases pstep_cases P s s' w c h with ⟨hst, hc, rfl⟩ | ⟨t, pc, below, hst, hi, rfl⟩ |
    ⟨t, pc, below, q', h', hst, rfl, hcase⟩ | ⟨t, pc, below, c', hst, hi, _, hc, rfl⟩
  · exact pinv_take P s w c inv hst hc
  · exact pinv_end P ok s w t pc below inv hst hi
  · rcases hcase with ⟨hi, rfl, rfl⟩ | ⟨hi, hfree, rfl, rfl⟩ | ⟨hi, rfl, rfl⟩ | ⟨c', hi, rfl, rfl⟩ | ⟨c', hi, _, rfl, rfl⟩
    · exact pinv_adv_plain P s w t pc below _ .work inv hst hi (fun _ h => h) (fun c h => by cases h)
        (by intro h; cases h) (by intro h; cases h)
    · exact pinv_adv_lock P s w t pc below inv hst hi hfree
    · exact pinv_adv_unlock P ok s w t pc below inv hst hi
    · exact pinv_adv_plain P s w t pc below _ (.fork c') inv hst hi (fun _ h => List.mem_cons_of_mem _ h)
        (fun c h => by cases h; exact List.mem_cons_self) (by intro h; cases h) (by intro h; cases h)
    · exact pinv_adv_plain P s w t pc below _ (.wait c') inv hst hi (fun _ h => h) (fun c h => by cases h)
        (by intro h; cases h) (by intro h; cases h)
  · exact pinv_steal P ok s w c t pc c' below inv hst hi hc

theorem pinv_reach (P : Pool) (ok : PoolOk P) (s : PState) (h : PReach P s) : PInv P s := by
  induction h with
  | init => exact pinv_init P
  | step s s' w c _ hstep ih => exact pinv_step P ok s s' w c ih hstep

end Zarrs.ShardAsm
